(* C04, the print stage with escaping: {print e|d1|d2...} for the directives
   id, noAutoescape, escapeHtml, under any autoescape mode. *)
From Soy Require Import Model.Bytes Model.Num Model.Values Model.Outcome Model.Ast Model.JsGen Model.MiniJS
  Model.Escape Model.Directives Model.Print Generated.Tables Model.Interp
  Proofs.EscapeProofs Proofs.MiniJSProofs Proofs.MiniJSPrint.
Open Scope N_scope.

(* ---- the three texts ---- *)
Definition go_dir_text (d : pdir) (s : bstr) : bstr := match d with PEscapeHtml => tmpl_html_escape s | _ => s end.
Fixpoint go_dirs_text (ds : list pdir) (s : bstr) : bstr :=
  match ds with [] => s | d :: r => go_dirs_text r (go_dir_text d s) end.
(* what the Go renderer writes for {print e|ds} when String() of the value is s *)
Definition go_print_text (mode : N) (ds : list pdir) (s : bstr) : bstr :=
  match ds with [] => if mode =? 2 then s else html_escape s | _ => go_dirs_text ds s end.

Definition js_dir_text (d : pdir) (s : bstr) : bstr := match d with PEscapeHtml => js_escape_html s | _ => s end.
Fixpoint js_dirs_text (ds : list pdir) (s : bstr) : bstr :=
  match ds with [] => s | d :: r => js_dirs_text r (js_dir_text d s) end.
Definition js_print_text (mode : N) (ds : list pdir) (s : bstr) : bstr :=
  match ds with [] => if mode =? 2 then s else js_escape_html s | _ => js_dirs_text ds s end.

(* a text on which the two escapers agree: no NUL and no double quote
   (finding quote-entity: &#34; against &quot;; NUL: U+FFFD / untouched against &#0;) *)
Definition clean (s : bstr) : Prop := Forall (fun c => c <> 0 /\ c <> 34) s.

Lemma entity_agree c : c <> 0 -> c <> 34 -> js_html_entity c = html_entity c /\ js_html_entity c = tmpl_entity c.
Proof.
  intros H0 H34. unfold js_html_entity, html_entity, tmpl_entity.
  replace (c =? 0) with false by (symmetry; apply N.eqb_neq; exact H0).
  replace (c =? 34) with false by (symmetry; apply N.eqb_neq; exact H34).
  cbn [assoc html_entity_table].
  replace (c =? 34) with false by (symmetry; apply N.eqb_neq; exact H34).
  destruct (N.eqb_spec c 38) as [->|N38]; [split; reflexivity|].
  destruct (N.eqb_spec c 39) as [->|N39]; [split; reflexivity|].
  destruct (N.eqb_spec c 60) as [->|N60]; [split; reflexivity|].
  destruct (N.eqb_spec c 62) as [->|N62]; split; reflexivity.
Qed.

Lemma entity_clean c e : js_html_entity c = Some e -> clean e.
Proof.
  unfold js_html_entity. repeat (destruct (c =? _); [intro H; inversion H; subst; repeat constructor; discriminate|]). discriminate.
Qed.

Lemma js_escape_clean s : clean s -> js_escape_html s = html_escape s /\ js_escape_html s = tmpl_html_escape s /\ clean (js_escape_html s).
Proof.
  rewrite html_escape_is_flat. induction 1 as [|c r [H0 H34] Hr IH]; cbn [js_escape_html html_escape_flat tmpl_html_escape].
  - repeat split; constructor.
  - destruct IH as (I1 & I2 & I3). destruct (entity_agree c H0 H34) as [A1 A2]. rewrite <- A1, <- A2.
    destruct (js_html_entity c) as [e|] eqn:Ee.
    + split; [rewrite I1; reflexivity|]. split; [rewrite I2; reflexivity|]. apply Forall_app. split; [exact (entity_clean c e Ee)|exact I3].
    + split; [rewrite I1; reflexivity|]. split; [rewrite I2; reflexivity|]. constructor; auto.
Qed.

Lemma dirs_text_agree ds : forall s, clean s -> js_dirs_text ds s = go_dirs_text ds s /\ clean (js_dirs_text ds s).
Proof.
  induction ds as [|d r IH]; intros s Hc; cbn [js_dirs_text go_dirs_text]. auto.
  destruct d; cbn [js_dir_text go_dir_text]; try (apply IH; exact Hc).
  destruct (js_escape_clean s Hc) as (_ & E2 & C). rewrite <- E2. apply IH. exact C.
Qed.

(* on clean text the two backends print the same bytes *)
Theorem print_text_agree mode ds s : clean s -> js_print_text mode ds s = go_print_text mode ds s.
Proof.
  intro Hc. unfold js_print_text, go_print_text. destruct ds as [|d r].
  - destruct (mode =? 2); [reflexivity|]. exact (proj1 (js_escape_clean s Hc)).
  - exact (proj1 (dirs_text_agree (d :: r) s Hc)).
Qed.

(* ---- the JavaScript side ---- *)
Lemma js_wrap_escapes je ds : forall x jv s, js_eval je x = Ok jv -> js_tostring jv = Some s ->
  exists jv', js_eval je (wrap_escapes ds x) = Ok jv' /\ js_tostring jv' = Some (js_dirs_text ds s).
Proof.
  induction ds as [|d r IH]; intros x jv s Hx Ht; cbn [wrap_escapes js_dirs_text]. eauto.
  destruct d; cbn [js_dir_text]; try solve [eapply IH; eauto].
  apply (IH (JEEscapeHtml x) (JStr (js_escape_html s))). cbn [js_eval]. rewrite Hx. cbn [bind]. rewrite Ht. reflexivity. reflexivity.
Qed.

Lemma js_print_expr je mode ds x jv s : js_eval je x = Ok jv -> js_tostring jv = Some s ->
  exists jv', js_eval je (cgen_print_expr mode ds x) = Ok jv' /\ js_tostring jv' = Some (js_print_text mode ds s).
Proof.
  intros Hx Ht. unfold cgen_print_expr, js_print_text. destruct (js_wrap_escapes je ds x jv s Hx Ht) as (jv1 & E1 & T1).
  destruct ds as [|d r]; [|eauto]. cbn [wrap_escapes js_dirs_text] in *. destruct (mode =? 2); [eauto|].
  exists (JStr (js_escape_html s)). cbn [js_eval]. rewrite E1. cbn [bind]. rewrite T1. split; reflexivity.
Qed.

(* ---- the Go side ---- *)
Lemma ld_subset d : exists fn, lookup_directive (pdir_name d) = Some ([0], (true, (false, fn)))
                               /\ forall s, apply_fn fn [] s = Ok (go_dir_text d s).
Proof. destruct d; eexists; (split; [vm_compute; reflexivity|intro s; reflexivity]). Qed.

Lemma print_dirs_subset cf w ds st : c_oblig cf = [] ->
  print_dirs cf w (map pdir_node ds) st = (Ok (map (fun d => (pdir_name d, @nil darg)) ds), st).
Proof.
  intro Hob. induction ds as [|d r IH]; cbn [map print_dirs pdir_node].
  - rewrite Hob. reflexivity.
  - destruct (ld_subset d) as (fn & Hl & _). rewrite Hl. cbn [check_num_args length mem existsb negb N.of_nat].
    change (0 =? 0) with true. cbn [orb negb]. unfold mbind at 1. cbn [eval_list ret]. unfold mbind at 1. rewrite IH. reflexivity.
Qed.

Lemma apply_directives_subset ds : forall s esc,
  apply_directives (map (fun d => (pdir_name d, @nil darg)) ds) s esc
  = Ok (go_dirs_text ds s, match ds with [] => esc | _ => false end).
Proof.
  induction ds as [|d r IH]; intros s esc; cbn [map apply_directives go_dirs_text]. reflexivity.
  destruct (ld_subset d) as (fn & Hl & Hf). rewrite Hl. cbn [check_num_args length mem existsb negb N.of_nat].
  change (0 =? 0) with true. cbn [orb negb]. rewrite Hf. cbn [bind]. rewrite IH. rewrite andb_false_r. destruct r; reflexivity.
Qed.

Lemma write_all_ok ws : forall st, bufs st = [] -> calls_left st = None -> bytes_left st = None ->
  exists st', write_all ws st = (Ok tt, st') /\ out st' = rev ws ++ out st /\ ctx st' = ctx st /\ mode st' = mode st
              /\ bufs st' = [] /\ calls_left st' = None /\ bytes_left st' = None.
Proof.
  induction ws as [|w r IH]; intros st Hb Hc Hy; cbn [write_all].
  - exists st. repeat split; auto.
  - unfold mbind at 1. unfold write. rewrite Hb, Hc, Hy.
    destruct (IH (set_out st (w :: out st) None None) Hb eq_refl eq_refl) as (st' & E & Ho & Hx & Hm & B & C & Y).
    exists st'. split; [exact E|]. split; [|auto]. rewrite Ho. cbn [out set_out rev]. rewrite <- app_assoc. reflexivity.
Qed.

Lemma interp_print_dirs cf e ds fuel st v s :
  c_oblig cf = [] -> bufs st = [] -> calls_left st = None -> bytes_left st = None ->
  (forall k x, sc_lookup (ctx st) k = Some x -> core_value x = true) ->
  (forall x, c_ij cf = Some x -> core_value x = true) ->
  (S (cdepth e) < fuel)%nat ->
  ceval (c_ij cf) (sc_lookup (ctx st)) e = Some v -> v <> VUndef -> value_string v = Ok s ->
  exists st' ws, walk cf fuel (NPrint 0 (cnode e) (map pdir_node ds)) st = (Ok VUndef, st')
              /\ out st' = rev ws ++ out st /\ concat_b ws = go_print_text (mode st) ds s
              /\ ctx st' = ctx st /\ mode st' = mode st
              /\ bufs st' = [] /\ calls_left st' = None /\ bytes_left st' = None.
Proof.
  intros Hob Hb Hcl Hbl Hce Hci Hf E Hv Hs.
  destruct fuel as [|f]; [lia|]. cbn [walk]. unfold walk_body. unfold mbind at 1. cbn [modify].
  set (st1 := set_cur st (pos_of (NPrint 0 (cnode e) (map pdir_node ds)))).
  assert (P1 : pres st st1) by apply pres_set_cur.
  destruct (interp_ceval cf st Hce Hci e f st1 v ltac:(lia) (pres_ctx _ _ P1) E) as (st2 & E2 & P2).
  pose proof (pres_trans _ _ _ P1 P2) as (C & Mo & Ou & Bu & Cl & Bl).
  cbn [walk_node]. unfold mbind at 1. rewrite E2.
  set (text := go_print_text (mode st) ds s).
  assert (Hws : exists ws, print_writes (mode st2) (map (fun d => (pdir_name d, @nil darg)) ds) s = Ok ws /\ concat_b ws = text).
  { unfold print_writes. rewrite apply_directives_subset. cbn [bind]. subst text. unfold go_print_text. rewrite Mo.
    destruct ds as [|d r].
    - cbn [go_dirs_text]. destruct (mode st =? 2); cbn [negb]; eexists; (split; [reflexivity|]). cbn. apply app_nil_r. reflexivity.
    - eexists. split; [reflexivity|]. cbn. apply app_nil_r. }
  destruct Hws as (ws & Hw & Hcat).
  destruct (write_all_ok ws st2) as (st3 & E3 & O3 & C3 & M3 & B3 & L3 & Y3); try congruence.
  assert (Hrest : (dsx <-- print_dirs cf (walk cf f) (map pdir_node ds);;;
                   s0 <-- lift (value_string v);;;
                   stx <-- get;;;
                   wsx <-- lift (print_writes (mode stx) dsx s0);;; _ <-- write_all wsx;;; ret VUndef) st2
                  = (Ok VUndef, st3)).
  { unfold mbind at 1. rewrite (print_dirs_subset cf (walk cf f) ds st2 Hob). unfold mbind at 1. rewrite Hs. cbn [lift].
    unfold mbind at 1. cbn [get]. unfold mbind at 1. rewrite Hw. cbn [lift]. unfold mbind at 1. rewrite E3. reflexivity. }
  exists st3, ws. split; [destruct v; try congruence; exact Hrest|]. repeat split; congruence.
Qed.

(* ---- the generator: the chunks of the print statement ---- *)
Definition is_esc (d : pdir) : bool := match d with PEscapeHtml => true | _ => false end.
Definition escs (ds : list pdir) : list (bstr * list node) := map (fun _ => (n_escapeHtml, @nil node)) (filter is_esc ds).
Fixpoint esc_n (k : nat) (x : jexpr) : jexpr := match k with O => x | S k' => JEEscapeHtml (esc_n k' x) end.
Fixpoint rep {A} (k : nat) (l : list A) : list A := match k with O => [] | S k' => l ++ rep k' l end.

Lemma esc_n_succ_r k x : esc_n k (JEEscapeHtml x) = esc_n (S k) x.
Proof. induction k as [|k IH]; [reflexivity|]. cbn [esc_n]. rewrite IH. reflexivity. Qed.
Lemma wrap_escapes_n ds : forall x, wrap_escapes ds x = esc_n (length (filter is_esc ds)) x.
Proof.
  induction ds as [|d r IH]; intro x; [reflexivity|]. destruct d; cbn [wrap_escapes filter is_esc length]; try apply IH.
  rewrite IH. apply esc_n_succ_r.
Qed.
Lemma rep_single_comm {A} k (c : A) : rep k [c] ++ [c] = [c] ++ rep k [c].
Proof. induction k as [|k IH]; [reflexivity|]. cbn [rep]. rewrite <- app_assoc, IH. reflexivity. Qed.
Lemma jprint_esc_n k x :
  jprint (esc_n k x) = rep k [CText (directive_js n_escapeHtml); CText t_lpar] ++ jprint x ++ rep k [CText t_rpar].
Proof.
  induction k as [|k IH]; cbn [esc_n rep jprint]. rewrite app_nil_r. reflexivity.
  rewrite IH. rewrite <- !app_assoc. cbn [app]. f_equal. f_equal. f_equal. f_equal.
  change (CText t_rpar :: rep k [CText t_rpar]) with ([CText t_rpar] ++ rep k [CText t_rpar]). rewrite <- rep_single_comm. reflexivity.
Qed.

Lemma set_called_same st : set_called (j_called st) st = st. Proof. destruct st; reflexivity. Qed.
Lemma set_called_twice c1 c2 st : set_called c2 (set_called c1 st) = set_called c2 st. Proof. destruct st; reflexivity. Qed.

Lemma j_out_st_out st cs : j_out (st_out st cs) = rev cs ++ j_out st. Proof. destruct st; reflexivity. Qed.
Lemma j_out_st_after st cs : j_out (st_after st cs) = rev cs ++ j_out st. Proof. destruct st; reflexivity. Qed.
Lemma buf_out st cs : j_buf (st_out st cs) = j_buf st. Proof. destruct st; reflexivity. Qed.

Section PrintChunks.
Variable o : jopts.

Lemma print_scan_subset ds : forall escape kept st,
  exists c, print_scan o (map pdir_node ds) escape kept st
            = Ok ((match ds with [] => escape | _ => 2 end, kept ++ escs ds), set_called c st).
Proof.
  induction ds as [|d r IH]; intros escape kept st; cbn [map print_scan pdir_node].
  - exists (j_called st). rewrite set_called_same. unfold escs. cbn. rewrite app_nil_r. reflexivity.
  - destruct d; cbn [pdir_name].
    + (* id *) replace (assoc_s n_id js_directives) with (Some (@nil N, true)) by reflexivity. cbn iota.
      replace (bstr_eqb n_id n_id || bstr_eqb n_id n_noAutoescape) with true by reflexivity.
      destruct (IH 2 kept st) as (c & E). exists c. rewrite E. destruct r; reflexivity.
    + replace (assoc_s n_noAutoescape js_directives) with (Some (@nil N, true)) by reflexivity. cbn iota.
      replace (bstr_eqb n_noAutoescape n_id || bstr_eqb n_noAutoescape n_noAutoescape) with true by reflexivity.
      destruct (IH 2 kept st) as (c & E). exists c. rewrite E. destruct r; reflexivity.
    + replace (assoc_s n_escapeHtml js_directives) with (Some (directive_js n_escapeHtml, true)) by reflexivity. cbn iota.
      replace (bstr_eqb n_escapeHtml n_id || bstr_eqb n_escapeHtml n_noAutoescape) with false by reflexivity.
      replace (bstr_eqb n_escapeHtml n_changeNewlineToBr || bstr_eqb n_escapeHtml n_insertWordBreaks) with false by reflexivity.
      cbn iota.
      assert (Hn : exists c1, note_called n_escapeHtml (fmt_chunks (fmt_directive (o_fmt o)) (directive_js n_escapeHtml)) st = Ok (tt, set_called c1 st)).
      { unfold note_called. destruct (fmt_chunks _ _); [exists (j_called st); rewrite set_called_same; reflexivity|]. eexists. reflexivity. }
      destruct Hn as (c1 & Hn). erewrite jbind_ok; [|exact Hn].
      destruct (IH 2 (kept ++ [(n_escapeHtml, [])]) (set_called c1 st)) as (c & E). exists c.
      etransitivity; [exact E|]. rewrite set_called_twice.
      unfold escs. cbn [filter is_esc map]. rewrite <- app_assoc. destruct r; reflexivity.
Qed.

Lemma print_opens_escs k st :
  print_opens (rep k [(n_escapeHtml, @nil node)]) st = Ok (tt, st_out st (rep k [CText (directive_js n_escapeHtml); CText t_lpar])).
Proof.
  revert st. induction k as [|k IH]; intro st; cbn [rep print_opens app]. rewrite st_out_nil. reflexivity.
  erewrite jbind_ok; [|apply jemit_out]. rewrite IH, st_out_out. reflexivity.
Qed.
Lemma print_closes_escs w k st :
  print_closes w (rep k [(n_escapeHtml, @nil node)]) st = Ok (tt, st_out st (rep k [CText t_rpar])).
Proof.
  revert st. induction k as [|k IH]; intro st; cbn [rep print_closes app print_args]. rewrite st_out_nil. reflexivity.
  erewrite jbind_ok; [|reflexivity]. replace (bstr_eqb n_escapeHtml n_truncate && Nat.eqb (@length node []) 1) with false by reflexivity.
  erewrite jbind_ok; [|reflexivity]. erewrite jbind_ok; [|apply jtxt_out]. rewrite IH, st_out_out. reflexivity.
Qed.
Lemma escs_rep ds : escs ds = rep (length (filter is_esc ds)) [(n_escapeHtml, @nil node)].
Proof. unfold escs. induction (filter is_esc ds) as [|d r IH]; [reflexivity|]. cbn [map length rep app]. rewrite IH. reflexivity. Qed.
Lemma rev_rep {A} k (c : A) : rev (rep k [c]) = rep k [c].
Proof. induction k as [|k IH]; [reflexivity|]. cbn [rep app rev]. rewrite IH. apply rep_single_comm. Qed.

(* the statement JsGen writes for {print e|ds}:  buf += <cgen_print_expr (autoescape mode) ds e>; *)
Theorem cgen_print_dirs e ds fuel st : (S (cdepth e) < fuel)%nat ->
  exists stf, jwalk o fuel (NPrint 0 (cnode e) (map pdir_node ds)) st = Ok (tt, stf)
    /\ j_out stf = rev ([CText (indent_text (j_indent st)); CName (j_buf st); CText t_pluseq]
                        ++ jprint (cgen_print_expr (j_auto st) ds (cgen (j_scope st) e)) ++ [CText t_semi_nl]) ++ j_out st
    /\ j_indent stf = j_indent st /\ j_buf stf = j_buf st /\ j_scope stf = j_scope st /\ j_auto stf = j_auto st.
Proof.
  intro Hf. destruct fuel as [|f]; [lia|]. rewrite jwalk_S. cbn [soydoc_flags].
  set (st1 := jset_cur None st).
  assert (H1 : j_auto st1 = j_auto st /\ j_indent st1 = j_indent st /\ j_buf st1 = j_buf st /\ j_scope st1 = j_scope st /\ j_out st1 = j_out st)
    by (subst st1; destruct st; cbn; auto).
  destruct H1 as (A1 & I1 & B1 & S1 & O1). rewrite <- A1, <- I1, <- B1, <- S1, <- O1. clearbody st1.
  cbn [jwalk_node]. unfold visit_print. erewrite jbind_ok; [|reflexivity].
  destruct (print_scan_subset ds (j_auto st1) [] st1) as (c & Es). erewrite jbind_ok; [|exact Es]. cbn [app].
  set (st2 := set_called c st1).
  assert (H2 : j_auto st2 = j_auto st1 /\ j_indent st2 = j_indent st1 /\ j_buf st2 = j_buf st1 /\ j_scope st2 = j_scope st1 /\ j_out st2 = j_out st1)
    by (subst st2; destruct st1; cbn; auto).
  destruct H2 as (A2 & I2 & B2 & S2 & O2). rewrite <- I2, <- B2, <- S2, <- O2. clearbody st2.
  (* the directives kept: k explicit escapes, plus the implicit one *)
  set (k := length (filter is_esc ds)).
  assert (Hk : exists k', (if (match ds with [] => j_auto st1 | _ => 2 end) =? 2 then escs ds else escs ds ++ [(n_escapeHtml, [])])
                          = rep k' [(n_escapeHtml, @nil node)]
                          /\ cgen_print_expr (j_auto st1) ds (cgen (j_scope st2) e) = esc_n k' (cgen (j_scope st2) e)).
  { unfold cgen_print_expr. rewrite wrap_escapes_n, escs_rep. fold k. destruct ds as [|d r].
    - cbn [filter length] in k. subst k. cbn [rep esc_n app]. destruct (j_auto st1 =? 2). exists 0%nat. split; reflexivity. exists 1%nat. split; reflexivity.
    - change (2 =? 2) with true. cbn iota. exists k. split; reflexivity. }
  destruct Hk as (k' & Hkept & Hexpr). rewrite Hkept, Hexpr.
  unfold jindent. erewrite jbind_ok; [|erewrite jbind_ok; [apply jtxt_out|reflexivity]].
  unfold bufname. erewrite jbind_ok; [|erewrite jbind_ok; [reflexivity|reflexivity]].
  erewrite jbind_ok; [|apply jemit_out]. rewrite rev_rep.
  erewrite jbind_ok; [|apply print_opens_escs].
  erewrite jbind_ok; [|apply cgen_print; lia].
  erewrite jbind_ok; [|apply print_closes_escs].
  rewrite jtxt_out. eexists. split; [reflexivity|]. split.
  - rewrite !j_out_st_out, j_out_st_after, !j_out_st_out, !scope_out, !buf_out. rewrite jprint_esc_n.
    rewrite !app_assoc. rewrite <- !rev_app_distr. f_equal. f_equal. rewrite <- ?app_assoc. cbn [app]. reflexivity.
  - unfold st_after, st_out. destruct st2; cbn. auto.
Qed.
End PrintChunks.

(* gen_correct_partial_print (with escaping): one {print e|ds}, ds over id / noAutoescape / escapeHtml,
   under any autoescape mode: the bytes the Go renderer writes are the text the generated
   statement appends, provided String() of the value contains neither NUL nor a double quote *)
Theorem gen_correct_partial_print_esc cf sc je st e ds fuel v buf old :
  c_oblig cf = [] -> bufs st = [] -> calls_left st = None -> bytes_left st = None ->
  (S (cdepth e) < fuel)%nat ->
  env_rel sc (c_ij cf) (sc_lookup (ctx st)) je ->
  ceval (c_ij cf) (sc_lookup (ctx st)) e = Some v -> printable_scalar v = true ->
  (forall s, value_string v = Ok s -> clean s) ->
  assoc_s buf (je_vars je) = Some (JStr old) ->
  exists text,
    (exists st' ws, walk cf fuel (NPrint 0 (cnode e) (map pdir_node ds)) st = (Ok VUndef, st')
                    /\ out st' = rev ws ++ out st /\ concat_b ws = text /\ ctx st' = ctx st /\ mode st' = mode st)
    /\ (exists je', js_append je buf (cgen_print_expr (mode st) ds (cgen sc e)) = Ok (text, je')
                    /\ assoc_s buf (je_vars je') = Some (JStr (old ++ text)) /\ je_data je' = je_data je).
Proof.
  intros Hob Hb Hcl Hbl Hf ER E Hp Hclean Hbuf.
  destruct (tostring_value_string v Hp) as (s & Hs & Ht).
  exists (go_print_text (mode st) ds s). split.
  - destruct (interp_print_dirs cf e ds fuel st v s) as (st' & ws & H); auto.
    + intros k x Hk. pose proof (er_core _ _ _ _ ER k) as H. unfold env_val in H. rewrite Hk in H. exact H.
    + intros x Hx. exact (er_core_ij _ _ _ _ ER x Hx).
    + destruct v; try discriminate; discriminate.
    + exists st', ws. destruct H as (H1 & H2 & H3 & H4 & H5 & _). auto.
  - destruct (cgen_correct sc (c_ij cf) (sc_lookup (ctx st)) je ER e v E) as [Hj _].
    destruct (js_print_expr je (mode st) ds (cgen sc e) (to_js v) s Hj Ht) as (jv' & Ej & Tj).
    rewrite (print_text_agree (mode st) ds s (Hclean s Hs)) in Tj.
    unfold js_append. rewrite Ej. cbn [bind]. rewrite Tj, Hbuf. eexists. split; [reflexivity|]. cbn [je_vars je_data].
    split; [apply assoc_s_aset|reflexivity].
Qed.

(* ================================================================== *)
(* statements: raw text, print, if / else (no binders) *)

Section cstmt_ind.
  Variable P : cstmt -> Prop.
  Hypothesis Hraw : forall t, P (SRaw t).
  Hypothesis Hprint : forall e ds, P (SPrint e ds).
  Hypothesis Hif : forall c th he el, Forall P th -> Forall P el -> P (SIf c th he el).
  Fixpoint cstmt_ind' (s : cstmt) : P s :=
    match s with
    | SRaw t => Hraw t
    | SPrint e ds => Hprint e ds
    | SIf c th he el =>
        Hif c th he el
          ((fix go (l : list cstmt) : Forall P l := match l with [] => Forall_nil _ | x :: r => Forall_cons x (cstmt_ind' x) (go r) end) th)
          ((fix go (l : list cstmt) : Forall P l := match l with [] => Forall_nil _ | x :: r => Forall_cons x (cstmt_ind' x) (go r) end) el)
    end.
End cstmt_ind.

Lemma cacc_eval_same accs r : cacc_eval accs r = cacc_eval accs r. Proof. reflexivity. Qed.

Lemma ceval_ext ij env1 env2 : (forall k, env1 k = env2 k) -> forall e, ceval ij env1 e = ceval ij env2 e.
Proof.
  intros H. induction e as [| x | z | s | key accs | a IHa | a IHa | op a IHa c IHc | c IHc a IHa d IHd]; cbn [ceval]; try reflexivity.
  - rewrite H. reflexivity.
  - rewrite IHa. reflexivity.
  - rewrite IHa. reflexivity.
  - rewrite IHa, IHc. reflexivity.
  - rewrite IHc, IHa, IHd. reflexivity.
Qed.

Lemma sout_if ij env mode pt c th he el :
  sout ij env mode pt (SIf c th he el)
  = match ceval ij env c with
    | Some v => if truthy v then sout_list ij env mode pt th else if he then sout_list ij env mode pt el else Some []
    | None => None
    end.
Proof.
  cbn [sout].
  assert (H : forall l, (fix run (l : list cstmt) : option bstr :=
                           match l with
                           | [] => Some []
                           | x :: r => match sout ij env mode pt x, run r with Some a, Some c0 => Some (a ++ c0) | _, _ => None end
                           end) l = sout_list ij env mode pt l).
  { induction l as [|x r IH]; [reflexivity|]. cbn [sout_list]. rewrite <- IH. reflexivity. }
  rewrite !H. reflexivity.
Qed.

Lemma sout_ext ij env1 env2 mode pt : (forall k, env1 k = env2 k) -> forall s, sout ij env1 mode pt s = sout ij env2 mode pt s.
Proof.
  intro H. induction s as [t|e ds|c th he el IHt IHe] using cstmt_ind'.
  - reflexivity.
  - cbn [sout]. rewrite (ceval_ext ij env1 env2 H). reflexivity.
  - rewrite !sout_if. rewrite (ceval_ext ij env1 env2 H).
    assert (Hl : forall l, Forall (fun s => sout ij env1 mode pt s = sout ij env2 mode pt s) l -> sout_list ij env1 mode pt l = sout_list ij env2 mode pt l).
    { induction 1 as [|x r Hx Hr IH]; [reflexivity|]. cbn [sout_list]. rewrite Hx, IH. reflexivity. }
    rewrite (Hl th IHt), (Hl el IHe). reflexivity.
Qed.

Lemma js_exec_if env c th he el :
  js_exec env (JSIf c th he el)
  = (v <- js_eval env c ;; if js_truthy v then js_exec_list env th else if he then js_exec_list env el else Ok env).
Proof. reflexivity. Qed.

Lemma scalar_string_ok v s : scalar_string v = Some s -> printable_scalar v = true /\ value_string v = Ok s /\ js_tostring (to_js v) = Some s.
Proof. destruct v; try discriminate; intro H; try destruct x; inversion H; subst; repeat split; reflexivity. Qed.
Lemma cleanb_ok s : cleanb s = true -> clean s.
Proof.
  unfold cleanb, clean. intro H. apply Forall_forall. intros c Hc. pose proof (proj1 (forallb_forall _ _) H c Hc) as Hb.
  apply andb_prop in Hb. destruct Hb as [H1 H2]. apply negb_true_iff in H1, H2. split; apply N.eqb_neq; assumption.
Qed.

Lemma assoc_s_aset_other {A} k k' (v : A) l : bstr_eqb k k' = false -> assoc_s k (aset l k' v) = assoc_s k l.
Proof.
  intro Hk. induction l as [|[k2 x] l IH]; cbn [aset]; unfold assoc_s; fold (@assoc_s A).
  - rewrite Hk. reflexivity.
  - destruct (bstr_eqb k' k2) eqn:E2; unfold assoc_s; fold (@assoc_s A).
    + apply bstr_eqb_true in E2. subst k2. rewrite Hk. reflexivity.
    + destruct (bstr_eqb k k2); [reflexivity|exact IH].
Qed.

(* ---- the JavaScript side ---- *)
Section JsStmts.
Variable sc : list (list (bstr * bstr)).
Variable ij : option value.
Variable env : bstr -> option value.
Variable mode : N.
Variable buf : bstr.
(* the buffer variable is none of the variables the scope maps Soy names to, and not opt_ijData *)
Hypothesis buf_fresh : forall key, bstr_eqb (jsc_lookup sc key) buf = false.
Hypothesis buf_not_ij : bstr_eqb t_opt_ij buf = false.

Definition jinv (je : jenv) (old : bstr) : Prop := env_rel sc ij env je /\ assoc_s buf (je_vars je) = Some (JStr old).

Lemma jinv_append je old t : jinv je old ->
  jinv {| je_vars := aset (je_vars je) buf (JStr (old ++ t)); je_data := je_data je |} (old ++ t).
Proof.
  intros [ER Hb]. split; [|apply assoc_s_aset]. destruct ER as [Ev Ei Ec Eci]. constructor; auto; cbn [je_vars je_data].
  - intros key Hk. specialize (Ev key Hk). destruct (jsc_lookup sc key) as [|g0 g] eqn:El; [exact Ev|].
    rewrite assoc_s_aset_other; [exact Ev|]. rewrite <- El. apply buf_fresh.
  - intros v Hv. rewrite assoc_s_aset_other; [apply Ei; exact Hv|exact buf_not_ij].
Qed.

Theorem js_exec_correct s : forall je old text, sout ij env mode go_print_text s = Some text -> jinv je old ->
  exists je', js_exec je (sgen sc mode buf s) = Ok je' /\ jinv je' (old ++ text).
Proof.
  induction s as [t|e ds|c th he el IHt IHe] using cstmt_ind'; intros je old text E Hinv.
  - (* raw *) inversion E; subst. cbn [sgen js_exec]. unfold js_append_text. rewrite (proj2 Hinv). eexists. split; [reflexivity|]. apply jinv_append; exact Hinv.
  - (* print *)
    cbn [sout] in E. destruct (ceval ij env e) as [v|] eqn:Ev; [|discriminate]. destruct (scalar_string v) as [str|] eqn:Es; [|discriminate].
    destruct (cleanb str) eqn:Ec; [|discriminate]. inversion E; subst. clear E.
    destruct (scalar_string_ok v str Es) as (Hp & Hvs & Ht). destruct Hinv as [ER Hb].
    destruct (cgen_correct sc ij env je ER e v Ev) as [Hj _].
    destruct (js_print_expr je mode ds (cgen sc e) (to_js v) str Hj Ht) as (jv' & Ej & Tj).
    rewrite (print_text_agree mode ds str (cleanb_ok _ Ec)) in Tj.
    cbn [sgen js_exec]. unfold js_append. rewrite Ej. cbn [bind]. rewrite Tj, Hb. cbn [bind snd]. eexists. split; [reflexivity|].
    apply jinv_append. split; assumption.
  - (* if *)
    rewrite sout_if in E. destruct (ceval ij env c) as [v|] eqn:Ev; [|discriminate].
    destruct Hinv as [ER Hb]. destruct (cgen_correct sc ij env je ER c v Ev) as [Hj Hcv].
    cbn [sgen]. rewrite js_exec_if, Hj. cbn [bind]. rewrite truthy_js by exact Hcv.
    assert (Hl : forall l, Forall (fun s => forall je old text, sout ij env mode go_print_text s = Some text -> jinv je old ->
                                   exists je', js_exec je (sgen sc mode buf s) = Ok je' /\ jinv je' (old ++ text)) l ->
                 forall je old text, sout_list ij env mode go_print_text l = Some text -> jinv je old ->
                 exists je', js_exec_list je (map (sgen sc mode buf) l) = Ok je' /\ jinv je' (old ++ text)).
    { induction 1 as [|x r Hx Hr IH]; intros je0 old0 text0 E0 I0; cbn [sout_list map js_exec_list] in *.
      - inversion E0; subst. rewrite app_nil_r. eauto.
      - destruct (sout ij env mode go_print_text x) as [a|] eqn:Ea; [|discriminate].
        destruct (sout_list ij env mode go_print_text r) as [c0|] eqn:Er; [|discriminate]. inversion E0; subst.
        destruct (Hx je0 old0 a eq_refl I0) as (je1 & E1 & I1). rewrite E1. cbn [bind].
        destruct (IH je1 (old0 ++ a) c0 eq_refl I1) as (je2 & E2 & I2). exists je2. split; [exact E2|]. rewrite app_assoc. exact I2. }
    destruct (truthy v).
    + apply (Hl th IHt); [exact E|split; assumption].
    + destruct he.
      * apply (Hl el IHe); [exact E|split; assumption].
      * inversion E; subst. rewrite app_nil_r. exists je. split; [reflexivity|split; assumption].
Qed.
End JsStmts.

(* ---- the Go side: statements ---- *)
Definition gst (st : mstate) : Prop := bufs st = [] /\ calls_left st = None /\ bytes_left st = None.

(* what a statement does to the renderer's state: it writes ws, and leaves scope, mode and writer as they were *)
Definition sres (cf : cfg) (m : M value) (st : mstate) (text : bstr) : Prop :=
  exists st' ws rv, m st = (Ok rv, st') /\ out st' = rev ws ++ out st /\ concat_b ws = text
                    /\ ctx st' = ctx st /\ mode st' = mode st /\ gst st'.

Section GoStmts.
Variable cf : cfg.
Variable env : bstr -> option value.
Hypothesis Hob : c_oblig cf = [].
Hypothesis env_core : forall k x, env k = Some x -> core_value x = true.
Hypothesis ij_core : forall x, c_ij cf = Some x -> core_value x = true.

Lemma walk_unfold f n st : walk cf (S f) n st = walk_node cf (walk cf f) n (set_cur st (pos_of n)).
Proof. reflexivity. Qed.

Lemma maxl_le (x : cstmt) l : In x l -> (sdepth x <= fold_right (fun y acc => Nat.max (sdepth y) acc) 0 l)%nat.
Proof. induction l as [|y r IH]; intro H; [contradiction|]. cbn [fold_right]. destruct H as [->|H]; [lia|]. specialize (IH H). lia. Qed.

Lemma sres_list f l : forall st text,
  Forall (fun s => forall st text, (sdepth s < f)%nat -> gst st -> (forall k, sc_lookup (ctx st) k = env k) ->
                   sout (c_ij cf) env (mode st) go_print_text s = Some text -> sres cf (walk cf f (snode s)) st text) l ->
  (forall x, In x l -> (sdepth x < f)%nat) -> gst st -> (forall k, sc_lookup (ctx st) k = env k) ->
  sout_list (c_ij cf) env (mode st) go_print_text l = Some text ->
  exists st' ws, walk_list (walk cf f) (map snode l) st = (Ok tt, st') /\ out st' = rev ws ++ out st /\ concat_b ws = text
                 /\ ctx st' = ctx st /\ mode st' = mode st /\ gst st'.
Proof.
  induction l as [|x r IH]; intros st text HF Hd Hg He E; cbn [map walk_list sout_list] in *.
  - inversion E; subst. exists st, []. repeat split; auto; apply Hg.
  - inversion HF as [|? ? Hx Hr]; subst.
    destruct (sout (c_ij cf) env (mode st) go_print_text x) as [a|] eqn:Ea; [|discriminate].
    destruct (sout_list (c_ij cf) env (mode st) go_print_text r) as [c0|] eqn:Er; [|discriminate]. inversion E; subst. clear E.
    destruct (Hx st a (Hd x (or_introl eq_refl)) Hg He Ea) as (st1 & ws1 & rv & E1 & O1 & C1 & X1 & M1 & G1).
    unfold mbind at 1. rewrite E1.
    destruct (IH st1 c0 Hr (fun y Hy => Hd y (or_intror Hy)) G1) as (st2 & ws2 & E2 & O2 & C2 & X2 & M2 & G2).
    + intro k. rewrite X1. apply He.
    + rewrite M1. exact Er.
    + exists st2, (ws1 ++ ws2). split; [exact E2|]. split; [rewrite O2, O1, rev_app_distr, app_assoc; reflexivity|].
      split; [|repeat split; try congruence; apply G2].
      rewrite <- C1, <- C2. clear. induction ws1 as [|w r IH]; [reflexivity|]. cbn. rewrite IH, app_assoc. reflexivity.
Qed.

(* a block: NList pushes an (empty) frame, walks its statements, pops *)
Lemma sres_block f l st text :
  Forall (fun s => forall st text, (sdepth s < f)%nat -> gst st -> (forall k, sc_lookup (ctx st) k = env k) ->
                   sout (c_ij cf) env (mode st) go_print_text s = Some text -> sres cf (walk cf f (snode s)) st text) l ->
  (forall x, In x l -> (sdepth x < f)%nat) -> gst st -> (forall k, sc_lookup (ctx st) k = env k) ->
  sout_list (c_ij cf) env (mode st) go_print_text l = Some text ->
  sres cf (walk cf (S f) (NList 0 (map snode l))) st text.
Proof.
  intros HF Hd Hg He E. unfold sres. rewrite walk_unfold. cbn [walk_node].
  match goal with |- context [set_cur st ?p] => set (st1 := set_cur st p) end. unfold mbind at 1. unfold m_push. cbn [modify].
  set (st2 := set_ctx st1 (sc_push (ctx st1))).
  assert (G2 : gst st2) by (subst st2 st1; exact Hg).
  assert (He2 : forall k, sc_lookup (ctx st2) k = env k) by (intro k; subst st2 st1; cbn; apply He).
  assert (M2 : mode st2 = mode st) by reflexivity.
  destruct (sres_list f l st2 text HF Hd G2 He2) as (st3 & ws & E3 & O3 & C3 & X3 & M3 & G3). { rewrite M2. exact E. }
  unfold mbind at 1. rewrite E3. unfold mbind at 1. unfold m_pop. cbn [modify ret].
  exists (set_ctx st3 (sc_pop (ctx st3))), ws, VUndef. split; [reflexivity|]. cbn [out set_ctx ctx mode].
  split; [rewrite O3; reflexivity|]. split; [exact C3|]. split; [rewrite X3; reflexivity|]. split; [congruence|exact G3].
Qed.

Theorem interp_stmt s : forall f st text, (sdepth s < f)%nat -> gst st -> (forall k, sc_lookup (ctx st) k = env k) ->
  sout (c_ij cf) env (mode st) go_print_text s = Some text -> sres cf (walk cf f (snode s)) st text.
Proof.
  induction s as [t|e ds|c th he el IHt IHe] using cstmt_ind'; intros f st text Hf Hg He E.
  - (* raw text *)
    inversion E; subst. destruct f as [|f]; [cbn in Hf; lia|]. unfold sres. rewrite walk_unfold. cbn [snode walk_node].
    unfold mbind at 1. unfold write. destruct Hg as (Hb & Hc & Hy). cbn [bufs set_cur calls_left bytes_left]. rewrite Hb, Hc, Hy.
    eexists _, [text], VUndef. split; [reflexivity|]. cbn. rewrite app_nil_r. repeat split; auto.
  - (* print *)
    cbn [sout] in E. destruct (ceval (c_ij cf) env e) as [v|] eqn:Ev; [|discriminate]. destruct (scalar_string v) as [str|] eqn:Es; [|discriminate].
    destruct (cleanb str); [|discriminate]. inversion E; subst. clear E.
    destruct (scalar_string_ok v str Es) as (Hp & Hvs & _). destruct Hg as (Hb & Hc & Hy).
    assert (Ev' : ceval (c_ij cf) (sc_lookup (ctx st)) e = Some v) by (rewrite (ceval_ext _ _ env He); exact Ev).
    destruct (interp_print_dirs cf e ds f st v str Hob Hb Hc Hy) as (st' & ws & E1 & O1 & C1 & X1 & M1 & B1 & L1 & Y1); auto.
    + intros k x Hk. rewrite He in Hk. eapply env_core; eauto.
    + cbn [sdepth] in Hf. lia.
    + destruct v; try discriminate; discriminate.
    + exists st', ws, VUndef. repeat split; auto.
  - (* if *)
    rewrite sout_if in E. destruct (ceval (c_ij cf) env c) as [v|] eqn:Ev; [|discriminate].
    cbn [sdepth] in Hf. destruct f as [|f]; [lia|]. destruct f as [|f']; [lia|].
    unfold sres. rewrite walk_unfold. cbn [snode walk_node if_conds].
    match goal with |- context [set_cur st ?p] => set (st1 := set_cur st p) end.
    assert (P1 : pres st st1) by apply pres_set_cur.
    assert (Ev' : ceval (c_ij cf) (sc_lookup (ctx st)) c = Some v) by (rewrite (ceval_ext _ _ env He); exact Ev).
    assert (Hce : forall k x, sc_lookup (ctx st) k = Some x -> core_value x = true) by (intros k x Hk; rewrite He in Hk; eapply env_core; eauto).
    destruct (mok_eval (walk cf (S f')) (cnode c) st1 v (interp_ceval cf st Hce ij_core c (S f') st1 v ltac:(lia) (pres_ctx _ _ P1) Ev')) as (st2 & E2 & P2).
    pose proof (pres_trans _ _ _ P1 P2) as (C & Mo & Ou & Bu & Cl & Bl).
    unfold mbind at 1. rewrite E2.
    assert (G2 : gst st2) by (destruct Hg as (Hb & Hc & Hy); repeat split; congruence).
    assert (He2 : forall k, sc_lookup (ctx st2) k = env k) by (intro k; rewrite C; apply He).
    assert (Hdt : forall x, In x th -> (sdepth x < f')%nat) by (intros x Hx; pose proof (maxl_le x th Hx); lia).
    assert (Hde : forall x, In x el -> (sdepth x < f')%nat) by (intros x Hx; pose proof (maxl_le x el Hx); lia).
    assert (Hfin : forall l, Forall (fun s => forall f st text, (sdepth s < f)%nat -> gst st -> (forall k, sc_lookup (ctx st) k = env k) ->
                                      sout (c_ij cf) env (mode st) go_print_text s = Some text -> sres cf (walk cf f (snode s)) st text) l ->
                   (forall x, In x l -> (sdepth x < f')%nat) -> sout_list (c_ij cf) env (mode st) go_print_text l = Some text ->
                   sres cf (_ <-- walk cf (S f') (NList 0 (map snode l));;; ret VUndef) st2 text).
    { intros l HF Hd El.
      destruct (sres_block f' l st2 text) as (st3 & ws & rv & E3 & O3 & C3 & X3 & M3 & G3); auto.
      - eapply Forall_impl; [|exact HF]. intros a Ha s0 t0. apply Ha.
      - rewrite Mo. exact El.
      - unfold sres, mbind. rewrite E3. exists st3, ws, VUndef. repeat split; auto; try congruence; apply G3. }
    assert (Hwrap : forall m, sres cf m st2 text -> sres cf m st2 text -> exists st' ws rv, m st2 = (Ok rv, st') /\ out st' = rev ws ++ out st
                     /\ concat_b ws = text /\ ctx st' = ctx st /\ mode st' = mode st /\ gst st').
    { intros m (st3 & ws & rv & E3 & O3 & C3 & X3 & M3 & G3) _. exists st3, ws, rv. repeat split; auto; try congruence; apply G3. }
    destruct (truthy v).
    + apply Hwrap; apply (Hfin th IHt Hdt E).
    + destruct he.
      * cbn [if_conds]. apply Hwrap; apply (Hfin el IHe Hde E).
      * cbn [if_conds]. inversion E; subst. exists st2, [], VUndef. repeat split; auto; try congruence; apply G2.
Qed.
End GoStmts.

(* ---- the generator: the chunks of statements ---- *)
Lemma cgen_push_frame sc e : cgen ([] :: sc) e = cgen sc e.
Proof.
  induction e as [| x | z | s | key accs | a IHa | a IHa | op a IHa c IHc | c IHc a IHa d IHd]; cbn [cgen]; try reflexivity;
    try (rewrite ?IHa, ?IHc, ?IHd; reflexivity).
Qed.
Lemma sgen_push_frame sc mode buf s : sgen ([] :: sc) mode buf s = sgen sc mode buf s.
Proof.
  induction s as [t|e ds|c th he el IHt IHe] using cstmt_ind'; cbn [sgen]; try reflexivity.
  - rewrite cgen_push_frame. reflexivity.
  - rewrite cgen_push_frame. f_equal.
    + induction IHt as [|x r Hx Hr IH]; [reflexivity|]. cbn [map]. rewrite Hx, IH. reflexivity.
    + induction IHe as [|x r Hx Hr IH]; [reflexivity|]. cbn [map]. rewrite Hx, IH. reflexivity.
Qed.

Section StmtChunks.
Variable o : jopts.

(* what walking a statement does to the generator's state *)
Definition gres (m : J unit) (st : jstate) (cs : list chunk) : Prop :=
  exists stf, m st = Ok (tt, stf) /\ j_out stf = rev cs ++ j_out st
              /\ j_indent stf = j_indent st /\ j_buf stf = j_buf st /\ j_scope stf = j_scope st /\ j_auto stf = j_auto st.

Lemma gres_bind m f st c1 c2 :
  gres m st c1 ->
  (forall s1, j_indent s1 = j_indent st -> j_buf s1 = j_buf st -> j_scope s1 = j_scope st -> j_auto s1 = j_auto st -> gres (f tt) s1 c2) ->
  gres (jbind m f) st (c1 ++ c2).
Proof.
  intros (s1 & E1 & O1 & I1 & B1 & S1 & A1) Hf. destruct (Hf s1 I1 B1 S1 A1) as (s2 & E2 & O2 & I2 & B2 & S2 & A2).
  exists s2. rewrite (jbind_ok _ _ _ _ _ E1). split; [exact E2|]. split; [rewrite O2, O1, rev_app_distr, app_assoc; reflexivity|].
  repeat split; congruence.
Qed.
Lemma gres_emit cs st : gres (jemit cs) st cs.
Proof. exists (st_out st cs). rewrite jemit_out. split; [reflexivity|]. destruct st; cbn; auto. Qed.
Lemma gres_txt t st : gres (jtxt t) st [CText t]. Proof. apply gres_emit. Qed.
Lemma gres_indent st : gres jindent st [CText (indent_text (j_indent st))].
Proof. unfold jindent. exists (st_out st [CText (indent_text (j_indent st))]). split; [unfold jbind, jget; apply jtxt_out|]. destruct st; cbn; auto. Qed.

Lemma sprint_if_eq ind c th he el :
  sprint ind (JSIf c th he el)
  = [CText (indent_text ind); CText t_if_open] ++ jprint c ++ [CText t_op_mid1; CText t_brace_nl] ++ sprint_list (S ind) th
    ++ [CText (indent_text ind); CText t_rbrace]
    ++ (if he then [CText t_else; CText t_brace_nl] ++ sprint_list (S ind) el ++ [CText (indent_text ind); CText t_rbrace] else [])
    ++ [CText t_nl].
Proof.
  cbn [sprint].
  assert (H : forall l, (fix body (l0 : list jstmt) : list chunk := match l0 with [] => [] | x :: r => sprint (S ind) x ++ body r end) l
                        = sprint_list (S ind) l).
  { induction l as [|x r IH]; [reflexivity|]. cbn [sprint_list]. rewrite <- IH. reflexivity. }
  rewrite !H. reflexivity.
Qed.

(* a block at one more level of indentation *)
Lemma gres_block f l : forall st,
  Forall (fun s => forall st, (sdepth s < f)%nat ->
                   gres (jwalk o f (snode s)) st (sprint (j_indent st) (sgen (j_scope st) (j_auto st) (j_buf st) s))) l ->
  (forall x, In x l -> (sdepth x < f)%nat) ->
  gres (indent_inc ;;; jwalk o (S f) (NList 0 (map snode l)) ;;; indent_dec) st
       (sprint_list (S (j_indent st)) (map (sgen (j_scope st) (j_auto st) (j_buf st)) l)).
Proof.
  intros st HF Hd.
  assert (Hlist : forall l0 s0, Forall (fun s => forall st, (sdepth s < f)%nat ->
                     gres (jwalk o f (snode s)) st (sprint (j_indent st) (sgen (j_scope st) (j_auto st) (j_buf st) s))) l0 ->
                   (forall x, In x l0 -> (sdepth x < f)%nat) ->
                   gres (jwalk_list (jwalk o f) (map snode l0)) s0 (sprint_list (j_indent s0) (map (sgen (j_scope s0) (j_auto s0) (j_buf s0)) l0))).
  { induction l0 as [|x r IH]; intros s0 HF0 Hd0; cbn [map jwalk_list sprint_list].
    - exists s0. repeat split; auto.
    - inversion HF0 as [|? ? Hx Hr]; subst. apply gres_bind. apply Hx. apply Hd0. left; reflexivity.
      intros s1 I1 B1 S1 A1. rewrite <- I1, <- B1, <- S1, <- A1. apply IH; auto. intros y Hy. apply Hd0. right; exact Hy. }
  unfold gres.
  set (st1 := set_indent (S (j_indent st)) st).
  assert (E1 : indent_inc st = Ok (tt, st1)) by reflexivity.
  erewrite jbind_ok; [|exact E1].
  (* the block itself: s.at, push, statements, pop *)
  set (st2 := jset_cur None st1).
  assert (E2 : jsc_push st2 = Ok (tt, set_scope ([] :: j_scope st2) (j_n st2) st2)) by reflexivity.
  set (st3 := set_scope ([] :: j_scope st2) (j_n st2) st2) in *.
  assert (H3 : j_indent st3 = S (j_indent st) /\ j_buf st3 = j_buf st /\ j_scope st3 = [] :: j_scope st /\ j_auto st3 = j_auto st /\ j_out st3 = j_out st)
    by (subst st3 st2 st1; destruct st; cbn; auto).
  destruct H3 as (I3 & B3 & S3 & A3 & O3).
  destruct (Hlist l st3 HF Hd) as (st4 & E4 & O4 & I4 & B4 & S4 & A4).
  assert (E5 : jsc_pop st4 = Ok (tt, set_scope (tl (j_scope st4)) (j_n st4) st4)) by reflexivity.
  assert (Eall : (jsc_push ;;; jwalk_list (jwalk o f) (map snode l) ;;; jsc_pop) st2 = Ok (tt, set_scope (tl (j_scope st4)) (j_n st4) st4)).
  { erewrite jbind_ok; [|exact E2]. erewrite jbind_ok; [|exact E4]. exact E5. }
  assert (E6 : indent_dec (set_scope (tl (j_scope st4)) (j_n st4) st4)
               = Ok (tt, set_indent (pred (j_indent (set_scope (tl (j_scope st4)) (j_n st4) st4))) (set_scope (tl (j_scope st4)) (j_n st4) st4))) by reflexivity.
  assert (Ewalk : jwalk o (S f) (NList 0 (map snode l)) st1 = Ok (tt, set_scope (tl (j_scope st4)) (j_n st4) st4)).
  { rewrite jwalk_S. cbn [soydoc_flags jwalk_node]. exact Eall. }
  erewrite jbind_ok; [|exact Ewalk]. rewrite E6.
  eexists. split; [reflexivity|].
  rewrite I3, B3, S3, A3 in O4.
  assert (Hm : map (sgen ([] :: j_scope st) (j_auto st) (j_buf st)) l = map (sgen (j_scope st) (j_auto st) (j_buf st)) l).
  { clear. induction l as [|x r IH]; [reflexivity|]. cbn [map]. rewrite sgen_push_frame, IH. reflexivity. }
  rewrite Hm in O4.
  destruct st4; cbn in *. subst. cbn. auto.
Qed.

Theorem sgen_print s : forall f st, (sdepth s < f)%nat ->
  gres (jwalk o f (snode s)) st (sprint (j_indent st) (sgen (j_scope st) (j_auto st) (j_buf st) s)).
Proof.
  induction s as [t|e ds|c th he el IHt IHe] using cstmt_ind'; intros f st Hf.
  - (* raw *) destruct f as [|f]; [cbn in Hf; lia|]. cbn [snode sgen sprint]. unfold gres. rewrite jwalk_S. cbn [soydoc_flags jwalk_node].
    unfold write_raw_text. set (st1 := jset_cur None st).
    assert (H1 : j_indent st1 = j_indent st /\ j_buf st1 = j_buf st /\ j_scope st1 = j_scope st /\ j_auto st1 = j_auto st /\ j_out st1 = j_out st)
      by (subst st1; destruct st; cbn; auto).
    destruct H1 as (I1 & B1 & S1 & A1 & O1). rewrite <- I1, <- B1.
    unfold jindent. erewrite jbind_ok; [|erewrite jbind_ok; [apply jtxt_out|reflexivity]].
    unfold bufname. erewrite jbind_ok; [|erewrite jbind_ok; [reflexivity|reflexivity]].
    rewrite jemit_out. eexists. split; [reflexivity|]. rewrite !j_out_st_out, buf_out, O1.
    split; [cbn; reflexivity|]. destruct st1; cbn in *; auto.
  - (* print *)
    cbn [snode sgen sprint]. cbn [sdepth] in Hf. destruct (cgen_print_dirs o e ds f st ltac:(lia)) as (stf & E & O & I & B & S & A).
    exists stf. repeat split; auto.
  - (* if *)
    cbn [sdepth] in Hf. destruct f as [|f]; [lia|]. destruct f as [|f']; [lia|].
    cbn [snode sgen]. rewrite sprint_if_eq. unfold gres. rewrite jwalk_S. cbn [soydoc_flags jwalk_node].
    set (st1 := jset_cur None st).
    assert (H1 : j_indent st1 = j_indent st /\ j_buf st1 = j_buf st /\ j_scope st1 = j_scope st /\ j_auto st1 = j_auto st /\ j_out st1 = j_out st)
      by (subst st1; destruct st; cbn; auto).
    destruct H1 as (I1 & B1 & S1 & A1 & O1).
    assert (Hdt : forall x, In x th -> (sdepth x < f')%nat) by (intros x Hx; pose proof (maxl_le x th Hx); lia).
    assert (Hde : forall x, In x el -> (sdepth x < f')%nat) by (intros x Hx; pose proof (maxl_le x el Hx); lia).
    set (TH := sprint_list (S (j_indent st1)) (map (sgen (j_scope st1) (j_auto st1) (j_buf st1)) th)).
    set (EL := sprint_list (S (j_indent st1)) (map (sgen (j_scope st1) (j_auto st1) (j_buf st1)) el)).
    set (IND := [CText (indent_text (j_indent st1))]).
    set (REST := if he then [CText t_else] ++ ([] ++ ([CText t_brace_nl] ++ (EL ++ IND ++ [CText t_rbrace] ++ []))) else []).
    assert (Hmain : gres (jindent ;;; (jif_conds (jwalk o (S f')) true
                            (NIfCond 0 (Some (cnode c)) (NList 0 (map snode th)) :: (if he then [NIfCond 0 None (NList 0 (map snode el))] else []))
                          ;;; jtxt t_nl)) st1
             (IND ++ (([] ++ (([CText t_if_open] ++ (jprint (cgen (j_scope st1) c) ++ [CText t_op_mid1]))
                              ++ ([CText t_brace_nl] ++ (TH ++ IND ++ [CText t_rbrace] ++ REST)))) ++ [CText t_nl]))).
    { apply gres_bind. apply gres_indent. intros s1 I2 B2 S2 A2. apply gres_bind; [|intros; apply gres_txt].
      cbn [jif_conds].
      apply gres_bind. { exists s1. repeat split; auto. }
      intros s2 I3 B3 S3 A3. apply gres_bind.
      { apply gres_bind. apply gres_txt. intros s3 I4 B4 S4 A4. apply gres_bind; [|intros; apply gres_txt].
        assert (Hs : j_scope s3 = j_scope st1) by congruence. rewrite <- Hs.
        exists (st_after s3 (jprint (cgen (j_scope s3) c))). rewrite (cgen_print o c (S f') s3 ltac:(lia)).
        split; [reflexivity|]. rewrite j_out_st_after.
        split; [reflexivity|]. unfold st_after, st_out. destruct s3; cbn; auto. }
      intros s3 I4 B4 S4 A4. apply gres_bind. apply gres_txt. intros s4 I5 B5 S5 A5.
      assert (Hblk : forall l sx, Forall (fun s => forall f st, (sdepth s < f)%nat ->
                        gres (jwalk o f (snode s)) st (sprint (j_indent st) (sgen (j_scope st) (j_auto st) (j_buf st) s))) l ->
                      (forall x, In x l -> (sdepth x < f')%nat) ->
                      j_indent sx = j_indent st1 -> j_buf sx = j_buf st1 -> j_scope sx = j_scope st1 -> j_auto sx = j_auto st1 ->
                      forall rest crest, (forall s', j_indent s' = j_indent st1 -> j_buf s' = j_buf st1 -> j_scope s' = j_scope st1 -> j_auto s' = j_auto st1 -> gres rest s' crest) ->
                      gres (indent_inc ;;; jwalk o (S f') (NList 0 (map snode l)) ;;; indent_dec ;;; jindent ;;; jtxt t_rbrace ;;; rest) sx
                           (sprint_list (S (j_indent st1)) (map (sgen (j_scope st1) (j_auto st1) (j_buf st1)) l)
                            ++ IND ++ [CText t_rbrace] ++ crest)).
      { intros l sx HF Hd Ix Bx Sx Ax rest crest Hrest.
        assert (HF' : Forall (fun s => forall st, (sdepth s < f')%nat ->
                          gres (jwalk o f' (snode s)) st (sprint (j_indent st) (sgen (j_scope st) (j_auto st) (j_buf st) s))) l)
          by (eapply Forall_impl; [|exact HF]; intros a Ha st0; apply Ha).
        pose proof (gres_block f' l sx HF' Hd) as Hb. rewrite Ix, Bx, Sx, Ax in Hb.
        destruct Hb as (sy & Ey & Oy & Iy & By & Sy & Ay).
        assert (Eseq : (indent_inc ;;; jwalk o (S f') (NList 0 (map snode l)) ;;; indent_dec ;;; jindent ;;; jtxt t_rbrace ;;; rest) sx
                       = (jindent ;;; jtxt t_rbrace ;;; rest) sy).
        { unfold jbind in Ey |- *. destruct (indent_inc sx) as [[u1 sa]| | | | |]; try discriminate.
          destruct (jwalk o (S f') (NList 0 (map snode l)) sa) as [[u2 sb]| | | | |]; try discriminate. rewrite Ey. reflexivity. }
        assert (Hrest2 : gres (jindent ;;; jtxt t_rbrace ;;; rest) sy (IND ++ [CText t_rbrace] ++ crest)).
        { apply gres_bind. subst IND. replace (j_indent st1) with (j_indent sy) by congruence. apply gres_indent.
          intros sa Ia Ba Sa Aa. apply gres_bind. apply gres_txt. intros sb Ib Bb Sb Ab. apply Hrest; congruence. }
        destruct Hrest2 as (sz & Ez & Oz & Iz & Bz & Sz & Az). exists sz. rewrite Eseq. split; [exact Ez|].
        split; [|repeat split; congruence].
        rewrite Oz, Oy. rewrite (rev_app_distr (sprint_list (S (j_indent st1)) (map (sgen (j_scope st1) (j_auto st1) (j_buf st1)) l))).
        rewrite <- app_assoc. reflexivity. }
      apply (Hblk th s4 IHt Hdt); try congruence.
      intros s5 I6 B6 S6 A6. subst REST. destruct he; cbn [jif_conds].
      - apply gres_bind. apply gres_txt. intros s6 I7 B7 S7 A7.
        apply gres_bind. { exists s6. repeat split; auto. }
        intros s7 I8 B8 S8 A8. apply gres_bind. apply gres_txt. intros s8 I9 B9 S9 A9.
        apply (Hblk el s8 IHe Hde); try congruence. intros s9 I10 B10 S10 A10. exists s9. repeat split; auto.
      - exists s5. repeat split; auto. }
    destruct Hmain as (stf & E & O & I & B & S & A). exists stf. split; [exact E|].
    split; [|repeat split; congruence].
    rewrite O, O1. f_equal. f_equal. subst TH EL IND REST. rewrite I1, B1, S1, A1.
    destruct he; rewrite <- ?app_assoc; cbn [app]; rewrite ?app_nil_r; reflexivity.
Qed.
End StmtChunks.

(* ================================================================== *)
(* gen_correct_partial_if: statements built from raw text, {print e|ds} and {if}..{else}..{/if} with nested
   blocks of such statements (no binders).  If the subset semantics gives the text [sout s], then
   (Go)  the walker of Model/Interp.v writes exactly that text and leaves scope, mode and writer as they were;
   (JS)  executing the MiniJS statement [sgen ...] appends exactly that text to the buffer variable and keeps
         the environments related;
   (Gen) the MiniJS statement is what Model/JsGen.v emits: walking the node appends [sprint (sgen ...)]. *)
Theorem gen_correct_partial_if cf o sc je st jst s fuel text old :
  c_oblig cf = [] -> gst st ->
  (sdepth s < fuel)%nat ->
  env_rel sc (c_ij cf) (sc_lookup (ctx st)) je ->
  (forall key, bstr_eqb (jsc_lookup sc key) (j_buf jst) = false) -> bstr_eqb t_opt_ij (j_buf jst) = false ->
  assoc_s (j_buf jst) (je_vars je) = Some (JStr old) ->
  j_scope jst = sc -> j_auto jst = mode st ->
  sout (c_ij cf) (sc_lookup (ctx st)) (mode st) go_print_text s = Some text ->
  sres cf (walk cf fuel (snode s)) st text
  /\ (exists je', js_exec je (sgen sc (mode st) (j_buf jst) s) = Ok je'
                  /\ assoc_s (j_buf jst) (je_vars je') = Some (JStr (old ++ text))
                  /\ env_rel sc (c_ij cf) (sc_lookup (ctx st)) je')
  /\ gres (jwalk o fuel (snode s)) jst (sprint (j_indent jst) (sgen sc (mode st) (j_buf jst) s)).
Proof.
  intros Hob Hg Hf ER Hfresh Hij Hbuf Hsc Hmode E. split; [|split].
  - apply (interp_stmt cf (sc_lookup (ctx st)) Hob); auto.
    + intros k x Hk. pose proof (er_core _ _ _ _ ER k) as H. unfold env_val in H. rewrite Hk in H. exact H.
    + intros x Hx. exact (er_core_ij _ _ _ _ ER x Hx).
  - destruct (js_exec_correct sc (c_ij cf) (sc_lookup (ctx st)) (mode st) (j_buf jst) Hfresh Hij s je old text E (conj ER Hbuf)) as (je' & Ej & ER' & Hb').
    exists je'. auto.
  - subst sc. rewrite <- Hmode. apply sgen_print. exact Hf.
Qed.

(* the same with gst / sres / gres unfolded, as stated in Properties/C04.v *)
Theorem gen_correct_partial_if_stmt : forall cf o sc je st jst s fuel text old,
  c_oblig cf = [] -> bufs st = [] -> calls_left st = None -> bytes_left st = None ->
  (sdepth s < fuel)%nat ->
  env_rel sc (c_ij cf) (sc_lookup (ctx st)) je ->
  (forall key, bstr_eqb (jsc_lookup sc key) (j_buf jst) = false) -> bstr_eqb t_opt_ij (j_buf jst) = false ->
  assoc_s (j_buf jst) (je_vars je) = Some (JStr old) ->
  j_scope jst = sc -> j_auto jst = mode st ->
  sout (c_ij cf) (sc_lookup (ctx st)) (mode st) go_print_text s = Some text ->
  (exists st' ws rv, walk cf fuel (snode s) st = (Ok rv, st') /\ out st' = rev ws ++ out st /\ concat_b ws = text
                     /\ ctx st' = ctx st /\ mode st' = mode st
                     /\ bufs st' = [] /\ calls_left st' = None /\ bytes_left st' = None)
  /\ (exists je', js_exec je (sgen sc (mode st) (j_buf jst) s) = Ok je'
                  /\ assoc_s (j_buf jst) (je_vars je') = Some (JStr (old ++ text))
                  /\ env_rel sc (c_ij cf) (sc_lookup (ctx st)) je')
  /\ (exists jstf, jwalk o fuel (snode s) jst = Ok (tt, jstf)
                   /\ j_out jstf = rev (sprint (j_indent jst) (sgen sc (mode st) (j_buf jst) s)) ++ j_out jst
                   /\ j_indent jstf = j_indent jst /\ j_buf jstf = j_buf jst
                   /\ j_scope jstf = j_scope jst /\ j_auto jstf = j_auto jst).
Proof.
  intros cf o sc je st jst s fuel text old H1 H2 H3 H4.
  exact (gen_correct_partial_if cf o sc je st jst s fuel text old H1 (conj H2 (conj H3 H4))).
Qed.
