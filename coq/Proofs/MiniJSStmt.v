(* C04, the print stage with escaping: {print e|d1|d2...} for the directives
   id, noAutoescape, escapeHtml, under any autoescape mode. *)
From Soy Require Import Model.Bytes Model.Num Model.Values Model.Outcome Model.Ast Model.JsGen Model.MiniJS
  Model.Escape Model.Directives Model.Print Generated.Tables Model.Interp
  Proofs.EscapeProofs Proofs.MiniJSProofs Proofs.MiniJSPrint.
Open Scope N_scope.

(* ---- the three texts ---- *)
(* go_dir_text / go_dirs_text / go_print_text (what the Go renderer writes) are in Model/MiniJS.v *)

Definition js_dir_text (d : pdir) (s : bstr) : bstr := match d with PEscapeHtml => js_escape_html s | _ => s end.
Fixpoint js_dirs_text (ds : list pdir) (s : bstr) : bstr :=
  match ds with [] => s | d :: r => js_dirs_text r (js_dir_text d s) end.
Definition js_print_text (mode : N) (ds : list pdir) (s : bstr) : bstr :=
  match ds with [] => if mode =? 2 then s else js_escape_html s | _ => js_dirs_text ds s end.

(* a text on which the two escapers agree: no NUL and no double quote
   (finding quote-entity: &#34; against &quot;; NUL: U+FFFD / untouched against &#0;) *)
Definition clean (s : bstr) : Prop := Forall (fun c => c <> 0 /\ c <> 34) s.

Lemma entity_agree c : c <> 0 -> c <> 34 -> js_html_entity c = html_entity c /\ js_html_entity c = tmpl_entity c.
Proof.
  intros H0 H34. unfold js_html_entity, html_entity, tmpl_entity.
  replace (c =? 0) with false by (symmetry; apply N.eqb_neq; exact H0).
  replace (c =? 34) with false by (symmetry; apply N.eqb_neq; exact H34).
  cbn [assoc html_entity_table].
  replace (c =? 34) with false by (symmetry; apply N.eqb_neq; exact H34).
  destruct (N.eqb_spec c 38) as [->|N38]; [split; reflexivity|].
  destruct (N.eqb_spec c 39) as [->|N39]; [split; reflexivity|].
  destruct (N.eqb_spec c 60) as [->|N60]; [split; reflexivity|].
  destruct (N.eqb_spec c 62) as [->|N62]; split; reflexivity.
Qed.

Lemma entity_clean c e : js_html_entity c = Some e -> clean e.
Proof.
  unfold js_html_entity. repeat (destruct (c =? _); [intro H; inversion H; subst; repeat constructor; discriminate|]). discriminate.
Qed.

Lemma js_escape_clean s : clean s -> js_escape_html s = html_escape s /\ js_escape_html s = tmpl_html_escape s /\ clean (js_escape_html s).
Proof.
  rewrite html_escape_is_flat. induction 1 as [|c r [H0 H34] Hr IH]; cbn [js_escape_html html_escape_flat tmpl_html_escape].
  - repeat split; constructor.
  - destruct IH as (I1 & I2 & I3). destruct (entity_agree c H0 H34) as [A1 A2]. rewrite <- A1, <- A2.
    destruct (js_html_entity c) as [e|] eqn:Ee.
    + split; [rewrite I1; reflexivity|]. split; [rewrite I2; reflexivity|]. apply Forall_app. split; [exact (entity_clean c e Ee)|exact I3].
    + split; [rewrite I1; reflexivity|]. split; [rewrite I2; reflexivity|]. constructor; auto.
Qed.

Lemma dirs_text_agree ds : forall s, clean s -> js_dirs_text ds s = go_dirs_text ds s /\ clean (js_dirs_text ds s).
Proof.
  induction ds as [|d r IH]; intros s Hc; cbn [js_dirs_text go_dirs_text]. auto.
  destruct d; cbn [js_dir_text go_dir_text]; try (apply IH; exact Hc).
  destruct (js_escape_clean s Hc) as (_ & E2 & C). rewrite <- E2. apply IH. exact C.
Qed.

(* on clean text the two backends print the same bytes *)
Theorem print_text_agree mode ds s : clean s -> js_print_text mode ds s = go_print_text mode ds s.
Proof.
  intro Hc. unfold js_print_text, go_print_text. destruct ds as [|d r].
  - destruct (mode =? 2); [reflexivity|]. exact (proj1 (js_escape_clean s Hc)).
  - exact (proj1 (dirs_text_agree (d :: r) s Hc)).
Qed.

(* ---- the JavaScript side ---- *)
Lemma js_wrap_escapes je ds : forall x jv s, js_eval je x = Ok jv -> js_tostring jv = Some s ->
  exists jv', js_eval je (wrap_escapes ds x) = Ok jv' /\ js_tostring jv' = Some (js_dirs_text ds s).
Proof.
  induction ds as [|d r IH]; intros x jv s Hx Ht; cbn [wrap_escapes js_dirs_text]. eauto.
  destruct d; cbn [js_dir_text]; try solve [eapply IH; eauto].
  apply (IH (JEEscapeHtml x) (JStr (js_escape_html s))). cbn [js_eval]. rewrite Hx. cbn [bind]. rewrite Ht. reflexivity. reflexivity.
Qed.

Lemma js_print_expr je mode ds x jv s : js_eval je x = Ok jv -> js_tostring jv = Some s ->
  exists jv', js_eval je (cgen_print_expr mode ds x) = Ok jv' /\ js_tostring jv' = Some (js_print_text mode ds s).
Proof.
  intros Hx Ht. unfold cgen_print_expr, js_print_text. destruct (js_wrap_escapes je ds x jv s Hx Ht) as (jv1 & E1 & T1).
  destruct ds as [|d r]; [|eauto]. cbn [wrap_escapes js_dirs_text] in *. destruct (mode =? 2); [eauto|].
  exists (JStr (js_escape_html s)). cbn [js_eval]. rewrite E1. cbn [bind]. rewrite T1. split; reflexivity.
Qed.

(* ---- the Go side ---- *)
Lemma ld_subset d : exists fn, lookup_directive (pdir_name d) = Some ([0], (true, (false, fn)))
                               /\ forall s, apply_fn fn [] s = Ok (go_dir_text d s).
Proof. destruct d; eexists; (split; [vm_compute; reflexivity|intro s; reflexivity]). Qed.

Lemma print_dirs_subset cf w ds v s st : c_oblig cf = [] -> value_string v = Ok s ->
  print_dirs cf w (map pdir_node ds) v st = (Ok (map (fun d => (pdir_name d, @nil darg)) ds), st).
Proof.
  intro Hob. revert v s st. induction ds as [|d r IH]; intros v s st Hv; cbn [map print_dirs pdir_node].
  - rewrite Hob. reflexivity.
  - destruct (ld_subset d) as (fn & Hl & Hf). rewrite Hl. cbn [check_num_args length mem existsb negb N.of_nat].
    change (0 =? 0) with true. cbn [orb negb]. unfold mbind at 1. cbn [eval_list ret].
    unfold mbind at 1. rewrite Hv. cbn [lift].
    unfold mbind at 1. unfold print_writes. cbn [map apply_directives]. rewrite Hl.
    cbn [check_num_args length mem existsb negb N.of_nat]. change (0 =? 0) with true. cbn [orb negb].
    rewrite Hf. cbn [bind lift].
    change (negb (2 =? 2) && false) with false. cbn iota.
    unfold mbind at 1. rewrite (IH (VStr (concat_b [go_dir_text d s])) (concat_b [go_dir_text d s]) st eq_refl). reflexivity.
Qed.

Lemma apply_directives_subset ds : forall s esc,
  apply_directives (map (fun d => (pdir_name d, @nil darg)) ds) s esc
  = Ok (go_dirs_text ds s, match ds with [] => esc | _ => false end).
Proof.
  induction ds as [|d r IH]; intros s esc; cbn [map apply_directives go_dirs_text]. reflexivity.
  destruct (ld_subset d) as (fn & Hl & Hf). rewrite Hl. cbn [check_num_args length mem existsb negb N.of_nat].
  change (0 =? 0) with true. cbn [orb negb]. rewrite Hf. cbn [bind]. rewrite IH. rewrite andb_false_r. destruct r; reflexivity.
Qed.

Lemma write_all_ok ws : forall st, bufs st = [] -> calls_left st = None -> bytes_left st = None ->
  exists st', write_all ws st = (Ok tt, st') /\ out st' = rev ws ++ out st /\ ctx st' = ctx st /\ mode st' = mode st
              /\ bufs st' = [] /\ calls_left st' = None /\ bytes_left st' = None.
Proof.
  induction ws as [|w r IH]; intros st Hb Hc Hy; cbn [write_all].
  - exists st. repeat split; auto.
  - unfold mbind at 1. unfold write. rewrite Hb, Hc, Hy.
    destruct (IH (set_out st (w :: out st) None None) Hb eq_refl eq_refl) as (st' & E & Ho & Hx & Hm & B & C & Y).
    exists st'. split; [exact E|]. split; [|auto]. rewrite Ho. cbn [out set_out rev]. rewrite <- app_assoc. reflexivity.
Qed.

Lemma interp_print_dirs cf e ds fuel st v s :
  c_oblig cf = [] -> bufs st = [] -> calls_left st = None -> bytes_left st = None ->
  (forall k x, sc_lookup (ctx st) k = Some x -> core_value x = true) ->
  (forall x, c_ij cf = Some x -> core_value x = true) ->
  (S (cdepth e) < fuel)%nat ->
  ceval (c_ij cf) (sc_lookup (ctx st)) e = Some v -> v <> VUndef -> value_string v = Ok s ->
  exists st' ws, walk cf fuel (NPrint 0 (cnode e) (map pdir_node ds)) st = (Ok VUndef, st')
              /\ out st' = rev ws ++ out st /\ concat_b ws = go_print_text (mode st) ds s
              /\ ctx st' = ctx st /\ mode st' = mode st
              /\ bufs st' = [] /\ calls_left st' = None /\ bytes_left st' = None.
Proof.
  intros Hob Hb Hcl Hbl Hce Hci Hf E Hv Hs.
  destruct fuel as [|f]; [lia|]. cbn [walk]. unfold walk_body. unfold mbind at 1. cbn [modify].
  set (st1 := set_cur st (pos_of (NPrint 0 (cnode e) (map pdir_node ds)))).
  assert (P1 : pres st st1) by apply pres_set_cur.
  destruct (interp_ceval cf st Hce Hci e f st1 v ltac:(lia) (pres_ctx _ _ P1) E) as (st2 & E2 & P2).
  pose proof (pres_trans _ _ _ P1 P2) as (C & Mo & Ou & Bu & Cl & Bl).
  cbn [walk_node]. unfold mbind at 1. rewrite E2.
  set (text := go_print_text (mode st) ds s).
  assert (Hws : exists ws, print_writes (mode st2) (map (fun d => (pdir_name d, @nil darg)) ds) s = Ok ws /\ concat_b ws = text).
  { unfold print_writes. rewrite apply_directives_subset. cbn [bind]. subst text. unfold go_print_text. rewrite Mo.
    destruct ds as [|d r].
    - cbn [go_dirs_text]. destruct (mode st =? 2); cbn [negb]; eexists; (split; [reflexivity|]). cbn. apply app_nil_r. reflexivity.
    - eexists. split; [reflexivity|]. cbn. apply app_nil_r. }
  destruct Hws as (ws & Hw & Hcat).
  destruct (write_all_ok ws st2) as (st3 & E3 & O3 & C3 & M3 & B3 & L3 & Y3); try congruence.
  assert (Hrest : (dsx <-- print_dirs cf (walk cf f) (map pdir_node ds) v;;;
                   s0 <-- lift (value_string v);;;
                   stx <-- get;;;
                   wsx <-- lift (print_writes (mode stx) dsx s0);;; _ <-- write_all wsx;;; ret VUndef) st2
                  = (Ok VUndef, st3)).
  { unfold mbind at 1. rewrite (print_dirs_subset cf (walk cf f) ds v s st2 Hob Hs). unfold mbind at 1. rewrite Hs. cbn [lift].
    unfold mbind at 1. cbn [get]. unfold mbind at 1. rewrite Hw. cbn [lift]. unfold mbind at 1. rewrite E3. reflexivity. }
  exists st3, ws. split; [destruct v; try congruence; exact Hrest|]. repeat split; congruence.
Qed.

(* ---- the writer in general: the innermost capture buffer of renderBlock, or the output ---- *)
(* it does not fail: a capture buffer never does; the output does not when it has no budget of calls or bytes *)
Definition wok (st : mstate) : Prop :=
  match bufs st with [] => calls_left st = None /\ bytes_left st = None | _ => True end.
(* st' is st after the writes ws (in order) *)
Definition wrote (st st' : mstate) (ws : list bstr) : Prop :=
  calls_left st' = calls_left st /\ bytes_left st' = bytes_left st /\
  match bufs st with
  | [] => bufs st' = [] /\ out st' = rev ws ++ out st
  | b :: rest => bufs st' = (rev ws ++ b) :: rest /\ out st' = out st
  end.
(* nothing written, the writer untouched *)
Definition wsame (st st' : mstate) : Prop :=
  out st' = out st /\ bufs st' = bufs st /\ calls_left st' = calls_left st /\ bytes_left st' = bytes_left st.

Lemma pres_wsame st st' : pres st st' -> wsame st st'.
Proof. intros (_ & _ & O & B & C & Y). repeat split; assumption. Qed.
Lemma wsame_refl st : wsame st st. Proof. repeat split. Qed.
Lemma wsame_trans a c d : wsame a c -> wsame c d -> wsame a d.
Proof. intros (A1 & A2 & A3 & A4) (B1 & B2 & B3 & B4). repeat split; congruence. Qed.
Lemma wsame_wrote st st' : wsame st st' -> wrote st st' [].
Proof. intros (O & B & C & Y). unfold wrote. rewrite C, Y. split; [reflexivity|]. split; [reflexivity|]. destruct (bufs st); cbn; auto. Qed.
Lemma wrote_l a c d ws : wsame a c -> wrote c d ws -> wrote a d ws.
Proof. intros (O & B & C & Y) (H1 & H2 & H3). unfold wrote. rewrite <- B, <- O, <- C, <- Y. auto. Qed.
Lemma wrote_r a c d ws : wrote a c ws -> wsame c d -> wrote a d ws.
Proof.
  intros (H1 & H2 & H3) (O & B & C & Y). unfold wrote. rewrite O, B, C, Y. auto.
Qed.
Lemma wrote_trans a c d ws1 ws2 : wrote a c ws1 -> wrote c d ws2 -> wrote a d (ws1 ++ ws2).
Proof.
  intros (A1 & A2 & A3) (B1 & B2 & B3). unfold wrote. split; [congruence|]. split; [congruence|].
  destruct (bufs a) as [|b rest].
  - destruct A3 as [A3 A4]. rewrite A3 in B3. destruct B3 as [B3 B4]. split; [exact B3|]. rewrite B4, A4, rev_app_distr, app_assoc. reflexivity.
  - destruct A3 as [A3 A4]. rewrite A3 in B3. destruct B3 as [B3 B4]. split; [rewrite B3, rev_app_distr, app_assoc; reflexivity|congruence].
Qed.
Lemma wrote_wok st st' ws : wrote st st' ws -> wok st -> wok st'.
Proof.
  intros (C & Y & H) W. unfold wok in *. destruct (bufs st) as [|b rest].
  - destruct H as [H _]. rewrite H, C, Y. exact W.
  - destruct H as [H _]. rewrite H. exact I.
Qed.
Lemma wsame_wok st st' : wsame st st' -> wok st -> wok st'.
Proof. intros H. apply (wrote_wok st st' []). apply wsame_wrote; exact H. Qed.
(* the special case of the output *)
Lemma wrote_out st st' ws : bufs st = [] -> wrote st st' ws -> bufs st' = [] /\ out st' = rev ws ++ out st.
Proof. intros Hb (_ & _ & H). rewrite Hb in H. exact H. Qed.

Lemma write_wok w st : wok st -> exists st', write w st = (Ok tt, st') /\ wrote st st' [w] /\ ctx st' = ctx st /\ mode st' = mode st.
Proof.
  unfold wok, write, wrote. destruct (bufs st) as [|b rest] eqn:Eb.
  - intros [Hc Hy]. rewrite Hc, Hy. eexists. split; [reflexivity|]. cbn. rewrite Eb. auto 10.
  - intros _. eexists. split; [reflexivity|]. cbn. auto 10.
Qed.
Lemma write_all_wok ws : forall st, wok st ->
  exists st', write_all ws st = (Ok tt, st') /\ wrote st st' ws /\ ctx st' = ctx st /\ mode st' = mode st.
Proof.
  induction ws as [|w r IH]; intros st W; cbn [write_all].
  - exists st. split; [reflexivity|]. split; [apply wsame_wrote, wsame_refl|auto].
  - destruct (write_wok w st W) as (st1 & E1 & W1 & C1 & M1). unfold mbind at 1. rewrite E1.
    destruct (IH st1 (wrote_wok _ _ _ W1 W)) as (st2 & E2 & W2 & C2 & M2).
    exists st2. split; [exact E2|]. split; [exact (wrote_trans _ _ _ [w] r W1 W2)|split; congruence].
Qed.

(* interp_print_dirs for any writer that does not fail *)
Lemma interp_print_dirs_w cf e ds fuel st v s :
  c_oblig cf = [] -> wok st ->
  (forall k x, sc_lookup (ctx st) k = Some x -> core_value x = true) ->
  (forall x, c_ij cf = Some x -> core_value x = true) ->
  (S (cdepth e) < fuel)%nat ->
  ceval (c_ij cf) (sc_lookup (ctx st)) e = Some v -> v <> VUndef -> value_string v = Ok s ->
  exists st' ws, walk cf fuel (NPrint 0 (cnode e) (map pdir_node ds)) st = (Ok VUndef, st')
              /\ wrote st st' ws /\ concat_b ws = go_print_text (mode st) ds s
              /\ ctx st' = ctx st /\ mode st' = mode st.
Proof.
  intros Hob W Hce Hci Hf E Hv Hs.
  destruct fuel as [|f]; [lia|]. cbn [walk]. unfold walk_body. unfold mbind at 1. cbn [modify].
  set (st1 := set_cur st (pos_of (NPrint 0 (cnode e) (map pdir_node ds)))).
  assert (P1 : pres st st1) by apply pres_set_cur.
  destruct (interp_ceval cf st Hce Hci e f st1 v ltac:(lia) (pres_ctx _ _ P1) E) as (st2 & E2 & P2).
  pose proof (pres_trans _ _ _ P1 P2) as P. pose proof P as (C & Mo & Ou & Bu & Cl & Bl).
  cbn [walk_node]. unfold mbind at 1. rewrite E2.
  set (text := go_print_text (mode st) ds s).
  assert (Hws : exists ws, print_writes (mode st2) (map (fun d => (pdir_name d, @nil darg)) ds) s = Ok ws /\ concat_b ws = text).
  { unfold print_writes. rewrite apply_directives_subset. cbn [bind]. subst text. unfold go_print_text. rewrite Mo.
    destruct ds as [|d r].
    - cbn [go_dirs_text]. destruct (mode st =? 2); cbn [negb]; eexists; (split; [reflexivity|]). cbn. apply app_nil_r. reflexivity.
    - eexists. split; [reflexivity|]. cbn. apply app_nil_r. }
  destruct Hws as (ws & Hw & Hcat).
  destruct (write_all_wok ws st2 (wsame_wok _ _ (pres_wsame _ _ P) W)) as (st3 & E3 & W3 & C3 & M3).
  assert (Hrest : (dsx <-- print_dirs cf (walk cf f) (map pdir_node ds) v;;;
                   s0 <-- lift (value_string v);;;
                   stx <-- get;;;
                   wsx <-- lift (print_writes (mode stx) dsx s0);;; _ <-- write_all wsx;;; ret VUndef) st2
                  = (Ok VUndef, st3)).
  { unfold mbind at 1. rewrite (print_dirs_subset cf (walk cf f) ds v s st2 Hob Hs). unfold mbind at 1. rewrite Hs. cbn [lift].
    unfold mbind at 1. cbn [get]. unfold mbind at 1. rewrite Hw. cbn [lift]. unfold mbind at 1. rewrite E3. reflexivity. }
  exists st3, ws. split; [destruct v; try congruence; exact Hrest|].
  split; [exact (wrote_l _ _ _ _ (pres_wsame _ _ P) W3)|]. repeat split; congruence.
Qed.

(* ---- the generator: the chunks of the print statement ---- *)
Definition is_esc (d : pdir) : bool := match d with PEscapeHtml => true | _ => false end.
Definition escs (ds : list pdir) : list (bstr * list node) := map (fun _ => (n_escapeHtml, @nil node)) (filter is_esc ds).
Fixpoint esc_n (k : nat) (x : jexpr) : jexpr := match k with O => x | S k' => JEEscapeHtml (esc_n k' x) end.
Fixpoint rep {A} (k : nat) (l : list A) : list A := match k with O => [] | S k' => l ++ rep k' l end.

Lemma esc_n_succ_r k x : esc_n k (JEEscapeHtml x) = esc_n (S k) x.
Proof. induction k as [|k IH]; [reflexivity|]. cbn [esc_n]. rewrite IH. reflexivity. Qed.
Lemma wrap_escapes_n ds : forall x, wrap_escapes ds x = esc_n (length (filter is_esc ds)) x.
Proof.
  induction ds as [|d r IH]; intro x; [reflexivity|]. destruct d; cbn [wrap_escapes filter is_esc length]; try apply IH.
  rewrite IH. apply esc_n_succ_r.
Qed.
Lemma rep_single_comm {A} k (c : A) : rep k [c] ++ [c] = [c] ++ rep k [c].
Proof. induction k as [|k IH]; [reflexivity|]. cbn [rep]. rewrite <- app_assoc, IH. reflexivity. Qed.
Lemma jprint_esc_n k x :
  jprint (esc_n k x) = rep k [CText (directive_js n_escapeHtml); CText t_lpar] ++ jprint x ++ rep k [CText t_rpar].
Proof.
  induction k as [|k IH]; cbn [esc_n rep jprint]. rewrite app_nil_r. reflexivity.
  rewrite IH. rewrite <- !app_assoc. cbn [app]. f_equal. f_equal. f_equal. f_equal.
  change (CText t_rpar :: rep k [CText t_rpar]) with ([CText t_rpar] ++ rep k [CText t_rpar]). rewrite <- rep_single_comm. reflexivity.
Qed.

Lemma set_called_same st : set_called (j_called st) st = st. Proof. destruct st; reflexivity. Qed.
Lemma set_called_twice c1 c2 st : set_called c2 (set_called c1 st) = set_called c2 st. Proof. destruct st; reflexivity. Qed.

Lemma j_out_st_out st cs : j_out (st_out st cs) = rev cs ++ j_out st. Proof. destruct st; reflexivity. Qed.
Lemma j_out_st_after st cs : j_out (st_after st cs) = rev cs ++ j_out st. Proof. destruct st; reflexivity. Qed.
Lemma buf_out st cs : j_buf (st_out st cs) = j_buf st. Proof. destruct st; reflexivity. Qed.

(* the formatter of the generator's options writes no import line for a call or a directive (the ES5 formatter: its
   Call / Directive methods return an empty import; the ES6 formatter returns  import { f } from 'f.js';) *)
Definition c04_imp_free (o : jopts) : Prop :=
  forall name, fmt_chunks (fmt_call_text (o_fmt o)) name = [] /\ fmt_chunks (fmt_directive (o_fmt o)) name = [].
Lemma c04_imp_free_es5 o : o_fmt o = ES5 -> c04_imp_free o.
Proof. intros E name. rewrite E. split; reflexivity. Qed.

Section PrintChunks.
Variable o : jopts.

Lemma print_scan_subset ds : forall escape kept st,
  exists c, print_scan o (map pdir_node ds) escape kept st
            = Ok ((match ds with [] => escape | _ => 2 end, kept ++ escs ds), set_called c st)
            /\ (c04_imp_free o -> c = j_called st).
Proof.
  induction ds as [|d r IH]; intros escape kept st; cbn [map print_scan pdir_node].
  - exists (j_called st). rewrite set_called_same. unfold escs. cbn. rewrite app_nil_r. split; reflexivity.
  - destruct d; cbn [pdir_name].
    + (* id *) replace (assoc_s n_id js_directives) with (Some (@nil N, true)) by reflexivity. cbn iota.
      replace (bstr_eqb n_id n_id || bstr_eqb n_id n_noAutoescape) with true by reflexivity.
      destruct (IH 2 kept st) as (c & E & Hc). exists c. rewrite E. split; [destruct r; reflexivity|exact Hc].
    + replace (assoc_s n_noAutoescape js_directives) with (Some (@nil N, true)) by reflexivity. cbn iota.
      replace (bstr_eqb n_noAutoescape n_id || bstr_eqb n_noAutoescape n_noAutoescape) with true by reflexivity.
      destruct (IH 2 kept st) as (c & E & Hc). exists c. rewrite E. split; [destruct r; reflexivity|exact Hc].
    + replace (assoc_s n_escapeHtml js_directives) with (Some (directive_js n_escapeHtml, true)) by reflexivity. cbn iota.
      replace (bstr_eqb n_escapeHtml n_id || bstr_eqb n_escapeHtml n_noAutoescape) with false by reflexivity.
      replace (bstr_eqb n_escapeHtml n_changeNewlineToBr || bstr_eqb n_escapeHtml n_insertWordBreaks) with false by reflexivity.
      cbn iota.
      assert (Hn : exists c1, note_called n_escapeHtml (fmt_chunks (fmt_directive (o_fmt o)) (directive_js n_escapeHtml)) st = Ok (tt, set_called c1 st)
                              /\ (c04_imp_free o -> c1 = j_called st)).
      { unfold note_called. destruct (fmt_chunks (fmt_directive (o_fmt o)) (directive_js n_escapeHtml)) as [|ch chs] eqn:Ef.
        - exists (j_called st); rewrite set_called_same; split; reflexivity.
        - eexists. split; [reflexivity|]. intro HF. rewrite (proj2 (HF _)) in Ef. discriminate Ef. }
      destruct Hn as (c1 & Hn & Hc1). erewrite jbind_ok; [|exact Hn].
      destruct (IH 2 (kept ++ [(n_escapeHtml, [])]) (set_called c1 st)) as (c & E & Hc). exists c. split.
      * etransitivity; [exact E|]. rewrite set_called_twice.
        unfold escs. cbn [filter is_esc map]. rewrite <- app_assoc. destruct r; reflexivity.
      * intro HF. rewrite (Hc HF). rewrite <- (Hc1 HF). destruct st; reflexivity.
Qed.

Lemma print_opens_escs k st :
  print_opens (rep k [(n_escapeHtml, @nil node)]) st = Ok (tt, st_out st (rep k [CText (directive_js n_escapeHtml); CText t_lpar])).
Proof.
  revert st. induction k as [|k IH]; intro st; cbn [rep print_opens app]. rewrite st_out_nil. reflexivity.
  erewrite jbind_ok; [|apply jemit_out]. rewrite IH, st_out_out. reflexivity.
Qed.
Lemma print_closes_escs w k st :
  print_closes w (rep k [(n_escapeHtml, @nil node)]) st = Ok (tt, st_out st (rep k [CText t_rpar])).
Proof.
  revert st. induction k as [|k IH]; intro st; cbn [rep print_closes app print_args]. rewrite st_out_nil. reflexivity.
  erewrite jbind_ok; [|reflexivity]. replace (bstr_eqb n_escapeHtml n_truncate && Nat.eqb (@length node []) 1) with false by reflexivity.
  erewrite jbind_ok; [|reflexivity]. erewrite jbind_ok; [|apply jtxt_out]. rewrite IH, st_out_out. reflexivity.
Qed.
Lemma escs_rep ds : escs ds = rep (length (filter is_esc ds)) [(n_escapeHtml, @nil node)].
Proof. unfold escs. induction (filter is_esc ds) as [|d r IH]; [reflexivity|]. cbn [map length rep app]. rewrite IH. reflexivity. Qed.
Lemma rev_rep {A} k (c : A) : rev (rep k [c]) = rep k [c].
Proof. induction k as [|k IH]; [reflexivity|]. cbn [rep app rev]. rewrite IH. apply rep_single_comm. Qed.

(* the statement JsGen writes for {print e|ds}:  buf += <cgen_print_expr (autoescape mode) ds e>; *)
Theorem cgen_print_dirs_fr e ds lv fuel st : (S (cdepth e) < fuel)%nat -> cwf lv e = true -> lvok lv (j_scope st) ->
  exists stf, jwalk o fuel (NPrint 0 (cnode e) (map pdir_node ds)) st = Ok (tt, stf)
    /\ j_out stf = rev ([CText (indent_text (j_indent st)); CName (j_buf st); CText t_pluseq]
                        ++ jprint (cgen_print_expr (j_auto st) ds (cgen (j_scope st) e)) ++ [CText t_semi_nl]) ++ j_out st
    /\ j_indent stf = j_indent st /\ j_buf stf = j_buf st /\ j_scope stf = j_scope st /\ j_auto stf = j_auto st /\ j_n stf = j_n st
    /\ (c04_imp_free o -> j_called stf = j_called st).
Proof.
  intros Hf Hwf Hlv. destruct fuel as [|f]; [lia|]. rewrite jwalk_S. cbn [soydoc_flags].
  set (st1 := jset_cur None st).
  assert (H1 : j_auto st1 = j_auto st /\ j_indent st1 = j_indent st /\ j_buf st1 = j_buf st /\ j_scope st1 = j_scope st /\ j_out st1 = j_out st /\ j_n st1 = j_n st /\ j_called st1 = j_called st)
    by (subst st1; destruct st; cbn; auto 10).
  destruct H1 as (A1 & I1 & B1 & S1 & O1 & N1 & C1). rewrite <- S1 in Hlv. rewrite <- A1, <- I1, <- B1, <- S1, <- O1, <- N1, <- C1. clearbody st1.
  cbn [jwalk_node]. unfold visit_print. erewrite jbind_ok; [|reflexivity].
  destruct (print_scan_subset ds (j_auto st1) [] st1) as (c & Es & Hc). erewrite jbind_ok; [|exact Es]. cbn [app].
  set (st2 := set_called c st1).
  assert (C2 : c04_imp_free o -> j_called st2 = j_called st1) by (intro HF; subst st2; rewrite (Hc HF); destruct st1; reflexivity).
  assert (H2 : j_auto st2 = j_auto st1 /\ j_indent st2 = j_indent st1 /\ j_buf st2 = j_buf st1 /\ j_scope st2 = j_scope st1 /\ j_out st2 = j_out st1 /\ j_n st2 = j_n st1)
    by (subst st2; destruct st1; cbn; auto 10).
  destruct H2 as (A2 & I2 & B2 & S2 & O2 & N2). rewrite <- S2 in Hlv. rewrite <- I2, <- B2, <- S2, <- O2, <- N2. clearbody st2.
  (* the directives kept: k explicit escapes, plus the implicit one *)
  set (k := length (filter is_esc ds)).
  assert (Hk : exists k', (if (match ds with [] => j_auto st1 | _ => 2 end) =? 2 then escs ds else escs ds ++ [(n_escapeHtml, [])])
                          = rep k' [(n_escapeHtml, @nil node)]
                          /\ cgen_print_expr (j_auto st1) ds (cgen (j_scope st2) e) = esc_n k' (cgen (j_scope st2) e)).
  { unfold cgen_print_expr. rewrite wrap_escapes_n, escs_rep. fold k. destruct ds as [|d r].
    - cbn [filter length] in k. subst k. cbn [rep esc_n app]. destruct (j_auto st1 =? 2). exists 0%nat. split; reflexivity. exists 1%nat. split; reflexivity.
    - change (2 =? 2) with true. cbn iota. exists k. split; reflexivity. }
  destruct Hk as (k' & Hkept & Hexpr). rewrite Hkept, Hexpr.
  unfold jindent. erewrite jbind_ok; [|erewrite jbind_ok; [apply jtxt_out|reflexivity]].
  unfold bufname. erewrite jbind_ok; [|erewrite jbind_ok; [reflexivity|reflexivity]].
  erewrite jbind_ok; [|apply jemit_out]. rewrite rev_rep.
  erewrite jbind_ok; [|apply print_opens_escs].
  erewrite jbind_ok; [|apply (cgen_print o e lv); [lia|exact Hwf|rewrite ?scope_out; exact Hlv]].
  erewrite jbind_ok; [|apply print_closes_escs].
  rewrite jtxt_out. eexists. split; [reflexivity|]. split.
  - rewrite !j_out_st_out, j_out_st_after, !j_out_st_out, !scope_out, !buf_out. rewrite jprint_esc_n.
    rewrite !app_assoc. rewrite <- !rev_app_distr. f_equal. f_equal. rewrite <- ?app_assoc. cbn [app]. reflexivity.
  - unfold st_after, st_out. destruct st2; cbn in *. repeat split; auto.
Qed.
Theorem cgen_print_dirs e ds lv fuel st : (S (cdepth e) < fuel)%nat -> cwf lv e = true -> lvok lv (j_scope st) ->
  exists stf, jwalk o fuel (NPrint 0 (cnode e) (map pdir_node ds)) st = Ok (tt, stf)
    /\ j_out stf = rev ([CText (indent_text (j_indent st)); CName (j_buf st); CText t_pluseq]
                        ++ jprint (cgen_print_expr (j_auto st) ds (cgen (j_scope st) e)) ++ [CText t_semi_nl]) ++ j_out st
    /\ j_indent stf = j_indent st /\ j_buf stf = j_buf st /\ j_scope stf = j_scope st /\ j_auto stf = j_auto st /\ j_n stf = j_n st.
Proof.
  intros Hf Hwf Hlv. destruct (cgen_print_dirs_fr e ds lv fuel st Hf Hwf Hlv) as (stf & E & O & I & B & S & A & N & _).
  exists stf. auto 10.
Qed.
End PrintChunks.

(* gen_correct_partial_print (with escaping): one {print e|ds}, ds over id / noAutoescape / escapeHtml,
   under any autoescape mode: the bytes the Go renderer writes are the text the generated
   statement appends, provided String() of the value contains neither NUL nor a double quote *)
Theorem gen_correct_partial_print_esc cf sc je st e ds fuel v buf old :
  c_oblig cf = [] -> bufs st = [] -> calls_left st = None -> bytes_left st = None ->
  (S (cdepth e) < fuel)%nat ->
  env_rel sc (c_ij cf) (sc_lookup (ctx st)) je ->
  ceval (c_ij cf) (sc_lookup (ctx st)) e = Some v -> printable_scalar v = true ->
  (forall s, value_string v = Ok s -> clean s) ->
  assoc_s buf (je_vars je) = Some (JStr old) ->
  exists text,
    (exists st' ws, walk cf fuel (NPrint 0 (cnode e) (map pdir_node ds)) st = (Ok VUndef, st')
                    /\ out st' = rev ws ++ out st /\ concat_b ws = text /\ ctx st' = ctx st /\ mode st' = mode st)
    /\ (exists je', js_append je buf (cgen_print_expr (mode st) ds (cgen sc e)) = Ok (text, je')
                    /\ assoc_s buf (je_vars je') = Some (JStr (old ++ text)) /\ je_data je' = je_data je).
Proof.
  intros Hob Hb Hcl Hbl Hf ER E Hp Hclean Hbuf.
  destruct (tostring_value_string v Hp) as (s & Hs & Ht).
  exists (go_print_text (mode st) ds s). split.
  - destruct (interp_print_dirs cf e ds fuel st v s) as (st' & ws & H); auto.
    + intros k x Hk. pose proof (er_core _ _ _ _ ER k) as H. unfold env_val in H. rewrite Hk in H. exact H.
    + intros x Hx. exact (er_core_ij _ _ _ _ ER x Hx).
    + destruct v; try discriminate; discriminate.
    + exists st', ws. destruct H as (H1 & H2 & H3 & H4 & H5 & _). auto.
  - destruct (cgen_correct sc (c_ij cf) (sc_lookup (ctx st)) je ER e v E) as [Hj _].
    destruct (js_print_expr je (mode st) ds (cgen sc e) (to_js v) s Hj Ht) as (jv' & Ej & Tj).
    rewrite (print_text_agree (mode st) ds s (Hclean s Hs)) in Tj.
    unfold js_append. rewrite Ej. cbn [bind]. rewrite Tj, Hbuf. eexists. split; [reflexivity|]. cbn [je_vars je_data].
    split; [apply assoc_s_aset|reflexivity].
Qed.
