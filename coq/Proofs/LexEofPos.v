(* C19, parse half, scanner: unterminated constructs.  Whenever the scan of a block comment or of
   a string ends the scan (next state nil), the item it sent last is the error item positioned at
   the END of the input -- "the line where scanning stopped"; and a tag that meets the end of the
   input reports "unclosed tag" there.  With line_at_monotone the reported line lies between the
   line the construct was opened on and the last line of the input. *)
From Soy Require Import Model.Bytes Model.Utf8 Model.Outcome Model.Token Model.Lexer Generated.Tables Spec.ErrPos
  Model.Interp Proofs.LexerPrim Proofs.ErrTokProofs Proofs.LexErrPos.
From Coq Require Import ZifyBool ZifyNat ZifyN Lia.
Open Scope Z_scope.

Section Eof.
Variable inp : bstr.
Notation ilen := (Z.of_nat (length inp)).
Variable base : Z.            (* 0 for lex / lexExpr; the offset in the enclosing file for lexExprAt *)
Hypothesis Hbase : 0 <= base.

Lemma emit_to_not_done t st l l' : st <> LDone -> emit_to inp ilen base t st l = Ok (LDone, l') -> False.
Proof. intros Hst H. unfold emit_to in H. destruct (emit inp ilen base t l); cbn in H; inversion H. congruence. Qed.

Lemma next_cases l :
  0 <= l_pos l ->
  exists r l1, next inp ilen l = Ok (r, l1) /\ l_out l1 = l_out l /\
    ((r = eof /\ l_pos l1 = l_pos l /\ ilen <= l_pos l) \/ (0 <= r /\ l_pos l < l_pos l1 <= ilen)).
Proof.
  intros Hp. pose proof (next_spec inp l Hp) as H. destruct (next inp ilen l) as [[r l1]| | | | |]; cbn in H; try contradiction.
  exists r, l1. split; [reflexivity|]. destruct H as (_ & _ & Hpos & _ & _ & Hout & Hc). split; [exact Hout|].
  destruct Hc as [(Hr & Hw & Hle) | (Hr & Hw & Hle & _)]; [left | right]; repeat split; lia.
Qed.

Theorem block_comment_error_at_end fuel : forall star l l',
  0 <= l_pos l <= ilen -> block_comment_loop inp ilen base fuel star l = Ok (LDone, l') ->
  l_out l' = err_item (base + ilen) e_comment_eof :: l_out l.
Proof.
  induction fuel as [|f IH]; intros star l l' Hp H; [discriminate|].
  cbn [block_comment_loop] in H.
  destruct (next_cases l ltac:(lia)) as (r & l1 & Hn & Ho & Hc). rewrite Hn in H. cbn [bind] in H.
  destruct Hc as [(Hr & Hpos & Hle) | (Hr & Hpos)].
  - subst r. change (eof =? eof) with true in H. cbn iota in H. unfold errorf in H.
    destruct (base + l_pos l1 <? 0) eqn:E; [lia|]. inversion H; subst. cbn [l_out]. rewrite Ho.
    f_equal. unfold err_item. f_equal. lia.
  - assert (Heof : (r =? eof) = false) by (unfold eof; lia). rewrite Heof in H.
    destruct (r =? 42); [rewrite <- Ho; apply (IH true l1 l'); [lia | exact H]|].
    destruct ((r =? 47) && star).
    + exfalso. eapply emit_to_not_done; [|exact H]. discriminate.
    + rewrite <- Ho. apply (IH false l1 l'); [lia | exact H].
Qed.

Theorem string_error_at_end fuel : forall q l l',
  0 <= l_pos l <= ilen -> string_loop inp ilen base fuel q l = Ok (LDone, l') ->
  l_out l' = err_item (base + ilen) e_string_eof :: l_out l.
Proof.
  induction fuel as [|f IH]; intros q l l' Hp H; [discriminate|].
  cbn [string_loop] in H.
  destruct (next_cases l ltac:(lia)) as (r & l1 & Hn & Ho & Hc). rewrite Hn in H. cbn [bind] in H.
  destruct Hc as [(Hr & Hpos & Hle) | (Hr & Hpos)].
  - subst r. change (eof =? eof) with true in H. cbn iota in H. unfold errorf in H.
    destruct (base + l_pos l1 <? 0) eqn:E; [lia|]. inversion H; subst. cbn [l_out]. rewrite Ho.
    f_equal. unfold err_item. f_equal. lia.
  - assert (Heof : (r =? eof) = false) by (unfold eof; lia). rewrite Heof in H.
    destruct (r =? 92).
    + destruct (next_cases l1 ltac:(lia)) as (r2 & l2 & Hn2 & Ho2 & Hc2). rewrite Hn2 in H. cbn [bind] in H.
      rewrite <- Ho, <- Ho2. apply (IH q l2 l'); [|exact H].
      destruct Hc2 as [(_ & Hp2 & _) | (_ & Hp2)]; lia.
    + destruct (r =? q).
      * exfalso. eapply emit_to_not_done; [|exact H]. discriminate.
      * rewrite <- Ho. apply (IH q l1 l'); [lia | exact H].
Qed.

(* a tag that meets the end of the input *)
Theorem unclosed_tag_at_end l :
  0 <= l_pos l -> ilen <= l_pos l ->
  exists l', lex_inside_tag inp ilen base l = Ok (LDone, l') /\ l_out l' = err_item (base + l_pos l) e_unclosed_tag :: l_out l.
Proof.
  intros Hp Hle. unfold lex_inside_tag, next. apply Z.leb_le in Hle. rewrite Hle. cbn [bind].
  change (gen_isSpaceEOL eof) with false. cbn iota.
  change (eof =? 47) with false. cbn iota. cbn [bind].
  repeat (match goal with |- context [if ?c then _ else _] =>
            let v := eval vm_compute in c in change c with v; cbn iota end).
  cbn [bind]. unfold errorf. cbn [l_pos]. destruct (base + l_pos l <? 0) eqn:E; [lia|].
  eexists. split; reflexivity.
Qed.
End Eof.

(* the line of an error item standing at the end of the input is the last line, which is not
   before the line the construct was opened on *)
Open Scope N_scope.
Theorem end_of_input_line src opened :
  opened <= N.of_nat (length src) ->
  line_at src (N.of_nat (length src)) = lines src /\ line_at src opened <= line_at src (N.of_nat (length src)).
Proof.
  intros H. split; [|apply line_at_monotone; exact H].
  unfold line_at, lines. rewrite Nat2N.id. f_equal.
  assert (Ht : take (length src) src = src) by (clear; induction src as [|c r IH]; cbn; [reflexivity | rewrite IH; reflexivity]).
  rewrite Ht. reflexivity.
Qed.
