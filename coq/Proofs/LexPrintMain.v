(* lex_print: the scanner model on the text print_node e, for every expression that is well-formed
   (wf_expr) and lexically well-formed (lex_ok), sends exactly the items tokens_of e (types and texts;
   positions aside). *)
From Soy Require Import Model.Bytes Model.Utf8 Model.Num Model.Values Model.Outcome Model.Ast Model.Token Model.NumLit Model.Quote
  Model.AstPrint Generated.Tables Model.Lexer Spec.ExprSyntax
  Proofs.Utf8Proofs Proofs.MsgIdProofs Proofs.ExprParserProofs Proofs.LexerPrim Proofs.LexerStates
  Proofs.LexTokens Proofs.LexNumbers Proofs.LexStrings Proofs.LexExpr Proofs.LexPrint.
From Coq Require Import ZifyBool ZifyNat ZifyN Lia.
Open Scope Z_scope.

(* an item up to its position *)
Definition tv (t : tok) : N * bstr := (t_typ t, t_val t).

(* ---------- the minimal style does not depend on the path ---------- *)

Lemma mapi_from_const {A B} (g : A -> B) l : forall i, mapi_from (fun _ x => g x) i l = map g l.
Proof. induction l as [|x l IH]; intros i; [reflexivity|]. rewrite mapi_from_cons. cbn [map]. rewrite IH. reflexivity. Qed.

Lemma sty_min_0 p : sty_min p = 0%nat. Proof. reflexivity. Qed.

Lemma show_min_path : forall e p1 p2, show sty_min p1 e = show sty_min p2 e.
Proof.
  induction e as [e IH] using size_induction. intros p1 p2.
  destruct e; try reflexivity; cbn [show]; rewrite ?sty_min_0; cbn [parens Nat.add].
  - (* func *) do 2 f_equal. f_equal. f_equal. apply mapi_from_ext_in. intros i c Hc. rewrite !sty_min_0. cbn [parens]. apply IH.
    cbn [size]. pose proof (size_in_list c args Hc). lia.
  - (* list *) f_equal. f_equal. f_equal. apply mapi_from_ext_in. intros i c Hc. rewrite !sty_min_0. cbn [parens]. apply IH.
    cbn [size]. pose proof (size_in_list c items Hc). lia.
  - (* map *) destruct items as [|kv items]; [reflexivity|]. f_equal. f_equal. f_equal. apply mapi_from_ext_in. intros i c Hc.
    rewrite !sty_min_0. cbn [parens]. do 2 f_equal. apply IH.
    cbn [size]. pose proof (list_sum_In (fun kv => size (snd kv)) c _ Hc). lia.
  - (* dataref *) f_equal. f_equal. apply mapi_from_ext_in. intros i c Hc. apply IH. cbn [size]. pose proof (size_in_list c access Hc). lia.
  - (* acc expr *) f_equal. f_equal. apply IH. cbn [size]. lia.
  - (* not *) f_equal. f_equal. apply IH. cbn [size]. lia.
  - (* neg *) f_equal. f_equal. apply IH. cbn [size]. lia.
  - (* bin *) f_equal; [f_equal; apply IH; cbn [size]; lia|]. f_equal. f_equal. apply IH. cbn [size]. lia.
  - (* tern *) f_equal; [f_equal; apply IH; cbn [size]; lia|]. f_equal. f_equal; [apply IH; cbn [size]; lia|]. f_equal. apply IH. cbn [size]. lia.
Qed.

Definition toks (e : node) : list (N * bstr) := map tv (tokens_of e).

(* ---------- lexical well-formedness ---------- *)

Definition dot_seg (seg : bstr) : Prop := exists cs, seg = 46%N :: cs /\ alnums cs /\ head_digit cs = false.
Definition dotted_ok (name : bstr) : Prop :=
  match split_dots [] name with
  | first :: rest => plain_word first /\ Forall dot_seg rest
  | [] => False
  end.
Definition str_ok (q : bstr) : Prop := exists rs, q = quoted rs /\ Forall valid_scalar rs /\ str_body_ok 39 rs = true.
Definition float_txt_ok (s : bstr) : Prop :=
  exists hs ip frac ex, s = num_text hs ip frac ex /\ num_ok ip frac ex /\ num_type frac ex = itemFloat.

Fixpoint lex_ok (e : node) : Prop :=
  match e with
  | NNull _ | NBool _ _ | NInt _ _ => True
  | NFloat _ f => match fl_print f with Some s => float_txt_ok s | None => True end
  | NString _ q _ => str_ok q
  | NGlobal _ name _ => dotted_ok name
  | NFunc _ name args => plain_word name /\ allP lex_ok args
  | NListLit _ items => allP lex_ok items
  | NMapLit _ items => allP (fun kv => str_ok (quote_key (fst kv)) /\ lex_ok (snd kv)) items
  | NDataRef _ key acc =>
      alnums key /\
      allP (fun a => match a with
                     | NAccIndex _ _ _ => True
                     | NAccKey _ _ k => alnums k /\ head_digit k = false
                     | NAccExpr _ _ x => lex_ok x
                     | _ => False
                     end) acc
  | NNot _ a | NNeg _ a => lex_ok a
  | NBin _ _ a1 a2 => lex_ok a1 /\ lex_ok a2
  | NTern _ c x y => lex_ok c /\ lex_ok x /\ lex_ok y
  | _ => False
  end.

(* ---------- the text of an integer ---------- *)

Lemma lsd_last_nonzero fuel : forall n, (0 < n)%N -> (n < 2 ^ N.of_nat fuel)%N -> last (lsd fuel n) 0%N <> 48%N.
Proof.
  induction fuel as [|f IH]; intros n Hn Hlt; [cbn in Hlt; lia|]. cbn [lsd].
  destruct (N.eqb_spec (n / 10) 0) as [E|E].
  - cbn [last]. assert (n < 10)%N by (apply N.div_small_iff in E; lia). rewrite N.mod_small by lia. lia.
  - assert (Hq : (0 < n / 10)%N) by lia.
    assert (Hlt' : (n / 10 < 2 ^ N.of_nat f)%N).
    { rewrite Nat2N.inj_succ, N.pow_succ_r' in Hlt. apply N.div_lt_upper_bound; lia. }
    specialize (IH (n / 10)%N Hq Hlt').
    destruct (lsd f (n / 10)) as [|d r] eqn:El.
    + destruct f; cbn in El; [cbn in Hlt'; lia|discriminate].
    + exact IH.
Qed.

Lemma digit_byte_b c : is_digit_byte c -> digit_b c = true.
Proof. unfold is_digit_byte, digit_b. lia. Qed.

Lemma dec_of_N_shape p : exists d ds, dec_of_N (Npos p) = d :: ds /\ all_digits (d :: ds) /\ d <> 48%N.
Proof.
  pose proof (dec_of_N_digits (Npos p)) as Hd. pose proof (dec_of_N_nonempty (Npos p)) as Hne.
  pose proof (dec_of_N_lsd (Npos p)) as Hl.
  destruct (dec_of_N (Npos p)) as [|d ds] eqn:E; [congruence|]. exists d, ds. split; [reflexivity|]. split.
  - unfold all_digits. eapply Forall_impl; [|exact Hd]. intros c Hc. apply digit_byte_b. exact Hc.
  - pose proof (lsd_last_nonzero (S (N.to_nat (N.log2 (Npos p)))) (Npos p) ltac:(lia)) as Hz.
    assert (Hlt : (N.pos p < 2 ^ N.of_nat (S (N.to_nat (N.log2 (N.pos p)))))%N).
    { rewrite Nat2N.inj_succ, N2Nat.id. apply N.log2_spec. lia. }
    specialize (Hz Hlt).
    assert (Hlast : last (lsd (S (N.to_nat (N.log2 (N.pos p)))) (N.pos p)) 0%N = d).
    { remember (lsd (S (N.to_nat (N.log2 (N.pos p)))) (N.pos p)) as L. assert (Hr : rev L = d :: ds) by congruence.
      assert (HL : L = rev ds ++ [d]) by (rewrite <- (rev_involutive L), Hr; reflexivity). rewrite HL. apply last_last. }
    congruence.
Qed.

Lemma dec_of_Z_num z : exists hs ip, dec_of_Z z = num_text hs ip None None /\ num_ok ip None None.
Proof.
  destruct z as [|p|p]; cbn [dec_of_Z].
  - exists false, [48%N]. split; [reflexivity|]. repeat split; try discriminate; try exact I. repeat constructor.
  - destruct (dec_of_N_shape p) as (d & ds & E & Hd & Hnz). exists false, (d :: ds). rewrite E. split; [unfold num_text; cbn; rewrite app_nil_r; reflexivity|].
    repeat split; try discriminate; try exact I; [exact Hd|]. cbn. destruct d as [|q]; try exact I. do 6 (destruct q as [q|q|]; try exact I). destruct ds; [exact I|congruence].
  - destruct (dec_of_N_shape p) as (d & ds & E & Hd & Hnz). exists true, (d :: ds). rewrite E. split; [unfold num_text; cbn; rewrite app_nil_r; reflexivity|].
    repeat split; try discriminate; try exact I; [exact Hd|]. cbn. destruct d as [|q]; try exact I. do 6 (destruct q as [q|q|]; try exact I). destruct ds; [exact I|congruence].
Qed.

(* ---------- lists of children ---------- *)

Lemma opt_all_items {A} (f : A -> option bstr) (g : A -> list (N * bstr)) : forall xs l, opt_all (map f xs) = Some l ->
  map fst (combine l (map g xs)) = l /\ map snd (combine l (map g xs)) = map g xs /\
  (forall it, In it (combine l (map g xs)) -> exists x, In x xs /\ f x = Some (fst it) /\ snd it = g x).
Proof.
  induction xs as [|x xs IH]; intros l H; cbn [map opt_all] in H.
  - injection H as <-. cbn. repeat split. intros it [].
  - destruct (f x) as [s|] eqn:Ef; [|discriminate]. destruct (opt_all (map f xs)) as [r|] eqn:Er; [|discriminate].
    injection H as <-. destruct (IH r eq_refl) as (A1 & A2 & A3). cbn [map combine fst snd]. rewrite A1, A2. repeat split.
    intros it [<-|Hin].
    + exists x. cbn. split; [left; reflexivity|]. split; [exact Ef|reflexivity].
    + destruct (A3 it Hin) as (y & Hy & B1 & B2). exists y. split; [right; exact Hy|]. split; assumption.
Qed.

Lemma map_tv_sep_join ls : map tv (sep_join [T_comma] ls) = sepj [T_com] (map (map tv) ls).
Proof.
  induction ls as [|x ls IH]; [reflexivity|]. destruct ls as [|y ls]; [reflexivity|].
  rewrite sep_join_cons2, !map_app, IH. reflexivity.
Qed.

Lemma map_tv_parens1 (b : bool) ts : map tv (parens (b2n b) ts) = if b then [T_lp] ++ map tv ts ++ [T_rp] else map tv ts.
Proof. destruct b; cbn [b2n parens]; [|reflexivity]. cbn [map]. rewrite map_app. reflexivity. Qed.

(* ---------- map literals: the printer sorts by key; sorted keys stay as they are ---------- *)

Lemma bstr_ltb_asym x : forall y, bstr_ltb x y = true -> bstr_ltb y x = false.
Proof.
  induction x as [|a x IH]; intros [|c y] H; cbn in *; try discriminate; try reflexivity.
  destruct (N.ltb_spec a c); destruct (N.ltb_spec c a); try lia; try reflexivity; try discriminate; apply IH; exact H.
Qed.

Lemma sort_kv_sorted (l : list (bstr * bstr)) : keys_sorted (map fst l) -> sort_kv l = l.
Proof.
  induction l as [|x l IH]; intros Hs; [reflexivity|]. cbn [map keys_sorted] in Hs. destruct Hs as [Hh Hs].
  unfold sort_kv in *. cbn [fold_right]. rewrite (IH Hs). destruct l as [|y l]; [reflexivity|].
  cbn [insert_kv]. cbn [map] in Hh. unfold bstr_leb. rewrite (bstr_ltb_asym _ _ Hh). reflexivity.
Qed.

Lemma opt_all_kv_items (g : node -> list (N * bstr)) : forall (items : list (bstr * node)) l,
  opt_all_kv (map (fun kv => (fst kv, print_node (snd kv))) items) = Some l ->
  map fst l = map fst items /\
  (forall it, In it (combine l items) -> fst (fst it) = fst (snd it) /\ print_node (snd (snd it)) = Some (snd (fst it)) /\ In (snd it) items) /\
  length l = length items.
Proof.
  induction items as [|[k v] items IH]; intros l H; cbn [map opt_all_kv fst snd] in H.
  - injection H as <-. cbn. repeat split; try (intros ? []); contradiction.
  - destruct (print_node v) as [s|] eqn:Ev; [|discriminate].
    destruct (opt_all_kv (map (fun kv => (fst kv, print_node (snd kv))) items)) as [r|] eqn:Er; [|discriminate].
    injection H as <-. destruct (IH r eq_refl) as (A1 & A2 & A3). cbn [map fst combine length]. rewrite A1, A3. split; [reflexivity|]. split; [|reflexivity].
    intros it0 [<-|Hin]; cbn [fst snd].
    + repeat split; [exact Ev|left; reflexivity].
    + destruct (A2 it0 Hin) as (B1 & B2 & B3). repeat split; [exact B1|exact B2|right; exact B3].
Qed.

(* ---------- the first character of a printed primary or unary expression ---------- *)

Lemma num_text_head hs ip frac ex : num_ok ip frac ex ->
  exists c r, num_text hs ip frac ex = c :: r /\ (c < 128)%N /\ digit_b c = negb hs.
Proof.
  intros (Hip & Hne & _). destruct ip as [|d ip]; [congruence|]. inversion Hip as [|? ? Hd _]; subst.
  unfold num_text, sign_text. destruct hs; cbn [app].
  - eexists; eexists. split; [reflexivity|]. split; [lia|reflexivity].
  - eexists; eexists. split; [reflexivity|]. split; [unfold digit_b in Hd; lia|exact Hd].
Qed.

Lemma print_head e sa : wf_expr e -> lex_ok e -> print_node e = Some sa -> (expr_level e <? lvl_unary)%N = false ->
  exists c r, sa = c :: r /\ (c < 128)%N /\ digit_b c = neg_literal e.
Proof.
  intros Hwf Hlo Hp Hlv.
  destruct e; cbn [wf_expr] in Hwf; try contradiction; cbn [lex_ok] in Hlo; try contradiction; cbn [print_node] in Hp;
    cbn [expr_level] in Hlv; try discriminate; cbn [neg_literal].
  - injection Hp as <-. eexists; eexists. split; [reflexivity|]. split; [lia|reflexivity].
  - injection Hp as <-. destruct x; (eexists; eexists; split; [reflexivity|]; split; [lia|reflexivity]).
  - injection Hp as <-. destruct z as [|q|q]; cbn [dec_of_Z].
    + eexists; eexists. split; [reflexivity|]. split; [lia|reflexivity].
    + destruct (dec_of_N_shape q) as (d & ds & E & Hd & _). rewrite E. inversion Hd as [|? ? Hd0 _]; subst.
      eexists; eexists. split; [reflexivity|]. split; [unfold digit_b in Hd0; lia|]. rewrite Hd0. reflexivity.
    + eexists; eexists. split; [reflexivity|]. split; [lia|reflexivity].
  - rewrite Hp in Hlo |- *. destruct Hlo as (hs & ip & frac & ex & -> & Hok & _).
    destruct (num_text_head hs ip frac ex Hok) as (c & r & E & Hc & Hd). rewrite E. cbn [starts_with_digit].
    exists c, r. split; [reflexivity|]. split; [exact Hc|]. unfold digit_b. reflexivity.
  - injection Hp as <-. destruct Hlo as (rs & -> & _). eexists; eexists. split; [reflexivity|]. split; [lia|reflexivity].
  - injection Hp as <-. unfold dotted_ok in Hlo. pose proof (split_dots_concat name []) as Hc. cbn [app] in Hc.
    destruct (split_dots [] name) as [|first rest]; [contradiction|]. destruct Hlo as [(c0 & cs & -> & H0 & H1 & _) _].
    rewrite <- Hc. cbn [List.concat app]. eexists; eexists. split; [reflexivity|]. split; [exact H0|].
    unfold letter_b in H1. unfold digit_b. lia.
  - destruct Hlo as [(c0 & cs & -> & H0 & H1 & _) _]. destruct (opt_all (map print_node args)); cbn [obind] in Hp; [|discriminate].
    injection Hp as <-. cbn [app]. eexists; eexists. split; [reflexivity|]. split; [exact H0|]. unfold letter_b in H1. unfold digit_b. lia.
  - destruct (opt_all (map print_node items)); cbn [obind] in Hp; [|discriminate]. injection Hp as <-.
    eexists; eexists. split; [reflexivity|]. split; [lia|reflexivity].
  - destruct items as [|kv items].
    + injection Hp as <-. eexists; eexists. split; [reflexivity|]. split; [lia|reflexivity].
    + destruct (opt_all_kv _); cbn [obind] in Hp; [|discriminate]. injection Hp as <-.
      eexists; eexists. split; [reflexivity|]. split; [lia|reflexivity].
  - destruct (opt_all (map print_node access)); cbn [obind] in Hp; [|discriminate]. injection Hp as <-.
    eexists; eexists. split; [reflexivity|]. split; [lia|reflexivity].
  - destruct (print_node e); cbn [obind] in Hp; [|discriminate]. injection Hp as <-.
    eexists; eexists. split; [reflexivity|]. split; [lia|reflexivity].
  - destruct (print_node e) as [s0|]; cbn [obind] in Hp; [|discriminate].
    destruct (wrap_operand (level_of e) ast_prec_unary s0) as [|a0 r0]; [discriminate|].
    destruct (starts_with_digit (a0 :: r0)); injection Hp as <-; (eexists; eexists; split; [reflexivity|]; split; [lia|reflexivity]).
  - (* a binary operator has a level below the unary one *) exfalso. destruct op; cbn in Hlv; discriminate.
Qed.

(* ---------- where an expression may start ---------- *)
Definition no_minus (txt : bstr) : Prop := match txt with 45%N :: _ => False | _ => True end.
Definition pos_ok (P : N -> Prop) (txt : bstr) : Prop := (forall ty, P ty -> opnd ty) \/ no_minus txt.
Lemma pos_ok_opnd txt : pos_ok opnd txt. Proof. left. auto. Qed.
Lemma pos_ok_minus P r : pos_ok P (45%N :: r) -> forall ty, P ty -> opnd ty.
Proof. intros [H|H]; [exact H|contradiction H]. Qed.
(* the leftmost operand of a binary or ternary operator, printed without parentheses *)
Lemma pos_ok_left P (b : bool) (s1 w r : bstr) : b = false -> pos_ok P ((if b then w else s1) ++ r) -> pos_ok P s1.
Proof. intros -> [H|H]; [left; exact H|right]. destruct s1; [exact I|exact H]. Qed.

Section Main.
Variable uni_letter uni_digit : Z -> bool.
Hypothesis letter_ascii : forall c, (c < 128)%N -> uni_letter (Z.of_N c) = ((65 <=? c) && (c <=? 90) || (97 <=? c) && (c <=? 122))%N.
Hypothesis digit_ascii : forall c, (c < 128)%N -> uni_digit (Z.of_N c) = digit_b c.
Hypothesis letter_eof : uni_letter (-1) = false.
Hypothesis digit_eof : uni_digit (-1) = false.
Variable inp : bstr.
Variable base : Z.
Notation L := (lexes uni_letter uni_digit inp base).
Notation W lem := (lem uni_letter uni_digit letter_ascii digit_ascii letter_eof digit_eof inp base).

(* an operand that the printer may have to parenthesise *)
Lemma L_wrap (b : bool) s ts : L opnd fexp s ts term ->
  L opnd fexp (if b then [40%N] ++ s ++ [41%N] else s) (if b then [T_lp] ++ ts ++ [T_rp] else ts) term.
Proof. intros H. destruct b; [apply (W L_paren); exact H|exact H]. Qed.
(* the leftmost operand, whatever the last item was: in parentheses the inside is an operand position *)
Lemma L_wrap_P (P : N -> Prop) (b : bool) s ts : L opnd fexp s ts term -> (b = false -> L P fexp s ts term) ->
  L P fexp (if b then [40%N] ++ s ++ [41%N] else s) (if b then [T_lp] ++ ts ++ [T_rp] else ts) term.
Proof. intros H H'. destruct b; [apply (W L_paren); exact H|exact (H' eq_refl)]. Qed.

Lemma fexp_num frac ex s : fexp s -> num_follow frac ex s.
Proof.
  intros H. split; [apply fexp_stops; exact H|]. intros _ _. destruct s as [|c s]; [exact I|]. cbn in H. lia.
Qed.

(* a keyword used as a value *)
Lemma L_keyword_P (P : N -> Prop) c0 cs t : (c0 < 128)%N -> letter_b c0 = true -> alnums cs -> word_type (c0 :: cs) = t ->
  t <> itemLiteral -> t <> itemCss -> ends_term t = true -> L P fexp (c0 :: cs) [(t, c0 :: cs)] term.
Proof.
  intros H0 H1 H2 Ht Hn1 Hn2 He. pose proof (W lexes_word c0 cs H0 H1 H2) as Hw. rewrite Ht in Hw.
  eapply lexes_weaken; [apply (W L_eq_term _ _ _ _ _ (Hw Hn1 Hn2) He)|intros; exact I|apply fexp_stops|auto].
Qed.
Lemma L_keyword c0 cs t : (c0 < 128)%N -> letter_b c0 = true -> alnums cs -> word_type (c0 :: cs) = t ->
  t <> itemLiteral -> t <> itemCss -> ends_term t = true -> L opnd fexp (c0 :: cs) [(t, c0 :: cs)] term.
Proof. apply L_keyword_P. Qed.

(* the text of a non-negative integer is a non-empty run of digits *)
Lemma dec_of_Z_digits z : (0 <= z)%Z -> all_digits (dec_of_Z z) /\ dec_of_Z z <> [].
Proof.
  intros Hz. destruct z as [|p|p]; [|pose proof (dec_of_N_shape p) as (d & ds & E & Hd & _)|lia]; cbn [dec_of_Z].
  - split; [repeat constructor|discriminate].
  - rewrite E. split; [exact Hd|discriminate].
Qed.

(* a dotted name: identifier, then one .ident per dot *)
Lemma L_global_P (P : N -> Prop) first rest : plain_word first -> Forall dot_seg rest ->
  L P fexp (first ++ concat_b rest) ((itemIdent, first) :: map (fun sg => (itemDotIdent, sg)) rest) term.
Proof.
  intros Hf Hr.
  set (accs := map (fun sg => (sg, [(itemDotIdent, sg)])) rest).
  assert (Hfst : map fst accs = rest) by (unfold accs; rewrite map_map; cbn [fst]; apply map_id).
  assert (Hsnd : concat (map snd accs) = map (fun sg => (itemDotIdent, sg)) rest).
  { unfold accs. rewrite map_map. cbn [snd]. clear. induction rest as [|a r IH]; [reflexivity|]. cbn. rewrite IH. reflexivity. }
  assert (Hall : forall it, In it accs -> L term facc (fst it) (snd it) term /\ acc_head (fst it)).
  { intros it Hin. unfold accs in Hin. apply in_map_iff in Hin. destruct Hin as (sg & <- & Hsg).
    rewrite Forall_forall in Hr. destruct (Hr sg Hsg) as (cs & -> & Hcs & Hd). cbn [fst snd]. split; [|cbn; lia].
    apply (W L_acc_key false cs Hcs Hd). }
  change ((itemIdent, first) :: map (fun sg => (itemDotIdent, sg)) rest) with ([(itemIdent, first)] ++ map (fun sg => (itemDotIdent, sg)) rest).
  rewrite <- Hsnd. rewrite <- Hfst at 1.
  refine (W L_seq _ _ _ _ _ _ _ _ _ _ (W L_anyP P _ _ _ _ (W L_ident first Hf))
            (W L_weaken _ _ _ _ _ _ _ _ (W L_accs accs Hall) (fun ty H => H) (fun s (H : fexp s) => or_introl H) (fun ty H => H)) _ _).
  - intros s Hs. assert (Hfa : facc (concat_b (map fst accs) ++ s)).
    { destruct accs as [|[t2 ts2] accs']; [left; exact Hs|]. right. cbn [map concat_b fst].
      destruct (Hall (t2, ts2) (or_introl eq_refl)) as [_ Hh]. cbn [fst] in Hh. destruct t2 as [|c t2]; [contradiction|]. exact Hh. }
    apply (proj1 (facc_stops uni_letter uni_digit letter_ascii digit_ascii letter_eof digit_eof _ Hfa)).
  - auto.
Qed.
Lemma L_global first rest : plain_word first -> Forall dot_seg rest ->
  L opnd fexp (first ++ concat_b rest) ((itemIdent, first) :: map (fun sg => (itemDotIdent, sg)) rest) term.
Proof. apply L_global_P. Qed.

Lemma concat_concat_b (l : list bstr) : List.concat l = concat_b l.
Proof. induction l as [|a l IH]; [reflexivity|]. cbn. rewrite IH. reflexivity. Qed.

Lemma toks_path e path : map tv (show sty_min path e) = toks e.
Proof. unfold toks, tokens_of. rewrite (show_min_path e path []). reflexivity. Qed.

(* [pos_ok P txt]: where the text starts, the last item sent has a type in P: either an operand may start there
   (lexNegative reads "-" as the unary minus), or the text does not start with "-" (the first character decides
   without looking at the last item) *)
Theorem lex_print_gen : forall e, wf_expr e -> lex_ok e -> forall txt, print_node e = Some txt ->
  forall P : N -> Prop, pos_ok P txt -> L P fexp txt (toks e) term.
Proof.
  induction e as [e IH0] using size_induction. intros Hwf Hlo txt Hp P HP.
  assert (IH : forall y, (size y < size e)%nat -> wf_expr y -> lex_ok y -> forall t, print_node y = Some t -> L opnd fexp t (toks y) term).
  { intros y Hy Hwy Hly t Ht. exact (IH0 y Hy Hwy Hly t Ht opnd (pos_ok_opnd t)). }
  destruct e; cbn [wf_expr] in Hwf; try contradiction; cbn [lex_ok] in Hlo; try contradiction; cbn [print_node] in Hp.
  - (* null *) injection Hp as <-. apply (L_keyword_P P 110%N [117; 108; 108]%N itemNull); try reflexivity; try discriminate; lia.
  - (* bool *) injection Hp as <-. destruct x.
    + apply (L_keyword_P P 116%N [114; 117; 101]%N itemBool); try reflexivity; try discriminate; lia.
    + apply (L_keyword_P P 102%N [97; 108; 115; 101]%N itemBool); try reflexivity; try discriminate; lia.
  - (* int *) injection Hp as <-. destruct (dec_of_Z_num z) as (hs & ip & E & Hok). unfold toks, tokens_of. cbn [show map tv t_typ t_val tk]. rewrite E.
    eapply lexes_weaken; [apply (W L_eq_term _ _ _ _ _ (W lexes_number hs ip None None Hok) eq_refl)|intros ty Hty Hhs; subst hs; rewrite E in HP; exact (pos_ok_minus P _ HP ty Hty)|apply fexp_num|auto].
  - (* float *) rewrite Hp in Hlo. destruct Hlo as (hs & ip & frac & ex & -> & Hok & Hty). unfold toks, tokens_of. cbn [show map tv t_typ t_val tk]. rewrite Hp.
    change pk_itemFloat with itemFloat. rewrite <- Hty.
    eapply lexes_weaken; [apply (W L_eq_term _ _ _ _ _ (W lexes_number hs ip frac ex Hok)); rewrite Hty; reflexivity|intros ty Hy Hhs; subst hs; exact (pos_ok_minus P _ HP ty Hy)|apply fexp_num|auto].
  - (* string *) injection Hp as <-. destruct Hlo as (rs & -> & Hv & Hok). unfold toks, tokens_of. cbn [show map tv t_typ t_val tk].
    eapply lexes_weaken; [apply (W L_eq_term _ _ _ _ _ (W lexes_string rs Hv Hok) eq_refl)|intros; exact I|intros; exact I|auto].
  - (* global *) injection Hp as <-. unfold dotted_ok in Hlo. unfold toks, tokens_of. cbn [show]. unfold global_toks.
    pose proof (split_dots_concat name []) as Hc. cbn [app] in Hc.
    destruct (split_dots [] name) as [|first rest]; [contradiction|]. destruct Hlo as [Hf Hr].
    rewrite <- Hc. cbn [List.concat]. rewrite concat_concat_b. cbn [map tv t_typ t_val tk]. rewrite map_map. cbn [tv t_typ t_val tk].
    apply (L_global_P P first rest Hf Hr).
  - (* func *) destruct Hlo as [Hn Hla]. destruct (opt_all (map print_node args)) as [l|] eqn:El; cbn [obind] in Hp; [|discriminate].
    injection Hp as <-.
    destruct (opt_all_items print_node toks args l El) as (A1 & A2 & A3).
    assert (Hall : forall it, In it (combine l (map toks args)) -> L opnd fexp (fst it) (snd it) term).
    { intros it Hin. destruct (A3 it Hin) as (x & Hx & Hpx & ->). apply IH; [cbn [size]; pose proof (size_in_list x args Hx); lia|eapply allP_In; eassumption|eapply allP_In; eassumption|exact Hpx]. }
    pose proof (W L_func_P P name _ Hn Hall) as HL. rewrite A1, A2 in HL.
    unfold toks at 1. unfold tokens_of. cbn [show map tv t_typ t_val tk]. rewrite map_app, map_tv_sep_join, map_mapi_from. cbn [map tv t_typ t_val tk].
    rewrite (mapi_from_ext_in _ (fun _ c => toks c)); [|intros i c Hc; rewrite sty_min_0; cbn [parens]; apply toks_path].
    rewrite mapi_from_const. exact HL.
  - (* list *) destruct (opt_all (map print_node items)) as [l|] eqn:El; cbn [obind] in Hp; [|discriminate].
    injection Hp as <-.
    destruct (opt_all_items print_node toks items l El) as (A1 & A2 & A3).
    assert (Hall : forall it, In it (combine l (map toks items)) -> L opnd fexp (fst it) (snd it) term).
    { intros it Hin. destruct (A3 it Hin) as (x & Hx & Hpx & ->). apply IH; [cbn [size]; pose proof (size_in_list x items Hx); lia|eapply allP_In; eassumption|eapply allP_In; eassumption|exact Hpx]. }
    pose proof (W L_list_P P _ Hall) as HL. rewrite A1, A2 in HL.
    unfold toks at 1. unfold tokens_of. cbn [show map tv t_typ t_val tk]. rewrite map_app, map_tv_sep_join, map_mapi_from. cbn [map tv t_typ t_val tk].
    rewrite (mapi_from_ext_in _ (fun _ c => toks c)); [|intros i c Hc; rewrite sty_min_0; cbn [parens]; apply toks_path].
    rewrite mapi_from_const. exact HL.
  - (* map *) destruct items as [|kv0 items0].
    { injection Hp as <-. exact (W L_empty_map_P P). }
    remember (kv0 :: items0) as items eqn:Eitems.
    destruct (opt_all_kv (map (fun kv => (fst kv, print_node (snd kv))) items)) as [l|] eqn:El; cbn [obind] in Hp; [|discriminate].
    injection Hp as <-. destruct Hwf as [Hwa Hks].
    destruct (opt_all_kv_items toks items l El) as (A1 & A2 & A3).
    rewrite (sort_kv_sorted l) by (rewrite A1; exact Hks).
    set (ents := map (fun p => (quote_key (fst (fst p)) ++ s_colon_space ++ snd (fst p),
                                (itemString, quote_key (fst (snd p))) :: T_col :: toks (snd (snd p)))) (combine l items)).
    assert (Hfst : map fst ents = map (fun kv => quote_key (fst kv) ++ s_colon_space ++ snd kv) l).
    { unfold ents. rewrite map_map. cbn [fst]. clear -A3. revert items A3. induction l as [|x l IHl]; intros [|y items] A3; cbn in *; try lia; [reflexivity|].
      f_equal. apply IHl. lia. }
    assert (Hsnd : map snd ents = map (fun kv => (itemString, quote_key (fst kv)) :: T_col :: toks (snd kv)) items).
    { unfold ents. rewrite map_map. cbn [snd]. clear -A3. revert items A3. induction l as [|x l IHl]; intros [|y items] A3; cbn in *; try lia; [reflexivity|].
      f_equal. apply IHl. lia. }
    assert (Hall : forall it, In it ents -> L opnd fexp (fst it) (snd it) term).
    { intros it Hin. unfold ents in Hin. apply in_map_iff in Hin. destruct Hin as (pr & <- & Hpr). cbn beta. cbn [fst snd].
      destruct (A2 pr Hpr) as (B1 & B2 & B3). destruct pr as [[k1 s1] [k2 v2]]. cbn [fst snd] in *. subst k2.
      pose proof (allP_In _ _ _ Hwa B3) as [_ Hwv]. pose proof (allP_In _ _ _ Hlo B3) as [(rs & Hq & Hv & Hok) Hlv]. cbn [fst snd] in *.
      rewrite Hq.
      apply (W L_entry rs _ _ Hv Hok). apply IH; [cbn [size]; pose proof (list_sum_In (fun kv => size (snd kv)) _ _ B3) as Hsz; cbn [snd] in Hsz; lia|exact Hwv|exact Hlv|exact B2]. }
    assert (HL : L P fexp ([91%N] ++ join [44; 32]%N (map (fun kv => quote_key (fst kv) ++ s_colon_space ++ snd kv) l) ++ [93%N])
                   (T_lb :: sepj [T_com] (map (fun kv => (itemString, quote_key (fst kv)) :: T_col :: toks (snd kv)) items) ++ [T_rb]) term).
    { rewrite <- Hfst, <- Hsnd. exact (W L_list_P P ents Hall). }
    unfold toks at 1. unfold tokens_of. rewrite Eitems. cbn [show]. rewrite <- Eitems.
    cbn [map tv t_typ t_val tk]. rewrite map_app, map_tv_sep_join, map_mapi_from. cbn [map tv t_typ t_val tk].
    rewrite (mapi_from_ext_in _ (fun _ kv => (itemString, quote_key (fst kv)) :: T_col :: toks (snd kv))).
    2:{ intros i kv Hkv. rewrite sty_min_0. cbn [parens]. rewrite toks_path. reflexivity. }
    rewrite mapi_from_const. exact HL.
  - (* dataref *) destruct Hlo as [Hk Hla]. destruct (opt_all (map print_node access)) as [l|] eqn:El; cbn [obind] in Hp; [|discriminate].
    injection Hp as <-.
    destruct (opt_all_items print_node toks access l El) as (A1 & A2 & A3).
    assert (Hall : forall it, In it (combine l (map toks access)) -> L term facc (fst it) (snd it) term /\ acc_head (fst it)).
    { intros it Hin. destruct (A3 it Hin) as (a & Ha & Hpa & ->).
      pose proof (allP_In _ _ _ Hwf Ha) as Hwa. pose proof (allP_In _ _ _ Hla Ha) as Hlaa. cbn beta in Hwa, Hlaa.
      destruct a; try contradiction; cbn [print_node] in Hpa.
      - (* .N *) injection Hpa as Ht. rewrite <- Ht. destruct Hwa as [Hi _]. destruct (dec_of_Z_digits i Hi) as [Hd Hne].
        unfold toks, tokens_of. cbn [show map tv t_typ t_val tk]. split; [|destruct nullsafe; cbn; lia].
        pose proof (W L_acc_index nullsafe (dec_of_Z i) Hd Hne) as HA. destruct nullsafe; exact HA.
      - (* .k *) injection Hpa as Ht. rewrite <- Ht. destruct Hlaa as [Hak Hdk].
        unfold toks, tokens_of. cbn [show map tv t_typ t_val tk]. split; [|destruct nullsafe; cbn; lia].
        pose proof (W L_acc_key nullsafe k Hak Hdk) as HA. destruct nullsafe; exact HA.
      - (* [e] *) destruct (print_node a) as [sa|] eqn:Ea; cbn [obind] in Hpa; [|discriminate]. injection Hpa as Ht. rewrite <- Ht.
        assert (HLa : L opnd fexp sa (toks a) term).
        { apply IH; [cbn [size]; pose proof (size_in_list _ access Ha) as Hsz; cbn [size] in Hsz; lia|exact Hwa|exact Hlaa|exact Ea]. }
        unfold toks at 1. unfold tokens_of. cbn [show map tv t_typ t_val tk]. rewrite sty_min_0. cbn [parens]. rewrite map_app, toks_path. cbn [map tv t_typ t_val tk].
        split; [|destruct nullsafe; cbn; lia].
        pose proof (W L_acc_expr nullsafe sa (toks a) HLa) as HA. destruct nullsafe; exact HA. }
    pose proof (W L_dataref_P P key _ Hk Hall) as HL. rewrite A1, A2 in HL.
    unfold toks at 1. unfold tokens_of. cbn [show map tv t_typ t_val tk].
    rewrite (mapi_from_ext_in _ (fun _ c => show sty_min [] c)); [|intros i c Hc; apply show_min_path].
    rewrite mapi_from_const, concat_map, map_map. exact HL.
  - (* not *) destruct (print_node e) as [sa|] eqn:Ea; cbn [obind] in Hp; [|discriminate]. injection Hp as <-.
    assert (HLa : L opnd fexp sa (toks e) term) by (apply IH; [cbn [size]; lia|exact Hwf|exact Hlo|exact Ea]).
    unfold toks at 1. unfold tokens_of. cbn [show map tv t_typ t_val tk]. rewrite sty_min_0. cbn [Nat.add].
    rewrite map_tv_parens1, toks_path. unfold wrap_operand. rewrite ast_level_of_is_expr_level.
    change ast_prec_unary with lvl_unary.
    exact (W L_not_P P _ _ (L_wrap _ _ _ HLa)).
  - (* neg *) destruct (print_node e) as [sa|] eqn:Ea; cbn [obind] in Hp; [|discriminate]. cbv zeta in Hp.
    assert (HLa : L opnd fexp sa (toks e) term) by (apply IH; [cbn [size]; lia|exact Hwf|exact Hlo|exact Ea]).
    unfold toks at 1. unfold tokens_of. cbn [show map tv t_typ t_val tk]. rewrite sty_min_0. cbn [Nat.add].
    rewrite map_tv_parens1, toks_path. unfold wrap_operand in Hp. rewrite ast_level_of_is_expr_level in Hp. change ast_prec_unary with lvl_unary in Hp.
    assert (Hpar : forall s, head_ascii (([40%N] ++ sa ++ [41%N]) ++ s) /\ head_digit (([40%N] ++ sa ++ [41%N]) ++ s) = false) by (intros; cbn; split; [lia|reflexivity]).
    destruct (expr_level e <? lvl_unary)%N eqn:Elv; cbn [orb].
    + (* the operand is parenthesised by its level *)
      cbn [app starts_with_digit] in Hp. change ((48 <=? 40) && (40 <=? 57))%N with false in Hp. cbv iota in Hp. injection Hp as <-.
      eapply lexes_weaken; [exact (W L_neg _ _ (W L_paren opnd _ _ HLa) Hpar)|exact (pos_ok_minus P _ HP)|auto|auto].
    + destruct (print_head e sa Hwf Hlo Ea Elv) as (c & r & -> & Hc & Hd).
      cbn [starts_with_digit] in Hp. change ((48 <=? c) && (c <=? 57))%N with (digit_b c) in Hp. rewrite Hd in Hp.
      destruct (neg_literal e) eqn:Enl; injection Hp as <-.
      * (* -(5) *) eapply lexes_weaken; [exact (W L_neg _ _ (W L_paren opnd _ _ HLa) Hpar)|exact (pos_ok_minus P _ HP)|auto|auto].
      * eapply lexes_weaken; [refine (W L_neg _ _ HLa _)|exact (pos_ok_minus P _ HP)|auto|auto]. intros s. cbn. split; [exact Hc|exact Hd].
  - (* bin *) destruct Hwf as [Hw1 Hw2]. destruct Hlo as [Hl1 Hl2].
    destruct (print_node e1) as [s1|] eqn:E1; cbn [obind] in Hp; [|discriminate].
    destruct (print_node e2) as [s2|] eqn:E2; cbn [obind] in Hp; [|discriminate]. injection Hp as <-.
    assert (HL1 : L opnd fexp s1 (toks e1) term) by (apply IH; [cbn [size]; lia|assumption..]).
    assert (HL2 : L opnd fexp s2 (toks e2) term) by (apply IH; [cbn [size]; lia|assumption..]).
    unfold toks at 1. unfold tokens_of. cbn [show]. rewrite !sty_min_0. cbn [Nat.add].
    rewrite map_app. cbn [map]. rewrite !map_tv_parens1, !toks_path. unfold wrap_operand.
    rewrite !ast_level_of_is_expr_level, ast_levels_are_soy_levels.
    unfold wrap_operand in HP. rewrite !ast_level_of_is_expr_level, ast_levels_are_soy_levels in HP.
    change (tv (op_tok op p)) with (op_tok_typ op, binop_name op).
    assert (Hsz1 : (size e1 < size (NBin op p e1 e2))%nat) by (cbn [size]; lia).
    apply (W L_bin_P P op _ _ _ _ (L_wrap_P P _ _ _ HL1 (fun Eb => IH0 e1 Hsz1 Hw1 Hl1 s1 E1 P (pos_ok_left P _ _ _ _ Eb HP))) (L_wrap _ _ _ HL2)).
  - (* tern *) destruct Hwf as (_ & Hw1 & Hw2 & Hw3). destruct Hlo as (Hl1 & Hl2 & Hl3).
    destruct (print_node e1) as [s1|] eqn:E1; cbn [obind] in Hp; [|discriminate].
    destruct (print_node e2) as [s2|] eqn:E2; cbn [obind] in Hp; [|discriminate].
    destruct (print_node e3) as [s3|] eqn:E3; cbn [obind] in Hp; [|discriminate]. injection Hp as <-.
    assert (HL1 : L opnd fexp s1 (toks e1) term) by (apply IH; [cbn [size]; lia|assumption..]).
    assert (HL2 : L opnd fexp s2 (toks e2) term) by (apply IH; [cbn [size]; lia|assumption..]).
    assert (HL3 : L opnd fexp s3 (toks e3) term) by (apply IH; [cbn [size]; lia|assumption..]).
    unfold toks at 1. unfold tokens_of. cbn [show]. rewrite !sty_min_0. cbn [Nat.add parens].
    rewrite map_app. cbn [map]. rewrite map_app. cbn [map]. rewrite map_tv_parens1, !toks_path. unfold wrap_operand.
    rewrite ast_level_of_is_expr_level. change (ast_prec_ternary + 1)%N with (lvl_ternary + 1)%N.
    unfold wrap_operand in HP. rewrite ast_level_of_is_expr_level in HP. change (ast_prec_ternary + 1)%N with (lvl_ternary + 1)%N in HP.
    change (tv T_ternif) with T_tern. change (tv T_colon) with T_col.
    assert (Hsz1 : (size e1 < size (NTern p e1 e2 e3))%nat) by (cbn [size]; lia).
    apply (W L_tern_P P _ _ _ _ _ _ (L_wrap_P P _ _ _ HL1 (fun Eb => IH0 e1 Hsz1 Hw1 Hl1 s1 E1 P (pos_ok_left P _ _ _ _ Eb HP))) HL2 HL3).
Qed.

Theorem lex_print : forall e, wf_expr e -> lex_ok e -> forall txt, print_node e = Some txt -> L opnd fexp txt (toks e) term.
Proof. intros e Hwf Hlo txt Hp. exact (lex_print_gen e Hwf Hlo txt Hp opnd (pos_ok_opnd txt)). Qed.

(* the expression where the last item sent ended a term (the list of {for $x in e}, after the identifier "in"):
   the same items, provided the printed text does not start with "-" *)
Theorem lex_print_any : forall e, wf_expr e -> lex_ok e -> forall txt, print_node e = Some txt -> no_minus txt ->
  L anyty fexp txt (toks e) term.
Proof. intros e Hwf Hlo txt Hp Hm. exact (lex_print_gen e Hwf Hlo txt Hp anyty (or_intror Hm)). Qed.


End Main.
