(* C06, part 10: the extended model of Model/InterpJson.v (escapeJsString, json on every value,
   round with digits) never lets a panic out and never spins -- by the hooked-walker theorems of
   Proofs/SafetyUser.v, once each new entry is shown to answer. *)
From Coq Require Import Lia ZifyN ZifyBool ZifyNat.
From Soy Require Import Model.Bytes Model.Utf8 Model.Num Model.Values Model.Outcome Model.Ast
  Model.Escape Model.Directives Model.JsEscape Model.Print Generated.Tables Model.Interp Model.InterpSafety
  Model.InterpJson Spec.Safety Proofs.ValueProofs Proofs.InterpLogic Proofs.InterpSub
  Proofs.SafetyPure Proofs.SafetyNodes Proofs.SafetyProofs Proofs.SafetyUser.
Open Scope N_scope.

(* ---- json ---- *)

Lemma nf_json_float x : nf (json_float x).
Proof. unfold json_float. destruct x; try exact I; match goal with |- nf (match ?o with _ => _ end) => destruct o; exact I end. Qed.

Lemma nf_json_items (rec : value -> outcome bstr) l :
  (forall x, In x l -> nf (rec x)) -> nf (json_items rec l).
Proof.
  induction l as [|x r IH]; intros H; cbn [json_items]; [exact I|].
  apply nf_bind; [apply H; left; reflexivity|]. intros s.
  apply nf_bind; [apply IH; intros y Hy; apply H; right; exact Hy|]. intros rs. exact I.
Qed.

Lemma nf_json_fields (rec : value -> outcome bstr) m :
  (forall kx, In kx m -> nf (rec (snd kx))) -> nf (json_fields rec m).
Proof.
  induction m as [|[k x] r IH]; intros H; cbn [json_fields]; [exact I|].
  apply nf_bind; [apply (H (k, x)); left; reflexivity|]. intros s.
  apply nf_bind; [apply IH; intros y Hy; apply H; right; exact Hy|]. intros rs. exact I.
Qed.

Lemma map_set_in acc k v kx : In kx (map_set acc k v) -> kx = (k, v) \/ In kx acc.
Proof.
  induction acc as [|[k' v'] r IH]; cbn [map_set]; intros H.
  - destruct H as [<-|[]]. left. reflexivity.
  - destruct (bstr_eqb k k').
    + destruct H as [<-|H]; [left; reflexivity | right; right; exact H].
    + destruct (bstr_ltb k k').
      * destruct H as [<-|H]; [left; reflexivity | right; exact H].
      * destruct H as [<-|H]; [right; left; reflexivity|].
        destruct (IH H) as [->|Hr]; [left; reflexivity | right; right; exact Hr].
Qed.

Lemma sorted_fields_in m kx : In kx (sorted_fields m) -> In kx m.
Proof.
  unfold sorted_fields.
  assert (G : forall l acc, In kx (fold_left (fun acc kv => map_set acc (fst kv) (snd kv)) l acc) -> In kx l \/ In kx acc).
  { induction l as [|[k v] r IH]; intros acc H; cbn [fold_left] in H; [right; exact H|].
    destruct (IH _ H) as [Hr|Ha]; [left; right; exact Hr|].
    cbn [fst snd] in Ha. destruct (map_set_in _ _ _ _ Ha) as [->|Hacc]; [left; left; reflexivity | right; exact Hacc]. }
  intros H. destruct (G m [] H) as [Hm|[]]. exact Hm.
Qed.

Lemma nf_json_value : forall f v, (depth v < f)%nat -> nf (json_value f v).
Proof.
  induction f as [|f IH]; intros v Hd; [lia|].
  destruct v as [| |x|z|x|t|i l|i m]; cbn [json_value]; try exact I.
  - destruct x; exact I.
  - apply nf_json_float.
  - destruct l as [|y l']; [exact I|]. set (l := y :: l') in *.
    apply nf_bind; [|intros; exact I].
    apply nf_json_items. intros x Hx. apply IH.
    pose proof (fold_max_le depth x l Hx). cbn [depth] in Hd. lia.
  - destruct m as [|y m']; [exact I|]. set (m := y :: m') in *.
    apply nf_bind; [|intros; exact I].
    apply nf_json_fields. intros kx Hx. apply sorted_fields_in in Hx. apply IH.
    pose proof (fold_max_le (fun kx => depth (snd kx)) kx m Hx). cbn [depth] in Hd. lia.
Qed.

Theorem nf_json_of v : nf (json_of v).
Proof. unfold json_of. apply nf_json_value. lia. Qed.

Lemma nf_dir_json v args : nf (dir_json v args).
Proof. unfold dir_json. destruct v as [x|]; [|exact I]. apply nf_bind; [apply nf_json_of|]. intros s. exact I. Qed.

Lemma nf_dir_escape_js v args : nf (dir_escape_js v args).
Proof. unfold dir_escape_js. destruct v as [x|]; [|exact I]. apply nf_bind; [apply nf_value_string|]. intros s. exact I. Qed.

(* ---- round ---- *)

Lemma nf_round1 x : nf (round1 x).
Proof. unfold round1. destruct (fl_add _ _); [|exact I]. destruct (fl_trunc_Z _); exact I. Qed.

Lemma nf_round_digits x d : nf (round_digits x d).
Proof.
  unfold round_digits. destruct (_ && _)%bool; [|exact I].
  destruct (fl_of_int _); [|exact I]. destruct (fl_mul _ _); [|exact I].
  destruct (fl_add _ _); [|exact I]. destruct (fl_trunc_Z _); [|exact I].
  destruct (fl_of_int _); [|exact I]. apply nf_of_fl.
Qed.

Lemma nf_round_x args : nf (round_x args).
Proof.
  unfold round_x. destruct args as [|v [|v2 r]]; [exact I | |].
  - apply nf_bind; [apply nf_to_float|]. intros x. apply nf_round1.
  - destruct v2, r; try exact I.
    apply nf_bind; [apply nf_to_float|]. intros x. destruct (z =? 0)%Z; [apply nf_round1 | apply nf_round_digits].
Qed.

(* ---- the hooks of the extended model answer ---- *)

Theorem x_hooks_answer : hooks_answer x_funcs x_dirs.
Proof.
  split.
  - intros name h vs Hh. unfold x_funcs in Hh. destruct (bstr_eqb name n_round); [|discriminate].
    injection Hh as <-. apply nf_round_x.
  - intros name de ap v args Hde Himpl. unfold x_dirs in Hde.
    destruct (lookup_directive name) as [[arglens [cancel [nilapply fn]]]|]; [|discriminate].
    destruct (bstr_eqb name n_json).
    + injection Hde as <-. cbn [de_impl] in Himpl. injection Himpl as <-. apply nf_dir_json.
    + destruct (bstr_eqb name n_escapeJsString).
      * injection Hde as <-. cbn [de_impl] in Himpl. injection Himpl as <-. apply nf_dir_escape_js.
      * injection Hde as <-. cbn [de_impl] in Himpl. discriminate.
Qed.

Theorem walk_x_no_escape cf fuel n st : no_escape (fst (walk_xj cf fuel n st)).
Proof. apply walk_hook_no_escape. exact x_hooks_answer. Qed.

Theorem render_x_no_escape cf fuel name data_id data cl bl first_id :
  reg_ok (c_reg cf) = true ->
  no_escape (rr_outcome (render_xj cf fuel name data_id data cl bl first_id)).
Proof.
  intros Hreg. apply render_hook_no_escape_pos; [exact x_hooks_answer | apply reg_ok_pos; exact Hreg].
Qed.

(* ---- the new entries are inside the model ---- *)

(* escapeJsString answers OutOfModel only where String() itself does (floats outside the printing domain) *)
Theorem dir_escape_js_total v args s :
  value_string v = Ok s -> dir_escape_js (Some v) args = Ok (Some (VStr (js_escape_soy jsstr_pair_html is_print_tbl s))).
Proof. intros H. unfold dir_escape_js. rewrite H. reflexivity. Qed.

(* json on a value without floats is total: a string, whatever the value's String() does *)
Fixpoint float_free (v : value) : bool :=
  match v with
  | VFloat _ => false
  | VList _ l => forallb float_free l
  | VMap _ m => forallb (fun kx => float_free (snd kx)) m
  | _ => true
  end.

Definition is_ok {A} (o : outcome A) : Prop := match o with Ok _ => True | _ => False end.

Lemma ok_bind {A B} (x : outcome A) (f : A -> outcome B) : is_ok x -> (forall v, is_ok (f v)) -> is_ok (bind x f).
Proof. destruct x; cbn; try tauto. intros _ H. apply H. Qed.

Lemma ok_json_items (rec : value -> outcome bstr) l : (forall x, In x l -> is_ok (rec x)) -> is_ok (json_items rec l).
Proof.
  induction l as [|x r IH]; intros H; cbn [json_items]; [exact I|].
  apply ok_bind; [apply H; left; reflexivity|]. intros s.
  apply ok_bind; [apply IH; intros y Hy; apply H; right; exact Hy|]. intros rs. exact I.
Qed.
Lemma ok_json_fields (rec : value -> outcome bstr) m : (forall kx, In kx m -> is_ok (rec (snd kx))) -> is_ok (json_fields rec m).
Proof.
  induction m as [|[k x] r IH]; intros H; cbn [json_fields]; [exact I|].
  apply ok_bind; [apply (H (k, x)); left; reflexivity|]. intros s.
  apply ok_bind; [apply IH; intros y Hy; apply H; right; exact Hy|]. intros rs. exact I.
Qed.

Lemma ok_json_value : forall f v, (depth v < f)%nat -> float_free v = true -> is_ok (json_value f v).
Proof.
  induction f as [|f IH]; intros v Hd Hf; [lia|].
  destruct v as [| |x|z|x|t|i l|i m]; cbn [json_value]; try exact I.
  - destruct x; exact I.
  - discriminate.
  - destruct l as [|y l']; [exact I|]. set (l := y :: l') in *.
    apply ok_bind; [|intros; exact I].
    apply ok_json_items. intros x Hx. apply IH.
    + pose proof (fold_max_le depth x l Hx). cbn [depth] in Hd. lia.
    + cbn [float_free] in Hf. rewrite forallb_forall in Hf. apply Hf. exact Hx.
  - destruct m as [|y m']; [exact I|]. set (m := y :: m') in *.
    apply ok_bind; [|intros; exact I].
    apply ok_json_fields. intros kx Hx. apply sorted_fields_in in Hx. apply IH.
    + pose proof (fold_max_le (fun kx => depth (snd kx)) kx m Hx). cbn [depth] in Hd. lia.
    + cbn [float_free] in Hf. rewrite forallb_forall in Hf. apply (Hf kx). exact Hx.
Qed.

Theorem json_total_float_free v args : float_free v = true -> exists s, dir_json (Some v) args = Ok (Some (VStr s)).
Proof.
  intros Hf. unfold dir_json, json_of.
  pose proof (ok_json_value (S (depth v)) v ltac:(lia) Hf) as H.
  destruct (json_value (S (depth v)) v) as [s| | | | |]; cbn in H; try contradiction.
  exists s. reflexivity.
Qed.
