(* C15, scanner half for bodies with print commands among the tags (Spec/TextTags.v): the items lex() sends for
   T0 tag1 T1 ... tagn Tn have the shape [c15_gshape c15_X1]: per stretch the items of its pieces and comments,
   per special-character command / literal block its tag items, per print command "{" and items with the types
   and texts of tokens_of_print, EOF last. *)
From Soy Require Import Model.Bytes Model.Utf8 Model.Num Model.Values Model.Outcome Model.Ast Model.Token Model.AstPrint Generated.Tables Model.Lexer
  Spec.Text Spec.TextBody Spec.TextMix Spec.TextTags Spec.ExprSyntax
  Proofs.LexerPrim Proofs.LexerStates Proofs.LexerProofs Proofs.LexTokens Proofs.LexExpr Proofs.LexPrint Proofs.LexPrintMain Proofs.LexPrintTop Proofs.LexPrintCmd
  Proofs.LexBodyText Proofs.LexBodyTop Proofs.LexBodySeg Proofs.LexBodyCmd Proofs.LexBodyLit Proofs.LexBodyMain Proofs.LexBodyMix Proofs.LexBodyMixMain
  Proofs.BodyTagsShape.
From Coq Require Import ZifyBool ZifyNat ZifyN Lia.
Open Scope Z_scope.

Definition c15_lex_oks (r : list c15_tseg) : Prop :=
  Forall (fun sg : c15_tseg => match fst sg with C15Print n _ => lex_ok_print n | _ => True end) r.

Fixpoint c15_rest_pieces (r : list c15_tseg) (rp : list (c15_tag * list bstr)) : Prop :=
  match r, rp with
  | [], [] => True
  | (tg, T) :: r', (tg', pcs) :: rp' => tg' = tg /\ pieces MText false [] T = Some pcs /\ c15_rest_pieces r' rp'
  | _, _ => False
  end.

Lemma c15_tag_src_brace pr t : c15_tag_ok pr t -> (forall n txt, pr n = Some txt -> wf_print n -> exists t', txt = 123%N :: t') ->
  exists t', c15_tag_src t = 123%N :: t'.
Proof.
  intros Hok Hpr. destruct t as [[n o]|n txt]; cbn [c15_tag_src]; [eexists; reflexivity|].
  destruct Hok as [Hwf Hp]. exact (Hpr n txt Hp Hwf).
Qed.

Lemma print_node_brace n txt : print_node n = Some txt -> wf_print n -> exists t', txt = 123%N :: t'.
Proof.
  intros Hp Hwf. destruct n; cbn [wf_print] in Hwf; try contradiction. cbn [print_node] in Hp.
  destruct (print_node n); cbn [obind] in Hp; [|discriminate]. destruct (opt_all _); cbn [obind] in Hp; [|discriminate].
  injection Hp as <-. eexists. reflexivity.
Qed.

Lemma c15_rest_src_tag r : c15_rest_ok print_node r -> tag_or_end (c15_rest_src r).
Proof.
  destruct r as [|[t T] r']; [left; reflexivity|]. intros (Hok & _). right. cbn [c15_rest_src].
  destruct (c15_tag_src_brace print_node t Hok print_node_brace) as (t' & ->). eexists. reflexivity.
Qed.

Section Tags.
Variable uni_letter uni_digit : Z -> bool.
Hypothesis letter_ascii : forall c, (c < 128)%N -> uni_letter (Z.of_N c) = ((65 <=? c) && (c <=? 90) || (97 <=? c) && (c <=? 122))%N.
Hypothesis digit_ascii : forall c, (c < 128)%N -> uni_digit (Z.of_N c) = digit_b c.
Hypothesis letter_eof : uni_letter (-1) = false.
Hypothesis digit_eof : uni_digit (-1) = false.
Variable inp : bstr.
Notation steps := (steps uni_letter uni_digit inp 0).
Notation span := (span inp).
Notation ilen := (Z.of_nat (length inp)).

(* a print command, from lexLeftDelim at its "{" to the lexText behind its "}" *)
Lemma lex_print_tag l n txt rest : wf_print n -> lex_ok_print n -> print_node n = Some txt -> span l [] (txt ++ rest) ->
  exists k l' ld mid, steps k LLeftDelim l = Ok (LText, l') /\ span l' [] rest /\
    l_out l' = rev (ld :: mid) ++ l_out l /\ t_typ ld = itemLeftDelim /\ map tv mid = map tv (tokens_of_print n) /\
    t_val (l_last l') = [125%N] /\ l_dd l' = false.
Proof.
  intros Hwf Hlo Hp Hs. destruct n; cbn [wf_print] in Hwf; try contradiction.
  cbn [wf_print lex_ok_print] in Hwf, Hlo. destruct Hwf as [Hwa Hwd]. destruct Hlo as [Hloa Hlod].
  cbn [print_node] in Hp. destruct (print_node n) as [se|] eqn:Ea; cbn [obind] in Hp; [|discriminate].
  match type of Hp with context [opt_all (map print_node ?d)] => destruct (opt_all (map print_node d)) as [dl|] eqn:El end; cbn [obind] in Hp; [|discriminate].
  injection Hp as <-.
  destruct (print_tag_head n se Hwa Hloa Ea) as (c & r & -> & Hc & H1 & H2 & H3).
  assert (Hs' : span l [] (123%N :: c :: r ++ concat_b dl ++ 125%N :: rest)).
  { cbn [app] in Hs. rewrite <- !app_assoc in Hs. exact Hs. }
  destruct (delim_begin uni_letter uni_digit letter_ascii digit_ascii letter_eof digit_eof inp l c _ Hs' Hc H1 H2)
    as (l1 & p1 & Hst1 & Hs1 & Ho1 & Hla1 & Hdd1).
  assert (E : (c =? 92)%N = false) by lia. rewrite E in Hst1.
  match type of El with opt_all (map print_node ?d) = _ => 
    destruct (L_dirs uni_letter uni_digit letter_ascii digit_ascii letter_eof digit_eof inp d dl Hwd Hlod El) as (HLd & Hhd) end.
  assert (Hf1 : fexp (concat_b dl ++ 125%N :: rest)).
  { destruct Hhd as [->|(r1 & ->)]; cbn; lia. }
  assert (Hs1' : span l1 [] ((c :: r) ++ concat_b dl ++ 125%N :: rest)) by exact Hs1.
  destruct (lex_print uni_letter uni_digit letter_ascii digit_ascii letter_eof digit_eof inp 0 n Hwa Hloa (c :: r) Ea l1 _ Hs1'
              ltac:(unfold opnd, last_typ; rewrite Hla1; reflexivity) Hf1) as (k2 & l2 & Hst2 & Hs2 & Hse2 & Hq2).
  destruct (HLd l2 (125%N :: rest) Hs2 Hq2 ltac:(cbn; lia)) as (k3 & l3 & Hst3 & Hs3 & Hse3 & _).
  destruct (sends_out _ _ _ Hse2) as (its2 & Ho2 & Hm2 & Hd2). destruct (sends_out _ _ _ Hse3) as (its3 & Ho3 & Hm3 & Hd3).
  destruct (close_brace uni_letter uni_digit letter_eof digit_eof inp l3 rest Hs3 ltac:(congruence)) as (l4 & p4 & Hst4 & Hs4 & Ho4 & Hla4 & Hdd4).
  exists (2 + (k2 + (k3 + 2)))%nat, l4, {| t_typ := itemLeftDelim; t_pos := p1; t_val := [123%N] |},
         (its2 ++ its3 ++ [{| t_typ := itemRightDelim; t_pos := p4; t_val := [125%N] |}]).
  split.
  { rewrite (steps_app _ _ _ _ 2 _ _ _ _ _ Hst1), (steps_app _ _ _ _ k2 _ _ _ _ _ Hst2), (steps_app _ _ _ _ k3 _ _ _ _ _ Hst3). exact Hst4. }
  split; [exact Hs4|]. split.
  { rewrite Ho4, Ho3, Ho2, Ho1. cbn [rev]. rewrite !rev_app_distr. cbn [rev app]. rewrite <- !app_assoc. reflexivity. }
  split; [reflexivity|]. split.
  { rewrite print_toks, !map_app. unfold tv at 1 2. rewrite Hm2, Hm3. reflexivity. }
  split; [rewrite Hla4; reflexivity|exact Hdd4].
Qed.

Lemma fuel_ok_tg l w s : span l w s -> (length s < loop_fuel ilen l)%nat.
Proof. intros Hs. pose proof (span_bounds _ _ _ _ Hs) as (Hb & Hl). unfold loop_fuel. lia. Qed.

Lemma lex_tags_run : forall rest rp T pcs l, span l [] (T ++ c15_rest_src rest) -> l_dd l = false ->
  mix_stretch_ok (pwof 0 l) (match rest with [] => true | _ => false end) T -> pieces MText (pwof 0 l) [] T = Some pcs ->
  c15_rest_ok print_node rest -> c15_lex_oks rest -> c15_rest_pieces rest rp ->
  exists k l' items, steps k LText l = Ok (LDone, l') /\ l_out l' = rev items ++ l_out l /\ c15_gshape c15_X1 pcs rp items.
Proof.
  induction rest as [|[tg T'] r IH]; intros rp T pcs l Hs Hdd [Hpl Hop] Hpc Hrest Hlx Hrp.
  - destruct rp; [|contradiction]. cbn [c15_rest_src] in Hs.
    destruct (lex_stretch uni_letter uni_digit letter_ascii digit_ascii letter_eof digit_eof inp (length T) T (le_n _) l pcs [] Hs Hpl (or_introl eq_refl) Hpc ltac:(congruence))
      as (k & l' & its & st' & Hst & Hsh & _ & Hend).
    destruct Hend as [(_ & -> & e & He & Ho)|(A & _)]; [|congruence].
    exists k, l', (its ++ [e]). split; [exact Hst|]. split; [rewrite Ho, rev_app_distr; reflexivity|]. apply gs_end; assumption.
  - destruct rp as [|[tg' pcs'] rp']; [contradiction|]. cbn [c15_rest_pieces] in Hrp. destruct Hrp as (-> & Hpc' & Hrp').
    pose proof (c15_rest_src_tag _ Hrest) as Htag.
    cbn [c15_rest_ok] in Hrest. destruct Hrest as (Hcmd & Hok' & Hrest').
    inversion Hlx as [|? ? Hlx1 Hlx']; subst. cbn [fst] in Hlx1.
    destruct (lex_stretch uni_letter uni_digit letter_ascii digit_ascii letter_eof digit_eof inp (length T) T (le_n _) l pcs _ Hs Hpl Htag Hpc ltac:(intros _; apply Hop; reflexivity))
      as (k1 & l1 & its & st' & Hst1 & Hsh1 & Hdd1 & Hend).
    destruct Hend as [(A & _)|(_ & -> & Ho1 & Hs1)].
    { exfalso. cbn [c15_rest_src] in A. destruct (c15_tag_src_brace print_node tg Hcmd print_node_brace) as (t' & Et). rewrite Et in A. discriminate A. }
    cbn [c15_rest_src] in Hs1.
    destruct tg as [[n o]|n txt]; cbn [c15_tag_ok c15_tag_src] in Hcmd, Hs1.
    + destruct Hcmd as [Hcmd|(sp & Hsp & Hname & Hcl)].
      * destruct (lex_special_cmd uni_letter uni_digit letter_ascii digit_ascii letter_eof digit_eof inp l1 n o (T' ++ c15_rest_src r) Hcmd ltac:(rewrite <- !app_assoc in Hs1; exact Hs1))
          as (k2 & l2 & ld & c & rd & Hst2 & Hs2 & Ho2 & Hld & Hrd & Hc & Hla2 & Hv2 & Hdd2).
        assert (Hpw : pwof 0 l2 = false) by (unfold pwof; rewrite Hla2, Hv2; reflexivity).
        destruct (IH rp' T' pcs' l2 Hs2 Hdd2 ltac:(rewrite Hpw; exact Hok') ltac:(rewrite Hpw; exact Hpc') Hrest' Hlx' Hrp') as (k3 & l3 & items & Hst3 & Ho3 & Hsh).
        exists (k1 + (k2 + k3))%nat, l3, (its ++ [ld; c; rd] ++ items). split.
        { rewrite (steps_app _ _ _ _ k1 _ _ _ _ _ Hst1), (steps_app _ _ _ _ k2 _ _ _ _ _ Hst2). exact Hst3. }
        split.
        { rewrite Ho3, Ho2, Ho1, !rev_app_distr. cbn [rev app]. rewrite <- !app_assoc. reflexivity. }
        eapply gs_text; [exact Hsh1|apply ti_cmd; assumption|exact Hsh].
      * cbn [fst snd] in Hname, Hcl. subst n.
        destruct (lex_literal_cmd uni_letter uni_digit letter_ascii digit_ascii letter_eof digit_eof inp l1 sp o (T' ++ c15_rest_src r) Hsp ltac:(rewrite <- !app_assoc in Hs1; exact Hs1) Hcl)
          as (k2 & l2 & ld & kw & rd & tx & ld2 & ke & rd2 & Hst2 & Hs2 & Ho2 & A1 & A2 & A3 & A4 & A5 & A6 & A7 & A8 & Hla2 & Hv2 & Hdd2).
        assert (Hpw : pwof 0 l2 = false) by (unfold pwof; rewrite Hla2, Hv2; reflexivity).
        destruct (IH rp' T' pcs' l2 Hs2 Hdd2 ltac:(rewrite Hpw; exact Hok') ltac:(rewrite Hpw; exact Hpc') Hrest' Hlx' Hrp') as (k3 & l3 & items & Hst3 & Ho3 & Hsh).
        exists (k1 + (k2 + k3))%nat, l3, (its ++ [ld; kw; rd; tx; ld2; ke; rd2] ++ items). split.
        { rewrite (steps_app _ _ _ _ k1 _ _ _ _ _ Hst1), (steps_app _ _ _ _ k2 _ _ _ _ _ Hst2). exact Hst3. }
        split.
        { rewrite Ho3, Ho2, Ho1, !rev_app_distr. cbn [rev app]. rewrite <- !app_assoc. reflexivity. }
        eapply gs_text; [exact Hsh1|apply ti_lit; assumption|exact Hsh].
    + destruct Hcmd as [Hwf Hp].
      destruct (lex_print_tag l1 n txt (T' ++ c15_rest_src r) Hwf Hlx1 Hp Hs1)
        as (k2 & l2 & ld & mid & Hst2 & Hs2 & Ho2 & Hld & Hm & Hv2 & Hdd2).
      assert (Hpw : pwof 0 l2 = false) by (unfold pwof; rewrite Hv2; reflexivity).
      destruct (IH rp' T' pcs' l2 Hs2 Hdd2 ltac:(rewrite Hpw; exact Hok') ltac:(rewrite Hpw; exact Hpc') Hrest' Hlx' Hrp') as (k3 & l3 & items & Hst3 & Ho3 & Hsh).
      exists (k1 + (k2 + k3))%nat, l3, (its ++ (ld :: mid) ++ items). split.
      { rewrite (steps_app _ _ _ _ k1 _ _ _ _ _ Hst1), (steps_app _ _ _ _ k2 _ _ _ _ _ Hst2). exact Hst3. }
      split.
      { rewrite Ho3, Ho2, Ho1, !rev_app_distr. rewrite <- !app_assoc. reflexivity. }
      eapply gs_print; [exact Hsh1|exact Hld|exact Hm|exact Hsh].
Qed.

End Tags.

(* lex(name, c15_body_src T0 rest) *)
Theorem lex_body_tags (uni_letter uni_digit : Z -> bool) :
  (forall c, (c < 128)%N -> uni_letter (Z.of_N c) = ((65 <=? c) && (c <=? 90) || (97 <=? c) && (c <=? 122))%N) ->
  (forall c, (c < 128)%N -> uni_digit (Z.of_N c) = digit_b c) ->
  uni_letter (-1) = false -> uni_digit (-1) = false ->
  forall T0 rest pcs rp, c15_body_ok print_node T0 rest -> c15_lex_oks rest -> pieces MText true [] T0 = Some pcs -> c15_rest_pieces rest rp ->
  exists items, lex_items uni_letter uni_digit (lex_budget (c15_body_src T0 rest)) false (c15_body_src T0 rest) = Ok items /\ c15_gshape c15_X1 pcs rp items.
Proof.
  intros Hla Hda Hle Hde T0 rest pcs rp [Hok Hrest] Hlx Hpc Hrp. set (txt := c15_body_src T0 rest).
  assert (Hs0 : span txt lex_init [] (T0 ++ c15_rest_src rest)).
  { unfold span, lex_init. cbn [l_start l_pos length]. repeat split; try lia. }
  destruct (lex_tags_run uni_letter uni_digit Hla Hda Hle Hde txt rest rp T0 pcs lex_init Hs0 eq_refl Hok Hpc Hrest Hlx Hrp) as (k & l' & items & Hst & Ho & Hsh).
  destruct (lex_total_linear uni_letter uni_digit Hle Hde 0 ltac:(lia) false txt) as (lf & Hr & _).
  pose proof Hr as Hr'. rewrite lex_run_at_file in Hr'.
  pose proof (run_unique uni_letter uni_digit txt 0 (lex_budget txt) k LText lex_init lf l' Hr' Hst) as E.
  exists items. split; [|exact Hsh]. unfold lex_items, lex_run. rewrite Hr. cbn [bind]. subst lf. rewrite Ho.
  cbn [lex_init l_out]. rewrite app_nil_r, rev_involutive. reflexivity.
Qed.
