(* C17, scanner half for template bodies: per-command lemmas and the composition over a body.
   [lb17_okc] / [lb17_okb]: the commands / bodies covered: raw text without comment opener ([lb17_one_piece]), print commands, {debugger}, {log},
   {let} (both forms), {if}/{elseif}/{else}, {for}/{ifempty} (list expression whose text does not start with "-"), {switch} with
   {case v,...} (no default case), {css}, {call} with data="all" / data="e" / both parameter forms / none.
   [lb17_ok_runs]: the composition, by induction on the derivation of the class.
   [lb17_lex_body]: lex(String(body)) sends the items of [body_toks] (types and texts) followed by EOF; [lb17_lex_template_body]: the same with {/template} behind the body.
   To move these files under coq/Proofs: replace `From SoyLexX Require Import X` by `From Soy Require Import Proofs.X`. *)
From Soy Require Import Model.Bytes Model.Utf8 Model.Num Model.Values Model.Outcome Model.Ast Model.Token Model.NumLit Model.Quote
  Model.AstPrint Model.AstPrintCmd Generated.Tables Model.Lexer Spec.ExprSyntax Spec.CmdSyntax Spec.Text Spec.TextBody
  Proofs.Utf8Proofs Proofs.ExprParserProofs Proofs.LexerPrim Proofs.LexerStates Proofs.LexerProofs
  Proofs.LexTokens Proofs.LexNumbers Proofs.LexStrings Proofs.LexExpr Proofs.LexPrint Proofs.LexPrintMain Proofs.LexPrintTop
  Proofs.LexBodyText Proofs.LexBodyTop Proofs.LexBodySeg Proofs.LexBodyCmd Proofs.LexPrintCmd.
From Soy Require Import Proofs.LexBodyC17 Proofs.LexBodyC17Cmds.
From Coq Require Import ZifyBool ZifyNat ZifyN Lia.
Open Scope Z_scope.

(* The list expression of {for $x in e} follows the identifier item "in", which ends a term: a "-" there would be
   lexed as the binary minus (lexNegative looks at the last item sent), so [lex_print] (stated for a position where
   an operand may start) does not apply.  [lb17_anylast e]: the printed text of e lexes to its items whatever the
   last item was; proved below for a plain variable ($xs) and for every expression whose text does not start with "-". *)
Definition lb17_anylast (e : node) : Prop :=
  forall (uni_letter uni_digit : Z -> bool),
  (forall c, (c < 128)%N -> uni_letter (Z.of_N c) = ((65 <=? c) && (c <=? 90) || (97 <=? c) && (c <=? 122))%N) ->
  (forall c, (c < 128)%N -> uni_digit (Z.of_N c) = digit_b c) ->
  uni_letter (-1) = false -> uni_digit (-1) = false ->
  forall inp se, print_node e = Some se -> lexes uni_letter uni_digit inp 0 anyty fexp se (toks e) term.

Lemma lb17_anylast_var p key : alnums key -> lb17_anylast (NDataRef p key []).
Proof.
  intros Hk uni_letter uni_digit Hla Hda Hle Hde inp se Hp. cbn [print_node map opt_all obind concat_b] in Hp. injection Hp as <-.
  rewrite app_nil_r. change ([36%N] ++ key) with (36%N :: key).
  change (toks (NDataRef p key [])) with [(itemDollarIdent, 36%N :: key)].
  eapply lexes_weaken; [apply (lexes_dollar uni_letter uni_digit Hla Hda Hle Hde inp 0 key Hk)|auto|apply fexp_stops|].
  intros ty <-. reflexivity.
Qed.

(* every list expression whose printed text does not start with "-" (the lexer family's lex_print_any).  A text that does
   start with "-" is outside for a reason of the code: {for $x in (-$a)} prints {for $x in -$a}, where lexNegative reads
   the "-" behind the identifier item "in" as the binary minus and parseFor fails (W4 of notes/astprint-reparse.md) *)
Lemma lb17_anylast_no_minus e : wf_expr e -> lex_ok e -> (forall se, print_node e = Some se -> no_minus se) -> lb17_anylast e.
Proof.
  intros Hwf Hlo Hm ul ud Hla Hda Hle Hde inp se Hp.
  exact (lex_print_any ul ud Hla Hda Hle Hde inp 0 e Hwf Hlo se Hp (Hm se Hp)).
Qed.

(* ... which is what wf_body demands of the list expression of a {for} *)
Lemma lb17_anylast_wf e : wf_expr e -> lex_ok e -> c17_no_lead_minus e -> lb17_anylast e.
Proof.
  intros Hwf Hlo Hm. apply lb17_anylast_no_minus; [exact Hwf|exact Hlo|].
  intros se Hp. unfold c17_no_lead_minus, printed in Hm. rewrite Hp in Hm. exact Hm.
Qed.

(* the text of a {css} command: ASCII without "}" (lexCss reads runes up to the first "}") *)
Definition lb17_css_ok (txt : bstr) : Prop := Forall (fun c => (c < 128)%N /\ c <> 125%N) txt.

(* the data attribute of a {call}: data="all", or data="e" with e printed in printable ASCII without quote and backslash *)
Definition lb17_data_ok (alldata : bool) (data : option node) : Prop :=
  match data with
  | None => True
  | Some d => alldata = false /\ wf_expr d /\ CmdSyntax.plain (printed d) /\ print_node d <> None
  end.
Definition lb17_call_sd (alldata : bool) (data : option node) : bstr :=
  if alldata then c_data_all else match data with Some d => c_data ++ printed d ++ [34%N] | None => [] end.
Definition lb17_call_attr (alldata : bool) (data : option node) : list tok :=
  if alldata then attr_toks v_data (dq v_all) else match data with Some d => attr_toks v_data (dq (printed d)) | None => [] end.

(* ---------- the class of bodies ---------- *)
Inductive lb17_okc : node -> Prop :=
| lb17_ok_print p arg dirs : wf_print (NPrint p arg dirs) -> lex_ok_print (NPrint p arg dirs) -> lb17_okc (NPrint p arg dirs)
| lb17_ok_debugger p : lb17_okc (NDebugger p)
| lb17_ok_log p q ns : lb17_okb ns -> lb17_okc (NLog p (NList q ns))
| lb17_ok_letv p name e : alnums name -> wf_expr e -> lex_ok e -> lb17_okc (NLetValue p name e)
| lb17_ok_letc p name q ns : alnums name -> lb17_okb ns -> lb17_okc (NLetContent p name (NList q ns))
| lb17_ok_if p conds : lb17_okconds true conds -> lb17_okc (NIf p conds)
| lb17_ok_for p var lst q ns : alnums var -> wf_expr lst -> lex_ok lst -> c17_no_lead_minus lst -> lb17_okb ns ->
    lb17_okc (NFor p var lst (NList q ns) None)
| lb17_ok_for_ie p var lst q ns q2 ns2 : alnums var -> wf_expr lst -> lex_ok lst -> c17_no_lead_minus lst -> lb17_okb ns -> lb17_okb ns2 ->
    lb17_okc (NFor p var lst (NList q ns) (Some (NList q2 ns2)))
| lb17_ok_switch p v cases : wf_expr v -> lex_ok v -> lb17_okcases cases -> lb17_okc (NSwitch p v cases)
| lb17_ok_css p suffix : lb17_css_ok suffix -> lb17_okc (NCss p None suffix)
| lb17_ok_css_e p x suffix : wf_expr x -> lb17_css_ok (css_text (Some x) suffix) -> lb17_okc (NCss p (Some x) suffix)
| lb17_ok_call p name alldata data params : dotted_ok name -> lb17_data_ok alldata data -> lb17_okparams params ->
    lb17_okc (NCall p name alldata data params)
(* the parameters of a {call}: both forms the printer writes, {param k}..{/param} and {param k: e/} *)
with lb17_okparams : list node -> Prop :=
| lb17_ok_params_nil : lb17_okparams []
| lb17_ok_params_cons q key w ns r : plain_word key -> lb17_okb ns -> lb17_okparams r ->
    lb17_okparams (NParamContent q key (NList w ns) :: r)
| lb17_ok_params_val q key v r : plain_word key -> wf_expr v -> lex_ok v -> lb17_okparams r ->
    lb17_okparams (NParamValue q key v :: r)
(* the cases of a {switch}: each with values (String() prints the default case as "{case }": not covered) *)
with lb17_okcases : list node -> Prop :=
| lb17_ok_cases_nil : lb17_okcases []
| lb17_ok_cases_cons q vals w ns r : vals <> [] -> allP wf_expr vals -> allP lex_ok vals -> lb17_okb ns -> lb17_okcases r ->
    lb17_okcases (NSwitchCase q vals (NList w ns) :: r)
(* the conditions of an {if}: [first] = none read yet; {else} is last and not first *)
with lb17_okconds : bool -> list node -> Prop :=
| lb17_ok_conds_nil : lb17_okconds false []
| lb17_ok_conds_cond first q c w ns r : wf_expr c -> lex_ok c -> lb17_okb ns -> lb17_okconds false r ->
    lb17_okconds first (NIfCond q (Some c) (NList w ns) :: r)
| lb17_ok_conds_else q w ns : lb17_okb ns -> lb17_okconds false [NIfCond q None (NList w ns)]
with lb17_okb : list node -> Prop :=
| lb17_ok_nil : lb17_okb []
| lb17_ok_text p t r : LexBodyText.plain t -> lb17_one_piece t -> droppable t = false ->
    lb17_okb r -> match r with NRawText _ _ :: _ => False | _ => True end -> lb17_okb (NRawText p t :: r)
| lb17_ok_cmd c r : lb17_okc c -> lb17_okb r -> lb17_okb (c :: r).

Scheme lb17_okc_mut := Minimality for lb17_okc Sort Prop
  with lb17_okparams_mut := Minimality for lb17_okparams Sort Prop
  with lb17_okcases_mut := Minimality for lb17_okcases Sort Prop
  with lb17_okconds_mut := Minimality for lb17_okconds Sort Prop
  with lb17_okb_mut := Minimality for lb17_okb Sort Prop.
Combined Scheme lb17_ok_mutind from lb17_okc_mut, lb17_okparams_mut, lb17_okcases_mut, lb17_okconds_mut, lb17_okb_mut.

Definition lb17_hd_cmd (ns : list node) : Prop := match ns with [] => False | NRawText _ _ :: _ => False | _ => True end.

(* the printer on the forms above *)
Lemma lb17_print_list q ns : print_tree (NList q ns) = omap concat_b (opt_all (map print_tree ns)).
Proof. reflexivity. Qed.
Lemma lb17_print_log p x : print_tree (NLog p x) = obind (print_tree x) (fun s => Some (c_log ++ s ++ c_log_end)).
Proof. reflexivity. Qed.
Lemma lb17_print_letv p name e :
  print_tree (NLetValue p name e) = obind (print_tree e) (fun s => Some (c_let ++ name ++ [58; 32]%N ++ s ++ c_let_v_end)).
Proof. reflexivity. Qed.
Lemma lb17_print_letc p name x :
  print_tree (NLetContent p name x) = obind (print_tree x) (fun s => Some (c_let ++ name ++ [125%N] ++ s ++ c_let_end)).
Proof. reflexivity. Qed.
(* IfNode.String and the Spec's items of an {if}, with their local recursions named *)
Fixpoint lb17_if_print (first : bool) (l : list node) : option bstr :=
  match l with
  | [] => Some []
  | c :: r =>
      let has_cond := match c with NIfCond _ (Some _) _ => true | _ => false end in
      obind (print_tree c) (fun s =>
      obind (lb17_if_print false r) (fun sr => Some (if_prefix first has_cond ++ s ++ sr)))
  end.
Lemma lb17_print_if p conds : print_tree (NIf p conds) = obind (lb17_if_print true conds) (fun s => Some (s ++ c_if_end)).
Proof. reflexivity. Qed.
Lemma lb17_print_ifcond q c w ns :
  print_tree (NIfCond q (Some c) (NList w ns)) =
  obind (omap (fun s => s ++ [125%N]) (print_tree c)) (fun sc => obind (omap concat_b (opt_all (map print_tree ns))) (fun sb => Some (sc ++ sb))).
Proof. reflexivity. Qed.
Lemma lb17_print_ifelse q w ns :
  print_tree (NIfCond q None (NList w ns)) = obind (omap concat_b (opt_all (map print_tree ns))) (fun sb => Some ([] ++ sb)).
Proof. reflexivity. Qed.

Definition lb17_if_toks (p : N) : bool -> list node -> list tok :=
  let body (x : node) : list tok := match x with NList _ ns => concat (map cmd_toks ns) | _ => [] end in
  fix go (first : bool) (l : list node) : list tok :=
  match l with
  | [] => []
  | NIfCond _ (Some c) x :: r =>
      [T_ldelim; kw (if first then pit_If else pit_Elseif) (if first then p else 0%N)] ++ tokens_of c ++ [T_rdelim] ++ body x ++ go false r
  | NIfCond _ None x :: r => [T_ldelim; kw pit_Else 0; T_rdelim] ++ body x ++ go false r
  | _ :: r => go false r
  end.
Lemma lb17_toks_if p conds : cmd_toks (NIf p conds) = lb17_if_toks p true conds ++ CmdSyntax.close_tag pit_IfEnd.
Proof. reflexivity. Qed.

Lemma lb17_print_for p var lst x ie :
  print_tree (NFor p var lst x ie) =
  obind (print_tree lst) (fun sl => obind (print_tree x) (fun sb =>
  obind (match ie with Some y => omap (fun s => c_ifempty ++ s) (print_tree y) | None => Some [] end) (fun se =>
    Some (c_for ++ var ++ c_in ++ sl ++ [125%N] ++ sb ++ se ++ c_for_end)))).
Proof. reflexivity. Qed.

Lemma lb17_print_switch p v cases :
  print_tree (NSwitch p v cases) =
  obind (print_tree v) (fun sv => obind (omap concat_b (opt_all (map print_tree cases))) (fun sc =>
    Some (c_switch ++ sv ++ [125%N] ++ sc ++ c_switch_end))).
Proof. reflexivity. Qed.
Lemma lb17_print_case q vals w ns :
  print_tree (NSwitchCase q vals (NList w ns)) =
  obind (opt_all (map print_tree vals)) (fun l => obind (omap concat_b (opt_all (map print_tree ns))) (fun sb =>
    Some (c_case ++ join s_comma l ++ [125%N] ++ sb))).
Proof. reflexivity. Qed.
Definition lb17_switch_toks : list node -> list tok :=
  let body (x : node) : list tok := match x with NList _ ns => concat (map cmd_toks ns) | _ => [] end in
  fix go (l : list node) : list tok :=
  match l with
  | [] => []
  | NSwitchCase q vals x :: r =>
      (match vals with
       | [] => [T_ldelim; kw pit_Default q; T_rdelim]
       | _ => [T_ldelim; kw pit_Case q] ++ sep_join [T_comma] (map tokens_of vals) ++ [T_rdelim]
       end) ++ body x ++ go r
  | _ :: r => go r
  end.
Lemma lb17_toks_switch p v cases :
  cmd_toks (NSwitch p v cases) =
  [T_ldelim; kw pit_Switch p] ++ tokens_of v ++ [T_rdelim] ++ lb17_switch_toks cases ++ CmdSyntax.close_tag pit_SwitchEnd.
Proof. reflexivity. Qed.
Lemma lb17_switch_toks_cons q v0 vals w ns r :
  lb17_switch_toks (NSwitchCase q (v0 :: vals) (NList w ns) :: r) =
  ([T_ldelim; kw pit_Case q] ++ sep_join [T_comma] (map tokens_of (v0 :: vals)) ++ [T_rdelim]) ++
  concat (map cmd_toks ns) ++ lb17_switch_toks r.
Proof. reflexivity. Qed.

Lemma lb17_print_css_e p x suffix :
  print_tree (NCss p (Some x) suffix) = obind (print_tree x) (fun s => Some (c_css ++ s ++ [44; 32]%N ++ suffix ++ [125%N])).
Proof. reflexivity. Qed.

Lemma lb17_print_expr e : wf_expr e -> print_tree e = print_node e.
Proof. destruct e; cbn [wf_expr]; intros H; try contradiction; reflexivity. Qed.

Lemma lb17_print_call p name alldata data params : lb17_data_ok alldata data ->
  print_tree (NCall p name alldata data params) =
    let head := c_call ++ name ++ lb17_call_sd alldata data in
    match params with
    | [] => Some (head ++ c_call_self)
    | _ => obind (omap concat_b (opt_all (map print_tree params))) (fun sp => Some (head ++ [125%N] ++ sp ++ c_call_end))
    end.
Proof.
  intros Hd. unfold lb17_call_sd. destruct alldata; [reflexivity|]. destruct data as [d|]; [|reflexivity].
  destruct Hd as (_ & Hwf & _ & Hpn).
  change (print_tree (NCall p name false (Some d) params))
    with (obind (omap (fun s0 => c_data ++ s0 ++ [34%N]) (print_tree d)) (fun sd =>
            let head := c_call ++ name ++ sd in
            match params with
            | [] => Some (head ++ c_call_self)
            | _ => obind (omap concat_b (opt_all (map print_tree params))) (fun sp => Some (head ++ [125%N] ++ sp ++ c_call_end))
            end)).
  rewrite (lb17_print_expr d Hwf). unfold printed. destruct (print_node d); [reflexivity|congruence].
Qed.
Lemma lb17_print_param q key w ns :
  print_tree (NParamContent q key (NList w ns)) =
  obind (omap concat_b (opt_all (map print_tree ns))) (fun s => Some (c_cparam ++ key ++ [125%N] ++ s ++ c_cparam_end)).
Proof. reflexivity. Qed.
Lemma lb17_print_paramv q key v :
  print_tree (NParamValue q key v) = obind (print_tree v) (fun s => Some (c_cparam ++ key ++ [58; 32]%N ++ s ++ c_call_self)).
Proof. reflexivity. Qed.
Definition lb17_call_toks : list node -> list tok :=
  let body (x : node) : list tok := match x with NList _ ns => concat (map cmd_toks ns) | _ => [] end in
  fix go (l : list node) : list tok :=
  match l with
  | [] => []
  | NParamValue q key v :: r =>
      [tk pit_LeftDelim q [123%N]; kw pit_Param 0; tk pit_Ident 0 key; T_colon] ++ tokens_of v ++ [T_rdelim_end] ++ go r
  | NParamContent q key x :: r =>
      [tk pit_LeftDelim q [123%N]; kw pit_Param 0; tk pit_Ident 0 key; T_rdelim] ++ body x ++ CmdSyntax.close_tag pit_ParamEnd ++ go r
  | _ :: r => go r
  end.
Lemma lb17_toks_call p name alldata data params :
  cmd_toks (NCall p name alldata data params) =
  [T_ldelim; kw pit_Call p] ++ call_name_toks name ++ lb17_call_attr alldata data ++
  (match params with [] => [T_rdelim_end] | _ => [T_rdelim] ++ lb17_call_toks params ++ CmdSyntax.close_tag pit_CallEnd end).
Proof. reflexivity. Qed.
Lemma lb17_call_toks_cons q key w ns r :
  lb17_call_toks (NParamContent q key (NList w ns) :: r) =
  ([tk pit_LeftDelim q [123%N]; kw pit_Param 0; tk pit_Ident 0 key; T_rdelim] ++ concat (map cmd_toks ns) ++ CmdSyntax.close_tag pit_ParamEnd) ++
  lb17_call_toks r.
Proof. unfold lb17_call_toks. rewrite <- !app_assoc. reflexivity. Qed.
Lemma lb17_call_toks_cons_val q key v r :
  lb17_call_toks (NParamValue q key v :: r) =
  ([tk pit_LeftDelim q [123%N]; kw pit_Param 0; tk pit_Ident 0 key; T_colon] ++ tokens_of v ++ [T_rdelim_end]) ++ lb17_call_toks r.
Proof. unfold lb17_call_toks. rewrite <- !app_assoc. reflexivity. Qed.


Lemma lb17_print_exprs vals : allP wf_expr vals -> map print_tree vals = map print_node vals.
Proof.
  induction vals as [|v r IH]; intros H; [reflexivity|]. destruct H as [H1 H2]. cbn [map].
  rewrite (lb17_print_expr v H1), (IH H2). reflexivity.
Qed.

(* the text of the cases of a {switch} is empty or begins a tag *)
Lemma lb17_cases_head r tr : lb17_okcases r -> opt_all (map print_tree r) = Some tr -> concat_b tr = [] \/ exists r0, concat_b tr = 123%N :: r0.
Proof.
  intros Hok Hp. inversion Hok as [|q vals w ns r' Hne Hwf Hlo Hb Hr]; subst.
  - injection Hp as <-. left; reflexivity.
  - right. cbn [map opt_all] in Hp. rewrite lb17_print_case in Hp.
    destruct (opt_all (map print_tree vals)); cbn [obind] in Hp; [|discriminate].
    destruct (opt_all (map print_tree ns)); cbn [omap obind] in Hp; [|discriminate].
    destruct (opt_all (map print_tree r')); [|discriminate]. injection Hp as <-. eexists; reflexivity.
Qed.

(* a covered command prints a tag *)
Lemma lb17_okc_head c txt : lb17_okc c -> print_tree c = Some txt -> exists r, txt = 123%N :: r.
Proof.
  intros Hok Hp. destruct Hok as [p arg dirs _ _|p|p q ns _|p name e _ Hwf _|p name q ns _ _|p conds Hconds
                                  |p var lst q ns _ _ _ _ _|p var lst q ns q2 ns2 _ _ _ _ _ _|p v cases _ _ _
                                  |p suffix _|p x suffix _ _|p name alldata data params _ Hdata _].
  - change (print_tree (NPrint p arg dirs)) with (print_node (NPrint p arg dirs)) in Hp. cbn [print_node] in Hp.
    destruct (print_node arg); cbn [obind] in Hp; [|discriminate]. destruct (opt_all _); cbn [obind] in Hp; [|discriminate].
    injection Hp as <-. eexists; reflexivity.
  - injection Hp as <-. eexists; reflexivity.
  - rewrite lb17_print_log in Hp. destruct (print_tree _); cbn [obind] in Hp; [|discriminate]. injection Hp as <-. eexists; reflexivity.
  - rewrite lb17_print_letv in Hp. destruct (print_tree _); cbn [obind] in Hp; [|discriminate]. injection Hp as <-. eexists; reflexivity.
  - rewrite lb17_print_letc in Hp. destruct (print_tree _); cbn [obind] in Hp; [|discriminate]. injection Hp as <-. eexists; reflexivity.
  - rewrite lb17_print_if in Hp. inversion Hconds as [|first q c w ns r Hwf Hlo Hb Hr|]; subst.
    cbn [lb17_if_print] in Hp. destruct (print_tree (NIfCond q (Some c) (NList w ns))); cbn [obind] in Hp; [|discriminate].
    destruct (lb17_if_print false r); cbn [obind] in Hp; [|discriminate]. injection Hp as <-. eexists; reflexivity.
  - rewrite lb17_print_for in Hp. destruct (print_tree lst); cbn [obind] in Hp; [|discriminate].
    destruct (print_tree (NList q ns)); cbn [obind] in Hp; [|discriminate]. injection Hp as <-. eexists; reflexivity.
  - rewrite lb17_print_for in Hp. destruct (print_tree lst); cbn [obind] in Hp; [|discriminate].
    destruct (print_tree (NList q ns)); cbn [obind] in Hp; [|discriminate].
    destruct (print_tree (NList q2 ns2)); cbn [omap obind] in Hp; [|discriminate]. injection Hp as <-. eexists; reflexivity.
  - rewrite lb17_print_switch in Hp. destruct (print_tree v); cbn [obind] in Hp; [|discriminate].
    destruct (opt_all (map print_tree cases)); cbn [omap obind] in Hp; [|discriminate]. injection Hp as <-. eexists; reflexivity.
  - injection Hp as <-. eexists; reflexivity.
  - rewrite lb17_print_css_e in Hp. destruct (print_tree x); cbn [obind] in Hp; [|discriminate]. injection Hp as <-. eexists; reflexivity.
  - rewrite (lb17_print_call _ _ _ _ _ Hdata) in Hp. cbv zeta in Hp. destruct params as [|p0 ps].
    + injection Hp as <-. eexists; reflexivity.
    + destruct (opt_all (map print_tree (p0 :: ps))); cbn [omap obind] in Hp; [|discriminate]. injection Hp as <-. eexists; reflexivity.
Qed.

Lemma lb17_if_toks_cond p first q c w ns r :
  lb17_if_toks p first (NIfCond q (Some c) (NList w ns) :: r) =
  [T_ldelim; kw (if first then pit_If else pit_Elseif) (if first then p else 0%N)] ++ tokens_of c ++ [T_rdelim] ++
  concat (map cmd_toks ns) ++ lb17_if_toks p false r.
Proof. reflexivity. Qed.
Lemma lb17_if_toks_else p first q w ns r :
  lb17_if_toks p first (NIfCond q None (NList w ns) :: r) =
  [T_ldelim; kw pit_Else 0; T_rdelim] ++ concat (map cmd_toks ns) ++ lb17_if_toks p false r.
Proof. reflexivity. Qed.

(* the text of the later conditions is empty or begins a tag *)
Lemma lb17_if_print_head r sr : lb17_okconds false r -> lb17_if_print false r = Some sr -> sr = [] \/ exists r0, sr = 123%N :: r0.
Proof.
  intros Hok Hp. inversion Hok as [|first q c w ns r' Hwf Hlo Hb Hr|q w ns Hb]; subst.
  - injection Hp as <-. left; reflexivity.
  - right. cbn [lb17_if_print] in Hp. destruct (print_tree (NIfCond q (Some c) (NList w ns))); cbn [obind] in Hp; [|discriminate].
    destruct (lb17_if_print false r'); cbn [obind] in Hp; [|discriminate]. injection Hp as <-. eexists; reflexivity.
  - right. cbn [lb17_if_print] in Hp. destruct (print_tree (NIfCond q None (NList w ns))); cbn [obind] in Hp; [|discriminate].
    injection Hp as <-. eexists; reflexivity.
Qed.

Ltac lb17_in := unfold lb17_open_kws, lb17_close_kws; cbn [In]; repeat (first [left; reflexivity | right]).

Section Body.
Variable uni_letter uni_digit : Z -> bool.
Hypothesis letter_ascii : forall c, (c < 128)%N -> uni_letter (Z.of_N c) = ((65 <=? c) && (c <=? 90) || (97 <=? c) && (c <=? 122))%N.
Hypothesis digit_ascii : forall c, (c < 128)%N -> uni_digit (Z.of_N c) = digit_b c.
Hypothesis letter_eof : uni_letter (-1) = false.
Hypothesis digit_eof : uni_digit (-1) = false.
Variable inp : bstr.
Notation L := (lexes uni_letter uni_digit inp 0).
Notation W lem := (lem uni_letter uni_digit letter_ascii digit_ascii letter_eof digit_eof inp).
Notation steps := (steps uni_letter uni_digit inp 0).
Notation span := (span inp).
Notation go := (lb17_go uni_letter uni_digit inp).
Notation fin := (lb17_fin uni_letter uni_digit inp).

(* a command: from lexLeftDelim at its "{" to the lexText behind its last "}" *)
Definition lb17_cmd_runs (txt : bstr) (ts : list tok) : Prop :=
  forall l s, span l [] (txt ++ s) -> exists l', go LLeftDelim l LText l' ts /\ span l' [] s /\ l_dd l' = false.
(* a body: from lexText at its first byte to the tag behind it, or to the end of the input *)
Definition lb17_body_runs (txt : bstr) (ts : list tok) : Prop :=
  forall l tl, span l [] (txt ++ tl) -> l_dd l = false -> tag_or_end tl -> fin tl ts LText l.

Lemma lb17_cmd_debugger p : lb17_cmd_runs c_debugger (cmd_toks (NDebugger p)).
Proof.
  intros l s Hs.
  destruct (W lb17_go_open l [100; 101; 98; 117; 103; 103; 101; 114]%N itemDebugger p (125%N :: s) ltac:(lb17_in) Hs ltac:(cbn; split; [lia|reflexivity]))
    as (l1 & G1 & S1 & D1 & _).
  destruct (W lb17_go_rdelim l1 s S1 D1) as (l2 & G2 & S2 & D2).
  exists l2. split; [|auto]. exact (W lb17_go_trans _ _ _ _ _ _ _ _ G1 G2).
Qed.

Lemma lb17_cmd_log p body bts : lb17_body_runs body bts ->
  lb17_cmd_runs (c_log ++ body ++ c_log_end) ([T_ldelim; kw pit_Log p; T_rdelim] ++ bts ++ CmdSyntax.close_tag pit_LogEnd).
Proof.
  intros Hb l s Hs. rewrite <- !app_assoc in Hs.
  destruct (W lb17_go_open l [108; 111; 103]%N itemLog p (125%N :: body ++ c_log_end ++ s) ltac:(lb17_in) Hs ltac:(cbn; split; [lia|reflexivity]))
    as (l1 & G1 & S1 & D1 & _).
  destruct (W lb17_go_rdelim l1 _ S1 D1) as (l2 & G2 & S2 & D2).
  destruct (Hb l2 (c_log_end ++ s) S2 D2 ltac:(right; eexists; reflexivity)) as [(_ & l3 & G3 & S3 & D3)|(E & _)]; [|discriminate E].
  destruct (W lb17_go_close l3 [108; 111; 103]%N itemLogEnd s ltac:(lb17_in) S3) as (l4 & G4 & S4 & D4).
  exists l4. split; [|auto].
  exact (W lb17_go_trans _ _ _ _ _ _ _ _ G1 (W lb17_go_trans _ _ _ _ _ _ _ _ G2 (W lb17_go_trans _ _ _ _ _ _ _ _ G3 G4))).
Qed.

Lemma lb17_cmd_letc p name body bts : alnums name -> lb17_body_runs body bts ->
  lb17_cmd_runs (c_let ++ name ++ [125%N] ++ body ++ c_let_end)
    ([T_ldelim; kw pit_Let p; tk pit_DollarIdent 0 (36%N :: name); T_rdelim] ++ bts ++ CmdSyntax.close_tag pit_LetEnd).
Proof.
  intros Hname Hb l s Hs. rewrite <- !app_assoc in Hs.
  destruct (W lb17_go_open l [108; 101; 116]%N itemLet p (32%N :: 36%N :: name ++ 125%N :: body ++ c_let_end ++ s) ltac:(lb17_in) Hs ltac:(cbn; split; [lia|reflexivity]))
    as (l1 & G1 & S1 & D1 & _).
  destruct (W lb17_go_lexes anyty anys [32%N] [] anyty l1 (36%N :: name ++ 125%N :: body ++ c_let_end ++ s)
              (W lexes_space 0 anyty) S1 I I) as (l2 & G2 & S2 & D2 & _).
  destruct (W lb17_go_lexes anyty stops (36%N :: name) [tk pit_DollarIdent 0 (36%N :: name)] (eq itemDollarIdent) l2 (125%N :: body ++ c_let_end ++ s)
              (W lexes_dollar 0 name Hname) S2 I ltac:(cbn; split; [lia|reflexivity])) as (l3 & G3 & S3 & D3 & _).
  destruct (W lb17_go_rdelim l3 _ S3 ltac:(congruence)) as (l4 & G4 & S4 & D4).
  destruct (Hb l4 (c_let_end ++ s) S4 D4 ltac:(right; eexists; reflexivity)) as [(_ & l5 & G5 & S5 & D5)|(E & _)]; [|discriminate E].
  destruct (W lb17_go_close l5 [108; 101; 116]%N itemLetEnd s ltac:(lb17_in) S5) as (l6 & G6 & S6 & D6).
  exists l6. split; [|auto].
  exact (W lb17_go_trans _ _ _ _ _ _ _ _ G1 (W lb17_go_trans _ _ _ _ _ _ _ _ G2 (W lb17_go_trans _ _ _ _ _ _ _ _ G3
          (W lb17_go_trans _ _ _ _ _ _ _ _ G4 (W lb17_go_trans _ _ _ _ _ _ _ _ G5 G6))))).
Qed.

Lemma lb17_cmd_letv p name e se : alnums name -> wf_expr e -> lex_ok e -> print_node e = Some se ->
  lb17_cmd_runs (c_let ++ name ++ [58; 32]%N ++ se ++ c_let_v_end)
    ([T_ldelim; kw pit_Let p; tk pit_DollarIdent 0 (36%N :: name); T_colon] ++ tokens_of e ++ [T_rdelim_end]).
Proof.
  intros Hname Hwf Hlo Hp l s Hs. rewrite <- !app_assoc in Hs.
  destruct (W lb17_go_open l [108; 101; 116]%N itemLet p (32%N :: 36%N :: name ++ 58%N :: 32%N :: se ++ 32%N :: 47%N :: 125%N :: s) ltac:(lb17_in) Hs ltac:(cbn; split; [lia|reflexivity]))
    as (l1 & G1 & S1 & D1 & _).
  destruct (W lb17_go_lexes anyty anys [32%N] [] anyty l1 (36%N :: name ++ 58%N :: 32%N :: se ++ 32%N :: 47%N :: 125%N :: s)
              (W lexes_space 0 anyty) S1 I I) as (l2 & G2 & S2 & D2 & _).
  destruct (W lb17_go_lexes anyty stops (36%N :: name) [tk pit_DollarIdent 0 (36%N :: name)] (eq itemDollarIdent) l2 (58%N :: 32%N :: se ++ 32%N :: 47%N :: 125%N :: s)
              (W lexes_dollar 0 name Hname) S2 I ltac:(cbn; split; [lia|reflexivity])) as (l3 & G3 & S3 & D3 & _).
  destruct (W lb17_go_lexes anyty anys [58%N] [T_colon] (eq itemColon) l3 (32%N :: se ++ 32%N :: 47%N :: 125%N :: s)
              (W lexes_punct 0 58%N itemColon eq_refl) S3 I I) as (l4 & G4 & S4 & D4 & Q4).
  destruct (W lb17_go_lexes (eq itemColon) anys [32%N] [] (eq itemColon) l4 (se ++ 32%N :: 47%N :: 125%N :: s)
              (W lexes_space 0 (eq itemColon)) S4 Q4 I) as (l5 & G5 & S5 & D5 & Q5).
  destruct (W lb17_go_lexes opnd fexp se (tokens_of e) term l5 (32%N :: 47%N :: 125%N :: s)
              (W lex_print 0 e Hwf Hlo se Hp) S5 ltac:(unfold opnd; rewrite <- Q5; reflexivity) ltac:(cbn; lia)) as (l6 & G6 & S6 & D6 & _).
  destruct (W lb17_go_lexes anyty anys [32%N] [] anyty l6 (47%N :: 125%N :: s)
              (W lexes_space 0 anyty) S6 I I) as (l7 & G7 & S7 & D7 & _).
  destruct (W lb17_go_rdelim_end l7 s S7 ltac:(congruence)) as (l8 & G8 & S8 & D8).
  exists l8. split; [|auto].
  exact (W lb17_go_trans _ _ _ _ _ _ _ _ G1 (W lb17_go_trans _ _ _ _ _ _ _ _ G2 (W lb17_go_trans _ _ _ _ _ _ _ _ G3
          (W lb17_go_trans _ _ _ _ _ _ _ _ G4 (W lb17_go_trans _ _ _ _ _ _ _ _ G5 (W lb17_go_trans _ _ _ _ _ _ _ _ G6
          (W lb17_go_trans _ _ _ _ _ _ _ _ G7 G8))))))).
Qed.

Lemma lb17_cmd_print p arg dirs txt : wf_print (NPrint p arg dirs) -> lex_ok_print (NPrint p arg dirs) ->
  print_node (NPrint p arg dirs) = Some txt -> lb17_cmd_runs txt (cmd_toks (NPrint p arg dirs)).
Proof.
  intros Hwf Hlo Hp l s Hs.
  cbn [wf_print lex_ok_print] in Hwf, Hlo. destruct Hwf as [Hwa Hwd]. destruct Hlo as [Hloa Hlod].
  cbn [print_node] in Hp. destruct (print_node arg) as [se|] eqn:Ea; cbn [obind] in Hp; [|discriminate].
  destruct (opt_all (map print_node dirs)) as [dl|] eqn:El; cbn [obind] in Hp; [|discriminate]. injection Hp as <-.
  destruct (print_tag_head arg se Hwa Hloa Ea) as (c & r & -> & Hc & H1 & H2 & H3).
  assert (Hs' : span l [] (123%N :: c :: r ++ concat_b dl ++ 125%N :: s)).
  { cbn [app] in Hs. rewrite <- !app_assoc in Hs. exact Hs. }
  destruct (delim_begin uni_letter uni_digit letter_ascii digit_ascii letter_eof digit_eof inp l c _ Hs' Hc H1 H2)
    as (l1 & p1 & Hst1 & Hs1 & Ho1 & Hla1 & Hdd1).
  assert (E : (c =? 92)%N = false) by lia. rewrite E in Hst1.
  destruct (L_dirs uni_letter uni_digit letter_ascii digit_ascii letter_eof digit_eof inp dirs dl Hwd Hlod El) as (HLd & Hhd).
  assert (Hf1 : fexp (concat_b dl ++ 125%N :: s)).
  { destruct Hhd as [->|(r1 & ->)]; cbn; lia. }
  assert (Hs1' : span l1 [] ((c :: r) ++ concat_b dl ++ 125%N :: s)) by exact Hs1.
  destruct (lex_print uni_letter uni_digit letter_ascii digit_ascii letter_eof digit_eof inp 0 arg Hwa Hloa (c :: r) Ea l1 _ Hs1'
              ltac:(unfold opnd, last_typ; rewrite Hla1; reflexivity) Hf1) as (k2 & l2 & Hst2 & Hs2 & Hse2 & Hq2).
  destruct (HLd l2 (125%N :: s) Hs2 Hq2 ltac:(cbn; lia)) as (k3 & l3 & Hst3 & Hs3 & Hse3 & _).
  destruct (sends_out _ _ _ Hse2) as (_ & _ & _ & Hd2). destruct (sends_out _ _ _ Hse3) as (_ & _ & _ & Hd3).
  destruct (close_brace uni_letter uni_digit letter_eof digit_eof inp l3 s Hs3 ltac:(congruence)) as (l4 & p4 & Hst4 & Hs4 & Ho4 & Hla4 & Hdd4).
  exists l4. split; [|auto]. exists (2 + (k2 + (k3 + 2)))%nat. split.
  { rewrite (steps_app _ _ _ _ 2 _ _ _ _ _ Hst1), (steps_app _ _ _ _ k2 _ _ _ _ _ Hst2), (steps_app _ _ _ _ k3 _ _ _ _ _ Hst3). exact Hst4. }
  change (cmd_toks (NPrint p arg dirs)) with ([T_ldelim] ++ tokens_of_print (NPrint p arg dirs)).
  apply (lb17_sent_app _ _ l l1 l4).
  - eexists [_]. split; [rewrite Ho1; reflexivity|]. constructor; [|constructor]. split; reflexivity.
  - apply lb17_sent_sends. rewrite print_toks.
    eapply sends_app; [exact Hse2|]. eapply sends_app; [exact Hse3|]. apply sends_one.
    exists p4. split; [exact Ho4|]. split; [exact Hla4|congruence].
Qed.

(* combinators on commands *)
Lemma lb17_runs_eq t1 ts1 t2 ts2 : lb17_cmd_runs t1 ts1 -> t1 = t2 -> ts1 = ts2 -> lb17_cmd_runs t2 ts2.
Proof. intros H <- <-. exact H. Qed.

(* head-tag, body, tail (which begins a tag) *)
Lemma lb17_cmd_block h hts body bts tail tts r0 : lb17_cmd_runs h hts -> lb17_body_runs body bts -> lb17_cmd_runs tail tts ->
  tail = 123%N :: r0 -> lb17_cmd_runs (h ++ body ++ tail) (hts ++ bts ++ tts).
Proof.
  intros Hh Hb Ht Etail l s Hs. rewrite <- !app_assoc in Hs.
  destruct (Hh l (body ++ tail ++ s) Hs) as (l1 & G1 & S1 & D1).
  destruct (Hb l1 (tail ++ s) S1 D1 ltac:(right; rewrite Etail; eexists; reflexivity)) as [(_ & l2 & G2 & S2 & D2)|(E & _)];
    [|rewrite Etail in E; discriminate E].
  destruct (Ht l2 s S2) as (l3 & G3 & S3 & D3).
  exists l3. split; [|auto]. exact (W lb17_go_trans _ _ _ _ _ _ _ _ G1 (W lb17_go_trans _ _ _ _ _ _ _ _ G2 G3)).
Qed.

Lemma lb17_cmd_close cs t : In (cs, t) lb17_close_kws -> lb17_cmd_runs ([123; 47]%N ++ cs ++ [125%N]) (CmdSyntax.close_tag t).
Proof.
  intros Hin l s Hs. rewrite <- !app_assoc in Hs. destruct (W lb17_go_close l cs t s Hin Hs) as (l1 & G1 & S1 & D1). eauto.
Qed.

(* "{kw}" *)
Lemma lb17_cmd_simple name t p : In (name, t) lb17_open_kws -> lb17_cmd_runs ([123%N] ++ name ++ [125%N]) [T_ldelim; kw t p; T_rdelim].
Proof.
  intros Hin l s Hs. rewrite <- !app_assoc in Hs.
  destruct (W lb17_go_open l name t p (125%N :: s) Hin Hs ltac:(cbn; split; [lia|reflexivity])) as (l1 & G1 & S1 & D1 & _).
  destruct (W lb17_go_rdelim l1 s S1 D1) as (l2 & G2 & S2 & D2).
  exists l2. split; [|auto]. exact (W lb17_go_trans _ _ _ _ _ _ _ _ G1 G2).
Qed.

(* "{for $x in e}" *)
Lemma lb17_cmd_for_head p var lst sl : alnums var -> lb17_anylast lst -> print_node lst = Some sl ->
  lb17_cmd_runs (c_for ++ var ++ c_in ++ sl ++ [125%N])
    ([T_ldelim; kw pit_For p; tk pit_DollarIdent 0 (36%N :: var); tk pit_Ident 0 v_in] ++ tokens_of lst ++ [T_rdelim]).
Proof.
  intros Hvar Hany Hp l s Hs. rewrite <- !app_assoc in Hs.
  destruct (W lb17_go_open l [102; 111; 114]%N itemFor p (32%N :: 36%N :: var ++ 32%N :: 105%N :: 110%N :: 32%N :: sl ++ 125%N :: s) ltac:(lb17_in) Hs ltac:(cbn; split; [lia|reflexivity]))
    as (l1 & G1 & S1 & D1 & _).
  destruct (W lb17_go_lexes anyty anys [32%N] [] anyty l1 (36%N :: var ++ 32%N :: 105%N :: 110%N :: 32%N :: sl ++ 125%N :: s)
              (W lexes_space 0 anyty) S1 I I) as (l2 & G2 & S2 & D2 & _).
  destruct (W lb17_go_lexes anyty stops (36%N :: var) [tk pit_DollarIdent 0 (36%N :: var)] (eq itemDollarIdent) l2 (32%N :: 105%N :: 110%N :: 32%N :: sl ++ 125%N :: s)
              (W lexes_dollar 0 var Hvar) S2 I ltac:(cbn; split; [lia|reflexivity])) as (l3 & G3 & S3 & D3 & _).
  destruct (W lb17_go_lexes anyty anys [32%N] [] anyty l3 (105%N :: 110%N :: 32%N :: sl ++ 125%N :: s)
              (W lexes_space 0 anyty) S3 I I) as (l4 & G4 & S4 & D4 & _).
  destruct (W lb17_go_lexes anyty stops [105; 110]%N [tk pit_Ident 0 v_in] (eq itemIdent) l4 (32%N :: sl ++ 125%N :: s)
              (W lexes_word 0 105%N [110%N] ltac:(lia) eq_refl eq_refl ltac:(discriminate) ltac:(discriminate)) S4 I ltac:(cbn; split; [lia|reflexivity]))
    as (l5 & G5 & S5 & D5 & _).
  destruct (W lb17_go_lexes anyty anys [32%N] [] anyty l5 (sl ++ 125%N :: s)
              (W lexes_space 0 anyty) S5 I I) as (l6 & G6 & S6 & D6 & _).
  destruct (W lb17_go_lexes anyty fexp sl (tokens_of lst) term l6 (125%N :: s)
              (Hany uni_letter uni_digit letter_ascii digit_ascii letter_eof digit_eof inp sl Hp) S6 I ltac:(cbn; lia)) as (l7 & G7 & S7 & D7 & _).
  destruct (W lb17_go_rdelim l7 s S7 ltac:(congruence)) as (l8 & G8 & S8 & D8).
  exists l8. split; [|auto].
  exact (W lb17_go_trans _ _ _ _ _ _ _ _ G1 (W lb17_go_trans _ _ _ _ _ _ _ _ G2 (W lb17_go_trans _ _ _ _ _ _ _ _ G3
          (W lb17_go_trans _ _ _ _ _ _ _ _ G4 (W lb17_go_trans _ _ _ _ _ _ _ _ G5 (W lb17_go_trans _ _ _ _ _ _ _ _ G6
          (W lb17_go_trans _ _ _ _ _ _ _ _ G7 G8))))))).
Qed.

(* "{css txt}" *)
Lemma lb17_cmd_css p txt : lb17_css_ok txt -> lb17_cmd_runs (c_css ++ txt ++ [125%N]) [T_ldelim; kw pit_Css p; tk pit_Text 0 txt; T_rdelim].
Proof.
  intros Hall l s Hs. rewrite <- !app_assoc in Hs.
  exact (W lb17_go_css l p txt s Hs Hall).
Qed.

(* a printable-ASCII text without quote and backslash is its own rune sequence and a string body *)
Lemma lb17_plain_runes sd : CmdSyntax.plain sd -> string_of_runes sd = sd /\ Forall valid_scalar sd /\ str_body_ok 34 sd = true.
Proof.
  unfold CmdSyntax.plain. induction sd as [|c r IH]; cbn [forallb]; intros H; [repeat split; constructor|].
  apply Bool.andb_true_iff in H. destruct H as [Hc Hr]. destruct (IH Hr) as (A & B & C). unfold plain_b in Hc.
  split; [|split].
  - rewrite string_of_runes_cons, A. unfold encode_rune. assert (E : (c <? 128)%N = true) by lia. rewrite E. reflexivity.
  - constructor; [unfold valid_scalar; lia|exact B].
  - cbn [str_body_ok]. assert (E1 : (c =? 92)%N = false) by lia. assert (E2 : (c =? 34)%N = false) by lia. rewrite E1, E2. exact C.
Qed.

(* the attribute  data="..."  inside a tag *)
Lemma lb17_go_data l sd s : CmdSyntax.plain sd -> span l [] (c_data ++ sd ++ [34%N] ++ s) ->
  exists l', go LInsideTag l LInsideTag l' (attr_toks v_data (dq sd)) /\ span l' [] s /\ l_dd l' = l_dd l.
Proof.
  intros Hpl Hs. destruct (lb17_plain_runes sd Hpl) as (Hru & Hv & Hok).
  destruct (W lb17_go_lexes anyty anys [32%N] [] anyty l ([100; 97; 116; 97; 61; 34]%N ++ sd ++ [34%N] ++ s)
              (W lexes_space 0 anyty) Hs I I) as (l1 & G1 & S1 & D1 & _).
  assert (Hpw : plain_word [100; 97; 116; 97]%N).
  { exists 100%N, [97; 116; 97]%N. split; [reflexivity|]. split; [lia|]. split; [reflexivity|]. split; reflexivity. }
  destruct (W lb17_go_lexes anyty stops [100; 97; 116; 97]%N [tk pit_Ident 0 v_data] term l1 ([61; 34]%N ++ sd ++ [34%N] ++ s)
              (W L_ident 0 _ Hpw) S1 I ltac:(cbn; split; [lia|reflexivity])) as (l2 & G2 & S2 & D2 & _).
  destruct (W lb17_go_lexes anyty (fun s0 => exists c r, s0 = c :: r /\ (c < 128)%N /\ c <> 61%N) [61%N] [tk pit_Equals 0 v_eq] (eq itemEquals) l2
              ([34%N] ++ sd ++ [34%N] ++ s) (W lb17_L_equals) S2 I ltac:(eexists; eexists; split; [reflexivity|split; lia]))
    as (l3 & G3 & S3 & D3 & _).
  assert (S3' : span l3 [] ((34%N :: string_of_runes sd ++ [34%N]) ++ s)).
  { rewrite Hru. cbn [app]. rewrite <- app_assoc. exact S3. }
  assert (HL : L anyty anys (34%N :: string_of_runes sd ++ [34%N]) (map tv [tk pit_String 0 (dq sd)]) (eq itemString)).
  { pose proof (W lb17_lexes_dqstring sd Hv Hok) as H. rewrite Hru in H |- *. exact H. }
  destruct (W lb17_go_lexes anyty anys (34%N :: string_of_runes sd ++ [34%N]) [tk pit_String 0 (dq sd)] (eq itemString) l3 s HL S3' I I)
    as (l4 & G4 & S4 & D4 & _).
  exists l4. split; [|split; [exact S4|congruence]].
  exact (W lb17_go_trans _ _ _ _ _ _ _ _ G1 (W lb17_go_trans _ _ _ _ _ _ _ _ G2 (W lb17_go_trans _ _ _ _ _ _ _ _ G3 G4))).
Qed.

(* "{call a.b" and its data attribute *)
Lemma lb17_go_call_head p name alldata data l s : dotted_ok name -> lb17_data_ok alldata data ->
  span l [] (c_call ++ name ++ lb17_call_sd alldata data ++ s) -> (lb17_call_sd alldata data = [] -> fexp s) ->
  exists l', go LLeftDelim l LInsideTag l' ([T_ldelim; kw pit_Call p] ++ call_name_toks name ++ lb17_call_attr alldata data) /\
    span l' [] s /\ l_dd l' = false.
Proof.
  intros Hdot Hdata Hs Hf.
  destruct (W lb17_go_open l [99; 97; 108; 108]%N itemCall p (32%N :: name ++ lb17_call_sd alldata data ++ s) ltac:(lb17_in) Hs ltac:(cbn; split; [lia|reflexivity]))
    as (l1 & G1 & S1 & D1 & Q1).
  destruct (W lb17_go_lexes (eq itemCall) anys [32%N] [] (eq itemCall) l1 (name ++ lb17_call_sd alldata data ++ s)
              (W lexes_space 0 (eq itemCall)) S1 (eq_sym Q1) I) as (l2 & G2 & S2 & D2 & Q2).
  assert (Hcases : (lb17_call_sd alldata data = [] /\ lb17_call_attr alldata data = []) \/
                   exists sd, CmdSyntax.plain sd /\ lb17_call_sd alldata data = c_data ++ sd ++ [34%N] /\ lb17_call_attr alldata data = attr_toks v_data (dq sd)).
  { unfold lb17_call_sd, lb17_call_attr. destruct alldata.
    - right. exists v_all. split; [reflexivity|]. split; reflexivity.
    - destruct data as [d|]; [|left; split; reflexivity]. destruct Hdata as (_ & _ & Hpl & _). right. exists (printed d). auto. }
  assert (Hfn : fexp (lb17_call_sd alldata data ++ s)).
  { destruct Hcases as [(E & _)|(sd & _ & E & _)]; [rewrite E; exact (Hf E)|rewrite E; cbn; lia]. }
  destruct (W lb17_go_lexes opnd fexp name (call_name_toks name) term l2 (lb17_call_sd alldata data ++ s)
              (W lex_print 0 (NGlobal 0 name VUndef) eq_refl Hdot name eq_refl) S2 ltac:(unfold opnd; rewrite <- Q2; reflexivity) Hfn)
    as (l3 & G3 & S3 & D3 & _).
  destruct Hcases as [(E1 & E2)|(sd & Hpl & E1 & E2)]; rewrite E2; rewrite E1 in S3.
  - exists l3. split; [|split; [exact S3|congruence]]. rewrite app_nil_r.
    exact (W lb17_go_trans _ _ _ _ _ _ _ _ G1 (W lb17_go_trans _ _ _ _ _ _ _ _ G2 G3)).
  - rewrite <- !app_assoc in S3. destruct (lb17_go_data l3 sd s Hpl S3) as (l4 & G4 & S4 & D4).
    exists l4. split; [|split; [exact S4|congruence]].
    exact (W lb17_go_trans _ _ _ _ _ _ _ _ G1 (W lb17_go_trans _ _ _ _ _ _ _ _ G2 (W lb17_go_trans _ _ _ _ _ _ _ _ G3 G4))).
Qed.

(* "{param k}" *)
Lemma lb17_cmd_param_head q key : plain_word key ->
  lb17_cmd_runs (c_cparam ++ key ++ [125%N]) [tk pit_LeftDelim q [123%N]; kw pit_Param 0; tk pit_Ident 0 key; T_rdelim].
Proof.
  intros Hkey l s Hs. rewrite <- !app_assoc in Hs.
  destruct (W lb17_go_open l [112; 97; 114; 97; 109]%N itemParam 0%N (32%N :: key ++ 125%N :: s) ltac:(lb17_in) Hs ltac:(cbn; split; [lia|reflexivity]))
    as (l1 & G1 & S1 & D1 & _).
  destruct (W lb17_go_lexes anyty anys [32%N] [] anyty l1 (key ++ 125%N :: s) (W lexes_space 0 anyty) S1 I I) as (l2 & G2 & S2 & D2 & _).
  destruct (W lb17_go_lexes anyty stops key [tk pit_Ident 0 key] term l2 (125%N :: s)
              (W L_ident 0 key Hkey) S2 I ltac:(cbn; split; [lia|reflexivity])) as (l3 & G3 & S3 & D3 & _).
  destruct (W lb17_go_rdelim l3 s S3 ltac:(congruence)) as (l4 & G4 & S4 & D4).
  exists l4. split; [|auto].
  refine (W lb17_go_retok _ _ _ _ _ _ (W lb17_go_trans _ _ _ _ _ _ _ _ G1 (W lb17_go_trans _ _ _ _ _ _ _ _ G2 (W lb17_go_trans _ _ _ _ _ _ _ _ G3 G4))) _).
  reflexivity.
Qed.

(* "{param k: e/}" *)
Lemma lb17_cmd_param_val q key v sv : plain_word key -> wf_expr v -> lex_ok v -> print_node v = Some sv ->
  lb17_cmd_runs (c_cparam ++ key ++ [58; 32]%N ++ sv ++ c_call_self)
    ([tk pit_LeftDelim q [123%N]; kw pit_Param 0; tk pit_Ident 0 key; T_colon] ++ tokens_of v ++ [T_rdelim_end]).
Proof.
  intros Hkey Hwf Hlo Hp l s Hs. rewrite <- !app_assoc in Hs.
  destruct (W lb17_go_open l [112; 97; 114; 97; 109]%N itemParam 0%N (32%N :: key ++ 58%N :: 32%N :: sv ++ 47%N :: 125%N :: s) ltac:(lb17_in) Hs ltac:(cbn; split; [lia|reflexivity]))
    as (l1 & G1 & S1 & D1 & _).
  destruct (W lb17_go_lexes anyty anys [32%N] [] anyty l1 (key ++ 58%N :: 32%N :: sv ++ 47%N :: 125%N :: s) (W lexes_space 0 anyty) S1 I I) as (l2 & G2 & S2 & D2 & _).
  destruct (W lb17_go_lexes anyty stops key [tk pit_Ident 0 key] term l2 (58%N :: 32%N :: sv ++ 47%N :: 125%N :: s)
              (W L_ident 0 key Hkey) S2 I ltac:(cbn; split; [lia|reflexivity])) as (l3 & G3 & S3 & D3 & _).
  destruct (W lb17_go_lexes anyty anys [58%N] [T_colon] (eq itemColon) l3 (32%N :: sv ++ 47%N :: 125%N :: s)
              (W lexes_punct 0 58%N itemColon eq_refl) S3 I I) as (l4 & G4 & S4 & D4 & Q4).
  destruct (W lb17_go_lexes (eq itemColon) anys [32%N] [] (eq itemColon) l4 (sv ++ 47%N :: 125%N :: s)
              (W lexes_space 0 (eq itemColon)) S4 Q4 I) as (l5 & G5 & S5 & D5 & Q5).
  destruct (W lb17_go_lexes opnd fexp sv (tokens_of v) term l5 (47%N :: 125%N :: s)
              (W lex_print 0 v Hwf Hlo sv Hp) S5 ltac:(unfold opnd; rewrite <- Q5; reflexivity) ltac:(cbn; lia)) as (l6 & G6 & S6 & D6 & _).
  destruct (W lb17_go_rdelim_end l6 s S6 ltac:(congruence)) as (l7 & G7 & S7 & D7).
  exists l7. split; [|auto].
  refine (W lb17_go_retok _ _ _ _ _ _ (W lb17_go_trans _ _ _ _ _ _ _ _ G1 (W lb17_go_trans _ _ _ _ _ _ _ _ G2 (W lb17_go_trans _ _ _ _ _ _ _ _ G3
          (W lb17_go_trans _ _ _ _ _ _ _ _ G4 (W lb17_go_trans _ _ _ _ _ _ _ _ G5 (W lb17_go_trans _ _ _ _ _ _ _ _ G6 G7)))))) _).
  reflexivity.
Qed.

(* "{kw e}" *)
Lemma lb17_cmd_kw_expr name t pp c sc : In (name, t) lb17_open_kws -> ends_term t = false ->
  wf_expr c -> lex_ok c -> print_node c = Some sc ->
  lb17_cmd_runs (([123%N] ++ name ++ [32%N]) ++ sc ++ [125%N]) ([T_ldelim; kw t pp] ++ tokens_of c ++ [T_rdelim]).
Proof.
  intros Hin Het Hwf Hlo Hp l s Hs. rewrite <- !app_assoc in Hs.
  destruct (W lb17_go_open l name t pp (32%N :: sc ++ 125%N :: s) Hin Hs ltac:(cbn; split; [lia|reflexivity]))
    as (l1 & G1 & S1 & D1 & Q1).
  destruct (W lb17_go_lexes (eq t) anys [32%N] [] (eq t) l1 (sc ++ 125%N :: s)
              (W lexes_space 0 (eq t)) S1 (eq_sym Q1) I) as (l2 & G2 & S2 & D2 & Q2).
  destruct (W lb17_go_lexes opnd fexp sc (tokens_of c) term l2 (125%N :: s)
              (W lex_print 0 c Hwf Hlo sc Hp) S2 ltac:(unfold opnd; rewrite <- Q2; exact Het) ltac:(cbn; lia)) as (l3 & G3 & S3 & D3 & _).
  destruct (W lb17_go_rdelim l3 _ S3 ltac:(congruence)) as (l4 & G4 & S4 & D4).
  exists l4. split; [|auto].
  exact (W lb17_go_trans _ _ _ _ _ _ _ _ G1 (W lb17_go_trans _ _ _ _ _ _ _ _ G2 (W lb17_go_trans _ _ _ _ _ _ _ _ G3 G4))).
Qed.

(* the values of a {case}: e1,e2,... *)
Lemma lb17_L_vals vals l : vals <> [] -> allP wf_expr vals -> allP lex_ok vals -> opt_all (map print_node vals) = Some l ->
  L opnd fexp (join [44%N] l) (map tv (sep_join [T_comma] (map tokens_of vals))) term.
Proof.
  intros Hne0 Hwf Hlo El. rewrite map_tv_sep_join, map_map. change (map (fun x => map tv (tokens_of x)) vals) with (map toks vals).
  destruct (opt_all_items print_node toks vals l El) as (A1 & A2 & A3).
  assert (Hall : forall it, In it (combine l (map toks vals)) -> L opnd fexp (fst it) (snd it) term).
  { intros it Hin. destruct (A3 it Hin) as (x & Hx & Hpx & ->).
    apply (W lex_print 0); [eapply allP_In; eassumption|eapply allP_In; eassumption|exact Hpx]. }
  assert (Hne : combine l (map toks vals) <> []).
  { intros E. apply (f_equal (@length _)) in E. rewrite combine_length, map_length in E.
    assert (Hl : length l = length vals).
    { rewrite <- A1 at 1. rewrite map_length, combine_length, map_length. pose proof (f_equal (@length _) A2) as H2.
      rewrite !map_length, combine_length, map_length in H2. lia. }
    destruct vals; [congruence|]. cbn [length] in *. lia. }
  pose proof (W L_sepj 0 [44%N] [T_com] (W L_comma 0) ltac:(intros s; cbn; lia) _ Hne Hall) as Hargs. rewrite A1, A2 in Hargs. exact Hargs.
Qed.

(* "{case e1,e2}" and its body, up to the next tag *)
Lemma lb17_cmd_case q vals lv body bts : vals <> [] -> allP wf_expr vals -> allP lex_ok vals ->
  opt_all (map print_node vals) = Some lv -> lb17_body_runs body bts ->
  forall l tl, span l [] (c_case ++ join s_comma lv ++ [125%N] ++ body ++ tl) -> (exists r0, tl = 123%N :: r0) ->
  exists l', go LLeftDelim l LLeftDelim l'
    (([T_ldelim; kw pit_Case q] ++ sep_join [T_comma] (map tokens_of vals) ++ [T_rdelim]) ++ bts) /\ span l' [] tl.
Proof.
  intros Hne Hwf Hlo El Hb l tl Hs (r0 & ->).
  assert (Hs' : span l [] ([123%N] ++ [99; 97; 115; 101]%N ++ 32%N :: join [44%N] lv ++ 125%N :: body ++ 123%N :: r0)) by exact Hs.
  destruct (W lb17_go_open l [99; 97; 115; 101]%N itemCase q _ ltac:(lb17_in) Hs' ltac:(cbn; split; [lia|reflexivity]))
    as (l1 & G1 & S1 & D1 & Q1).
  destruct (W lb17_go_lexes (eq itemCase) anys [32%N] [] (eq itemCase) l1 (join [44%N] lv ++ 125%N :: body ++ 123%N :: r0)
              (W lexes_space 0 (eq itemCase)) S1 (eq_sym Q1) I) as (l2 & G2 & S2 & D2 & Q2).
  destruct (W lb17_go_lexes opnd fexp (join [44%N] lv) (sep_join [T_comma] (map tokens_of vals)) term l2 (125%N :: body ++ 123%N :: r0)
              (lb17_L_vals vals lv Hne Hwf Hlo El) S2 ltac:(unfold opnd; rewrite <- Q2; reflexivity) ltac:(cbn; lia)) as (l3 & G3 & S3 & D3 & _).
  destruct (W lb17_go_rdelim l3 _ S3 ltac:(congruence)) as (l4 & G4 & S4 & D4).
  destruct (Hb l4 (123%N :: r0) S4 D4 ltac:(right; eexists; reflexivity)) as [(_ & l5 & G5 & S5 & D5)|(E & _)]; [|discriminate E].
  exists l5. split; [|exact S5].
  pose proof (W lb17_go_trans _ _ _ _ _ _ _ _ G1 (W lb17_go_trans _ _ _ _ _ _ _ _ G2 (W lb17_go_trans _ _ _ _ _ _ _ _ G3
          (W lb17_go_trans _ _ _ _ _ _ _ _ G4 G5)))) as G.
  rewrite <- !app_assoc. exact G.
Qed.

(* one condition of an {if}: "{if e}" / "{elseif e}" and its body, up to the next tag *)
Lemma lb17_cmd_cond name t pp c sc body bts : In (name, t) lb17_open_kws -> ends_term t = false ->
  wf_expr c -> lex_ok c -> print_node c = Some sc -> lb17_body_runs body bts ->
  forall l tl, span l [] (([123%N] ++ name ++ [32%N]) ++ (sc ++ [125%N]) ++ body ++ tl) -> (exists r0, tl = 123%N :: r0) ->
  exists l', go LLeftDelim l LLeftDelim l' ([T_ldelim; kw t pp] ++ tokens_of c ++ [T_rdelim] ++ bts) /\ span l' [] tl.
Proof.
  intros Hin Het Hwf Hlo Hp Hb l tl Hs (r0 & ->). rewrite <- !app_assoc in Hs.
  destruct (W lb17_go_open l name t pp (32%N :: sc ++ 125%N :: body ++ 123%N :: r0) Hin Hs ltac:(cbn; split; [lia|reflexivity]))
    as (l1 & G1 & S1 & D1 & Q1).
  destruct (W lb17_go_lexes (eq t) anys [32%N] [] (eq t) l1 (sc ++ 125%N :: body ++ 123%N :: r0)
              (W lexes_space 0 (eq t)) S1 (eq_sym Q1) I) as (l2 & G2 & S2 & D2 & Q2).
  destruct (W lb17_go_lexes opnd fexp sc (tokens_of c) term l2 (125%N :: body ++ 123%N :: r0)
              (W lex_print 0 c Hwf Hlo sc Hp) S2 ltac:(unfold opnd; rewrite <- Q2; exact Het) ltac:(cbn; lia)) as (l3 & G3 & S3 & D3 & _).
  destruct (W lb17_go_rdelim l3 _ S3 ltac:(congruence)) as (l4 & G4 & S4 & D4).
  destruct (Hb l4 (123%N :: r0) S4 D4 ltac:(right; eexists; reflexivity)) as [(_ & l5 & G5 & S5 & D5)|(E & _)]; [|discriminate E].
  exists l5. split; [|exact S5].
  exact (W lb17_go_trans _ _ _ _ _ _ _ _ G1 (W lb17_go_trans _ _ _ _ _ _ _ _ G2 (W lb17_go_trans _ _ _ _ _ _ _ _ G3
          (W lb17_go_trans _ _ _ _ _ _ _ _ G4 G5)))).
Qed.

Lemma lb17_cmd_else body bts : lb17_body_runs body bts ->
  forall l tl, span l [] (c_else ++ body ++ tl) -> (exists r0, tl = 123%N :: r0) ->
  exists l', go LLeftDelim l LLeftDelim l' ([T_ldelim; kw pit_Else 0; T_rdelim] ++ bts) /\ span l' [] tl.
Proof.
  intros Hb l tl Hs (r0 & ->).
  destruct (W lb17_go_open l [101; 108; 115; 101]%N itemElse 0%N (125%N :: body ++ 123%N :: r0) ltac:(lb17_in) Hs ltac:(cbn; split; [lia|reflexivity]))
    as (l1 & G1 & S1 & D1 & _).
  destruct (W lb17_go_rdelim l1 _ S1 D1) as (l2 & G2 & S2 & D2).
  destruct (Hb l2 (123%N :: r0) S2 D2 ltac:(right; eexists; reflexivity)) as [(_ & l3 & G3 & S3 & D3)|(E & _)]; [|discriminate E].
  exists l3. split; [|exact S3].
  exact (W lb17_go_trans _ _ _ _ _ _ _ _ G1 (W lb17_go_trans _ _ _ _ _ _ _ _ G2 G3)).
Qed.

(* ---------- the composition ---------- *)
Theorem lb17_ok_runs :
  (forall c, lb17_okc c -> forall txt, print_tree c = Some txt -> lb17_cmd_runs txt (cmd_toks c)) /\
  (forall params, lb17_okparams params -> forall txts, opt_all (map print_tree params) = Some txts ->
     forall l s, span l [] (concat_b txts ++ c_call_end ++ s) -> l_dd l = false ->
     exists l', go LText l LLeftDelim l' (lb17_call_toks params) /\ span l' [] (c_call_end ++ s)) /\
  (forall cases, lb17_okcases cases -> forall txts, opt_all (map print_tree cases) = Some txts ->
     forall l s, span l [] (concat_b txts ++ c_switch_end ++ s) ->
     exists l', go LLeftDelim l LLeftDelim l' (lb17_switch_toks cases) /\ span l' [] (c_switch_end ++ s)) /\
  (forall first conds, lb17_okconds first conds -> forall p txt, lb17_if_print first conds = Some txt ->
     forall l s, span l [] (txt ++ c_if_end ++ s) ->
     exists l', go LLeftDelim l LLeftDelim l' (lb17_if_toks p first conds) /\ span l' [] (c_if_end ++ s)) /\
  (forall ns, lb17_okb ns -> forall txts, opt_all (map print_tree ns) = Some txts ->
     lb17_body_runs (concat_b txts) (concat (map cmd_toks ns)) /\
     (lb17_hd_cmd ns -> forall l tl, span l [] (concat_b txts ++ tl) -> tag_or_end tl -> fin tl (concat (map cmd_toks ns)) LLeftDelim l)).
Proof.
  apply lb17_ok_mutind.
  - (* print *) intros p arg dirs Hwf Hlo txt Hp. apply lb17_cmd_print; assumption.
  - (* debugger *) intros p txt Hp. injection Hp as <-. apply lb17_cmd_debugger.
  - (* log *) intros p q ns _ IH txt Hp. rewrite lb17_print_log, lb17_print_list in Hp.
    destruct (opt_all (map print_tree ns)) as [txts|] eqn:E; cbn [omap obind] in Hp; [|discriminate]. injection Hp as <-.
    change (cmd_toks (NLog p (NList q ns))) with ([T_ldelim; kw pit_Log p; T_rdelim] ++ concat (map cmd_toks ns) ++ CmdSyntax.close_tag pit_LogEnd).
    apply lb17_cmd_log. apply (IH txts eq_refl).
  - (* let value *) intros p name e Hname Hwf Hlo txt Hp. rewrite lb17_print_letv, (lb17_print_expr e Hwf) in Hp.
    destruct (print_node e) as [se|] eqn:E; cbn [obind] in Hp; [|discriminate]. injection Hp as <-.
    change (cmd_toks (NLetValue p name e)) with ([T_ldelim; kw pit_Let p; tk pit_DollarIdent 0 (36%N :: name); T_colon] ++ tokens_of e ++ [T_rdelim_end]).
    apply lb17_cmd_letv; assumption.
  - (* let content *) intros p name q ns Hname _ IH txt Hp. rewrite lb17_print_letc, lb17_print_list in Hp.
    destruct (opt_all (map print_tree ns)) as [txts|] eqn:E; cbn [omap obind] in Hp; [|discriminate]. injection Hp as <-.
    change (cmd_toks (NLetContent p name (NList q ns)))
      with ([T_ldelim; kw pit_Let p; tk pit_DollarIdent 0 (36%N :: name); T_rdelim] ++ concat (map cmd_toks ns) ++ CmdSyntax.close_tag pit_LetEnd).
    apply lb17_cmd_letc; [exact Hname|apply (IH txts eq_refl)].
  - (* if *) intros p conds _ IH txt Hp. rewrite lb17_print_if in Hp.
    destruct (lb17_if_print true conds) as [sc|] eqn:E; cbn [obind] in Hp; [|discriminate]. injection Hp as <-.
    rewrite lb17_toks_if. intros l s Hs. rewrite <- app_assoc in Hs.
    destruct (IH p sc eq_refl l s Hs) as (l1 & G1 & S1).
    destruct (W lb17_go_close l1 [105; 102]%N itemIfEnd s ltac:(lb17_in) S1) as (l2 & G2 & S2 & D2).
    exists l2. split; [|auto]. exact (W lb17_go_trans _ _ _ _ _ _ _ _ G1 G2).
  - (* for *) intros p var lst q ns Hvar Hwf Hlo Hnm _ IHb txt Hp. pose proof (lb17_anylast_wf lst Hwf Hlo Hnm) as Hany.
    rewrite lb17_print_for, (lb17_print_expr lst Hwf), lb17_print_list in Hp.
    destruct (print_node lst) as [sl|] eqn:El; cbn [obind] in Hp; [|discriminate].
    destruct (opt_all (map print_tree ns)) as [txts|] eqn:En; cbn [omap obind] in Hp; [|discriminate]. injection Hp as <-.
    destruct (IHb txts eq_refl) as [HA _].
    refine (lb17_runs_eq _ _ _ _ (lb17_cmd_block _ _ _ _ _ _ _ (lb17_cmd_for_head p var lst sl Hvar Hany El) HA
              (lb17_cmd_close [102; 111; 114]%N itemForEnd ltac:(lb17_in)) eq_refl) _ _).
    + rewrite <- !app_assoc. reflexivity.
    + change (cmd_toks (NFor p var lst (NList q ns) None))
        with ([T_ldelim; kw pit_For p; tk pit_DollarIdent 0 (36%N :: var); tk pit_Ident 0 v_in] ++ tokens_of lst ++ [T_rdelim] ++
              concat (map cmd_toks ns) ++ [] ++ CmdSyntax.close_tag pit_ForEnd).
      rewrite <- !app_assoc. reflexivity.
  - (* for with ifempty *) intros p var lst q ns q2 ns2 Hvar Hwf Hlo Hnm _ IHb _ IHb2 txt Hp. pose proof (lb17_anylast_wf lst Hwf Hlo Hnm) as Hany.
    rewrite lb17_print_for, (lb17_print_expr lst Hwf), !lb17_print_list in Hp.
    destruct (print_node lst) as [sl|] eqn:El; cbn [obind] in Hp; [|discriminate].
    destruct (opt_all (map print_tree ns)) as [txts|] eqn:En; cbn [omap obind] in Hp; [|discriminate].
    destruct (opt_all (map print_tree ns2)) as [txts2|] eqn:En2; cbn [omap obind] in Hp; [|discriminate]. injection Hp as <-.
    destruct (IHb txts eq_refl) as [HA _]. destruct (IHb2 txts2 eq_refl) as [HA2 _].
    refine (lb17_runs_eq _ _ _ _ (lb17_cmd_block _ _ _ _ _ _ _ (lb17_cmd_for_head p var lst sl Hvar Hany El) HA
              (lb17_cmd_block _ _ _ _ _ _ _ (lb17_cmd_simple [105; 102; 101; 109; 112; 116; 121]%N itemIfempty 0%N ltac:(lb17_in)) HA2
                 (lb17_cmd_close [102; 111; 114]%N itemForEnd ltac:(lb17_in)) eq_refl) eq_refl) _ _).
    + rewrite <- !app_assoc. reflexivity.
    + change (cmd_toks (NFor p var lst (NList q ns) (Some (NList q2 ns2))))
        with ([T_ldelim; kw pit_For p; tk pit_DollarIdent 0 (36%N :: var); tk pit_Ident 0 v_in] ++ tokens_of lst ++ [T_rdelim] ++
              concat (map cmd_toks ns) ++ ([T_ldelim; kw pit_Ifempty 0; T_rdelim] ++ concat (map cmd_toks ns2)) ++ CmdSyntax.close_tag pit_ForEnd).
      rewrite <- !app_assoc. reflexivity.
  - (* switch *) intros p v cases Hwf Hlo Hokc IH txt Hp.
    rewrite lb17_print_switch, (lb17_print_expr v Hwf) in Hp.
    destruct (print_node v) as [sv|] eqn:Ev; cbn [obind] in Hp; [|discriminate].
    destruct (opt_all (map print_tree cases)) as [txts|] eqn:Ec; cbn [omap obind] in Hp; [|discriminate]. injection Hp as <-.
    rewrite lb17_toks_switch. intros l s Hs.
    assert (Hs' : span l [] ((([123%N] ++ [115; 119; 105; 116; 99; 104]%N ++ [32%N]) ++ sv ++ [125%N]) ++ concat_b txts ++ c_switch_end ++ s)).
    { cbn [app] in Hs. rewrite <- ?app_assoc in Hs. cbn [app] in Hs. rewrite <- ?app_assoc in Hs. rewrite <- !app_assoc. exact Hs. }
    destruct (lb17_cmd_kw_expr [115; 119; 105; 116; 99; 104]%N itemSwitch p v sv ltac:(lb17_in) eq_refl Hwf Hlo Ev l _ Hs') as (l1 & G1 & S1 & D1).
    assert (Htag : exists r0, concat_b txts ++ c_switch_end ++ s = 123%N :: r0).
    { destruct (lb17_cases_head cases txts Hokc Ec) as [->|(r0 & ->)]; eexists; reflexivity. }
    destruct Htag as (r0 & Etag). rewrite Etag in S1.
    destruct (W lb17_go_text_tag l1 r0 S1) as (l2 & G2 & S2 & D2). rewrite <- Etag in S2.
    destruct (IH txts eq_refl l2 s S2) as (l3 & G3 & S3).
    destruct (W lb17_go_close l3 [115; 119; 105; 116; 99; 104]%N itemSwitchEnd s ltac:(lb17_in) S3) as (l4 & G4 & S4 & D4).
    exists l4. split; [|auto].
    pose proof (W lb17_go_trans _ _ _ _ _ _ _ _ G1 (W lb17_go_trans _ _ _ _ _ _ _ _ G2 (W lb17_go_trans _ _ _ _ _ _ _ _ G3 G4))) as G.
    rewrite <- !app_assoc in G. exact G.
  - (* css *) intros p suffix Hok txt Hp. injection Hp as <-.
    change (cmd_toks (NCss p None suffix)) with [T_ldelim; kw pit_Css p; tk pit_Text 0 suffix; T_rdelim].
    apply lb17_cmd_css. exact Hok.
  - (* css with an expression *) intros p x suffix Hwf Hok txt Hp. rewrite lb17_print_css_e, (lb17_print_expr x Hwf) in Hp.
    destruct (print_node x) as [sx|] eqn:Ex; cbn [obind] in Hp; [|discriminate]. injection Hp as <-.
    change (cmd_toks (NCss p (Some x) suffix)) with [T_ldelim; kw pit_Css p; tk pit_Text 0 (css_text (Some x) suffix); T_rdelim].
    assert (E : css_text (Some x) suffix = sx ++ [44; 32]%N ++ suffix) by (unfold css_text, printed; rewrite Ex; reflexivity).
    rewrite E in Hok |- *.
    refine (lb17_runs_eq _ _ _ _ (lb17_cmd_css p _ Hok) _ eq_refl). rewrite <- !app_assoc. reflexivity.
  - (* call *) intros p name alldata data params Hdot Hdata Hokp IH txt Hp.
    rewrite (lb17_print_call _ _ _ _ _ Hdata) in Hp. rewrite lb17_toks_call. cbv zeta in Hp. intros l s Hs.
    destruct params as [|p0 ps].
    + injection Hp as <-. cbn [app] in Hs. rewrite <- ?app_assoc in Hs. cbn [app] in Hs. rewrite <- ?app_assoc in Hs.
      destruct (lb17_go_call_head p name alldata data l (c_call_self ++ s) Hdot Hdata Hs ltac:(intros _; cbn; lia)) as (l1 & G1 & S1 & D1).
      destruct (W lb17_go_rdelim_end l1 s S1 D1) as (l2 & G2 & S2 & D2).
      exists l2. split; [|auto]. pose proof (W lb17_go_trans _ _ _ _ _ _ _ _ G1 G2) as G. rewrite <- !app_assoc in G. exact G.
    + destruct (opt_all (map print_tree (p0 :: ps))) as [txts|] eqn:E; cbn [omap obind] in Hp; [|discriminate]. injection Hp as <-.
      cbn [app] in Hs. rewrite <- ?app_assoc in Hs. cbn [app] in Hs. rewrite <- ?app_assoc in Hs.
      destruct (lb17_go_call_head p name alldata data l (125%N :: concat_b txts ++ c_call_end ++ s) Hdot Hdata Hs ltac:(intros _; cbn; lia)) as (l1 & G1 & S1 & D1).
      destruct (W lb17_go_rdelim l1 _ S1 D1) as (l2 & G2 & S2 & D2).
      destruct (IH txts eq_refl l2 s S2 D2) as (l3 & G3 & S3).
      destruct (W lb17_go_close l3 [99; 97; 108; 108]%N itemCallEnd s ltac:(lb17_in) S3) as (l4 & G4 & S4 & D4).
      exists l4. split; [|auto].
      pose proof (W lb17_go_trans _ _ _ _ _ _ _ _ G1 (W lb17_go_trans _ _ _ _ _ _ _ _ G2 (W lb17_go_trans _ _ _ _ _ _ _ _ G3 G4))) as G.
      rewrite <- !app_assoc in G. exact G.
  - (* no more parameters *) intros txts Hp l s Hs Hdd. injection Hp as <-.
    destruct (W lb17_go_text_tag l _ Hs) as (l1 & G1 & S1 & D1). exists l1. split; [exact G1|exact S1].
  - (* {param k}...{/param} *) intros q key w ns r Hkey _ IHb _ IHr txts Hp l s Hs Hdd.
    cbn [map opt_all] in Hp. rewrite lb17_print_param in Hp.
    destruct (opt_all (map print_tree ns)) as [tb|] eqn:En; cbn [omap obind] in Hp; [|discriminate].
    destruct (opt_all (map print_tree r)) as [tr|] eqn:Er; [|discriminate]. injection Hp as <-.
    destruct (IHb tb eq_refl) as [HA _].
    cbn [concat_b app] in Hs. rewrite <- ?app_assoc in Hs. cbn [app] in Hs. rewrite <- ?app_assoc in Hs.
    destruct (W lb17_go_text_tag l _ Hs) as (l1 & G1 & S1 & D1).
    pose proof (lb17_cmd_block _ _ _ _ _ _ _ (lb17_cmd_param_head q key Hkey) HA (lb17_cmd_close [112; 97; 114; 97; 109]%N itemParamEnd ltac:(lb17_in)) eq_refl) as Hrun.
    destruct (Hrun l1 (concat_b tr ++ c_call_end ++ s)) as (l2 & G2 & S2 & D2).
    { rewrite <- !app_assoc. exact S1. }
    destruct (IHr tr eq_refl l2 s S2 D2) as (l3 & G3 & S3).
    exists l3. split; [|exact S3]. rewrite lb17_call_toks_cons.
    exact (W lb17_go_trans _ _ _ _ _ _ _ _ G1 (W lb17_go_trans _ _ _ _ _ _ _ _ G2 G3)).
  - (* {param k: e/} *) intros q key v r Hkey Hwf Hlo _ IHr txts Hp l s Hs Hdd.
    cbn [map opt_all] in Hp. rewrite lb17_print_paramv, (lb17_print_expr v Hwf) in Hp.
    destruct (print_node v) as [sv|] eqn:Ev; cbn [obind] in Hp; [|discriminate].
    destruct (opt_all (map print_tree r)) as [tr|] eqn:Er; [|discriminate]. injection Hp as <-.
    cbn [concat_b app] in Hs. rewrite <- ?app_assoc in Hs. cbn [app] in Hs. rewrite <- ?app_assoc in Hs.
    destruct (W lb17_go_text_tag l _ Hs) as (l1 & G1 & S1 & D1).
    destruct (lb17_cmd_param_val q key v sv Hkey Hwf Hlo Ev l1 (concat_b tr ++ c_call_end ++ s)) as (l2 & G2 & S2 & D2).
    { rewrite <- !app_assoc. exact S1. }
    destruct (IHr tr eq_refl l2 s S2 D2) as (l3 & G3 & S3).
    exists l3. split; [|exact S3]. rewrite lb17_call_toks_cons_val.
    exact (W lb17_go_trans _ _ _ _ _ _ _ _ G1 (W lb17_go_trans _ _ _ _ _ _ _ _ G2 G3)).
  - (* no more cases *) intros txts Hp l s Hs. injection Hp as <-. exists l. split; [|exact Hs].
    exists 0%nat. split; [reflexivity|apply lb17_sent_nil; reflexivity].
  - (* {case ...} *) intros q vals w ns r Hne Hwf Hlo _ IHb Hokr IHr txts Hp l s Hs.
    cbn [map opt_all] in Hp. rewrite lb17_print_case, (lb17_print_exprs vals Hwf) in Hp.
    destruct (opt_all (map print_node vals)) as [lv|] eqn:Ev; cbn [obind] in Hp; [|discriminate].
    destruct (opt_all (map print_tree ns)) as [tb|] eqn:En; cbn [omap obind] in Hp; [|discriminate].
    destruct (opt_all (map print_tree r)) as [tr|] eqn:Er; [|discriminate]. injection Hp as <-.
    destruct (IHb tb eq_refl) as [HA _].
    assert (Htl : exists r0, concat_b tr ++ c_switch_end ++ s = 123%N :: r0).
    { destruct (lb17_cases_head r tr Hokr Er) as [->|(r0 & ->)]; eexists; reflexivity. }
    cbn [concat_b app] in Hs. rewrite <- ?app_assoc in Hs. cbn [app] in Hs. rewrite <- ?app_assoc in Hs.
    destruct (lb17_cmd_case q vals lv (concat_b tb) _ Hne Hwf Hlo Ev HA l _ Hs Htl) as (l1 & G1 & S1).
    destruct (IHr tr eq_refl l1 s S1) as (l2 & G2 & S2).
    exists l2. split; [|exact S2].
    destruct vals as [|v0 vals']; [congruence|]. rewrite lb17_switch_toks_cons.
    pose proof (W lb17_go_trans _ _ _ _ _ _ _ _ G1 G2) as G. rewrite <- !app_assoc in G. rewrite <- !app_assoc. exact G.
  - (* no more conditions *) intros p txt Hp l s Hs. injection Hp as <-. exists l. split; [|exact Hs].
    exists 0%nat. split; [reflexivity|apply lb17_sent_nil; reflexivity].
  - (* {if e} / {elseif e} *) intros first q c w ns r Hwf Hlo _ IHb Hokr IHr p txt Hp l s Hs.
    cbn [lb17_if_print] in Hp. rewrite lb17_print_ifcond, (lb17_print_expr c Hwf) in Hp.
    destruct (print_node c) as [sc|] eqn:Ec; cbn [omap obind] in Hp; [|discriminate].
    destruct (opt_all (map print_tree ns)) as [txts|] eqn:En; cbn [omap obind] in Hp; [|discriminate].
    destruct (lb17_if_print false r) as [sr|] eqn:Er; cbn [obind] in Hp; [|discriminate]. injection Hp as <-.
    destruct (IHb txts eq_refl) as [HA _].
    assert (Htl : exists r0, sr ++ c_if_end ++ s = 123%N :: r0).
    { destruct (lb17_if_print_head r sr Hokr Er) as [->|(r0 & ->)]; eexists; reflexivity. }
    rewrite lb17_if_toks_cond.
    assert (Hcond : exists l1, go LLeftDelim l LLeftDelim l1
              ([T_ldelim; kw (if first then pit_If else pit_Elseif) (if first then p else 0%N)] ++ tokens_of c ++ [T_rdelim] ++ concat (map cmd_toks ns))
              /\ span l1 [] (sr ++ c_if_end ++ s)).
    { destruct first.
      - apply (lb17_cmd_cond [105; 102]%N itemIf p c sc (concat_b txts) _ ltac:(lb17_in) eq_refl Hwf Hlo Ec HA l _); [|exact Htl].
        cbn [if_prefix] in Hs. rewrite <- !app_assoc in Hs. rewrite <- !app_assoc. exact Hs.
      - apply (lb17_cmd_cond [101; 108; 115; 101; 105; 102]%N itemElseif 0%N c sc (concat_b txts) _ ltac:(lb17_in) eq_refl Hwf Hlo Ec HA l _); [|exact Htl].
        cbn [if_prefix] in Hs. rewrite <- !app_assoc in Hs. rewrite <- !app_assoc. exact Hs. }
    destruct Hcond as (l1 & G1 & S1).
    destruct (IHr p sr eq_refl l1 s S1) as (l2 & G2 & S2).
    exists l2. split; [|exact S2].
    pose proof (W lb17_go_trans _ _ _ _ _ _ _ _ G1 G2) as G. rewrite <- !app_assoc in G. exact G.
  - (* {else} *) intros q w ns _ IHb p txt Hp l s Hs.
    cbn [lb17_if_print] in Hp. rewrite lb17_print_ifelse in Hp.
    destruct (opt_all (map print_tree ns)) as [txts|] eqn:En; cbn [omap obind] in Hp; [|discriminate]. injection Hp as <-.
    destruct (IHb txts eq_refl) as [HA _]. rewrite lb17_if_toks_else.
    cbn [if_prefix app] in Hs. rewrite <- !app_assoc in Hs.
    destruct (lb17_cmd_else (concat_b txts) _ HA l (c_if_end ++ s) Hs ltac:(eexists; reflexivity)) as (l1 & G1 & S1).
    exists l1. split; [|exact S1]. change (lb17_if_toks p false []) with (@nil tok). rewrite app_nil_r. exact G1.
  - (* the empty body *) intros txts Hp. injection Hp as <-. split; [|intros []].
    intros l tl Hs Hdd Htl. apply (W lb17_fin_text l [] tl); try assumption; try exact lb17_one_piece_nil; try constructor.
  - (* raw text first *) intros p t r Hpl Hns Hdr Hokr IHr Hhd txts Hp. split; [|intros []].
    cbn [map opt_all] in Hp. change (print_tree (NRawText p t)) with (Some t) in Hp.
    destruct (opt_all (map print_tree r)) as [tr|] eqn:Er; [|discriminate]. injection Hp as <-.
    destruct (IHr tr eq_refl) as [_ IHB].
    intros l tl Hs Hdd Htl. cbn [concat_b] in Hs. rewrite <- app_assoc in Hs.
    cbn [map concat]. change (cmd_toks (NRawText p t)) with [tk pit_Text p t].
    destruct r as [|c r'].
    + cbn [map opt_all] in Er. injection Er as <-. cbn [concat_b app] in Hs. cbn [map concat].
      apply (W lb17_fin_text l t tl); try assumption. rewrite Hdr. eexists; reflexivity.
    + assert (Hokc : lb17_okc c /\ lb17_hd_cmd (c :: r')).
      { inversion Hokr as [|? ? ? ? ? ? ? ?|? ? Hc ?]; subst; [contradiction|]. split; [exact Hc|].
        destruct Hc; exact I. }
      destruct Hokc as [Hokc Hhc].
      assert (Htag : tag_or_end (concat_b tr ++ tl)).
      { cbn [map opt_all] in Er. destruct (print_tree c) as [tc|] eqn:Ec; [|discriminate].
        destruct (opt_all (map print_tree r')); [|discriminate]. injection Er as <-.
        destruct (lb17_okc_head c tc Hokc Ec) as (r0 & ->). right. eexists. reflexivity. }
      assert (Hne : concat_b tr ++ tl <> []).
      { cbn [map opt_all] in Er. destruct (print_tree c) as [tc|] eqn:Ec; [|discriminate].
        destruct (opt_all (map print_tree r')); [|discriminate]. injection Er as <-.
        destruct (lb17_okc_head c tc Hokc Ec) as (r0 & ->). discriminate. }
      pose proof (W lb17_fin_text l t (concat_b tr ++ tl) [tk pit_Text p t] Hs Hdd Hpl Hns Htag ltac:(rewrite Hdr; eexists; reflexivity)) as Hf.
      destruct Hf as [(_ & l1 & G1 & S1 & D1)|(E & _)]; [|contradiction].
      exact (W lb17_fin_prefix _ _ _ _ _ _ _ G1 (IHB Hhc l1 tl S1 Htl)).
  - (* a command first *) intros c r Hokc IHc Hokr IHr txts Hp.
    cbn [map opt_all] in Hp. destruct (print_tree c) as [tc|] eqn:Ec; [|discriminate].
    destruct (opt_all (map print_tree r)) as [tr|] eqn:Er; [|discriminate]. injection Hp as <-.
    destruct (IHr tr eq_refl) as [IHA _]. cbn [concat_b map concat].
    assert (HB : forall l tl, span l [] ((tc ++ concat_b tr) ++ tl) -> tag_or_end tl -> fin tl (cmd_toks c ++ concat (map cmd_toks r)) LLeftDelim l).
    { intros l tl Hs Htl. rewrite <- app_assoc in Hs.
      destruct (IHc tc eq_refl l (concat_b tr ++ tl) Hs) as (l1 & G1 & S1 & D1).
      exact (W lb17_fin_prefix _ _ _ _ _ _ _ G1 (IHA l1 tl S1 D1 Htl)). }
    split; [|intros _; exact HB].
    intros l tl Hs Hdd Htl. destruct (lb17_okc_head c tc Hokc Ec) as (r0 & ->).
    destruct (W lb17_go_text_tag l ((r0 ++ concat_b tr) ++ tl) Hs) as (l1 & G1 & S1 & D1).
    exact (W lb17_fin_prefix _ _ _ _ _ _ _ G1 (HB l1 tl S1 Htl)).
Qed.

End Body.

(* lex(name, String(body)) for a covered body: the items of body_toks (types and texts), then EOF *)
Theorem lb17_lex_body (uni_letter uni_digit : Z -> bool) :
  (forall c, (c < 128)%N -> uni_letter (Z.of_N c) = ((65 <=? c) && (c <=? 90) || (97 <=? c) && (c <=? 122))%N) ->
  (forall c, (c < 128)%N -> uni_digit (Z.of_N c) = digit_b c) ->
  uni_letter (-1) = false -> uni_digit (-1) = false ->
  forall q ns txt, lb17_okb ns -> print_tree (NList q ns) = Some txt ->
  exists its e, lex_items uni_letter uni_digit (lex_budget txt) false txt = Ok (its ++ [e]) /\ t_typ e = itemEOF /\
    map tv its = map tv (body_toks (NList q ns)).
Proof.
  intros Hla Hda Hle Hde q ns txt Hok Hp. rewrite lb17_print_list in Hp.
  destruct (opt_all (map print_tree ns)) as [txts|] eqn:E; cbn [omap] in Hp; [|discriminate]. injection Hp as <-.
  set (txt := concat_b txts).
  destruct (lb17_ok_runs uni_letter uni_digit Hla Hda Hle Hde txt) as (_ & _ & _ & _ & HB).
  destruct (HB ns Hok txts E) as [HA _].
  assert (Hs0 : span txt lex_init [] (concat_b txts ++ [])).
  { rewrite app_nil_r. unfold span, lex_init. cbn [l_start l_pos length]. repeat split; try lia. }
  destruct (HA lex_init [] Hs0 eq_refl ltac:(left; reflexivity)) as [(Hne & _)|(_ & k & l' & its & e & Hst & HF & He & Ho)]; [congruence|].
  destruct (lex_total_linear uni_letter uni_digit Hle Hde 0 ltac:(lia) false txt) as (lf & Hr & _).
  pose proof Hr as Hr'. rewrite lex_run_at_file in Hr'.
  pose proof (run_unique uni_letter uni_digit txt 0 (lex_budget txt) k LText lex_init lf l' Hr' Hst) as Eq.
  exists its, e. split; [|split; [exact He|apply lb17_sim_tv; exact HF]].
  unfold lex_items, lex_run. rewrite Hr. cbn [bind]. subst lf. rewrite Ho. cbn [lex_init l_out rev]. rewrite app_nil_r, rev_involutive.
  reflexivity.
Qed.

(* the body of a template followed by the template's closing tag *)
Theorem lb17_lex_template_body (uni_letter uni_digit : Z -> bool) :
  (forall c, (c < 128)%N -> uni_letter (Z.of_N c) = ((65 <=? c) && (c <=? 90) || (97 <=? c) && (c <=? 122))%N) ->
  (forall c, (c < 128)%N -> uni_digit (Z.of_N c) = digit_b c) ->
  uni_letter (-1) = false -> uni_digit (-1) = false ->
  forall q ns txt, lb17_okb ns -> print_tree (NList q ns) = Some txt ->
  exists its e, lex_items uni_letter uni_digit (lex_budget (txt ++ b "{/template}")) false (txt ++ b "{/template}") = Ok (its ++ [e]) /\
    t_typ e = itemEOF /\
    map tv its = map tv (body_toks (NList q ns) ++ [T_ldelim; kw pit_TemplateEnd 0; T_rdelim]).
Proof.
  intros Hla Hda Hle Hde q ns txt0 Hok Hp. rewrite lb17_print_list in Hp.
  destruct (opt_all (map print_tree ns)) as [txts|] eqn:E; cbn [omap] in Hp; [|discriminate]. injection Hp as <-.
  set (tl := b "{/template}"). set (txt := concat_b txts ++ tl).
  destruct (lb17_ok_runs uni_letter uni_digit Hla Hda Hle Hde txt) as (_ & _ & _ & _ & HB).
  destruct (HB ns Hok txts E) as [HA _].
  assert (Hs0 : span txt lex_init [] (concat_b txts ++ tl)).
  { unfold span, lex_init. cbn [l_start l_pos length]. repeat split; try lia. }
  destruct (HA lex_init tl Hs0 eq_refl ltac:(right; eexists; reflexivity)) as [(_ & l1 & G1 & S1 & D1)|(Hnil & _)]; [|discriminate Hnil].
  assert (S1' : span txt l1 [] ([123; 47]%N ++ [116; 101; 109; 112; 108; 97; 116; 101]%N ++ [125%N] ++ [])) by exact S1.
  destruct (lb17_go_close uni_letter uni_digit Hla Hda Hle Hde txt l1 _ itemTemplateEnd [] ltac:(lb17_in) S1') as (l2 & G2 & S2 & D2).
  assert (S2' : span txt l2 [] ([] ++ [])) by exact S2.
  pose proof (lb17_fin_text uni_letter uni_digit Hla Hda Hle Hde txt l2 [] [] [] S2' D2 ltac:(constructor) lb17_one_piece_nil
                ltac:(left; reflexivity) eq_refl) as F3.
  pose proof (lb17_fin_prefix uni_letter uni_digit Hla Hda Hle Hde txt [] _ _ _ _ _ _
                (lb17_go_trans uni_letter uni_digit Hla Hda Hle Hde txt _ _ _ _ _ _ _ _ G1 G2) F3) as F.
  destruct F as [(Hne & _)|(_ & k & l' & its & e & Hst & HF & He & Ho)]; [congruence|].
  destruct (lex_total_linear uni_letter uni_digit Hle Hde 0 ltac:(lia) false txt) as (lf & Hr & _).
  pose proof Hr as Hr'. rewrite lex_run_at_file in Hr'.
  pose proof (run_unique uni_letter uni_digit txt 0 (lex_budget txt) k LText lex_init lf l' Hr' Hst) as Eq.
  exists its, e. split; [|split; [exact He|]].
  - unfold lex_items, lex_run. rewrite Hr. cbn [bind]. subst lf. rewrite Ho. cbn [lex_init l_out rev]. rewrite app_nil_r, rev_involutive.
    reflexivity.
  - rewrite (lb17_sim_tv _ _ HF). rewrite app_nil_r. reflexivity.
Qed.

(* the same with the toolchain's unicode tables *)
Theorem lb17_lex_body_tbl : forall q ns txt, lb17_okb ns -> print_tree (NList q ns) = Some txt ->
  exists its e, lex_items is_letter_tbl is_digit_tbl (lex_budget txt) false txt = Ok (its ++ [e]) /\ t_typ e = itemEOF /\
    map tv its = map tv (body_toks (NList q ns)).
Proof.
  destruct tables_ascii as [Hl Hd]. destruct tables_eof as [El Ed].
  exact (lb17_lex_body is_letter_tbl is_digit_tbl Hl Hd El Ed).
Qed.

Theorem lb17_lex_template_body_tbl : forall q ns txt, lb17_okb ns -> print_tree (NList q ns) = Some txt ->
  exists its e, lex_items is_letter_tbl is_digit_tbl (lex_budget (txt ++ b "{/template}")) false (txt ++ b "{/template}") = Ok (its ++ [e]) /\
    t_typ e = itemEOF /\
    map tv its = map tv (body_toks (NList q ns) ++ [T_ldelim; kw pit_TemplateEnd 0; T_rdelim]).
Proof.
  destruct tables_ascii as [Hl Hd]. destruct tables_eof as [El Ed].
  exact (lb17_lex_template_body is_letter_tbl is_digit_tbl Hl Hd El Ed).
Qed.
