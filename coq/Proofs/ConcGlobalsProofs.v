(* C09 — the package-level state and the write sites enumerated from the Go
   sources (Generated/PkgState.v, go/cmd/tablegen/pkgvars.go) satisfy what the
   review concluded (Model/ConcGlobals.v).  Every proof is a computation on the
   generated lists: it is re-run against the current sources on every check. *)
From Coq Require Import List Bool NArith.
From Soy Require Import Model.Bytes Generated.PkgState Model.ConcGlobals.
Import ListNotations.
Open Scope N_scope.

Lemma bstr_eqb_to_eq : forall x y, bstr_eqb x y = true -> x = y.
Proof.
  induction x as [|a x IH]; destruct y as [|c y]; cbn [bstr_eqb]; try discriminate; [reflexivity|].
  intros H. apply andb_true_iff in H. destruct H as [H1 H2]. apply N.eqb_eq in H1. subst. f_equal. apply IH. exact H2.
Qed.

(* the only package-level variable whose kind can hold mutable state is the verification hook:
   no pool, lock, Once, channel, uninitialised or lazily assigned variable, no object returned by a call *)
Lemma loud_vars_reviewed : loud_vars pkg_vars = reviewed_loud_vars.
Proof. vm_compute. reflexivity. Qed.

Lemma package_vars_quiet :
  forall d n k, In (d, n, k) pkg_vars -> kind_quiet k = true \/ In (d, n, k) reviewed_loud_vars.
Proof.
  intros d n k Hin. destruct (kind_quiet k) eqn:E; [left; reflexivity|right].
  rewrite <- loud_vars_reviewed. unfold loud_vars. apply filter_In. split; [exact Hin|]. now rewrite E.
Qed.

(* every write to a package-level variable in the non-test sources of the library is in an init function *)
Lemma package_writes_only_in_init : forall w, In w pkg_var_writes -> write_in_init w = true.
Proof. apply forallb_forall. vm_compute. reflexivity. Qed.

(* every method called on a package-level variable of the library is one of the reviewed read-only
   (regexp, replacer) or internally locked (logger) methods *)
Lemma package_methods_reviewed : forall m, In m pkg_var_methods -> method_reviewed m = true.
Proof. apply forallb_forall. vm_compute. reflexivity. Qed.

(* every write through a syntax-tree / registry / bundle typed value in soyhtml, soyjs and template,
   directly or in a callee of any package, is Registry.Add building the registry under compilation, a
   capped append, or the reviewed latent hazard (the queue of ast.MsgNode.Placeholder) *)
Lemma shared_type_writes_benign : forall w, In w shared_type_writes -> shared_write_benign w = true.
Proof. apply forallb_forall. vm_compute. reflexivity. Qed.

(* (That the reviewed latent hazard is still in the sources is NOT an obligation: the repair proposed in
   notes/pending/C09-placeholder-queue-private.diff removes it, and a repaired tree must pass.  The harness
   reports the difference from bin/c09_pkgstate_reviewed.json in the evidence, which is the reminder to
   delete the exception from Model/ConcGlobals.v.) *)

(* the JavaScript generator contains no statement that writes through such a value, the reviewed latent
   hazard excepted *)
Lemma soyjs_never_writes_through_shared_types :
  forall w, In w (filter (in_pkg k_soyjs) shared_type_writes) -> reviewed_latent w = true.
Proof. apply forallb_forall. vm_compute. reflexivity. Qed.

(* the renderer: nothing but capped appends, the reviewed latent hazard excepted *)
Lemma soyhtml_writes_through_shared_types_only_capped :
  forall w, In w (filter (in_pkg k_soyhtml) shared_type_writes) -> kind_of_write w = k_capped \/ reviewed_latent w = true.
Proof.
  intros w Hin.
  assert (H : forallb (fun w => bstr_eqb (kind_of_write w) k_capped || reviewed_latent w) (filter (in_pkg k_soyhtml) shared_type_writes) = true)
    by (vm_compute; reflexivity).
  rewrite forallb_forall in H. apply H in Hin. apply orb_true_iff in Hin.
  destruct Hin as [Hk|Hr]; [left; apply bstr_eqb_to_eq; exact Hk|right; exact Hr].
Qed.
