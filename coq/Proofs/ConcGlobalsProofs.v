(* C09 — the package-level state and the write sites enumerated from the Go
   sources (Generated/Tables.v, go/cmd/tablegen/pkgvars.go) are exactly the
   reviewed ones (Model/ConcGlobals.v), and the reviewed ones satisfy what the
   review concluded. *)
From Coq Require Import List Bool.
From Soy Require Import Model.Bytes Generated.Tables Model.ConcGlobals.
Import ListNotations.
Open Scope N_scope.

(* ---- the tie: generated = reviewed ---- *)
Lemma pkg_vars_reviewed : pkg_vars = map var_key reviewed_pkg_vars.
Proof. vm_compute. reflexivity. Qed.

Lemma pkg_var_writes_reviewed : pkg_var_writes = reviewed_pkg_var_writes.
Proof. vm_compute. reflexivity. Qed.

Lemma pkg_var_methods_reviewed : pkg_var_methods = reviewed_pkg_var_methods.
Proof. vm_compute. reflexivity. Qed.

Lemma shared_type_writes_reviewed : shared_type_writes = reviewed_shared_type_writes.
Proof. vm_compute. reflexivity. Qed.

(* ---- what follows for the source ---- *)

(* every write to a package-level variable in the non-test sources is in an init function *)
Lemma package_writes_only_in_init : forall w, In w pkg_var_writes -> write_in_init w = true.
Proof.
  rewrite pkg_var_writes_reviewed. apply forallb_forall. vm_compute. reflexivity.
Qed.

(* every method called on a package-level variable is called on a regexp, a replacer, a logger, or in a command *)
Lemma package_methods_only_on_safe_objects : forall m, In m pkg_var_methods -> method_on_safe_object m = true.
Proof.
  rewrite pkg_var_methods_reviewed. apply forallb_forall. vm_compute. reflexivity.
Qed.

(* no package-level pool, lock, Once or atomic *)
Lemma no_package_level_pool_or_lock : forall v, In v pkg_vars -> no_pool_or_lock v = true.
Proof.
  rewrite pkg_vars_reviewed. apply forallb_forall. vm_compute. reflexivity.
Qed.

(* every write through a syntax-tree / registry / bundle typed value in soyhtml, soyjs and template
   is Registry.Add building the registry under compilation, or the capped append of evalPrint:
   the renderer and the JavaScript generator contain no statement that writes through such a value *)
Lemma shared_type_writes_benign : forall w, In w shared_type_writes -> shared_write_benign w = true.
Proof.
  rewrite shared_type_writes_reviewed. apply forallb_forall. vm_compute. reflexivity.
Qed.

Definition in_pkg (p : bstr) (w : bstr * bstr * bstr * bstr) : bool := let '(d, _, _, _) := w in bstr_eqb d p.

Lemma soyjs_never_writes_through_shared_types :
  filter (in_pkg (b "soyjs")) shared_type_writes = [].
Proof. rewrite shared_type_writes_reviewed. vm_compute. reflexivity. Qed.

Lemma soyhtml_writes_through_shared_types_only_capped :
  forall w, In w (filter (in_pkg (b "soyhtml")) shared_type_writes) -> let '(_, _, _, k) := w in k = k_capped.
Proof.
  rewrite shared_type_writes_reviewed. intros w Hin. vm_compute in Hin.
  destruct Hin as [<-|[]]. reflexivity.
Qed.
