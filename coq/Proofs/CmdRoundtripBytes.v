(* C17 for template bodies, from bytes to tree: the scanner model on the printed text of a body
   followed by "{/template}" sends items with the types and texts of [body_toks] (Proofs/LexBodyC17Body.v,
   for the class lb17_okb), the command-level parser reads any such items as the body up to
   positions (Proofs/CmdRoundtripStrip.v: token-level round trip + position independence). *)
From Soy Require Import Model.Bytes Model.Outcome Model.Num Model.Ast Model.Token Model.RawText Model.Lexer Model.ExprParser Model.Parser Generated.Tables
  Model.AstPrint Model.AstPrintCmd Spec.ExprSyntax Spec.CmdSyntax Proofs.ExprParserRules Proofs.ExprParserStrip
  Proofs.CmdRoundtripBase Proofs.CmdRoundtripRules Proofs.CmdRoundtrip Proofs.CmdParserStripDefs Proofs.CmdRoundtripStrip
  Proofs.LexPrintMain Proofs.LexBodyC17 Proofs.LexBodyC17Cmds Proofs.LexBodyC17Body.
From Coq Require Import Lia.
Open Scope N_scope.

Theorem template_body_text_roundtrip (inlen inlen' : N) (lexq : bstr -> list tok) (unq : bstr -> option bstr) :
  (forall s q, go_quote s = Some q -> unq q = Some s) ->
  forall q ns txt,
  wf_body lexq (nameok [] []) false (NList q ns) -> lb17_okb ns -> print_tree (NList q ns) = Some txt ->
  exists its,
    lex_items is_letter_tbl is_digit_tbl (lex_budget (txt ++ b "{/template}")) false (txt ++ b "{/template}") = Ok its /\
    exists f0, forall f, (f0 <= f)%nat ->
      exists x' s', item_list inlen' lexq unq parse_expr expr_fuel f u_template (cst_init its) = COk x' s' /\
                    cps_strip x' = cps_strip (NList q ns).
Proof.
  intros Hunq q ns txt Hwf Hok Hpr.
  destruct (lb17_lex_template_body_tbl q ns txt Hok Hpr) as (its & e & Hlex & He & Htv).
  exists (its ++ [e]). split; [exact Hlex|].
  apply (body_roundtrip_any_positions inlen inlen' lexq unq Hunq (NList q ns) u_template (kw pit_TemplateEnd 0) [T_rdelim; e] (its ++ [e]) Hwf);
    [reflexivity | reflexivity |].
  change (body_toks (NList q ns) ++ T_ldelim :: kw pit_TemplateEnd 0 :: [T_rdelim; e])
    with (body_toks (NList q ns) ++ [T_ldelim; kw pit_TemplateEnd 0; T_rdelim] ++ [e]).
  rewrite app_assoc, (map_app _ its), (map_app _ (_ ++ _) [e]). f_equal. apply strip_tok_of_tv. exact Htv.
Qed.
