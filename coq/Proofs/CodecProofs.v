(* C16: proofs about the encoding directives (Model/Directives.v,
   Model/JsEscape.v) against the Spec decoders (Spec/Codec.v). *)
From Coq Require Import Lia ZifyN ZifyNat ZifyBool.
From Soy Require Import Model.Bytes Generated.Tables Model.Utf8 Model.Outcome Model.Escape Model.Directives Model.JsEscape
  Spec.Html Spec.Codec Proofs.Utf8Proofs.
Open Scope N_scope.
Ltac Zify.zify_post_hook ::= Z.div_mod_to_equations.

(* replace comparisons between numerals by their value *)
Ltac red_consts := repeat match goal with
  | |- context[N.eqb ?a ?c] => let v := eval vm_compute in (N.eqb a c) in
        match v with true => change (N.eqb a c) with true | false => change (N.eqb a c) with false end
  | |- context[N.ltb ?a ?c] => let v := eval vm_compute in (N.ltb a c) in
        match v with true => change (N.ltb a c) with true | false => change (N.ltb a c) with false end
  | |- context[N.leb ?a ?c] => let v := eval vm_compute in (N.leb a c) in
        match v with true => change (N.leb a c) with true | false => change (N.leb a c) with false end
  end.

(* ================= escapeUri ================= *)

Lemma hexval_hexdigit n : n < 16 -> hexval (hexdigit n) = Some n.
Proof. intros H. unfold hexval, hexdigit, in_range. brk; try (f_equal; lia); try lia. Qed.

Lemma hexval_hexdigit_lc n : n < 16 -> hexval (hexdigit_lc n) = Some n.
Proof. intros H. unfold hexval, hexdigit_lc, in_range. brk; try (f_equal; lia); try lia. Qed.

Lemma hexval2_hexdigit c : c < 256 -> hexval2 (hexdigit (c / 16)) (hexdigit (c mod 16)) = Some c.
Proof. intros H. unfold hexval2. rewrite !hexval_hexdigit by lia. f_equal. lia. Qed.

Lemma hexval2_hexdigit_lc c : c < 256 -> hexval2 (hexdigit_lc (c / 16)) (hexdigit_lc (c mod 16)) = Some c.
Proof. intros H. unfold hexval2. rewrite !hexval_hexdigit_lc by lia. f_equal. lia. Qed.

Theorem uri_roundtrip s : Forall (fun c => c < 256) s -> pct_decode (escape_uri s) = Some s.
Proof.
  induction 1 as [|c r Hc Hr IH]; [reflexivity|].
  cbn [escape_uri]. destruct (uri_unreserved c) eqn:Eu.
  - cbn [pct_decode]. unfold uri_unreserved, in_range, mem in Eu. cbn [existsb] in Eu.
    destruct (N.eqb_spec c 37); [lia|]. destruct (N.eqb_spec c 43); [lia|]. rewrite IH. reflexivity.
  - destruct (N.eqb_spec c 32) as [->|Hn].
    + cbn [pct_decode]. red_consts. cbv iota. rewrite IH. reflexivity.
    + cbn [pct_decode]. red_consts. cbv iota. rewrite hexval2_hexdigit by lia. rewrite IH. reflexivity.
Qed.

Lemma hexdigit_safe n : n < 16 -> uri_safe_byte (hexdigit n) = true.
Proof. intros H. unfold uri_safe_byte, hexdigit, in_range, mem. cbn [existsb]. brk; lia. Qed.

Theorem uri_safe_alphabet s : Forall (fun c => c < 256) s -> Forall (fun c => uri_safe_byte c = true) (escape_uri s).
Proof.
  induction 1 as [|c r Hc Hr IH]; [constructor|].
  cbn [escape_uri]. destruct (uri_unreserved c) eqn:Eu.
  - constructor; [|exact IH]. unfold uri_unreserved, uri_safe_byte, in_range, mem in *. cbn [existsb] in *. lia.
  - destruct (N.eqb_spec c 32) as [->|Hn]; repeat constructor; try exact IH; try (apply hexdigit_safe; lia).
Qed.

(* ================= truncate ================= *)

Lemma brs_spec fuel : forall s n, (n < Z.of_nat (length s))%Z -> (n < Z.of_nat fuel)%Z ->
  match back_to_rune_start fuel s n with
  | Ok m => (0 <= m <= n)%Z /\ (exists c, nth_error s (Z.to_nat m) = Some c /\ rune_start c = true)
            /\ (forall i, (Z.to_nat m < i <= Z.to_nat n)%nat -> exists c, nth_error s i = Some c /\ is_cont c = true)
  | Err _ => (n < 0)%Z \/ (forall i, (i <= Z.to_nat n)%nat -> exists c, nth_error s i = Some c /\ is_cont c = true)
  | _ => False
  end.
Proof.
  induction fuel as [|f IH]; intros s n Hlen Hfuel.
  - cbn [back_to_rune_start]. destruct (n <? 0)%Z eqn:E; [left; lia|lia].
  - cbn [back_to_rune_start]. destruct (n <? 0)%Z eqn:E; [left; lia|].
    destruct (nth_error s (Z.to_nat n)) as [c|] eqn:En.
    2:{ apply nth_error_None in En. lia. }
    destruct (rune_start c) eqn:Ers.
    + split; [lia|]. split; [eauto|]. intros i Hi. lia.
    + assert (is_cont c = true) as Hcc by (unfold rune_start in Ers; destruct (is_cont c); [reflexivity|discriminate]).
      specialize (IH s (n - 1)%Z ltac:(lia) ltac:(lia)).
      destruct (back_to_rune_start f s (n - 1)) as [m|m|m| | |]; try exact IH.
      * destruct IH as (Hm & Hc & Hbetween). split; [lia|]. split; [exact Hc|].
        intros i Hi. destruct (Nat.eq_dec i (Z.to_nat n)) as [->|Hne]; [eauto|].
        apply Hbetween. lia.
      * right. intros i Hi. destruct (Nat.eq_dec i (Z.to_nat n)) as [->|Hne]; [eauto|].
        destruct IH as [IH|IH]; [assert (n = 0)%Z by lia; subst n; cbn in *; lia|]. apply IH. lia.
Qed.

(* the limit actually applied and whether the ellipsis is appended *)
Definition trunc_cut (n : Z) (e : bool) : Z := if e && (n >? 3)%Z then (n - 3)%Z else n.
Definition trunc_ell (n : Z) (e : bool) : bool := e && (n >? 3)%Z.

Lemma truncate_unfold s n e : (n < Z.of_nat (length s))%Z ->
  truncate s n e = (m <- back_to_rune_start (length s) s (trunc_cut n e) ;;
                    Ok (take (Z.to_nat m) s ++ (if trunc_ell n e then dots else []))).
Proof.
  intros H. unfold truncate, trunc_cut, trunc_ell.
  destruct (Z.of_nat (length s) <=? n)%Z eqn:E; [lia|].
  destruct e; cbn [andb]; [destruct (n >? 3)%Z|]; reflexivity.
Qed.

Theorem truncate_fits s n e : (Z.of_nat (length s) <= n)%Z -> truncate s n e = Ok s.
Proof. intros H. unfold truncate. destruct (Z.of_nat (length s) <=? n)%Z eqn:E; [reflexivity|lia]. Qed.

Lemma dots_valid : utf8_valid dots = true.
Proof. vm_compute. reflexivity. Qed.

Theorem truncate_cut s n e out : (n < Z.of_nat (length s))%Z -> truncate s n e = Ok out ->
  exists k c,
    out = take k s ++ (if trunc_ell n e then dots else [])
    /\ (Z.of_nat (length out) <= n)%Z /\ (0 <= n)%Z
    /\ nth_error s k = Some c /\ rune_start c = true
    /\ (Z.of_nat k <= trunc_cut n e)%Z
    /\ (forall i, (k < i <= Z.to_nat (trunc_cut n e))%nat -> exists c', nth_error s i = Some c' /\ is_cont c' = true)
    /\ (utf8_valid s = true -> utf8_valid out = true).
Proof.
  intros Hlen Ht. rewrite truncate_unfold in Ht by exact Hlen.
  assert (trunc_cut n e <= n)%Z as Hcn by (unfold trunc_cut; destruct (e && (n >? 3)%Z); lia).
  pose proof (brs_spec (length s) s (trunc_cut n e) ltac:(lia) ltac:(lia)) as Hb.
  destruct (back_to_rune_start (length s) s (trunc_cut n e)) as [m|m|m| | |]; cbn [bind] in Ht; try discriminate.
  injection Ht as <-. destruct Hb as (Hm & (c & Hc & Hrs) & Hbetween).
  exists (Z.to_nat m), c.
  assert (Z.to_nat m <= length s)%nat as Hml by lia.
  split; [reflexivity|]. split.
  { rewrite app_length, take_length by exact Hml. unfold trunc_cut, trunc_ell in *.
    destruct (e && (n >? 3)%Z) eqn:Ee; cbn [length dots]; lia. }
  split.
  { unfold trunc_cut in *. destruct (e && (n >? 3)%Z) eqn:Ee; lia. }
  split; [exact Hc|]. split; [exact Hrs|]. split; [lia|]. split; [exact Hbetween|].
  intros Hv. apply utf8_valid_app.
  - eapply utf8_valid_take; eauto.
  - destruct (trunc_ell n e); [exact dots_valid|reflexivity].
Qed.

(* the result is Ok or Err, never a crash / divergence / fuel exhaustion, and
   Err exactly for a negative limit or when every byte up to the cut is a
   continuation byte (the Go loop runs off the front of the string) *)
Theorem truncate_total s n e : (n < Z.of_nat (length s))%Z ->
  (exists out, truncate s n e = Ok out) \/ (exists m, truncate s n e = Err m).
Proof.
  intros Hlen. rewrite truncate_unfold by exact Hlen.
  assert (trunc_cut n e <= n)%Z as Hcn by (unfold trunc_cut; destruct (e && (n >? 3)%Z); lia).
  pose proof (brs_spec (length s) s (trunc_cut n e) ltac:(lia) ltac:(lia)) as Hb.
  destruct (back_to_rune_start (length s) s (trunc_cut n e)) as [m|m|m| | |]; cbn [bind]; try contradiction; eauto.
Qed.

Theorem truncate_err_when s n e : (n < Z.of_nat (length s))%Z ->
  ((exists m, truncate s n e = Err m) <->
   ((n < 0)%Z \/ forall i, (i <= Z.to_nat (trunc_cut n e))%nat -> exists c, nth_error s i = Some c /\ is_cont c = true)).
Proof.
  intros Hlen. rewrite truncate_unfold by exact Hlen.
  assert (trunc_cut n e <= n)%Z as Hcn by (unfold trunc_cut; destruct (e && (n >? 3)%Z); lia).
  assert (trunc_cut n e < 0 <-> n < 0)%Z as Hneg by (unfold trunc_cut; destruct (e && (n >? 3)%Z) eqn:E; lia).
  pose proof (brs_spec (length s) s (trunc_cut n e) ltac:(lia) ltac:(lia)) as Hb.
  destruct (back_to_rune_start (length s) s (trunc_cut n e)) as [m|m|m| | |]; cbn [bind]; try contradiction.
  - split; [intros [x Hx]; discriminate|].
    destruct Hb as (Hm & (c & Hc & Hrs) & _). intros [Hn|Hall]; [lia|].
    destruct (Hall (Z.to_nat m) ltac:(lia)) as (c' & Hc' & Hcont). rewrite Hc in Hc'. injection Hc' as <-.
    unfold rune_start in Hrs. rewrite Hcont in Hrs. discriminate.
  - split; [intros _|eauto]. destruct Hb as [Hb|Hb]; [left; lia|right; exact Hb].
Qed.

(* ================= changeNewlineToBr / insertWordBreaks ================= *)

Lemma is_prefix_app p X : is_prefix p (p ++ X) = true.
Proof. induction p as [|c p IH]; [destruct X; reflexivity|]. cbn [app is_prefix]. rewrite N.eqb_refl. exact IH. Qed.

Lemma remove_tok_skip tok k pre X : length pre = k -> remove_tok_aux tok k (pre ++ X) = remove_tok_aux tok 0 X.
Proof.
  revert pre; induction k; intros [|c pre] H; cbn in H; try discriminate; [reflexivity|].
  cbn [app remove_tok_aux]. apply IHk. lia.
Qed.

Lemma remove_tok_tok c tk X : remove_tok (c :: tk) ((c :: tk) ++ X) = remove_tok (c :: tk) X.
Proof.
  unfold remove_tok. cbn [app]. cbn [remove_tok_aux]. 
  change (c :: tk ++ X) with ((c :: tk) ++ X). rewrite is_prefix_app.
  cbn [length Nat.pred]. apply remove_tok_skip. reflexivity.
Qed.

Lemma remove_tok_other c tk d X : d <> c -> remove_tok (c :: tk) (d :: X) = d :: remove_tok (c :: tk) X.
Proof.
  intros H. unfold remove_tok. cbn [remove_tok_aux is_prefix].
  destruct (N.eqb_spec c d); [congruence|]. reflexivity.
Qed.

Lemma remove_tok_others c tk e X : Forall (fun d => d <> c) e ->
  remove_tok (c :: tk) (e ++ X) = e ++ remove_tok (c :: tk) X.
Proof.
  induction 1 as [|d e Hd He IH]; [reflexivity|]. cbn [app]. rewrite remove_tok_other by exact Hd. rewrite IH. reflexivity.
Qed.

Lemma remove_tok_nil tok : remove_tok tok [] = [].
Proof. reflexivity. Qed.

(* facts about text/template's replacement table *)
Lemma tmpl_entity_cases c :
  (tmpl_entity c = None /\ c <> 60 /\ c <> 0 /\ c <> 34 /\ c <> 39 /\ c <> 38 /\ c <> 62) \/
  (exists e, tmpl_entity c = Some e /\ Forall (fun d => d <> 60 /\ d <> 10 /\ d <> 13) e /\ c <> 10 /\ c <> 13 /\ e <> []).
Proof.
  unfold tmpl_entity.
  destruct (N.eqb_spec c 0); [right; eexists; split; [reflexivity|]; repeat constructor; try lia; discriminate|].
  destruct (N.eqb_spec c 34); [right; eexists; split; [reflexivity|]; repeat constructor; try lia; discriminate|].
  destruct (N.eqb_spec c 39); [right; eexists; split; [reflexivity|]; repeat constructor; try lia; discriminate|].
  destruct (N.eqb_spec c 38); [right; eexists; split; [reflexivity|]; repeat constructor; try lia; discriminate|].
  destruct (N.eqb_spec c 60); [right; eexists; split; [reflexivity|]; repeat constructor; try lia; discriminate|].
  destruct (N.eqb_spec c 62); [right; eexists; split; [reflexivity|]; repeat constructor; try lia; discriminate|].
  left. repeat split; assumption.
Qed.

Lemma esc1_no_lt c : Forall (fun d => d <> 60) (esc1 c).
Proof.
  unfold esc1. destruct (tmpl_entity_cases c) as [(E & H & _)|(e & E & H & _)]; rewrite E.
  - repeat constructor. exact H.
  - eapply Forall_impl; [|exact H]. cbn. tauto.
Qed.

Lemma tmpl_html_escape_cons c r : tmpl_html_escape (c :: r) = esc1 c ++ tmpl_html_escape r.
Proof. cbn [tmpl_html_escape]. unfold esc1. destruct (tmpl_entity c); reflexivity. Qed.

Lemma tmpl_html_escape_no_lt s : Forall (fun d => d <> 60) (tmpl_html_escape s).
Proof.
  induction s as [|c r IH]; [constructor|]. rewrite tmpl_html_escape_cons.
  apply Forall_app. split; [apply esc1_no_lt|exact IH].
Qed.

Lemma remove_newlines_app_nonl e X : Forall (fun d => d <> 10 /\ d <> 13) e ->
  remove_newlines (e ++ X) = e ++ remove_newlines X.
Proof.
  induction 1 as [|d e [H1 H2] He IH]; [reflexivity|]. cbn [app remove_newlines].
  destruct (N.eqb_spec d 10); [congruence|]. destruct (N.eqb_spec d 13); [congruence|]. cbn [orb]. rewrite IH. reflexivity.
Qed.

Lemma remove_newlines_escape s : remove_newlines (tmpl_html_escape s) = tmpl_html_escape (remove_newlines s).
Proof.
  induction s as [|c r IH]; [reflexivity|].
  cbn [remove_newlines]. destruct (N.eqb_spec c 10) as [->|H10].
  { cbn [orb]. rewrite <- IH. reflexivity. }
  destruct (N.eqb_spec c 13) as [->|H13].
  { cbn [orb]. rewrite <- IH. reflexivity. }
  cbn [orb]. rewrite !tmpl_html_escape_cons. rewrite <- IH.
  apply remove_newlines_app_nonl.
  unfold esc1. destruct (tmpl_entity_cases c) as [(E & _)|(e & E & H & _)]; rewrite E.
  - repeat constructor; assumption.
  - eapply Forall_impl; [|exact H]. cbn. tauto.
Qed.

Lemma nl2br_only_aux n : forall t, (length t <= n)%nat -> Forall (fun d => d <> 60) t ->
  remove_tok br (nl2br t) = remove_newlines t.
Proof.
  induction n as [|n IH]; intros t Hlen Hno.
  - destruct t; [reflexivity|cbn in Hlen; lia].
  - destruct t as [|c r]; [reflexivity|]. cbn [length] in Hlen.
    inversion Hno as [|? ? Hc Hr]; subst.
    cbn [nl2br remove_newlines]. destruct (N.eqb_spec c 13) as [->|H13].
    + red_consts. cbn [orb]. destruct r as [|c2 r2].
      * reflexivity.
      * destruct (N.eqb_spec c2 10) as [->|H10].
        -- unfold br at 1 2. rewrite remove_tok_tok. fold br. rewrite IH; [|cbn [length] in Hlen; lia|inversion Hr; assumption].
           cbn [remove_newlines]. red_consts. reflexivity.
        -- unfold br at 1 2. rewrite remove_tok_tok. fold br. apply IH; [lia|exact Hr].
    + destruct (N.eqb_spec c 10) as [->|H10].
      * cbn [orb]. unfold br at 1 2. rewrite remove_tok_tok. fold br. apply IH; [lia|exact Hr].
      * cbn [orb]. unfold br at 1. rewrite remove_tok_other by exact Hc. fold br. f_equal. apply IH; [lia|exact Hr].
Qed.

Theorem br_only s : remove_tok br (change_newline_to_br s) = tmpl_html_escape (remove_newlines s).
Proof.
  unfold change_newline_to_br. rewrite (nl2br_only_aux (length (tmpl_html_escape s))); [|lia|apply tmpl_html_escape_no_lt].
  apply remove_newlines_escape.
Qed.

(* the converted text contains no CR / LF any more *)
Theorem br_no_newline s : Forall (fun d => d <> 10 /\ d <> 13) (change_newline_to_br s).
Proof.
  unfold change_newline_to_br. generalize (tmpl_html_escape s) as t. intros t.
  remember (length t) as n eqn:Hn. assert (length t <= n)%nat as Hle by lia. clear Hn. revert t Hle.
  induction n as [|n IH]; intros t Hle.
  - destruct t; [constructor|cbn in Hle; lia].
  - destruct t as [|c r]; [constructor|]. cbn [length] in Hle. cbn [nl2br].
    assert (Forall (fun d => d <> 10 /\ d <> 13) br) as Hbr by (repeat constructor; lia).
    destruct (N.eqb_spec c 13) as [->|H13].
    + destruct r as [|c2 r2]; [exact Hbr|].
      destruct (c2 =? 10); apply Forall_app; (split; [exact Hbr|apply IH; cbn [length] in *; lia]).
    + destruct (N.eqb_spec c 10) as [->|H10].
      * apply Forall_app; split; [exact Hbr|apply IH; lia].
      * constructor; [split; assumption|apply IH; lia].
Qed.

Lemma iwb_only_aux maxc s : forall chars skip, remove_tok wbr (iwb_aux maxc chars skip s) = tmpl_html_escape s.
Proof.
  induction s as [|c r IH]; intros chars skip; [reflexivity|].
  rewrite tmpl_html_escape_cons. cbn [iwb_aux].
  destruct skip as [|k].
  - destruct (c =? 32).
    + unfold wbr. rewrite remove_tok_others by apply esc1_no_lt. fold wbr. rewrite IH. reflexivity.
    + destruct (chars >=? maxc)%Z.
      * unfold wbr at 1 2. rewrite remove_tok_tok. rewrite remove_tok_others by apply esc1_no_lt. fold wbr. rewrite IH. reflexivity.
      * unfold wbr. rewrite remove_tok_others by apply esc1_no_lt. fold wbr. rewrite IH. reflexivity.
  - unfold wbr. rewrite remove_tok_others by apply esc1_no_lt. fold wbr. rewrite IH. reflexivity.
Qed.

Theorem wbr_only s n : remove_tok wbr (insert_word_breaks s n) = tmpl_html_escape s.
Proof. apply iwb_only_aux. Qed.

(* no <wbr> inside a character reference: the output is a concatenation of
   units, each either the markup or the whole escaped image of one input byte *)
Definition iwb_unit (u : bstr) : Prop := u = wbr \/ exists c, u = esc1 c.

Lemma iwb_units_aux maxc s : forall chars skip, exists us, Forall iwb_unit us /\ iwb_aux maxc chars skip s = concat_b us
  /\ concat_b (filter (fun u => negb (bstr_eqb u wbr)) us) = tmpl_html_escape s.
Proof.
  induction s as [|c r IH]; intros chars skip; [exists []; repeat split; constructor|].
  assert (forall chars' skip' pre, (pre = [] \/ pre = [wbr]) ->
     exists us, Forall iwb_unit us /\ concat_b pre ++ esc1 c ++ iwb_aux maxc chars' skip' r = concat_b us
       /\ concat_b (filter (fun u => negb (bstr_eqb u wbr)) us) = tmpl_html_escape (c :: r)) as Hstep.
  { intros chars' skip' pre Hpre. destruct (IH chars' skip') as (us & Hus & Heq & Hf).
    assert (negb (bstr_eqb (esc1 c) wbr) = true) as Hne.
    { pose proof (esc1_no_lt c) as Hn. unfold wbr. destruct (esc1 c) as [|d e]; [reflexivity|].
      cbn [bstr_eqb]. inversion Hn; subst. destruct (N.eqb_spec d 60); [congruence|reflexivity]. }
    destruct Hpre as [->| ->].
    - exists (esc1 c :: us). split; [constructor; [right; eauto|exact Hus]|]. cbn [concat_b app filter]. rewrite Hne.
      cbn [concat_b]. rewrite Heq, Hf, tmpl_html_escape_cons. auto.
    - exists (wbr :: esc1 c :: us). split; [constructor; [left; reflexivity|constructor; [right; eauto|exact Hus]]|].
      cbn [concat_b app filter]. rewrite Hne. replace (bstr_eqb wbr wbr) with true by reflexivity. cbn [negb concat_b].
      rewrite Heq, Hf, tmpl_html_escape_cons, app_nil_r. auto. }
  cbn [iwb_aux]. destruct skip as [|k].
  - destruct (c =? 32); [apply (Hstep _ _ []); auto|].
    destruct (chars >=? maxc)%Z; [|apply (Hstep _ _ []); auto].
    destruct (Hstep 1%Z (Nat.pred (rune_width (c :: r))) [wbr]) as (us & H1 & H2 & H3); [auto|].
    exists us. cbn [concat_b] in H2. rewrite app_nil_r in H2. auto.
  - apply (Hstep _ _ []); auto.
Qed.

Theorem wbr_units s n : exists us, Forall iwb_unit us /\ insert_word_breaks s n = concat_b us
  /\ concat_b (filter (fun u => negb (bstr_eqb u wbr)) us) = tmpl_html_escape s.
Proof. apply iwb_units_aux. Qed.

(* ================= shared: tokens, code units ================= *)

Lemma hexval4_hex4 r : r < 65536 ->
  hexval4 (hexdigit ((r / 4096) mod 16)) (hexdigit ((r / 256) mod 16)) (hexdigit ((r / 16) mod 16)) (hexdigit (r mod 16)) = Some r.
Proof.
  intros H. unfold hexval4, hexval2. rewrite !hexval_hexdigit by lia. f_equal. lia.
Qed.

Lemma emit_unit_scalar v : valid_scalar v -> emit_tok None (TUnit v) = (encode_rune v, None).
Proof.
  intros Hv. unfold valid_scalar in Hv. unfold emit_tok, is_high, in_range.
  destruct ((55296 <=? v) && (v <=? 56319)) eqn:E; [lia|reflexivity].
Qed.

Lemma encode_rune_ascii c : c < 128 -> encode_rune c = [c].
Proof. intros H. unfold encode_rune. destruct (c <? 128) eqn:E; [reflexivity|lia]. Qed.

Lemma valid_scalar_small c : c < 55296 -> valid_scalar c.
Proof. intros; left; assumption. Qed.

Lemma runes_skip k pre X : length pre = k -> runes_aux k (pre ++ X) = runes_aux 0 X.
Proof.
  revert pre; induction k; intros [|c pre] H; cbn in H; try discriminate; [reflexivity|].
  cbn [app runes_aux]. apply IHk. lia.
Qed.

Lemma runes_rune r X : valid_scalar r -> runes (encode_rune r ++ X) = r :: runes X.
Proof.
  intros Hv. pose proof (decode_encode r X Hv) as Hd.
  destruct (encode_rune_shape r Hv) as (c0 & tl & E & _).
  unfold runes. rewrite E in *. cbn [app runes_aux]. cbn [app] in Hd. rewrite Hd.
  cbn [length Nat.pred]. f_equal. apply runes_skip. reflexivity.
Qed.

(* a three-byte encoding that starts with E2: the only place U+2028/U+2029 can hide *)
Lemma enc_226 r tl : valid_scalar r -> encode_rune r = 226 :: tl ->
  exists b1 b2, tl = [b1; b2] /\ ((b1 = 128 /\ (b2 = 168 \/ b2 = 169)) -> (r = 8232 \/ r = 8233)).
Proof.
  intros Hv. unfold valid_scalar in Hv. unfold encode_rune, in_range.
  brk1; [|brk1; [|brk1; [lia|brk1]]]; intros H; injection H as H0 Htl; try lia.
  subst tl. eexists; eexists; split; [reflexivity|]. intros [H1 H2]. lia.
Qed.

(* ================= escapeJsString ================= *)

Section JsStr.
  Variable is_print : N -> bool.
  (* U+2028 / U+2029 are line terminators in a JavaScript literal; Go's
     unicode.IsPrint rejects both (checked on the generated table in C16.v) *)
  Hypothesis is_print_ls : is_print 8232 = false.
  Hypothesis is_print_ps : is_print 8233 = false.
  Variable q : N.
  Hypothesis Hq : q = 39 \/ q = 34.

  Lemma js_escape_skip k pre X : length pre = k -> js_escape_aux is_print k (pre ++ X) = js_escape_aux is_print 0 X.
  Proof.
    revert pre; induction k; intros [|c pre] H; cbn in H; try discriminate; [reflexivity|].
    cbn [app js_escape_aux]. apply IHk. lia.
  Qed.

  Lemma js_read_skip k hi pre X : length pre = k -> js_read_aux q k hi (pre ++ X) = js_read_aux q 0 hi X.
  Proof.
    revert pre; induction k; intros [|c pre] H; cbn in H; try discriminate; [reflexivity|].
    cbn [app js_read_aux]. apply IHk. lia.
  Qed.

  Lemma js_read_step hi t c p X out hi' :
    js_tok q (c :: p ++ X) = Some (t, S (length p)) -> emit_tok hi t = (out, hi') ->
    js_read_aux q 0 hi (c :: p ++ X) = option_map (app out) (js_read_aux q 0 hi' X).
  Proof.
    intros Ht He. cbn [js_read_aux]. rewrite Ht, He. cbn [Nat.pred]. f_equal. apply js_read_skip. reflexivity.
  Qed.

  Lemma js_read_step1 hi t c X out hi' :
    js_tok q (c :: X) = Some (t, 1%nat) -> emit_tok hi t = (out, hi') ->
    js_read_aux q 0 hi (c :: X) = option_map (app out) (js_read_aux q 0 hi' X).
  Proof. intros Ht He. exact (js_read_step hi t c [] X out hi' Ht He). Qed.

  Lemma q_cases : q <> 92 /\ q <> 10 /\ q <> 13 /\ q < 128.
  Proof. destruct Hq as [-> | ->]; repeat split; lia. Qed.

  Lemma js_tok_u h1 h2 h3 h4 v Y : hexval4 h1 h2 h3 h4 = Some v ->
    js_tok q (92 :: 117 :: h1 :: h2 :: h3 :: h4 :: Y) = Some (TUnit v, 6%nat).
  Proof.
    intros H. destruct q_cases as (H92 & _). cbn [js_tok]. destruct (N.eqb_spec 92 q); [congruence|].
    red_consts. cbn [orb]. cbv iota. rewrite H. reflexivity.
  Qed.

  Lemma js_tok_raw c Y : c <> q -> c <> 10 -> c <> 13 -> c <> 226 -> c <> 92 -> js_tok q (c :: Y) = Some (TByte c, 1%nat).
  Proof.
    intros. cbn [js_tok]. destruct (N.eqb_spec c q); [congruence|]. destruct (N.eqb_spec c 10); [congruence|].
    destruct (N.eqb_spec c 13); [congruence|]. destruct (N.eqb_spec c 226); [congruence|]. destruct (N.eqb_spec c 92); [congruence|].
    reflexivity.
  Qed.

  Lemma js_read_unit_u h1 h2 h3 h4 v Y : hexval4 h1 h2 h3 h4 = Some v -> valid_scalar v ->
    js_read_aux q 0 None ([92; 117; h1; h2; h3; h4] ++ Y) = option_map (app (encode_rune v)) (js_read_aux q 0 None Y).
  Proof.
    intros H Hv. cbn [app].
    apply (js_read_step None (TUnit v) 92 [117; h1; h2; h3; h4] Y (encode_rune v) None).
    - cbn [app length]. apply js_tok_u. exact H.
    - apply emit_unit_scalar. exact Hv.
  Qed.

  Definition js_piece_ascii (c : N) : bstr := match js_ascii_escape c with Some e => e | None => [c] end.

  Lemma js_read_ascii c Y : c < 128 ->
    js_read_aux q 0 None (js_piece_ascii c ++ Y) = option_map (app [c]) (js_read_aux q 0 None Y).
  Proof.
    intros Hc. unfold js_piece_ascii, js_ascii_escape.
    assert (forall e, (e = 92 \/ e = 39 \/ e = 34) ->
       js_read_aux q 0 None ([92; e] ++ Y) = option_map (app [e]) (js_read_aux q 0 None Y)) as Hsingle.
    { intros e He. cbn [app]. apply (js_read_step None (TUnit e) 92 [e] Y [e] None).
      - destruct Hq as [-> | ->]; destruct He as [-> | [-> | ->]]; reflexivity.
      - destruct He as [-> | [-> | ->]]; reflexivity. }
    destruct (N.eqb_spec c 92) as [->|H92]; [apply Hsingle; auto|].
    destruct (N.eqb_spec c 39) as [->|H39]; [apply Hsingle; auto|].
    destruct (N.eqb_spec c 34) as [->|H34]; [apply Hsingle; auto|].
    destruct (N.eqb_spec c 60) as [->|H60]; [apply (js_read_unit_u 48 48 51 67 60); [reflexivity|left; lia]|].
    destruct (N.eqb_spec c 62) as [->|H62]; [apply (js_read_unit_u 48 48 51 69 62); [reflexivity|left; lia]|].
    destruct (N.eqb_spec c 38) as [->|H38]; [apply (js_read_unit_u 48 48 50 54 38); [reflexivity|left; lia]|].
    destruct (N.eqb_spec c 61) as [->|H61]; [apply (js_read_unit_u 48 48 51 68 61); [reflexivity|left; lia]|].
    destruct (c <? 32) eqn:E32.
    - rewrite <- (encode_rune_ascii c Hc). apply js_read_unit_u; [|left; lia].
      unfold hexval4. change (hexval2 48 48) with (Some 0). rewrite hexval2_hexdigit by lia. f_equal.
    - cbn [app]. apply (js_read_step1 None (TByte c) c Y [c] None); [|reflexivity].
      apply js_tok_raw; destruct Hq as [-> | ->]; lia.
  Qed.

  Lemma js_read_conts tl Y : Forall (fun c => is_cont c = true) tl ->
    js_read_aux q 0 None (tl ++ Y) = option_map (app tl) (js_read_aux q 0 None Y).
  Proof.
    induction 1 as [|c tl Hc Htl IH]; [cbn [app]; destruct (js_read_aux q 0 None Y); reflexivity|].
    cbn [app]. unfold is_cont, in_range in Hc.
    rewrite (js_read_step1 None (TByte c) c (tl ++ Y) [c] None); [|apply js_tok_raw; destruct Hq as [-> | ->]; lia|reflexivity].
    rewrite IH. destruct (js_read_aux q 0 None Y); reflexivity.
  Qed.

  Definition js_piece (r : N) : bstr :=
    if r <? 128 then js_piece_ascii r
    else if is_print r then encode_rune r else 92 :: 117 :: fmt_04X r.

  Lemma js_read_piece r Y : valid_scalar r -> (r < 65536 \/ is_print r = true) ->
    js_read_aux q 0 None (js_piece r ++ Y) = option_map (app (encode_rune r)) (js_read_aux q 0 None Y).
  Proof.
    intros Hv Hg. unfold js_piece. destruct (r <? 128) eqn:E128.
    { rewrite encode_rune_ascii by lia. apply js_read_ascii. lia. }
    destruct (is_print r) eqn:Ep.
    - destruct (encode_rune_shape r Hv) as (c0 & tl & E & Hs0 & Htl & _ & Hlow & _ & H256 & _).
      rewrite E. cbn [app]. unfold rune_start, is_cont, in_range in Hs0.
      assert (128 <= c0) as Hc0 by (destruct (N.lt_ge_cases c0 128) as [Hl|Hl]; [apply Hlow in Hl; lia|exact Hl]).
      assert (js_tok q (c0 :: tl ++ Y) = Some (TByte c0, 1%nat)) as Htok.
      { destruct (N.eq_dec c0 226) as [->|Hn226].
        - destruct (enc_226 r tl Hv E) as (b1 & b2 & -> & Hls).
          cbn [app js_tok]. destruct (N.eqb_spec 226 q); [destruct Hq; lia|]. red_consts. cbn [orb]. cbv iota.
          destruct ((b1 =? 128) && ((b2 =? 168) || (b2 =? 169))) eqn:Eb; [|reflexivity].
          exfalso. assert (r = 8232 \/ r = 8233) as [-> | ->] by (apply Hls; lia); congruence.
        - apply js_tok_raw; destruct Hq as [-> | ->]; lia. }
      rewrite (js_read_step1 None (TByte c0) c0 (tl ++ Y) [c0] None); [|exact Htok|reflexivity].
      rewrite js_read_conts by exact Htl. destruct (js_read_aux q 0 None Y); reflexivity.
    - destruct Hg as [Hg|Hg]; [|congruence].
      unfold fmt_04X. destruct (r <? 65536) eqn:E16; [|lia].
      unfold hex4. apply js_read_unit_u; [apply hexval4_hex4; exact Hg|exact Hv].
  Qed.

  Lemma js_escape_rune r X : valid_scalar r ->
    js_escape_aux is_print 0 (encode_rune r ++ X) = js_piece r ++ js_escape_aux is_print 0 X.
  Proof.
    intros Hv. unfold js_piece. destruct (r <? 128) eqn:E128.
    - rewrite encode_rune_ascii by lia. cbn [app js_escape_aux]. rewrite E128. unfold js_piece_ascii.
      destruct (js_ascii_escape r); reflexivity.
    - pose proof (decode_encode r X Hv) as Hd.
      destruct (encode_rune_shape r Hv) as (c0 & tl & E & _ & _ & _ & Hlow & _).
      assert ((c0 <? 128) = false) as Ec0 by (destruct (c0 <? 128) eqn:El; [|reflexivity]; assert (c0 < 128) as Hl by lia; apply Hlow in Hl; lia).
      rewrite E in *. cbn [app js_escape_aux]. rewrite Ec0. unfold js_rune_piece, rune_width. cbn [app] in Hd. rewrite Hd.
      cbn [snd length Nat.pred]. rewrite js_escape_skip by reflexivity.
      destruct (is_print r); [|reflexivity].
      change (c0 :: tl ++ X) with ((c0 :: tl) ++ X). change (S (length tl)) with (length (c0 :: tl)).
      rewrite take_app_length. reflexivity.
  Qed.

  Theorem jsstr_roundtrip_q s : utf8_valid s = true ->
    Forall (fun r => r < 65536 \/ is_print r = true) (runes s) ->
    js_read_literal_q q (js_escape is_print s) = Some s.
  Proof.
    unfold js_read_literal_q, js_escape. revert s.
    apply (utf8_valid_ind (fun s => Forall (fun r => r < 65536 \/ is_print r = true) (runes s) ->
                                    js_read_aux q 0 None (js_escape_aux is_print 0 s) = Some s)).
    - intros _. reflexivity.
    - intros r X Hv HX IH Hg. rewrite runes_rune in Hg by exact Hv. inversion Hg as [|? ? Hg1 Hg2]; subst.
      rewrite js_escape_rune by exact Hv. rewrite js_read_piece by assumption. rewrite IH by exact Hg2. reflexivity.
  Qed.
End JsStr.

(* the escaped text contains no line feed, carriage return, angle bracket,
   ampersand or equals sign, for EVERY byte string (valid UTF-8 or not) *)
Definition js_inert (c : N) : Prop := c <> 10 /\ c <> 13 /\ c <> 60 /\ c <> 62 /\ c <> 38 /\ c <> 61.

Lemma hexdigit_inert n : n < 16 -> js_inert (hexdigit n).
Proof. intros H. unfold js_inert, hexdigit. brk; lia. Qed.

Lemma decode_rune_take_high s r w : decode_rune s = (r, w) -> (exists c r0, s = c :: r0 /\ 128 <= c) ->
  Forall (fun c => 128 <= c) (take w s).
Proof.
  intros Hd (c & r0 & -> & Hc).
  destruct (N.eq_dec r rune_error) as [Hr|Hr]; [destruct (Nat.eq_dec w 1) as [Hw|Hw]|].
  - subst w. cbn [take]. repeat constructor. exact Hc.
  - destruct (decode_rune_inv (c :: r0) r w ltac:(discriminate) Hd ltac:(tauto)) as (Hv & Hlen & Hs).
    destruct (encode_rune_shape r Hv) as (c0 & tl & E & _ & Htl & _).
    rewrite Hs, <- Hlen, take_app_length. rewrite E in Hs. cbn [app] in Hs. injection Hs as <- _.
    rewrite E. constructor; [exact Hc|]. eapply Forall_impl; [|exact Htl]. cbn. unfold is_cont, in_range. intros; lia.
  - destruct (decode_rune_inv (c :: r0) r w ltac:(discriminate) Hd ltac:(tauto)) as (Hv & Hlen & Hs).
    destruct (encode_rune_shape r Hv) as (c0 & tl & E & _ & Htl & _).
    rewrite Hs, <- Hlen, take_app_length. rewrite E in Hs. cbn [app] in Hs. injection Hs as <- _.
    rewrite E. constructor; [exact Hc|]. eapply Forall_impl; [|exact Htl]. cbn. unfold is_cont, in_range. intros; lia.
Qed.

Theorem js_escape_inert is_print s : Forall js_inert (js_escape is_print s).
Proof.
  unfold js_escape. generalize 0%nat as k. induction s as [|c r IH]; intros k; [constructor|].
  cbn [js_escape_aux]. destruct k as [|k]; [|apply IH].
  destruct (c <? 128) eqn:E128.
  - unfold js_ascii_escape.
    repeat match goal with |- context[N.eqb c ?k] => destruct (N.eqb_spec c k); [subst c; cbn [app]; repeat constructor; try lia; apply IH|] end.
    destruct (c <? 32) eqn:E32.
    + cbn [app]. repeat constructor; try lia; try (apply hexdigit_inert; lia). apply IH.
    + constructor; [unfold js_inert; lia|apply IH].
  - apply Forall_app. split; [|apply IH].
    unfold js_rune_piece. destruct (decode_rune (c :: r)) as [ru w] eqn:Hd.
    destruct (is_print ru).
    + eapply Forall_impl; [|eapply decode_rune_take_high; [exact Hd|exists c, r; split; [reflexivity|lia]]].
      cbn. unfold js_inert. intros; lia.
    + unfold fmt_04X, hex4. brk; repeat constructor; try lia; apply hexdigit_inert; lia.
Qed.

(* ================= json (of a string value) ================= *)

Lemma json_string_skip k pre X : length pre = k -> json_string_aux k (pre ++ X) = json_string_aux 0 X.
Proof.
  revert pre; induction k; intros [|c pre] H; cbn in H; try discriminate; [reflexivity|].
  cbn [app json_string_aux]. apply IHk. lia.
Qed.

Lemma json_read_skip k hi pre X : length pre = k -> json_read_aux k hi (pre ++ X) = json_read_aux 0 hi X.
Proof.
  revert pre; induction k; intros [|c pre] H; cbn in H; try discriminate; [reflexivity|].
  cbn [app json_read_aux]. apply IHk. lia.
Qed.

Lemma json_read_step hi t c p X out hi' : c <> 34 ->
  json_tok (c :: p ++ X) = Some (t, S (length p)) -> emit_tok hi t = (out, hi') ->
  json_read_aux 0 hi (c :: p ++ X) = option_map (app out) (json_read_aux 0 hi' X).
Proof.
  intros Hc Ht He. cbn [json_read_aux]. destruct (N.eqb_spec c 34); [congruence|].
  rewrite Ht, He. cbn [Nat.pred]. f_equal. apply json_read_skip. reflexivity.
Qed.

Lemma json_read_step1 hi t c X out hi' : c <> 34 ->
  json_tok (c :: X) = Some (t, 1%nat) -> emit_tok hi t = (out, hi') ->
  json_read_aux 0 hi (c :: X) = option_map (app out) (json_read_aux 0 hi' X).
Proof. intros Hc Ht He. exact (json_read_step hi t c [] X out hi' Hc Ht He). Qed.

Lemma json_tok_raw c Y : 32 <= c -> c <> 92 -> json_tok (c :: Y) = Some (TByte c, 1%nat).
Proof.
  intros H1 H2. cbn [json_tok]. destruct (c <? 32) eqn:E; [lia|]. destruct (N.eqb_spec c 92); [congruence|]. reflexivity.
Qed.

Lemma json_read_unit_u h1 h2 h3 h4 v Y : hexval4 h1 h2 h3 h4 = Some v -> valid_scalar v ->
  json_read_aux 0 None ([92; 117; h1; h2; h3; h4] ++ Y) = option_map (app (encode_rune v)) (json_read_aux 0 None Y).
Proof.
  intros H Hv. cbn [app].
  apply (json_read_step None (TUnit v) 92 [117; h1; h2; h3; h4] Y (encode_rune v) None); [lia| |apply emit_unit_scalar; exact Hv].
  cbn [app length json_tok]. red_consts. cbv iota. rewrite H. reflexivity.
Qed.

Lemma json_read_single e v Y : json_single_escape e = Some v -> e <> 117 -> v < 128 ->
  json_read_aux 0 None ([92; e] ++ Y) = option_map (app [v]) (json_read_aux 0 None Y).
Proof.
  intros He Hu Hv. cbn [app].
  apply (json_read_step None (TUnit v) 92 [e] Y [v] None); [lia| |].
  - cbn [app length json_tok]. red_consts. cbv iota. destruct (N.eqb_spec e 117); [congruence|]. rewrite He. reflexivity.
  - rewrite emit_unit_scalar by (left; lia). rewrite encode_rune_ascii by exact Hv. reflexivity.
Qed.

Definition json_piece_ascii (c : N) : bstr := match json_ascii_escape c with Some e => e | None => [c] end.

Lemma json_read_ascii c Y : c < 128 ->
  json_read_aux 0 None (json_piece_ascii c ++ Y) = option_map (app [c]) (json_read_aux 0 None Y).
Proof.
  intros Hc. unfold json_piece_ascii, json_ascii_escape.
  destruct (N.eqb_spec c 92) as [->|H92]; [cbn [orb]; apply json_read_single; [reflexivity|lia|lia]|].
  destruct (N.eqb_spec c 34) as [->|H34]; [cbn [orb]; apply json_read_single; [reflexivity|lia|lia]|].
  cbn [orb].
  destruct (N.eqb_spec c 8) as [->|H8]; [apply json_read_single; [reflexivity|lia|lia]|].
  destruct (N.eqb_spec c 12) as [->|H12]; [apply json_read_single; [reflexivity|lia|lia]|].
  destruct (N.eqb_spec c 10) as [->|H10]; [apply json_read_single; [reflexivity|lia|lia]|].
  destruct (N.eqb_spec c 13) as [->|H13]; [apply json_read_single; [reflexivity|lia|lia]|].
  destruct (N.eqb_spec c 9) as [->|H9]; [apply json_read_single; [reflexivity|lia|lia]|].
  destruct ((c <? 32) || (c =? 60) || (c =? 62) || (c =? 38)) eqn:E.
  - rewrite <- (encode_rune_ascii c Hc). apply json_read_unit_u; [|left; lia].
    unfold hexval4. change (hexval2 48 48) with (Some 0). rewrite hexval2_hexdigit_lc by lia. f_equal.
  - cbn [app]. apply (json_read_step1 None (TByte c) c Y [c] None); [exact H34| |reflexivity].
    apply json_tok_raw; lia.
Qed.

Lemma json_read_conts tl Y : Forall (fun c => is_cont c = true) tl ->
  json_read_aux 0 None (tl ++ Y) = option_map (app tl) (json_read_aux 0 None Y).
Proof.
  induction 1 as [|c tl Hc Htl IH]; [cbn [app]; destruct (json_read_aux 0 None Y); reflexivity|].
  cbn [app]. unfold is_cont, in_range in Hc.
  rewrite (json_read_step1 None (TByte c) c (tl ++ Y) [c] None); [|lia|apply json_tok_raw; lia|reflexivity].
  rewrite IH. destruct (json_read_aux 0 None Y); reflexivity.
Qed.

Definition json_piece (r : N) : bstr :=
  if r <? 128 then json_piece_ascii r
  else if (r =? 8232) || (r =? 8233) then [92; 117; 50; 48; 50; hexdigit_lc (r mod 16)]
  else encode_rune r.

Lemma json_read_piece r Y : valid_scalar r ->
  json_read_aux 0 None (json_piece r ++ Y) = option_map (app (encode_rune r)) (json_read_aux 0 None Y).
Proof.
  intros Hv. unfold json_piece. destruct (r <? 128) eqn:E128.
  { rewrite encode_rune_ascii by lia. apply json_read_ascii. lia. }
  destruct (N.eqb_spec r 8232) as [->|H1]; [cbn [orb]; apply json_read_unit_u; [reflexivity|exact Hv]|].
  destruct (N.eqb_spec r 8233) as [->|H2]; [cbn [orb]; apply json_read_unit_u; [reflexivity|exact Hv]|].
  cbn [orb].
  destruct (encode_rune_shape r Hv) as (c0 & tl & E & Hs0 & Htl & _ & Hlow & _ & H256 & _).
  rewrite E. cbn [app]. unfold rune_start, is_cont, in_range in Hs0.
  assert (128 <= c0) as Hc0 by (destruct (N.lt_ge_cases c0 128) as [Hl|Hl]; [apply Hlow in Hl; lia|exact Hl]).
  rewrite (json_read_step1 None (TByte c0) c0 (tl ++ Y) [c0] None); [|lia|apply json_tok_raw; lia|reflexivity].
  rewrite json_read_conts by exact Htl. destruct (json_read_aux 0 None Y); reflexivity.
Qed.

Lemma json_string_rune r X : valid_scalar r ->
  json_string_aux 0 (encode_rune r ++ X) = json_piece r ++ json_string_aux 0 X.
Proof.
  intros Hv. unfold json_piece. destruct (r <? 128) eqn:E128.
  - rewrite encode_rune_ascii by lia. cbn [app json_string_aux]. rewrite E128. unfold json_piece_ascii.
    destruct (json_ascii_escape r); reflexivity.
  - pose proof (decode_encode r X Hv) as Hd.
    destruct (encode_rune_shape r Hv) as (c0 & tl & E & _ & _ & _ & Hlow & _).
    assert ((c0 <? 128) = false) as Ec0 by (destruct (c0 <? 128) eqn:El; [|reflexivity]; assert (c0 < 128) as Hl by lia; apply Hlow in Hl; lia).
    pose proof (encode_not_bad r Hv) as Hnb.
    rewrite E in *. cbn [app json_string_aux]. rewrite Ec0. cbn [app] in Hd. rewrite Hd.
    cbn [length] in *.
    destruct ((r =? rune_error) && Nat.eqb (S (length tl)) 1) eqn:Eb.
    { exfalso. apply andb_true_iff in Eb. destruct Eb as [E1 E2]. apply N.eqb_eq in E1. apply Nat.eqb_eq in E2. tauto. }
    cbn [Nat.pred]. rewrite json_string_skip by reflexivity.
    destruct ((r =? 8232) || (r =? 8233)); [reflexivity|].
    change (c0 :: tl ++ X) with ((c0 :: tl) ++ X). change (S (length tl)) with (length (c0 :: tl)).
    rewrite take_app_length. reflexivity.
Qed.

Theorem json_string_roundtrip s : utf8_valid s = true -> json_parse_string (json_string s) = Some s.
Proof.
  unfold json_parse_string, json_string. red_consts. cbv iota. revert s.
  apply (utf8_valid_ind (fun s => json_read_aux 0 None (json_string_aux 0 s ++ [34]) = Some s)).
  - reflexivity.
  - intros r X Hv HX IH. rewrite json_string_rune by exact Hv. rewrite <- app_assoc.
    rewrite json_read_piece by exact Hv. rewrite IH. reflexivity.
Qed.

(* json output of a string never contains a raw angle bracket or ampersand
   (escapeHTML), whatever the bytes *)
Definition html_inert (c : N) : Prop := c <> 60 /\ c <> 62 /\ c <> 38.

Lemma hexdigit_lc_inert n : n < 16 -> html_inert (hexdigit_lc n).
Proof. intros H. unfold html_inert, hexdigit_lc. brk; lia. Qed.

Theorem json_string_inert s : Forall html_inert (json_string s).
Proof.
  unfold json_string. constructor; [unfold html_inert; lia|].
  apply Forall_app. split; [|repeat constructor; lia].
  generalize 0%nat as k. induction s as [|c r IH]; intros k; [constructor|].
  cbn [json_string_aux]. destruct k as [|k]; [|apply IH].
  destruct (c <? 128) eqn:E128.
  - unfold json_ascii_escape.
    destruct (N.eqb_spec c 92) as [->|?]; [cbn [orb app]; repeat constructor; try lia; apply IH|].
    destruct (N.eqb_spec c 34) as [->|?]; [cbn [orb app]; repeat constructor; try lia; apply IH|].
    cbn [orb].
    repeat match goal with |- context[if N.eqb c ?k then _ else _] => destruct (N.eqb_spec c k); [subst c; cbn [app]; repeat constructor; try lia; apply IH|] end.
    destruct ((c <? 32) || (c =? 60) || (c =? 62) || (c =? 38)) eqn:E.
    + cbn [app]. repeat constructor; try lia; try (apply hexdigit_lc_inert; lia). apply IH.
    + constructor; [unfold html_inert; lia|apply IH].
  - destruct (decode_rune (c :: r)) as [ru w] eqn:Hd.
    destruct ((ru =? rune_error) && Nat.eqb w 1).
    { unfold json_fffd. cbn [app]. repeat constructor; try lia. apply IH. }
    destruct ((ru =? 8232) || (ru =? 8233)).
    { cbn [app]. repeat constructor; try lia; try (apply hexdigit_lc_inert; lia). apply IH. }
    apply Forall_app. split; [|apply IH].
    eapply Forall_impl; [|eapply decode_rune_take_high; [exact Hd|exists c, r; split; [reflexivity|lia]]].
    cbn. unfold html_inert. intros; lia.
Qed.

(* ================= chains ================= *)

(* whatever produced the bytes, escapeUri of them decodes back to them *)
Theorem chain_any_uri (f : bstr -> bstr) s : Forall (fun c => c < 256) (f s) -> pct_decode (escape_uri (f s)) = Some (f s).
Proof. apply uri_roundtrip. Qed.

Theorem chain_truncate_json s n e out : utf8_valid s = true -> truncate s n e = Ok out ->
  json_parse_string (json_string out) = Some out.
Proof.
  intros Hv Ht. apply json_string_roundtrip.
  destruct (Z.leb_spec (Z.of_nat (length s)) n) as [Hfit|Hcut].
  - rewrite truncate_fits in Ht by exact Hfit. injection Ht as <-. exact Hv.
  - destruct (truncate_cut s n e out Hcut Ht) as (k & c & _ & _ & _ & _ & _ & _ & _ & Hvalid). auto.
Qed.

(* runes of a valid string, rune by rune *)
Lemma runes_app a c : utf8_valid a = true -> runes (a ++ c) = runes a ++ runes c.
Proof.
  intros Ha. revert a Ha. apply (utf8_valid_ind (fun a => runes (a ++ c) = runes a ++ runes c)); [reflexivity|].
  intros r X Hr HX IH. rewrite <- app_assoc. rewrite !runes_rune by exact Hr. rewrite IH. reflexivity.
Qed.

Lemma runes_take s : utf8_valid s = true ->
  forall k c, nth_error s k = Some c -> rune_start c = true -> forall r, In r (runes (take k s)) -> In r (runes s).
Proof.
  revert s. apply (utf8_valid_ind (fun s => forall k c, nth_error s k = Some c -> rune_start c = true ->
                                            forall r, In r (runes (take k s)) -> In r (runes s))).
  - intros k c H. destruct k; discriminate.
  - intros r X Hr HX IH k c Hn Hc r' Hin.
    destruct (encode_rune_shape r Hr) as (c0 & tl & E & Hs0 & Htl & _).
    rewrite runes_rune by exact Hr.
    destruct (Nat.lt_ge_cases k (length (encode_rune r))) as [Hlt|Hge].
    + destruct k as [|k]; [destruct Hin|]. exfalso.
      rewrite E in Hn, Hlt. cbn [app nth_error length] in Hn, Hlt.
      rewrite nth_error_app1 in Hn by lia.
      apply nth_error_In in Hn. rewrite Forall_forall in Htl. specialize (Htl c Hn).
      unfold rune_start in Hc. rewrite Htl in Hc. discriminate.
    + rewrite take_app_ge in Hin by exact Hge. rewrite runes_rune in Hin by exact Hr.
      destruct Hin as [<-|Hin]; [left; reflexivity|right].
      rewrite nth_error_app2 in Hn by exact Hge. eapply IH; eauto.
Qed.

Section ChainJs.
  Variable is_print : N -> bool.
  Hypothesis is_print_ls : is_print 8232 = false.
  Hypothesis is_print_ps : is_print 8233 = false.
  Variable q : N.
  Hypothesis Hq : q = 39 \/ q = 34.

  Theorem chain_truncate_jsstr s n e out : utf8_valid s = true ->
    Forall (fun r => r < 65536 \/ is_print r = true) (runes s) ->
    truncate s n e = Ok out ->
    js_read_literal_q q (js_escape is_print out) = Some out.
  Proof.
    intros Hv Hg Ht.
    destruct (Z.leb_spec (Z.of_nat (length s)) n) as [Hfit|Hcut].
    - rewrite truncate_fits in Ht by exact Hfit. injection Ht as <-. apply jsstr_roundtrip_q; assumption.
    - destruct (truncate_cut s n e out Hcut Ht) as (k & c & -> & _ & _ & Hn & Hrs & _ & _ & Hvalid).
      apply jsstr_roundtrip_q; auto.
      assert (utf8_valid (take k s) = true) as Hvk by (eapply utf8_valid_take; eauto).
      rewrite runes_app by exact Hvk. apply Forall_app. split.
      + rewrite Forall_forall in *. intros r Hr. apply Hg. eapply runes_take; eauto.
      + destruct (trunc_ell n e); [repeat constructor; lia|constructor].
  Qed.
End ChainJs.

(* escapeHtml keeps valid UTF-8 valid, so it can be followed by json *)
Lemma tmpl_html_escape_high pre X : Forall (fun c => 128 <= c) pre -> tmpl_html_escape (pre ++ X) = pre ++ tmpl_html_escape X.
Proof.
  induction 1 as [|c pre Hc Hpre IH]; [reflexivity|]. cbn [app tmpl_html_escape].
  destruct (tmpl_entity_cases c) as [(E & _)|(e & E & _)].
  - rewrite E, IH. reflexivity.
  - exfalso. unfold tmpl_entity in E.
    repeat match type of E with (if N.eqb c ?k then _ else _) = _ => destruct (N.eqb_spec c k); [lia|] end. discriminate.
Qed.

Lemma esc1_valid c : c < 128 -> utf8_valid (esc1 c) = true.
Proof.
  intros Hc. unfold esc1, tmpl_entity.
  repeat match goal with |- context[if N.eqb c ?k then _ else _] => destruct (N.eqb_spec c k); [reflexivity|] end.
  unfold utf8_valid. cbn [utf8_valid_aux decode_rune]. destruct (c <? 128) eqn:E; [|lia].
  destruct ((c =? rune_error) && Nat.eqb 1 1) eqn:Eb; [unfold rune_error in Eb; lia|reflexivity].
Qed.

Theorem tmpl_html_escape_valid s : utf8_valid s = true -> utf8_valid (tmpl_html_escape s) = true.
Proof.
  revert s. apply (utf8_valid_ind (fun s => utf8_valid (tmpl_html_escape s) = true)); [reflexivity|].
  intros r X Hr HX IH. destruct (N.lt_ge_cases r 128) as [Hl|Hg].
  - rewrite encode_rune_ascii by exact Hl. cbn [app]. rewrite tmpl_html_escape_cons.
    apply utf8_valid_app; [apply esc1_valid; exact Hl|exact IH].
  - destruct (encode_rune_shape r Hr) as (c0 & tl & E & Hs0 & Htl & _ & Hlow & _).
    rewrite tmpl_html_escape_high.
    + rewrite utf8_valid_rune by exact Hr. exact IH.
    + rewrite E. constructor.
      * destruct (N.lt_ge_cases c0 128) as [Hl|Hl]; [apply Hlow in Hl; lia|exact Hl].
      * eapply Forall_impl; [|exact Htl]. cbn. unfold is_cont, in_range. intros; lia.
Qed.

Theorem chain_escapehtml_json s : utf8_valid s = true ->
  json_parse_string (json_string (tmpl_html_escape s)) = Some (tmpl_html_escape s).
Proof. intros H. apply json_string_roundtrip, tmpl_html_escape_valid, H. Qed.

(* truncate after an HTML-producing directive may cut the directive's own
   markup or a character reference: no composition statement holds there
   (C03 treats that case); truncate BEFORE them composes: *)
Theorem chain_truncate_wbr s n e out k : truncate s n e = Ok out ->
  remove_tok wbr (insert_word_breaks out k) = tmpl_html_escape out.
Proof. intros _. apply wbr_only. Qed.

Theorem chain_truncate_br s n e out : truncate s n e = Ok out ->
  remove_tok br (change_newline_to_br out) = tmpl_html_escape (remove_newlines out).
Proof. intros _. apply br_only. Qed.

(* ================= instances for Go's unicode.IsPrint (regenerated table) ================= *)

Lemma is_print_tbl_ls : is_print_tbl 8232 = false.
Proof. vm_compute. reflexivity. Qed.
Lemma is_print_tbl_ps : is_print_tbl 8233 = false.
Proof. vm_compute. reflexivity. Qed.

(* the guard: every rune is in the BMP or printable; its negation is the
   trigger of finding jsstr-astral-nonprint-5hex *)
Definition js_guard (s : bstr) : Prop := Forall (fun r => r < 65536 \/ is_print_tbl r = true) (runes s).

Theorem jsstr_roundtrip s : js_guard s -> utf8_valid s = true -> js_read_literal (js_escape is_print_tbl s) = Some s.
Proof. intros Hg Hv. apply (jsstr_roundtrip_q is_print_tbl is_print_tbl_ls is_print_tbl_ps 39); auto. Qed.

Theorem jsstr_roundtrip_dq s : js_guard s -> utf8_valid s = true -> js_read_literal_q 34 (js_escape is_print_tbl s) = Some s.
Proof. intros Hg Hv. apply (jsstr_roundtrip_q is_print_tbl is_print_tbl_ls is_print_tbl_ps 34); auto. Qed.

(* without the guard the statement is false of the faithful model: U+F0000
   is written as backslash-u F0000, which reads back as U+F000 followed by 0 *)
Theorem jsstr_astral_refuted :
  exists s, utf8_valid s = true /\ js_escape is_print_tbl s = [92; 117; 70; 48; 48; 48; 48]
            /\ js_read_literal (js_escape is_print_tbl s) = Some [239; 128; 128; 48]
            /\ js_read_literal (js_escape is_print_tbl s) <> Some s.
Proof.
  exists [243; 176; 128; 128]. split; [vm_compute; reflexivity|].
  split; [vm_compute; reflexivity|]. split; [vm_compute; reflexivity|]. vm_compute. discriminate.
Qed.
