(* Two Gallina models of parsepasses.CheckDataRefs exist: Model/Compile.v (C13:
   fuel recursion over nodes through Children(), with the Go map order of
   MapLiteralNode.Children as a parameter [ko]) and Model/Checker.v (C07: over
   the view of Model/RefView.v).  This file proves that they are the same
   function, so that C07's check_iff_wf speaks about the accept/reject decision
   that C13 proves order-independent.

   [listed ko n]: every map literal below n lists its items in the order in
   which [ko] visits them (after commit b9a4d3a Children() visits the keys in
   sorted order, and the AST dump lists the items sorted by key: then
   [map_values ko items = map snd items]). *)
From Coq Require Import Lia Permutation.
From Soy Require Import Model.Bytes Model.Num Model.Values Model.Outcome Model.Ast Model.MsgId Model.RefView Model.Checker
  Model.Compile Model.CheckerRun Generated.Tables Spec.Wf Spec.Determinism Spec.Safety Proofs.ValueProofs Proofs.CheckerProofs Proofs.CompileProofs Proofs.CompileFuelProofs.
Open Scope N_scope.

(* ------------------------------------------------------------------ *)
(* states and error classes *)

Definition conv_b (v : vbinding) : binding := {| b_name := vb_name v; b_let := vb_let v; b_used := vb_used v |}.
Definition conv (st : tcs) : cstate := {| vars := map conv_b (tc_vars st); used_keys := tc_used st |}.

(* the two runs agree (an out-of-fuel run of the fuel model says nothing) *)
Definition rel (r : check_err + tcs) (c : cres) : Prop :=
  match r with
  | inl CKOutOfFuel => True
  | inl e => c = CR (cls e)
  | inr st' => c = CO (conv st')
  end.

Lemma mem_s_contains k l : mem_s k l = contains l k.
Proof.
  unfold mem_s. induction l as [|y r IH]; cbn [existsb contains]; [reflexivity|]. rewrite IH, (bstr_eqb_sym k y). reflexivity.
Qed.

Lemma mark_conv key vs : mark key (map conv_b vs) = option_map (map conv_b) (mark_used key vs).
Proof.
  induction vs as [|v r IH]; cbn [mark mark_used map option_map]; [reflexivity|]. cbn [conv_b b_name].
  destruct (bstr_eqb (vb_name v) key); [reflexivity|]. rewrite IH. destruct (mark_used key r); reflexivity.
Qed.

Lemma filter_nil_forallb {A} (f : A -> bool) l : filter (fun x => negb (f x)) l = [] <-> forallb f l = true.
Proof.
  induction l as [|x r IH]; cbn [filter forallb]; [tauto|]. destruct (f x); cbn [negb andb]; [exact IH|].
  split; discriminate.
Qed.

Lemma k_consts : k_ij = RefView.s_ij /\ loop_func_names = [k_index; k_is_first; k_is_last].
Proof. split; reflexivity. Qed.

Section Tie.
Variable ko : korder.
Variable ts : list template.
Variable params : list bstr.
Notation lookup := (find_template ts).

Lemma visit_key_tie st key : rel (Compile.visit_key params st key) (Checker.visit_key params key (conv st)).
Proof.
  unfold Compile.visit_key, Checker.visit_key. change k_ij with RefView.s_ij.
  destruct (bstr_eqb key RefView.s_ij); [reflexivity|].
  cbn [conv vars]. rewrite mark_conv. destruct (mark_used key (tc_vars st)); cbn [option_map rel]; [reflexivity|].
  rewrite mem_s_contains. destruct (contains params key); reflexivity.
Qed.

Lemma call_param_keys_tie ps : call_param_keys ps = all_keys (map param_key ps).
Proof.
  induction ps as [|p r IH]; [reflexivity|]. destruct p; cbn [call_param_keys map param_key all_keys]; try reflexivity;
    rewrite IH; reflexivity.
Qed.

Lemma check_call_tie st pos name alldata data ps :
  rel (Compile.check_call lookup params st pos name alldata data ps)
      (Checker.check_call ts params name alldata (match data with Some _ => true | None => false end) (map param_key ps) (conv st)).
Proof.
  unfold Compile.check_call, Checker.check_call. destruct (find_template ts name) as [callee|]; [|reflexivity].
  rewrite call_param_keys_tie. destruct (all_keys (map param_key ps)) as [keys|]; [|reflexivity].
  assert (Hf : forall l, filter (fun p => mem_s p (map fst (t_params callee))) l = filter (contains (map fst (t_params callee))) l).
  { intros l. apply filter_ext. intros a. apply mem_s_contains. }
  rewrite Hf. set (passed := if alldata then filter (contains (map fst (t_params callee))) params else []).
  set (caller := passed ++ keys).
  destruct (filter (fun k => negb (mem_s k (map fst (t_params callee)))) caller) as [|u us] eqn:Hund.
  - assert (H1 : forallb (contains (map fst (t_params callee))) caller = true).
    { apply filter_nil_forallb. rewrite <- Hund. apply filter_ext. intros a. rewrite mem_s_contains. reflexivity. }
    rewrite H1. cbn [negb]. destruct data; [reflexivity|].
    destruct (filter (fun k => negb (mem_s k caller)) _) as [|m ms] eqn:Hmis.
    + assert (H2 : forallb (contains caller) (map fst (filter (fun p => negb (snd p)) (t_params callee))) = true).
      { apply filter_nil_forallb. rewrite <- Hmis. apply filter_ext. intros a. rewrite mem_s_contains. reflexivity. }
      rewrite H2. reflexivity.
    + assert (H2 : forallb (contains caller) (map fst (filter (fun p => negb (snd p)) (t_params callee))) = false).
      { apply not_true_is_false. intros H. apply filter_nil_forallb in H.
        erewrite filter_ext in Hmis; [rewrite H in Hmis; discriminate|]. intros a. cbv beta. rewrite mem_s_contains. reflexivity. }
      rewrite H2. reflexivity.
  - assert (H1 : forallb (contains (map fst (t_params callee))) caller = false).
    { apply not_true_is_false. intros H. apply filter_nil_forallb in H.
      erewrite filter_ext in Hund; [rewrite H in Hund; discriminate|]. intros a. cbv beta. rewrite mem_s_contains. reflexivity. }
    rewrite H1. reflexivity.
Qed.

Lemma loop_names_k fname : bstr_eqb fname k_index || bstr_eqb fname k_is_first || bstr_eqb fname k_is_last = contains loop_func_names fname.
Proof.
  unfold loop_func_names. cbn [contains]. rewrite orb_false_r, orb_assoc.
  rewrite (bstr_eqb_sym fname k_index), (bstr_eqb_sym fname k_is_first), (bstr_eqb_sym fname k_is_last). reflexivity.
Qed.

Lemma check_loop_func_tie st fname args :
  Checker.check_loop_func fname (loop_arg args) (conv st)
  = match Compile.check_loop_func st fname args with Some e => CR (cls e) | None => CO (conv st) end.
Proof.
  unfold Checker.check_loop_func, Compile.check_loop_func. rewrite loop_names_k.
  destruct (contains loop_func_names fname); [|reflexivity].
  destruct args as [|a [|a2 r]]; [reflexivity| |destruct a; try reflexivity; destruct access; reflexivity].
  destruct a; try reflexivity.
  destruct access as [|ac acs]; [|reflexivity].
  cbn [loop_arg conv vars].
  assert (He : existsb (fun v => negb (b_let v) && bstr_eqb (b_name v) key) (map conv_b (tc_vars st))
               = existsb (fun v => negb (vb_let v) && bstr_eqb (vb_name v) key) (tc_vars st)).
  { induction (tc_vars st) as [|v vs IH]; cbn [existsb map]; [reflexivity|]. rewrite IH. reflexivity. }
  rewrite He. destruct (existsb _ (tc_vars st)); reflexivity.
Qed.

(* the pop at the end of recurse *)
Lemma pop_tie initial st :
  rel (pop_block initial st)
      (let n := (length (vars (conv st)) - initial)%nat in
       if existsb (fun v => b_let v && negb (b_used v)) (firstn n (vars (conv st))) then CR RUnusedLet
       else CO (set_vars (conv st) (skipn n (vars (conv st))))).
Proof.
  unfold pop_block. cbn [conv vars]. rewrite map_length. cbv zeta.
  set (n := (length (tc_vars st) - initial)%nat).
  assert (He : existsb (fun v => b_let v && negb (b_used v)) (firstn n (map conv_b (tc_vars st)))
               = existsb (fun v => vb_let v && negb (vb_used v)) (firstn n (tc_vars st))).
  { rewrite firstn_map. induction (firstn n (tc_vars st)) as [|v vs IH]; cbn [existsb map]; [reflexivity|]. rewrite IH. reflexivity. }
  rewrite He.
  destruct (map vb_name (filter (fun v => vb_let v && negb (vb_used v)) (rev (firstn n (tc_vars st))))) as [|u us] eqn:Hf.
  - assert (Hn : existsb (fun v => vb_let v && negb (vb_used v)) (firstn n (tc_vars st)) = false).
    { apply not_true_is_false. intros H. apply existsb_exists in H as (v & Hin & Hv).
      apply map_eq_nil in Hf. assert (Hin' : In v (filter (fun v => vb_let v && negb (vb_used v)) (rev (firstn n (tc_vars st)))))
        by (apply filter_In; split; [apply in_rev; rewrite rev_involutive; exact Hin | exact Hv]).
      rewrite Hf in Hin'. destruct Hin'. }
    rewrite Hn. cbn [rel]. unfold conv, set_vars. cbn [vars used_keys tc_vars tc_used]. rewrite skipn_map. reflexivity.
  - assert (Hn : existsb (fun v => vb_let v && negb (vb_used v)) (firstn n (tc_vars st)) = true).
    { destruct (filter _ (rev (firstn n (tc_vars st)))) as [|v vs] eqn:Hfl; [discriminate|].
      assert (Hin : In v (filter (fun v => vb_let v && negb (vb_used v)) (rev (firstn n (tc_vars st))))) by (rewrite Hfl; left; reflexivity).
      apply filter_In in Hin as [Hin Hv]. apply existsb_exists. exists v. split; [apply in_rev; exact Hin | exact Hv]. }
    rewrite Hn. reflexivity.
Qed.

(* ------------------------------------------------------------------ *)
(* children *)

Inductive listed : node -> Prop :=
| listed_intro n :
    (forall p items, n = NMapLit p items -> map_values ko items = map snd items) ->
    Forall listed (children ko n) -> listed n.

Lemma listed_kids n : listed n -> Forall listed (children ko n).
Proof. intros H. inversion H; assumption. Qed.

Notation chkv := (fun c => chk ts params (view c)).

Lemma opt_kids (o : option node) : map (chk ts params) (match o with Some x => [view x] | None => [] end) = map chkv (olist o).
Proof. destruct o; reflexivity. Qed.

(* the children's checks of the view are the checks of the views of Children() *)
Lemma kids_tie n : listed n -> map (chk ts params) (rt_kids (view n)) = map chkv (children ko n).
Proof.
  intros H. inversion H as [? Hm _]; subst.
  destruct n; cbn [view rt_kids children]; rewrite ?map_map, ?map_app, ?map_map, ?opt_kids; cbn [map app]; rewrite ?map_map;
    try reflexivity.
  - (* map literal *)
    rewrite (Hm _ _ eq_refl). rewrite map_map. apply map_ext. intros [k e]. reflexivity.
  - (* for *) rewrite opt_kids. reflexivity.
  - (* plural: Default is a ListNode of its own; the checker treats a block like any other parent *)
    rewrite !map_app, !map_map. reflexivity.
Qed.

(* propagation of errors: an error of a part is the error of the whole *)
Lemma rel_err e c : rel (inl e) c -> e <> CKOutOfFuel -> c = CR (cls e).
Proof. destruct e; cbn [rel]; intros H Hn; try exact H. congruence. Qed.

Section Step.
Variable w : tcs -> node -> check_err + tcs.
Hypothesis Hw : forall st n, listed n -> rel (w st n) (chk ts params (view n) (conv st)).

Lemma check_seq_tie l : Forall listed l -> forall st,
  rel (check_seq w st l) (run_each (map chkv l) (conv st)).
Proof.
  induction 1 as [|n r Hn Hr IH]; intros st; cbn [check_seq map run_each]; [reflexivity|].
  specialize (Hw st n Hn). destruct (w st n) as [e|st'].
  - destruct e; cbn [rel] in *; try (rewrite Hw; reflexivity). exact I.
  - cbn [rel] in Hw. rewrite Hw. cbn [cbind]. apply IH.
Qed.

Lemma check_block_tie n : listed n -> forall st,
  rel (check_block ko w st n) (chk_recurse (map (chk ts params) (rt_kids (view n))) (conv st)).
Proof.
  intros Hn st. unfold check_block, chk_recurse. rewrite (kids_tie n Hn).
  pose proof (check_seq_tie (children ko n) (listed_kids n Hn) st) as H.
  destruct (check_seq w st (children ko n)) as [e|st'].
  - destruct e; cbn [rel] in *; try (rewrite H; reflexivity). exact I.
  - cbn [rel] in H. rewrite H. cbn [cbind]. pose proof (pop_tie (length (tc_vars st)) st') as Hp.
    cbn [conv vars] in Hp |- *. rewrite map_length in Hp |- *. rewrite map_length. exact Hp.
Qed.

(* a run that ends in an error, or continues with [k] *)
Lemma rel_bind (r : check_err + tcs) (c : cres) (k : tcs -> check_err + tcs) (k' : cstate -> cres) :
  rel r c -> (forall st', rel (k st') (k' (conv st'))) ->
  rel (match r with inr st' => k st' | inl e => inl e end) (cbind c k').
Proof.
  intros H Hk. destruct r as [e|st'].
  - destruct e; cbn [rel] in *; try (rewrite H; reflexivity). exact I.
  - cbn [rel] in H. rewrite H. cbn [cbind]. apply Hk.
Qed.

Lemma check_body_tie n : listed n -> forall st,
  rel (check_body ko lookup params w st n) (chk ts params (view n) (conv st)).
Proof.
  intros Hn st.
  assert (Hdefault : rel (check_block ko w st n) (chk_recurse (map (chk ts params) (rt_kids (view n))) (conv st)))
    by (apply check_block_tie; exact Hn).
  destruct n; cbn [check_body]; try exact Hdefault.
  - (* function *)
    change (chk ts params (view (NFunc p name args)) (conv st))
      with (cbind (Checker.check_loop_func name (loop_arg args) (conv st))
                  (chk_recurse (map (chk ts params) (map view args)))).
    rewrite check_loop_func_tie. destruct (Compile.check_loop_func st name args) as [e|].
    + destruct e; reflexivity.
    + cbn [cbind]. exact Hdefault.
  - (* data reference *)
    change (chk ts params (view (NDataRef p key access)) (conv st))
      with (cbind (Checker.visit_key params key (conv st)) (chk_recurse (map (chk ts params) (map view access)))).
    pose proof (visit_key_tie st key) as Hv.
    refine (rel_bind _ _ (fun st' => check_block ko w st' (NDataRef p key access)) _ Hv _).
    intros st'. apply (check_block_tie _ Hn).
  - (* for *)
    pose proof (listed_kids _ Hn) as Hk. cbn [children] in Hk.
    inversion Hk as [|? ? Hl Hk1]; subst. inversion Hk1 as [|? ? Hb Hie]; subst.
    change (chk ts params (view (NFor p var n1 n2 ifempty)) (conv st))
      with (cbind (chk ts params (view n1) (conv st)) (fun st1 =>
            cbind (chk ts params (view n2) (Checker.push_var st1 {| b_name := var; b_let := false; b_used := false |})) (fun st2 =>
            run_each (map (chk ts params) (match ifempty with Some x => [view x] | None => [] end)) (set_vars st2 (tl (vars st2)))))).
    refine (rel_bind _ _ (fun st1 => match w (Compile.push_var st1 var false) n2 with
                                     | inl e => inl e
                                     | inr st2 => _ end) _ (Hw st n1 Hl) _).
    intros st1.
    refine (rel_bind _ _ (fun st2 => match ifempty with
                                     | Some e => w {| tc_vars := tl (tc_vars st2); tc_used := tc_used st2 |} e
                                     | None => inr {| tc_vars := tl (tc_vars st2); tc_used := tc_used st2 |} end) _
                     (Hw (Compile.push_var st1 var false) n2 Hb) _).
    intros st2.
    assert (Hc : set_vars (conv st2) (tl (vars (conv st2))) = conv {| tc_vars := tl (tc_vars st2); tc_used := tc_used st2 |}).
    { unfold set_vars, conv. cbn [vars used_keys tc_vars tc_used]. destruct (tc_vars st2); reflexivity. }
    rewrite Hc. destruct ifempty as [ie|]; cbn [map run_each].
    + inversion Hie; subst.
      pose proof (Hw {| tc_vars := tl (tc_vars st2); tc_used := tc_used st2 |} ie ltac:(assumption)) as H3.
      destruct (w _ ie) as [e|st3].
      * destruct e; cbn [rel] in *; try (rewrite H3; reflexivity). exact I.
      * cbn [rel] in *. rewrite H3. reflexivity.
    + reflexivity.
  - (* call *)
    change (chk ts params (view (NCall p name alldata data params0)) (conv st))
      with (cbind (Checker.check_call ts params name alldata (match data with Some _ => true | None => false end) (map param_key params0) (conv st))
                  (chk_recurse (map (chk ts params) (rt_kids (view (NCall p name alldata data params0)))))).
    refine (rel_bind _ _ (fun st' => check_block ko w st' (NCall p name alldata data params0)) _ (check_call_tie st p name alldata data params0) _).
    intros st'. apply (check_block_tie _ Hn).
  - (* let value *)
    change (chk ts params (view (NLetValue p name n)) (conv st))
      with (if bstr_eqb name RefView.s_ij then CR RLetIj
            else cbind (chk_recurse (map (chk ts params) [view n]) (conv st))
                       (fun st' => CO (Checker.push_var st' {| b_name := name; b_let := true; b_used := false |}))).
    change k_ij with RefView.s_ij. destruct (bstr_eqb name RefView.s_ij); [reflexivity|].
    refine (rel_bind _ _ (fun st' => inr (Compile.push_var st' name true)) _ Hdefault _). intros st'. reflexivity.
  - (* let content *)
    change (chk ts params (view (NLetContent p name n)) (conv st))
      with (if bstr_eqb name RefView.s_ij then CR RLetIj
            else cbind (chk_recurse (map (chk ts params) [view n]) (conv st))
                       (fun st' => CO (Checker.push_var st' {| b_name := name; b_let := true; b_used := false |}))).
    change k_ij with RefView.s_ij. destruct (bstr_eqb name RefView.s_ij); [reflexivity|].
    refine (rel_bind _ _ (fun st' => inr (Compile.push_var st' name true)) _ Hdefault _). intros st'. reflexivity.
  - (* header param *) reflexivity.
Qed.
End Step.

Theorem check_node_tie fuel : forall st n, listed n ->
  rel (check_node ko lookup params fuel st n) (chk ts params (view n) (conv st)).
Proof.
  induction fuel as [|f IH]; intros st n Hn; cbn [check_node]; [exact I|].
  apply check_body_tie; assumption.
Qed.
End Tie.

(* ------------------------------------------------------------------ *)
(* one template, the registry *)

Definition verdict_of (o : option check_err) : verdict :=
  match o with None => Accept | Some e => Reject (cls e) end.

(* one iteration of the loop of CheckDataRefs: the two models give the same verdict, with the same class of error *)
Theorem check_template_tie ko ts t : listed ko (t_node t) ->
  verdict_of (check_template ko (find_template ts) t) = check_template_node ts (map fst (t_params t)) (t_node t).
Proof.
  intros Hl. unfold check_template, check_template_node.
  pose proof (check_node_tie ko ts (map fst (t_params t)) (walk_fuel (t_node t)) {| tc_vars := []; tc_used := [] |} (t_node t) Hl) as H.
  pose proof (check_node_nofuel ko (find_template ts) (map fst (t_params t)) (walk_fuel (t_node t)) (t_node t)
                (rank_lt_walk_fuel (t_node t)) {| tc_vars := []; tc_used := [] |}) as Hf.
  change (conv {| tc_vars := []; tc_used := [] |}) with {| vars := []; used_keys := [] |} in H.
  destruct (check_node ko (find_template ts) (map fst (t_params t)) (walk_fuel (t_node t)) _ (t_node t)) as [e|st].
  - apply rel_err in H; [|intros ->; apply Hf; reflexivity]. rewrite H. reflexivity.
  - cbn [rel] in H. rewrite H. cbn [conv used_keys].
    destruct (filter (fun p => negb (mem_s p (tc_used st))) (map fst (t_params t))) as [|u us] eqn:Hu.
    + assert (Hall : forallb (contains (tc_used st)) (map fst (t_params t)) = true).
      { apply filter_nil_forallb. rewrite <- Hu. apply filter_ext. intros a. rewrite mem_s_contains. reflexivity. }
      rewrite Hall. reflexivity.
    + assert (Hall : forallb (contains (tc_used st)) (map fst (t_params t)) = false).
      { apply not_true_is_false. intros Hc. apply filter_nil_forallb in Hc.
        erewrite filter_ext in Hu; [rewrite Hc in Hu; discriminate|]. intros a. cbv beta. rewrite mem_s_contains. reflexivity. }
      rewrite Hall. reflexivity.
Qed.

Lemma check_templates_tie ko all ts : Forall (fun t => listed ko (t_node t)) ts ->
  verdict_of_failure (first_failure (check_template ko (find_template all)) ts) = check_templates all ts.
Proof.
  induction 1 as [|t r Ht Hr IH]; cbn [first_failure check_templates]; [reflexivity|].
  rewrite <- (check_template_tie ko all t Ht).
  destruct (check_template ko (find_template all) t) as [e|]; cbn [verdict_of verdict_of_failure]; [reflexivity | exact IH].
Qed.

(* CheckDataRefs: the model used by C13 (first failing template in registry order, children of a map literal in the
   order [ko]) and the model used by C07 (over the view of RefView.v) return the same verdict *)
Theorem check_data_refs_tie ko reg : Forall (fun t => listed ko (t_node t)) (r_templates reg) ->
  verdict_of_failure (first_failure (check_template ko (find_template (r_templates reg))) (r_templates reg)) = check_registry reg.
Proof. intros H. apply check_templates_tie. exact H. Qed.

(* ------------------------------------------------------------------ *)
(* [listed] holds of the trees the parser builds and the AST dump transmits: after b9a4d3a
   MapLiteralNode.Children() visits the keys in sorted order, whatever order Go's map iteration
   produces them in ([sorted_after ko0] for any permutation ko0), and the model lists the items of a
   map literal by strictly increasing key *)

Lemma sorted_head_lt' r : forall k, keys_sortedb (k :: r) = true -> forall k', In k' r -> bstr_ltb k k' = true.
Proof.
  induction r as [|k1 r IH]; intros k Hs k' Hin; [destruct Hin|].
  cbn [keys_sortedb] in Hs. apply andb_true_iff in Hs as [H1 H2]. destruct Hin as [<-|Hin]; [exact H1|].
  eapply bstr_ltb_trans; [exact H1|]. apply IH; [exact H2 | exact Hin].
Qed.

Lemma sort_sorted l : keys_sortedb l = true -> sort_strings l = l.
Proof.
  induction l as [|k r IH]; intros Hs; [reflexivity|]. cbn [keys_sortedb] in Hs. apply andb_true_iff in Hs as [H1 H2].
  change (sort_strings (k :: r)) with (insert_sorted k (sort_strings r)). rewrite (IH H2).
  destruct r as [|k' r']; [reflexivity|]. cbn [insert_sorted]. unfold bstr_leb. rewrite (bstr_ltb_asym _ _ H1). reflexivity.
Qed.

Lemma bstr_ltb_ne x y : bstr_ltb x y = true -> bstr_eqb y x = false.
Proof.
  intros H. destruct (bstr_eqb_spec y x) as [->|]; [|reflexivity]. rewrite bstr_ltb_irrefl in H. discriminate.
Qed.

Lemma flat_map_ext_In {A B} (f g : A -> list B) l : (forall a, In a l -> f a = g a) -> flat_map f l = flat_map g l.
Proof.
  induction l as [|a r IH]; intros H; [reflexivity|]. cbn [flat_map]. rewrite (H a (or_introl eq_refl)), IH; [reflexivity|].
  intros a' Ha. apply H. right. exact Ha.
Qed.

Lemma map_values_listed (items : list (bstr * node)) : keys_sortedb (map fst items) = true ->
  flat_map (fun k => match assoc_s k items with Some v => [v] | None => [] end) (map fst items) = map snd items.
Proof.
  induction items as [|[k v] r IH]; intros Hs; [reflexivity|]. cbn [map fst snd flat_map assoc_s].
  rewrite bstr_eqb_refl. cbn [app]. f_equal.
  cbn [map fst] in Hs. pose proof (sorted_head_lt' _ _ Hs) as Hlt. cbn [keys_sortedb] in Hs. apply andb_true_iff in Hs as [_ Hs].
  rewrite <- (IH Hs). apply flat_map_ext_In. intros k' Hin. cbn [assoc_s]. rewrite (bstr_ltb_ne _ _ (Hlt k' Hin)). reflexivity.
Qed.

Lemma map_values_sorted ko0 items : (forall ks, Permutation (ko0 ks) ks) -> keys_sortedb (map fst items) = true ->
  map_values (sorted_after ko0) items = map snd items.
Proof.
  intros Hp Hs. unfold map_values, sorted_after. rewrite (sort_strings_perm _ _ (Hp (map fst items))), (sort_sorted _ Hs).
  apply map_values_listed. exact Hs.
Qed.

Ltac split_andb :=
  repeat match goal with H : _ && _ = true |- _ => apply andb_true_iff in H; destruct H end.

(* [node_all] is inherited by the children, in whatever order they are visited *)
Lemma node_all_children P ko n : (forall p l, P (NList p l) = true) ->
  (forall p ps c, P (NSoyDoc p ps) = true -> In c ps -> Spec.Safety.node_all P c = true) ->
  Spec.Safety.node_all P n = true ->
  Forall (fun c => Spec.Safety.node_all P c = true) (children ko n).
Proof.
  intros HP HD H. apply Forall_forall. intros c Hc.
  destruct n; cbn [children] in Hc; try (destruct Hc; fail); cbn [Spec.Safety.node_all] in H; split_andb;
    repeat match goal with
           | H : In _ (_ :: _) |- _ => destruct H as [<-|H]
           | H : In _ (_ ++ _) |- _ => apply in_app_or in H; destruct H as [H|H]
           | H : In _ [] |- _ => destruct H
           | H : In _ (olist ?o) |- _ => destruct o; cbn [olist] in H
           end;
    try assumption;
    try (match goal with H : forallb _ ?l = true, Hi : In c ?l |- _ => rewrite forallb_forall in H; exact (H c Hi) end).
  - (* map literal *)
    apply map_values_In in Hc as (k & Hk).
    match goal with H : forallb _ items = true |- _ => rewrite forallb_forall in H; exact (H (k, c) Hk) end.
  - (* plural: the default is a ListNode *)
    cbn [Spec.Safety.node_all]. rewrite HP. assumption.
  - (* plural case: the body is a ListNode *)
    cbn [Spec.Safety.node_all]. rewrite HP. assumption.
  - (* soydoc *) eapply HD; eassumption.
Qed.

Lemma soydoc_params_sorted p ps c : map_sorted (NSoyDoc p ps) = true -> In c ps -> Spec.Safety.node_all map_sorted c = true.
Proof.
  cbn [map_sorted]. intros H Hc. rewrite forallb_forall in H. specialize (H c Hc). destruct c; try discriminate. reflexivity.
Qed.

Lemma listed_of_sorted ko0 : (forall ks, Permutation (ko0 ks) ks) ->
  forall n, maps_sorted n = true -> listed (sorted_after ko0) n.
Proof.
  intros Hp. assert (H : forall k n, (rank n < k)%nat -> maps_sorted n = true -> listed (sorted_after ko0) n).
  { induction k as [|k IH]; intros n Hr Hs; [lia|]. constructor.
    - intros p items ->. apply map_values_sorted; [exact Hp|].
      unfold maps_sorted in Hs. cbn [Spec.Safety.node_all] in Hs. apply andb_true_iff in Hs as [Hs _]. exact Hs.
    - pose proof (node_all_children map_sorted (sorted_after ko0) n (fun _ _ => eq_refl) soydoc_params_sorted Hs) as Hk.
      rewrite Forall_forall in Hk |- *. intros c Hc. apply IH; [|apply Hk; exact Hc].
      pose proof (children_rank (sorted_after ko0) n c Hc). lia. }
  intros n. apply (H (S (rank n))). lia.
Qed.

(* the tie as C07 and C13 use it *)
Theorem check_data_refs_models_agree ko0 reg :
  (forall ks, Permutation (ko0 ks) ks) ->
  forallb (fun t => maps_sorted (t_node t)) (r_templates reg) = true ->
  verdict_of_failure (first_failure (check_template (sorted_after ko0) (find_template (r_templates reg))) (r_templates reg))
  = check_registry reg.
Proof.
  intros Hp Hs. apply check_data_refs_tie. apply Forall_forall. intros t Ht. apply listed_of_sorted; [exact Hp|].
  rewrite forallb_forall in Hs. exact (Hs t Ht).
Qed.

Corollary check_registry_c13_agrees reg : registry_maps_sorted reg = true -> check_registry_c13 reg = check_registry reg.
Proof. intros H. apply (check_data_refs_models_agree (fun ks => ks)); [intros ks; apply Permutation_refl | exact H]. Qed.
