(* The expression parser model (Model/ExprParser.v) touches the item list only through Token.recv:
   every procedure is locked in the sense of Proofs/RecvOnlyTok.v.  Reading for the entry point parse.Expr:
   [ro_parse_expr_depends_on_received]. *)
From Soy Require Import Model.Bytes Model.Num Model.Values Model.Ast Model.Token Model.NumLit Model.Quote Model.ExprParser
  Generated.Tables Proofs.ExprParserRules Proofs.RecvOnlyTok.
From Coq Require Import Lia.
Open Scope N_scope.

(* a call [P (g q)] against [P (g (ro_pext e q))] where g does not touch the items: an instance of the lemma at [g q] *)
Ltac ro_call L :=
  match goal with
  | |- ro_lock ?e _ (?P ?gs) _ => change (ro_lock e gs (P gs) (P (ro_pext e gs))); apply L
  end.

Ltac ro_ret := solve [apply ro_lock_eq; [reflexivity|first [exact I|unfold ro_mono, ro_fin, ro_avail; cbn; lia]]].

(* both sides are the same body, on [q] and on [ro_pext e q] *)
Ltac ro_ego tac :=
  repeat first
    [ solve [tac]
    | apply ro_lock_bind; [|intros ? ? ?]
    | apply ro_lock_let_next; intros ? ? ?
    | apply ro_lock_let_peek; intros ? ? ?
    | match goal with
      | |- ro_lock _ _ (if ?c then _ else _) (if ?c then _ else _) => destruct c
      | |- ro_lock _ _ (match ?c with _ => _ end) (match ?c with _ => _ end) => destruct c
      end
    | progress cbv zeta
    | ro_ret ].

Lemma ro_p_errorf_lock {A} c e p : ro_lock e p (@p_errorf A c p) (p_errorf c (ro_pext e p)).
Proof. unfold p_errorf. ro_ret. Qed.
Lemma ro_p_unexpected_lock {A} t e p : ro_lock e p (@p_unexpected A t p) (p_unexpected t (ro_pext e p)).
Proof. unfold p_unexpected. destruct (t_typ t =? pk_itemError); ro_ret. Qed.
Lemma ro_p_expect_lock typ e p : ro_lock e p (p_expect typ p) (p_expect typ (ro_pext e p)).
Proof. unfold p_expect. ro_ego ltac:(apply ro_p_unexpected_lock). Qed.

Section Body.
Variable w : N -> pst -> presult node.
Hypothesis Hw : forall prec p e, ro_lock e p (w prec p) (w prec (ro_pext e p)).

Ltac base := first [ apply Hw | apply ro_p_expect_lock | apply ro_p_unexpected_lock | apply ro_p_errorf_lock | ro_call Hw ].

Lemma ro_parse_ternary c p e : ro_lock e p (parse_ternary w c p) (parse_ternary w c (ro_pext e p)).
Proof. unfold parse_ternary. ro_ego base. Qed.

Lemma ro_expr_loop : forall lf prec n p e, ro_lock e p (expr_loop w lf prec n p) (expr_loop w lf prec n (ro_pext e p)).
Proof.
  induction lf as [|lf IH]; intros prec n p e; [ro_ret|]. rewrite !expr_loop_S.
  ro_ego ltac:(first [apply IH|apply ro_parse_ternary|base]).
Qed.

Lemma ro_data_ref_loop : forall lf ps key acc p e,
  ro_lock e p (data_ref_loop w lf ps key acc p) (data_ref_loop w lf ps key acc (ro_pext e p)).
Proof.
  induction lf as [|lf IH]; intros ps key acc p e; [ro_ret|]. rewrite !data_ref_loop_S.
  ro_ego ltac:(first [apply IH|base]).
Qed.
Lemma ro_parse_data_ref lf t p e : ro_lock e p (parse_data_ref w lf t p) (parse_data_ref w lf t (ro_pext e p)).
Proof. unfold parse_data_ref. ro_ego ltac:(first [apply ro_data_ref_loop|base]). Qed.

Lemma ro_list_loop : forall lf ps items p e, ro_lock e p (list_loop w lf ps items p) (list_loop w lf ps items (ro_pext e p)).
Proof.
  induction lf as [|lf IH]; intros ps items p e; [ro_ret|]. rewrite !list_loop_S.
  ro_ego ltac:(first [apply IH|base]).
Qed.
Lemma ro_map_loop : forall lf ps items key p e,
  ro_lock e p (map_loop w lf ps items key p) (map_loop w lf ps items key (ro_pext e p)).
Proof.
  induction lf as [|lf IH]; intros ps items key p e; [ro_ret|]. rewrite !map_loop_S.
  ro_ego ltac:(first [apply IH|base]).
Qed.
Lemma ro_parse_map_literal lf ps first p e :
  ro_lock e p (parse_map_literal w lf ps first p) (parse_map_literal w lf ps first (ro_pext e p)).
Proof. unfold parse_map_literal. ro_ego ltac:(first [apply ro_map_loop|base]). Qed.
Lemma ro_parse_list_or_map lf t p e : ro_lock e p (parse_list_or_map w lf t p) (parse_list_or_map w lf t (ro_pext e p)).
Proof.
  unfold parse_list_or_map. ro_ego ltac:(first [apply ro_parse_map_literal|apply ro_list_loop|base]).
Qed.

Lemma ro_global_loop : forall lf ps name nx p e,
  ro_lock e p (global_loop lf ps name nx p) (global_loop lf ps name nx (ro_pext e p)).
Proof.
  induction lf as [|lf IH]; intros ps name nx p e; [ro_ret|]. rewrite !global_loop_S.
  ro_ego ltac:(first [apply IH|base]).
Qed.
Lemma ro_func_loop : forall lf ps name args p e,
  ro_lock e p (func_loop w lf ps name args p) (func_loop w lf ps name args (ro_pext e p)).
Proof.
  induction lf as [|lf IH]; intros ps name args p e; [ro_ret|]. rewrite !func_loop_S.
  ro_ego ltac:(first [apply IH|base]).
Qed.
Lemma ro_new_function_node lf t p e : ro_lock e p (new_function_node w lf t p) (new_function_node w lf t (ro_pext e p)).
Proof. unfold new_function_node. ro_ego ltac:(first [apply ro_func_loop|base]). Qed.

Lemma ro_new_value_node lf t p e : ro_lock e p (new_value_node w lf t p) (new_value_node w lf t (ro_pext e p)).
Proof.
  unfold new_value_node.
  ro_ego ltac:(first [apply ro_parse_list_or_map|apply ro_parse_data_ref|apply ro_global_loop|apply ro_new_function_node|base]).
Qed.
Lemma ro_parse_first_term lf p e : ro_lock e p (parse_first_term w lf p) (parse_first_term w lf (ro_pext e p)).
Proof. unfold parse_first_term. ro_ego ltac:(first [apply ro_new_value_node|base]). Qed.
Lemma ro_parse_expr_body lf prec p e : ro_lock e p (parse_expr_body w lf prec p) (parse_expr_body w lf prec (ro_pext e p)).
Proof. unfold parse_expr_body. ro_ego ltac:(first [apply ro_parse_first_term|apply ro_expr_loop|base]). Qed.

Lemma ro_directive_args_loop : forall lf args p e,
  ro_lock e p (directive_args_loop w lf args p) (directive_args_loop w lf args (ro_pext e p)).
Proof.
  induction lf as [|lf IH]; intros args p e; [ro_ret|]. rewrite !directive_args_loop_S.
  ro_ego ltac:(first [apply IH|base]).
Qed.
Lemma ro_print_loop : forall lf ps x dirs p e,
  ro_lock e p (print_loop w lf ps x dirs p) (print_loop w lf ps x dirs (ro_pext e p)).
Proof.
  induction lf as [|lf IH]; intros ps x dirs p e; [ro_ret|]. rewrite !print_loop_S.
  ro_ego ltac:(first [apply IH|apply ro_directive_args_loop|base]).
Qed.
Lemma ro_parse_print_body lf ps p e : ro_lock e p (parse_print_body w lf ps p) (parse_print_body w lf ps (ro_pext e p)).
Proof. unfold parse_print_body. ro_ego ltac:(first [apply ro_print_loop|base]). Qed.
End Body.

(* tree.parseExpr *)
Theorem ro_parse_expr : forall fuel prec, ro_lockP (parse_expr fuel prec).
Proof.
  induction fuel as [|f IH]; intros prec p e; [cbn [parse_expr]; ro_ret|].
  cbn [parse_expr]. apply ro_parse_expr_body. intros prec' p' e'. apply IH.
Qed.
(* tree.parsePrint *)
Theorem ro_parse_print : forall fuel ps, ro_lockP (parse_print fuel ps).
Proof. intros fuel ps p e. unfold parse_print. apply ro_parse_print_body. intros prec' p' e'. apply ro_parse_expr. Qed.

(* parse.Expr (budget F explicit): a run that made no more receives than there are items in [ts] is the run on
   every extension [ts ++ e] of the list, and conversely *)
Theorem ro_parse_expr_depends_on_received F ts e :
  (forall r, parse_expr F 0 (pst_init ts) = r ->
     match ro_fin r with Some q => (p_recv q <= length ts)%nat | None => False end ->
     parse_expr F 0 (pst_init (ts ++ e)) = ro_rext e r) /\
  (forall r', parse_expr F 0 (pst_init (ts ++ e)) = r' ->
     match ro_fin r' with Some q => (p_recv q <= length ts)%nat | None => False end ->
     r' = ro_rext e (parse_expr F 0 (pst_init ts))).
Proof.
  destruct (ro_parse_expr F 0 (pst_init ts) e) as (_ & _ & W & _). change (ro_pext e (pst_init ts)) with (pst_init (ts ++ e)) in W.
  split.
  - intros r <- H. apply W. left. exact H.
  - intros r' <- H. apply W. right. exact H.
Qed.

(* a receive from the closed channel is a receive of a zero item: a run that made at most |ts| + j receives is, up
   to the zero items left over, the run on [ts] followed by j zero items *)
Theorem ro_parse_expr_zero_padding F ts j :
  (forall r, parse_expr F 0 (pst_init ts) = r ->
     match ro_fin r with Some q => (p_recv q <= length ts + j)%nat | None => False end ->
     exists j', parse_expr F 0 (pst_init (ts ++ ro_zeros j)) = ro_rext (ro_zeros j') r) /\
  (forall r', parse_expr F 0 (pst_init (ts ++ ro_zeros j)) = r' ->
     match ro_fin r' with Some q => (p_recv q <= length ts + j)%nat | None => False end ->
     exists j', r' = ro_rext (ro_zeros j') (parse_expr F 0 (pst_init ts))).
Proof.
  destruct (ro_parse_expr F 0 (pst_init ts) (ro_zeros j)) as (_ & _ & _ & P). specialize (P j eq_refl).
  change (ro_pext (ro_zeros j) (pst_init ts)) with (pst_init (ts ++ ro_zeros j)) in P.
  assert (Hw : forall o, match o with Some q => (p_recv q <= length ts + j)%nat | None => False end ->
                         ro_within (pst_init (ts ++ ro_zeros j)) o).
  { intros [q|] H; [|exact H]. unfold ro_within, ro_avail, ro_zeros. cbn [pst_init p_recv p_rest].
    rewrite app_length, repeat_length. exact H. }
  split.
  - intros r <- H. apply P. left. apply Hw. exact H.
  - intros r' <- H. apply P. right. apply Hw. exact H.
Qed.

Print Assumptions ro_parse_expr.
Print Assumptions ro_parse_expr_zero_padding.
Print Assumptions ro_parse_print.
Print Assumptions ro_parse_expr_depends_on_received.
