(* C20: the hand model of data/value.go (Model/Values.v) against the bodies of the Truthy and
   Equals methods as tablegen translates them from the current Go source (Generated/Tables.v).
   These finite lemmas are re-checked on every run; when the source and the model part, this
   file stops compiling (a broken proof obligation of C20). *)
From Soy Require Import Model.Bytes Model.Num Model.Outcome Model.Values Generated.Tables Proofs.ValueProofs.
Open Scope N_scope.

(* ---- Truthy ---- *)

(* what each Truthy body may look at *)
Definition gen_truthy (v : value) : bool :=
  match v with
  | VUndef => gen_truthy_undefined
  | VNull => gen_truthy_null
  | VBool x => gen_truthy_bool x
  | VInt z => gen_truthy_int (z =? 0)%Z
  | VFloat f => gen_truthy_float (fl_is_zero f) (fl_is_nan f)
  | VStr s => gen_truthy_string (match s with [] => true | _ => false end)
  | VList _ _ => gen_truthy_list
  | VMap _ _ => gen_truthy_map
  end.

(* the three possible combinations (is_zero, is_nan) of a float *)
Lemma gen_truthy_float_table :
  forallb (fun zn => Bool.eqb (gen_truthy_float (fst zn) (snd zn)) (negb (fst zn) && negb (snd zn)))
          [(false, false); (true, false); (false, true)] = true.
Proof. vm_compute. reflexivity. Qed.

Lemma gen_truthy_scalar_tables :
  Bool.eqb gen_truthy_undefined false && Bool.eqb gen_truthy_null false &&
  Bool.eqb gen_truthy_list true && Bool.eqb gen_truthy_map true &&
  forallb (fun x => Bool.eqb (gen_truthy_bool x) x && Bool.eqb (gen_truthy_int x) (negb x) && Bool.eqb (gen_truthy_string x) (negb x))
          [true; false] = true.
Proof. vm_compute. reflexivity. Qed.

Theorem gen_truthy_agrees v : truthy v = gen_truthy v.
Proof.
  destruct v as [| |x|z|f|s|i l|i m]; cbn [truthy gen_truthy].
  - reflexivity.
  - reflexivity.
  - destruct x; reflexivity.
  - destruct (z =? 0)%Z; reflexivity.
  - destruct f; reflexivity.
  - destruct s; reflexivity.
  - reflexivity.
  - reflexivity.
Qed.

(* ---- Equals ---- *)

Definition equals_mode (k1 k2 : N) : N :=
  match find (fun t => (fst (fst t) =? k1) && (snd (fst t) =? k2)) gen_equals_kinds with
  | Some t => snd t
  | None => 0
  end.

Definition as_float (v : value) : option fl :=
  match v with VInt z => fl_of_int z | VFloat f => Some f | _ => None end.

(* what each kind of comparison in an Equals body computes *)
Definition equals_by_mode (mode : N) (a c : value) : bool :=
  match mode with
  | 1 => match a, c with                      (* v == o on two values of the receiver's type *)
         | VBool x, VBool y => Bool.eqb x y
         | VInt x, VInt y => (x =? y)%Z
         | VFloat f, VFloat g => fl_eqb f g
         | VStr s, VStr t => bstr_eqb s t
         | _, _ => false
         end
  | 2 => match as_float a, as_float c with     (* float64(v) == float64(o) *)
         | Some f, Some g => fl_eqb f g
         | _, _ => false
         end
  | 3 => match a, c with                      (* same data pointer *)
         | VList i _, VList j _ | VMap i _, VMap j _ => i =? j
         | _, _ => false
         end
  | 4 => true
  | _ => false
  end.

(* the table has one row per pair of kinds *)
Lemma gen_equals_kinds_complete :
  forallb (fun k1 => forallb (fun k2 =>
    match find (fun t => (fst (fst t) =? k1) && (snd (fst t) =? k2)) gen_equals_kinds with Some _ => true | None => false end)
    [0; 1; 2; 3; 4; 5; 6; 7]) [0; 1; 2; 3; 4; 5; 6; 7] = true
  /\ List.length gen_equals_kinds = 64%nat.
Proof. split; vm_compute; reflexivity. Qed.

Theorem gen_equals_agrees a c : equals a c = equals_by_mode (equals_mode (vkind a) (vkind c)) a c.
Proof.
  destruct a, c; try reflexivity.
  (* Float receiver, Int operand: float64(v) == float64(o) with the operands in the other order *)
  cbn [equals]. unfold int_float_eqb.
  change (equals_by_mode (equals_mode (vkind (VFloat f)) (vkind (VInt z))) (VFloat f) (VInt z))
    with (match fl_of_int z with Some g => fl_eqb f g | None => false end).
  destruct (fl_of_int z); [apply fl_eqb_sym | reflexivity].
Qed.
