(* C06, part 5: the registries Bundle.Compile builds satisfy [reg_ok].
   Registry.Add is Model/Compile.v's [registry_add] (the tree after the repair that
   rejects a template name already registered; tied to the Go code by C13's harness).
   What it takes from the parser is stated as a hypothesis on each file:
   [file_pos_ok] -- every node of a template lies inside the file's text. *)
From Coq Require Import Lia ZifyN ZifyBool ZifyNat.
From Soy Require Import Model.Bytes Model.Num Model.Values Model.Outcome Model.Ast Model.MsgId Model.Compile
  Spec.Safety Proofs.ValueProofs Proofs.CompilePermProofs Proofs.InterpSub Proofs.SafetyNodes.
Open Scope N_scope.

Definition file_pos_ok (f : sfile) : bool :=
  forallb (fun n => if is_template n then node_all (pos_le (N.of_nat (length (sfile_text f)))) n else true)
          (sfile_body f).

(* ---- names_unique is NoDup ---- *)
Lemma existsb_beqb x l : existsb (bstr_eqb x) l = true <-> In x l.
Proof.
  rewrite existsb_exists. split.
  - intros (y & Hy & E). apply beqb_eq in E. subst. exact Hy.
  - intros H. exists x. split; [exact H | apply beqb_refl].
Qed.
Lemma names_unique_NoDup l : names_unique l = true <-> NoDup l.
Proof.
  induction l as [|x r IH]; cbn [names_unique]; [split; [constructor | reflexivity]|].
  rewrite andb_true_iff, negb_true_iff, IH. split.
  - intros [H1 H2]. constructor; [|exact H2]. intros Hin. apply existsb_beqb in Hin. congruence.
  - intros H. inversion H as [|? ? Hn Hd]; subst. split; [|exact Hd].
    destruct (existsb (bstr_eqb x) r) eqn:E; [apply existsb_beqb in E; contradiction | reflexivity].
Qed.

(* ---- the template a unit carries keeps the positions of the template node it comes from ---- *)
Lemma span_headers_rest nodes : forall hs rest, span_headers nodes = (hs, rest) -> forall x, In x rest -> In x nodes.
Proof.
  induction nodes as [|n r IH]; cbn [span_headers]; intros hs rest H x Hx.
  - injection H as <- <-. exact Hx.
  - destruct (is_header_param n).
    + destruct (span_headers r) as [hs' rest'] eqn:E. injection H as <- <-. right. eapply IH; eauto.
    + injection H as <- <-. exact Hx.
Qed.

Lemma template_local_node_all B fn ns ae prev tn u :
  template_local fn ns ae prev tn = inr u -> node_all (pos_le B) tn = true ->
  node_all (pos_le B) (t_node (tu_template u)) = true.
Proof.
  unfold template_local. destruct tn; try discriminate. destruct tn; try discriminate.
  destruct prev as [pv|]; [|discriminate].
  destruct (span_headers nodes) as [hs rest] eqn:Es.
  intros H Hn.
  assert (Hu : t_node (tu_template u) = NTemplate p name (NList p0 rest) autoescape private).
  { destruct hs as [|h hs']; [injection H as <-; reflexivity|].
    destruct (match pv with NSoyDoc _ ps => ps | _ => [] end); [injection H as <-; reflexivity | discriminate]. }
  rewrite Hu. cbn [node_all] in Hn |- *. split_andb.
  change (pos_le B (NTemplate p name (NList p0 rest) autoescape private)) with (pos_le B (NTemplate p name (NList p0 nodes) autoescape private)).
  change (pos_le B (NList p0 rest)) with (pos_le B (NList p0 nodes)).
  repeat (apply andb_true_intro; split); try assumption.
  apply forallb_forall. intros x Hx. eapply forallb_In; [eassumption|]. eapply span_headers_rest; eauto.
Qed.

Lemma file_units_origin fn ns ae body : forall prev u,
  In (inr u) (file_units fn ns ae prev body) ->
  exists pv tn, In tn body /\ is_template tn = true /\ template_local fn ns ae pv tn = inr u.
Proof.
  induction body as [|n r IH]; intros prev u Hin; cbn [file_units] in Hin; [contradiction|].
  apply in_app_or in Hin as [Hin|Hin].
  - destruct (is_template n) eqn:Et; [|contradiction]. destruct Hin as [Hin|[]].
    exists prev, n. split; [left; reflexivity | split; [exact Et | exact Hin]].
  - destruct (IH _ _ Hin) as (pv & tn & H1 & H2 & H3). exists pv, tn. split; [right; exact H1 | split; assumption].
Qed.

Lemma file_result_pos f ts pf t :
  file_pos_ok f = true -> file_result f = Some (ts, pf) -> In t ts ->
  node_all (pos_le (N.of_nat (length (sfile_text f)))) (t_node t) = true.
Proof.
  intros Hpos Hr Hin. unfold file_result in Hr.
  destruct (find_namespace (sfile_body f)) as [e|[ns ae]]; [discriminate|].
  destruct (units_ok _) as [l|] eqn:El; [|discriminate]. injection Hr as <- _.
  apply in_map_iff in Hin as (u & <- & Hu).
  pose proof (units_ok_In _ _ _ El Hu) as Hiu.
  destruct (file_units_origin _ _ _ _ _ _ Hiu) as (pv & tn & Htn & Hist & Hloc).
  eapply template_local_node_all; [exact Hloc|].
  unfold file_pos_ok in Hpos. pose proof (forallb_In _ _ _ Hpos Htn) as Hp. cbn beta in Hp. rewrite Hist in Hp. exact Hp.
Qed.

(* ---- one Add ---- *)
Lemma assoc_s_const_map (ts : list template) (v : bstr) t :
  In t ts -> assoc_s (t_name t) (map (fun t => (t_name t, v)) ts) = Some v.
Proof.
  induction ts as [|x r IH]; [intros []|]. intros Hin. cbn [map assoc_s].
  destruct (bstr_eqb (t_name t) (t_name x)) eqn:E; [reflexivity|].
  destruct Hin as [->|Hin]; [rewrite beqb_refl in E; discriminate | apply IH, Hin].
Qed.
Lemma assoc_s_name_file_some (ts : list template) t :
  In t ts -> exists v, assoc_s (t_name t) (map name_file ts) = Some v.
Proof.
  induction ts as [|x r IH]; [intros []|]. intros Hin. cbn [map assoc_s name_file fst].
  destruct (bstr_eqb (t_name t) (t_name x)) eqn:E; [eexists; reflexivity|].
  destruct Hin as [->|Hin]; [rewrite beqb_refl in E; discriminate | apply IH, Hin].
Qed.

Theorem registry_add_reg_ok r f r' :
  reg_inv (cr_reg r) -> reg_ok (cr_reg r) = true -> file_pos_ok f = true ->
  registry_add r f = inr r' ->
  reg_inv (cr_reg r') /\ reg_ok (cr_reg r') = true.
Proof.
  intros Hinv Hok Hpos Hadd.
  apply registry_add_ok in Hadd; [|exact Hinv]. destruct Hadd as (ts & pf & Hres & Hnd & Hfresh & ->).
  cbn [cr_reg]. split; [apply reg_inv_extend; exact Hinv|].
  unfold reg_ok in Hok |- *. apply andb_prop in Hok as [Hok Hp]. apply andb_prop in Hok as [Hu Hrec].
  set (reg := cr_reg r) in *.
  (* an old template has its entries, a new name has none *)
  assert (Hold : forall t, In t (r_templates reg) ->
            exists s fl, assoc_s (t_name t) (r_sources reg) = Some s /\ assoc_s (t_name t) (r_files reg) = Some fl).
  { intros t Ht. pose proof (forallb_In _ _ _ Hrec Ht) as H. unfold template_recorded in H.
    destruct (assoc_s (t_name t) (r_sources reg)) as [s|]; [|discriminate].
    destruct (assoc_s (t_name t) (r_files reg)) as [fl|]; [|discriminate]. eauto. }
  assert (Hnew_src : forall n, In n (map t_name ts) -> assoc_s n (r_sources reg) = None).
  { intros n Hn. apply assoc_s_None. rewrite Hinv. apply assoc_s_None. apply Hfresh. exact Hn. }
  repeat (apply andb_true_intro; split).
  - (* unique names *)
    apply names_unique_NoDup. cbn [reg_extend r_templates]. rewrite map_app. apply NoDup_app_iff.
    repeat split; [apply names_unique_NoDup; exact Hu | exact Hnd |].
    intros n H1 H2. apply in_map_iff in H1 as (t & <- & Ht).
    destruct (Hold t Ht) as (s & fl & _ & Hfl). rewrite (Hfresh _ H2) in Hfl. discriminate.
  - (* recorded *)
    apply forallb_forall. intros t Ht. cbn [reg_extend r_templates] in Ht. unfold template_recorded.
    cbn [reg_extend r_sources r_files]. rewrite !assoc_s_app.
    apply in_app_or in Ht as [Ht|Ht].
    + destruct (Hold t Ht) as (s & fl & -> & ->). reflexivity.
    + rewrite (Hnew_src _ (in_map t_name _ _ Ht)), (Hfresh _ (in_map t_name _ _ Ht)).
      rewrite (assoc_s_const_map ts (sfile_text f) t Ht). destruct (assoc_s_name_file_some ts t Ht) as [v ->]. reflexivity.
  - (* positions *)
    unfold reg_pos_ok. apply forallb_forall. intros t Ht. cbn [reg_extend r_templates] in Ht.
    unfold template_pos_ok. cbn [reg_extend r_sources]. rewrite assoc_s_app.
    apply in_app_or in Ht as [Ht|Ht].
    + destruct (Hold t Ht) as (s & fl & Hs & _). rewrite Hs.
      pose proof (forallb_In _ _ _ Hp Ht) as H. unfold template_pos_ok in H. rewrite Hs in H. exact H.
    + rewrite (Hnew_src _ (in_map t_name _ _ Ht)), (assoc_s_const_map ts (sfile_text f) t Ht).
      eapply file_result_pos; eauto.
Qed.

(* ---- the loop of Bundle.Compile ---- *)
Lemma add_all_files_reg_ok srcs : forall r r',
  reg_inv (cr_reg r) -> reg_ok (cr_reg r) = true ->
  (forall f, In (SrcOk f) srcs -> file_pos_ok f = true) ->
  add_all_files r srcs = COk r' -> reg_ok (cr_reg r') = true.
Proof.
  induction srcs as [|s rest IH]; intros r r' Hinv Hok Hpos H; cbn [add_all_files] in H.
  - injection H as <-. exact Hok.
  - destruct s as [f|name msg]; [|discriminate].
    destruct (registry_add r f) as [e|r1] eqn:Ea; [discriminate|].
    destruct (registry_add_reg_ok r f r1 Hinv Hok (Hpos f (or_introl eq_refl)) Ea) as [Hinv1 Hok1].
    apply (IH r1 r' Hinv1 Hok1); [|exact H]. intros g Hg. apply Hpos. right. exact Hg.
Qed.

Theorem compiled_reg_ok srcs r :
  (forall f, In (SrcOk f) srcs -> file_pos_ok f = true) ->
  add_all_files empty_creg srcs = COk r -> reg_ok (cr_reg r) = true.
Proof. intros Hpos H. eapply add_all_files_reg_ok; eauto; reflexivity. Qed.

(* Registry.Add has no recover of its own: its one indexing expression, Body[i-1], is never out of range *)
Theorem registry_add_never_panics r f : registry_add r f <> inl AEIndexCrash.
Proof. apply registry_add_no_crash. Qed.
