(* C05 / C18: the two halves composed.  The parser theorems (Proofs/ParserProofs.v) hold for every
   item list that is well-formed ([items_wf]: positions inside the input, minimum lengths of the
   data-reference items) and, for C18, in which an EOF item comes last ([eof_last]).  The scanner
   theorem (Proofs/LexerProofs.v, [scan_ok]) gives all of that for the items of ANY input, so the
   composed theorems of this file have no hypothesis on the items left:
     scan_items_wf_all, scan_eof_last      scan_ok -> items_wf, eof_last
     lexq_model, lexq_model_wf             the nested scanner of parseQuotedExpr IS the expression-mode
                                           scanner model, and it satisfies lexq_wf
     soy_file_total_all, soy_expr_total_all                   C05: bytes -> items -> tree or error
     scanner_fully_consumed_or_drained_file_all / _expr_all   C18: bytes -> every scanner drained or read
   strconv.Unquote ([unq]) stays universally quantified: no hypothesis is made about it.
   (Until session 4 the parser model was partial on float literals and the composed theorems carried
   [floats_ok]; the statements with that hypothesis are kept below as corollaries for their clients.) *)
From Soy Require Import Model.Bytes Model.Outcome Model.Ast Model.Token Model.NumLit Model.ExprParser Model.Parser Model.Lexer Model.ParseBytes.
From Soy Require Import Generated.Tables Proofs.ParserMeasure Proofs.ParserProofs Proofs.LexerPrim Proofs.LexerProofs Proofs.LexShift.
From Coq Require Import ZifyBool ZifyNat ZifyN Lia.
Open Scope N_scope.

(* every float item denotes a float of the parser model's EXACT float domain (no longer needed) *)
Definition floats_ok (ts : list tok) : Prop :=
  Forall (fun t => t_typ t = itemFloat -> parse_float (t_val t) <> None) ts.

(* the two translators number the item types alike *)
Lemma codes_agree :
  pit_EOF = itemEOF /\ pit_Float = itemFloat /\ pit_DollarIdent = itemDollarIdent /\ pit_DotIdent = itemDotIdent /\
  pit_DotIndex = itemDotIndex /\ pit_QuestionDotIdent = itemQuestionDotIdent /\ pit_QuestionDotIndex = itemQuestionDotIndex.
Proof. vm_compute. repeat split; reflexivity. Qed.

Lemma item_ok_twf lim t : item_ok lim t -> twf lim t.
Proof.
  intros [Hp Hv]. unfold twf, twfb. destruct codes_agree as (_ & _ & -> & -> & -> & -> & ->).
  unfold val_min in Hv.
  assert (Hp' : (t_pos t <=? lim) = true) by (apply N.leb_le; exact Hp). rewrite Hp'. cbn [andb].
  destruct (N.eqb_spec (t_typ t) itemDollarIdent) as [E1|E1]; destruct (N.eqb_spec (t_typ t) itemDotIdent) as [E2|E2];
  destruct (N.eqb_spec (t_typ t) itemDotIndex) as [E3|E3]; destruct (N.eqb_spec (t_typ t) itemQuestionDotIdent) as [E4|E4];
  destruct (N.eqb_spec (t_typ t) itemQuestionDotIndex) as [E5|E5]; cbn [orb andb] in *;
  try (exfalso; unfold itemDollarIdent, itemDotIdent, itemDotIndex, itemQuestionDotIdent, itemQuestionDotIndex in *; lia);
  try reflexivity; rewrite ?Bool.andb_true_r; apply Nat.leb_le; lia.
Qed.

(* the scanner's items are well-formed for the parser: no condition on the input *)
Lemma scan_items_wf_all lim ts : scan_ok lim ts -> items_wf lim ts.
Proof.
  intros (Hall & _). unfold items_wf in *. rewrite Forall_forall in *. intros t Hin.
  apply item_ok_twf. apply Hall; exact Hin.
Qed.

Lemma scan_items_wf lim ts : scan_ok lim ts -> floats_ok ts -> items_wf lim ts.
Proof. intros H _. apply scan_items_wf_all. exact H. Qed.

Lemma final_last_eof_last ts : final_last ts -> eof_last ts.
Proof.
  induction ts as [|t r IH]; cbn; [auto|]. intros [H1 H2]. split; [|apply IH; exact H2].
  intros E. apply H1. unfold is_final. destruct codes_agree as (<- & _). rewrite E. rewrite N.eqb_refl. reflexivity.
Qed.

Lemma scan_eof_last lim ts : scan_ok lim ts -> eof_last ts.
Proof. intros (_ & _ & H). apply final_last_eof_last. exact H. Qed.

(* ---------- the nested scanner of parseQuotedExpr: the expression-mode scanner model
   ([lexq_model], Model/ParseBytes.v) ---------- *)
Section Composed.
Variable uni_letter uni_digit : Z -> bool.
Hypothesis letter_eof : uni_letter (-1)%Z = false.
Hypothesis digit_eof : uni_digit (-1)%Z = false.

Lemma lexq_model_runs str :
  exists ts, lex_items uni_letter uni_digit (lex_budget str) true str = Ok ts /\ lexq_model uni_letter uni_digit str = ts
             /\ scan_ok (N.of_nat (length str)) ts.
Proof.
  destruct (lex_items_total _ _ letter_eof digit_eof true str) as (ts & H1 & H2).
  exists ts. unfold lexq_model. rewrite H1. auto.
Qed.

Lemma lexq_model_wf : lexq_wf (lexq_model uni_letter uni_digit).
Proof.
  intros str. destruct (lexq_model_runs str) as (ts & _ & -> & Hs). apply scan_items_wf_all. exact Hs.
Qed.

(* what Model/Parser.v hands to the nested parse -- the expression-mode scanner's items shifted by base --
   is exactly what the scanner model started at that base (lexExprAt) sends *)
Lemma nested_scanner_at_base (base : N) str :
  lex_items_at uni_letter uni_digit (Z.of_N base) (lex_budget str) str
  = Ok (map (shift_tok base) (lexq_model uni_letter uni_digit str)).
Proof.
  destruct (lexq_model_runs str) as (ts & H1 & -> & _).
  rewrite (lex_items_at_shift _ _ (Z.of_N base) _ _ _ ltac:(lia) H1). f_equal.
  unfold shift_items. apply map_ext. intros t. unfold sh, shift_tok. rewrite N2Z.id. reflexivity.
Qed.

Variable unq : bstr -> option bstr.        (* strconv.Unquote: arbitrary *)

(* C05. parse.SoyFile, scanner and parser models together: for EVERY byte string the scanner returns an
   item list and the parser, run on it with the scanner model as its nested scanner, returns a tree or
   an error (never PCrash, never PFuel), having received at most |items| + 4 items *)
Theorem soy_file_total_all (s : bstr) :
  exists ts, lex_items uni_letter uni_digit (lex_budget s) false s = Ok ts /\
    is_tree_or_error (po_result (soy_file (N.of_nat (length s)) (lexq_model uni_letter uni_digit) unq ts)) /\
    (recv_of (po_result (soy_file (N.of_nat (length s)) (lexq_model uni_letter uni_digit) unq ts)) <= length ts + 4)%nat.
Proof.
  destruct (lex_items_total _ _ letter_eof digit_eof false s) as (ts & Hl & Hs).
  exists ts. split; [exact Hl|].
  pose proof (scan_items_wf_all _ _ Hs) as Hw. split.
  - apply soy_file_total; [apply lexq_model_wf|assumption].
  - unfold soy_file. apply parse_linear; [apply lexq_model_wf|assumption|unfold file_fuel; lia].
Qed.

(* parse.Expr likewise *)
Theorem soy_expr_total_all (s : bstr) :
  exists ts, lex_items uni_letter uni_digit (lex_budget s) true s = Ok ts /\
    is_tree_or_error (po_result (soy_expr (N.of_nat (length s)) ts)) /\
    (recv_of (po_result (soy_expr (N.of_nat (length s)) ts)) <= length ts + 4)%nat.
Proof.
  destruct (lex_items_total _ _ letter_eof digit_eof true s) as (ts & Hl & Hs).
  exists ts. split; [exact Hl|].
  pose proof (scan_items_wf_all _ _ Hs) as Hw. split.
  - apply parse_expr_total; assumption.
  - apply parse_expr_linear; assumption.
Qed.

(* C18. parse.SoyFile on EVERY byte string: the call returns a tree or an error, and every scanner it
   started -- its own, and the expression-mode scanner of every quoted attribute expression -- is
   drained or had all its items received *)
Theorem scanner_fully_consumed_or_drained_file_all (s : bstr) :
  exists ts, lex_items uni_letter uni_digit (lex_budget s) false s = Ok ts /\
    let o := soy_file (N.of_nat (length s)) (lexq_model uni_letter uni_digit) unq ts in
    is_tree_or_error (po_result o)
    /\ (exists own nested, po_scans o = own :: nested /\ sc_sent own = length ts)
    /\ Forall (fun r => scan_done r = true) (po_scans o).
Proof.
  destruct (lex_items_total _ _ letter_eof digit_eof false s) as (ts & Hl & Hs).
  exists ts. split; [exact Hl|]. unfold soy_file.
  apply scanner_fully_consumed_or_drained_file;
    [apply lexq_model_wf|apply scan_items_wf_all; exact Hs|eapply scan_eof_last; exact Hs|unfold file_fuel; lia].
Qed.

(* parse.Expr (hence every line of soy.ParseGlobals) on EVERY byte string *)
Theorem scanner_fully_consumed_or_drained_expr_all (s : bstr) :
  exists ts, lex_items uni_letter uni_digit (lex_budget s) true s = Ok ts /\
    let o := soy_expr (N.of_nat (length s)) ts in
    is_tree_or_error (po_result o)
    /\ (exists own, po_scans o = [own] /\ sc_sent own = length ts)
    /\ Forall (fun r => scan_done r = true) (po_scans o).
Proof.
  destruct (lex_items_total _ _ letter_eof digit_eof true s) as (ts & Hl & Hs).
  exists ts. split; [exact Hl|].
  apply scanner_fully_consumed_or_drained_expr. apply scan_items_wf_all. exact Hs.
Qed.

End Composed.

(* ---- the earlier statements (any well-formed nested scanner; the float hypothesis is now idle) ---- *)
Section ComposedAnyNested.
Variable uni_letter uni_digit : Z -> bool.
Hypothesis letter_eof : uni_letter (-1)%Z = false.
Hypothesis digit_eof : uni_digit (-1)%Z = false.
Variable lexq : bstr -> list tok.          (* the nested scanner of parseQuotedExpr *)
Variable unq : bstr -> option bstr.        (* unquoteString *)
Hypothesis Hlexq : lexq_wf lexq.

Theorem soy_file_total_composed (s : bstr) :
  exists ts, lex_items uni_letter uni_digit (lex_budget s) false s = Ok ts /\
    (floats_ok ts ->
       is_tree_or_error (po_result (soy_file (N.of_nat (length s)) lexq unq ts)) /\
       (recv_of (po_result (parse_file (N.of_nat (length s)) lexq unq parse_expr expr_fuel (file_fuel ts) ts)) <= length ts + 4)%nat).
Proof.
  destruct (lex_items_total _ _ letter_eof digit_eof false s) as (ts & Hl & Hs).
  exists ts. split; [exact Hl|]. intros _.
  pose proof (scan_items_wf_all _ _ Hs) as Hw. split.
  - apply soy_file_total; assumption.
  - apply parse_linear; [assumption|assumption|unfold file_fuel; lia].
Qed.

Theorem soy_expr_total_composed (s : bstr) :
  exists ts, lex_items uni_letter uni_digit (lex_budget s) true s = Ok ts /\
    (floats_ok ts ->
       is_tree_or_error (po_result (soy_expr (N.of_nat (length s)) ts)) /\
       (recv_of (po_result (soy_expr (N.of_nat (length s)) ts)) <= length ts + 4)%nat).
Proof.
  destruct (soy_expr_total_all _ _ letter_eof digit_eof s) as (ts & Hl & H). exists ts. split; [exact Hl|]. intros _. exact H.
Qed.

End ComposedAnyNested.

(* the same two statements about the composed functions of Model/ParseBytes.v *)
Definition all_scans_done (o : parse_out) : Prop :=
  is_tree_or_error (po_result o) /\ po_scans o <> [] /\ Forall (fun r => scan_done r = true) (po_scans o).

Theorem soy_file_bytes_no_goroutine_left (uni_letter uni_digit : Z -> bool) :
  uni_letter (-1)%Z = false -> uni_digit (-1)%Z = false ->
  forall unq s, exists o, soy_file_bytes uni_letter uni_digit unq s = Ok o /\ all_scans_done o.
Proof.
  intros Hl Hd unq s. destruct (scanner_fully_consumed_or_drained_file_all _ _ Hl Hd unq s) as (ts & H1 & H2 & (own & nested & H3 & _) & H4).
  eexists. unfold soy_file_bytes. rewrite H1. cbn [bind]. split; [reflexivity|].
  split; [exact H2|]. split; [rewrite H3; discriminate|exact H4].
Qed.

Theorem soy_expr_bytes_no_goroutine_left (uni_letter uni_digit : Z -> bool) :
  uni_letter (-1)%Z = false -> uni_digit (-1)%Z = false ->
  forall s, exists o, soy_expr_bytes uni_letter uni_digit s = Ok o /\ all_scans_done o.
Proof.
  intros Hl Hd s. destruct (scanner_fully_consumed_or_drained_expr_all _ _ Hl Hd s) as (ts & H1 & H2 & (own & H3 & _) & H4).
  eexists. unfold soy_expr_bytes. rewrite H1. cbn [bind]. split; [reflexivity|].
  split; [exact H2|]. split; [rewrite H3; discriminate|exact H4].
Qed.

(* the instance the model runner executes: the unicode tables regenerated from the toolchain *)
Theorem scanner_fully_consumed_or_drained_file_tbl (unq : bstr -> option bstr) (s : bstr) :
  exists ts, lex_items is_letter_tbl is_digit_tbl (lex_budget s) false s = Ok ts /\
    let o := soy_file (N.of_nat (length s)) (lexq_model is_letter_tbl is_digit_tbl) unq ts in
    is_tree_or_error (po_result o) /\ Forall (fun r => scan_done r = true) (po_scans o).
Proof.
  destruct tables_eof as [Hl Hd].
  destruct (scanner_fully_consumed_or_drained_file_all _ _ Hl Hd unq s) as (ts & H1 & H2 & _ & H3).
  exists ts. auto.
Qed.

(* the expression-mode scanner model is a nested scanner in the sense of [lexq_wf] on every string *)
Lemma lex_expr_items_wf (uni_letter uni_digit : Z -> bool) :
  uni_letter (-1)%Z = false -> uni_digit (-1)%Z = false ->
  forall str, exists ts, lex_items uni_letter uni_digit (lex_budget str) true str = Ok ts /\
                         (floats_ok ts -> items_wf (N.of_nat (length str)) ts).
Proof.
  intros Hl Hd str. destruct (lex_items_total _ _ Hl Hd true str) as (ts & H1 & H2).
  exists ts. split; [exact H1|]. intros _. apply scan_items_wf_all; assumption.
Qed.
