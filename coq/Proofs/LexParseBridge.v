(* C05: the two halves composed.  The parser theorems (Proofs/ParserProofs.v) hold for every item
   list that is well-formed ([items_wf]: positions inside the input, minimum lengths of the
   data-reference items, float items in the float model's domain) and, for C18, in which an EOF
   item comes last ([eof_last]).  The scanner theorem (Proofs/LexerProofs.v, [scan_ok]) gives all
   of that for the items of ANY input except the float-domain condition, which is a restriction of
   the parser model (Model/NumLit.v parse_float: exact decimal values only), not a property of the
   scanner: it stays a hypothesis on the input ([floats_ok]). *)
From Soy Require Import Model.Bytes Model.Outcome Model.Ast Model.Token Model.NumLit Model.ExprParser Model.Parser Model.Lexer.
From Soy Require Import Generated.Tables Proofs.ParserMeasure Proofs.ParserProofs Proofs.LexerPrim Proofs.LexerProofs.
From Coq Require Import ZifyBool ZifyNat ZifyN Lia.
Open Scope N_scope.

(* every float item denotes a float of the parser model's domain *)
Definition floats_ok (ts : list tok) : Prop :=
  Forall (fun t => t_typ t = itemFloat -> parse_float (t_val t) <> None) ts.

(* the two translators number the item types alike *)
Lemma codes_agree :
  pit_EOF = itemEOF /\ pit_Float = itemFloat /\ pit_DollarIdent = itemDollarIdent /\ pit_DotIdent = itemDotIdent /\
  pit_DotIndex = itemDotIndex /\ pit_QuestionDotIdent = itemQuestionDotIdent /\ pit_QuestionDotIndex = itemQuestionDotIndex.
Proof. vm_compute. repeat split; reflexivity. Qed.

Lemma item_ok_twf lim t : item_ok lim t -> (t_typ t = itemFloat -> parse_float (t_val t) <> None) -> twf lim t.
Proof.
  intros [Hp Hv] Hf. unfold twf, twfb. destruct codes_agree as (_ & -> & -> & -> & -> & -> & ->).
  unfold val_min in Hv.
  assert (Hfl : (if t_typ t =? itemFloat then match parse_float (t_val t) with Some _ => true | None => false end else true) = true).
  { destruct (t_typ t =? itemFloat) eqn:E6; [|reflexivity].
    apply N.eqb_eq in E6. specialize (Hf E6). destruct (parse_float (t_val t)); [reflexivity|congruence]. }
  rewrite Hfl. rewrite Bool.andb_true_r.
  assert (Hp' : (t_pos t <=? lim) = true) by (apply N.leb_le; exact Hp). rewrite Hp'. cbn [andb].
  destruct (N.eqb_spec (t_typ t) itemDollarIdent) as [E1|E1]; destruct (N.eqb_spec (t_typ t) itemDotIdent) as [E2|E2];
  destruct (N.eqb_spec (t_typ t) itemDotIndex) as [E3|E3]; destruct (N.eqb_spec (t_typ t) itemQuestionDotIdent) as [E4|E4];
  destruct (N.eqb_spec (t_typ t) itemQuestionDotIndex) as [E5|E5]; cbn [orb andb] in *;
  try (exfalso; unfold itemDollarIdent, itemDotIdent, itemDotIndex, itemQuestionDotIdent, itemQuestionDotIndex in *; lia);
  try reflexivity; rewrite ?Bool.andb_true_r; apply Nat.leb_le; lia.
Qed.

Lemma scan_items_wf lim ts : scan_ok lim ts -> floats_ok ts -> items_wf lim ts.
Proof.
  intros (Hall & _) Hf. unfold items_wf, floats_ok in *. rewrite Forall_forall in *. intros t Hin.
  apply item_ok_twf; [apply Hall; exact Hin|apply Hf; exact Hin].
Qed.

Lemma final_last_eof_last ts : final_last ts -> eof_last ts.
Proof.
  induction ts as [|t r IH]; cbn; [auto|]. intros [H1 H2]. split; [|apply IH; exact H2].
  intros E. apply H1. unfold is_final. destruct codes_agree as (<- & _). rewrite E. rewrite N.eqb_refl. reflexivity.
Qed.

Lemma scan_eof_last lim ts : scan_ok lim ts -> eof_last ts.
Proof. intros (_ & _ & H). apply final_last_eof_last. exact H. Qed.

Section Composed.
Variable uni_letter uni_digit : Z -> bool.
Hypothesis letter_eof : uni_letter (-1)%Z = false.
Hypothesis digit_eof : uni_digit (-1)%Z = false.
Variable lexq : bstr -> list tok.          (* the nested scanner of parseQuotedExpr *)
Variable unq : bstr -> option bstr.        (* unquoteString *)
Hypothesis Hlexq : lexq_wf lexq.

(* parse.SoyFile, scanner and parser models together: for EVERY byte string whose float literals lie in
   the parser model's float domain, the scanner returns an item list and the parser, run on it, returns
   a tree or an error (never PCrash, never PFuel), having received at most |items| + 4 items *)
Theorem soy_file_total_composed (s : bstr) :
  exists ts, lex_items uni_letter uni_digit (lex_budget s) false s = Ok ts /\
    (floats_ok ts ->
       is_tree_or_error (po_result (soy_file (N.of_nat (length s)) lexq unq ts)) /\
       (recv_of (po_result (parse_file (N.of_nat (length s)) lexq unq parse_expr expr_fuel (file_fuel ts) ts)) <= length ts + 4)%nat).
Proof.
  destruct (lex_items_total _ _ letter_eof digit_eof false s) as (ts & Hl & Hs).
  exists ts. split; [exact Hl|]. intros Hf.
  pose proof (scan_items_wf _ _ Hs Hf) as Hw. split.
  - apply soy_file_total; assumption.
  - apply parse_linear; [assumption|assumption|unfold file_fuel; lia].
Qed.

(* parse.Expr likewise *)
Theorem soy_expr_total_composed (s : bstr) :
  exists ts, lex_items uni_letter uni_digit (lex_budget s) true s = Ok ts /\
    (floats_ok ts ->
       is_tree_or_error (po_result (soy_expr (N.of_nat (length s)) ts)) /\
       (recv_of (po_result (soy_expr (N.of_nat (length s)) ts)) <= length ts + 4)%nat).
Proof.
  destruct (lex_items_total _ _ letter_eof digit_eof true s) as (ts & Hl & Hs).
  exists ts. split; [exact Hl|]. intros Hf.
  pose proof (scan_items_wf _ _ Hs Hf) as Hw. split.
  - apply parse_expr_total; assumption.
  - apply parse_expr_linear; assumption.
Qed.

End Composed.

(* the expression-mode scanner model is a nested scanner in the sense of [lexq_wf] on every string whose
   float literals are in the domain *)
Lemma lex_expr_items_wf (uni_letter uni_digit : Z -> bool) :
  uni_letter (-1)%Z = false -> uni_digit (-1)%Z = false ->
  forall str, exists ts, lex_items uni_letter uni_digit (lex_budget str) true str = Ok ts /\
                         (floats_ok ts -> items_wf (N.of_nat (length str)) ts).
Proof.
  intros Hl Hd str. destruct (lex_items_total _ _ Hl Hd true str) as (ts & H1 & H2).
  exists ts. split; [exact H1|]. intros Hf. apply scan_items_wf; assumption.
Qed.
