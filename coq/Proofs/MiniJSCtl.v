(* C04, the statement stages: raw text, print, let (value form), if / elseif / else and switch, with nested
   blocks.  Three sides, each by mutual induction on the statement:
     JsStmts   -- the MiniJS meaning of the generated statement (js_exec_correct)
     GoStmts   -- the walker of Model/Interp.v (interp_stmt)
     StmtChunks -- the walker of Model/JsGen.v emits the printer's chunks (sgen_print)
   and gen_correct_partial_stmt puts them together. *)
From Soy Require Import Model.Bytes Model.Num Model.Values Model.Outcome Model.Ast Model.JsGen Model.MiniJS
  Model.Escape Model.Directives Model.Print Generated.Tables Model.Interp
  Proofs.EscapeProofs Proofs.MiniJSProofs Proofs.MiniJSPrint Proofs.MiniJSStmt Model.MsgId Proofs.MsgIdProofs.
Open Scope N_scope.

Scheme cstmt_m := Induction for cstmt Sort Prop
  with cblk_m := Induction for cblk Sort Prop
  with celse_m := Induction for celse Sort Prop
  with ccases_m := Induction for ccases Sort Prop
  with cparams_m := Induction for cparams Sort Prop
  with cplur_m := Induction for cplur Sort Prop.
Combined Scheme cstmt_mutind from cstmt_m, cblk_m, celse_m, ccases_m, cparams_m, cplur_m.

(* ---- unfolding equations of the mutual definitions (cbn does not refold them) ---- *)
Section Eqs.
Variable ij : option value.
Variable mode : N.
Variable pt : N -> list pdir -> bstr -> bstr.
Variable buf : bstr.
Variable dv : bstr -> option value.
Variable cl : bstr -> (bstr -> option value) -> option bstr.
Notation sout' := (sout ij mode pt dv cl). Notation bout' := (bout ij mode pt dv cl). Notation eout' := (eout ij mode pt dv cl). Notation kout' := (kout ij mode pt dv cl).
Notation pout' := (pout ij mode pt dv cl). Notation qout' := (qout ij mode pt dv cl).
Lemma sout_raw env t : sout' env (SRaw t) = Some (t, env). Proof. reflexivity. Qed.
Lemma sout_print env e ds : sout' env (SPrint e ds)
  = match ceval ij env e with
    | Some v => match scalar_string v with
                | Some str => if cleanb str then Some (pt mode ds str, env) else None
                | None => None
                end
    | None => None
    end.
Proof. reflexivity. Qed.
Lemma sout_let env name e : sout' env (SLet name e)
  = if bstr_eqb name n_ij then None else if is_ident name then match ceval ij env e with Some v => Some ([], env_set env name v) | None => None end else None.
Proof. reflexivity. Qed.
Lemma sout_letc env name body : sout' env (SLetC name body)
  = if bstr_eqb name n_ij then None else if is_ident name then match bout' env body with Some t => Some ([], env_set env name (VStr t)) | None => None end else None.
Proof. reflexivity. Qed.
Lemma sout_if env c th rest : sout' env (SIf c th rest)
  = match ceval ij env c with
    | Some v => match (if truthy v then bout' env th else eout' env rest) with Some t => Some (t, env) | None => None end
    | None => None
    end.
Proof. reflexivity. Qed.
Lemma sout_switch env v cs : sout' env (SSwitch v cs)
  = match ceval ij env v with
    | Some sv => if prim_value sv then match kout' env sv cs with Some t => Some (t, env) | None => None end else None
    | None => None
    end.
Proof. reflexivity. Qed.
Lemma sout_for env x e body hasie ie : sout' env (SFor x e body hasie ie)
  = if is_ident x && negb (bstr_eqb x n_ij) then
      match ceval ij env e with
      | Some (VList _ l) =>
          if small (Z.of_nat (length l)) then
            match l with
            | [] => if hasie then match bout' env ie with Some t => Some (t, env) | None => None end else Some ([], env)
            | _ :: _ =>
                match for_out (fun en => bout' en body) x (env_set env (x ++ c_lastindex) (VInt (Z.of_nat (length l) - 1))) 0%Z l with
                | Some t => Some (t, env)
                | None => None
                end
            end
          else None
      | _ => None
      end
    else None.
Proof. reflexivity. Qed.
Lemma sout_forrange env x a1 rest body hasie ie : sout' env (SForRange x a1 rest body hasie ie)
  = if is_ident x && negb (bstr_eqb x n_ij) then
      match cints ij env (a1 :: rest) with
      | Some zs =>
          match range_args 0%Z 1%Z zs with
          | Some (a, l, st) =>
              if (0 <? st)%Z && small (l - a) then
                let items := range_items (Z.to_nat (Z.max 0 (l - a))) a l st in
                match items with
                | [] => if hasie then match bout' env ie with Some t => Some (t, env) | None => None end else Some ([], env)
                | _ :: _ =>
                    match for_out (fun en => bout' en body) x (env_set env (x ++ c_lastindex) (VInt (Z.of_nat (length items) - 1))) 0%Z items with
                    | Some t => Some (t, env)
                    | None => None
                    end
                end
              else None
          | None => None
          end
      | None => None
      end
    else None.
Proof. reflexivity. Qed.
Lemma sout_css env e sfx : sout' env (SCss e sfx)
  = match e with
    | None => Some (sfx, env)
    | Some x => match ceval ij env x with
                | Some v => match scalar_string v with Some str => Some ((str ++ [45]) ++ sfx, env) | None => None end
                | None => None
                end
    end.
Proof. reflexivity. Qed.
Lemma sout_call env name d ps : sout' env (SCall name d ps)
  = match cdata_env ij dv env d with
    | Some base => match pout' env ps base with
                   | Some cenv => match cl name cenv with Some t => Some (t, env) | None => None end
                   | None => None
                   end
    | None => None
    end.
Proof. reflexivity. Qed.
Lemma sout_msg env body : sout' env (SMsg body)
  = if msg_ok body then match bout' env body with Some t => Some (t, env) | None => None end else None.
Proof. reflexivity. Qed.
Lemma sout_msgpl env pn v q : sout' env (SMsgPl pn v q)
  = match ceval ij env v with
    | Some (VInt i) => match qout' env i q with Some t => Some (t, env) | None => None end
    | _ => None
    end.
Proof. reflexivity. Qed.
Lemma qout_dflt env i b : qout' env i (QDflt b) = if msg_ok b then bout' env b else None. Proof. reflexivity. Qed.
Lemma qout_case env i z b r : qout' env i (QCase z b r) = if (i =? z)%Z then (if msg_ok b then bout' env b else None) else qout' env i r.
Proof. reflexivity. Qed.
Lemma pout_nil env acc : pout' env PNil acc = Some acc. Proof. reflexivity. Qed.
Lemma pout_val env k e r acc : pout' env (PVal k e r) acc
  = if is_ident k then match ceval ij env e with Some v => pout' env r (env_set acc k v) | None => None end else None.
Proof. reflexivity. Qed.
Lemma pout_cont env k body r acc : pout' env (PCont k body r) acc
  = if is_ident k then match bout' env body with Some t => pout' env r (env_set acc k (VStr t)) | None => None end else None.
Proof. reflexivity. Qed.
Lemma bout_nil env : bout' env BNil = Some []. Proof. reflexivity. Qed.
Lemma bout_cons env s r : bout' env (BCons s r)
  = match sout' env s with
    | Some (a, env1) => match bout' env1 r with Some c => Some (a ++ c) | None => None end
    | None => None
    end.
Proof. reflexivity. Qed.
Lemma eout_none env : eout' env ENone = Some []. Proof. reflexivity. Qed.
Lemma eout_else env b : eout' env (EElse b) = bout' env b. Proof. reflexivity. Qed.
Lemma eout_elif env c th rest : eout' env (EElif c th rest)
  = match ceval ij env c with Some v => if truthy v then bout' env th else eout' env rest | None => None end.
Proof. reflexivity. Qed.
Lemma kout_none env sv : kout' env sv KNone = Some []. Proof. reflexivity. Qed.
Lemma kout_default env sv b : kout' env sv (KDefault b) = bout' env b. Proof. reflexivity. Qed.
Lemma kout_case env sv v vs b rest : kout' env sv (KCase v vs b rest)
  = match khit ij env sv (v :: vs) with Some true => bout' env b | Some false => kout' env sv rest | None => None end.
Proof. reflexivity. Qed.

Notation sgen' := (sgen mode buf). Notation bgen' := (bgen mode buf). Notation egen' := (egen mode buf). Notation kgen' := (kgen mode buf).
Lemma sgen_raw sc n t : sgen' sc n (SRaw t) = (JSAppendLit buf t, (sc, n)). Proof. reflexivity. Qed.
Lemma sgen_print_eq sc n e ds : sgen' sc n (SPrint e ds) = (JSAppend buf (cgen_print_expr mode ds (cgen sc e)), (sc, n)). Proof. reflexivity. Qed.
Lemma sgen_let sc n name e : sgen' sc n (SLet name e)
  = (JSVar (jsc_name name (n + 1)) (cgen sc e), (jsc_bind_pure sc name (jsc_name name (n + 1)), n + 1)).
Proof. reflexivity. Qed.
Lemma sgen_letc sc n name body : sgen' sc n (SLetC name body)
  = let '(jb, n1) := bgen mode (jsc_name name (n + 1)) ([] :: sc) (n + 1) body in
    (JSVarBlock (jsc_name name (n + 1)) jb, (jsc_bind_pure sc name (jsc_name name (n + 1)), n1)).
Proof. reflexivity. Qed.
Lemma sgen_if sc n c th rest : sgen' sc n (SIf c th rest)
  = let '(jt, n1) := bgen' ([] :: sc) n th in let '(jr, n2) := egen' sc n1 rest in (JSIf (cgen sc c) jt jr, (sc, n2)).
Proof. reflexivity. Qed.
Lemma sgen_switch sc n v cs : sgen' sc n (SSwitch v cs) = let '(jc, n1) := kgen' sc n cs in (JSSwitch (cgen sc v) jc, (sc, n1)).
Proof. reflexivity. Qed.
Lemma sgen_for sc n x e body hasie ie : sgen' sc n (SFor x e body hasie ie)
  = let '(jb, n1) := bgen' ([] :: loop_frame x (n + 1) :: sc) (n + 1) body in
    let '(ji, n2) := if hasie then bgen' ([] :: sc) n1 ie else (JBNil, n1) in
    (JSForeach (jsc_name x (n + 1)) (jsc_name (x ++ t_list) (n + 1)) (jsc_name (x ++ t_limit) (n + 1)) (jsc_name (x ++ t_index) (n + 1))
               (cgen sc e) jb hasie ji, (sc, n2)).
Proof. reflexivity. Qed.
Lemma sgen_forrange sc n x a1 rest body hasie ie : sgen' sc n (SForRange x a1 rest body hasie ie)
  = let '(jb, n1) := bgen' ([] :: loop_frame x (n + 1) :: sc) (n + 1) body in
    let '(ji, n2) := if hasie then bgen' ([] :: sc) n1 ie else (JBNil, n1) in
    let '(ei, el, es) := match range_args (JENum 0) (JENum 1) (map (cgen sc) (a1 :: rest)) with
                         | Some t => t
                         | None => (JENull, JENull, JENull)
                         end in
    (JSForRange (jsc_name x (n + 1)) (jsc_name (x ++ t_init) (n + 1)) (jsc_name (x ++ t_step) (n + 1)) (jsc_name (x ++ t_limit) (n + 1))
                (jsc_name (x ++ t_index) (n + 1)) ei es el jb hasie ji, (sc, n2)).
Proof. reflexivity. Qed.
Lemma sgen_css sc n e sfx : sgen' sc n (SCss e sfx) = (JSCss buf (match e with Some x => Some (cgen sc x) | None => None end) sfx, (sc, n)).
Proof. reflexivity. Qed.
Lemma sgen_call sc n name d ps : sgen' sc n (SCall name d ps) = let '(jps, n1) := pgen mode sc n ps in (JSCall buf name (dgen sc d) jps, (sc, n1)).
Proof. reflexivity. Qed.
Lemma sgen_msg sc n body : sgen' sc n (SMsg body) = let '(jb, n1) := bgen' sc n body in (JSSeq jb, (sc, n1)).
Proof. reflexivity. Qed.
Lemma sgen_msgpl sc n pn v q : sgen' sc n (SMsgPl pn v q) = let '(jk, n1) := qgen mode buf sc n q in (JSPlural (cgen sc v) jk, (sc, n1)).
Proof. reflexivity. Qed.
Lemma qgen_dflt sc n b : qgen mode buf sc n (QDflt b) = let '(jb, n1) := bgen' sc n b in (JKDefault jb, n1). Proof. reflexivity. Qed.
Lemma qgen_case sc n z b r : qgen mode buf sc n (QCase z b r)
  = let '(jb, n1) := bgen' sc n b in let '(jr, n2) := qgen mode buf sc n1 r in (JKCase (JENum z) [] jb jr, n2).
Proof. reflexivity. Qed.
Lemma pgen_nil sc n : pgen mode sc n PNil = (JPNil, n). Proof. reflexivity. Qed.
Lemma pgen_val sc n k e r : pgen mode sc n (PVal k e r) = let '(jr, n1) := pgen mode sc n r in (JPVal k (cgen sc e) jr, n1). Proof. reflexivity. Qed.
Lemma pgen_cont sc n k body r : pgen mode sc n (PCont k body r)
  = let '(jb, n1) := bgen mode (jsc_name t_param (n + 1)) ([] :: sc) (n + 1) body in
    let '(jr, n2) := pgen mode sc n1 r in (JPCont k (jsc_name t_param (n + 1)) jb jr, n2).
Proof. reflexivity. Qed.
Lemma bgen_nil sc n : bgen' sc n BNil = (JBNil, n). Proof. reflexivity. Qed.
Lemma bgen_cons sc n s r : bgen' sc n (BCons s r)
  = let '(j, (sc1, n1)) := sgen' sc n s in let '(jr, n2) := bgen' sc1 n1 r in (JBCons j jr, n2).
Proof. reflexivity. Qed.
Lemma egen_none sc n : egen' sc n ENone = (JLNone, n). Proof. reflexivity. Qed.
Lemma egen_else sc n b : egen' sc n (EElse b) = let '(jb, n1) := bgen' ([] :: sc) n b in (JLElse jb, n1). Proof. reflexivity. Qed.
Lemma egen_elif sc n c th rest : egen' sc n (EElif c th rest)
  = let '(jt, n1) := bgen' ([] :: sc) n th in let '(jr, n2) := egen' sc n1 rest in (JLElif (cgen sc c) jt jr, n2).
Proof. reflexivity. Qed.
Lemma kgen_none sc n : kgen' sc n KNone = (JKNone, n). Proof. reflexivity. Qed.
Lemma kgen_default sc n b : kgen' sc n (KDefault b) = let '(jb, n1) := bgen' ([] :: sc) n b in (JKDefault jb, n1). Proof. reflexivity. Qed.
Lemma kgen_case sc n v vs b rest : kgen' sc n (KCase v vs b rest)
  = let '(jb, n1) := bgen' ([] :: sc) n b in let '(jr, n2) := kgen' sc n1 rest in (JKCase (cgen sc v) (map (cgen sc) vs) jb jr, n2).
Proof. reflexivity. Qed.
End Eqs.

Section ExecEqs.
Variable jfn : bstr -> jval -> jval -> outcome bstr.
Notation js_exec := (js_exec jfn). Notation jb_exec := (jb_exec jfn). Notation jl_exec := (jl_exec jfn). Notation jk_exec := (jk_exec jfn).
Lemma js_exec_var env g e : js_exec env (JSVar g e) = (v <- js_eval env e ;; Ok {| je_vars := aset (je_vars env) g v; je_data := je_data env |}).
Proof. reflexivity. Qed.
Lemma js_exec_varblock env g body : js_exec env (JSVarBlock g body) = jb_exec {| je_vars := aset (je_vars env) g (JStr []); je_data := je_data env |} body.
Proof. reflexivity. Qed.
Lemma js_exec_if env c th rest : js_exec env (JSIf c th rest) = (v <- js_eval env c ;; if js_truthy v then jb_exec env th else jl_exec env rest).
Proof. reflexivity. Qed.
Lemma js_exec_switch env v cs : js_exec env (JSSwitch v cs) = (sv <- js_eval env v ;; jk_exec env sv cs).
Proof. reflexivity. Qed.
Lemma js_exec_foreach env vd vlist vlen vidx e body hasie ie : js_exec env (JSForeach vd vlist vlen vidx e body hasie ie)
  = (v <- js_eval env e ;;
     match v with
     | JArr l =>
         let c := Z.of_nat (length l) in
         let env2 := jvset (jvset env vlist v) vlen (JNum c) in
         if hasie && (c <=? 0)%Z then jb_exec env2 ie
         else js_for (fun en => jb_exec en body) (js_item_elem vlist) vd vlen vidx (length l) (jvset env2 vidx (JNum 0))
     | JUndef | JNull => Err je_type
     | _ => OutOfModel
     end).
Proof. reflexivity. Qed.
Lemma js_exec_forrange env vd vinit vstep vlen vidx ei es el body hasie ie : js_exec env (JSForRange vd vinit vstep vlen vidx ei es el body hasie ie)
  = (vi <- js_eval env ei ;;
     let env1 := jvset env vinit vi in
     vs <- js_eval env1 es ;;
     let env2 := jvset env1 vstep vs in
     vl <- js_eval env2 el ;;
     match vl, jvget env2 vinit, jvget env2 vstep with
     | JNum l, Some (JNum a), Some (JNum s) =>
         cv <- js_range_count l a s ;;
         match cv with
         | JNum c =>
             let env3 := jvset env2 vlen cv in
             if hasie && (c <=? 0)%Z then jb_exec env3 ie
             else js_for (fun en => jb_exec en body) (js_item_lin vinit vstep) vd vlen vidx (Z.to_nat c) (jvset env3 vidx (JNum 0))
         | _ => OutOfModel
         end
     | _, _, _ => OutOfModel
     end).
Proof. reflexivity. Qed.
Lemma js_exec_css env buf e sfx : js_exec env (JSCss buf e sfx)
  = (env1 <- match e with
             | Some x => v <- js_eval env x ;; match js_tostring v with Some s => js_append_text env buf (s ++ [45]) | None => OutOfModel end
             | None => Ok env
             end ;;
     js_append_text env1 buf sfx).
Proof. reflexivity. Qed.
Lemma jb_exec_cons env s r : jb_exec env (JBCons s r) = (env' <- js_exec env s ;; jb_exec env' r). Proof. reflexivity. Qed.
Lemma jl_exec_elif env c th rest : jl_exec env (JLElif c th rest) = (v <- js_eval env c ;; if js_truthy v then jb_exec env th else jl_exec env rest).
Proof. reflexivity. Qed.
Lemma jk_exec_case env sv v vs b rest : jk_exec env sv (JKCase v vs b rest) = (h <- jk_hit env sv (v :: vs) ;; if h then jb_exec env b else jk_exec env sv rest).
Proof. reflexivity. Qed.
Lemma js_exec_call env buf name d ps : js_exec env (JSCall buf name d ps)
  = (env1 <- jp_exec jfn env ps ;; dv <- js_call_data env1 d (jp_args ps) ;; r <- jfn name dv (js_ij_arg env1) ;; js_append_text env1 buf r).
Proof. reflexivity. Qed.
Lemma js_exec_seq env b : js_exec env (JSSeq b) = jb_exec env b. Proof. reflexivity. Qed.
Lemma js_exec_plural env v cs : js_exec env (JSPlural v cs) = (sv <- js_eval env v ;; jk_exec env sv cs).
Proof. reflexivity. Qed.
Lemma jp_exec_cont env k g body r : jp_exec jfn env (JPCont k g body r) = (env1 <- jb_exec (jvset env g (JStr [])) body ;; jp_exec jfn env1 r).
Proof. reflexivity. Qed.
End ExecEqs.

(* ---- small facts ---- *)
Lemma ceval_ext ij env1 env2 : (forall k, env1 k = env2 k) -> forall e, ceval ij env1 e = ceval ij env2 e.
Proof.
  intros H. induction e as [| x | z | s | key accs | a IHa | a IHa | op a IHa c IHc | c IHc a IHa d IHd | k x]; cbn [ceval]; try reflexivity.
  - rewrite H. reflexivity.
  - rewrite IHa. reflexivity.
  - rewrite IHa. reflexivity.
  - rewrite IHa, IHc. reflexivity.
  - rewrite IHc, IHa, IHd. reflexivity.
  - rewrite !H. reflexivity.
Qed.

Lemma scalar_string_ok v s : scalar_string v = Some s -> printable_scalar v = true /\ value_string v = Ok s /\ js_tostring (to_js v) = Some s.
Proof. destruct v; try discriminate; intro H; try destruct x; inversion H; subst; repeat split; reflexivity. Qed.
Lemma cleanb_ok s : cleanb s = true -> clean s.
Proof.
  unfold cleanb, clean. intro H. apply Forall_forall. intros c Hc. pose proof (proj1 (forallb_forall _ _) H c Hc) as Hb.
  apply andb_prop in Hb. destruct Hb as [H1 H2]. apply negb_true_iff in H1, H2. split; apply N.eqb_neq; assumption.
Qed.

Lemma assoc_s_aset_other {A} k k' (v : A) l : bstr_eqb k k' = false -> assoc_s k (aset l k' v) = assoc_s k l.
Proof.
  intro Hk. induction l as [|[k2 x] l IH]; cbn [aset]; unfold assoc_s; fold (@assoc_s A).
  - rewrite Hk. reflexivity.
  - destruct (bstr_eqb k' k2) eqn:E2; unfold assoc_s; fold (@assoc_s A).
    + apply bstr_eqb_true in E2. subst k2. rewrite Hk. reflexivity.
    + destruct (bstr_eqb k k2); [reflexivity|exact IH].
Qed.

Lemma bstr_eqb_false_ne x y : x <> y -> bstr_eqb x y = false.
Proof. intro H. destruct (bstr_eqb x y) eqn:E; [|reflexivity]. apply bstr_eqb_true in E. contradiction. Qed.
Lemma bstr_eqb_sym x y : bstr_eqb x y = bstr_eqb y x.
Proof.
  destruct (bstr_eqb x y) eqn:E.
  - apply bstr_eqb_true in E. subst. symmetry. apply bstr_eqb_refl'.
  - symmetry. apply bstr_eqb_false_ne. intro H. subst. rewrite bstr_eqb_refl' in E. discriminate.
Qed.

(* ---- generated names are fresh: the counter is the decimal after the last underscore ---- *)
Lemma jsc_name_sfx v n : jsc_name v n = sfx_name v n.
Proof. reflexivity. Qed.
Lemma jsc_name_inj v m v' m' : jsc_name v m = jsc_name v' m' -> m = m'.
Proof. rewrite !jsc_name_sfx. intro H. apply sfx_name_inj in H. apply H. Qed.
Lemma jsc_name_cons v n : exists c r, jsc_name v n = c :: r.
Proof. unfold jsc_name. destruct v as [|c r]; cbn; eauto. Qed.

(* whenever g reads as a generated name, its counter is at most n *)
Definition bounded (n : N) (g : bstr) : Prop := forall v m, g = jsc_name v m -> m <= n.
Lemma bounded_mono n n' g : n <= n' -> bounded n g -> bounded n' g.
Proof. intros Hn H v m E. specialize (H v m E). lia. Qed.
Lemma bounded_nil n : bounded n [].
Proof. intros v m E. destruct (jsc_name_cons v m) as (c & r & H). congruence. Qed.
Lemma bounded_new v n : bounded n (jsc_name v n).
Proof. intros v' m E. apply jsc_name_inj in E. lia. Qed.
Lemma bounded_fresh n g v : bounded n g -> bstr_eqb g (jsc_name v (n + 1)) = false.
Proof. intro H. apply bstr_eqb_false_ne. intro E. specialize (H v (n + 1) E). lia. Qed.
Lemma opt_ij_bounded n : bounded n t_opt_ij.
Proof.
  intros v m E. exfalso. rewrite jsc_name_sfx in E. unfold sfx_name in E.
  change t_opt_ij with ([111; 112; 116] ++ 95 :: [105; 106; 68; 97; 116; 97]) in E.
  apply split_at_last in E.
  - destruct E as [_ E]. pose proof (dec_of_N_digits m) as Hd. rewrite <- E in Hd. inversion Hd as [|? ? H1 _]. unfold is_digit_byte in H1. lia.
  - cbn. intros [H|[H|[H|[H|[H|[H|[]]]]]]]; discriminate.
  - apply dec_no_us.
Qed.

(* ---- identifiers, the renderer's hidden loop variables, the generator's loop frames ---- *)
Lemma is_ident_app a c : is_ident (a ++ c) = is_ident a && is_ident c.
Proof. unfold is_ident. rewrite existsb_app, negb_orb. reflexivity. Qed.
Lemma ident_neq_dotted name y sfx : is_ident name = true -> is_ident sfx = false -> bstr_eqb name (y ++ sfx) = false.
Proof.
  intros Hn Hs. apply bstr_eqb_false_ne. intro E. rewrite E, is_ident_app, Hs, andb_false_r in Hn. discriminate.
Qed.
Lemma ident_neq_index name y : is_ident name = true -> bstr_eqb name (y ++ jk_index) = false.
Proof. intro H. apply ident_neq_dotted; [exact H|reflexivity]. Qed.
Lemma ident_neq_lastindex name y : is_ident name = true -> bstr_eqb name (y ++ c_lastindex) = false.
Proof. intro H. apply ident_neq_dotted; [exact H|reflexivity]. Qed.
Lemma ident_neq_jk name k : is_ident name = true -> is_ident k = false -> bstr_eqb name k = false.
Proof. intros Hn Hk. apply (ident_neq_dotted name [] k Hn Hk). Qed.
Lemma index_neq_lastindex y x : bstr_eqb (y ++ jk_index) (x ++ c_lastindex) = false.
Proof.
  apply bstr_eqb_false_ne. intro H. apply (f_equal (@rev N)) in H. rewrite !rev_app_distr in H.
  cbn [rev jk_index c_lastindex app] in H. inversion H.
Qed.
Lemma app_same_tail_eqb y x sfx : bstr_eqb (y ++ sfx) (x ++ sfx) = bstr_eqb y x.
Proof.
  destruct (bstr_eqb y x) eqn:E.
  - apply bstr_eqb_true in E. subst. apply bstr_eqb_refl'.
  - apply bstr_eqb_false_ne. intro H. apply app_inv_tail in H. subst. rewrite bstr_eqb_refl' in E. discriminate.
Qed.

Lemma jsc_name_neq a c n : a <> c -> bstr_eqb (jsc_name a n) (jsc_name c n) = false.
Proof. intro H. apply bstr_eqb_false_ne. intro E. rewrite !jsc_name_sfx in E. apply sfx_name_inj in E. destruct E; contradiction. Qed.
Lemma app_neq_self (x sfx : bstr) : sfx <> [] -> x <> x ++ sfx.
Proof. intros Hs E. rewrite <- (app_nil_r x) in E at 1. apply app_inv_head in E. congruence. Qed.
Lemma app_neq_tails (x a c : bstr) : a <> c -> x ++ a <> x ++ c.
Proof. intros H E. apply app_inv_head in E. contradiction. Qed.

(* the names of one loop are distinct *)
Lemma loop_names_distinct x n :
  let vd := jsc_name x n in let vlist := jsc_name (x ++ t_list) n in let vlen := jsc_name (x ++ t_limit) n in let vidx := jsc_name (x ++ t_index) n in
  bstr_eqb vd vlist = false /\ bstr_eqb vd vlen = false /\ bstr_eqb vd vidx = false
  /\ bstr_eqb vlist vlen = false /\ bstr_eqb vlist vidx = false /\ bstr_eqb vlen vidx = false.
Proof.
  cbn zeta. repeat split; apply jsc_name_neq;
    first [apply app_neq_self; discriminate | apply app_neq_tails; discriminate].
Qed.

Lemma loop_frame_eq x n : is_ident x = true ->
  loop_frame x n = [(x, jsc_name x n); (jk_var, x); (jk_limit, jsc_name (x ++ t_limit) n); (jk_index, jsc_name (x ++ t_index) n)].
Proof.
  intro Hx. unfold loop_frame. cbn [aset].
  rewrite (bstr_eqb_sym jk_var x), (ident_neq_jk x jk_var Hx eq_refl). cbn [aset].
  rewrite (bstr_eqb_sym jk_limit x), (ident_neq_jk x jk_limit Hx eq_refl).
  replace (bstr_eqb jk_limit jk_var) with false by reflexivity. cbn [aset].
  rewrite (bstr_eqb_sym jk_index x), (ident_neq_jk x jk_index Hx eq_refl).
  replace (bstr_eqb jk_index jk_var) with false by reflexivity. replace (bstr_eqb jk_index jk_limit) with false by reflexivity. reflexivity.
Qed.

Lemma jsc_loop_push sc x : jsc_loop ([] :: sc) x = jsc_loop sc x.
Proof. cbn [jsc_loop]. unfold assoc_s. cbn. rewrite andb_false_r. reflexivity. Qed.
Lemma jsc_loop_bind sc name g x : is_ident name = true -> jsc_loop (jsc_bind_pure sc name g) x = jsc_loop sc x.
Proof.
  intro Hn. destruct sc as [|f r]; [reflexivity|]. cbn [jsc_bind_pure jsc_loop].
  rewrite !assoc_s_aset_other by (rewrite bstr_eqb_sym; apply ident_neq_jk; [exact Hn|reflexivity]). reflexivity.
Qed.
Lemma jsc_loop_frame sc x n y : is_ident x = true ->
  jsc_loop (loop_frame x n :: sc) y = if bstr_eqb x y then (jsc_name (x ++ t_index) n, jsc_name (x ++ t_limit) n) else jsc_loop sc y.
Proof.
  intro Hx. rewrite loop_frame_eq by exact Hx. cbn [jsc_loop]. unfold assoc_s.
  rewrite (bstr_eqb_sym jk_var x), (ident_neq_jk x jk_var Hx eq_refl).
  rewrite (bstr_eqb_sym jk_index x), (ident_neq_jk x jk_index Hx eq_refl).
  rewrite (bstr_eqb_sym jk_limit x), (ident_neq_jk x jk_limit Hx eq_refl).
  replace (bstr_eqb jk_var jk_var) with true by reflexivity.
  replace (bstr_eqb jk_index jk_var) with false by reflexivity. replace (bstr_eqb jk_index jk_limit) with false by reflexivity.
  replace (bstr_eqb jk_index jk_index) with true by reflexivity.
  replace (bstr_eqb jk_limit jk_var) with false by reflexivity. replace (bstr_eqb jk_limit jk_limit) with true by reflexivity.
  destruct (jsc_name_cons (x ++ t_index) n) as (c0 & r0 & Hc). rewrite Hc. cbn [negb]. rewrite andb_true_r. reflexivity.
Qed.
Lemma jsc_lookup_frame sc x n key : is_ident x = true ->
  jsc_lookup (loop_frame x n :: sc) key
  = if bstr_eqb key x then jsc_name x n else if bstr_eqb key jk_var then x
    else if bstr_eqb key jk_limit then jsc_name (x ++ t_limit) n else if bstr_eqb key jk_index then jsc_name (x ++ t_index) n
    else jsc_lookup sc key.
Proof.
  intro Hx. rewrite loop_frame_eq by exact Hx. cbn [jsc_lookup]. unfold assoc_s.
  destruct (bstr_eqb key x); [reflexivity|]. destruct (bstr_eqb key jk_var); [reflexivity|].
  destruct (bstr_eqb key jk_limit); [reflexivity|]. destruct (bstr_eqb key jk_index); reflexivity.
Qed.

(* ================================================================== *)
(* the JavaScript side *)

(* what the generator's scope, counter and buffer variable satisfy *)
(* (the entry .var of a loop frame holds a Soy name, not a generated one: it is exempt) *)
Record ginv (sc : list (list (bstr * bstr))) (n : N) (buf : bstr) : Prop := {
  gi_nonempty : sc <> [];
  gi_scope : forall key, bstr_eqb key jk_var = false -> bounded n (jsc_lookup sc key);
  gi_buf : bounded n buf;
  gi_buf_fresh : forall key, bstr_eqb key jk_var = false -> bstr_eqb (jsc_lookup sc key) buf = false;
  gi_buf_ij : bstr_eqb t_opt_ij buf = false;
  gi_loop : forall x, bounded n (fst (jsc_loop sc x)) /\ bounded n (snd (jsc_loop sc x))
                      /\ bstr_eqb (fst (jsc_loop sc x)) buf = false /\ bstr_eqb (snd (jsc_loop sc x)) buf = false;
}.
Lemma ginv_mono sc n n' buf : n <= n' -> ginv sc n buf -> ginv sc n' buf.
Proof.
  intros Hn [H0 H1 H2 H3 H4 H5]. constructor; auto.
  - intros k Hk. eapply bounded_mono; eauto.
  - eapply bounded_mono; eauto.
  - intro x. destruct (H5 x) as (A & B & C & D). repeat split; auto; eapply bounded_mono; eauto.
Qed.
Lemma ginv_push sc n buf : ginv sc n buf -> ginv ([] :: sc) n buf.
Proof. intros [H0 H1 H2 H3 H4 H5]. constructor; auto. discriminate. intro x. rewrite jsc_loop_push. apply H5. Qed.

Lemma jsc_lookup_bind_same sc name g : sc <> [] -> jsc_lookup (jsc_bind_pure sc name g) name = g.
Proof.
  destruct sc as [|f r]; [congruence|]. intros _. cbn [jsc_bind_pure jsc_lookup tl]. rewrite assoc_s_aset. reflexivity.
Qed.
Lemma jsc_lookup_bind_other sc name g key : bstr_eqb key name = false -> jsc_lookup (jsc_bind_pure sc name g) key = jsc_lookup sc key.
Proof.
  destruct sc as [|f r]; [reflexivity|]. intro H. cbn [jsc_bind_pure jsc_lookup]. rewrite assoc_s_aset_other by exact H. reflexivity.
Qed.

Lemma ginv_bind sc n buf name : is_ident name = true -> ginv sc n buf -> ginv (jsc_bind_pure sc name (jsc_name name (n + 1))) (n + 1) buf.
Proof.
  intros Hid [H0 H1 H2 H3 H4 H5].
  assert (Hl : forall key, jsc_lookup (jsc_bind_pure sc name (jsc_name name (n + 1))) key
                           = if bstr_eqb key name then jsc_name name (n + 1) else jsc_lookup sc key).
  { intro key. destruct (bstr_eqb key name) eqn:E.
    - apply bstr_eqb_true in E. subst key. rewrite jsc_lookup_bind_same by exact H0. reflexivity.
    - apply jsc_lookup_bind_other. exact E. }
  constructor.
  - destruct sc; [congruence|discriminate].
  - intros key Hk. rewrite Hl. destruct (bstr_eqb key name); [apply bounded_new|]. eapply bounded_mono; [|apply H1; exact Hk]. lia.
  - eapply bounded_mono; [|exact H2]. lia.
  - intros key Hk. rewrite Hl. destruct (bstr_eqb key name); [|apply H3; exact Hk]. rewrite bstr_eqb_sym. apply bounded_fresh. exact H2.
  - exact H4.
  - intro x. rewrite jsc_loop_bind by exact Hid. destruct (H5 x) as (A & B & C & D). repeat split; auto; eapply bounded_mono; eauto; lia.
Qed.

(* the scope inside a loop over $x: its frame holds names with the next counter *)
Lemma ginv_loop sc n buf x : is_ident x = true -> ginv sc n buf -> ginv (loop_frame x (n + 1) :: sc) (n + 1) buf.
Proof.
  intros Hx [H0 H1 H2 H3 H4 H5]. constructor.
  - discriminate.
  - intros key Hk. rewrite jsc_lookup_frame by exact Hx. rewrite Hk.
    destruct (bstr_eqb key x); [apply bounded_new|]. destruct (bstr_eqb key jk_limit); [apply bounded_new|].
    destruct (bstr_eqb key jk_index); [apply bounded_new|]. eapply bounded_mono; [|apply H1; exact Hk]. lia.
  - eapply bounded_mono; [|exact H2]. lia.
  - intros key Hk. rewrite jsc_lookup_frame by exact Hx. rewrite Hk.
    destruct (bstr_eqb key x); [rewrite bstr_eqb_sym; apply bounded_fresh; exact H2|].
    destruct (bstr_eqb key jk_limit); [rewrite bstr_eqb_sym; apply bounded_fresh; exact H2|].
    destruct (bstr_eqb key jk_index); [rewrite bstr_eqb_sym; apply bounded_fresh; exact H2|]. apply H3; exact Hk.
  - exact H4.
  - intro y. rewrite jsc_loop_frame by exact Hx. destruct (bstr_eqb x y); cbn [fst snd].
    + repeat split; try apply bounded_new; rewrite bstr_eqb_sym; apply bounded_fresh; exact H2.
    + destruct (H5 y) as (A & B & C & D). repeat split; auto; eapply bounded_mono; eauto; lia.
Qed.


(* the counter never decreases *)
Lemma sgen_mono_all mode :
  (forall s buf sc n j sc' n', sgen mode buf sc n s = (j, (sc', n')) -> n <= n')
  /\ (forall b buf sc n jb n', bgen mode buf sc n b = (jb, n') -> n <= n')
  /\ (forall e buf sc n jl n', egen mode buf sc n e = (jl, n') -> n <= n')
  /\ (forall k buf sc n jk n', kgen mode buf sc n k = (jk, n') -> n <= n')
  /\ (forall ps sc n jps n', pgen mode sc n ps = (jps, n') -> n <= n')
  /\ (forall q buf sc n jk n', qgen mode buf sc n q = (jk, n') -> n <= n').
Proof.
  apply cstmt_mutind.
  - intros t buf sc n j sc' n' H. inversion H. lia.
  - intros e ds buf sc n j sc' n' H. inversion H. lia.
  - intros name e buf sc n j sc' n' H. inversion H. lia.
  - intros name body IHb buf sc n j sc' n' H. rewrite sgen_letc in H.
    destruct (bgen mode (jsc_name name (n + 1)) ([] :: sc) (n + 1) body) as [jb n1] eqn:E1. inversion H; subst.
    specialize (IHb _ _ _ _ _ E1). lia.
  - intros c th IHt rest IHr buf sc n j sc' n' H. rewrite sgen_if in H.
    destruct (bgen mode buf ([] :: sc) n th) as [jt n1] eqn:E1. destruct (egen mode buf sc n1 rest) as [jr n2] eqn:E2. inversion H; subst.
    specialize (IHt _ _ _ _ _ E1). specialize (IHr _ _ _ _ _ E2). lia.
  - intros v cs IHk buf sc n j sc' n' H. rewrite sgen_switch in H. destruct (kgen mode buf sc n cs) as [jc n1] eqn:E1. inversion H; subst. eapply IHk; eauto.
  - intros x e body IHb hasie ie IHi buf sc n j sc' n' H. rewrite sgen_for in H.
    destruct (bgen mode buf ([] :: loop_frame x (n + 1) :: sc) (n + 1) body) as [jb n1] eqn:E1. specialize (IHb _ _ _ _ _ E1).
    destruct hasie.
    + destruct (bgen mode buf ([] :: sc) n1 ie) as [ji n2] eqn:E2. specialize (IHi _ _ _ _ _ E2). inversion H; subst. lia.
    + inversion H; subst. lia.
  - intros x a1 rest body IHb hasie ie IHi buf sc n j sc' n' H. rewrite sgen_forrange in H.
    destruct (bgen mode buf ([] :: loop_frame x (n + 1) :: sc) (n + 1) body) as [jb n1] eqn:E1. specialize (IHb _ _ _ _ _ E1).
    destruct (match range_args (JENum 0) (JENum 1) (map (cgen sc) (a1 :: rest)) with Some t => t | None => (JENull, JENull, JENull) end) as [[ei el] es].
    destruct hasie.
    + destruct (bgen mode buf ([] :: sc) n1 ie) as [ji n2] eqn:E2. specialize (IHi _ _ _ _ _ E2). inversion H; subst. lia.
    + inversion H; subst. lia.
  - intros e sfx buf sc n j sc' n' H. inversion H. lia.
  - intros name d ps IHp buf sc n j sc' n' H. rewrite sgen_call in H. destruct (pgen mode sc n ps) as [jps n1] eqn:E1. inversion H; subst. eapply IHp; eauto.
  - intros body IHb buf sc n j sc' n' H. rewrite sgen_msg in H. destruct (bgen mode buf sc n body) as [jb n1] eqn:E1. inversion H; subst. eapply IHb; eauto.
  - intros pn v q IHq buf sc n j sc' n' H. rewrite sgen_msgpl in H. destruct (qgen mode buf sc n q) as [jk n1] eqn:E1. inversion H; subst. eapply IHq; eauto.
  - intros buf sc n jb n' H. inversion H. lia.
  - intros s IHs r IHr buf sc n jb n' H. rewrite bgen_cons in H.
    destruct (sgen mode buf sc n s) as [j [sc1 n1]] eqn:E1. destruct (bgen mode buf sc1 n1 r) as [jr n2] eqn:E2. inversion H; subst.
    specialize (IHs _ _ _ _ _ _ E1). specialize (IHr _ _ _ _ _ E2). lia.
  - intros buf sc n jl n' H. inversion H. lia.
  - intros b IHb buf sc n jl n' H. rewrite egen_else in H. destruct (bgen mode buf ([] :: sc) n b) as [jb n1] eqn:E1. inversion H; subst. eapply IHb; eauto.
  - intros c th IHt rest IHr buf sc n jl n' H. rewrite egen_elif in H.
    destruct (bgen mode buf ([] :: sc) n th) as [jt n1] eqn:E1. destruct (egen mode buf sc n1 rest) as [jr n2] eqn:E2. inversion H; subst.
    specialize (IHt _ _ _ _ _ E1). specialize (IHr _ _ _ _ _ E2). lia.
  - intros buf sc n jk n' H. inversion H. lia.
  - intros b IHb buf sc n jk n' H. rewrite kgen_default in H. destruct (bgen mode buf ([] :: sc) n b) as [jb n1] eqn:E1. inversion H; subst. eapply IHb; eauto.
  - intros v vs b IHb rest IHr buf sc n jk n' H. rewrite kgen_case in H.
    destruct (bgen mode buf ([] :: sc) n b) as [jb n1] eqn:E1. destruct (kgen mode buf sc n1 rest) as [jr n2] eqn:E2. inversion H; subst.
    specialize (IHb _ _ _ _ _ E1). specialize (IHr _ _ _ _ _ E2). lia.
  - intros sc n jps n' H. inversion H. lia.
  - intros k e r IHr sc n jps n' H. rewrite pgen_val in H. destruct (pgen mode sc n r) as [jr n1] eqn:E1. inversion H; subst. eapply IHr; eauto.
  - intros k body IHb r IHr sc n jps n' H. rewrite pgen_cont in H.
    destruct (bgen mode (jsc_name t_param (n + 1)) ([] :: sc) (n + 1) body) as [jb n1] eqn:E1. destruct (pgen mode sc n1 r) as [jr n2] eqn:E2. inversion H; subst.
    specialize (IHb _ _ _ _ _ E1). specialize (IHr _ _ _ _ E2). lia.
  - intros b IHb buf sc n jk n' H. rewrite qgen_dflt in H. destruct (bgen mode buf sc n b) as [jb n1] eqn:E1. inversion H; subst. eapply IHb; eauto.
  - intros z b IHb r IHr buf sc n jk n' H. rewrite qgen_case in H.
    destruct (bgen mode buf sc n b) as [jb n1] eqn:E1. destruct (qgen mode buf sc n1 r) as [jr n2] eqn:E2. inversion H; subst.
    specialize (IHb _ _ _ _ _ E1). specialize (IHr _ _ _ _ _ E2). lia.
Qed.

(* the scope and the counter after a statement *)
Lemma sgen_after mode buf sc n s j sc' n' : sgen mode buf sc n s = (j, (sc', n')) ->
  sc' = sc \/ (exists name, sc' = jsc_bind_pure sc name (jsc_name name (n + 1)) /\ n + 1 <= n').
Proof.
  destruct s; intro H.
  - inversion H; auto.
  - inversion H; auto.
  - inversion H; subst. right. exists name. split; [reflexivity|lia].
  - rewrite sgen_letc in H. destruct (bgen mode (jsc_name name (n + 1)) ([] :: sc) (n + 1) body) as [jb n1] eqn:E1. inversion H; subst.
    right. exists name. split; [reflexivity|]. exact (proj1 (proj2 (sgen_mono_all mode)) _ _ _ _ _ _ E1).
  - rewrite sgen_if in H. destruct (bgen mode buf ([] :: sc) n th) as [jt n1]. destruct (egen mode buf sc n1 rest) as [jr n2]. inversion H; auto.
  - rewrite sgen_switch in H. destruct (kgen mode buf sc n cs) as [jc n1]. inversion H; auto.
  - rewrite sgen_for in H. destruct (bgen mode buf ([] :: loop_frame x (n + 1) :: sc) (n + 1) body) as [jb n1].
    destruct hasie; [destruct (bgen mode buf ([] :: sc) n1 ie) as [ji n2]|]; inversion H; auto.
  - rewrite sgen_forrange in H. destruct (bgen mode buf ([] :: loop_frame x (n + 1) :: sc) (n + 1) body) as [jb n1].
    destruct (match range_args (JENum 0) (JENum 1) (map (cgen sc) (a1 :: rest)) with Some t => t | None => (JENull, JENull, JENull) end) as [[ei el] es].
    destruct hasie; [destruct (bgen mode buf ([] :: sc) n1 ie) as [ji n2]|]; inversion H; auto.
  - inversion H; auto.
  - rewrite sgen_call in H. destruct (pgen mode sc n ps) as [jps n1]. inversion H; auto.
  - rewrite sgen_msg in H. destruct (bgen mode buf sc n body) as [jb n1]. inversion H; auto.
  - rewrite sgen_msgpl in H. destruct (qgen mode buf sc n q) as [jk n1]. inversion H; auto.
Qed.

(* the names a statement binds are identifiers *)
Definition binder_ok (s : cstmt) : Prop :=
  match s with SLet name _ | SLetC name _ => is_ident name = true | _ => True end.
Lemma sgen_after_ident mode buf sc n s j sc' n' : binder_ok s -> sgen mode buf sc n s = (j, (sc', n')) ->
  sc' = sc \/ (exists name, is_ident name = true /\ sc' = jsc_bind_pure sc name (jsc_name name (n + 1)) /\ n + 1 <= n').
Proof.
  intros Hb H. destruct s as [t|e ds|nm e|nm body|c th rest|v cs|x e body hasie ie|x a1 rest body hasie ie|e sfx|cname cd cps|mbody|pn pv pq]; cbn [binder_ok] in Hb.
  - inversion H; auto.
  - inversion H; auto.
  - inversion H; subst. right. exists nm. split; [exact Hb|]. split; [reflexivity|lia].
  - rewrite sgen_letc in H. destruct (bgen mode (jsc_name nm (n + 1)) ([] :: sc) (n + 1) body) as [jb n1] eqn:E1. inversion H; subst.
    right. exists nm. split; [exact Hb|]. split; [reflexivity|]. exact (proj1 (proj2 (sgen_mono_all mode)) _ _ _ _ _ _ E1).
  - rewrite sgen_if in H. destruct (bgen mode buf ([] :: sc) n th) as [jt n1]. destruct (egen mode buf sc n1 rest) as [jr n2]. inversion H; auto.
  - rewrite sgen_switch in H. destruct (kgen mode buf sc n cs) as [jc n1]. inversion H; auto.
  - rewrite sgen_for in H. destruct (bgen mode buf ([] :: loop_frame x (n + 1) :: sc) (n + 1) body) as [jb n1].
    destruct hasie; [destruct (bgen mode buf ([] :: sc) n1 ie) as [ji n2]|]; inversion H; auto.
  - rewrite sgen_forrange in H. destruct (bgen mode buf ([] :: loop_frame x (n + 1) :: sc) (n + 1) body) as [jb n1].
    destruct (match range_args (JENum 0) (JENum 1) (map (cgen sc) (a1 :: rest)) with Some t => t | None => (JENull, JENull, JENull) end) as [[ei el] es].
    destruct hasie; [destruct (bgen mode buf ([] :: sc) n1 ie) as [ji n2]|]; inversion H; auto.
  - inversion H; auto.
  - rewrite sgen_call in H. destruct (pgen mode sc n cps) as [jps n1]. inversion H; auto.
  - rewrite sgen_msg in H. destruct (bgen mode buf sc n mbody) as [jb n1]. inversion H; auto.
  - rewrite sgen_msgpl in H. destruct (qgen mode buf sc n pq) as [jk n1]. inversion H; auto.
Qed.
Lemma swf_binder lv s : swf lv s = true -> binder_ok s.
Proof. destruct s; cbn [swf binder_ok]; auto; intro H; apply andb_prop in H; apply H. Qed.

Lemma ginv_after mode buf sc n s j sc' n' : binder_ok s -> sgen mode buf sc n s = (j, (sc', n')) -> ginv sc n buf -> ginv sc' n' buf.
Proof.
  intros Hb H G. pose proof (proj1 (sgen_mono_all mode) _ _ _ _ _ _ _ H) as Hn.
  destruct (sgen_after_ident _ _ _ _ _ _ _ _ Hb H) as [->|(name & Hid & -> & Hn')].
  - eapply ginv_mono; eauto.
  - eapply ginv_mono; [exact Hn'|]. apply ginv_bind; [exact Hid|exact G].
Qed.

Lemma strict_eq_prim sv cv : prim_value sv = true -> prim_value cv = true ->
  js_strict_eq (to_js sv) (to_js cv) = Some (equals sv cv).
Proof. destruct sv, cv; try discriminate; intros _ _; reflexivity. Qed.

(* the data of a template and the object the JavaScript function gets: reading a key gives the value *)
Definition datarel (dv : bstr -> option value) (jd : jval) : Prop :=
  (forall key, js_member jd key = Ok (to_js (match dv key with Some v => v | None => VUndef end)))
  /\ (forall key v, dv key = Some v -> core_value v = true)
  /\ (forall key, is_ident key = false -> dv key = None).

Lemma assoc_s_map_js key (m : list (bstr * value)) :
  assoc_s key (map (fun kv => (fst kv, to_js (snd kv))) m) = match assoc_s key m with Some v => Some (to_js v) | None => None end.
Proof.
  induction m as [|[k v] r IH]; [reflexivity|]. cbn [map fst snd]. unfold assoc_s; fold (@assoc_s jval); fold (@assoc_s value).
  destruct (bstr_eqb key k); [reflexivity|exact IH].
Qed.
Lemma core_assoc key (m : list (bstr * value)) v : forallb (fun kv => core_value (snd kv)) m = true -> assoc_s key m = Some v -> core_value v = true.
Proof.
  induction m as [|[k x] r IH]; intros Hc H; [discriminate|]. cbn [forallb snd] in Hc. apply andb_prop in Hc. destruct Hc as [H1 H2].
  unfold assoc_s in H; fold (@assoc_s value) in H. destruct (bstr_eqb key k); [inversion H; subst; exact H1|exact (IH H2 H)].
Qed.
Lemma datarel_empty : datarel (fun _ => None) (JObj []).
Proof. split; [intro key; reflexivity|]. split; [intros key v H; discriminate|reflexivity]. Qed.
Lemma ident_keys key (m : list (bstr * value)) : forallb (fun kv => is_ident (fst kv)) m = true -> is_ident key = false -> assoc_s key m = None.
Proof.
  induction m as [|[k x] r IH]; intros Hk Hn; [reflexivity|]. cbn [forallb fst] in Hk. apply andb_prop in Hk. destruct Hk as [H1 H2].
  unfold assoc_s; fold (@assoc_s value). destruct (bstr_eqb key k) eqn:E; [|exact (IH H2 Hn)]. apply bstr_eqb_true in E. congruence.
Qed.
Lemma datarel_map lid m : core_value (VMap lid m) = true -> forallb (fun kv => is_ident (fst kv)) m = true ->
  datarel (fun k => assoc_s k m) (to_js (VMap lid m)).
Proof.
  intros Hc Hk. cbn [core_value] in Hc. split; [|split].
  - intro key. cbn [to_js js_member]. rewrite assoc_s_map_js. destruct (assoc_s key m); reflexivity.
  - intros key v H. exact (core_assoc key m v Hc H).
  - intros key Hn. exact (ident_keys key m Hk Hn).
Qed.
Lemma datarel_obj dv jd : datarel dv jd -> exists m, jd = JObj m.
Proof. intros [H _]. specialize (H []). destruct jd; try discriminate. eauto. Qed.
Lemma datarel_set dv m k v : datarel dv (JObj m) -> core_value v = true -> is_ident k = true ->
  datarel (env_set dv k v) (JObj (aset m k (to_js v))).
Proof.
  intros (H1 & H2 & H3) Hv Hk. split; [|split].
  - intro key. cbn [js_member]. unfold env_set. destruct (bstr_eqb key k) eqn:E.
    + apply bstr_eqb_true in E. subst key. rewrite assoc_s_aset. reflexivity.
    + rewrite assoc_s_aset_other by exact E. exact (H1 key).
  - intros key x. unfold env_set. destruct (bstr_eqb key k); [intro E; inversion E; subst; exact Hv|apply H2].
  - intros key Hn. unfold env_set. destruct (bstr_eqb key k) eqn:E; [apply bstr_eqb_true in E; congruence|apply H3; exact Hn].
Qed.

Section JsStmts.
Variable ij : option value.
Variable mode : N.
Variable denv : bstr -> option value.
Variable callee : bstr -> (bstr -> option value) -> option bstr.
Variable jfn : bstr -> jval -> jval -> outcome bstr.
Notation js_exec := (js_exec jfn). Notation jb_exec := (jb_exec jfn). Notation jl_exec := (jl_exec jfn). Notation jk_exec := (jk_exec jfn).

Definition jinv (buf : bstr) (sc : list (list (bstr * bstr))) (env : bstr -> option value) (je : jenv) (old : bstr) : Prop :=
  env_rel sc ij env je /\ assoc_s buf (je_vars je) = Some (JStr old).
(* a statement generated from counter n leaves opt_data and every variable alone that is not the buffer
   and whose name, read as a generated name, has a counter up to n *)
Definition frame (buf : bstr) (n : N) (je je' : jenv) : Prop :=
  je_data je' = je_data je
  /\ forall g, bounded n g -> bstr_eqb g buf = false -> assoc_s g (je_vars je') = assoc_s g (je_vars je).

Lemma frame_refl buf n je : frame buf n je je.
Proof. split; auto. Qed.
Lemma frame_trans buf n n1 je je1 je2 : n <= n1 -> frame buf n je je1 -> frame buf n1 je1 je2 -> frame buf n je je2.
Proof.
  intros Hn [D1 F1] [D2 F2]. split; [congruence|]. intros g Hg Hb. rewrite F2; auto. eapply bounded_mono; eauto.
Qed.

Lemma env_rel_push sc env je : env_rel sc ij env je -> env_rel ([] :: sc) ij env je.
Proof. intros [Ev Ei Ec Eci El]. constructor; auto. intros x i H. rewrite jsc_loop_push. apply El; exact H. Qed.

Lemma env_rel_frame buf sc n env je je' : ginv sc n buf -> env_rel sc ij env je -> frame buf n je je' -> env_rel sc ij env je'.
Proof.
  intros [H0 H1 H2 H3 H4 H5] [Ev Ei Ec Eci El] [D F]. constructor; auto.
  - intros key Hid Hk. specialize (Ev key Hid Hk). destruct (jsc_lookup sc key) as [|c g] eqn:El0.
    + rewrite D. exact Ev.
    + rewrite F; [exact Ev| |]; rewrite <- El0; [apply H1|apply H3]; (apply ident_neq_jk; [exact Hid|reflexivity]).
  - intros v Hv. rewrite F; [apply Ei; exact Hv|apply opt_ij_bounded|exact H4].
  - intros x i Hx. destruct (El x i Hx) as (A & B & C). destruct (H5 x) as (P & Q & R & S0).
    split; [exact A|]. split; [rewrite F; auto|]. intros l Hl. rewrite F; auto.
Qed.

Lemma jinv_frame buf sc n env je je' old new : ginv sc n buf -> jinv buf sc env je old -> frame buf n je je' ->
  assoc_s buf (je_vars je') = Some (JStr new) -> jinv buf sc env je' new.
Proof. intros G [ER _] F Hb. split; [eapply env_rel_frame; eauto|exact Hb]. Qed.

Lemma append_frame buf n je x : frame buf n je {| je_vars := aset (je_vars je) buf x; je_data := je_data je |}.
Proof. split; [reflexivity|]. intros g _ Hg. cbn [je_vars]. apply assoc_s_aset_other. exact Hg. Qed.

Lemma jinv_append buf sc n env je old t : ginv sc n buf -> jinv buf sc env je old ->
  jinv buf sc env {| je_vars := aset (je_vars je) buf (JStr (old ++ t)); je_data := je_data je |} (old ++ t).
Proof.
  intros G I. eapply jinv_frame; [exact G|exact I|apply (append_frame buf n)|apply assoc_s_aset].
Qed.

(* binding a Soy name to the fresh variable v_<n+1> that holds its value *)
Lemma env_rel_bind buf sc n env je je' name v : is_ident name = true -> ginv sc n buf -> env_rel sc ij env je -> frame buf n je je' ->
  assoc_s (jsc_name name (n + 1)) (je_vars je') = Some (to_js v) -> core_value v = true ->
  env_rel (jsc_bind_pure sc name (jsc_name name (n + 1))) ij (env_set env name v) je'.
Proof.
  intros Hid G ER F Hg Hcv. pose proof (env_rel_frame buf sc n env je je' G ER F) as [Xv Xi Xc Xci Xl].
  destruct G as [G0 G1 G2 G3 G4 G5]. constructor.
  - intros key Hkid Hk. unfold env_val, env_set. destruct (bstr_eqb key name) eqn:Ekn.
    + apply bstr_eqb_true in Ekn. subst key. rewrite jsc_lookup_bind_same by exact G0.
      destruct (jsc_name_cons name (n + 1)) as (c & r & Hc). rewrite Hc. rewrite <- Hc. exact Hg.
    + rewrite jsc_lookup_bind_other by exact Ekn. specialize (Xv key Hkid Hk). unfold env_val in Xv. exact Xv.
  - exact Xi.
  - intro key. unfold env_val, env_set. destruct (bstr_eqb key name); [exact Hcv|apply Xc].
  - exact Xci.
  - intros x i. unfold env_set. rewrite (bstr_eqb_sym (x ++ jk_index)), (ident_neq_index name x Hid).
    rewrite (bstr_eqb_sym (x ++ c_lastindex)), (ident_neq_lastindex name x Hid). rewrite jsc_loop_bind by exact Hid. apply Xl.
Qed.

Lemma khit_js sc env je sv vs : env_rel sc ij env je -> prim_value sv = true -> forall h,
  khit ij env sv vs = Some h -> jk_hit je (to_js sv) (map (cgen sc) vs) = Ok h.
Proof.
  intros ER Hs. induction vs as [|x r IH]; intros h E; cbn [khit map jk_hit] in *.
  - inversion E; reflexivity.
  - destruct (ceval ij env x) as [cv|] eqn:Ex; [|discriminate]. destruct (prim_value cv) eqn:Hc; [|discriminate].
    destruct (cgen_correct sc ij env je ER x cv Ex) as [Hj _]. rewrite Hj. cbn [bind].
    rewrite (strict_eq_prim sv cv Hs Hc). destruct (equals sv cv).
    + inversion E; reflexivity.
    + apply IH. exact E.
Qed.

Definition JP_s (s : cstmt) : Prop := forall buf sc n env je old text env' j sc' n',
  ginv sc n buf -> sout ij mode go_print_text denv callee env s = Some (text, env') -> jinv buf sc env je old -> datarel denv (je_data je) ->
  sgen mode buf sc n s = (j, (sc', n')) ->
  exists je', js_exec je j = Ok je' /\ jinv buf sc' env' je' (old ++ text) /\ frame buf n je je'.
Definition JP_b (b : cblk) : Prop := forall buf sc n env je old text jb n',
  ginv sc n buf -> bout ij mode go_print_text denv callee env b = Some text -> jinv buf sc env je old -> datarel denv (je_data je) ->
  bgen mode buf sc n b = (jb, n') ->
  exists je', jb_exec je jb = Ok je' /\ assoc_s buf (je_vars je') = Some (JStr (old ++ text)) /\ frame buf n je je'.
Definition JP_e (e : celse) : Prop := forall buf sc n env je old text jl n',
  ginv sc n buf -> eout ij mode go_print_text denv callee env e = Some text -> jinv buf sc env je old -> datarel denv (je_data je) ->
  egen mode buf sc n e = (jl, n') ->
  exists je', jl_exec je jl = Ok je' /\ assoc_s buf (je_vars je') = Some (JStr (old ++ text)) /\ frame buf n je je'.
Definition JP_k (k : ccases) : Prop := forall buf sc n env je old text sv jk n',
  ginv sc n buf -> prim_value sv = true -> kout ij mode go_print_text denv callee env sv k = Some text -> jinv buf sc env je old -> datarel denv (je_data je) ->
  kgen mode buf sc n k = (jk, n') ->
  exists je', jk_exec je (to_js sv) jk = Ok je' /\ assoc_s buf (je_vars je') = Some (JStr (old ++ text)) /\ frame buf n je je'.
(* the parameters of a call: the content blocks run in order, each into a new variable param_<counter>; then the object
   literal is evaluated -- value parameters by their expressions, content parameters by their variables -- and updates the
   data object as the parameters update the callee's data *)
Definition JP_p (ps : cparams) : Prop := forall buf sc n env je old base cenv m jps n',
  ginv sc n buf -> pout ij mode go_print_text denv callee env ps base = Some cenv -> jinv buf sc env je old -> datarel denv (je_data je) ->
  pgen mode sc n ps = (jps, n') -> datarel base (JObj m) ->
  exists je' vs, jp_exec jfn je jps = Ok je' /\ frame buf n je je' /\ assoc_s buf (je_vars je') = Some (JStr old)
    /\ js_eval_params je' (jp_args jps) = Ok vs
    /\ datarel cenv (JObj (fold_left (fun acc kv => aset acc (fst kv) (snd kv)) vs m)).

(* the plural: the switch over the numbers runs the block of the selected body *)
Definition JP_q (q : cplur) : Prop := forall buf sc n env je old text i jk n',
  ginv sc n buf -> qout ij mode go_print_text denv callee env i q = Some text -> jinv buf sc env je old -> datarel denv (je_data je) ->
  qgen mode buf sc n q = (jk, n') ->
  exists je', jk_exec je (JNum i) jk = Ok je' /\ assoc_s buf (je_vars je') = Some (JStr (old ++ text)) /\ frame buf n je je'.

(* a block is translated and run under one more (empty) frame *)
Lemma JP_block b : JP_b b -> forall buf sc n env je old text jb n',
  ginv sc n buf -> bout ij mode go_print_text denv callee env b = Some text -> jinv buf sc env je old -> datarel denv (je_data je) ->
  bgen mode buf ([] :: sc) n b = (jb, n') ->
  exists je', jb_exec je jb = Ok je' /\ assoc_s buf (je_vars je') = Some (JStr (old ++ text)) /\ frame buf n je je'.
Proof.
  intros Hb buf sc n env je old text jb n' G E [ER Hbuf] DR Eg.
  apply (Hb buf ([] :: sc) n env je old text jb n'); auto. apply ginv_push; exact G. split; [apply env_rel_push; exact ER|exact Hbuf].
Qed.

(* ---- loops ---- *)
(* setting a variable whose name carries the next counter touches nothing a frame of counter n talks about *)
Lemma frame_set_new buf n je y v : frame buf n je (jvset je (jsc_name y (n + 1)) v).
Proof. split; [reflexivity|]. intros g Hg _. cbn [jvset je_vars]. apply assoc_s_aset_other. apply bounded_fresh. exact Hg. Qed.
Lemma frame_weaken buf n n1 a c : n <= n1 -> frame buf n1 a c -> frame buf n a c.
Proof. intros Hn [D F]. split; [exact D|]. intros g Hg Hb. apply F; [eapply bounded_mono; eauto|exact Hb]. Qed.
Lemma frame_comp buf n a c d : frame buf n a c -> frame buf n c d -> frame buf n a d.
Proof. apply frame_trans. lia. Qed.

Lemma small_between i m : (0 <= i <= m)%Z -> small m = true -> small i = true.
Proof. clear denv callee jfn. unfold small. intros H Hm. apply Z.leb_le in Hm. apply Z.leb_le. lia. Qed.
Lemma list_index_mid (pre : list value) v r : list_index (pre ++ v :: r) (Z.of_nat (length pre)) = v.
Proof. clear denv callee jfn.
  unfold list_index. rewrite app_length. cbn [length].
  replace (Z.of_nat (length pre) <? 0)%Z with false by (symmetry; apply Z.ltb_ge; lia).
  replace (Z.of_nat (length pre + S (length r)) <=? Z.of_nat (length pre))%Z with false by (symmetry; apply Z.leb_gt; lia).
  cbn [orb]. rewrite Nat2Z.id, nth_error_app2 by lia. rewrite Nat.sub_diag. reflexivity.
Qed.


(* ---- range(): the list the renderer builds, and the count the generated code computes ---- *)
Fixpoint lin_list (k : nat) (a st : Z) : list value :=
  match k with O => [] | S k' => VInt a :: lin_list k' (a + st)%Z st end.
Lemma lin_list_length k a st : length (lin_list k a st) = k.
Proof. clear denv callee jfn. revert a. induction k as [|k IH]; intro a; cbn [lin_list length]; [reflexivity|]. rewrite IH. reflexivity. Qed.
Lemma lin_list_mid st : forall pre k a v r, lin_list k a st = pre ++ v :: r -> v = VInt (a + Z.of_nat (length pre) * st).
Proof. clear denv callee jfn.
  induction pre as [|p pre IH]; intros k a v r H; destruct k as [|k]; cbn [lin_list app] in H; try discriminate.
  - inversion H; subst. cbn [length Z.of_nat]. f_equal. lia.
  - inversion H as [[Hp Hr]]. rewrite (IH k (a + st)%Z v r Hr). cbn [length]. f_equal. lia.
Qed.
(* the number of elements of range(a, l, st) *)
Definition range_cnt (a l st : Z) : Z := Z.max 0 ((l - a + st - 1) / st).
Lemma range_cnt_step a l st : (0 < st)%Z -> (a < l)%Z -> range_cnt a l st = (range_cnt (a + st) l st + 1)%Z.
Proof. clear denv callee jfn.
  intros Hs Hl. unfold range_cnt.
  replace (l - a + st - 1)%Z with ((l - (a + st) + st - 1) + 1 * st)%Z by lia. rewrite Z.div_add by lia.
  assert (0 <= (l - (a + st) + st - 1) / st)%Z by (apply Z.div_pos; lia). lia.
Qed.
Lemma range_cnt_zero a l st : (0 < st)%Z -> (l <= a)%Z -> range_cnt a l st = 0%Z.
Proof. clear denv callee jfn.
  intros Hs Hl. unfold range_cnt. assert ((l - a + st - 1) / st <= 0)%Z; [|lia].
  apply Z.lt_succ_r. apply Z.div_lt_upper_bound; lia.
Qed.
Lemma range_items_spec st l : (0 < st)%Z -> forall f a, (range_cnt a l st <= Z.of_nat f)%Z ->
  range_items f a l st = lin_list (Z.to_nat (range_cnt a l st)) a st.
Proof. clear denv callee jfn.
  intro Hs. induction f as [|f IH]; intros a Hf; cbn [range_items].
  - replace (Z.to_nat (range_cnt a l st)) with 0%nat by (unfold range_cnt in *; lia). reflexivity.
  - destruct (Z.ltb_spec a l) as [Hl|Hl].
    + rewrite (range_cnt_step a l st Hs Hl). assert (0 <= range_cnt (a + st) l st)%Z by (unfold range_cnt; lia).
      replace (Z.to_nat (range_cnt (a + st) l st + 1)) with (S (Z.to_nat (range_cnt (a + st) l st))) by lia.
      cbn [lin_list]. f_equal. apply IH. rewrite (range_cnt_step a l st Hs Hl) in Hf. lia.
    + rewrite range_cnt_zero by lia. reflexivity.
Qed.
(* Math.ceil(d / st) on integers *)
Lemma ceil_div d st : (0 < st)%Z -> (- ((- d) / st) = (d + st - 1) / st)%Z.
Proof. clear denv callee jfn.
  intro Hs. pose proof (Z.div_mod d st ltac:(lia)) as Hd. pose proof (Z.mod_pos_bound d st Hs) as Hm.
  set (q := (d / st)%Z) in *. set (m := (d mod st)%Z) in *.
  destruct (Z.eq_dec m 0) as [Hz|Hz].
  - replace (- d)%Z with ((- q) * st)%Z by lia. rewrite Z.div_mul by lia.
    replace (d + st - 1)%Z with (st - 1 + q * st)%Z by lia. rewrite Z.div_add by lia. rewrite Z.div_small by lia. lia.
  - replace (- d)%Z with ((st - m) + (- q - 1) * st)%Z by lia. rewrite Z.div_add by lia. rewrite (Z.div_small (st - m)) by lia.
    replace (d + st - 1)%Z with ((m - 1) + (q + 1) * st)%Z by lia. rewrite Z.div_add by lia. rewrite (Z.div_small (m - 1)) by lia. lia.
Qed.
Lemma range_cnt_bound a l st : (0 < st)%Z -> (0 <= range_cnt a l st)%Z /\ ((range_cnt a l st - 1) * st <= Z.max 0 (l - a - 1))%Z
  /\ (range_cnt a l st <= Z.max 0 (l - a))%Z.
Proof. clear denv callee jfn.
  intro Hs. unfold range_cnt. split; [lia|].
  destruct (Z.ltb_spec a l) as [Hl|Hl].
  - assert (H0 : (0 <= (l - a + st - 1) / st)%Z) by (apply Z.div_pos; lia).
    pose proof (Z.mul_div_le (l - a + st - 1) st Hs) as H1.
    assert (H2 : ((l - a + st - 1) / st <= l - a)%Z).
    { apply Z.lt_succ_r. apply Z.div_lt_upper_bound; [lia|]. nia. }
    split; [|lia]. rewrite Z.max_r by lia. nia.
  - assert (H0 : ((l - a + st - 1) / st <= 0)%Z) by (apply Z.lt_succ_r; apply Z.div_lt_upper_bound; lia).
    split; [|lia]. rewrite Z.max_l by lia. nia.
Qed.

(* the Soy environment inside a loop over $x: the loop's three variables, the rest as outside *)
Definition loop_env (env envk : bstr -> option value) (x : bstr) (last : Z) : Prop :=
  envk (x ++ c_lastindex) = Some (VInt last)
  /\ forall key, bstr_eqb key x = false -> bstr_eqb key (x ++ jk_index) = false -> bstr_eqb key (x ++ c_lastindex) = false -> envk key = env key.

Lemma loop_env_round env envk x last v i : is_ident x = true -> loop_env env envk x last ->
  loop_env env (env_set (env_set envk x v) (x ++ jk_index) (VInt i)) x last.
Proof. clear denv callee jfn.
  intros Hx [L A]. split.
  - unfold env_set. rewrite (bstr_eqb_sym (x ++ c_lastindex) (x ++ jk_index)), index_neq_lastindex.
    rewrite (bstr_eqb_sym (x ++ c_lastindex) x), (ident_neq_lastindex x x Hx). exact L.
  - intros key K1 K2 K3. unfold env_set. rewrite K2, K1. apply A; assumption.
Qed.

Lemma env_rel_round buf sc n env je envk je1 x last v i :
  is_ident x = true -> ginv sc n buf -> env_rel sc ij env je -> frame buf n je je1 ->
  loop_env env envk x last -> envk x = Some v -> envk (x ++ jk_index) = Some (VInt i) ->
  core_value v = true -> small i = true -> small last = true ->
  jvget je1 (jsc_name x (n + 1)) = Some (to_js v) -> jvget je1 (jsc_name (x ++ t_index) (n + 1)) = Some (JNum i) ->
  jvget je1 (jsc_name (x ++ t_limit) (n + 1)) = Some (JNum (last + 1)) ->
  env_rel (loop_frame x (n + 1) :: sc) ij envk je1.
Proof.
  intros Hx G ER F [L A] Ex Ei Hcv Hsi Hsl Jd Ji Jl.
  pose proof (env_rel_frame buf sc n env je je1 G ER F) as [Xv Xi Xc Xci Xl]. constructor.
  - intros key Hid Hk. rewrite jsc_lookup_frame by exact Hx. unfold env_val.
    destruct (bstr_eqb key x) eqn:Ekx.
    + apply bstr_eqb_true in Ekx. subst key. rewrite Ex. destruct (jsc_name_cons x (n + 1)) as (c0 & r0 & Hc). rewrite Hc. rewrite <- Hc. exact Jd.
    + rewrite (ident_neq_jk key jk_var Hid eq_refl), (ident_neq_jk key jk_limit Hid eq_refl), (ident_neq_jk key jk_index Hid eq_refl).
      rewrite (A key Ekx (ident_neq_index key x Hid) (ident_neq_lastindex key x Hid)). exact (Xv key Hid Hk).
  - exact Xi.
  - intro key. unfold env_val.
    destruct (bstr_eqb key x) eqn:K1; [apply bstr_eqb_true in K1; subst; rewrite Ex; exact Hcv|].
    destruct (bstr_eqb key (x ++ jk_index)) eqn:K2; [apply bstr_eqb_true in K2; subst; rewrite Ei; exact Hsi|].
    destruct (bstr_eqb key (x ++ c_lastindex)) eqn:K3; [apply bstr_eqb_true in K3; subst; rewrite L; exact Hsl|].
    rewrite (A key K1 K2 K3). apply Xc.
  - exact Xci.
  - intros y i' Hy. rewrite jsc_loop_frame by exact Hx. destruct (bstr_eqb x y) eqn:Exy.
    + apply bstr_eqb_true in Exy. subst y. cbn [fst snd]. rewrite Ei in Hy. inversion Hy; subst i'.
      split; [destruct (jsc_name_cons (x ++ t_index) (n + 1)) as (c0 & r0 & Hc); rewrite Hc; discriminate|].
      split; [exact Ji|]. intros l Hl. rewrite L in Hl. inversion Hl; subst. exact Jl.
    + assert (Hyx : bstr_eqb (y ++ jk_index) (x ++ jk_index) = false) by (rewrite app_same_tail_eqb, bstr_eqb_sym; exact Exy).
      assert (K1 : bstr_eqb (y ++ jk_index) x = false) by (rewrite bstr_eqb_sym; apply ident_neq_index; exact Hx).
      rewrite (A _ K1 Hyx (index_neq_lastindex y x)) in Hy.
      destruct (Xl y i' Hy) as (P & Q & R). split; [exact P|]. split; [exact Q|].
      intros l Hl. apply R. rewrite <- Hl. symmetry. apply A.
      * rewrite bstr_eqb_sym; apply ident_neq_lastindex; exact Hx.
      * rewrite bstr_eqb_sym. apply index_neq_lastindex.
      * rewrite app_same_tail_eqb, bstr_eqb_sym; exact Exy.
Qed.

(* lia on the arithmetic hypotheses only (the contexts of the loop cases are large) *)
Ltac keep_arith T :=
  lazymatch T with
  | @eq Z _ _ => idtac | @eq nat _ _ => idtac | @eq N _ _ => idtac
  | Z.le _ _ => idtac | Z.lt _ _ => idtac | Z.ge _ _ => idtac | Z.gt _ _ => idtac
  | le _ _ => idtac | lt _ _ => idtac | N.le _ _ => idtac | N.lt _ _ => idtac
  | _ /\ _ => idtac | _ \/ _ => idtac | ~ _ => idtac
  | _ => fail
  end.
Ltac alia := repeat match goal with H : ?T |- _ => tryif keep_arith T then fail else clear H end; lia.


(* what the rounds need of the item expression: it gives the element of the round as long as the variables it reads are
   stable, and these are variables of this loop other than the item and the index (a definition, so that the arithmetic
   tactics do not look inside) *)
Definition item_ok (n : N) (x : bstr) (l : list value) (item : jenv -> Z -> outcome jval) (stable : jenv -> Prop) : Prop :=
  (forall je0 pre v r, stable je0 -> l = pre ++ v :: r -> item je0 (Z.of_nat (length pre)) = Ok (to_js v))
  /\ (forall je0 je1, stable je0 ->
        (forall y, y <> x -> y <> x ++ t_index -> jvget je1 (jsc_name y (n + 1)) = jvget je0 (jsc_name y (n + 1))) -> stable je1).

(* the rounds of the generated for loop, from round |pre| on *)
Lemma js_rounds body (HB : JP_b body) buf sc n x env je last l jb n2 :
  is_ident x = true -> ginv sc n buf -> env_rel sc ij env je -> datarel denv (je_data je) ->
  bgen mode buf ([] :: loop_frame x (n + 1) :: sc) (n + 1) body = (jb, n2) ->
  small (last + 1) = true -> (0 <= last)%Z -> Z.of_nat (length l) = (last + 1)%Z ->
  forallb core_value l = true ->
  forall (item : jenv -> Z -> outcome jval) (stable : jenv -> Prop), item_ok n x l item stable ->
  forall items pre envk jek old text, l = pre ++ items ->
    loop_env env envk x last ->
    for_out (fun en => bout ij mode go_print_text denv callee en body) x envk (Z.of_nat (length pre)) items = Some text ->
    frame buf n je jek -> jvget jek buf = Some (JStr old) ->
    stable jek ->
    jvget jek (jsc_name (x ++ t_limit) (n + 1)) = Some (JNum (last + 1)) ->
    jvget jek (jsc_name (x ++ t_index) (n + 1)) = Some (JNum (Z.of_nat (length pre))) ->
    exists je', js_for (fun en => jb_exec en jb) item (jsc_name x (n + 1))
                       (jsc_name (x ++ t_limit) (n + 1)) (jsc_name (x ++ t_index) (n + 1)) (length items) jek = Ok je'
      /\ jvget je' buf = Some (JStr (old ++ text)) /\ frame buf n je je'.
Proof.
  intros Hx G ER DR Eg Hsl1 Hl0 Hlen Hcore item stable HIK.
  destruct (loop_names_distinct x (n + 1)) as (D1 & D2 & D3 & D4 & D5 & D6). cbn zeta in *.
  set (vd := jsc_name x (n + 1)) in *. set (vlist := jsc_name (x ++ t_list) (n + 1)) in *.
  set (vlen := jsc_name (x ++ t_limit) (n + 1)) in *. set (vidx := jsc_name (x ++ t_index) (n + 1)) in *.
  pose proof (ginv_loop sc n buf x Hx G) as G1.
  assert (Hsl : small last = true) by (apply (small_between last (last + 1)); [alia|exact Hsl1]).
  assert (Bf : forall y, bstr_eqb buf (jsc_name y (n + 1)) = false) by (intro y; apply bounded_fresh; apply G).
  assert (Bf' : forall y, bstr_eqb (jsc_name y (n + 1)) buf = false) by (intro y; rewrite bstr_eqb_sym; apply Bf).
  induction items as [|v r IH]; intros pre envk jek old text Hl LE Ef Fk Hb Jl Jn Ji.
  - cbn [for_out] in Ef. inversion Ef; subst text. rewrite app_nil_r in Hl. subst pre.
    cbn [length js_for]. rewrite Ji, Jn.
    replace (Z.of_nat (length l) <? last + 1)%Z with false by (symmetry; apply Z.ltb_ge; alia).
    exists jek. rewrite app_nil_r. auto.
  - cbn [for_out] in Ef. set (i := Z.of_nat (length pre)) in *.
    set (env1 := env_set (env_set envk x v) (x ++ jk_index) (VInt i)) in *.
    destruct (bout ij mode go_print_text denv callee env1 body) as [t|] eqn:Et; [|discriminate].
    destruct (for_out (fun en => bout ij mode go_print_text denv callee en body) x env1 (i + 1)%Z r) as [t'|] eqn:Er; [|discriminate].
    inversion Ef; subst text. clear Ef.
    assert (Hlenl : length l = (length pre + S (length r))%nat) by (rewrite Hl, app_length; reflexivity).
    assert (Hi : (0 <= i <= last)%Z) by (subst i; alia).
    cbn [length js_for]. rewrite Ji, Jn.
    replace (i <? last + 1)%Z with true by (symmetry; apply Z.ltb_lt; alia).
    pose proof (proj1 HIK jek pre v r Jl Hl) as Hit. fold i in Hit. rewrite Hit. cbn [bind]. clear Hit.
    set (je1 := jvset jek vd (to_js v)).
    assert (F1 : frame buf n je je1) by (eapply frame_comp; [exact Fk|apply frame_set_new]).
    assert (LE1 : loop_env env env1 x last) by (apply loop_env_round; assumption).
    assert (Hv : core_value v = true).
    { apply (proj1 (forallb_forall _ _) Hcore). rewrite Hl. apply in_or_app. right. left. reflexivity. }
    assert (ER1 : env_rel (loop_frame x (n + 1) :: sc) ij env1 je1).
    { apply (env_rel_round buf sc n env je env1 je1 x last v i Hx G ER F1 LE1).
      - subst env1. unfold env_set. rewrite (ident_neq_index x x Hx), bstr_eqb_refl'. reflexivity.
      - subst env1. unfold env_set. rewrite bstr_eqb_refl'. reflexivity.
      - exact Hv.
      - apply (small_between i last Hi Hsl).
      - exact Hsl.
      - apply assoc_s_aset.
      - unfold jvget, je1. cbn [jvset je_vars]. rewrite assoc_s_aset_other by (rewrite bstr_eqb_sym; exact D3). exact Ji.
      - unfold jvget, je1. cbn [jvset je_vars]. rewrite assoc_s_aset_other by (rewrite bstr_eqb_sym; exact D2). exact Jn. }
    assert (Hb1 : assoc_s buf (je_vars je1) = Some (JStr old)).
    { unfold je1. cbn [jvset je_vars]. rewrite assoc_s_aset_other by apply Bf. exact Hb. }
    assert (DR1 : datarel denv (je_data je1)) by (rewrite (proj1 F1); exact DR).
    destruct (JP_block body HB buf (loop_frame x (n + 1) :: sc) (n + 1) env1 je1 old t jb n2 G1 Et (conj ER1 Hb1) DR1 Eg)
      as (je2 & X & Hb2 & F2).
    rewrite X. cbn [bind].
    assert (Keep : forall y, bstr_eqb (jsc_name y (n + 1)) vd = false -> jvget je2 (jsc_name y (n + 1)) = jvget jek (jsc_name y (n + 1))).
    { intros y Hy. unfold jvget. rewrite (proj2 F2) by (try apply bounded_new; apply Bf').
      unfold je1. cbn [jvset je_vars]. apply assoc_s_aset_other. exact Hy. }
    pose proof (Keep (x ++ t_index) ltac:(rewrite bstr_eqb_sym; exact D3)) as Ki. fold vidx in Ki. rewrite Ki, Ji.
    unfold js_num. replace (small (i + 1)) with true by (symmetry; apply (small_between (i + 1) (last + 1)); [alia|exact Hsl1]). cbn [bind].
    set (je3 := jvset je2 vidx (JNum (i + 1))).
    assert (F3 : frame buf n je je3).
    { eapply frame_comp; [exact F1|]. eapply frame_comp; [eapply frame_weaken; [|exact F2]; alia|apply frame_set_new]. }
    destruct (IH (pre ++ [v]) env1 je3 (old ++ t) t') as (je' & X' & Hb' & F').
    + rewrite <- app_assoc. exact Hl.
    + exact LE1.
    + rewrite app_length. cbn [length]. replace (Z.of_nat (length pre + 1)) with (i + 1)%Z by (subst i; alia). exact Er.
    + exact F3.
    + unfold jvget, je3. cbn [jvset je_vars]. rewrite assoc_s_aset_other by apply Bf. exact Hb2.
    + apply (proj2 HIK jek je3 Jl). intros y Hy1 Hy2. unfold jvget at 1. unfold je3. cbn [jvset je_vars].
      rewrite assoc_s_aset_other by (apply jsc_name_neq; exact Hy2). apply (Keep y). apply jsc_name_neq. exact Hy1.
    + unfold jvget, je3. cbn [jvset je_vars]. rewrite assoc_s_aset_other by exact D6.
      pose proof (Keep (x ++ t_limit) ltac:(rewrite bstr_eqb_sym; exact D2)) as Kn. fold vlen in Kn. unfold jvget in Kn. rewrite Kn. exact Jn.
    + unfold jvget, je3. cbn [jvset je_vars]. rewrite assoc_s_aset. rewrite app_length. cbn [length]. f_equal. f_equal. subst i. clear - pre. lia.
    + exists je'. split; [exact X'|]. split; [rewrite app_assoc; exact Hb'|exact F'].
Qed.

(* the arguments of range() on the JavaScript side *)
Lemma range_args_js sc env je a1 rest zs a l st : env_rel sc ij env je -> cints ij env (a1 :: rest) = Some zs ->
  range_args 0%Z 1%Z zs = Some (a, l, st) ->
  exists ei el es, range_args (JENum 0) (JENum 1) (map (cgen sc) (a1 :: rest)) = Some (ei, el, es)
    /\ small a = true /\ small l = true /\ small st = true
    /\ forall je', env_rel sc ij env je' -> js_eval je' ei = Ok (JNum a) /\ js_eval je' el = Ok (JNum l) /\ js_eval je' es = Ok (JNum st).
Proof.
  intros ER Hc Hr.
  assert (Hone : forall e z, ceval ij env e = Some (VInt z) ->
            small z = true /\ forall je', env_rel sc ij env je' -> js_eval je' (cgen sc e) = Ok (JNum z)).
  { intros e z He. split; [exact (proj2 (cgen_correct sc ij env je ER e (VInt z) He))|].
    intros je' ER'. exact (proj1 (cgen_correct sc ij env je' ER' e (VInt z) He)). }
  cbn [cints] in Hc. destruct (ceval ij env a1) as [[| | |z1| | | |]|] eqn:E1; try discriminate.
  destruct (Hone a1 z1 E1) as [S1 J1].
  destruct rest as [|e2 rest].
  - cbn [cints] in Hc. inversion Hc; subst zs. cbn [range_args] in Hr. inversion Hr; subst.
    exists (JENum 0), (cgen sc a1), (JENum 1). split; [reflexivity|]. repeat split; auto; try (apply J1; assumption).
  - cbn [cints] in Hc. destruct (ceval ij env e2) as [[| | |z2| | | |]|] eqn:E2; try discriminate.
    destruct (Hone e2 z2 E2) as [S2 J2].
    destruct rest as [|e3 rest].
    + cbn [cints] in Hc. inversion Hc; subst zs. cbn [range_args] in Hr. inversion Hr; subst.
      exists (cgen sc a1), (cgen sc e2), (JENum 1). split; [reflexivity|]. repeat split; auto; try (apply J1; assumption); try (apply J2; assumption).
    + cbn [cints] in Hc. destruct (ceval ij env e3) as [[| | |z3| | | |]|] eqn:E3; try discriminate.
      destruct (Hone e3 z3 E3) as [S3 J3].
      destruct rest as [|e4 rest].
      * cbn [cints] in Hc. inversion Hc; subst zs. cbn [range_args] in Hr. inversion Hr; subst.
        exists (cgen sc a1), (cgen sc e2), (cgen sc e3). split; [reflexivity|]. repeat split; auto; try (apply J1; assumption); try (apply J2; assumption); try (apply J3; assumption).
      * cbn [cints] in Hc. destruct (ceval ij env e4) as [[| | |z4| | | |]|]; try discriminate.
        destruct (cints ij env rest) as [zr|]; try discriminate. inversion Hc; subst zs. cbn [range_args] in Hr. discriminate.
Qed.

Lemma small_in a l v : small a = true -> small l = true -> (a <= v <= l \/ l <= v <= a)%Z -> small v = true.
Proof. clear denv callee jfn. unfold small. intros Ha Hl H. apply Z.leb_le in Ha, Hl. apply Z.leb_le. lia. Qed.

(* the JavaScript function of a template returns the text the template writes, for every data object that holds the
   template's data and every opt_ijData that holds the injected data (if there is any) *)
Hypothesis Hjcall : forall name cenv text jd ijv, callee name cenv = Some text -> datarel cenv jd ->
  (forall v, ij = Some v -> ijv = to_js v) -> jfn name jd ijv = Ok text.

Theorem js_exec_all : (forall s, JP_s s) /\ (forall b, JP_b b) /\ (forall e, JP_e e) /\ (forall k, JP_k k) /\ (forall ps, JP_p ps) /\ (forall q, JP_q q).
Proof.
  apply cstmt_mutind.
  - (* raw *) intros t buf sc n env je old text env' j sc' n' G E I DR Eg. rewrite sout_raw in E. rewrite sgen_raw in Eg. inversion E; subst. inversion Eg; subst.
    cbn [js_exec]. unfold js_append_text. rewrite (proj2 I). eexists. split; [reflexivity|]. split; [eapply jinv_append; eauto|apply append_frame].
  - (* print *) intros e ds buf sc n env je old text env' j sc' n' G E I DR Eg. rewrite sout_print in E. rewrite sgen_print_eq in Eg. inversion Eg; subst. clear Eg.
    destruct (ceval ij env e) as [v|] eqn:Ev; [|discriminate]. destruct (scalar_string v) as [str|] eqn:Es; [|discriminate].
    destruct (cleanb str) eqn:Ec; [|discriminate]. inversion E; subst. clear E.
    destruct (scalar_string_ok v str Es) as (Hp & Hvs & Ht). destruct I as [ER Hb].
    destruct (cgen_correct sc' ij env' je ER e v Ev) as [Hj _].
    destruct (js_print_expr je mode ds (cgen sc' e) (to_js v) str Hj Ht) as (jv' & Ej & Tj).
    rewrite (print_text_agree mode ds str (cleanb_ok _ Ec)) in Tj.
    cbn [js_exec]. unfold js_append. rewrite Ej. cbn [bind]. rewrite Tj, Hb. cbn [bind snd]. eexists. split; [reflexivity|].
    split; [eapply jinv_append; eauto; split; assumption|apply append_frame].
  - (* let *) intros name e buf sc n env je old text env' j sc' n' G E I DR Eg. rewrite sout_let in E. rewrite sgen_let in Eg. inversion Eg; subst. clear Eg.
    destruct (bstr_eqb name n_ij) eqn:Hnij; [discriminate|]. destruct (is_ident name) eqn:Hid; [|discriminate].
    destruct (ceval ij env e) as [v|] eqn:Ev; [|discriminate]. inversion E; subst. clear E.
    destruct I as [ER Hb]. destruct (cgen_correct sc ij env je ER e v Ev) as [Hj Hcv].
    rewrite js_exec_var, Hj. cbn [bind]. eexists. split; [reflexivity|]. rewrite app_nil_r.
    set (g := jsc_name name (n + 1)).
    assert (Hbg : bstr_eqb buf g = false) by (apply bounded_fresh; apply G).
    assert (Hfr : frame buf n je {| je_vars := aset (je_vars je) g (to_js v); je_data := je_data je |}).
    { split; [reflexivity|]. intros g0 H0 _. cbn [je_vars]. apply assoc_s_aset_other. apply bounded_fresh. exact H0. }
    split; [|exact Hfr]. split; [|cbn [je_vars]; rewrite assoc_s_aset_other by exact Hbg; exact Hb].
    apply (env_rel_bind buf sc n env je _ name v Hid G ER Hfr); [apply assoc_s_aset|exact Hcv].
  - (* let, content form *) intros name body IHb buf sc n env je old text env' j sc' n' G E I DR Eg. rewrite sout_letc in E. rewrite sgen_letc in Eg.
    destruct (bstr_eqb name n_ij) eqn:Hnij; [discriminate|]. destruct (is_ident name) eqn:Hid; [|discriminate].
    destruct (bout ij mode go_print_text denv callee env body) as [t|] eqn:Et; [|discriminate]. inversion E; subst. clear E.
    set (g := jsc_name name (n + 1)) in *.
    destruct (bgen mode g ([] :: sc) (n + 1) body) as [jb n1] eqn:E1. inversion Eg; subst. clear Eg.
    destruct I as [ER Hb]. rewrite js_exec_varblock.
    set (je0 := {| je_vars := aset (je_vars je) g (JStr []); je_data := je_data je |}).
    assert (Hbg : bstr_eqb buf g = false) by (apply bounded_fresh; apply G).
    assert (F0 : frame buf n je je0).
    { split; [reflexivity|]. intros g0 H0 _. cbn [je_vars]. apply assoc_s_aset_other. apply bounded_fresh. exact H0. }
    (* the body runs with the new variable as its buffer *)
    assert (G' : ginv sc (n + 1) g).
    { destruct G as [G0 G1 G2 G3 G4 G5]. constructor.
      - exact G0.
      - intros key Hk. eapply bounded_mono; [|apply G1; exact Hk]. lia.
      - apply bounded_new.
      - intros key Hk. apply bounded_fresh. apply G1; exact Hk.
      - apply bounded_fresh. apply opt_ij_bounded.
      - intro x. destruct (G5 x) as (A & B & _ & _). repeat split; try (eapply bounded_mono; [|eassumption]; lia); apply bounded_fresh; assumption. }
    assert (I0 : jinv g sc env je0 []).
    { split; [exact (env_rel_frame buf sc n env je je0 G ER F0)|]. exact (assoc_s_aset g (JStr []) (je_vars je)). }
    destruct (JP_block body IHb g sc (n + 1) env je0 [] t jb n' G' Et I0 DR E1) as (je1 & X1 & Hg1 & [D1 F1]).
    exists je1. split; [exact X1|]. rewrite app_nil_r. cbn [app] in Hg1.
    (* seen from outside: only variables with newer counters, and g, were touched *)
    assert (F : frame buf n je je1).
    { split; [rewrite D1; reflexivity|]. intros g0 H0 Hb0. rewrite F1.
      - cbn [je_vars je0]. apply assoc_s_aset_other. apply bounded_fresh. exact H0.
      - eapply bounded_mono; [|exact H0]. lia.
      - apply bounded_fresh. exact H0. }
    split; [|exact F]. split.
    + apply (env_rel_bind buf sc n env je je1 name (VStr t) Hid G ER F); [exact Hg1|reflexivity].
    + rewrite F1; [|eapply bounded_mono; [|apply (gi_buf _ _ _ G)]; lia|exact Hbg]. cbn [je_vars je0]. rewrite assoc_s_aset_other by exact Hbg. exact Hb.
  - (* if *) intros c th IHt rest IHr buf sc n env je old text env' j sc' n' G E I DR Eg. rewrite sout_if in E. rewrite sgen_if in Eg.
    destruct (bgen mode buf ([] :: sc) n th) as [jt n1] eqn:E1. destruct (egen mode buf sc n1 rest) as [jr n2] eqn:E2. inversion Eg; subst. clear Eg.
    destruct (ceval ij env c) as [v|] eqn:Ev; [|discriminate].
    pose proof I as [ER Hb]. destruct (cgen_correct sc' ij env je ER c v Ev) as [Hj Hcv].
    rewrite js_exec_if, Hj. cbn [bind]. rewrite truthy_js by exact Hcv.
    pose proof (proj1 (proj2 (sgen_mono_all mode)) _ _ _ _ _ _ E1) as Hn1.
    destruct (truthy v).
    + destruct (bout ij mode go_print_text denv callee env th) as [t|] eqn:Et; [|discriminate]. inversion E; subst. clear E.
      destruct (JP_block th IHt buf sc' n env' je old text jt n1 G Et I DR E1) as (je' & X & Hb' & F).
      exists je'. split; [exact X|]. split; [eapply jinv_frame; eauto|exact F].
    + destruct (eout ij mode go_print_text denv callee env rest) as [t|] eqn:Et; [|discriminate]. inversion E; subst. clear E.
      destruct (IHr buf sc' n1 env' je old text jr n' (ginv_mono _ _ _ _ Hn1 G) Et I DR E2) as (je' & X & Hb' & F).
      assert (F' : frame buf n je je') by (eapply frame_trans; [exact Hn1|apply frame_refl|exact F]).
      exists je'. split; [exact X|]. split; [eapply jinv_frame; eauto|exact F'].
  - (* switch *) intros v cs IHk buf sc n env je old text env' j sc' n' G E I DR Eg. rewrite sout_switch in E. rewrite sgen_switch in Eg.
    destruct (kgen mode buf sc n cs) as [jc n1] eqn:E1. inversion Eg; subst. clear Eg.
    destruct (ceval ij env v) as [sv|] eqn:Ev; [|discriminate]. destruct (prim_value sv) eqn:Hp; [|discriminate].
    destruct (kout ij mode go_print_text denv callee env sv cs) as [t|] eqn:Et; [|discriminate]. inversion E; subst. clear E.
    pose proof I as [ER Hb]. destruct (cgen_correct sc' ij env' je ER v sv Ev) as [Hj Hcv].
    rewrite js_exec_switch, Hj. cbn [bind].
    destruct (IHk buf sc' n env' je old text sv jc n' G Hp Et I DR E1) as (je' & X & Hb' & F).
    exists je'. split; [exact X|]. split; [eapply jinv_frame; eauto|exact F].
  - (* foreach *) intros x e body IHb hasie ie IHi buf sc n env je old text env' j sc' n' G E I DR Eg. rewrite sout_for in E. rewrite sgen_for in Eg.
    destruct (is_ident x) eqn:Hx; [|discriminate]. destruct (bstr_eqb x n_ij) eqn:Hxij; [discriminate|]. cbn [andb negb] in E.
    destruct (ceval ij env e) as [[| | | | | |lid l|]|] eqn:Ev; try discriminate.
    destruct (small (Z.of_nat (length l))) eqn:Hsm; [|discriminate].
    destruct (bgen mode buf ([] :: loop_frame x (n + 1) :: sc) (n + 1) body) as [jb n1] eqn:E1.
    pose proof (proj1 (proj2 (sgen_mono_all mode)) _ _ _ _ _ _ E1) as Hn1.
    pose proof I as [ER Hb]. destruct (cgen_correct sc ij env je ER e _ Ev) as [Hj Hcv]. cbn [to_js] in Hj. cbn [core_value] in Hcv.
    destruct (loop_names_distinct x (n + 1)) as (D1 & D2 & D3 & D4 & D5 & D6). cbn zeta in *.
    set (vd := jsc_name x (n + 1)) in *. set (vlist := jsc_name (x ++ t_list) (n + 1)) in *.
    set (vlen := jsc_name (x ++ t_limit) (n + 1)) in *. set (vidx := jsc_name (x ++ t_index) (n + 1)) in *.
    assert (Bf : forall y, bstr_eqb buf (jsc_name y (n + 1)) = false) by (intro y; apply bounded_fresh; apply G).
    set (je2 := jvset (jvset je vlist (JArr (map to_js l))) vlen (JNum (Z.of_nat (length l)))).
    assert (F2 : frame buf n je je2) by (eapply frame_comp; apply frame_set_new).
    assert (Hb2 : assoc_s buf (je_vars je2) = Some (JStr old)).
    { unfold je2. cbn [jvset je_vars]. rewrite !assoc_s_aset_other by apply Bf. exact Hb. }
    destruct l as [|v0 r0].
    + (* the empty list *)
      destruct hasie.
      * destruct (bgen mode buf ([] :: sc) n1 ie) as [ji n2] eqn:E2. inversion Eg; subst. clear Eg.
        destruct (bout ij mode go_print_text denv callee env ie) as [t|] eqn:Et; [|discriminate]. inversion E; subst. clear E.
        rewrite js_exec_foreach, Hj. cbn [bind map length Z.of_nat andb]. replace (0 <=? 0)%Z with true by reflexivity. cbn iota. fold je2.
        assert (I2 : jinv buf sc' env' je2 old) by (split; [exact (env_rel_frame buf sc' n env' je je2 G ER F2)|exact Hb2]).
        destruct (JP_block ie IHi buf sc' n1 env' je2 old text ji n' (ginv_mono sc' n n1 buf ltac:(alia) G) Et I2 DR E2) as (je' & X & Hb' & F').
        assert (F : frame buf n je je') by (eapply frame_comp; [exact F2|eapply frame_weaken; [|exact F']; alia]).
        exists je'. split; [exact X|]. split; [exact (jinv_frame buf sc' n env' je je' old _ G I F Hb')|exact F].
      * inversion Eg; subst. clear Eg. inversion E; subst. clear E.
        rewrite js_exec_foreach, Hj. cbn [bind map length Z.of_nat andb]. fold je2.
        cbn [js_for]. unfold jvget. cbn [jvset je_vars]. rewrite assoc_s_aset.
        rewrite assoc_s_aset_other by exact D6. rewrite assoc_s_aset.
        replace (0 <? 0)%Z with false by reflexivity. eexists. split; [reflexivity|]. rewrite app_nil_r.
        assert (F : frame buf n je (jvset je2 vidx (JNum 0))) by (eapply frame_comp; [exact F2|apply frame_set_new]).
        split; [|exact F]. eapply jinv_frame; eauto. cbn [jvset je_vars]. rewrite assoc_s_aset_other by apply Bf. exact Hb2.
    + (* at least one element *)
      set (l := v0 :: r0) in *.
      set (last := (Z.of_nat (length l) - 1)%Z) in *.
      destruct (for_out (fun en => bout ij mode go_print_text denv callee en body) x (env_set env (x ++ c_lastindex) (VInt last)) 0%Z l) as [t|] eqn:Ef; [|discriminate].
      assert (En : n' = if hasie then snd (bgen mode buf ([] :: sc) n1 ie) else n1).
      { destruct hasie; [destruct (bgen mode buf ([] :: sc) n1 ie) as [ji n2]|]; inversion Eg; reflexivity. }
      assert (Ej : exists ji, j = JSForeach vd vlist vlen vidx (cgen sc e) jb hasie ji /\ sc' = sc).
      { destruct hasie; [destruct (bgen mode buf ([] :: sc) n1 ie) as [ji n2]|]; inversion Eg; eexists; split; reflexivity. }
      destruct Ej as (ji & -> & ->). inversion E; subst t env'. clear E.
      rewrite js_exec_foreach, Hj. cbn [bind]. rewrite map_length. fold je2.
      replace (hasie && (Z.of_nat (length l) <=? 0)%Z) with false by (subst l; cbn [length]; rewrite andb_comm; symmetry; apply andb_false_intro1; apply Z.leb_gt; alia).
      set (je3 := jvset je2 vidx (JNum 0)).
      assert (F3 : frame buf n je je3) by (eapply frame_comp; [exact F2|apply frame_set_new]).
      assert (LE : loop_env env (env_set env (x ++ c_lastindex) (VInt last)) x last).
      { split; [unfold env_set; rewrite bstr_eqb_refl'; reflexivity|]. intros key _ _ K3. unfold env_set. rewrite K3. reflexivity. }
      destruct (js_rounds body IHb buf sc n x env je last l jb n1 Hx G ER DR E1) with (items := l) (pre := @nil value)
          (item := js_item_elem vlist) (stable := fun en => jvget en vlist = Some (JArr (map to_js l)))
          (envk := env_set env (x ++ c_lastindex) (VInt last)) (jek := je3) (old := old) (text := text) as (je' & X & Hb' & F').
      * replace (last + 1)%Z with (Z.of_nat (length l)) by (subst last; alia). exact Hsm.
      * subst last l. cbn [length]. alia.
      * subst last. alia.
      * exact Hcv.
      * split.
        -- intros je0 pre v r S0 Hl. unfold js_item_elem. rewrite S0, js_index_arr, Hl, list_index_mid. reflexivity.
        -- intros je0 je1 S0 Hk. subst vlist. rewrite Hk; [exact S0|intro Q; symmetry in Q; revert Q; apply app_neq_self; discriminate|apply app_neq_tails; discriminate].
      * reflexivity.
      * exact LE.
      * exact Ef.
      * exact F3.
      * unfold jvget, je3. cbn [jvset je_vars]. rewrite assoc_s_aset_other by apply Bf. exact Hb2.
      * unfold jvget, je3, je2. cbn [jvset je_vars]. rewrite assoc_s_aset_other by exact D5. rewrite assoc_s_aset_other by exact D4. apply assoc_s_aset.
      * unfold jvget, je3, je2. cbn [jvset je_vars]. rewrite assoc_s_aset_other by exact D6. rewrite assoc_s_aset. f_equal. f_equal. subst last. alia.
      * unfold jvget, je3. cbn [jvset je_vars]. apply assoc_s_aset.
      * exists je'. split; [exact X|]. split; [eapply jinv_frame; eauto|exact F'].
  - (* for over range() *) intros x a1 rest body IHb hasie ie IHi buf sc n env je old text env' j sc' n' G E I DR Eg.
    rewrite sout_forrange in E. rewrite sgen_forrange in Eg.
    destruct (is_ident x) eqn:Hx; [|discriminate]. destruct (bstr_eqb x n_ij) eqn:Hxij; [discriminate|]. cbn [andb negb] in E.
    destruct (cints ij env (a1 :: rest)) as [zs|] eqn:Hc; [|discriminate].
    destruct (range_args 0%Z 1%Z zs) as [[[a l] st]|] eqn:Hr; [|discriminate].
    destruct (0 <? st)%Z eqn:Hst; [|discriminate]. destruct (small (l - a)) eqn:Hsd; [|discriminate]. cbn [andb] in E. cbn zeta in E.
    apply Z.ltb_lt in Hst. pose proof I as [ER Hb].
    destruct (range_args_js sc env je a1 rest zs a l st ER Hc Hr) as (ei & el & es & Hra & Hsa & Hsl & Hss & Hev).
    rewrite Hra in Eg.
    destruct (bgen mode buf ([] :: loop_frame x (n + 1) :: sc) (n + 1) body) as [jb n1] eqn:E1.
    pose proof (proj1 (proj2 (sgen_mono_all mode)) _ _ _ _ _ _ E1) as Hn1.
    destruct (range_cnt_bound a l st Hst) as (C0 & C1 & C2).
    rewrite (range_items_spec st l Hst) in E by alia. set (cnt := range_cnt a l st) in *.
    assert (Hscnt : small cnt = true).
    { unfold small in *. apply Z.leb_le in Hsd. apply Z.leb_le. alia. }
    set (vd := jsc_name x (n + 1)) in *. set (vinit := jsc_name (x ++ t_init) (n + 1)) in *. set (vstep := jsc_name (x ++ t_step) (n + 1)) in *.
    set (vlen := jsc_name (x ++ t_limit) (n + 1)) in *. set (vidx := jsc_name (x ++ t_index) (n + 1)) in *.
    assert (N1 : bstr_eqb vinit vstep = false) by (apply jsc_name_neq, app_neq_tails; discriminate).
    assert (N2 : bstr_eqb vinit vlen = false) by (apply jsc_name_neq, app_neq_tails; discriminate).
    assert (N3 : bstr_eqb vstep vlen = false) by (apply jsc_name_neq, app_neq_tails; discriminate).
    assert (N4 : bstr_eqb vlen vidx = false) by (apply jsc_name_neq, app_neq_tails; discriminate).
    assert (Bf : forall y, bstr_eqb buf (jsc_name y (n + 1)) = false) by (intro y; apply bounded_fresh; apply G).
    set (je1 := jvset je vinit (JNum a)). set (je2 := jvset je1 vstep (JNum st)). set (je3 := jvset je2 vlen (JNum cnt)).
    assert (F1 : frame buf n je je1) by apply frame_set_new.
    assert (F2 : frame buf n je je2) by (eapply frame_comp; [exact F1|apply frame_set_new]).
    assert (F3 : frame buf n je je3) by (eapply frame_comp; [exact F2|apply frame_set_new]).
    assert (Hb3 : assoc_s buf (je_vars je3) = Some (JStr old)).
    { unfold je3, je2, je1. cbn [jvset je_vars]. rewrite !assoc_s_aset_other by apply Bf. exact Hb. }
    assert (Ej : exists ji, j = JSForRange vd vinit vstep vlen vidx ei es el jb hasie ji /\ sc' = sc
                            /\ (if hasie then bgen mode buf ([] :: sc) n1 ie else (JBNil, n1)) = (ji, n')).
    { destruct hasie; [destruct (bgen mode buf ([] :: sc) n1 ie) as [ji n2]|]; inversion Eg; eexists; repeat split; reflexivity. }
    destruct Ej as (ji & -> & -> & Eji). clear Eg.
    (* the three declarations *)
    rewrite js_exec_forrange. rewrite (proj1 (Hev je ER)). cbn [bind]. fold je1.
    rewrite (proj2 (proj2 (Hev je1 (env_rel_frame buf sc n env je je1 G ER F1)))). cbn [bind]. fold je2.
    rewrite (proj1 (proj2 (Hev je2 (env_rel_frame buf sc n env je je2 G ER F2)))). cbn [bind].
    assert (J2i : jvget je2 vinit = Some (JNum a)) by (unfold jvget, je2, je1; cbn [jvset je_vars]; rewrite assoc_s_aset_other by exact N1; apply assoc_s_aset).
    assert (J2s : jvget je2 vstep = Some (JNum st)) by (unfold jvget, je2; cbn [jvset je_vars]; apply assoc_s_aset).
    rewrite J2i, J2s. unfold js_range_count. replace (st =? 0)%Z with false by (symmetry; apply Z.eqb_neq; alia). rewrite Hsd.
    rewrite ceil_div by exact Hst. fold (range_cnt a l st). fold cnt. unfold js_num. rewrite Hscnt. cbn [bind]. fold je3.
    destruct (Z.to_nat cnt) as [|k] eqn:Ek.
    + (* no element *) assert (cnt = 0%Z) by alia. cbn [lin_list] in E.
      replace (cnt <=? 0)%Z with true by (symmetry; apply Z.leb_le; alia). rewrite andb_true_r.
      destruct hasie.
      * destruct (bout ij mode go_print_text denv callee env ie) as [t|] eqn:Et; [|discriminate]. inversion E; subst. clear E.
        assert (I3 : jinv buf sc env' je3 old) by (split; [exact (env_rel_frame buf sc n env' je je3 G ER F3)|exact Hb3]).
        destruct (JP_block ie IHi buf sc n1 env' je3 old text ji n' (ginv_mono sc n n1 buf ltac:(alia) G) Et I3 DR Eji) as (je' & X & Hb' & F').
        assert (F : frame buf n je je') by (eapply frame_comp; [exact F3|eapply frame_weaken; [|exact F']; alia]).
        exists je'. split; [exact X|]. split; [exact (jinv_frame buf sc n env' je je' old _ G I F Hb')|exact F].
      * inversion E; subst. clear E. cbn [js_for]. unfold jvget. cbn [jvset je_vars]. rewrite assoc_s_aset.
        rewrite assoc_s_aset_other by exact N4. unfold je3 at 1. cbn [jvset je_vars]. rewrite assoc_s_aset.
        replace (0 <? cnt)%Z with false by (symmetry; apply Z.ltb_ge; alia). eexists. split; [reflexivity|]. rewrite app_nil_r.
        assert (F : frame buf n je (jvset je3 vidx (JNum 0))) by (eapply frame_comp; [exact F3|apply frame_set_new]).
        split; [|exact F]. eapply jinv_frame; eauto. cbn [jvset je_vars]. rewrite assoc_s_aset_other by apply Bf. exact Hb3.
    + (* at least one element *)
      set (l0 := lin_list (S k) a st) in *.
      assert (Hlen0 : length l0 = S k) by apply lin_list_length.
      assert (Hl0 : exists v0 r0, l0 = v0 :: r0) by (unfold l0; cbn [lin_list]; eauto). destruct Hl0 as (v0 & r0 & Hl0).
      rewrite Hl0 in E. rewrite <- Hl0 in E.
      replace (hasie && (cnt <=? 0)%Z) with false by (rewrite andb_comm; symmetry; apply andb_false_intro1; apply Z.leb_gt; alia).
      set (last := (Z.of_nat (length l0) - 1)%Z) in *.
      destruct (for_out (fun en => bout ij mode go_print_text denv callee en body) x (env_set env (x ++ c_lastindex) (VInt last)) 0%Z l0) as [t|] eqn:Ef; [|discriminate].
      inversion E; subst t env'. clear E.
      assert (Hcl : (cnt = last + 1)%Z) by (subst last; rewrite Hlen0; alia).
      (* every element is a + j * st with 0 <= j < cnt, between a and l *)
      assert (Helem : forall pre v r, l0 = pre ++ v :: r ->
                v = VInt (a + Z.of_nat (length pre) * st) /\ (0 <= Z.of_nat (length pre) * st <= Z.max 0 (l - a - 1))%Z).
      { intros pre v r Hs. split; [exact (lin_list_mid st pre (S k) a v r Hs)|].
        assert (length l0 = (length pre + S (length r))%nat) by (rewrite Hs, app_length; reflexivity).
        repeat match goal with H : ?T |- _ => tryif keep_arith T then fail else clear H end. nia. }
      assert (Hcore : forallb core_value l0 = true).
      { apply forallb_forall. intros v Hv. destruct (in_split v l0 Hv) as (pre & r & Hs). destruct (Helem pre v r Hs) as [-> Hb0].
        cbn [core_value]. apply (small_in a l); [exact Hsa|exact Hsl|]. left. alia. }
      set (je4 := jvset je3 vidx (JNum 0)).
      assert (F4 : frame buf n je je4) by (eapply frame_comp; [exact F3|apply frame_set_new]).
      assert (LE : loop_env env (env_set env (x ++ c_lastindex) (VInt last)) x last).
      { split; [unfold env_set; rewrite bstr_eqb_refl'; reflexivity|]. intros key _ _ K3. unfold env_set. rewrite K3. reflexivity. }
      replace (S k) with (length l0) by exact Hlen0.
      destruct (js_rounds body IHb buf sc n x env je last l0 jb n1 Hx G ER DR E1) with (items := l0) (pre := @nil value)
          (item := js_item_lin vinit vstep) (stable := fun en => jvget en vinit = Some (JNum a) /\ jvget en vstep = Some (JNum st))
          (envk := env_set env (x ++ c_lastindex) (VInt last)) (jek := je4) (old := old) (text := text) as (je' & X & Hb' & F').
      * rewrite <- Hcl. exact Hscnt.
      * alia.
      * alia.
      * exact Hcore.
      * split.
        -- intros je0 pre v r [S1 S2] Hs. destruct (Helem pre v r Hs) as [-> Hb0]. unfold js_item_lin. rewrite S1, S2. unfold js_num.
           replace (small (Z.of_nat (length pre) * st)) with true
             by (symmetry; apply (small_in 0 (l - a)); [reflexivity|exact Hsd|left; alia]). cbn [bind].
           replace (small (a + Z.of_nat (length pre) * st)) with true
             by (symmetry; apply (small_in a l); [exact Hsa|exact Hsl|left; alia]). reflexivity.
        -- intros je0 je1' [S1 S2] Hk. unfold vinit, vstep in *. split; (rewrite Hk; [assumption| |]);
             first [apply app_neq_tails; discriminate | (intro Q; symmetry in Q; revert Q; apply app_neq_self; discriminate)].
      * reflexivity.
      * exact LE.
      * exact Ef.
      * exact F4.
      * unfold jvget, je4. cbn [jvset je_vars]. rewrite assoc_s_aset_other by apply Bf. exact Hb3.
      * split.
        -- unfold jvget, je4, je3. cbn [jvset je_vars]. rewrite assoc_s_aset_other by (apply jsc_name_neq, app_neq_tails; discriminate).
           rewrite assoc_s_aset_other by exact N2. exact J2i.
        -- unfold jvget, je4, je3. cbn [jvset je_vars]. rewrite assoc_s_aset_other by (apply jsc_name_neq, app_neq_tails; discriminate).
           rewrite assoc_s_aset_other by exact N3. exact J2s.
      * unfold jvget, je4, je3. cbn [jvset je_vars]. rewrite assoc_s_aset_other by exact N4. rewrite assoc_s_aset. f_equal. f_equal. exact Hcl.
      * unfold jvget, je4. cbn [jvset je_vars]. apply assoc_s_aset.
      * exists je'. split; [exact X|]. split; [eapply jinv_frame; eauto|exact F'].
  - (* css *) intros e sfx buf sc n env je old text env' j sc' n' G E I DR Eg. rewrite sout_css in E. rewrite sgen_css in Eg. inversion Eg; subst. clear Eg.
    rewrite js_exec_css. pose proof I as [ER Hb]. destruct e as [x|].
    + destruct (ceval ij env x) as [v|] eqn:Ev; [|discriminate]. destruct (scalar_string v) as [str|] eqn:Es; [|discriminate]. inversion E; subst. clear E.
      destruct (scalar_string_ok v str Es) as (_ & _ & Ht). destruct (cgen_correct sc' ij env' je ER x v Ev) as [Hj _].
      rewrite Hj. cbn [bind]. rewrite Ht. unfold js_append_text at 1. rewrite Hb. cbn [bind].
      pose proof (jinv_append buf sc' n' env' je old (str ++ [45]) G I) as I1.
      set (je1 := {| je_vars := aset (je_vars je) buf (JStr (old ++ str ++ [45])); je_data := je_data je |}) in *.
      unfold js_append_text. rewrite (proj2 I1). eexists. split; [reflexivity|].
      split; [replace (old ++ (str ++ [45]) ++ sfx) with ((old ++ str ++ [45]) ++ sfx) by (rewrite <- app_assoc; reflexivity);
              exact (jinv_append buf sc' n' env' je1 _ sfx G I1)|].
      eapply frame_comp; apply append_frame.
    + inversion E; subst. clear E. cbn [bind]. unfold js_append_text. rewrite Hb. eexists. split; [reflexivity|].
      split; [eapply jinv_append; eauto|apply append_frame].
  - (* call *) intros name d ps IHp buf sc n env je old text env' j sc' n' G E I DR Eg. rewrite sout_call in E. rewrite sgen_call in Eg.
    destruct (pgen mode sc n ps) as [jps n1] eqn:Ep0. inversion Eg; subst. clear Eg.
    destruct (cdata_env ij denv env d) as [base|] eqn:Ed; [|discriminate].
    destruct (pout ij mode go_print_text denv callee env ps base) as [cenv|] eqn:Ep; [|discriminate].
    destruct (callee name cenv) as [t|] eqn:Ec; [|discriminate]. inversion E; subst. clear E.
    pose proof I as [ER Hb].
    (* the data object, whenever it is evaluated *)
    assert (Hbase : exists m, datarel base (JObj m) /\ forall je1, frame buf n je je1 ->
              match dgen sc' d with JDEmpty => Ok (JObj []) | JDOpt => Ok (je_data je1) | JDExpr e => js_eval je1 e end = Ok (JObj m)).
    { destruct d as [| |e]; cbn [cdata_env dgen] in *.
      - inversion Ed; subst. exists []. split; [apply datarel_empty|reflexivity].
      - inversion Ed; subst. destruct (datarel_obj _ _ DR) as (m & Hm). exists m. split; [rewrite <- Hm; exact DR|].
        intros je1 [D1 _]. rewrite D1, Hm. reflexivity.
      - destruct (ceval ij env' e) as [[| | | | | | |lid m]|] eqn:Ev; try discriminate.
        destruct (forallb (fun kv => is_ident (fst kv)) m) eqn:Hkeys; [|discriminate]. inversion Ed; subst.
        exists (map (fun kv => (fst kv, to_js (snd kv))) m).
        split; [exact (datarel_map lid m (proj2 (cgen_correct sc' ij env' je ER e _ Ev)) Hkeys)|].
        intros je1 F1. exact (proj1 (cgen_correct sc' ij env' je1 (env_rel_frame buf sc' n env' je je1 G ER F1) e _ Ev)). }
    destruct Hbase as (m & DRb & Hbe).
    destruct (IHp buf sc' n env' je old base cenv m jps n' G Ep I DR Ep0 DRb) as (je1 & vs & X1 & F1 & Hb1 & Evs & DRc).
    rewrite js_exec_call, X1. cbn [bind].
    assert (Hdv : exists dvj, js_call_data je1 (dgen sc' d) (jp_args jps) = Ok dvj /\ datarel cenv dvj).
    { unfold js_call_data. rewrite (Hbe je1 F1). cbn [bind]. destruct (jp_args jps) as [|p r] eqn:Ea.
      - cbn [js_eval_params] in Evs. inversion Evs; subst. cbn [fold_left] in DRc. eexists; split; [reflexivity|exact DRc].
      - rewrite Evs. cbn [bind js_augment]. eexists. split; [reflexivity|exact DRc]. }
    destruct Hdv as (dvj & Edv & DRd). rewrite Edv. cbn [bind].
    pose proof (env_rel_frame buf sc' n env' je je1 G ER F1) as ER1.
    rewrite (Hjcall name cenv _ dvj (js_ij_arg je1) Ec DRd).
    + cbn [bind]. unfold js_append_text. rewrite Hb1. eexists. split; [reflexivity|].
      split; [exact (jinv_append buf sc' n env' je1 old _ G (conj ER1 Hb1))|eapply frame_comp; [exact F1|apply append_frame]].
    + intros v Hv. unfold js_ij_arg. rewrite (er_ij _ _ _ _ ER1 v Hv). reflexivity.
  - (* msg *) intros body IHb buf sc n env je old text env' j sc' n' G E I DR Eg. rewrite sout_msg in E. rewrite sgen_msg in Eg.
    destruct (msg_ok body); [|discriminate]. destruct (bout ij mode go_print_text denv callee env body) as [t|] eqn:Et; [|discriminate]. inversion E; subst. clear E.
    destruct (bgen mode buf sc n body) as [jb n1] eqn:E1. inversion Eg; subst. clear Eg.
    destruct (IHb buf sc' n env' je old text jb n' G Et I DR E1) as (je' & X & Hb' & F).
    exists je'. rewrite js_exec_seq. split; [exact X|]. split; [eapply jinv_frame; eauto|exact F].
  - (* msg with a plural *) intros pn v q IHq buf sc n env je old text env' j sc' n' G E I DR Eg. rewrite sout_msgpl in E. rewrite sgen_msgpl in Eg.
    destruct (qgen mode buf sc n q) as [jk n1] eqn:E1. inversion Eg; subst. clear Eg.
    destruct (ceval ij env v) as [sv|] eqn:Ev; [|discriminate]. destruct sv as [| | |i| | | |]; try discriminate E.
    destruct (qout ij mode go_print_text denv callee env i q) as [t|] eqn:Et; [|discriminate]. inversion E; subst. clear E.
    pose proof I as [ER Hb]. destruct (cgen_correct sc' ij env' je ER v (VInt i) Ev) as [Hj Hcv].
    rewrite js_exec_plural, Hj. cbn [bind to_js].
    destruct (IHq buf sc' n env' je old text i jk n' G Et I DR E1) as (je' & X & Hb' & F).
    exists je'. split; [exact X|]. split; [eapply jinv_frame; eauto|exact F].
  - (* BNil *) intros buf sc n env je old text jb n' G E I DR Eg. rewrite bout_nil in E. rewrite bgen_nil in Eg. inversion E; subst. inversion Eg; subst.
    exists je. rewrite app_nil_r. split; [reflexivity|]. split; [apply I|apply frame_refl].
  - (* BCons *) intros s IHs r IHr buf sc n env je old text jb n' G E I DR Eg. rewrite bout_cons in E. rewrite bgen_cons in Eg.
    destruct (sgen mode buf sc n s) as [j [sc1 n1]] eqn:E1. destruct (bgen mode buf sc1 n1 r) as [jr n2] eqn:E2. inversion Eg; subst. clear Eg.
    destruct (sout ij mode go_print_text denv callee env s) as [[a env1]|] eqn:Ea; [|discriminate].
    destruct (bout ij mode go_print_text denv callee env1 r) as [c|] eqn:Ec; [|discriminate]. inversion E; subst. clear E.
    destruct (IHs buf sc n env je old a env1 j sc1 n1 G Ea I DR E1) as (je1 & X1 & I1 & F1).
    assert (Hbo : binder_ok s).
    { destruct s; cbn [binder_ok]; auto.
      - rewrite sout_let in Ea. destruct (bstr_eqb name n_ij); [discriminate|]. destruct (is_ident name); [reflexivity|discriminate].
      - rewrite sout_letc in Ea. destruct (bstr_eqb name n_ij); [discriminate|]. destruct (is_ident name); [reflexivity|discriminate]. }
    pose proof (ginv_after _ _ _ _ _ _ _ _ Hbo E1 G) as G1. pose proof (proj1 (sgen_mono_all mode) _ _ _ _ _ _ _ E1) as Hn1.
    assert (DR1 : datarel denv (je_data je1)) by (rewrite (proj1 F1); exact DR).
    destruct (IHr buf sc1 n1 env1 je1 (old ++ a) c jr n' G1 Ec I1 DR1 E2) as (je2 & X2 & Hb2 & F2).
    exists je2. rewrite jb_exec_cons, X1. cbn [bind]. split; [exact X2|]. split; [rewrite app_assoc; exact Hb2|eapply frame_trans; eauto].
  - (* ENone *) intros buf sc n env je old text jl n' G E I DR Eg. rewrite eout_none in E. rewrite egen_none in Eg. inversion E; subst. inversion Eg; subst.
    exists je. rewrite app_nil_r. split; [reflexivity|]. split; [apply I|apply frame_refl].
  - (* EElse *) intros b IHb buf sc n env je old text jl n' G E I DR Eg. rewrite eout_else in E. rewrite egen_else in Eg.
    destruct (bgen mode buf ([] :: sc) n b) as [jb n1] eqn:E1. inversion Eg; subst. clear Eg.
    exact (JP_block b IHb buf sc n env je old text jb n' G E I DR E1).
  - (* EElif *) intros c th IHt rest IHr buf sc n env je old text jl n' G E I DR Eg. rewrite eout_elif in E. rewrite egen_elif in Eg.
    destruct (bgen mode buf ([] :: sc) n th) as [jt n1] eqn:E1. destruct (egen mode buf sc n1 rest) as [jr n2] eqn:E2. inversion Eg; subst. clear Eg.
    destruct (ceval ij env c) as [v|] eqn:Ev; [|discriminate].
    pose proof I as [ER Hb]. destruct (cgen_correct sc ij env je ER c v Ev) as [Hj Hcv].
    rewrite jl_exec_elif, Hj. cbn [bind]. rewrite truthy_js by exact Hcv.
    pose proof (proj1 (proj2 (sgen_mono_all mode)) _ _ _ _ _ _ E1) as Hn1.
    destruct (truthy v).
    + exact (JP_block th IHt buf sc n env je old text jt n1 G E I DR E1).
    + destruct (IHr buf sc n1 env je old text jr n' (ginv_mono _ _ _ _ Hn1 G) E I DR E2) as (je' & X & Hb' & F).
      exists je'. split; [exact X|]. split; [exact Hb'|]. eapply frame_trans; [exact Hn1|apply frame_refl|exact F].
  - (* KNone *) intros buf sc n env je old text sv jk n' G Hp E I DR Eg. rewrite kout_none in E. rewrite kgen_none in Eg. inversion E; subst. inversion Eg; subst.
    exists je. rewrite app_nil_r. split; [reflexivity|]. split; [apply I|apply frame_refl].
  - (* KDefault *) intros b IHb buf sc n env je old text sv jk n' G Hp E I DR Eg. rewrite kout_default in E. rewrite kgen_default in Eg.
    destruct (bgen mode buf ([] :: sc) n b) as [jb n1] eqn:E1. inversion Eg; subst. clear Eg.
    exact (JP_block b IHb buf sc n env je old text jb n' G E I DR E1).
  - (* KCase *) intros v vs b IHb rest IHr buf sc n env je old text sv jk n' G Hp E I DR Eg. rewrite kout_case in E. rewrite kgen_case in Eg.
    destruct (bgen mode buf ([] :: sc) n b) as [jb n1] eqn:E1. destruct (kgen mode buf sc n1 rest) as [jr n2] eqn:E2. inversion Eg; subst. clear Eg.
    destruct (khit ij env sv (v :: vs)) as [h|] eqn:Eh; [|discriminate].
    pose proof I as [ER Hb]. rewrite jk_exec_case.
    change (cgen sc v :: map (cgen sc) vs) with (map (cgen sc) (v :: vs)).
    rewrite (khit_js sc env je sv (v :: vs) ER Hp h Eh). cbn [bind].
    pose proof (proj1 (proj2 (sgen_mono_all mode)) _ _ _ _ _ _ E1) as Hn1.
    destruct h.
    + exact (JP_block b IHb buf sc n env je old text jb n1 G E I DR E1).
    + destruct (IHr buf sc n1 env je old text sv jr n' (ginv_mono _ _ _ _ Hn1 G) Hp E I DR E2) as (je' & X & Hb' & F).
      exists je'. split; [exact X|]. split; [exact Hb'|]. eapply frame_trans; [exact Hn1|apply frame_refl|exact F].
  - (* PNil *) intros buf sc n env je old base cenv m jps n' G E I DR Eg DRb. rewrite pout_nil in E. rewrite pgen_nil in Eg. inversion E; subst. inversion Eg; subst.
    exists je, []. split; [reflexivity|]. split; [apply frame_refl|]. split; [apply I|]. split; [reflexivity|exact DRb].
  - (* PVal *) intros k e r IHr buf sc n env je old base cenv m jps n' G E I DR Eg DRb.
    rewrite pout_val in E. rewrite pgen_val in Eg. destruct (is_ident k) eqn:Hk; [|discriminate].
    destruct (ceval ij env e) as [v|] eqn:Ev; [|discriminate].
    destruct (pgen mode sc n r) as [jr n1] eqn:E1. inversion Eg; subst. clear Eg.
    pose proof I as [ER Hb]. destruct (cgen_correct sc ij env je ER e v Ev) as [_ Hcv].
    destruct (IHr buf sc n env je old (env_set base k v) cenv (aset m k (to_js v)) jr n' G E I DR E1 (datarel_set base m k v DRb Hcv Hk))
      as (je' & vs & X & F & Hb' & Evs & Dc).
    exists je', ((k, to_js v) :: vs). split; [exact X|]. split; [exact F|]. split; [exact Hb'|]. split; [|exact Dc].
    cbn [jp_args js_eval_params]. rewrite (proj1 (cgen_correct sc ij env je' (env_rel_frame buf sc n env je je' G ER F) e v Ev)). cbn [bind].
    rewrite Evs. reflexivity.
  - (* PCont *) intros k body IHb r IHr buf sc n env je old base cenv m jps n' G E I DR Eg DRb.
    rewrite pout_cont in E. rewrite pgen_cont in Eg. destruct (is_ident k) eqn:Hk; [|discriminate].
    destruct (bout ij mode go_print_text denv callee env body) as [t|] eqn:Et; [|discriminate].
    set (g := jsc_name t_param (n + 1)) in *.
    destruct (bgen mode g ([] :: sc) (n + 1) body) as [jb n1] eqn:E1. destruct (pgen mode sc n1 r) as [jr n2] eqn:E2. inversion Eg; subst. clear Eg.
    destruct I as [ER Hb]. rewrite jp_exec_cont.
    set (je0 := jvset je g (JStr [])).
    assert (Hbg : bstr_eqb buf g = false) by (apply bounded_fresh; apply G).
    assert (F0 : frame buf n je je0).
    { split; [reflexivity|]. intros g0 H0 _. cbn [je_vars je0 jvset]. apply assoc_s_aset_other. apply bounded_fresh. exact H0. }
    assert (G' : ginv sc (n + 1) g).
    { destruct G as [G0 G1 G2 G3 G4 G5]. constructor.
      - exact G0.
      - intros key Hkey. eapply bounded_mono; [|apply G1; exact Hkey]. lia.
      - apply bounded_new.
      - intros key Hkey. apply bounded_fresh. apply G1; exact Hkey.
      - apply bounded_fresh. apply opt_ij_bounded.
      - intro x. destruct (G5 x) as (A & B & _ & _). repeat split; try (eapply bounded_mono; [|eassumption]; lia); apply bounded_fresh; assumption. }
    assert (I0 : jinv g sc env je0 []).
    { split; [exact (env_rel_frame buf sc n env je je0 G ER F0)|]. exact (assoc_s_aset g (JStr []) (je_vars je)). }
    destruct (JP_block body IHb g sc (n + 1) env je0 [] t jb n1 G' Et I0 DR E1) as (je1 & X1 & Hg1 & [D1 F1]).
    rewrite X1. cbn [bind]. cbn [app] in Hg1.
    assert (F : frame buf n je je1).
    { split; [rewrite D1; reflexivity|]. intros g0 H0 Hb0. rewrite F1.
      - cbn [je_vars je0 jvset]. apply assoc_s_aset_other. apply bounded_fresh. exact H0.
      - eapply bounded_mono; [|exact H0]. lia.
      - apply bounded_fresh. exact H0. }
    assert (Hb1 : assoc_s buf (je_vars je1) = Some (JStr old)).
    { rewrite F1; [|eapply bounded_mono; [|apply (gi_buf _ _ _ G)]; lia|exact Hbg]. cbn [je_vars je0 jvset]. rewrite assoc_s_aset_other by exact Hbg. exact Hb. }
    pose proof (proj1 (proj2 (sgen_mono_all mode)) _ _ _ _ _ _ E1) as Hn1.
    assert (DR1 : datarel denv (je_data je1)) by (rewrite D1; exact DR).
    destruct (IHr buf sc n1 env je1 old (env_set base k (VStr t)) cenv (aset m k (JStr t)) jr n' (ginv_mono sc n n1 buf ltac:(lia) G) E
                (conj (env_rel_frame buf sc n env je je1 G ER F) Hb1) DR1 E2 (datarel_set base m k (VStr t) DRb eq_refl Hk))
      as (je' & vs & X2 & F2 & Hb2 & Evs & Dc).
    exists je', ((k, JStr t) :: vs). split; [exact X2|]. split; [eapply frame_trans; [|exact F|exact F2]; lia|]. split; [exact Hb2|]. split; [|exact Dc].
    cbn [jp_args js_eval_params js_eval].
    rewrite (proj2 F2 g); [|eapply bounded_mono; [|apply bounded_new]; exact Hn1|rewrite bstr_eqb_sym; exact Hbg].
    rewrite Hg1. cbn [bind]. rewrite Evs. reflexivity.
  - (* QDflt *) intros b IHb buf sc n env je old text i jk n' G E I DR Eg. rewrite qout_dflt in E. rewrite qgen_dflt in Eg.
    destruct (msg_ok b); [|discriminate].
    destruct (bgen mode buf sc n b) as [jb n1] eqn:E1. inversion Eg; subst. clear Eg.
    exact (IHb buf sc n env je old text jb n' G E I DR E1).
  - (* QCase *) intros z b IHb r IHr buf sc n env je old text i jk n' G E I DR Eg. rewrite qout_case in E. rewrite qgen_case in Eg.
    destruct (bgen mode buf sc n b) as [jb n1] eqn:E1. destruct (qgen mode buf sc n1 r) as [jr n2] eqn:E2. inversion Eg; subst. clear Eg.
    rewrite jk_exec_case. cbn [jk_hit js_eval bind js_strict_eq].
    pose proof (proj1 (proj2 (sgen_mono_all mode)) _ _ _ _ _ _ E1) as Hn1.
    destruct (i =? z)%Z.
    + destruct (msg_ok b); [|discriminate]. cbn [bind].
      exact (IHb buf sc n env je old text jb n1 G E I DR E1).
    + cbn [bind]. destruct (IHr buf sc n1 env je old text i jr n' (ginv_mono _ _ _ _ Hn1 G) E I DR E2) as (je' & X & Hb' & F).
      exists je'. split; [exact X|]. split; [exact Hb'|]. eapply frame_trans; [exact Hn1|apply frame_refl|exact F].
Qed.
End JsStmts.
