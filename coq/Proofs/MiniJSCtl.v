(* C04, the statement stages: raw text, print, let (value form), if / elseif / else and switch, with nested
   blocks.  Three sides, each by mutual induction on the statement:
     JsStmts   -- the MiniJS meaning of the generated statement (js_exec_correct)
     GoStmts   -- the walker of Model/Interp.v (interp_stmt)
     StmtChunks -- the walker of Model/JsGen.v emits the printer's chunks (sgen_print)
   and gen_correct_partial_stmt puts them together. *)
From Soy Require Import Model.Bytes Model.Num Model.Values Model.Outcome Model.Ast Model.JsGen Model.MiniJS
  Model.Escape Model.Directives Model.Print Generated.Tables Model.Interp
  Proofs.EscapeProofs Proofs.MiniJSProofs Proofs.MiniJSPrint Proofs.MiniJSStmt Model.MsgId Proofs.MsgIdProofs.
Open Scope N_scope.

Scheme cstmt_m := Induction for cstmt Sort Prop
  with cblk_m := Induction for cblk Sort Prop
  with celse_m := Induction for celse Sort Prop
  with ccases_m := Induction for ccases Sort Prop.
Combined Scheme cstmt_mutind from cstmt_m, cblk_m, celse_m, ccases_m.

(* ---- unfolding equations of the mutual definitions (cbn does not refold them) ---- *)
Section Eqs.
Variable ij : option value.
Variable mode : N.
Variable pt : N -> list pdir -> bstr -> bstr.
Variable buf : bstr.
Notation sout' := (sout ij mode pt). Notation bout' := (bout ij mode pt). Notation eout' := (eout ij mode pt). Notation kout' := (kout ij mode pt).
Lemma sout_raw env t : sout' env (SRaw t) = Some (t, env). Proof. reflexivity. Qed.
Lemma sout_print env e ds : sout' env (SPrint e ds)
  = match ceval ij env e with
    | Some v => match scalar_string v with
                | Some str => if cleanb str then Some (pt mode ds str, env) else None
                | None => None
                end
    | None => None
    end.
Proof. reflexivity. Qed.
Lemma sout_let env name e : sout' env (SLet name e)
  = if bstr_eqb name n_ij then None else match ceval ij env e with Some v => Some ([], env_set env name v) | None => None end.
Proof. reflexivity. Qed.
Lemma sout_letc env name body : sout' env (SLetC name body)
  = if bstr_eqb name n_ij then None else match bout' env body with Some t => Some ([], env_set env name (VStr t)) | None => None end.
Proof. reflexivity. Qed.
Lemma sout_if env c th rest : sout' env (SIf c th rest)
  = match ceval ij env c with
    | Some v => match (if truthy v then bout' env th else eout' env rest) with Some t => Some (t, env) | None => None end
    | None => None
    end.
Proof. reflexivity. Qed.
Lemma sout_switch env v cs : sout' env (SSwitch v cs)
  = match ceval ij env v with
    | Some sv => if prim_value sv then match kout' env sv cs with Some t => Some (t, env) | None => None end else None
    | None => None
    end.
Proof. reflexivity. Qed.
Lemma bout_nil env : bout' env BNil = Some []. Proof. reflexivity. Qed.
Lemma bout_cons env s r : bout' env (BCons s r)
  = match sout' env s with
    | Some (a, env1) => match bout' env1 r with Some c => Some (a ++ c) | None => None end
    | None => None
    end.
Proof. reflexivity. Qed.
Lemma eout_none env : eout' env ENone = Some []. Proof. reflexivity. Qed.
Lemma eout_else env b : eout' env (EElse b) = bout' env b. Proof. reflexivity. Qed.
Lemma eout_elif env c th rest : eout' env (EElif c th rest)
  = match ceval ij env c with Some v => if truthy v then bout' env th else eout' env rest | None => None end.
Proof. reflexivity. Qed.
Lemma kout_none env sv : kout' env sv KNone = Some []. Proof. reflexivity. Qed.
Lemma kout_default env sv b : kout' env sv (KDefault b) = bout' env b. Proof. reflexivity. Qed.
Lemma kout_case env sv v vs b rest : kout' env sv (KCase v vs b rest)
  = match khit ij env sv (v :: vs) with Some true => bout' env b | Some false => kout' env sv rest | None => None end.
Proof. reflexivity. Qed.

Notation sgen' := (sgen mode buf). Notation bgen' := (bgen mode buf). Notation egen' := (egen mode buf). Notation kgen' := (kgen mode buf).
Lemma sgen_raw sc n t : sgen' sc n (SRaw t) = (JSAppendLit buf t, (sc, n)). Proof. reflexivity. Qed.
Lemma sgen_print_eq sc n e ds : sgen' sc n (SPrint e ds) = (JSAppend buf (cgen_print_expr mode ds (cgen sc e)), (sc, n)). Proof. reflexivity. Qed.
Lemma sgen_let sc n name e : sgen' sc n (SLet name e)
  = (JSVar (jsc_name name (n + 1)) (cgen sc e), (jsc_bind_pure sc name (jsc_name name (n + 1)), n + 1)).
Proof. reflexivity. Qed.
Lemma sgen_letc sc n name body : sgen' sc n (SLetC name body)
  = let '(jb, n1) := bgen mode (jsc_name name (n + 1)) ([] :: sc) (n + 1) body in
    (JSVarBlock (jsc_name name (n + 1)) jb, (jsc_bind_pure sc name (jsc_name name (n + 1)), n1)).
Proof. reflexivity. Qed.
Lemma sgen_if sc n c th rest : sgen' sc n (SIf c th rest)
  = let '(jt, n1) := bgen' ([] :: sc) n th in let '(jr, n2) := egen' sc n1 rest in (JSIf (cgen sc c) jt jr, (sc, n2)).
Proof. reflexivity. Qed.
Lemma sgen_switch sc n v cs : sgen' sc n (SSwitch v cs) = let '(jc, n1) := kgen' sc n cs in (JSSwitch (cgen sc v) jc, (sc, n1)).
Proof. reflexivity. Qed.
Lemma bgen_nil sc n : bgen' sc n BNil = (JBNil, n). Proof. reflexivity. Qed.
Lemma bgen_cons sc n s r : bgen' sc n (BCons s r)
  = let '(j, (sc1, n1)) := sgen' sc n s in let '(jr, n2) := bgen' sc1 n1 r in (JBCons j jr, n2).
Proof. reflexivity. Qed.
Lemma egen_none sc n : egen' sc n ENone = (JLNone, n). Proof. reflexivity. Qed.
Lemma egen_else sc n b : egen' sc n (EElse b) = let '(jb, n1) := bgen' ([] :: sc) n b in (JLElse jb, n1). Proof. reflexivity. Qed.
Lemma egen_elif sc n c th rest : egen' sc n (EElif c th rest)
  = let '(jt, n1) := bgen' ([] :: sc) n th in let '(jr, n2) := egen' sc n1 rest in (JLElif (cgen sc c) jt jr, n2).
Proof. reflexivity. Qed.
Lemma kgen_none sc n : kgen' sc n KNone = (JKNone, n). Proof. reflexivity. Qed.
Lemma kgen_default sc n b : kgen' sc n (KDefault b) = let '(jb, n1) := bgen' ([] :: sc) n b in (JKDefault jb, n1). Proof. reflexivity. Qed.
Lemma kgen_case sc n v vs b rest : kgen' sc n (KCase v vs b rest)
  = let '(jb, n1) := bgen' ([] :: sc) n b in let '(jr, n2) := kgen' sc n1 rest in (JKCase (cgen sc v) (map (cgen sc) vs) jb jr, n2).
Proof. reflexivity. Qed.
End Eqs.

Lemma js_exec_var env g e : js_exec env (JSVar g e) = (v <- js_eval env e ;; Ok {| je_vars := aset (je_vars env) g v; je_data := je_data env |}).
Proof. reflexivity. Qed.
Lemma js_exec_varblock env g body : js_exec env (JSVarBlock g body) = jb_exec {| je_vars := aset (je_vars env) g (JStr []); je_data := je_data env |} body.
Proof. reflexivity. Qed.
Lemma js_exec_if env c th rest : js_exec env (JSIf c th rest) = (v <- js_eval env c ;; if js_truthy v then jb_exec env th else jl_exec env rest).
Proof. reflexivity. Qed.
Lemma js_exec_switch env v cs : js_exec env (JSSwitch v cs) = (sv <- js_eval env v ;; jk_exec env sv cs).
Proof. reflexivity. Qed.
Lemma jb_exec_cons env s r : jb_exec env (JBCons s r) = (env' <- js_exec env s ;; jb_exec env' r). Proof. reflexivity. Qed.
Lemma jl_exec_elif env c th rest : jl_exec env (JLElif c th rest) = (v <- js_eval env c ;; if js_truthy v then jb_exec env th else jl_exec env rest).
Proof. reflexivity. Qed.
Lemma jk_exec_case env sv v vs b rest : jk_exec env sv (JKCase v vs b rest) = (h <- jk_hit env sv (v :: vs) ;; if h then jb_exec env b else jk_exec env sv rest).
Proof. reflexivity. Qed.

(* ---- small facts ---- *)
Lemma ceval_ext ij env1 env2 : (forall k, env1 k = env2 k) -> forall e, ceval ij env1 e = ceval ij env2 e.
Proof.
  intros H. induction e as [| x | z | s | key accs | a IHa | a IHa | op a IHa c IHc | c IHc a IHa d IHd]; cbn [ceval]; try reflexivity.
  - rewrite H. reflexivity.
  - rewrite IHa. reflexivity.
  - rewrite IHa. reflexivity.
  - rewrite IHa, IHc. reflexivity.
  - rewrite IHc, IHa, IHd. reflexivity.
Qed.

Lemma scalar_string_ok v s : scalar_string v = Some s -> printable_scalar v = true /\ value_string v = Ok s /\ js_tostring (to_js v) = Some s.
Proof. destruct v; try discriminate; intro H; try destruct x; inversion H; subst; repeat split; reflexivity. Qed.
Lemma cleanb_ok s : cleanb s = true -> clean s.
Proof.
  unfold cleanb, clean. intro H. apply Forall_forall. intros c Hc. pose proof (proj1 (forallb_forall _ _) H c Hc) as Hb.
  apply andb_prop in Hb. destruct Hb as [H1 H2]. apply negb_true_iff in H1, H2. split; apply N.eqb_neq; assumption.
Qed.

Lemma assoc_s_aset_other {A} k k' (v : A) l : bstr_eqb k k' = false -> assoc_s k (aset l k' v) = assoc_s k l.
Proof.
  intro Hk. induction l as [|[k2 x] l IH]; cbn [aset]; unfold assoc_s; fold (@assoc_s A).
  - rewrite Hk. reflexivity.
  - destruct (bstr_eqb k' k2) eqn:E2; unfold assoc_s; fold (@assoc_s A).
    + apply bstr_eqb_true in E2. subst k2. rewrite Hk. reflexivity.
    + destruct (bstr_eqb k k2); [reflexivity|exact IH].
Qed.

Lemma bstr_eqb_false_ne x y : x <> y -> bstr_eqb x y = false.
Proof. intro H. destruct (bstr_eqb x y) eqn:E; [|reflexivity]. apply bstr_eqb_true in E. contradiction. Qed.
Lemma bstr_eqb_sym x y : bstr_eqb x y = bstr_eqb y x.
Proof.
  destruct (bstr_eqb x y) eqn:E.
  - apply bstr_eqb_true in E. subst. symmetry. apply bstr_eqb_refl'.
  - symmetry. apply bstr_eqb_false_ne. intro H. subst. rewrite bstr_eqb_refl' in E. discriminate.
Qed.

(* ---- generated names are fresh: the counter is the decimal after the last underscore ---- *)
Lemma jsc_name_sfx v n : jsc_name v n = sfx_name v n.
Proof. reflexivity. Qed.
Lemma jsc_name_inj v m v' m' : jsc_name v m = jsc_name v' m' -> m = m'.
Proof. rewrite !jsc_name_sfx. intro H. apply sfx_name_inj in H. apply H. Qed.
Lemma jsc_name_cons v n : exists c r, jsc_name v n = c :: r.
Proof. unfold jsc_name. destruct v as [|c r]; cbn; eauto. Qed.

(* whenever g reads as a generated name, its counter is at most n *)
Definition bounded (n : N) (g : bstr) : Prop := forall v m, g = jsc_name v m -> m <= n.
Lemma bounded_mono n n' g : n <= n' -> bounded n g -> bounded n' g.
Proof. intros Hn H v m E. specialize (H v m E). lia. Qed.
Lemma bounded_nil n : bounded n [].
Proof. intros v m E. destruct (jsc_name_cons v m) as (c & r & H). congruence. Qed.
Lemma bounded_new v n : bounded n (jsc_name v n).
Proof. intros v' m E. apply jsc_name_inj in E. lia. Qed.
Lemma bounded_fresh n g v : bounded n g -> bstr_eqb g (jsc_name v (n + 1)) = false.
Proof. intro H. apply bstr_eqb_false_ne. intro E. specialize (H v (n + 1) E). lia. Qed.
Lemma opt_ij_bounded n : bounded n t_opt_ij.
Proof.
  intros v m E. exfalso. rewrite jsc_name_sfx in E. unfold sfx_name in E.
  change t_opt_ij with ([111; 112; 116] ++ 95 :: [105; 106; 68; 97; 116; 97]) in E.
  apply split_at_last in E.
  - destruct E as [_ E]. pose proof (dec_of_N_digits m) as Hd. rewrite <- E in Hd. inversion Hd as [|? ? H1 _]. unfold is_digit_byte in H1. lia.
  - cbn. intros [H|[H|[H|[H|[H|[H|[]]]]]]]; discriminate.
  - apply dec_no_us.
Qed.

(* ================================================================== *)
(* the JavaScript side *)

(* what the generator's scope, counter and buffer variable satisfy *)
Record ginv (sc : list (list (bstr * bstr))) (n : N) (buf : bstr) : Prop := {
  gi_nonempty : sc <> [];
  gi_scope : forall key, bounded n (jsc_lookup sc key);
  gi_buf : bounded n buf;
  gi_buf_fresh : forall key, bstr_eqb (jsc_lookup sc key) buf = false;
  gi_buf_ij : bstr_eqb t_opt_ij buf = false;
}.
Lemma ginv_mono sc n n' buf : n <= n' -> ginv sc n buf -> ginv sc n' buf.
Proof. intros Hn [H0 H1 H2 H3 H4]. constructor; auto. intro k. eapply bounded_mono; eauto. eapply bounded_mono; eauto. Qed.
Lemma ginv_push sc n buf : ginv sc n buf -> ginv ([] :: sc) n buf.
Proof. intros [H0 H1 H2 H3 H4]. constructor; auto. discriminate. Qed.

Lemma jsc_lookup_bind_same sc name g : sc <> [] -> jsc_lookup (jsc_bind_pure sc name g) name = g.
Proof.
  destruct sc as [|f r]; [congruence|]. intros _. cbn [jsc_bind_pure jsc_lookup tl]. rewrite assoc_s_aset. reflexivity.
Qed.
Lemma jsc_lookup_bind_other sc name g key : bstr_eqb key name = false -> jsc_lookup (jsc_bind_pure sc name g) key = jsc_lookup sc key.
Proof.
  destruct sc as [|f r]; [reflexivity|]. intro H. cbn [jsc_bind_pure jsc_lookup]. rewrite assoc_s_aset_other by exact H. reflexivity.
Qed.

Lemma ginv_bind sc n buf name : ginv sc n buf -> ginv (jsc_bind_pure sc name (jsc_name name (n + 1))) (n + 1) buf.
Proof.
  intros [H0 H1 H2 H3 H4].
  assert (Hl : forall key, jsc_lookup (jsc_bind_pure sc name (jsc_name name (n + 1))) key
                           = if bstr_eqb key name then jsc_name name (n + 1) else jsc_lookup sc key).
  { intro key. destruct (bstr_eqb key name) eqn:E.
    - apply bstr_eqb_true in E. subst key. rewrite jsc_lookup_bind_same by exact H0. reflexivity.
    - apply jsc_lookup_bind_other. exact E. }
  constructor.
  - destruct sc; [congruence|discriminate].
  - intro key. rewrite Hl. destruct (bstr_eqb key name); [apply bounded_new|]. eapply bounded_mono; [|apply H1]. lia.
  - eapply bounded_mono; [|exact H2]. lia.
  - intro key. rewrite Hl. destruct (bstr_eqb key name); [|apply H3]. rewrite bstr_eqb_sym. apply bounded_fresh. exact H2.
  - exact H4.
Qed.

(* the counter never decreases *)
Lemma sgen_mono_all mode :
  (forall s buf sc n j sc' n', sgen mode buf sc n s = (j, (sc', n')) -> n <= n')
  /\ (forall b buf sc n jb n', bgen mode buf sc n b = (jb, n') -> n <= n')
  /\ (forall e buf sc n jl n', egen mode buf sc n e = (jl, n') -> n <= n')
  /\ (forall k buf sc n jk n', kgen mode buf sc n k = (jk, n') -> n <= n').
Proof.
  apply cstmt_mutind.
  - intros t buf sc n j sc' n' H. inversion H. lia.
  - intros e ds buf sc n j sc' n' H. inversion H. lia.
  - intros name e buf sc n j sc' n' H. inversion H. lia.
  - intros name body IHb buf sc n j sc' n' H. rewrite sgen_letc in H.
    destruct (bgen mode (jsc_name name (n + 1)) ([] :: sc) (n + 1) body) as [jb n1] eqn:E1. inversion H; subst.
    specialize (IHb _ _ _ _ _ E1). lia.
  - intros c th IHt rest IHr buf sc n j sc' n' H. rewrite sgen_if in H.
    destruct (bgen mode buf ([] :: sc) n th) as [jt n1] eqn:E1. destruct (egen mode buf sc n1 rest) as [jr n2] eqn:E2. inversion H; subst.
    specialize (IHt _ _ _ _ _ E1). specialize (IHr _ _ _ _ _ E2). lia.
  - intros v cs IHk buf sc n j sc' n' H. rewrite sgen_switch in H. destruct (kgen mode buf sc n cs) as [jc n1] eqn:E1. inversion H; subst. eapply IHk; eauto.
  - intros buf sc n jb n' H. inversion H. lia.
  - intros s IHs r IHr buf sc n jb n' H. rewrite bgen_cons in H.
    destruct (sgen mode buf sc n s) as [j [sc1 n1]] eqn:E1. destruct (bgen mode buf sc1 n1 r) as [jr n2] eqn:E2. inversion H; subst.
    specialize (IHs _ _ _ _ _ _ E1). specialize (IHr _ _ _ _ _ E2). lia.
  - intros buf sc n jl n' H. inversion H. lia.
  - intros b IHb buf sc n jl n' H. rewrite egen_else in H. destruct (bgen mode buf ([] :: sc) n b) as [jb n1] eqn:E1. inversion H; subst. eapply IHb; eauto.
  - intros c th IHt rest IHr buf sc n jl n' H. rewrite egen_elif in H.
    destruct (bgen mode buf ([] :: sc) n th) as [jt n1] eqn:E1. destruct (egen mode buf sc n1 rest) as [jr n2] eqn:E2. inversion H; subst.
    specialize (IHt _ _ _ _ _ E1). specialize (IHr _ _ _ _ _ E2). lia.
  - intros buf sc n jk n' H. inversion H. lia.
  - intros b IHb buf sc n jk n' H. rewrite kgen_default in H. destruct (bgen mode buf ([] :: sc) n b) as [jb n1] eqn:E1. inversion H; subst. eapply IHb; eauto.
  - intros v vs b IHb rest IHr buf sc n jk n' H. rewrite kgen_case in H.
    destruct (bgen mode buf ([] :: sc) n b) as [jb n1] eqn:E1. destruct (kgen mode buf sc n1 rest) as [jr n2] eqn:E2. inversion H; subst.
    specialize (IHb _ _ _ _ _ E1). specialize (IHr _ _ _ _ _ E2). lia.
Qed.

(* the scope and the counter after a statement *)
Lemma sgen_after mode buf sc n s j sc' n' : sgen mode buf sc n s = (j, (sc', n')) ->
  sc' = sc \/ (exists name, sc' = jsc_bind_pure sc name (jsc_name name (n + 1)) /\ n + 1 <= n').
Proof.
  destruct s; intro H.
  - inversion H; auto.
  - inversion H; auto.
  - inversion H; subst. right. exists name. split; [reflexivity|lia].
  - rewrite sgen_letc in H. destruct (bgen mode (jsc_name name (n + 1)) ([] :: sc) (n + 1) body) as [jb n1] eqn:E1. inversion H; subst.
    right. exists name. split; [reflexivity|]. exact (proj1 (proj2 (sgen_mono_all mode)) _ _ _ _ _ _ E1).
  - rewrite sgen_if in H. destruct (bgen mode buf ([] :: sc) n th) as [jt n1]. destruct (egen mode buf sc n1 rest) as [jr n2]. inversion H; auto.
  - rewrite sgen_switch in H. destruct (kgen mode buf sc n cs) as [jc n1]. inversion H; auto.
Qed.

Lemma ginv_after mode buf sc n s j sc' n' : sgen mode buf sc n s = (j, (sc', n')) -> ginv sc n buf -> ginv sc' n' buf.
Proof.
  intros H G. pose proof (proj1 (sgen_mono_all mode) _ _ _ _ _ _ _ H) as Hn.
  destruct (sgen_after _ _ _ _ _ _ _ _ H) as [->|(name & -> & Hn')].
  - eapply ginv_mono; eauto.
  - eapply ginv_mono; [exact Hn'|]. apply ginv_bind. exact G.
Qed.

Lemma strict_eq_prim sv cv : prim_value sv = true -> prim_value cv = true ->
  js_strict_eq (to_js sv) (to_js cv) = Some (equals sv cv).
Proof. destruct sv, cv; try discriminate; intros _ _; reflexivity. Qed.

Section JsStmts.
Variable ij : option value.
Variable mode : N.

Definition jinv (buf : bstr) (sc : list (list (bstr * bstr))) (env : bstr -> option value) (je : jenv) (old : bstr) : Prop :=
  env_rel sc ij env je /\ assoc_s buf (je_vars je) = Some (JStr old).
(* a statement generated from counter n leaves opt_data and every variable alone that is not the buffer
   and whose name, read as a generated name, has a counter up to n *)
Definition frame (buf : bstr) (n : N) (je je' : jenv) : Prop :=
  je_data je' = je_data je
  /\ forall g, bounded n g -> bstr_eqb g buf = false -> assoc_s g (je_vars je') = assoc_s g (je_vars je).

Lemma frame_refl buf n je : frame buf n je je.
Proof. split; auto. Qed.
Lemma frame_trans buf n n1 je je1 je2 : n <= n1 -> frame buf n je je1 -> frame buf n1 je1 je2 -> frame buf n je je2.
Proof.
  intros Hn [D1 F1] [D2 F2]. split; [congruence|]. intros g Hg Hb. rewrite F2; auto. eapply bounded_mono; eauto.
Qed.

Lemma env_rel_push sc env je : env_rel sc ij env je -> env_rel ([] :: sc) ij env je.
Proof. intros [Ev Ei Ec Eci]. constructor; auto. Qed.

Lemma env_rel_frame buf sc n env je je' : ginv sc n buf -> env_rel sc ij env je -> frame buf n je je' -> env_rel sc ij env je'.
Proof.
  intros [H0 H1 H2 H3 H4] [Ev Ei Ec Eci] [D F]. constructor; auto.
  - intros key Hk. specialize (Ev key Hk). destruct (jsc_lookup sc key) as [|c g] eqn:El.
    + rewrite D. exact Ev.
    + rewrite F; [exact Ev| |]; rewrite <- El; [apply H1|apply H3].
  - intros v Hv. rewrite F; [apply Ei; exact Hv|apply opt_ij_bounded|exact H4].
Qed.

Lemma jinv_frame buf sc n env je je' old new : ginv sc n buf -> jinv buf sc env je old -> frame buf n je je' ->
  assoc_s buf (je_vars je') = Some (JStr new) -> jinv buf sc env je' new.
Proof. intros G [ER _] F Hb. split; [eapply env_rel_frame; eauto|exact Hb]. Qed.

Lemma append_frame buf n je x : frame buf n je {| je_vars := aset (je_vars je) buf x; je_data := je_data je |}.
Proof. split; [reflexivity|]. intros g _ Hg. cbn [je_vars]. apply assoc_s_aset_other. exact Hg. Qed.

Lemma jinv_append buf sc n env je old t : ginv sc n buf -> jinv buf sc env je old ->
  jinv buf sc env {| je_vars := aset (je_vars je) buf (JStr (old ++ t)); je_data := je_data je |} (old ++ t).
Proof.
  intros G I. eapply jinv_frame; [exact G|exact I|apply (append_frame buf n)|apply assoc_s_aset].
Qed.

(* binding a Soy name to the fresh variable v_<n+1> that holds its value *)
Lemma env_rel_bind buf sc n env je je' name v : ginv sc n buf -> env_rel sc ij env je -> frame buf n je je' ->
  assoc_s (jsc_name name (n + 1)) (je_vars je') = Some (to_js v) -> core_value v = true ->
  env_rel (jsc_bind_pure sc name (jsc_name name (n + 1))) ij (env_set env name v) je'.
Proof.
  intros G ER F Hg Hcv. pose proof (env_rel_frame buf sc n env je je' G ER F) as [Xv Xi Xc Xci].
  destruct G as [G0 G1 G2 G3 G4]. constructor.
  - intros key Hk. unfold env_val, env_set. destruct (bstr_eqb key name) eqn:Ekn.
    + apply bstr_eqb_true in Ekn. subst key. rewrite jsc_lookup_bind_same by exact G0.
      destruct (jsc_name_cons name (n + 1)) as (c & r & Hc). rewrite Hc. rewrite <- Hc. exact Hg.
    + rewrite jsc_lookup_bind_other by exact Ekn. specialize (Xv key Hk). unfold env_val in Xv. exact Xv.
  - exact Xi.
  - intro key. unfold env_val, env_set. destruct (bstr_eqb key name); [exact Hcv|apply Xc].
  - exact Xci.
Qed.

Lemma khit_js sc env je sv vs : env_rel sc ij env je -> prim_value sv = true -> forall h,
  khit ij env sv vs = Some h -> jk_hit je (to_js sv) (map (cgen sc) vs) = Ok h.
Proof.
  intros ER Hs. induction vs as [|x r IH]; intros h E; cbn [khit map jk_hit] in *.
  - inversion E; reflexivity.
  - destruct (ceval ij env x) as [cv|] eqn:Ex; [|discriminate]. destruct (prim_value cv) eqn:Hc; [|discriminate].
    destruct (cgen_correct sc ij env je ER x cv Ex) as [Hj _]. rewrite Hj. cbn [bind].
    rewrite (strict_eq_prim sv cv Hs Hc). destruct (equals sv cv).
    + inversion E; reflexivity.
    + apply IH. exact E.
Qed.

Definition JP_s (s : cstmt) : Prop := forall buf sc n env je old text env' j sc' n',
  ginv sc n buf -> sout ij mode go_print_text env s = Some (text, env') -> jinv buf sc env je old ->
  sgen mode buf sc n s = (j, (sc', n')) ->
  exists je', js_exec je j = Ok je' /\ jinv buf sc' env' je' (old ++ text) /\ frame buf n je je'.
Definition JP_b (b : cblk) : Prop := forall buf sc n env je old text jb n',
  ginv sc n buf -> bout ij mode go_print_text env b = Some text -> jinv buf sc env je old ->
  bgen mode buf sc n b = (jb, n') ->
  exists je', jb_exec je jb = Ok je' /\ assoc_s buf (je_vars je') = Some (JStr (old ++ text)) /\ frame buf n je je'.
Definition JP_e (e : celse) : Prop := forall buf sc n env je old text jl n',
  ginv sc n buf -> eout ij mode go_print_text env e = Some text -> jinv buf sc env je old ->
  egen mode buf sc n e = (jl, n') ->
  exists je', jl_exec je jl = Ok je' /\ assoc_s buf (je_vars je') = Some (JStr (old ++ text)) /\ frame buf n je je'.
Definition JP_k (k : ccases) : Prop := forall buf sc n env je old text sv jk n',
  ginv sc n buf -> prim_value sv = true -> kout ij mode go_print_text env sv k = Some text -> jinv buf sc env je old ->
  kgen mode buf sc n k = (jk, n') ->
  exists je', jk_exec je (to_js sv) jk = Ok je' /\ assoc_s buf (je_vars je') = Some (JStr (old ++ text)) /\ frame buf n je je'.

(* a block is translated and run under one more (empty) frame *)
Lemma JP_block b : JP_b b -> forall buf sc n env je old text jb n',
  ginv sc n buf -> bout ij mode go_print_text env b = Some text -> jinv buf sc env je old ->
  bgen mode buf ([] :: sc) n b = (jb, n') ->
  exists je', jb_exec je jb = Ok je' /\ assoc_s buf (je_vars je') = Some (JStr (old ++ text)) /\ frame buf n je je'.
Proof.
  intros Hb buf sc n env je old text jb n' G E [ER Hbuf] Eg.
  apply (Hb buf ([] :: sc) n env je old text jb n'); auto. apply ginv_push; exact G. split; [apply env_rel_push; exact ER|exact Hbuf].
Qed.

Theorem js_exec_all : (forall s, JP_s s) /\ (forall b, JP_b b) /\ (forall e, JP_e e) /\ (forall k, JP_k k).
Proof.
  apply cstmt_mutind.
  - (* raw *) intros t buf sc n env je old text env' j sc' n' G E I Eg. rewrite sout_raw in E. rewrite sgen_raw in Eg. inversion E; subst. inversion Eg; subst.
    cbn [js_exec]. unfold js_append_text. rewrite (proj2 I). eexists. split; [reflexivity|]. split; [eapply jinv_append; eauto|apply append_frame].
  - (* print *) intros e ds buf sc n env je old text env' j sc' n' G E I Eg. rewrite sout_print in E. rewrite sgen_print_eq in Eg. inversion Eg; subst. clear Eg.
    destruct (ceval ij env e) as [v|] eqn:Ev; [|discriminate]. destruct (scalar_string v) as [str|] eqn:Es; [|discriminate].
    destruct (cleanb str) eqn:Ec; [|discriminate]. inversion E; subst. clear E.
    destruct (scalar_string_ok v str Es) as (Hp & Hvs & Ht). destruct I as [ER Hb].
    destruct (cgen_correct sc' ij env' je ER e v Ev) as [Hj _].
    destruct (js_print_expr je mode ds (cgen sc' e) (to_js v) str Hj Ht) as (jv' & Ej & Tj).
    rewrite (print_text_agree mode ds str (cleanb_ok _ Ec)) in Tj.
    cbn [js_exec]. unfold js_append. rewrite Ej. cbn [bind]. rewrite Tj, Hb. cbn [bind snd]. eexists. split; [reflexivity|].
    split; [eapply jinv_append; eauto; split; assumption|apply append_frame].
  - (* let *) intros name e buf sc n env je old text env' j sc' n' G E I Eg. rewrite sout_let in E. rewrite sgen_let in Eg. inversion Eg; subst. clear Eg.
    destruct (bstr_eqb name n_ij) eqn:Hnij; [discriminate|]. destruct (ceval ij env e) as [v|] eqn:Ev; [|discriminate]. inversion E; subst. clear E.
    destruct I as [ER Hb]. destruct (cgen_correct sc ij env je ER e v Ev) as [Hj Hcv].
    rewrite js_exec_var, Hj. cbn [bind]. eexists. split; [reflexivity|]. rewrite app_nil_r.
    set (g := jsc_name name (n + 1)).
    assert (Hbg : bstr_eqb buf g = false) by (apply bounded_fresh; apply G).
    assert (Hfr : frame buf n je {| je_vars := aset (je_vars je) g (to_js v); je_data := je_data je |}).
    { split; [reflexivity|]. intros g0 H0 _. cbn [je_vars]. apply assoc_s_aset_other. apply bounded_fresh. exact H0. }
    split; [|exact Hfr]. split; [|cbn [je_vars]; rewrite assoc_s_aset_other by exact Hbg; exact Hb].
    apply (env_rel_bind buf sc n env je _ name v G ER Hfr); [apply assoc_s_aset|exact Hcv].
  - (* let, content form *) intros name body IHb buf sc n env je old text env' j sc' n' G E I Eg. rewrite sout_letc in E. rewrite sgen_letc in Eg.
    destruct (bstr_eqb name n_ij) eqn:Hnij; [discriminate|].
    destruct (bout ij mode go_print_text env body) as [t|] eqn:Et; [|discriminate]. inversion E; subst. clear E.
    set (g := jsc_name name (n + 1)) in *.
    destruct (bgen mode g ([] :: sc) (n + 1) body) as [jb n1] eqn:E1. inversion Eg; subst. clear Eg.
    destruct I as [ER Hb]. rewrite js_exec_varblock.
    set (je0 := {| je_vars := aset (je_vars je) g (JStr []); je_data := je_data je |}).
    assert (Hbg : bstr_eqb buf g = false) by (apply bounded_fresh; apply G).
    assert (F0 : frame buf n je je0).
    { split; [reflexivity|]. intros g0 H0 _. cbn [je_vars]. apply assoc_s_aset_other. apply bounded_fresh. exact H0. }
    (* the body runs with the new variable as its buffer *)
    assert (G' : ginv sc (n + 1) g).
    { destruct G as [G0 G1 G2 G3 G4]. constructor.
      - exact G0.
      - intro key. eapply bounded_mono; [|apply G1]. lia.
      - apply bounded_new.
      - intro key. apply bounded_fresh. apply G1.
      - apply bounded_fresh. apply opt_ij_bounded. }
    assert (I0 : jinv g sc env je0 []).
    { split; [exact (env_rel_frame buf sc n env je je0 G ER F0)|]. exact (assoc_s_aset g (JStr []) (je_vars je)). }
    destruct (JP_block body IHb g sc (n + 1) env je0 [] t jb n' G' Et I0 E1) as (je1 & X1 & Hg1 & [D1 F1]).
    exists je1. split; [exact X1|]. rewrite app_nil_r. cbn [app] in Hg1.
    (* seen from outside: only variables with newer counters, and g, were touched *)
    assert (F : frame buf n je je1).
    { split; [rewrite D1; reflexivity|]. intros g0 H0 Hb0. rewrite F1.
      - cbn [je_vars je0]. apply assoc_s_aset_other. apply bounded_fresh. exact H0.
      - eapply bounded_mono; [|exact H0]. lia.
      - apply bounded_fresh. exact H0. }
    split; [|exact F]. split.
    + apply (env_rel_bind buf sc n env je je1 name (VStr t) G ER F); [exact Hg1|reflexivity].
    + rewrite F1; [|eapply bounded_mono; [|apply (gi_buf _ _ _ G)]; lia|exact Hbg]. cbn [je_vars je0]. rewrite assoc_s_aset_other by exact Hbg. exact Hb.
  - (* if *) intros c th IHt rest IHr buf sc n env je old text env' j sc' n' G E I Eg. rewrite sout_if in E. rewrite sgen_if in Eg.
    destruct (bgen mode buf ([] :: sc) n th) as [jt n1] eqn:E1. destruct (egen mode buf sc n1 rest) as [jr n2] eqn:E2. inversion Eg; subst. clear Eg.
    destruct (ceval ij env c) as [v|] eqn:Ev; [|discriminate].
    pose proof I as [ER Hb]. destruct (cgen_correct sc' ij env je ER c v Ev) as [Hj Hcv].
    rewrite js_exec_if, Hj. cbn [bind]. rewrite truthy_js by exact Hcv.
    pose proof (proj1 (proj2 (sgen_mono_all mode)) _ _ _ _ _ _ E1) as Hn1.
    destruct (truthy v).
    + destruct (bout ij mode go_print_text env th) as [t|] eqn:Et; [|discriminate]. inversion E; subst. clear E.
      destruct (JP_block th IHt buf sc' n env' je old text jt n1 G Et I E1) as (je' & X & Hb' & F).
      exists je'. split; [exact X|]. split; [eapply jinv_frame; eauto|exact F].
    + destruct (eout ij mode go_print_text env rest) as [t|] eqn:Et; [|discriminate]. inversion E; subst. clear E.
      destruct (IHr buf sc' n1 env' je old text jr n' (ginv_mono _ _ _ _ Hn1 G) Et I E2) as (je' & X & Hb' & F).
      assert (F' : frame buf n je je') by (eapply frame_trans; [exact Hn1|apply frame_refl|exact F]).
      exists je'. split; [exact X|]. split; [eapply jinv_frame; eauto|exact F'].
  - (* switch *) intros v cs IHk buf sc n env je old text env' j sc' n' G E I Eg. rewrite sout_switch in E. rewrite sgen_switch in Eg.
    destruct (kgen mode buf sc n cs) as [jc n1] eqn:E1. inversion Eg; subst. clear Eg.
    destruct (ceval ij env v) as [sv|] eqn:Ev; [|discriminate]. destruct (prim_value sv) eqn:Hp; [|discriminate].
    destruct (kout ij mode go_print_text env sv cs) as [t|] eqn:Et; [|discriminate]. inversion E; subst. clear E.
    pose proof I as [ER Hb]. destruct (cgen_correct sc' ij env' je ER v sv Ev) as [Hj Hcv].
    rewrite js_exec_switch, Hj. cbn [bind].
    destruct (IHk buf sc' n env' je old text sv jc n' G Hp Et I E1) as (je' & X & Hb' & F).
    exists je'. split; [exact X|]. split; [eapply jinv_frame; eauto|exact F].
  - (* BNil *) intros buf sc n env je old text jb n' G E I Eg. rewrite bout_nil in E. rewrite bgen_nil in Eg. inversion E; subst. inversion Eg; subst.
    exists je. rewrite app_nil_r. split; [reflexivity|]. split; [apply I|apply frame_refl].
  - (* BCons *) intros s IHs r IHr buf sc n env je old text jb n' G E I Eg. rewrite bout_cons in E. rewrite bgen_cons in Eg.
    destruct (sgen mode buf sc n s) as [j [sc1 n1]] eqn:E1. destruct (bgen mode buf sc1 n1 r) as [jr n2] eqn:E2. inversion Eg; subst. clear Eg.
    destruct (sout ij mode go_print_text env s) as [[a env1]|] eqn:Ea; [|discriminate].
    destruct (bout ij mode go_print_text env1 r) as [c|] eqn:Ec; [|discriminate]. inversion E; subst. clear E.
    destruct (IHs buf sc n env je old a env1 j sc1 n1 G Ea I E1) as (je1 & X1 & I1 & F1).
    pose proof (ginv_after _ _ _ _ _ _ _ _ E1 G) as G1. pose proof (proj1 (sgen_mono_all mode) _ _ _ _ _ _ _ E1) as Hn1.
    destruct (IHr buf sc1 n1 env1 je1 (old ++ a) c jr n' G1 Ec I1 E2) as (je2 & X2 & Hb2 & F2).
    exists je2. rewrite jb_exec_cons, X1. cbn [bind]. split; [exact X2|]. split; [rewrite app_assoc; exact Hb2|eapply frame_trans; eauto].
  - (* ENone *) intros buf sc n env je old text jl n' G E I Eg. rewrite eout_none in E. rewrite egen_none in Eg. inversion E; subst. inversion Eg; subst.
    exists je. rewrite app_nil_r. split; [reflexivity|]. split; [apply I|apply frame_refl].
  - (* EElse *) intros b IHb buf sc n env je old text jl n' G E I Eg. rewrite eout_else in E. rewrite egen_else in Eg.
    destruct (bgen mode buf ([] :: sc) n b) as [jb n1] eqn:E1. inversion Eg; subst. clear Eg.
    exact (JP_block b IHb buf sc n env je old text jb n' G E I E1).
  - (* EElif *) intros c th IHt rest IHr buf sc n env je old text jl n' G E I Eg. rewrite eout_elif in E. rewrite egen_elif in Eg.
    destruct (bgen mode buf ([] :: sc) n th) as [jt n1] eqn:E1. destruct (egen mode buf sc n1 rest) as [jr n2] eqn:E2. inversion Eg; subst. clear Eg.
    destruct (ceval ij env c) as [v|] eqn:Ev; [|discriminate].
    pose proof I as [ER Hb]. destruct (cgen_correct sc ij env je ER c v Ev) as [Hj Hcv].
    rewrite jl_exec_elif, Hj. cbn [bind]. rewrite truthy_js by exact Hcv.
    pose proof (proj1 (proj2 (sgen_mono_all mode)) _ _ _ _ _ _ E1) as Hn1.
    destruct (truthy v).
    + exact (JP_block th IHt buf sc n env je old text jt n1 G E I E1).
    + destruct (IHr buf sc n1 env je old text jr n' (ginv_mono _ _ _ _ Hn1 G) E I E2) as (je' & X & Hb' & F).
      exists je'. split; [exact X|]. split; [exact Hb'|]. eapply frame_trans; [exact Hn1|apply frame_refl|exact F].
  - (* KNone *) intros buf sc n env je old text sv jk n' G Hp E I Eg. rewrite kout_none in E. rewrite kgen_none in Eg. inversion E; subst. inversion Eg; subst.
    exists je. rewrite app_nil_r. split; [reflexivity|]. split; [apply I|apply frame_refl].
  - (* KDefault *) intros b IHb buf sc n env je old text sv jk n' G Hp E I Eg. rewrite kout_default in E. rewrite kgen_default in Eg.
    destruct (bgen mode buf ([] :: sc) n b) as [jb n1] eqn:E1. inversion Eg; subst. clear Eg.
    exact (JP_block b IHb buf sc n env je old text jb n' G E I E1).
  - (* KCase *) intros v vs b IHb rest IHr buf sc n env je old text sv jk n' G Hp E I Eg. rewrite kout_case in E. rewrite kgen_case in Eg.
    destruct (bgen mode buf ([] :: sc) n b) as [jb n1] eqn:E1. destruct (kgen mode buf sc n1 rest) as [jr n2] eqn:E2. inversion Eg; subst. clear Eg.
    destruct (khit ij env sv (v :: vs)) as [h|] eqn:Eh; [|discriminate].
    pose proof I as [ER Hb]. rewrite jk_exec_case.
    change (cgen sc v :: map (cgen sc) vs) with (map (cgen sc) (v :: vs)).
    rewrite (khit_js sc env je sv (v :: vs) ER Hp h Eh). cbn [bind].
    pose proof (proj1 (proj2 (sgen_mono_all mode)) _ _ _ _ _ _ E1) as Hn1.
    destruct h.
    + exact (JP_block b IHb buf sc n env je old text jb n1 G E I E1).
    + destruct (IHr buf sc n1 env je old text sv jr n' (ginv_mono _ _ _ _ Hn1 G) Hp E I E2) as (je' & X & Hb' & F).
      exists je'. split; [exact X|]. split; [exact Hb'|]. eapply frame_trans; [exact Hn1|apply frame_refl|exact F].
Qed.
End JsStmts.

(* ================================================================== *)
(* the Go side: the walker of Model/Interp.v *)

Lemma snode_raw t : snode (SRaw t) = NRawText 0 t. Proof. reflexivity. Qed.
Lemma snode_print e ds : snode (SPrint e ds) = NPrint 0 (cnode e) (map pdir_node ds). Proof. reflexivity. Qed.
Lemma snode_let name e : snode (SLet name e) = NLetValue 0 name (cnode e). Proof. reflexivity. Qed.
Lemma snode_if c th rest : snode (SIf c th rest) = NIf 0 (NIfCond 0 (Some (cnode c)) (NList 0 (bnodes th)) :: enodes rest). Proof. reflexivity. Qed.
Lemma snode_switch v cs : snode (SSwitch v cs) = NSwitch 0 (cnode v) (knodes cs). Proof. reflexivity. Qed.
Lemma bnodes_cons s r : bnodes (BCons s r) = snode s :: bnodes r. Proof. reflexivity. Qed.
Lemma enodes_else b : enodes (EElse b) = [NIfCond 0 None (NList 0 (bnodes b))]. Proof. reflexivity. Qed.
Lemma enodes_elif c th rest : enodes (EElif c th rest) = NIfCond 0 (Some (cnode c)) (NList 0 (bnodes th)) :: enodes rest. Proof. reflexivity. Qed.
Lemma knodes_default b : knodes (KDefault b) = [NSwitchCase 0 [] (NList 0 (bnodes b))]. Proof. reflexivity. Qed.
Lemma knodes_case v vs b rest : knodes (KCase v vs b rest) = NSwitchCase 0 (cnode v :: map cnode vs) (NList 0 (bnodes b)) :: knodes rest. Proof. reflexivity. Qed.

Lemma sdepth_if c th rest : sdepth (SIf c th rest) = S (S (Nat.max (cdepth c) (Nat.max (bdepth th) (edepth rest)))). Proof. reflexivity. Qed.
Lemma sdepth_switch v cs : sdepth (SSwitch v cs) = S (S (Nat.max (cdepth v) (kdepth cs))). Proof. reflexivity. Qed.
Lemma bdepth_cons s r : bdepth (BCons s r) = Nat.max (S (sdepth s)) (bdepth r). Proof. reflexivity. Qed.
Lemma edepth_else b : edepth (EElse b) = bdepth b. Proof. reflexivity. Qed.
Lemma edepth_elif c th rest : edepth (EElif c th rest) = Nat.max (cdepth c) (Nat.max (bdepth th) (edepth rest)). Proof. reflexivity. Qed.
Lemma kdepth_default b : kdepth (KDefault b) = bdepth b. Proof. reflexivity. Qed.
Lemma kdepth_case v vs b rest : kdepth (KCase v vs b rest) = Nat.max (Nat.max (cdepth v) (cdepths vs)) (Nat.max (bdepth b) (kdepth rest)). Proof. reflexivity. Qed.
Lemma cdepths_le x l : In x l -> (cdepth x <= cdepths l)%nat.
Proof. induction l as [|y r IH]; intro H; [contradiction|]. cbn [cdepths fold_right]. fold (cdepths r). destruct H as [->|H]; [lia|]. specialize (IH H). lia. Qed.

Lemma assoc_s_map_set m k q (v : value) : assoc_s q (map_set m k v) = if bstr_eqb q k then Some v else assoc_s q m.
Proof.
  induction m as [|[k1 v1] r IH]; cbn [map_set]; unfold assoc_s; fold (@assoc_s value).
  - reflexivity.
  - destruct (bstr_eqb k k1) eqn:E1.
    + apply bstr_eqb_true in E1. subst k1. unfold assoc_s; fold (@assoc_s value). destruct (bstr_eqb q k); reflexivity.
    + destruct (bstr_ltb k k1); unfold assoc_s; fold (@assoc_s value).
      * destruct (bstr_eqb q k); reflexivity.
      * rewrite IH. destruct (bstr_eqb q k1) eqn:E2; [|reflexivity].
        destruct (bstr_eqb q k) eqn:E3; [|reflexivity]. apply bstr_eqb_true in E2, E3. subst. rewrite bstr_eqb_refl' in E1. discriminate.
Qed.
Lemma sc_lookup_set s k v x : s <> [] -> sc_lookup (sc_set s k v) x = if bstr_eqb x k then Some v else sc_lookup s x.
Proof.
  destruct s as [|f r]; [congruence|]. intros _. cbn [sc_set sc_lookup f_vars]. rewrite assoc_s_map_set. destruct (bstr_eqb x k); reflexivity.
Qed.

Lemma concat_b_app ws1 ws2 : concat_b (ws1 ++ ws2) = concat_b ws1 ++ concat_b ws2.
Proof. induction ws1 as [|w r IH]; [reflexivity|]. cbn. rewrite IH, app_assoc. reflexivity. Qed.

Lemma snode_letc name body : snode (SLetC name body) = NLetContent 0 name (NList 0 (bnodes body)). Proof. reflexivity. Qed.
Lemma sdepth_letc name body : sdepth (SLetC name body) = S (S (bdepth body)). Proof. reflexivity. Qed.

Definition envok (env : bstr -> option value) : Prop := forall k x, env k = Some x -> core_value x = true.
Definition agrees (st : mstate) (env : bstr -> option value) : Prop := forall k, sc_lookup (ctx st) k = env k.
Lemma agrees_pres st st' env : pres st st' -> agrees st env -> agrees st' env.
Proof. intros P H k. rewrite (pres_ctx _ _ P). apply H. Qed.

(* what a statement does to the renderer's state: it writes text to the current writer (wrote, of
   Proofs/MiniJSStmt.v: the innermost capture buffer, or the output); the mode stays; the scope stack
   keeps its frames below the innermost one, and looking a variable up gives the environment after the statement *)
Definition sres (m : M value) (st : mstate) (text : bstr) (env' : bstr -> option value) : Prop :=
  exists st' ws rv, m st = (Ok rv, st') /\ wrote st st' ws /\ concat_b ws = text /\ mode st' = mode st
                    /\ ctx st' <> [] /\ tl (ctx st') = tl (ctx st) /\ agrees st' env'.
(* a command that restores the scope; [st0] is the state the writer and the scope are compared with *)
Definition bres0 {A} (st0 : mstate) (m : M A) (st : mstate) (text : bstr) : Prop :=
  exists st' ws rv, m st = (Ok rv, st') /\ wrote st0 st' ws /\ concat_b ws = text /\ mode st' = mode st0 /\ ctx st' = ctx st0.
Notation bres m st text := (bres0 st m st text).

Lemma bres0_pres {A} st0 (m : M A) st text : pres st0 st -> bres m st text -> bres0 st0 m st text.
Proof.
  intros P (st' & ws & rv & E & W & T & M' & X). pose proof P as (C & Mo & _). exists st', ws, rv.
  split; [exact E|]. split; [exact (wrote_l _ _ _ _ (pres_wsame _ _ P) W)|]. repeat split; congruence.
Qed.
Lemma bres0_ret {A} st0 (m : M A) st text : bres0 st0 m st text -> bres0 st0 (_ <-- m ;;; ret VUndef) st text.
Proof. intros (st' & ws & rv & E & R). exists st', ws, VUndef. unfold mbind. rewrite E. split; [reflexivity|exact R]. Qed.
Lemma bres_sres m st text env : bres m st text -> ctx st <> [] -> agrees st env -> sres m st text env.
Proof.
  intros (st' & ws & rv & E & W & T & M' & X) Hn Ha. exists st', ws, rv.
  split; [exact E|]. split; [exact W|]. split; [exact T|]. split; [exact M'|]. split; [congruence|]. split; [congruence|].
  intro k. rewrite X. apply Ha.
Qed.

Section GoStmts.
Variable cf : cfg.
Hypothesis Hob : c_oblig cf = [].
Hypothesis ij_core : forall x, c_ij cf = Some x -> core_value x = true.

Lemma walk_unfold f n st : walk cf (S f) n st = walk_node cf (walk cf f) n (set_cur st (pos_of n)).
Proof. reflexivity. Qed.

Lemma go_eval f e st v env : agrees st env -> envok env -> (cdepth e < f)%nat -> ceval (c_ij cf) env e = Some v ->
  mok (eval (walk cf f) (cnode e)) st v.
Proof.
  intros Ha Hc Hf E. apply mok_eval. apply (interp_ceval cf st); auto.
  - intros k x Hk. rewrite Ha in Hk. eapply Hc; eauto.
  - rewrite (ceval_ext _ _ env Ha). exact E.
Qed.

Lemma go_case_hit F env sv vs : envok env -> (forall x, In x vs -> (cdepth x < F)%nat) -> forall st h, agrees st env ->
  khit (c_ij cf) env sv vs = Some h -> exists st', case_hit (walk cf F) sv (map cnode vs) st = (Ok h, st') /\ pres st st'.
Proof.
  intros Hc. induction vs as [|x r IH]; intros Hd st h Ha E; cbn [khit map case_hit] in *.
  - inversion E; subst. exists st. split; [reflexivity|apply pres_refl].
  - destruct (ceval (c_ij cf) env x) as [cv|] eqn:Ex; [|discriminate]. destruct (prim_value cv); [|discriminate].
    destruct (go_eval F x st cv env Ha Hc (Hd x (or_introl eq_refl)) Ex) as (st1 & E1 & P1).
    unfold mbind at 1. rewrite E1. destruct (equals sv cv).
    + inversion E; subst. exists st1. split; [reflexivity|exact P1].
    + destruct (IH (fun y Hy => Hd y (or_intror Hy)) st1 h (agrees_pres _ _ _ P1 Ha) E) as (st2 & E2 & P2).
      exists st2. split; [exact E2|eapply pres_trans; eauto].
Qed.

Definition GP_s (s : cstmt) : Prop := forall f st text env env',
  (sdepth s < f)%nat -> wok st -> ctx st <> [] -> agrees st env -> envok env ->
  sout (c_ij cf) (mode st) go_print_text env s = Some (text, env') -> sres (walk cf f (snode s)) st text env'.
Definition GP_b (b : cblk) : Prop := forall f st text env,
  (bdepth b <= f)%nat -> wok st -> ctx st <> [] -> agrees st env -> envok env ->
  bout (c_ij cf) (mode st) go_print_text env b = Some text ->
  exists st' ws, walk_list (walk cf f) (bnodes b) st = (Ok tt, st') /\ wrote st st' ws /\ concat_b ws = text
                 /\ mode st' = mode st /\ tl (ctx st') = tl (ctx st).
Definition GP_e (e : celse) : Prop := forall F st text env,
  (edepth e < F)%nat -> wok st -> agrees st env -> envok env ->
  eout (c_ij cf) (mode st) go_print_text env e = Some text -> bres (if_conds (walk cf F) (enodes e)) st text.
Definition GP_k (k : ccases) : Prop := forall F st text env sv,
  (kdepth k < F)%nat -> wok st -> agrees st env -> envok env ->
  kout (c_ij cf) (mode st) go_print_text env sv k = Some text -> bres (switch_cases (walk cf F) sv (knodes k)) st text.

Lemma envok_set env k v : envok env -> core_value v = true -> envok (env_set env k v).
Proof. intros H Hv q x. unfold env_set. destruct (bstr_eqb q k); [intro E; inversion E; subst; exact Hv|apply H]. Qed.

Lemma go_envok st mode env s text env' : agrees st env -> envok env ->
  sout (c_ij cf) mode go_print_text env s = Some (text, env') -> envok env'.
Proof.
  intros Ha Hc. destruct s.
  - rewrite sout_raw. intro E; inversion E; subst; exact Hc.
  - rewrite sout_print. destruct (ceval (c_ij cf) env e); [|discriminate]. destruct (scalar_string v); [|discriminate]. destruct (cleanb b); [|discriminate].
    intro E; inversion E; subst; exact Hc.
  - rewrite sout_let. destruct (bstr_eqb name n_ij); [discriminate|]. destruct (ceval (c_ij cf) env e) as [v|] eqn:Ev; [|discriminate].
    intro E; inversion E; subst. apply envok_set; [exact Hc|].
    apply (ceval_core cf st) with (e := e); auto.
    + intros k x Hk. rewrite Ha in Hk. eapply Hc; eauto.
    + rewrite (ceval_ext _ _ env Ha). exact Ev.
  - rewrite sout_letc. destruct (bstr_eqb name n_ij); [discriminate|]. destruct (bout (c_ij cf) mode go_print_text env body); [|discriminate].
    intro E; inversion E; subst. apply envok_set; [exact Hc|reflexivity].
  - rewrite sout_if. destruct (ceval (c_ij cf) env c); [|discriminate]. destruct (if truthy v then _ else _); [|discriminate]. intro E; inversion E; subst; exact Hc.
  - rewrite sout_switch. destruct (ceval (c_ij cf) env v); [|discriminate]. destruct (prim_value v0); [|discriminate].
    destruct (kout (c_ij cf) mode go_print_text env v0 cs); [|discriminate]. intro E; inversion E; subst; exact Hc.
Qed.

(* a block: NList pushes an (empty) frame, walks its statements, pops *)
Lemma go_block b F st text env : GP_b b -> (bdepth b < F)%nat -> wok st -> agrees st env -> envok env ->
  bout (c_ij cf) (mode st) go_print_text env b = Some text -> bres (walk cf F (NList 0 (bnodes b))) st text.
Proof.
  intros Hb Hd Hg Ha Hc E. destruct F as [|f]; [lia|]. unfold bres0. rewrite walk_unfold. cbn [walk_node].
  match goal with |- context [set_cur st ?p] => set (st1 := set_cur st p) end. unfold mbind at 1. unfold m_push. cbn [modify].
  set (st2 := set_ctx st1 (sc_push (ctx st1))).
  assert (S2 : wsame st st2) by (subst st2 st1; repeat split).
  assert (A2 : agrees st2 env) by (intro k; subst st2 st1; cbn; apply Ha).
  assert (M2 : mode st2 = mode st) by reflexivity.
  assert (N2 : ctx st2 <> []) by (subst st2; cbn; discriminate).
  destruct (Hb f st2 text env ltac:(lia) (wsame_wok _ _ S2 Hg) N2 A2 Hc) as (st3 & ws & E3 & W3 & C3 & M3 & X3). { rewrite M2. exact E. }
  unfold mbind at 1. rewrite E3. unfold mbind at 1. unfold m_pop. cbn [modify ret].
  exists (set_ctx st3 (sc_pop (ctx st3))), ws, VUndef. split; [reflexivity|].
  split; [apply (wrote_r _ st3); [exact (wrote_l _ _ _ _ S2 W3)|repeat split]|].
  split; [exact C3|]. cbn [set_ctx ctx mode]. split; [congruence|]. unfold sc_pop. rewrite X3. reflexivity.
Qed.

(* renderBlock: a fresh capture buffer, the block, the buffer popped and returned as a string; any writer will do *)
Lemma go_render_block b F st text env : GP_b b -> (bdepth b < F)%nat -> agrees st env -> envok env ->
  bout (c_ij cf) (mode st) go_print_text env b = Some text ->
  exists st', render_block (walk cf F) (NList 0 (bnodes b)) st = (Ok text, st') /\ wsame st st' /\ ctx st' = ctx st /\ mode st' = mode st.
Proof.
  intros Hb Hd Ha Hc E. unfold render_block. unfold mbind at 1. cbn [modify].
  remember (set_bufs st ([] :: bufs st)) as st2 eqn:Hst2.
  assert (B2 : bufs st2 = [] :: bufs st) by (subst st2; reflexivity).
  assert (R2 : ctx st2 = ctx st /\ mode st2 = mode st /\ out st2 = out st /\ calls_left st2 = calls_left st /\ bytes_left st2 = bytes_left st)
    by (subst st2; repeat split).
  destruct R2 as (C2 & M2 & O2 & L2 & Y2). clear Hst2.
  assert (W2 : wok st2) by (unfold wok; rewrite B2; exact I).
  assert (A2 : agrees st2 env) by (intro k; rewrite C2; apply Ha).
  destruct (go_block b F st2 text env Hb Hd W2 A2 Hc) as (st3 & ws & rv & E3 & W3 & T3 & M3 & X3). { rewrite M2. exact E. }
  unfold mbind at 1. rewrite E3. unfold mbind at 1. cbn [get].
  destruct W3 as (L3 & Y3 & W3). rewrite B2 in W3. destruct W3 as [B3 O3].
  rewrite B3. unfold mbind at 1. cbn [modify ret].
  eexists. split; [rewrite app_nil_r, rev_involutive, T3; reflexivity|].
  unfold wsame. cbn [out bufs calls_left bytes_left ctx mode set_bufs]. repeat split; congruence.
Qed.

(* binding a name in the innermost frame (let) *)
Lemma go_set st name v env : ctx st <> [] -> agrees st env ->
  exists st', m_set name v st = (Ok tt, st') /\ wsame st st' /\ mode st' = mode st
              /\ ctx st' <> [] /\ tl (ctx st') = tl (ctx st) /\ agrees st' (env_set env name v).
Proof.
  intros Hn Ha. unfold m_set. destruct (ctx st) as [|fr rs] eqn:Ec; [congruence|].
  match goal with |- context [set_ctx ?a ?b] => set (st3 := set_ctx a b) end.
  exists st3. split; [reflexivity|].
  assert (H3 : out st3 = out st /\ mode st3 = mode st /\ bufs st3 = bufs st /\ calls_left st3 = calls_left st /\ bytes_left st3 = bytes_left st
               /\ ctx st3 = sc_set (fr :: rs) name v).
  { subst st3. destruct (sc_top_origin (fr :: rs)); cbn; auto 10. }
  destruct H3 as (O3 & M3 & B3 & L3 & Y3 & C3).
  split; [repeat split; assumption|]. split; [exact M3|]. split; [rewrite C3; cbn [sc_set]; discriminate|].
  split; [rewrite C3; reflexivity|].
  intro k. rewrite C3, sc_lookup_set by discriminate. unfold env_set. rewrite <- Ec. rewrite Ha. reflexivity.
Qed.

Theorem interp_all : (forall s, GP_s s) /\ (forall b, GP_b b) /\ (forall e, GP_e e) /\ (forall k, GP_k k).
Proof.
  apply cstmt_mutind.
  - (* raw text *) intros t f st text env env' Hf Hg Hn Ha Hc E. rewrite sout_raw in E. inversion E; subst.
    apply bres_sres; auto. destruct f as [|f]; [cbn in Hf; lia|]. unfold bres0. rewrite walk_unfold, snode_raw. cbn [walk_node].
    match goal with |- context [set_cur st ?p] => set (st1 := set_cur st p) end.
    assert (P1 : pres st st1) by apply pres_set_cur.
    destruct (write_wok text st1 (wsame_wok _ _ (pres_wsame _ _ P1) Hg)) as (st2 & E2 & W2 & C2 & M2).
    unfold mbind at 1. rewrite E2. exists st2, [text], VUndef. split; [reflexivity|].
    split; [exact (wrote_l _ _ _ _ (pres_wsame _ _ P1) W2)|]. split; [cbn; apply app_nil_r|]. split; [exact M2|exact C2].
  - (* print *) intros e ds f st text env env' Hf Hg Hn Ha Hc E. rewrite sout_print in E.
    destruct (ceval (c_ij cf) env e) as [v|] eqn:Ev; [|discriminate]. destruct (scalar_string v) as [str|] eqn:Es; [|discriminate].
    destruct (cleanb str); [|discriminate]. inversion E; subst. clear E.
    apply bres_sres; auto. rewrite snode_print.
    destruct (scalar_string_ok v str Es) as (Hp & Hvs & _).
    assert (Ev' : ceval (c_ij cf) (sc_lookup (ctx st)) e = Some v) by (rewrite (ceval_ext _ _ env' Ha); exact Ev).
    destruct (interp_print_dirs_w cf e ds f st v str Hob Hg) as (st' & ws & E1 & W1 & C1 & X1 & M1); auto.
    + intros k x Hk. rewrite Ha in Hk. eapply Hc; eauto.
    + cbn [sdepth] in Hf. lia.
    + destruct v; try discriminate; discriminate.
    + exists st', ws, VUndef. split; [exact E1|]. split; [exact W1|]. split; [exact C1|]. split; [exact M1|exact X1].
  - (* let *) intros name e f st text env env' Hf Hg Hn Ha Hc E. rewrite sout_let in E.
    destruct (bstr_eqb name n_ij); [discriminate|]. destruct (ceval (c_ij cf) env e) as [v|] eqn:Ev; [|discriminate]. inversion E; subst. clear E.
    cbn [sdepth] in Hf. destruct f as [|f]; [lia|]. unfold sres. rewrite walk_unfold, snode_let. cbn [walk_node].
    match goal with |- context [set_cur st ?p] => set (st1 := set_cur st p) end.
    assert (P1 : pres st st1) by apply pres_set_cur.
    destruct (go_eval f e st1 v env (agrees_pres _ _ _ P1 Ha) Hc ltac:(lia) Ev) as (st2 & E2 & P2).
    pose proof (pres_trans _ _ _ P1 P2) as P. pose proof P as (C & Mo & _).
    unfold mbind at 1. rewrite E2.
    destruct (go_set st2 name v env ltac:(congruence) (agrees_pres _ _ _ P Ha)) as (st3 & E3 & S3 & M3 & N3 & T3 & A3).
    unfold mbind at 1. rewrite E3. cbn [ret]. exists st3, [], VUndef. split; [reflexivity|].
    split; [apply wsame_wrote; exact (wsame_trans _ _ _ (pres_wsame _ _ P) S3)|]. split; [reflexivity|]. split; [congruence|].
    split; [exact N3|]. split; [congruence|exact A3].
  - (* let, content form *) intros name body IHb f st text env env' Hf Hg Hn Ha Hc E. rewrite sout_letc in E.
    destruct (bstr_eqb name n_ij); [discriminate|].
    destruct (bout (c_ij cf) (mode st) go_print_text env body) as [t|] eqn:Et; [|discriminate]. inversion E; subst. clear E.
    rewrite sdepth_letc in Hf. destruct f as [|F]; [lia|]. unfold sres. rewrite walk_unfold, snode_letc. cbn [walk_node].
    match goal with |- context [set_cur st ?p] => set (st1 := set_cur st p) end.
    assert (P1 : pres st st1) by apply pres_set_cur. pose proof P1 as (C1 & Mo1 & _).
    destruct (go_render_block body F st1 t env IHb ltac:(lia) (agrees_pres _ _ _ P1 Ha) Hc) as (st4 & E4 & S4 & C4 & M4).
    { rewrite Mo1. exact Et. }
    unfold mbind at 1. rewrite E4.
    destruct (go_set st4 name (VStr t) env ltac:(congruence) ltac:(intro k; rewrite C4, C1; apply Ha)) as (st5 & E5 & S5 & M5 & N5 & T5 & A5).
    unfold mbind at 1. rewrite E5. cbn [ret]. exists st5, [], VUndef. split; [reflexivity|].
    split; [apply wsame_wrote; exact (wsame_trans _ _ _ (wsame_trans _ _ _ (pres_wsame _ _ P1) S4) S5)|]. split; [reflexivity|].
    split; [congruence|]. split; [exact N5|]. split; [congruence|exact A5].
  - (* if *) intros c th IHt rest IHr f st text env env' Hf Hg Hn Ha Hc E. rewrite sout_if in E.
    destruct (ceval (c_ij cf) env c) as [v|] eqn:Ev; [|discriminate].
    destruct (if truthy v then bout (c_ij cf) (mode st) go_print_text env th else eout (c_ij cf) (mode st) go_print_text env rest) as [t|] eqn:Et; [|discriminate].
    inversion E; subst. clear E. apply bres_sres; auto.
    rewrite sdepth_if in Hf. destruct f as [|F]; [lia|]. unfold bres0. rewrite walk_unfold, snode_if. cbn [walk_node if_conds].
    match goal with |- context [set_cur st ?p] => set (st1 := set_cur st p) end.
    assert (P1 : pres st st1) by apply pres_set_cur.
    destruct (go_eval F c st1 v env' (agrees_pres _ _ _ P1 Ha) Hc ltac:(lia) Ev) as (st2 & E2 & P2).
    pose proof (pres_trans _ _ _ P1 P2) as P. unfold mbind at 1. rewrite E2.
    assert (Mo : mode st2 = mode st) by apply P.
    pose proof (wsame_wok _ _ (pres_wsame _ _ P) Hg) as Hg2.
    destruct (truthy v).
    + apply (bres0_pres st _ st2 text P). apply bres0_ret. apply (go_block th F st2 text env'); auto.
      * lia. * eapply agrees_pres; eauto. * rewrite Mo. exact Et.
    + apply (bres0_pres st _ st2 text P). apply (IHr F st2 text env'); auto.
      * lia. * eapply agrees_pres; eauto. * rewrite Mo. exact Et.
  - (* switch *) intros v cs IHk f st text env env' Hf Hg Hn Ha Hc E. rewrite sout_switch in E.
    destruct (ceval (c_ij cf) env v) as [sv|] eqn:Ev; [|discriminate]. destruct (prim_value sv); [|discriminate].
    destruct (kout (c_ij cf) (mode st) go_print_text env sv cs) as [t|] eqn:Et; [|discriminate]. inversion E; subst. clear E.
    apply bres_sres; auto.
    rewrite sdepth_switch in Hf. destruct f as [|F]; [lia|]. unfold bres0. rewrite walk_unfold, snode_switch. cbn [walk_node].
    match goal with |- context [set_cur st ?p] => set (st1 := set_cur st p) end.
    assert (P1 : pres st st1) by apply pres_set_cur.
    destruct (go_eval F v st1 sv env' (agrees_pres _ _ _ P1 Ha) Hc ltac:(lia) Ev) as (st2 & E2 & P2).
    pose proof (pres_trans _ _ _ P1 P2) as P. unfold mbind at 1. rewrite E2.
    assert (Mo : mode st2 = mode st) by apply P.
    pose proof (wsame_wok _ _ (pres_wsame _ _ P) Hg) as Hg2.
    apply (bres0_pres st _ st2 text P). apply (IHk F st2 text env' sv); auto.
    * lia. * eapply agrees_pres; eauto. * rewrite Mo. exact Et.
  - (* BNil *) intros f st text env Hf Hg Hn Ha Hc E. rewrite bout_nil in E. inversion E; subst. exists st, [].
    split; [reflexivity|]. split; [apply wsame_wrote, wsame_refl|auto].
  - (* BCons *) intros s IHs r IHr f st text env Hf Hg Hn Ha Hc E. rewrite bout_cons in E. rewrite bdepth_cons in Hf.
    destruct (sout (c_ij cf) (mode st) go_print_text env s) as [[a env1]|] eqn:Ea; [|discriminate].
    destruct (bout (c_ij cf) (mode st) go_print_text env1 r) as [c0|] eqn:Er; [|discriminate]. inversion E; subst. clear E.
    destruct (IHs f st a env env1 ltac:(lia) Hg Hn Ha Hc Ea) as (st1 & ws1 & rv & E1 & W1 & C1 & M1 & N1 & T1 & A1).
    rewrite bnodes_cons. cbn [walk_list]. unfold mbind at 1. rewrite E1.
    destruct (IHr f st1 c0 env1 ltac:(lia) (wrote_wok _ _ _ W1 Hg) N1 A1 (go_envok st _ env s a env1 Ha Hc Ea)) as (st2 & ws2 & E2 & W2 & C2 & M2 & T2).
    { rewrite M1. exact Er. }
    exists st2, (ws1 ++ ws2). split; [exact E2|]. split; [exact (wrote_trans _ _ _ _ _ W1 W2)|].
    split; [rewrite concat_b_app; congruence|]. split; congruence.
  - (* ENone *) intros F st text env Hf Hg Ha Hc E. rewrite eout_none in E. inversion E; subst. exists st, [], VUndef.
    split; [reflexivity|]. split; [apply wsame_wrote, wsame_refl|auto].
  - (* EElse *) intros b IHb F st text env Hf Hg Ha Hc E. rewrite eout_else in E. rewrite edepth_else in Hf.
    rewrite enodes_else. cbn [if_conds]. apply bres0_ret. apply (go_block b F st text env); auto.
  - (* EElif *) intros c th IHt rest IHr F st text env Hf Hg Ha Hc E. rewrite eout_elif in E. rewrite edepth_elif in Hf.
    destruct (ceval (c_ij cf) env c) as [v|] eqn:Ev; [|discriminate].
    rewrite enodes_elif. cbn [if_conds].
    destruct (go_eval F c st v env Ha Hc ltac:(lia) Ev) as (st2 & E2 & P). unfold bres0. unfold mbind at 1. rewrite E2.
    assert (Mo : mode st2 = mode st) by apply P.
    pose proof (wsame_wok _ _ (pres_wsame _ _ P) Hg) as Hg2.
    destruct (truthy v).
    + apply (bres0_pres st _ st2 text P). apply bres0_ret. apply (go_block th F st2 text env); auto.
      * lia. * eapply agrees_pres; eauto. * rewrite Mo. exact E.
    + apply (bres0_pres st _ st2 text P). apply (IHr F st2 text env); auto.
      * lia. * eapply agrees_pres; eauto. * rewrite Mo. exact E.
  - (* KNone *) intros F st text env sv Hf Hg Ha Hc E. rewrite kout_none in E. inversion E; subst. exists st, [], VUndef.
    split; [reflexivity|]. split; [apply wsame_wrote, wsame_refl|auto].
  - (* KDefault *) intros b IHb F st text env sv Hf Hg Ha Hc E. rewrite kout_default in E. rewrite kdepth_default in Hf.
    rewrite knodes_default. cbn [switch_cases case_hit]. unfold mbind at 1. cbn [ret orb]. apply bres0_ret. apply (go_block b F st text env); auto.
  - (* KCase *) intros v vs b IHb rest IHr F st text env sv Hf Hg Ha Hc E. rewrite kout_case in E. rewrite kdepth_case in Hf.
    destruct (khit (c_ij cf) env sv (v :: vs)) as [h|] eqn:Eh; [|discriminate].
    rewrite knodes_case. cbn [switch_cases].
    change (cnode v :: map cnode vs) with (map cnode (v :: vs)).
    destruct (go_case_hit F env sv (v :: vs) Hc) with (st := st) (h := h) as (st2 & E2 & P); auto.
    { intros x [<-|Hx]; [lia|]. pose proof (cdepths_le x vs Hx). lia. }
    unfold bres0. unfold mbind at 1. rewrite E2. assert (Mo : mode st2 = mode st) by apply P.
    pose proof (wsame_wok _ _ (pres_wsame _ _ P) Hg) as Hg2.
    destruct h; cbn [orb map].
    + apply (bres0_pres st _ st2 text P). apply bres0_ret. apply (go_block b F st2 text env); auto.
      * lia. * eapply agrees_pres; eauto. * rewrite Mo. exact E.
    + apply (bres0_pres st _ st2 text P). apply (IHr F st2 text env sv); auto.
      * lia. * eapply agrees_pres; eauto. * rewrite Mo. exact E.
Qed.
End GoStmts.

(* ================================================================== *)
(* the generator: the chunks of statements *)

Lemma sprint_var ind g e : sprint ind (JSVar g e) = sp_ind ind ++ ([CText t_var; CName g; CText t_eq] ++ jprint e ++ [CText t_semi]) ++ [CText t_nl].
Proof. reflexivity. Qed.
Lemma sprint_varblock ind g body : sprint ind (JSVarBlock g body) = sp_ind ind ++ [CText t_var; CName g; CText t_eq_empty] ++ [CText t_nl] ++ bprint ind body.
Proof. reflexivity. Qed.
Lemma sprint_if ind c th rest : sprint ind (JSIf c th rest)
  = sp_ind ind ++ [CText t_if_open] ++ jprint c ++ [CText t_op_mid1; CText t_brace_nl] ++ bprint (S ind) th
    ++ sp_ind ind ++ [CText t_rbrace] ++ lprint ind rest ++ [CText t_nl].
Proof. reflexivity. Qed.
Lemma sprint_switch ind v cs : sprint ind (JSSwitch v cs)
  = sp_ind ind ++ [CText t_switch_open] ++ jprint v ++ [CText t_for_close; CText t_nl] ++ kprint (S ind) cs
    ++ sp_ind ind ++ [CText t_rbrace; CText t_nl].
Proof. reflexivity. Qed.
Lemma bprint_cons ind s r : bprint ind (JBCons s r) = sprint ind s ++ bprint ind r. Proof. reflexivity. Qed.
Lemma lprint_else ind b : lprint ind (JLElse b) = [CText t_else; CText t_brace_nl] ++ bprint (S ind) b ++ sp_ind ind ++ [CText t_rbrace].
Proof. reflexivity. Qed.
Lemma lprint_elif ind c th rest : lprint ind (JLElif c th rest)
  = [CText t_else; CText t_if_open] ++ jprint c ++ [CText t_op_mid1; CText t_brace_nl] ++ bprint (S ind) th
    ++ sp_ind ind ++ [CText t_rbrace] ++ lprint ind rest.
Proof. reflexivity. Qed.
Lemma kprint_default ind b : kprint ind (JKDefault b)
  = sp_ind ind ++ [CText t_default; CText t_nl] ++ bprint (S ind) b ++ sp_ind (S ind) ++ [CText t_break; CText t_nl].
Proof. reflexivity. Qed.
Lemma kprint_case ind v vs b rest : kprint ind (JKCase v vs b rest)
  = jk_values ind (v :: vs) ++ bprint (S ind) b ++ sp_ind (S ind) ++ [CText t_break; CText t_nl] ++ kprint ind rest.
Proof. reflexivity. Qed.

Section StmtChunks.
Variable o : jopts.

(* the part of the generator's state a statement depends on: indentation, buffer variable, autoescape mode, scope, counter *)
Definition shape (st : jstate) (i : nat) (bf : bstr) (a : N) (sc : list (list (bstr * bstr))) (n : N) : Prop :=
  j_indent st = i /\ j_buf st = bf /\ j_auto st = a /\ j_scope st = sc /\ j_n st = n.
Lemma shape_refl st : shape st (j_indent st) (j_buf st) (j_auto st) (j_scope st) (j_n st).
Proof. repeat split. Qed.
(* what walking a statement does to the generator's state: the chunks appended and the shape afterwards *)
Definition gres (m : J unit) (st : jstate) (cs : list chunk) (i : nat) (bf : bstr) (a : N) (sc : list (list (bstr * bstr))) (n : N) : Prop :=
  exists stf, m st = Ok (tt, stf) /\ j_out stf = rev cs ++ j_out st /\ shape stf i bf a sc n.

Lemma gres_bind m f st c1 c2 i1 b1 a1 s1 n1 i2 b2 a2 s2 n2 :
  gres m st c1 i1 b1 a1 s1 n1 ->
  (forall x, shape x i1 b1 a1 s1 n1 -> gres (f tt) x c2 i2 b2 a2 s2 n2) ->
  gres (jbind m f) st (c1 ++ c2) i2 b2 a2 s2 n2.
Proof.
  intros (x & E1 & O1 & H1) Hf. destruct (Hf x H1) as (y & E2 & O2 & R).
  exists y. rewrite (jbind_ok _ _ _ _ _ E1). split; [exact E2|]. split; [rewrite O2, O1, rev_app_distr, app_assoc; reflexivity|exact R].
Qed.
Lemma gres_eq m st cs cs' i b a s n : gres m st cs i b a s n -> cs = cs' -> gres m st cs' i b a s n.
Proof. intros H <-. exact H. Qed.
Lemma gres_ret st i b a s n : shape st i b a s n -> gres (jret tt) st [] i b a s n.
Proof. intro H. exists st. repeat split; apply H. Qed.
Lemma gres_emit cs st i b a s n : shape st i b a s n -> gres (jemit cs) st cs i b a s n.
Proof. intro H. exists (st_out st cs). rewrite jemit_out. split; [reflexivity|]. destruct st; cbn in *. split; [reflexivity|exact H]. Qed.
Lemma gres_txt t st i b a s n : shape st i b a s n -> gres (jtxt t) st [CText t] i b a s n.
Proof. apply gres_emit. Qed.
Lemma gres_indent st i b a s n : shape st i b a s n -> gres jindent st (sp_ind i) i b a s n.
Proof.
  intro H. unfold jindent, sp_ind. exists (st_out st [CText (indent_text (j_indent st))]). split; [unfold jbind, jget; apply jtxt_out|].
  destruct H as (<- & H). destruct st; cbn in *. split; [reflexivity|]. split; [reflexivity|exact H].
Qed.
Tactic Notation "gbind" ident(x) ident(H) := eapply gres_bind; [ | intros x H ].
Lemma gres_sln cs st i b a s n : shape st i b a s n -> gres (jsln cs) st (sp_ind i ++ cs ++ [CText t_nl]) i b a s n.
Proof.
  intro H. unfold jsln. gbind x Hx. apply gres_indent; exact H. gbind y Hy. apply gres_emit; exact Hx. apply gres_txt; exact Hy.
Qed.
Lemma gres_inc st i b a s n : shape st i b a s n -> gres indent_inc st [] (S i) b a s n.
Proof. intros (<- & H). exists (set_indent (S (j_indent st)) st). destruct st; cbn in *. repeat split; apply H. Qed.
Lemma gres_dec st i b a s n : shape st (S i) b a s n -> gres indent_dec st [] i b a s n.
Proof. intros (Hi & H). exists (set_indent (pred (j_indent st)) st). destruct st; cbn in *. subst. repeat split; apply H. Qed.
Lemma gres_expr e F st i b a s n : (cdepth e < F)%nat -> shape st i b a s n -> gres (jwalk o F (cnode e)) st (jprint (cgen s e)) i b a s n.
Proof.
  intros Hf H. exists (st_after st (jprint (cgen (j_scope st) e))). rewrite (cgen_print o e F st Hf). split; [reflexivity|].
  rewrite j_out_st_after. destruct H as (H1 & H2 & H3 & H4 & H5). rewrite H4. split; [reflexivity|].
  unfold st_after, st_out. destruct st; cbn in *. repeat split; assumption.
Qed.
Lemma gres_walk F nd st cs i b a s k i' b' a' s' k' : soydoc_flags nd = None -> shape st i b a s k ->
  (forall st1, shape st1 i b a s k -> gres (jwalk_node o (jwalk o F) (j_cur st) nd) st1 cs i' b' a' s' k') ->
  gres (jwalk o (S F) nd) st cs i' b' a' s' k'.
Proof.
  intros Hfl Hs H. destruct (H (jset_cur None st)) as (stf & E & O & R). { destruct st; exact Hs. }
  exists stf. rewrite jwalk_S, Hfl. split; [exact E|]. split; [exact O|exact R].
Qed.

Ltac chunks_eq := repeat rewrite <- app_assoc; cbn [app]; rewrite ?app_nil_r; reflexivity.

Definition GQ_s (s : cstmt) : Prop := forall f st j sc' n' i bf a sc n,
  (sdepth s < f)%nat -> sc <> [] -> shape st i bf a sc n -> sgen a bf sc n s = (j, (sc', n')) ->
  gres (jwalk o f (snode s)) st (sprint i j) i bf a sc' n'.
Definition GQ_b (b : cblk) : Prop := forall f st jb n' i bf a sc n,
  (bdepth b <= f)%nat -> sc <> [] -> shape st i bf a sc n -> bgen a bf sc n b = (jb, n') ->
  exists sc', tl sc' = tl sc /\ gres (jwalk_list (jwalk o f) (bnodes b)) st (bprint i jb) i bf a sc' n'.
Definition GQ_e (e : celse) : Prop := forall F st jl n' i bf a sc n,
  (edepth e < F)%nat -> sc <> [] -> shape st i bf a sc n -> egen a bf sc n e = (jl, n') ->
  gres (jif_conds (jwalk o F) false (enodes e)) st (lprint i jl) i bf a sc n'.
Definition GQ_k (k : ccases) : Prop := forall F st jk n' i bf a sc n,
  (kdepth k < F)%nat -> sc <> [] -> shape st i bf a sc n -> kgen a bf sc n k = (jk, n') ->
  gres (jswitch_cases (jwalk o F) (knodes k)) st (kprint i jk) i bf a sc n'.

Lemma sgen_scope mode buf sc n s j sc' n' : sgen mode buf sc n s = (j, (sc', n')) -> sc <> [] -> tl sc' = tl sc /\ sc' <> [].
Proof.
  intros H Hn. destruct (sgen_after _ _ _ _ _ _ _ _ H) as [->|(name & -> & _)]; [auto|].
  destruct sc as [|f r]; [congruence|]. cbn. split; [reflexivity|discriminate].
Qed.

(* a block: s.at, push a frame, the statements, pop *)
Lemma gen_nlist b F y jb n' i bf a sc n : GQ_b b -> (bdepth b < F)%nat -> shape y i bf a sc n ->
  bgen a bf ([] :: sc) n b = (jb, n') ->
  gres (jwalk o F (NList 0 (bnodes b))) y (bprint i jb) i bf a sc n'.
Proof.
  intros Hb Hd Hy Eg. destruct F as [|f]; [lia|]. eapply gres_walk; [reflexivity|exact Hy|]. intros x1 H1. cbn [jwalk_node].
  set (x2 := set_scope ([] :: j_scope x1) (j_n x1) x1).
  assert (E2 : jsc_push x1 = Ok (tt, x2)) by reflexivity.
  assert (H2 : shape x2 i bf a ([] :: sc) n /\ j_out x2 = j_out x1).
  { subst x2. destruct H1 as (? & ? & ? & ? & ?). destruct x1; cbn in *. subst. repeat split. }
  destruct H2 as (H2 & O2).
  destruct (Hb f x2 jb n' i bf a ([] :: sc) n ltac:(lia) ltac:(discriminate) H2 Eg) as (sc' & Htl & (x3 & E3 & O3 & I3 & B3 & A3 & S3 & N3)).
  unfold gres. erewrite jbind_ok; [|exact E2]. erewrite jbind_ok; [|exact E3].
  exists (set_scope (tl (j_scope x3)) (j_n x3) x3). split; [reflexivity|].
  split; [cbn; rewrite O3, O2; reflexivity|].
  unfold shape. cbn [j_indent j_buf j_auto j_scope j_n set_scope]. rewrite S3, Htl. cbn [tl]. repeat split; assumption.
Qed.

(* "{" newline, the block one level deeper, "}" at the statement's level, then the rest *)
Lemma gen_body_tail b F st jb n' rest crest i bf a sc n i2 b2 a2 s2 k2 : GQ_b b -> (bdepth b < F)%nat -> shape st i bf a sc n ->
  bgen a bf ([] :: sc) n b = (jb, n') ->
  (forall y, shape y i bf a sc n' -> gres rest y crest i2 b2 a2 s2 k2) ->
  gres (jtxt t_brace_nl ;;; indent_inc ;;; jwalk o F (NList 0 (bnodes b)) ;;; indent_dec ;;; jindent ;;; jtxt t_rbrace ;;; rest) st
       ([CText t_brace_nl] ++ bprint (S i) jb ++ sp_ind i ++ [CText t_rbrace] ++ crest) i2 b2 a2 s2 k2.
Proof.
  intros Hb Hd Hs Eg Hrest. eapply gres_eq.
  - gbind x0 H0. apply gres_txt; exact Hs.
    gbind x1 H1. apply gres_inc; exact H0.
    gbind x2 H2. apply (gen_nlist b F x1 jb n' (S i) bf a sc n Hb Hd H1 Eg).
    gbind x3 H3. apply gres_dec; exact H2.
    gbind x4 H4. apply gres_indent; exact H3.
    gbind x5 H5. apply gres_txt; exact H4.
    apply Hrest; exact H5.
  - chunks_eq.
Qed.

Lemma gen_case_values F vs : (forall x, In x vs -> (cdepth x < F)%nat) -> forall st i b a s n, shape st i b a s n ->
  gres (case_values (jwalk o F) (map cnode vs)) st (jk_values i (map (cgen s) vs)) i b a s n.
Proof.
  induction vs as [|v r IH]; intros Hd st i b a s n Hs; cbn [map case_values jk_values].
  - apply gres_ret; exact Hs.
  - eapply gres_eq.
    + gbind x1 H1. apply gres_indent; exact Hs. gbind x2 H2. apply gres_txt; exact H1.
      gbind x3 H3. apply (gres_expr v F x2); [apply Hd; left; reflexivity|exact H2].
      gbind x4 H4. apply gres_emit; exact H3. apply IH; [intros y Hy; apply Hd; right; exact Hy|exact H4].
    + chunks_eq.
Qed.

(* the body of a case: the block one level deeper, then break; at that level *)
Lemma gen_case_body b F st jb n' rest crest i bf a sc n i2 b2 a2 s2 k2 : GQ_b b -> (bdepth b < F)%nat -> shape st i bf a sc n ->
  bgen a bf ([] :: sc) n b = (jb, n') ->
  (forall y, shape y i bf a sc n' -> gres rest y crest i2 b2 a2 s2 k2) ->
  gres (indent_inc ;;; jwalk o F (NList 0 (bnodes b)) ;;; jsln [CText t_break] ;;; indent_dec ;;; rest) st
       (bprint (S i) jb ++ sp_ind (S i) ++ [CText t_break; CText t_nl] ++ crest) i2 b2 a2 s2 k2.
Proof.
  intros Hb Hd Hs Eg Hrest. eapply gres_eq.
  - gbind x1 H1. apply gres_inc; exact Hs.
    gbind x2 H2. apply (gen_nlist b F x1 jb n' (S i) bf a sc n Hb Hd H1 Eg).
    gbind x3 H3. apply gres_sln; exact H2.
    gbind x4 H4. apply gres_dec; exact H3.
    apply Hrest; exact H4.
  - chunks_eq.
Qed.

Theorem sgen_print_all : (forall s, GQ_s s) /\ (forall b, GQ_b b) /\ (forall e, GQ_e e) /\ (forall k, GQ_k k).
Proof.
  apply cstmt_mutind.
  - (* raw *) intros t f st j sc' n' i bf a sc n Hf Hn Hs Eg. rewrite sgen_raw in Eg. inversion Eg; subst. clear Eg.
    destruct f as [|f]; [cbn in Hf; lia|]. rewrite snode_raw. eapply gres_walk; [reflexivity|exact Hs|]. intros st1 H1. cbn [jwalk_node sprint].
    unfold write_raw_text. eapply gres_eq.
    + gbind x Hx. apply gres_indent; exact H1.
      unfold bufname. unfold gres. erewrite jbind_ok; [|erewrite jbind_ok; [reflexivity|reflexivity]].
      replace (j_buf x) with bf by (symmetry; apply Hx). apply gres_emit. exact Hx.
    + reflexivity.
  - (* print *) intros e ds f st j sc' n' i bf a sc n Hf Hn Hs Eg. rewrite sgen_print_eq in Eg. inversion Eg; subst. clear Eg.
    rewrite snode_print. cbn [sprint]. cbn [sdepth] in Hf. destruct (cgen_print_dirs o e ds f st ltac:(lia)) as (stf & E & O & I & B & S & A & N).
    destruct Hs as (<- & <- & <- & <- & <-). exists stf. repeat split; auto.
  - (* let *) intros name e f st j sc' n' i bf a sc n Hf Hn Hs Eg. rewrite sgen_let in Eg. inversion Eg; subst. clear Eg.
    cbn [sdepth] in Hf. destruct f as [|f]; [lia|]. rewrite snode_let, sprint_var.
    eapply gres_walk; [reflexivity|exact Hs|]. intros st1 (I1 & B1 & A1 & S1 & N1). cbn [jwalk_node].
    (* the value in a block of its own *)
    assert (Eb : jblock (jwalk o f) (cnode e) st1 = Ok (jprint (cgen sc e), st1)).
    { unfold jblock, jbind, jget. rewrite (cgen_print o e f _ ltac:(lia)). unfold st_after, st_out. cbn [j_out j_called jset_cur upd_out j_scope].
      rewrite app_nil_r, rev_involutive, S1. destruct st1; reflexivity. }
    unfold gres. erewrite jbind_ok; [|exact Eb].
    destruct sc as [|fr rs]; [congruence|].
    set (g := jsc_name name (n + 1)).
    set (st2 := set_scope (aset fr name g :: rs) (n + 1) st1).
    assert (Em : jsc_makevar name st1 = Ok (g, st2)).
    { unfold jsc_makevar, jsc_genname, jsc_bind, jbind, jget, jmod, jret. cbn [j_n j_scope set_scope]. rewrite S1, N1. reflexivity. }
    erewrite jbind_ok; [|exact Em].
    assert (H2 : shape st2 i bf a (aset fr name g :: rs) (n + 1)) by (subst st2; destruct st1; cbn in *; repeat split; assumption).
    destruct (gres_sln ([CText t_var; CName g; CText t_eq] ++ jprint (cgen (fr :: rs) e) ++ [CText t_semi]) st2 _ _ _ _ _ H2) as (stf & E & O & R).
    exists stf. split; [exact E|]. split; [exact O|exact R].
  - (* let, content form *) intros name body IHb f st j sc' n' i bf a sc n Hf Hn Hs Eg. rewrite sgen_letc in Eg.
    set (g := jsc_name name (n + 1)) in *.
    destruct (bgen a g ([] :: sc) (n + 1) body) as [jb n1] eqn:E1. inversion Eg; subst. clear Eg.
    rewrite sdepth_letc in Hf. destruct f as [|F]; [lia|]. rewrite snode_letc, sprint_varblock.
    eapply gres_walk; [reflexivity|exact Hs|]. intros st1 (I1 & B1 & A1 & S1 & N1). cbn [jwalk_node].
    (* the new name (not yet bound) becomes the buffer variable *)
    set (st2 := set_buf g (set_scope sc (n + 1) st1)).
    assert (E2 : (st0 <~ jget ;;
                   g0 <~ jsc_genname name ;; jmod (set_buf g0) ;;; jsln [CText t_var; CName g0; CText t_eq_empty] ;;;
                   jwalk o F (NList 0 (bnodes body)) ;;; jsc_bind name g0 ;;; jmod (set_buf (j_buf st0))) st1
                 = (jsln [CText t_var; CName g; CText t_eq_empty] ;;; jwalk o F (NList 0 (bnodes body)) ;;; jsc_bind name g ;;; jmod (set_buf bf)) st2).
    { unfold jbind at 1. unfold jget. unfold jbind at 1. unfold jsc_genname, jbind, jget, jmod, jret. cbn [j_n j_scope set_scope].
      rewrite S1, N1, B1. reflexivity. }
    unfold gres. rewrite E2.
    assert (H2 : shape st2 i g a sc (n + 1)) by (subst st2; destruct st1; cbn in *; repeat split; assumption).
    assert (Hmain : gres (jsln [CText t_var; CName g; CText t_eq_empty] ;;; jwalk o F (NList 0 (bnodes body)) ;;; jsc_bind name g ;;; jmod (set_buf bf)) st2
                         ((sp_ind i ++ [CText t_var; CName g; CText t_eq_empty] ++ [CText t_nl]) ++ (bprint i jb ++ []))
                         i bf a (jsc_bind_pure sc name g) n').
    { eapply gres_bind. apply gres_sln; exact H2. intros x1 Hx1.
      eapply gres_bind. apply (gen_nlist body F x1 jb n' i g a sc (n + 1) IHb ltac:(lia) Hx1 E1). intros x2 (I2 & B2 & A2 & S2 & N2).
      destruct sc as [|fr rs]; [congruence|].
      exists (set_buf bf (set_scope (aset fr name g :: rs) (j_n x2) x2)). split.
      - unfold jbind at 1. unfold jsc_bind. unfold jbind at 1. unfold jget. rewrite S2. reflexivity.
      - split; [destruct x2; reflexivity|]. destruct x2; cbn in *. repeat split; assumption. }
    destruct Hmain as (stf & E & O & R). exists stf. split; [exact E|]. split; [|exact R].
    rewrite O. subst st2. destruct st1; cbn. f_equal. f_equal. rewrite app_nil_r. rewrite <- !app_assoc. reflexivity.
  - (* if *) intros c th IHt rest IHr f st j sc' n' i bf a sc n Hf Hn Hs Eg. rewrite sgen_if in Eg.
    destruct (bgen a bf ([] :: sc) n th) as [jt n1] eqn:E1.
    destruct (egen a bf sc n1 rest) as [jr n2] eqn:E2. inversion Eg; subst. clear Eg.
    rewrite sdepth_if in Hf. destruct f as [|F]; [lia|]. rewrite snode_if, sprint_if.
    eapply gres_walk; [reflexivity|exact Hs|]. intros st1 H1. cbn [jwalk_node jif_conds].
    eapply gres_eq.
    + gbind x Hx. apply gres_indent; exact H1.
      gbind y Hy; [|apply gres_txt; exact Hy].
      gbind x0 H0. apply gres_ret; exact Hx.
      gbind x2 H2.
      { gbind z Hz. apply gres_txt; exact H0. gbind z2 Hz2. apply (gres_expr c F z); [lia|exact Hz]. apply gres_txt; exact Hz2. }
      eapply (gen_body_tail th F x2 jt n1); [exact IHt|lia|exact H2|exact E1|].
      intros y0 Hy0. apply (IHr F y0 jr n' i bf a sc' n1); [lia|exact Hn|exact Hy0|exact E2].
    + chunks_eq.
  - (* switch *) intros v cs IHk f st j sc' n' i bf a sc n Hf Hn Hs Eg. rewrite sgen_switch in Eg.
    destruct (kgen a bf sc n cs) as [jc n1] eqn:E1. inversion Eg; subst. clear Eg.
    rewrite sdepth_switch in Hf. destruct f as [|F]; [lia|]. rewrite snode_switch, sprint_switch.
    eapply gres_walk; [reflexivity|exact Hs|]. intros st1 H1. cbn [jwalk_node].
    eapply gres_eq.
    + gbind x1 Hx1. apply gres_indent; exact H1. gbind x2 Hx2. apply gres_txt; exact Hx1.
      gbind x3 Hx3. apply (gres_expr v F x2); [lia|exact Hx2]. gbind x4 Hx4. apply gres_emit; exact Hx3.
      gbind x5 Hx5. apply gres_inc; exact Hx4.
      gbind x6 Hx6. apply (IHk F x5 jc n' (S i) bf a sc' n); [lia|exact Hn|exact Hx5|exact E1].
      gbind x7 Hx7. apply gres_dec; exact Hx6. apply gres_sln; exact Hx7.
    + chunks_eq.
  - (* BNil *) intros f st jb n' i bf a sc n Hf Hn Hs Eg. rewrite bgen_nil in Eg. inversion Eg; subst.
    exists sc. split; [reflexivity|]. apply gres_ret; exact Hs.
  - (* BCons *) intros s IHs r IHr f st jb n' i bf a sc n Hf Hn Hs Eg. rewrite bgen_cons in Eg. rewrite bdepth_cons in Hf.
    destruct (sgen a bf sc n s) as [j [sc1 n1]] eqn:E1. destruct (bgen a bf sc1 n1 r) as [jr n2] eqn:E2. inversion Eg; subst. clear Eg.
    destruct (sgen_scope _ _ _ _ _ _ _ _ E1 Hn) as [Htl1 Hn1].
    rewrite bnodes_cons, bprint_cons. cbn [jwalk_list].
    assert (Hex : forall x, shape x i bf a sc1 n1 -> exists sc', tl sc' = tl sc1
                   /\ gres (jwalk_list (jwalk o f) (bnodes r)) x (bprint i jr) i bf a sc' n').
    { intros x Hx. apply (IHr f x jr n' i bf a sc1 n1); [lia|exact Hn1|exact Hx|exact E2]. }
    destruct (IHs f st j sc1 n1 i bf a sc n ltac:(lia) Hn Hs E1) as (x & Ex & Ox & Hx).
    destruct (Hex x Hx) as (sc' & Htl & (y & Ey & Oy & Hy)).
    exists sc'. split; [congruence|]. exists y. rewrite (jbind_ok _ _ _ _ _ Ex). split; [exact Ey|].
    split; [rewrite Oy, Ox, rev_app_distr, app_assoc; reflexivity|exact Hy].
  - (* ENone *) intros F st jl n' i bf a sc n Hf Hn Hs Eg. rewrite egen_none in Eg. inversion Eg; subst. cbn [enodes jif_conds lprint]. apply gres_ret; exact Hs.
  - (* EElse *) intros b IHb F st jl n' i bf a sc n Hf Hn Hs Eg. rewrite egen_else in Eg. rewrite edepth_else in Hf.
    destruct (bgen a bf ([] :: sc) n b) as [jb n1] eqn:E1. inversion Eg; subst. clear Eg.
    rewrite enodes_else, lprint_else. cbn [jif_conds]. eapply gres_eq.
    + gbind x1 H1. apply gres_txt; exact Hs. gbind x2 H2. apply gres_ret; exact H1.
      eapply (gen_body_tail b F x2 jb n'); [exact IHb|lia|exact H2|exact E1|]. intros y Hy. apply gres_ret; exact Hy.
    + chunks_eq.
  - (* EElif *) intros c th IHt rest IHr F st jl n' i bf a sc n Hf Hn Hs Eg. rewrite egen_elif in Eg. rewrite edepth_elif in Hf.
    destruct (bgen a bf ([] :: sc) n th) as [jt n1] eqn:E1. destruct (egen a bf sc n1 rest) as [jr n2] eqn:E2. inversion Eg; subst. clear Eg.
    rewrite enodes_elif, lprint_elif. cbn [jif_conds]. eapply gres_eq.
    + gbind x1 H1. apply gres_txt; exact Hs.
      gbind x2 H2.
      { gbind z Hz. apply gres_txt; exact H1. gbind z2 Hz2. apply (gres_expr c F z); [lia|exact Hz]. apply gres_txt; exact Hz2. }
      eapply (gen_body_tail th F x2 jt n1); [exact IHt|lia|exact H2|exact E1|].
      intros y Hy. apply (IHr F y jr n' i bf a sc n1); [lia|exact Hn|exact Hy|exact E2].
    + chunks_eq.
  - (* KNone *) intros F st jk n' i bf a sc n Hf Hn Hs Eg. rewrite kgen_none in Eg. inversion Eg; subst. cbn [knodes jswitch_cases kprint]. apply gres_ret; exact Hs.
  - (* KDefault *) intros b IHb F st jk n' i bf a sc n Hf Hn Hs Eg. rewrite kgen_default in Eg. rewrite kdepth_default in Hf.
    destruct (bgen a bf ([] :: sc) n b) as [jb n1] eqn:E1. inversion Eg; subst. clear Eg.
    rewrite knodes_default, kprint_default. cbn [jswitch_cases case_values]. eapply gres_eq.
    + gbind x1 H1. apply gres_ret; exact Hs. gbind x2 H2. apply gres_sln; exact H1.
      eapply (gen_case_body b F x2 jb n'); [exact IHb|lia|exact H2|exact E1|]. intros y Hy. apply gres_ret; exact Hy.
    + chunks_eq.
  - (* KCase *) intros v vs b IHb rest IHr F st jk n' i bf a sc n Hf Hn Hs Eg. rewrite kgen_case in Eg. rewrite kdepth_case in Hf.
    destruct (bgen a bf ([] :: sc) n b) as [jb n1] eqn:E1. destruct (kgen a bf sc n1 rest) as [jr n2] eqn:E2. inversion Eg; subst. clear Eg.
    rewrite knodes_case, kprint_case. cbn [jswitch_cases].
    change (cnode v :: map cnode vs) with (map cnode (v :: vs)). change (cgen sc v :: map (cgen sc) vs) with (map (cgen sc) (v :: vs)).
    eapply gres_eq.
    + gbind x1 H1. apply (gen_case_values F (v :: vs)); [|exact Hs].
      { intros x [<-|Hx]; [lia|]. pose proof (cdepths_le x vs Hx). lia. }
      gbind x2 H2. cbn [map]. apply gres_ret; exact H1.
      eapply (gen_case_body b F x2 jb n1); [exact IHb|lia|exact H2|exact E1|].
      intros y Hy. apply (IHr F y jr n' i bf a sc n1); [lia|exact Hn|exact Hy|exact E2].
    + chunks_eq.
Qed.
End StmtChunks.

(* ================================================================== *)
(* gen_correct_partial_stmt: the three sides together, as one simulation step.

   [sim] relates a state of the Go renderer's model, a JavaScript environment and a state of the generator:
   the writer does not fail, the scope stack is not empty, every Soy variable is where the generator's scope says
   it is (env_rel), the generated names in scope and the buffer variable carry counters up to the generator's
   counter and the buffer variable is none of them (ginv), the buffer variable holds the text written so far,
   and the generator's autoescape mode is the renderer's.

   For a statement s of the subset (raw text, print, let, if / elseif / else, switch; nested blocks) with
   [sout s = Some (text, env')]:
   (Go)  the walker of Model/Interp.v writes exactly text; a variable looked up afterwards has the value env' gives;
   (JS)  executing the MiniJS statement [sgen ..] appends exactly text to the buffer variable;
   (Gen) walking the node in Model/JsGen.v emits exactly the chunks of that MiniJS statement;
   and the three resulting states are related by [sim] again (with the longer buffer text), so the theorem applies
   to the next statement. *)
Definition sim (cf : cfg) (st : mstate) (je : jenv) (jst : jstate) (old : bstr) : Prop :=
  wok st /\ ctx st <> []
  /\ env_rel (j_scope jst) (c_ij cf) (sc_lookup (ctx st)) je
  /\ ginv (j_scope jst) (j_n jst) (j_buf jst)
  /\ assoc_s (j_buf jst) (je_vars je) = Some (JStr old)
  /\ j_auto jst = mode st.

Lemma env_rel_ext sc ij env1 env2 je : (forall k, env1 k = env2 k) -> env_rel sc ij env1 je -> env_rel sc ij env2 je.
Proof.
  intros H [Ev Ei Ec Eci]. constructor; auto.
  - intros key Hk. specialize (Ev key Hk). unfold env_val in *. rewrite <- H. exact Ev.
  - intro key. specialize (Ec key). unfold env_val in *. rewrite <- H. exact Ec.
Qed.

Definition sim_step (cf : cfg) (o : jopts) (st : mstate) (je : jenv) (jst : jstate) (s : cstmt) (fuel : nat)
                    (text : bstr) (env' : bstr -> option value) (old : bstr) : Prop :=
  exists st' ws rv je' jst',
    let j := fst (sgen (mode st) (j_buf jst) (j_scope jst) (j_n jst) s) in
    (* Go *)  walk cf fuel (snode s) st = (Ok rv, st') /\ wrote st st' ws /\ concat_b ws = text
              /\ mode st' = mode st /\ tl (ctx st') = tl (ctx st) /\ (forall k, sc_lookup (ctx st') k = env' k)
    (* JS *)  /\ js_exec je j = Ok je' /\ je_data je' = je_data je
    (* Gen *) /\ jwalk o fuel (snode s) jst = Ok (tt, jst') /\ j_out jst' = rev (sprint (j_indent jst) j) ++ j_out jst
              /\ j_indent jst' = j_indent jst /\ j_buf jst' = j_buf jst /\ tl (j_scope jst') = tl (j_scope jst)
    /\ sim cf st' je' jst' (old ++ text).

Theorem gen_correct_partial_stmt cf o st je jst s fuel text env' old :
  c_oblig cf = [] -> (sdepth s < fuel)%nat -> sim cf st je jst old ->
  sout (c_ij cf) (mode st) go_print_text (sc_lookup (ctx st)) s = Some (text, env') ->
  sim_step cf o st je jst s fuel text env' old.
Proof.
  intros Hob Hf (Hg & Hn & ER & G & Hbuf & Hmode) E. unfold sim_step.
  destruct (sgen (mode st) (j_buf jst) (j_scope jst) (j_n jst) s) as [j [sc' n']] eqn:Eg. cbn [fst].
  assert (Hc : envok (sc_lookup (ctx st))).
  { intros k x Hk. pose proof (er_core _ _ _ _ ER k) as H. unfold env_val in H. rewrite Hk in H. exact H. }
  assert (Hij : forall x, c_ij cf = Some x -> core_value x = true) by (intros x Hx; exact (er_core_ij _ _ _ _ ER x Hx)).
  (* Go *)
  destruct (proj1 (interp_all cf Hob Hij) s fuel st text (sc_lookup (ctx st)) env' Hf Hg Hn (fun k => eq_refl) Hc E)
    as (st' & ws & rv & E1 & W1 & C1 & M1 & N1 & T1 & A1).
  (* JS *)
  destruct (proj1 (js_exec_all (c_ij cf) (mode st)) s (j_buf jst) (j_scope jst) (j_n jst) (sc_lookup (ctx st)) je old text env' j sc' n' G E (conj ER Hbuf) Eg)
    as (je' & E2 & (ER' & Hbuf') & (D2 & F2)).
  (* Gen *)
  destruct (proj1 (sgen_print_all o) s fuel jst j sc' n' (j_indent jst) (j_buf jst) (j_auto jst) (j_scope jst) (j_n jst) Hf (gi_nonempty _ _ _ G)
              (shape_refl jst)) as (jst' & E3 & O3 & I3 & B3 & A3 & S3 & N3). { rewrite Hmode. exact Eg. }
  destruct (sgen_scope _ _ _ _ _ _ _ _ Eg (gi_nonempty _ _ _ G)) as [Htl _].
  assert (ER2 : env_rel (j_scope jst') (c_ij cf) (sc_lookup (ctx st')) je').
  { rewrite S3. eapply env_rel_ext; [|exact ER']. intro k. symmetry. apply A1. }
  assert (G2 : ginv (j_scope jst') (j_n jst') (j_buf jst')).
  { rewrite S3, N3, B3. apply (ginv_after _ _ _ _ _ _ _ _ Eg G). }
  exists st', ws, rv, je', jst'.
  split; [exact E1|]. split; [exact W1|]. split; [exact C1|]. split; [exact M1|]. split; [exact T1|]. split; [exact A1|].
  split; [exact E2|]. split; [exact D2|]. split; [exact E3|]. split; [exact O3|]. split; [exact I3|]. split; [exact B3|].
  split; [rewrite S3; exact Htl|].
  unfold sim. split; [exact (wrote_wok _ _ _ W1 Hg)|]. split; [exact N1|]. split; [exact ER2|]. split; [exact G2|]. split; [rewrite B3; exact Hbuf'|congruence].
Qed.

(* the stages by name *)
Theorem gen_correct_partial_if cf o st je jst c th rest fuel text env' old :
  c_oblig cf = [] -> (sdepth (SIf c th rest) < fuel)%nat -> sim cf st je jst old ->
  sout (c_ij cf) (mode st) go_print_text (sc_lookup (ctx st)) (SIf c th rest) = Some (text, env') ->
  sim_step cf o st je jst (SIf c th rest) fuel text env' old.
Proof. apply gen_correct_partial_stmt. Qed.
Theorem gen_correct_partial_let cf o st je jst name e fuel text env' old :
  c_oblig cf = [] -> (sdepth (SLet name e) < fuel)%nat -> sim cf st je jst old ->
  sout (c_ij cf) (mode st) go_print_text (sc_lookup (ctx st)) (SLet name e) = Some (text, env') ->
  sim_step cf o st je jst (SLet name e) fuel text env' old.
Proof. apply gen_correct_partial_stmt. Qed.
Theorem gen_correct_partial_let_content cf o st je jst name body fuel text env' old :
  c_oblig cf = [] -> (sdepth (SLetC name body) < fuel)%nat -> sim cf st je jst old ->
  sout (c_ij cf) (mode st) go_print_text (sc_lookup (ctx st)) (SLetC name body) = Some (text, env') ->
  sim_step cf o st je jst (SLetC name body) fuel text env' old.
Proof. apply gen_correct_partial_stmt. Qed.
Theorem gen_correct_partial_switch cf o st je jst v cs fuel text env' old :
  c_oblig cf = [] -> (sdepth (SSwitch v cs) < fuel)%nat -> sim cf st je jst old ->
  sout (c_ij cf) (mode st) go_print_text (sc_lookup (ctx st)) (SSwitch v cs) = Some (text, env') ->
  sim_step cf o st je jst (SSwitch v cs) fuel text env' old.
Proof. apply gen_correct_partial_stmt. Qed.

(* the general statement with sim and sim_step unfolded, for a renderer that writes to its output (no capture
   buffer, no budget), as stated in Properties/C04.v *)
Theorem gen_correct_partial_stmt_unfolded : forall cf o st je jst s fuel text env' old,
  c_oblig cf = [] -> (sdepth s < fuel)%nat ->
  (* sim cf st je jst old *)
  bufs st = [] -> calls_left st = None -> bytes_left st = None -> ctx st <> [] ->
  env_rel (j_scope jst) (c_ij cf) (sc_lookup (ctx st)) je ->
  ginv (j_scope jst) (j_n jst) (j_buf jst) ->
  assoc_s (j_buf jst) (je_vars je) = Some (JStr old) ->
  j_auto jst = mode st ->
  sout (c_ij cf) (mode st) go_print_text (sc_lookup (ctx st)) s = Some (text, env') ->
  exists st' ws rv je' jst',
    let j := fst (sgen (mode st) (j_buf jst) (j_scope jst) (j_n jst) s) in
    walk cf fuel (snode s) st = (Ok rv, st') /\ out st' = rev ws ++ out st /\ concat_b ws = text
    /\ mode st' = mode st /\ tl (ctx st') = tl (ctx st) /\ (forall k, sc_lookup (ctx st') k = env' k)
    /\ js_exec je j = Ok je' /\ je_data je' = je_data je
    /\ jwalk o fuel (snode s) jst = Ok (tt, jst') /\ j_out jst' = rev (sprint (j_indent jst) j) ++ j_out jst
    /\ j_indent jst' = j_indent jst /\ j_buf jst' = j_buf jst /\ tl (j_scope jst') = tl (j_scope jst)
    (* sim cf st' je' jst' (old ++ text) *)
    /\ bufs st' = [] /\ calls_left st' = None /\ bytes_left st' = None /\ ctx st' <> []
    /\ env_rel (j_scope jst') (c_ij cf) (sc_lookup (ctx st')) je'
    /\ ginv (j_scope jst') (j_n jst') (j_buf jst')
    /\ assoc_s (j_buf jst') (je_vars je') = Some (JStr (old ++ text))
    /\ j_auto jst' = mode st'.
Proof.
  intros cf o st je jst s fuel text env' old Hob Hf H1 H2 H3 H4 H5 H6 H7 H8 E.
  assert (W : wok st) by (unfold wok; rewrite H1; auto).
  destruct (gen_correct_partial_stmt cf o st je jst s fuel text env' old Hob Hf (conj W (conj H4 (conj H5 (conj H6 (conj H7 H8))))) E)
    as (st' & ws & rv & je' & jst' & A1 & A2 & A3 & A4 & A5 & A6 & A7 & A8 & A9 & A10 & A11 & A12 & A13 & (B1 & B4 & B5 & B6 & B7 & B8)).
  destruct (wrote_out _ _ _ H1 A2) as [Hb Ho]. destruct A2 as (Hcl & Hby & _).
  exists st', ws, rv, je', jst'. cbn zeta in *.
  split; [exact A1|]. split; [exact Ho|]. split; [exact A3|]. split; [exact A4|]. split; [exact A5|]. split; [exact A6|].
  split; [exact A7|]. split; [exact A8|]. split; [exact A9|]. split; [exact A10|]. split; [exact A11|]. split; [exact A12|]. split; [exact A13|].
  split; [exact Hb|]. split; [congruence|]. split; [congruence|]. split; [exact B4|]. split; [exact B5|]. split; [exact B6|]. split; [exact B7|exact B8].
Qed.

(* names without an underscore are never generated names *)
Lemma bounded_no_us n g : ~ In 95 g -> bounded n g.
Proof. intros H v m E. exfalso. apply H. rewrite E. unfold jsc_name. apply in_or_app. right. left. reflexivity. Qed.
Lemma bounded_name n v m : m <= n -> bounded n (jsc_name v m).
Proof. intros H v' m' E. apply jsc_name_inj in E. lia. Qed.

(* the JavaScript side for one statement, with jinv and frame unfolded *)
Theorem js_exec_stmt : forall ij mode buf s sc n env je old text env' j sc' n',
  ginv sc n buf -> sout ij mode go_print_text env s = Some (text, env') ->
  env_rel sc ij env je -> assoc_s buf (je_vars je) = Some (JStr old) ->
  sgen mode buf sc n s = (j, (sc', n')) ->
  exists je', js_exec je j = Ok je'
    /\ (env_rel sc' ij env' je' /\ assoc_s buf (je_vars je') = Some (JStr (old ++ text)))
    /\ (je_data je' = je_data je
        /\ forall g, bounded n g -> bstr_eqb g buf = false -> assoc_s g (je_vars je') = assoc_s g (je_vars je)).
Proof.
  intros ij mode buf s sc n env je old text env' j sc' n' G E ER Hb Eg.
  exact (proj1 (js_exec_all ij mode) s buf sc n env je old text env' j sc' n' G E (conj ER Hb) Eg).
Qed.
