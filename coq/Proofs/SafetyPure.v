(* C06, part 1: the pure helpers the walker lifts (arith, compare_op,
   value_string, print_writes, apply_func) never crash, never diverge and never
   run out of their own fuel; [Crash e_unknown] of apply_func is unreachable
   for the names of the regenerated function table (a finite check on
   Generated.Tables.html_funcs, re-run whenever the table changes). *)
From Coq Require Import Lia ZifyN ZifyBool.
From Soy Require Import Model.Bytes Model.Num Model.Values Model.Outcome Model.Ast
  Model.Escape Model.Directives Model.Print Generated.Tables Model.Interp
  Proofs.ValueProofs Proofs.CodecProofs.
Open Scope N_scope.

(* no crash, no divergence *)
Definition nc {A} (o : outcome A) : Prop :=
  match o with Crash _ | Diverge => False | _ => True end.
(* ... and the helper's own fuel sufficed *)
Definition nf {A} (o : outcome A) : Prop :=
  match o with Crash _ | Diverge | OutOfFuel => False | _ => True end.

Lemma nf_nc {A} (o : outcome A) : nf o -> nc o.
Proof. destruct o; cbn; tauto. Qed.
Lemma nf_ok {A} (x : A) : nf (Ok x). Proof. exact I. Qed.
Lemma nf_err {A} m : nf (@Err A m). Proof. exact I. Qed.
Lemma nf_oom {A} : nf (@OutOfModel A). Proof. exact I. Qed.
Lemma nf_bind {A B} (x : outcome A) (f : A -> outcome B) :
  nf x -> (forall v, nf (f v)) -> nf (bind x f).
Proof. destruct x; cbn; try tauto. intros _ H. apply H. Qed.
#[global] Hint Resolve nf_ok nf_err nf_oom : nf.

(* ------------------------------------------------------------------ *)
(* value_string *)

Lemma nf_list_items f l : (forall x, In x l -> nf (to_string f x)) -> nf (list_items f l).
Proof.
  induction l as [|x l IH]; intros H; [exact I|].
  rewrite list_items_cons. apply nf_bind; [apply H; left; reflexivity|]. intros s.
  apply nf_bind; [apply IH; intros y Hy; apply H; right; exact Hy|]. intros rs. exact I.
Qed.
Lemma nf_map_items f m : (forall kx, In kx m -> nf (to_string f (snd kx))) -> nf (map_items f m).
Proof.
  induction m as [|[k x] m IH]; intros H; [exact I|].
  rewrite map_items_cons. apply nf_bind.
  - unfold entry_string. destruct x; try exact I; apply (H (k, _)); left; reflexivity.
  - intros s. apply nf_bind; [apply IH; intros y Hy; apply H; right; exact Hy|]. intros rs. exact I.
Qed.

Lemma nf_to_string : forall f v, (depth v < f)%nat -> nf (to_string f v).
Proof.
  induction f as [|f IH]; intros v Hd; [lia|].
  destruct v as [| |x|z|x|t|i l|i m]; try exact I.
  - destruct x; exact I.
  - cbn [to_string]. destruct (fl_to_string x); exact I.
  - rewrite to_string_list. apply nf_bind; [|intros; exact I].
    apply nf_list_items. intros x Hx. apply IH.
    pose proof (fold_max_le depth x l Hx). cbn [depth] in Hd. lia.
  - rewrite to_string_map. apply nf_bind; [|intros; exact I].
    apply nf_map_items. intros kx Hx. apply IH.
    pose proof (fold_max_le (fun kx => depth (snd kx)) kx m Hx). cbn [depth] in Hd. lia.
Qed.

Theorem nf_value_string v : nf (value_string v).
Proof. unfold value_string. apply nf_to_string. lia. Qed.

(* ------------------------------------------------------------------ *)
(* arithmetic and comparisons *)

Lemma nf_to_float v : nf (to_float v).
Proof. destruct v; cbn; try exact I. destruct (fl_of_int z); exact I. Qed.
Lemma nf_of_fl o : nf (of_fl o).
Proof. destruct o; exact I. Qed.
Lemma nf_float_op f a c : nf (float_op f a c).
Proof.
  unfold float_op. apply nf_bind; [apply nf_to_float|]. intros x.
  apply nf_bind; [apply nf_to_float|]. intros y. apply nf_of_fl.
Qed.


Theorem nf_arith op a c : nf (arith op a c).
Proof.
  destruct op; cbn [arith]; try exact I; try apply nf_float_op.
  - (* OMul *) destruct a; try apply nf_float_op. destruct c; try apply nf_float_op. exact I.
  - (* OMod *) destruct a as [| |?|x|?|?|? ?|? ?], c as [| |?|y|?|?|? ?|? ?]; try exact I.
    destruct (y =? 0)%Z; exact I.
  - (* OAdd *)
    assert (Hs : nf (if is_str a || is_str c
                     then s1 <- value_string a;; s2 <- value_string c;; Ok (VStr (s1 ++ s2))
                     else float_op fl_add_r a c)).
    { destruct (is_str a || is_str c); [|apply nf_float_op].
      apply nf_bind; [apply nf_value_string|]. intros s1.
      apply nf_bind; [apply nf_value_string|]. intros s2. exact I. }
    destruct a; try exact Hs. destruct c; try exact Hs. exact I.
  - (* OSub *) destruct a; try apply nf_float_op. destruct c; try apply nf_float_op. exact I.
Qed.

Theorem nf_compare op a c : nf (compare_op op a c).
Proof.
  unfold compare_op. apply nf_bind; [apply nf_to_float|]. intros x.
  apply nf_bind; [apply nf_to_float|]. intros y. exact I.
Qed.

(* ------------------------------------------------------------------ *)
(* print directives *)

Lemma nf_truncate s n e : nf (truncate s n e).
Proof.
  destruct (Z_lt_le_dec n (Z.of_nat (length s))) as [Hlt|Hge].
  - destruct (truncate_total s n e Hlt) as [[out ->]|[m ->]]; exact I.
  - rewrite truncate_fits by exact Hge. exact I.
Qed.

Lemma nf_apply_fn fn args s : nf (apply_fn fn args s).
Proof.
  unfold apply_fn.
  destruct (Directives.fn_is fn fn_NoAutoescape); [exact I|].
  destruct (Directives.fn_is fn fn_EscapeHtml); [exact I|].
  destruct (Directives.fn_is fn fn_ChangeNewlineToBr); [exact I|].
  destruct (Directives.fn_is fn fn_EscapeUri); [exact I|].
  destruct (Directives.fn_is fn fn_InsertWordBreaks).
  { destruct args as [|[] ?]; exact I. }
  destruct (Directives.fn_is fn fn_Truncate); [|exact I].
  destruct args as [|[n| |] [|a2 [|a3 r]]]; try exact I.
  - apply nf_truncate.
  - destruct a2; try apply nf_truncate; destruct (Z.of_nat (length s) <=? n)%Z; exact I.
  - destruct a2; exact I.
Qed.

Lemma nf_apply_directives dirs : forall s esc, nf (apply_directives dirs s esc).
Proof.
  induction dirs as [|[name args] rest IH]; intros s esc; cbn [apply_directives]; [exact I|].
  destruct (lookup_directive name) as [[arglens [cancel [nilapply fn]]]|]; [|exact I].
  destruct (negb _); [exact I|]. destruct nilapply; [exact I|].
  apply nf_bind; [apply nf_apply_fn|]. intros s'. apply IH.
Qed.

Theorem nf_print_writes mode dirs s : nf (print_writes mode dirs s).
Proof.
  unfold print_writes. apply nf_bind; [apply nf_apply_directives|]. intros [s' esc]. exact I.
Qed.

(* ------------------------------------------------------------------ *)
(* functions: the table only holds names apply_func knows *)

Definition known_func (name : bstr) : bool :=
  Interp.fn_is name n_isNonnull || Interp.fn_is name n_length || Interp.fn_is name n_keys
  || Interp.fn_is name n_augmentMap || Interp.fn_is name n_round || Interp.fn_is name n_floor
  || Interp.fn_is name n_ceiling || Interp.fn_is name n_min || Interp.fn_is name n_max
  || Interp.fn_is name n_randomInt || Interp.fn_is name n_strContains || Interp.fn_is name n_range
  || Interp.fn_is name n_hasData.

(* the finite check on the regenerated table *)
Lemma html_funcs_known : forallb (fun p => known_func (fst p)) html_funcs = true.
Proof. vm_compute. reflexivity. Qed.

Lemma assoc_s_in {A} k (l : list (bstr * A)) v : assoc_s k l = Some v -> In (k, v) l.
Proof.
  induction l as [|[k' v'] l IH]; cbn [assoc_s]; [discriminate|].
  destruct (bstr_eqb_spec k k') as [->|Hne]; [intros H; injection H as ->; left; reflexivity | right; auto].
Qed.

Lemma func_arities_known name ar : func_arities name = Some ar -> known_func name = true.
Proof.
  unfold func_arities. intros H. apply assoc_s_in in H.
  pose proof html_funcs_known as Hk. rewrite forallb_forall in Hk. apply (Hk _ H).
Qed.

Lemma nf_round_core x :
  nf (match fl_add x (if fl_isneg x && negb (fl_is_zero x) then fl_neg half else half) with
      | Some y => match fl_trunc_Z y with Some z => Ok (FVal (VInt (wrap64 z))) | None => OutOfModel end
      | None => @OutOfModel fres
      end).
Proof. destruct (fl_add _ _); [|exact I]. destruct (fl_trunc_Z _); exact I. Qed.

(* goals [nf (match .. end)] over argument lists: split the scrutinee until a leaf is reached *)
Ltac nf_leaf :=
  first [ exact I | apply nf_round_core | apply nf_of_fl
        | apply nf_bind; [apply nf_to_float | intros ?]
        | apply nf_bind; [apply nf_of_fl | intros ?] ].
Ltac nf_split :=
  repeat first [ nf_leaf
               | match goal with |- nf (match ?x with _ => _ end) => destruct x end
               | match goal with |- nf (if ?x then _ else _) => destruct x end ].

Theorem nf_apply_func name vs : known_func name = true -> nf (apply_func name vs).
Proof.
  intros Hk. unfold apply_func. unfold known_func in Hk.
  destruct (Interp.fn_is name n_isNonnull); [nf_split|].
  destruct (Interp.fn_is name n_length); [nf_split|].
  destruct (Interp.fn_is name n_keys); [nf_split|].
  destruct (Interp.fn_is name n_augmentMap); [nf_split|].
  destruct (Interp.fn_is name n_round); [nf_split|].
  destruct (Interp.fn_is name n_floor); [nf_split|].
  destruct (Interp.fn_is name n_ceiling); [nf_split|].
  destruct (Interp.fn_is name n_min); [nf_split|].
  destruct (Interp.fn_is name n_max); [nf_split|].
  destruct (Interp.fn_is name n_randomInt); [nf_split|].
  destruct (Interp.fn_is name n_strContains); [nf_split|].
  destruct (Interp.fn_is name n_range); [nf_split|].
  destruct (Interp.fn_is name n_hasData); [exact I|].
  cbn in Hk. discriminate.
Qed.

Theorem nf_apply_func_table name ar vs : func_arities name = Some ar -> nf (apply_func name vs).
Proof. intros H. apply nf_apply_func. eapply func_arities_known; eauto. Qed.
