(* C14, token grammar: every expression node of an accepted file is written as
   an expression of Spec/JsSyntax.v. *)
From Soy Require Import Model.Bytes Model.Num Model.Values Model.Outcome Model.Ast Model.JsGen Generated.Tables
  Spec.JsSyntax Spec.JsShape.
From Soy Require Import Proofs.JsWfSplitBase Proofs.JsWfSplitNum Proofs.JsWfSplit Proofs.JsWfTail Proofs.JsWfLeaf.
From Soy Require Import Proofs.JsWfBase Proofs.JsWfFrame Proofs.JsWfMonad.
From Coq Require Import ZifyBool ZifyNat ZifyN Lia.
Open Scope N_scope.
#[local] Arguments assoc_s {A} k l : simpl never.

Lemma text_okb_tail t ts m : text_okb t ts m = true -> tail_ok t ts m.
Proof. destruct t; [intros _; exact I|exact id]. Qed.
Ltac tail_solve := first [ exact I | reflexivity | (vm_compute; reflexivity) ].
Lemma emits_cons0 md c b m s m1 s1 m2 s2 :
  emits md [c] m s m1 s1 [] -> emits md b m1 s1 m2 s2 [] -> emits md (c :: b) m s m2 s2 [].
Proof. intros A B. exact (emits_cons md c b _ _ _ _ [] _ _ [] A B). Qed.

Ltac use_name :=
  repeat match goal with
         | H : name_ok ?g |- context [lex_name ?g] => rewrite (H : lex_name g = Some [TId g])
         | H : iname_ok ?g |- context [lex_name ?g] => rewrite (H : lex_name g = Some [tok_of_ident g])
         end.
(* one chunk whose tokens are known: a closed text, a string literal, a name with a hypothesis *)
Ltac esingle :=
  eapply emits_toks1;
  [ first [ (cbn [lex_chunk]; use_name; reflexivity) | (vm_compute; reflexivity) ]
  | first [ reflexivity | (cbn; reflexivity) ]
  | tail_solve ].
Ltac echain :=
  lazymatch goal with
  | |- emits _ [] _ _ _ _ _ => apply emits_nil
  | |- emits _ (_ :: _) _ _ _ _ _ => eapply emits_cons0; [ esingle | echain ]
  | |- emits _ (_ ++ _) _ _ _ _ _ => eapply emits_app0; [ first [ eassumption | esub ] | echain ]
  | |- _ => first [ eassumption | esub ]
  end
with esub :=
  match goal with
  | H : exprC _ ?cs _ |- emits _ ?cs _ _ _ _ _ => apply H
  | H : forall cl s, emits _ ?cs (MWant cl) s _ _ _ |- emits _ ?cs _ _ _ _ _ => apply H
  end.

(* a chunk whose only token is an identifier token (keyword or not) steps over '.' / object keys *)
Lemma tok_of_ident_cases s : (exists k, tok_of_ident s = TKw k s) \/ tok_of_ident s = TId s.
Proof. unfold tok_of_ident. destruct (assoc_s s kw_table); eauto. Qed.

Lemma dec_digits_all n : forallb is_digit (dec_of_N n) = true.
Proof.
  unfold dec_of_N. generalize (S (N.to_nat (N.log2 n))) as f. intro f.
  assert (G : forall f n acc, forallb is_digit acc = true -> forallb is_digit (dec_digits f n acc) = true).
  { clear. induction f as [|f IH]; intros n acc Ha; cbn [dec_digits]; [exact Ha|].
    assert (Hd : is_digit (48 + n mod 10) = true).
    { unfold is_digit. pose proof (N.mod_upper_bound n 10 ltac:(discriminate)). apply andb_true_intro. split; apply N.leb_le; lia. }
    destruct (n / 10 =? 0); [cbn [forallb]; rewrite Hd, Ha; reflexivity|]. apply IH. cbn [forallb]. rewrite Hd, Ha. reflexivity. }
  apply G. reflexivity.
Qed.
Lemma dec_nonempty n : dec_of_N n <> [].
Proof.
  unfold dec_of_N. cbn [dec_digits]. destruct (n / 10 =? 0); [discriminate|].
  generalize (N.to_nat (N.log2 n)) as f. intros f.
  assert (G : forall f n acc, acc <> [] -> dec_digits f n acc <> []).
  { clear. induction f as [|f IH]; intros n acc Ha; cbn [dec_digits]; [exact Ha|]. destruct (n / 10 =? 0); [discriminate|]. apply IH. discriminate. }
  apply G. discriminate.
Qed.

(* ---- numbers ---- *)
From Soy Require Import Proofs.LexTokens Proofs.LexNumbers Proofs.LexPrintMain.
Open Scope N_scope.

Lemma span_all p ds : forallb p ds = true -> JsSyntax.span p ds = List.length ds.
Proof. induction ds as [|c ds IH]; cbn; [reflexivity|]. intro H. apply andb_prop in H. destruct H as [H1 H2]. rewrite H1, IH by exact H2. reflexivity. Qed.
Lemma drop_all (ds : bstr) : drop (List.length ds) ds = [].
Proof. induction ds as [|c ds IH]; cbn; auto. Qed.

Lemma num_span_digits d ds : forallb is_digit (d :: ds) = true -> (d <> 48 \/ ds = []) -> num_span (d :: ds) = Some (List.length (d :: ds)).
Proof.
  intros Hd Hlead. unfold num_span. rewrite (span_all _ _ Hd). rewrite drop_all.
  assert (Hl : match d :: ds with 48 :: d0 :: _ => negb (is_digit d0) | _ => true end = true).
  { destruct Hlead as [Hn| ->].
    - destruct d as [|p]; [reflexivity|]. repeat (destruct p as [p|p|]; try reflexivity). exfalso. apply Hn. reflexivity.
    - destruct d as [|p]; [reflexivity|]. repeat (destruct p as [p|p|]; try reflexivity). }
  rewrite Hl. reflexivity.
Qed.

Lemma all_digits_forallb ds : all_digits ds -> forallb is_digit ds = true.
Proof. unfold all_digits. induction 1 as [|c ds Hc _ IH]; cbn; [reflexivity|]. change (is_digit c) with (digit_b c). rewrite Hc. exact IH. Qed.

Lemma unsigned_pos p : unsigned_num_ok (dec_of_N (Npos p)) = true /\ is_int_text (dec_of_N (Npos p)) = true
  /\ exists d ds, dec_of_N (Npos p) = d :: ds /\ d <> 45.
Proof.
  destruct (dec_of_N_shape p) as (d & ds & E & Hd & Hnz). rewrite E. apply all_digits_forallb in Hd. split; [|split; [exact Hd|]].
  - unfold unsigned_num_ok. rewrite num_span_digits by auto. rewrite Nat.eqb_refl. cbn [forallb] in Hd. apply andb_prop in Hd. destruct Hd as [H1 _]. rewrite H1. reflexivity.
  - exists d, ds. split; [reflexivity|]. cbn [forallb] in Hd. apply andb_prop in Hd. destruct Hd as [H1 _]. intro; subst. vm_compute in H1. discriminate.
Qed.
Lemma lex_num_pos p : lex_num (dec_of_N (Npos p)) = Some [TNum (dec_of_N (Npos p))] /\ is_int_text (dec_of_N (Npos p)) = true.
Proof.
  destruct (unsigned_pos p) as (Hu & Hi & d & ds & E & Hm). split; [|exact Hi]. unfold lex_num. rewrite Hu. rewrite E.
  destruct d as [|q]; [reflexivity|]. repeat (destruct q as [q|q|]; try reflexivity). exfalso. apply Hm. reflexivity.
Qed.

Lemma lex_num_N n : lex_num (dec_of_N n) = Some [TNum (dec_of_N n)] /\ is_int_text (dec_of_N n) = true.
Proof. destruct n as [|p]; [split; reflexivity|apply lex_num_pos]. Qed.

Section Num.
Variable md : bool.
Lemma run_num x cl s : js_run md [TNum x] (MWant cl) s = Some (MHave (is_int_text x), s, []).
Proof. reflexivity. Qed.
Lemma run_neg_num x cl s : js_run md [TP PMinus; TNum x] (MWant cl) s = Some (MHave (is_int_text x), s, []).
Proof. reflexivity. Qed.
Lemma dec_tail n ts : tail_ok (dec_of_N n) ts (MHave true).
Proof.
  pose proof (dec_nonempty n) as Hn. pose proof (dec_digits_all n) as Hd. destruct (dec_of_N n) as [|c r] eqn:E; [congruence|].
  unfold tail_ok. apply tail_okb_word; [apply digit_ident; apply last_forallb; [discriminate|exact Hd]|reflexivity|intros; reflexivity].
Qed.
Lemma neg_dec_tail n ts : tail_ok (45 :: dec_of_N n) ts (MHave true).
Proof.
  pose proof (dec_nonempty n) as Hn. pose proof (dec_digits_all n) as Hd.
  unfold tail_ok. rewrite last_cons_ne by exact Hn. apply tail_okb_word; [apply digit_ident; apply last_forallb; assumption|reflexivity|intros; reflexivity].
Qed.
Lemma emits_num_Z z cl s : emits md [CNum (dec_of_Z z)] (MWant cl) s (MHave true) s [].
Proof.
  destruct z as [|p|p]; cbn [dec_of_Z].
  - eapply emits_toks1; [vm_compute; reflexivity|reflexivity|tail_solve].
  - destruct (lex_num_pos p) as [L I]. eapply emits_toks1; [cbn [lex_chunk]; rewrite L; reflexivity| |apply dec_tail]. rewrite run_num, I. reflexivity.
  - destruct (lex_num_pos p) as [L I]. eapply emits_toks1.
    + cbn [lex_chunk lex_num]. destruct (unsigned_pos p) as (Hu & _). rewrite Hu. reflexivity.
    + rewrite run_neg_num, I. reflexivity.
    + apply neg_dec_tail.
Qed.
Lemma emits_num_N n cl s : emits md [CNum (dec_of_N n)] (MWant cl) s (MHave true) s [].
Proof.
  destruct (lex_num_N n) as [L I]. eapply emits_toks1; [cbn [lex_chunk]; rewrite L; reflexivity| |apply dec_tail]. rewrite run_num, I. reflexivity.
Qed.
End Num.

(* ---- decomposition of a run of the generator ---- *)
Ltac jinv H :=
  lazymatch type of H with
  | jbind _ _ _ = Ok _ =>
      let x := fresh "x" in let s := fresh "st" in let H1 := fresh "H" in let H2 := fresh "H" in
      apply bind_inv in H; destruct H as (x & s & H1 & H2); jinv H1; cbv beta zeta in H2; jinv H2
  | jret _ _ = Ok _ => apply ret_inv in H; destruct H as [? ?]; subst
  | jget _ = Ok _ => apply get_inv in H; destruct H as [? ?]; subst
  | jmod _ _ = Ok _ => apply mod_inv in H; subst
  | jemit _ _ = Ok _ => apply emit_inv in H; subst
  | jtxt _ _ = Ok _ => apply txt_inv in H; subst
  | jindent _ = Ok _ => apply indent_inv in H; subst
  | jsln _ _ = Ok _ => apply jsln_inv in H; subst
  | bufname _ = Ok _ => apply bufname_inv in H; destruct H as [? ?]; subst
  | jfail _ _ = Ok _ => discriminate H
  | _ => idtac
  end.

Ltac proj := cbn [j_out j_indent j_buf j_scope j_n j_auto j_cur j_called j_infile upd_out set_indent set_buf set_scope set_auto jset_cur set_called set_infile] in *.

Lemma ext_upd a x c cs : ext a x cs -> ext a (upd_out (fun o => rev_append c o) x) (cs ++ c).
Proof. intro H. eapply ext_step; [exact H|reflexivity]. Qed.
Lemma ext_w1 a x cs (f : jstate -> jstate) : (forall y, j_out (f y) = j_out y) -> ext a x cs -> ext a (f x) cs.
Proof. intros Hf H. eapply ext_same; [exact H|apply Hf]. Qed.
Ltac ext_build :=
  lazymatch goal with
  | |- ext ?a ?a _ => apply ext_refl; reflexivity
  | |- ext ?a (upd_out _ ?x) _ => eapply ext_upd; ext_build
  | |- ext ?a (set_indent ?n ?x) _ => apply (ext_w1 a x _ (set_indent n)); [reflexivity|ext_build]
  | |- ext ?a (set_buf ?n ?x) _ => apply (ext_w1 a x _ (set_buf n)); [reflexivity|ext_build]
  | |- ext ?a (set_scope ?n ?k ?x) _ => apply (ext_w1 a x _ (set_scope n k)); [reflexivity|ext_build]
  | |- ext ?a (set_auto ?n ?x) _ => apply (ext_w1 a x _ (set_auto n)); [reflexivity|ext_build]
  | |- ext ?a (jset_cur ?n ?x) _ => apply (ext_w1 a x _ (jset_cur n)); [reflexivity|ext_build]
  | |- ext ?a (set_called ?n ?x) _ => apply (ext_w1 a x _ (set_called n)); [reflexivity|ext_build]
  | |- ext ?a (set_infile ?n ?x) _ => apply (ext_w1 a x _ (set_infile n)); [reflexivity|ext_build]
  | |- ext ?a ?b _ => match goal with E : ext _ b _ |- _ => eapply ext_trans; [ | exact E]; ext_build end
  end.
Ltac norm_app := rewrite <- ?app_assoc; cbn [app].


Section Expr.
Variable o : jopts.
Notation fmt := (o_fmt o).
Notation md := (is_module (o_fmt o)).

Definition expr_post0 (m : J unit) (i : bool) : Prop :=
  forall st st', scope_ok (j_scope st) -> called_ok fmt st -> m st = Ok (tt, st') ->
    exists cs, ext st st' cs /\ exprC fmt cs i /\ j_scope st' = j_scope st /\ j_buf st' = j_buf st /\ called_ok fmt st'.

(* an action that writes one fixed chunk list and changes nothing else *)
Lemma post_emit cs i : exprC fmt cs i -> expr_post0 (jemit cs) i.
Proof.
  intros C st st' Hs Hc H. jinv H. exists cs. split; [|split; [exact C|proj; auto]].
  eapply (ext_step st st _ [] cs); [apply ext_refl; reflexivity|reflexivity].
Qed.

Lemma exprC_text t ts i : text_toks t = Some ts -> text_okb t ts (MHave i) = true -> (forall cl s, js_run md ts (MWant cl) s = Some (MHave i, s, [])) -> exprC fmt [CText t] i.
Proof.
  intros L Tk R cl s. eapply emits_toks1; [|apply R|apply text_okb_tail; exact Tk]. cbn [lex_chunk]. unfold text_toks in L.
  destruct (lex_text 0 LNormal t) as [[ts' m']|]; [|discriminate]. destruct m'; try discriminate. inversion L; subst. reflexivity.
Qed.

Section Body.
Variable w : node -> J unit.
Variable fk : nat.
Definition expr_post (wf : node -> J unit) (n : node) (i : bool) : Prop := expr_post0 (wf n) i.
Hypothesis IHe : forall n i, expr_chk fmt fk n = Some i -> expr_post w n i.

(* use the induction hypothesis on the sub-runs, in the order of the run *)
Ltac units := repeat match goal with u : unit |- _ => destruct u end.
Ltac ih1 :=
  match goal with
  | Hw : w ?n ?sa = Ok (tt, ?sb), Hc : expr_chk _ fk ?n = Some _ |- _ =>
      let cs := fresh "cs" in let E := fresh "E" in let C := fresh "C" in let S := fresh "S" in let B := fresh "B" in let K := fresh "K" in
      destruct (IHe _ _ Hc sa sb ltac:(proj; congruence) ltac:(unfold called_ok in *; proj; assumption) Hw) as (cs & E & C & S & B & K);
      clear Hw; proj
  end.
Ltac ihs := units; repeat ih1.

Definition fin (st st' : jstate) (i : bool) : Prop :=
  exists cs, ext st st' cs /\ exprC fmt cs i /\ j_scope st' = j_scope st /\ j_buf st' = j_buf st /\ called_ok fmt st'.
Ltac finish :=
  eexists; split; [ext_build|]; split; [intros cl s; norm_app; echain|]; proj; split; [congruence|]; split; [congruence|];
  unfold called_ok in *; proj; assumption.

Lemma post_neg a i : expr_chk fmt fk a = Some i -> expr_post0 (jtxt t_neg_open ;;; w a ;;; jtxt t_op_close) false.
Proof. intros Hc st st' Hs Hk H. jinv H. ihs. finish. Qed.
Lemma post_not a i : expr_chk fmt fk a = Some i -> expr_post0 (jtxt t_not_open ;;; w a ;;; jtxt t_rpar) false.
Proof. intros Hc st st' Hs Hk H. jinv H. ihs. finish. Qed.

Lemma binop_tok op_ : op_ <> OElvis -> exists t, text_toks (binop_sym op_) = Some [TP t] /\ (t = PMinus \/ exists x, t = PBin x).
Proof. destruct op_; intro H; try congruence; eexists; (split; [vm_compute; reflexivity|]); eauto. Qed.

Lemma post_op op_ a c i j : op_ <> OElvis -> expr_chk fmt fk a = Some i -> expr_chk fmt fk c = Some j ->
  expr_post0 (jop w (binop_sym op_) a c) false.
Proof.
  intros Ho Ha Hc st st' Hs Hk H. unfold jop in H. jinv H. ihs.
  destruct (binop_tok op_ Ho) as (t & Lt & Ht).
  assert (Blk : forall i0 s0, emits md [CText (binop_sym op_); CText t_op_mid2] (MHave i0) s0 (MWant false) (KParen :: s0) []).
  { intros i0 s0. clear - Ho. destruct op_; try congruence;
      (eapply emits_block; [intro ip; cbn [render_chunks render_chunk]; reflexivity|vm_compute; reflexivity|vm_compute; reflexivity|reflexivity|reflexivity]). }
  eexists; split; [ext_build|]; split; [|proj; split; [congruence|]; split; [congruence|]; unfold called_ok in *; proj; assumption].
  intros cl s. norm_app.
  eapply emits_cons0; [esingle|]. eapply emits_app0; [apply C|]. eapply emits_cons0; [esingle|].
  match goal with |- emits _ (?x :: ?y :: ?r) _ _ _ _ _ => change (x :: y :: r) with ([x; y] ++ r) end.
  eapply emits_app0; [apply Blk|]. eapply emits_app0; [apply C0|]. echain.
Qed.

Lemma post_elvis a c i j : expr_chk fmt fk a = Some i -> expr_chk fmt fk c = Some j ->
  expr_post0 (jtxt t_op_open ;;; w a ;;; jtxt t_elvis1 ;;; w a ;;; jtxt t_elvis2 ;;; w c ;;; jtxt t_rpar) false.
Proof. intros Ha Hc st st' Hs Hk H. jinv H. ihs. finish. Qed.
Lemma post_tern a c d i j k : expr_chk fmt fk a = Some i -> expr_chk fmt fk c = Some j -> expr_chk fmt fk d = Some k ->
  expr_post0 (jtxt t_op_open ;;; w a ;;; jtxt t_tern1 ;;; w c ;;; jtxt t_colon ;;; w d ;;; jtxt t_rpar) false.
Proof. intros Ha Hc Hd st st' Hs Hk H. jinv H. ihs. finish. Qed.

(* ---- comma separated items inside a call or an array literal ---- *)
Definition okn (n : node) : bool := match expr_chk fmt fk n with Some _ => true | None => false end.
Lemma okn_some n : okn n = true -> exists i, expr_chk fmt fk n = Some i.
Proof. unfold okn. destruct (expr_chk fmt fk n); [eauto|discriminate]. Qed.

Definition in_list (K : frame) : Prop := K = KCall \/ K = KArr.
Definition after_items (m : mode) : Prop := m = MWant true \/ exists j, m = MHave j.
Lemma close_call m s : after_items m -> js_run md [TP PRPar] m (KCall :: s) = Some (MHave false, s, []).
Proof. intros [->|[j ->]]; reflexivity. Qed.
Lemma close_arr m s : after_items m -> js_run md [TP PRBrk] m (KArr :: s) = Some (MHave false, s, []).
Proof. intros [->|[j ->]]; reflexivity. Qed.

Lemma items_post l : forall first st st', forallb okn l = true -> scope_ok (j_scope st) -> called_ok fmt st ->
  list_items w first l st = Ok (tt, st') ->
  exists cs, ext st st' cs /\ j_scope st' = j_scope st /\ j_buf st' = j_buf st /\ called_ok fmt st' /\
    forall K s m0, in_list K -> (if first then m0 = MWant true else exists j, m0 = MHave j) ->
      exists m', emits md cs m0 (K :: s) m' (K :: s) [] /\ after_items m'.
Proof.
  induction l as [|x l IH]; intros first st st' Hall Hs Hk H; cbn [list_items] in H.
  - jinv H. exists []. split; [apply ext_refl; reflexivity|]. repeat split; auto. intros K s m0 HK Hm. exists m0. split; [apply emits_nil|].
    destruct first; [left; exact Hm|right; exact Hm].
  - cbn [forallb] in Hall. apply andb_prop in Hall. destruct Hall as [Hx Hl]. destruct (okn_some _ Hx) as (i & Hc).
    apply bind_inv in H. destruct H as (u & st1 & H1 & H). apply bind_inv in H. destruct H as (u2 & st2 & H2 & H3). units.
    assert (P1 : exists c1, ext st st1 c1 /\ j_scope st1 = j_scope st /\ j_buf st1 = j_buf st /\ j_called st1 = j_called st /\
                 (c1 = [] /\ first = true \/ c1 = [CText t_comma] /\ first = false)).
    { destruct first; jinv H1.
      - exists []. split; [apply ext_refl; reflexivity|]. repeat (split; [reflexivity|]). left. split; reflexivity.
      - eexists. split; [ext_build|]. proj. repeat (split; [reflexivity|]). right. split; reflexivity. }
    destruct P1 as (c1 & E1 & S1 & B1 & K1 & Hc1).
    destruct (IHe _ _ Hc st1 st2 ltac:(congruence) ltac:(unfold called_ok in *; congruence) H2) as (c2 & E2 & C2 & S2 & B2 & K2).
    destruct (IH false st2 st' Hl ltac:(congruence) K2 H3) as (c3 & E3 & S3 & B3 & K3 & R3).
    exists (c1 ++ c2 ++ c3). split; [eapply ext_trans; [exact E1|]; eapply ext_trans; [exact E2|exact E3]|].
    split; [congruence|]. split; [congruence|]. split; [exact K3|].
    intros K s m0 HK Hm.
    destruct (R3 K s (MHave i) HK ltac:(eauto)) as (m' & R & Hm').
    exists m'. split; [|exact Hm'].
    destruct Hc1 as [[-> ->]|[-> ->]].
    + subst m0. cbn [app]. eapply emits_app0; [apply C2|exact R].
    + destruct Hm as (j & ->). cbn [app]. eapply emits_cons0.
      * eapply emits_toks1; [vm_compute; reflexivity| |tail_solve]. destruct HK as [->| ->]; reflexivity.
      * eapply emits_app0; [apply C2|exact R].
Qed.

Lemma post_listlit items : forallb okn items = true ->
  expr_post0 (jtxt t_lbrack ;;; list_items w true items ;;; jtxt t_rbrack) false.
Proof.
  intros Hall st st' Hs Hk H. jinv H. units.
  match goal with HL : list_items _ _ _ ?sa = Ok (tt, ?sb) |- _ =>
    destruct (items_post items true sa sb Hall ltac:(proj; assumption) ltac:(unfold called_ok in *; proj; assumption) HL) as (c & E & S & B & K & R) end. proj.
  eexists. split; [ext_build|]. split; [|proj; split; [congruence|]; split; [congruence|]; unfold called_ok in *; proj; assumption].
  intros cl s. norm_app. destruct (R KArr s (MWant true) ltac:(right; reflexivity) eq_refl) as (m' & R' & Hm').
  eapply emits_cons0; [esingle|]. eapply emits_app0; [exact R'|].
  eapply emits_toks1; [vm_compute; reflexivity| |tail_solve]. apply close_arr. exact Hm'.
Qed.

(* ---- map literals ---- *)
Definition after_keys (m : mode) : Prop := m = MKey true \/ exists j, m = MHave j.
Lemma close_obj m s : after_keys m -> js_run md [TP PRBrc] m (KObj :: s) = Some (MHave false, s, []).
Proof. intros [->|[j ->]]; reflexivity. Qed.

Lemma map_items_post l : forall first st st', forallb okn (map snd l) = true -> scope_ok (j_scope st) -> called_ok fmt st ->
  map_items w first l st = Ok (tt, st') ->
  exists cs, ext st st' cs /\ j_scope st' = j_scope st /\ j_buf st' = j_buf st /\ called_ok fmt st' /\
    forall s m0, (if first then m0 = MKey true else exists j, m0 = MHave j) ->
      exists m', emits md cs m0 (KObj :: s) m' (KObj :: s) [] /\ after_keys m'.
Proof.
  induction l as [|[k x] l IH]; intros first st st' Hall Hs Hk H; cbn [map_items] in H.
  - jinv H. exists []. split; [apply ext_refl; reflexivity|]. repeat split; auto. intros s m0 Hm. exists m0. split; [apply emits_nil|].
    destruct first; [left; exact Hm|right; exact Hm].
  - cbn [map forallb snd] in Hall. apply andb_prop in Hall. destruct Hall as [Hx Hl]. destruct (okn_some _ Hx) as (i & Hc).
    apply bind_inv in H. destruct H as (u & st1 & H1 & H). apply bind_inv in H. destruct H as (u1 & st1' & H1' & H).
    apply bind_inv in H. destruct H as (u2 & st2 & H2 & H3). units. jinv H1'.
    assert (P1 : exists c1, ext st st1 c1 /\ j_scope st1 = j_scope st /\ j_buf st1 = j_buf st /\ j_called st1 = j_called st /\
                 (c1 = [] /\ first = true \/ c1 = [CText t_comma] /\ first = false)).
    { destruct first; jinv H1.
      - exists []. split; [apply ext_refl; reflexivity|]. repeat (split; [reflexivity|]). left. split; reflexivity.
      - eexists. split; [ext_build|]. proj. repeat (split; [reflexivity|]). right. split; reflexivity. }
    destruct P1 as (c1 & E1 & S1 & B1 & K1 & Hc1).
    match type of H2 with _ ?sa = _ =>
      destruct (IHe _ _ Hc sa st2 ltac:(proj; congruence) ltac:(unfold called_ok in *; proj; congruence) H2) as (c2 & E2 & C2 & S2 & B2 & K2) end. proj.
    destruct (IH false st2 st' Hl ltac:(congruence) K2 H3) as (c3 & E3 & S3 & B3 & K3 & R3).
    exists (c1 ++ [CStrLit 34 k; CText t_colon] ++ c2 ++ c3). split.
    { eapply ext_trans; [exact E1|]. eapply ext_trans; [|eapply ext_trans; [exact E2|exact E3]]. eapply (ext_step st1 st1 _ []); [apply ext_refl; reflexivity|reflexivity]. }
    split; [congruence|]. split; [congruence|]. split; [exact K3|].
    intros s m0 Hm.
    destruct (R3 s (MHave i) ltac:(eauto)) as (m' & R & Hm').
    exists m'. split; [|exact Hm'].
    destruct Hc1 as [[-> ->]|[-> ->]].
    + subst m0. cbn [app]. eapply emits_cons0; [esingle|]. eapply emits_cons0; [esingle|]. eapply emits_app0; [apply C2|exact R].
    + destruct Hm as (j & ->). cbn [app]. eapply emits_cons0; [esingle|]. eapply emits_cons0; [esingle|]. eapply emits_cons0; [esingle|].
      eapply emits_app0; [apply C2|exact R].
Qed.

Lemma sort_items_in {A} (l : list (bstr * A)) x : In x (sort_items l) -> In x l.
Proof.
  induction l as [|y l IH]; cbn [sort_items]; [auto|].
  set (ins := fix ins (x : bstr * A) (l : list (bstr * A)) {struct l} : list (bstr * A) :=
                match l with [] => [x] | y :: r => if bstr_leb (fst x) (fst y) then x :: l else y :: ins x r end).
  assert (G : forall z acc, In x (ins z acc) -> x = z \/ In x acc).
  { intros z acc. induction acc as [|q acc IHa]; cbn.
    - intros [->|[]]. auto.
    - destruct (bstr_leb (fst z) (fst q)); cbn.
      + intros [->|[->|Hi]]; auto.
      + intros [->|Hi]; auto. destruct (IHa Hi); auto. }
  intro H. destruct (G _ _ H) as [->|Hi]; [left; reflexivity|right; auto].
Qed.

Lemma post_maplit items : forallb okn (map snd items) = true ->
  expr_post0 (jtxt t_lbrace ;;; map_items w true (sort_items items) ;;; jtxt t_rbrace) false.
Proof.
  intros Hall st st' Hs Hk H. jinv H. units.
  assert (Hall' : forallb okn (map snd (sort_items items)) = true).
  { rewrite forallb_forall in *. intros n Hn. apply in_map_iff in Hn. destruct Hn as ([k v] & <- & Hi). apply Hall.
    apply in_map_iff. exists (k, v). split; [reflexivity|]. apply sort_items_in. exact Hi. }
  match goal with HL : map_items _ _ _ ?sa = Ok (tt, ?sb) |- _ =>
    destruct (map_items_post _ true sa sb Hall' ltac:(proj; assumption) ltac:(unfold called_ok in *; proj; assumption) HL) as (c & E & S & B & K & R) end. proj.
  eexists. split; [ext_build|]. split; [|proj; split; [congruence|]; split; [congruence|]; unfold called_ok in *; proj; assumption].
  intros cl s. norm_app. destruct (R s (MKey true) eq_refl) as (m' & R' & Hm').
  eapply emits_cons0; [esingle|]. eapply emits_app0; [exact R'|].
  eapply emits_toks1; [vm_compute; reflexivity| |tail_solve]. apply close_obj. exact Hm'.
Qed.

(* ---- jblock ---- *)
Lemma jblock_inv n st bl st' : jblock w n st = Ok (bl, st') ->
  exists sub', w n {| j_out := []; j_indent := 0; j_buf := []; j_scope := j_scope st; j_n := j_n st; j_auto := 0; j_cur := None;
                      j_called := j_called st; j_infile := j_infile st |} = Ok (tt, sub')
               /\ bl = rev (j_out sub') /\ st' = set_called (j_called sub') st.
Proof.
  unfold jblock. intro H. apply bind_inv in H. destruct H as (x & st1 & H1 & H2). apply get_inv in H1. destruct H1; subst.
  match type of H2 with (match ?r with _ => _ end) = _ => destruct r as [[[] sub']| | | | |] eqn:Ew; try discriminate end.
  inversion H2; subst. exists sub'. auto.
Qed.

Lemma jblock_post n i st bl st' : expr_chk fmt fk n = Some i -> scope_ok (j_scope st) -> called_ok fmt st ->
  jblock w n st = Ok (bl, st') ->
  exprC fmt bl i /\ j_out st' = j_out st /\ j_scope st' = j_scope st /\ j_buf st' = j_buf st /\ called_ok fmt st'.
Proof.
  intros Hc Hs Hk H. apply jblock_inv in H. destruct H as (sub' & Hw & -> & ->).
  match type of Hw with _ ?sa = _ => destruct (IHe _ _ Hc sa sub' ltac:(proj; assumption) ltac:(unfold called_ok in *; proj; assumption) Hw) as (cs & E & C & S & B & K) end.
  unfold ext in E. proj. rewrite E, app_nil_r, rev_involutive. repeat split; auto.
Qed.

(* ---- data references ---- *)
Lemma frame_lookup s k g : scope_ok s -> ident_ok k = true -> jsc_lookup s k = g -> g <> [] -> name_ok g.
Proof.
  induction 1 as [|f r Hf _ IH]; cbn [jsc_lookup]; intros Hk E Hg; [congruence|].
  destruct (assoc_s k f) as [g'|] eqn:Ea; [|auto]. subst g'. destruct Hf as [Hf _]. eapply Hf; eauto.
Qed.

Lemma loop_names s v ix lim : scope_ok s -> jsc_loop s v = (ix, lim) -> ix <> [] -> name_ok ix /\ name_ok lim.
Proof.
  induction 1 as [|f r Hf _ IH]; cbn [jsc_loop]; intros E Hix; [inversion E; subst; congruence|].
  destruct (bstr_eqb match assoc_s jk_var f with Some x => x | None => [] end v
            && negb match match assoc_s jk_index f with Some x => x | None => [] end with [] => true | _ => false end) eqn:Ec; [|auto].
  inversion E; subst. destruct Hf as [_ Hf]. destruct (assoc_s jk_index f) as [ix|] eqn:Ei; [|congruence].
  destruct (Hf ix eq_refl Hix) as (Hn & lim & El & Hl). rewrite El. auto.
Qed.

Definition rp := CText t_rpar.
Definition prefC (cs : list chunk) (j : nat) : Prop :=
  forall cl s, exists cl', emits md cs (MWant cl) s (MWant cl') (repeat KParen j ++ s) [].

Lemma closers_run j : forall s, emits md (repeat rp j) (MHave false) (repeat KParen j ++ s) (MHave false) s [].
Proof.
  induction j as [|j IH]; intro s; cbn [repeat app]; [apply emits_nil|].
  eapply emits_cons0; [|apply IH]. unfold rp. esingle.
Qed.

Definition accok (a : node) : bool :=
  match a with
  | NAccIndex _ _ _ => true
  | NAccKey _ _ k => ident_ok k
  | NAccExpr _ _ e => okn e
  | _ => false
  end.

Lemma ident_tok_dot k s : ident_ok k = true -> js_run md [tok_of_ident k] MDot s = Some (MHave false, s, []).
Proof. intros _. destruct (tok_of_ident_cases k) as [(kk & ->)| ->]; reflexivity. Qed.

Lemma repeat_snoc {A} (x : A) j s : repeat x j ++ x :: s = repeat x (S j) ++ s.
Proof. induction j as [|j IH]; cbn [repeat app]; [reflexivity|]. rewrite IH. reflexivity. Qed.

Lemma access_post acc : forall expr k st st' res, forallb accok acc = true -> exprC fmt expr false ->
  scope_ok (j_scope st) -> called_ok fmt st ->
  jdataref_access w acc expr (repeat rp k) st = Ok (res, st') ->
  exists cs j expr', ext st st' cs /\ res = expr' ++ repeat rp (j + k) /\ exprC fmt expr' false /\ prefC cs j
    /\ j_scope st' = j_scope st /\ j_buf st' = j_buf st /\ called_ok fmt st'.
Proof.
  induction acc as [|a acc IH]; intros expr k st st' res Hall Ce Hs Hk H; cbn [jdataref_access] in H.
  - jinv H. exists [], 0%nat, expr. split; [apply ext_refl; reflexivity|]. repeat split; auto.
    intros cl s. exists cl. apply emits_nil.
  - cbn [forallb] in Hall. apply andb_prop in Hall. destruct Hall as [Ha Hl].
    (* the null-safe prefix *)
    assert (Pre : forall (ns : bool) st0 cl0 st1, ((if ns then jemit ([CText t_op_open] ++ expr ++ [CText t_nullsafe]) ;;; jret (CText t_rpar :: repeat rp k) else jret (repeat rp k)) : J (list chunk)) st0 = Ok (cl0, st1) ->
              exists c1 j1, ext st0 st1 c1 /\ cl0 = repeat rp (j1 + k) /\ prefC c1 j1 /\ j_scope st1 = j_scope st0 /\ j_buf st1 = j_buf st0 /\ j_called st1 = j_called st0).
    { intros ns st0 cl0 st1 Hp. destruct ns; jinv Hp.
      - eexists. exists 1%nat. split; [ext_build|]. split; [reflexivity|]. proj. split; [|auto].
        intros cl s. exists false. norm_app. cbn [repeat app].
        eapply emits_cons0; [esingle|]. eapply emits_app0; [apply Ce|]. esingle.
      - exists [], 0%nat. split; [apply ext_refl; reflexivity|]. split; [reflexivity|]. split; [|auto]. intros cl s. exists cl. apply emits_nil. }
    assert (Fin : forall st1 c1 j1 expr1, ext st st1 c1 -> prefC c1 j1 -> j_scope st1 = j_scope st -> j_buf st1 = j_buf st -> called_ok fmt st1 ->
              exprC fmt expr1 false -> jdataref_access w acc expr1 (repeat rp (j1 + k)) st1 = Ok (res, st') ->
              exists cs j expr', ext st st' cs /\ res = expr' ++ repeat rp (j + k) /\ exprC fmt expr' false /\ prefC cs j
                /\ j_scope st' = j_scope st /\ j_buf st' = j_buf st /\ called_ok fmt st').
    { intros st1 c1 j1 expr1 E1 P1 S1 B1 K1 C1 Hr.
      destruct (IH expr1 (j1 + k)%nat st1 st' res Hl C1 ltac:(congruence) K1 Hr) as (c2 & j2 & expr' & E2 & -> & C' & P2 & S2 & B2 & K2).
      exists (c1 ++ c2), (j2 + j1)%nat, expr'. split; [eapply ext_trans; eauto|]. split; [f_equal; f_equal; lia|]. split; [exact C'|].
      split; [|split; [congruence|split; [congruence|exact K2]]].
      intros cl s. destruct (P1 cl s) as (cl1 & R1). destruct (P2 cl1 (repeat KParen j1 ++ s)) as (cl2 & R2). exists cl2.
      rewrite repeat_app, <- app_assoc. eapply emits_app0; eauto. }
    destruct a; try discriminate Ha; cbv beta iota zeta in H.
    + (* index *)
      apply bind_inv in H. destruct H as (cl0 & st1 & Hp & Hr). destruct (Pre _ _ _ _ Hp) as (c1 & j1 & E1 & -> & P1 & S1 & B1 & K1).
      refine (Fin st1 c1 j1 _ E1 P1 S1 B1 ltac:(unfold called_ok in *; congruence) _ Hr).
      intros cl s. eapply emits_app0; [apply Ce|]. eapply emits_cons0; [esingle|]. eapply emits_cons0; [apply emits_num_Z|]. esingle.
    + (* key *)
      apply bind_inv in H. destruct H as (cl0 & st1 & Hp & Hr). destruct (Pre _ _ _ _ Hp) as (c1 & j1 & E1 & -> & P1 & S1 & B1 & K1).
      refine (Fin st1 c1 j1 _ E1 P1 S1 B1 ltac:(unfold called_ok in *; congruence) _ Hr).
      intros cl s. eapply emits_app0; [apply Ce|]. eapply emits_cons0; [esingle|].
      eapply emits_toks1; [cbn [lex_chunk]; rewrite (lex_name_ident _ Ha); reflexivity| |tail_solve]. apply ident_tok_dot. exact Ha.
    + (* expression *)
      apply bind_inv in H. destruct H as (cl0 & st1 & Hp & Hr). destruct (Pre _ _ _ _ Hp) as (c1 & j1 & E1 & -> & P1 & S1 & B1 & K1).
      apply bind_inv in Hr. destruct Hr as (bl & st2 & Hb & Hr). cbn [accok] in Ha. destruct (okn_some _ Ha) as (i & Hc).
      destruct (jblock_post _ i st1 bl st2 Hc ltac:(congruence) ltac:(unfold called_ok in *; congruence) Hb) as (Cb & O2 & S2 & B2 & K2).
      refine (Fin st2 c1 j1 _ ltac:(eapply ext_same; eauto) P1 ltac:(congruence) ltac:(congruence) K2 _ Hr).
      intros cl s. eapply emits_app0; [apply Ce|]. eapply emits_cons0; [esingle|]. eapply emits_app0; [apply Cb|]. esingle.
Qed.

Lemma post_dataref key acc : ident_ok key = true -> forallb accok acc = true -> expr_post0 (visit_dataref w key acc) false.
Proof.
  intros Hkey Hacc st st' Hs Hk H. unfold visit_dataref in H.
  apply bind_inv in H. destruct H as (base & st1 & Hb & H). apply bind_inv in H. destruct H as (expr & st2 & Ha & He). jinv He.
  assert (Pb : st1 = st /\ exprC fmt base false).
  { destruct (bstr_eqb key n_ij).
    - jinv Hb. split; [reflexivity|]. intros cl s. echain.
    - unfold lookup_var in Hb. apply bind_inv in Hb. destruct Hb as (g0 & stx & Hg & Hb2). jinv Hg.
      destruct (jsc_lookup (j_scope st) key) as [|c g] eqn:El; jinv Hb2.
      + split; [reflexivity|]. intros cl s. eapply emits_cons0; [esingle|].
        eapply emits_toks1; [cbn [lex_chunk]; rewrite (lex_name_ident _ Hkey); reflexivity| |tail_solve]. apply ident_tok_dot. exact Hkey.
      + split; [reflexivity|]. assert (Hn : name_ok (c :: g)) by (eapply frame_lookup; eauto; discriminate).
        intros cl s. esingle. }
  destruct Pb as [-> Cb].
  destruct (access_post acc base 0 st st2 expr Hacc Cb Hs Hk Ha) as (cs & j & expr' & E & -> & C' & P & S & B & K).
  eexists. split; [ext_build|]. split; [|proj; split; [congruence|]; split; [congruence|]; unfold called_ok in *; proj; assumption].
  intros cl s. destruct (P cl s) as (cl' & R). rewrite Nat.add_0_r. eapply emits_app0; [exact R|]. eapply emits_app0; [apply C'|]. apply closers_run.
Qed.

(* ---- functions ---- *)
Lemma aset_forall {A} (P : bstr * A -> Prop) l k v : Forall P l -> P (k, v) -> Forall P (aset l k v).
Proof.
  induction 1 as [|[k' v'] l Hh Ht IH]; intro Hp; cbn [aset]; [auto|]. destruct (bstr_eqb k k'); constructor; auto.
Qed.

Lemma note_called_inv key imp st x st' : note_called key imp st = Ok (x, st') -> imp_ok fmt imp = true -> called_ok fmt st ->
  j_out st' = j_out st /\ j_scope st' = j_scope st /\ j_buf st' = j_buf st /\ called_ok fmt st'.
Proof.
  unfold note_called. intros H Hi Hk. destruct imp as [|c imp]; jinv H; proj; [auto|]. repeat (split; [reflexivity|]).
  unfold called_ok in *. proj. apply aset_forall; assumption.
Qed.

Definition flagn (a : node) : bool := match expr_chk fmt fk a with Some i => i | None => false end.

Lemma emits_text_local t ts m0 s0 m1 s1 base : text_toks t = Some ts -> js_run md ts m0 s0 = Some (m1, s1, []) ->
  text_okb t ts m1 = true ->
  emode m0 = true -> forallb eframe s0 = true -> emits md [CText t] m0 (s0 ++ base) m1 (s1 ++ base) [].
Proof.
  intros L R Tk Hm Hs. destruct (run_local md ts m0 s0 m1 s1 [] base Hm Hs R) as (_ & R').
  eapply emits_toks1; [|exact R'|apply text_okb_tail; exact Tk]. cbn [lex_chunk]. unfold text_toks in L.
  destruct (lex_text 0 LNormal t) as [[ts' m']|]; [|discriminate]. destruct m'; try discriminate. inversion L; subst. reflexivity.
Qed.

Lemma pieces_post args : forallb okn args = true -> forall ps m0 s0 m1 s1 st st',
  pieces_run fmt ps (map flagn args) m0 s0 = Some (m1, s1) -> emode m0 = true -> forallb eframe s0 = true ->
  scope_ok (j_scope st) -> called_ok fmt st -> apply_pieces w ps args st = Ok (tt, st') ->
  exists cs, ext st st' cs /\ (forall base, emits md cs m0 (s0 ++ base) m1 (s1 ++ base) [])
    /\ j_scope st' = j_scope st /\ j_buf st' = j_buf st /\ called_ok fmt st'.
Proof.
  intros Hall. induction ps as [|[t|i] ps IH]; intros m0 s0 m1 s1 st st' Hp Hm Hs0 Hs Hk H; cbn [apply_pieces pieces_run] in *.
  - jinv H. inversion Hp; subst. exists []. split; [apply ext_refl; reflexivity|]. repeat split; auto. intro base. apply emits_nil.
  - destruct (text_toks t) as [ts|] eqn:Et; [|discriminate]. destruct (js_run md ts m0 s0) as [[[m' s'] [|? ?]]|] eqn:Er; try discriminate.
    destruct (emode m' && forallb eframe s' && text_okb t ts m') eqn:Ee; [|discriminate]. apply andb_prop in Ee. destruct Ee as [Ee Tk]. apply andb_prop in Ee. destruct Ee as [Em' Es'].
    apply bind_inv in H. destruct H as (u & st1 & H1 & H2). jinv H1. units.
    match type of H2 with _ _ _ ?sa = _ => destruct (IH m' s' m1 s1 sa st' Hp Em' Es' ltac:(proj; assumption) ltac:(unfold called_ok in *; proj; assumption) H2) as (c2 & E2 & R2 & S2 & B2 & K2) end. proj.
    eexists. split; [ext_build|]. split; [|auto]. intro base. norm_app. eapply emits_cons0; [|apply R2].
    eapply emits_text_local; eauto.
  - destruct m0; try discriminate. destruct (nth_error (map flagn args) i) as [f|] eqn:En; [|discriminate].
    destruct (nth_error args i) as [a|] eqn:Ea; [|jinv H].
    rewrite nth_error_map, Ea in En. cbn in En. inversion En; subst f.
    assert (Ha : okn a = true). { rewrite forallb_forall in Hall. apply Hall. eapply nth_error_In; eauto. }
    destruct (okn_some _ Ha) as (ia & Hc). assert (Ef : flagn a = ia) by (unfold flagn; rewrite Hc; reflexivity). rewrite Ef in Hp.
    apply bind_inv in H. destruct H as (u & st1 & H1 & H2). units.
    destruct (IHe _ _ Hc st st1 Hs Hk H1) as (c1 & E1 & C1 & S1 & B1 & K1).
    destruct (IH (MHave ia) s0 m1 s1 st1 st' Hp eq_refl Hs0 ltac:(congruence) K1 H2) as (c2 & E2 & R2 & S2 & B2 & K2).
    exists (c1 ++ c2). split; [eapply ext_trans; eauto|]. split; [|split; [congruence|split; [congruence|exact K2]]].
    intro base. eapply emits_app0; [apply C1|apply R2].
Qed.

Lemma emits_want_cl cs s r s' d cl : emits md cs (MWant false) s (MHave r) s' d -> emits md cs (MWant cl) s (MHave r) s' d.
Proof.
  intros (ts & L & R & B). exists ts. split; [exact L|]. split; [|exact B]. destruct ts as [|t ts]; [discriminate R|]. cbn [js_run js_step] in *.
  destruct (step_want false s t) as [[[m1 s1] d1]|] eqn:E; [|discriminate R]. rewrite (step_want_cl cl s t _ E). exact R.
Qed.

Lemma post_function p name args i : expr_chk fmt (S fk) (NFunc p name args) = Some i -> expr_post0 (visit_function o w name args) i.
Proof.
  cbn [expr_chk]. fold okn. intros Hc st st' Hs Hk H.
  destruct (forallb okn args && imp_ok fmt (fmt_chunks (fmt_function fmt) name)) eqn:E0; [|discriminate]. apply andb_prop in E0. destruct E0 as [Hall Himp].
  unfold visit_function in H.
  destruct (assoc_s name js_builtin_funcs) as [jn|] eqn:Eb.
  - destruct (call_open_text fmt (t_soy_dd ++ jn ++ t_lpar)) eqn:Et; [|discriminate]. inversion Hc; subst i.
    apply bind_inv in H. destruct H as (u & st1 & H1 & H2). unfold builtin_call in H1. jinv H1. units.
    match goal with HL : list_items _ _ _ ?sa = Ok (tt, ?sb) |- _ =>
      destruct (items_post args true sa sb Hall ltac:(proj; assumption) ltac:(unfold called_ok in *; proj; assumption) HL) as (c & E & S & B & K & R) end. proj.
    match type of H2 with note_called _ _ ?sa = _ => destruct (note_called_inv _ _ sa _ _ H2 Himp ltac:(unfold called_ok in *; proj; assumption)) as (O2 & S2 & B2 & K2) end. proj.
    eexists. split; [eapply (ext_step st st0); [|exact O2]; eapply ext_trans; [|exact E]; ext_build|]. split; [|split; [congruence|split; [congruence|exact K2]]].
    intros cl s. norm_app. unfold call_open_text in Et. destruct (text_toks (t_soy_dd ++ jn ++ t_lpar)) as [ts|] eqn:Ett; [|discriminate].
    destruct (js_run md ts (MWant false) []) as [[[m1 s1] d1]|] eqn:Er; [|discriminate].
    destruct m1; try discriminate. destruct closable; try discriminate. destruct s1 as [|[] [|? ?]]; try discriminate. destruct d1; try discriminate.
    destruct (R KCall s (MWant true) ltac:(left; reflexivity) eq_refl) as (m' & R' & Hm').
    eapply emits_cons0; [|eapply emits_app0; [exact R'|]].
    + pose proof (emits_text_local _ _ _ _ _ _ s Ett Er Et eq_refl eq_refl) as Q. cbn [app] in Q.
      destruct Q as (ts' & L' & R'' & B''). exists ts'. split; [exact L'|]. split; [|exact B'']. destruct ts' as [|t' ts']; [discriminate R''|]. cbn [js_run js_step] in *.
      destruct (step_want false s t') as [[[m2 s2] d2]|] eqn:E2; [|discriminate R'']. rewrite (step_want_cl cl s t' _ E2). exact R''.
    + eapply emits_toks1; [vm_compute; reflexivity| |tail_solve]. apply close_call. exact Hm'.
  - destruct (assoc_s name js_funcs) as [[vl alts]|] eqn:Ef.
    + destruct (pick_alt alts (List.length args)) as [ps|] eqn:Ep; [|discriminate].
      assert (Emap : map (fun a => match expr_chk fmt fk a with Some i => i | None => false end) args = map flagn args) by reflexivity.
      rewrite Emap in Hc. destruct (pieces_run fmt ps (map flagn args) (MWant false) []) as [[m1 s1]|] eqn:Er; [|discriminate].
      destruct m1; try discriminate. destruct s1; [|discriminate]. inversion Hc; subst i.
      apply bind_inv in H. destruct H as (u & st1 & H1 & H2). units.
      destruct (pieces_post args Hall ps _ _ _ _ st st1 Er eq_refl eq_refl Hs Hk H1) as (c & E & R & S & B & K).
      destruct (note_called_inv _ _ st1 _ _ H2 Himp K) as (O2 & S2 & B2 & K2).
      exists c. split; [eapply ext_same; eauto|]. split; [|split; [congruence|split; [congruence|exact K2]]].
      intros cl s. apply emits_want_cl. apply (R s).
    + destruct (bstr_eqb name jn_isFirst || bstr_eqb name jn_isLast || bstr_eqb name jn_index) eqn:El; [|discriminate]. inversion Hc; subst i.
      apply bind_inv in H. destruct H as (st0 & st1 & H1 & H2). apply get_inv in H1. destruct H1; subst.
      destruct (jsc_loop (j_scope st) (loop_var_of args)) as [ix lim] eqn:Eloop. destruct ix as [|c0 ix]; [discriminate H2|].
      destruct (loop_names _ _ _ _ Hs Eloop ltac:(discriminate)) as [Nix Nlim].
      destruct (bstr_eqb name jn_isFirst); [|destruct (bstr_eqb name jn_isLast)]; jinv H2;
        (eexists; split; [ext_build|]; split; [intros cl s; norm_app; echain|proj; auto]).
Qed.

Lemma post_lift (m : J unit) i c : expr_post0 m i ->
  forall st st', scope_ok (j_scope st) -> called_ok fmt st -> m (jset_cur c st) = Ok (tt, st') ->
  exists cs, ext st st' cs /\ exprC fmt cs i /\ j_scope st' = j_scope st /\ j_buf st' = j_buf st /\ called_ok fmt st'.
Proof.
  intros P st st' Hs Hk H. destruct (P (jset_cur c st) st' Hs Hk H) as (cs & E & C & S & B & K). exists cs. auto.
Qed.

Lemma expr_body n i : expr_chk fmt (S fk) n = Some i -> expr_post (jwalk_body o w) n i.
Proof.
  intros Hc st st' Hs Hk H. unfold jwalk_body in H. apply bind_inv in H. destruct H as (st0 & st1 & H0 & H). apply get_inv in H0. destruct H0; subst.
  apply bind_inv in H. destruct H as (u & st1 & H0 & H). apply mod_inv in H0. subst st1.
  destruct n; try discriminate Hc; cbn [jwalk_node] in H; cbn [expr_chk] in Hc; fold okn in Hc.
  - (* null *) inversion Hc; subst. eapply post_lift; eauto. apply post_emit. intros cl s. esingle.
  - (* bool *) inversion Hc; subst. eapply post_lift; eauto. apply post_emit. intros cl s. destruct x; esingle.
  - (* int *) inversion Hc; subst. eapply post_lift; eauto. apply post_emit. intros cl s. apply emits_num_Z.
  - (* float *)
    destruct (float_node_string f) as [t|] eqn:Ef; [|discriminate]. destruct (lex_num t) as [ts|] eqn:El; [|discriminate].
    destruct (js_run md ts (MWant false) []) as [[[m1 s1] d1]|] eqn:Er; [|discriminate].
    destruct m1; try discriminate. destruct s1; try discriminate. destruct d1; try discriminate.
    destruct (text_okb t ts (MHave isint)) eqn:Tk; [|discriminate]. inversion Hc; subst.
    eapply post_lift; eauto. apply post_emit. intros cl s. eapply emits_toks1; [cbn [lex_chunk]; rewrite El; reflexivity| |apply text_okb_tail; exact Tk].
    apply expr_toks_run. exact Er.
  - (* string *) inversion Hc; subst. eapply post_lift; eauto. apply post_emit. intros cl s. esingle.
  - (* global *)
    destruct (node_of_value p v) as [n'|] eqn:En; [|discriminate]. eapply post_lift; eauto. exact (IHe _ _ Hc).
  - (* function *) eapply post_lift; eauto. eapply (post_function p). cbn [expr_chk]. fold okn. exact Hc.
  - (* list literal *)
    destruct (forallb okn items) eqn:Ea; [|discriminate]. inversion Hc; subst. eapply post_lift; eauto. apply post_listlit. exact Ea.
  - (* map literal *)
    destruct (forallb okn (map snd items)) eqn:Ea; [|discriminate]. inversion Hc; subst. eapply post_lift; eauto. apply post_maplit. exact Ea.
  - (* data reference *)
    match type of Hc with (if ?c then _ else _) = _ => destruct c eqn:Ea; [|discriminate] end. inversion Hc; subst.
    apply andb_prop in Ea. destruct Ea as [Ek Eacc]. eapply post_lift; eauto. apply post_dataref; [exact Ek|].
    rewrite forallb_forall in *. intros a Ha. specialize (Eacc a Ha). destruct a; try discriminate Eacc; cbn [accok]; auto.
  - (* not *) destruct (expr_chk fmt fk n) as [j|] eqn:Ea; [|discriminate]. inversion Hc; subst. eapply post_lift; eauto. eapply post_not; eauto.
  - (* neg *) destruct (expr_chk fmt fk n) as [j|] eqn:Ea; [|discriminate]. inversion Hc; subst. eapply post_lift; eauto. eapply post_neg; eauto.
  - (* binary *)
    destruct (expr_chk fmt fk n1) as [j1|] eqn:Ea; [|discriminate]. destruct (expr_chk fmt fk n2) as [j2|] eqn:Eb; [|discriminate]. inversion Hc; subst.
    eapply post_lift; eauto. destruct op; try (eapply post_op; eauto; discriminate). eapply post_elvis; eauto.
  - (* ternary *)
    destruct (expr_chk fmt fk n1) as [j1|] eqn:Ea; [|discriminate]. destruct (expr_chk fmt fk n2) as [j2|] eqn:Eb; [|discriminate].
    destruct (expr_chk fmt fk n3) as [j3|] eqn:Ed; [|discriminate]. inversion Hc; subst. eapply post_lift; eauto. eapply post_tern; eauto.
Qed.
End Body.

(* every expression node of a checked file, at every fuel of the walker *)
Theorem expr_walk : forall fk n i, expr_chk fmt fk n = Some i -> forall g, expr_post (jwalk o g) n i.
Proof.
  induction fk as [|fk IH]; intros n i Hc g; [discriminate Hc|].
  destruct g as [|g]; [intros st st' _ _ H; discriminate H|].
  change (jwalk o (S g)) with (jwalk_body o (jwalk o g)). apply expr_body with (fk := fk); [|exact Hc].
  intros n' i' Hc'. apply IH. exact Hc'.
Qed.
End Expr.
