(* C19, parse half.

   Part 1: lineNumber / columnNumber ([line_at], [col_at]) -- the line lies inside the input, is
           monotone in the position, and is the line of the byte just before the position whenever
           that byte is not a line feed.
   Part 2: the token plumbing of Model/Token.v: which token errorf takes its position from
           ([err_tok]) after next / backup / peek, and why the pinned `unexpected` reported 1:0
           (ledger P5): after a look-ahead past the last item the current token is the zero item.
   Part 3: Model/Parser.v: [c_unexp] reports at the token it is given; textOrTag handed a
           lexical-error item reports that very item (the P5 site after repair bb87cc7); every
           error the entry point returns carries a position inside the input.
   Part 4: Model/Lexer.v: for EVERY scanner configuration in the text state, a run of plain
           ASCII text followed by a closing brace ends the scan with an error item whose
           position is just after the brace (stray_brace); for every configuration inside a tag,
           white space followed by a character no token starts with ends it with an error item
           just after that character (illegal_char).  Hence the exact line. *)
From Soy Require Import Model.Bytes Model.Utf8 Model.Outcome Model.Num Model.Values Model.Ast Model.Token
  Model.Interp Model.Lexer Spec.ErrPos Generated.Tables.
From Coq Require Import ZifyBool ZifyNat ZifyN Lia.
Open Scope N_scope.

(* ------------------------------------------------------------------ *)
(* Part 1: lines *)

(* lexer.columnNumber: pos - (index of the last LF before pos, or 0 when there is none) *)
Fixpoint last_nl (s : bstr) (i : nat) : option nat :=
  match s with
  | [] => None
  | c :: r => match last_nl r (S i) with
              | Some j => Some j
              | None => if c =? 10 then Some i else None
              end
  end.
Definition col_at (src : bstr) (pos : N) : N :=
  match last_nl (take (N.to_nat pos) src) 0 with
  | Some j => pos - N.of_nat j
  | None => pos
  end.

Lemma count_nl_app a c : count_nl (a ++ c) = count_nl a + count_nl c.
Proof. induction a as [|x r IH]; cbn [app count_nl]; [lia|]. rewrite IH. lia. Qed.

Lemma take_app_exact (a c : bstr) : take (length a) (a ++ c) = a.
Proof. induction a as [|x r IH]; cbn [length app take]; [destruct c; reflexivity|]. rewrite IH. reflexivity. Qed.

Lemma take_app_more (a c : bstr) k : take (length a + k) (a ++ c) = a ++ take k c.
Proof. induction a as [|x r IH]; cbn [length app take plus]; [reflexivity|]. rewrite IH. reflexivity. Qed.

Lemma take_take_le (s : bstr) j k : (j <= k)%nat -> take j (take k s) = take j s.
Proof.
  revert s k. induction j as [|j IH]; intros s k H; [reflexivity|].
  destruct k as [|k]; [lia|]. destruct s as [|c r]; [reflexivity|]. cbn [take]. rewrite IH; [reflexivity | lia].
Qed.

Lemma count_nl_take_mono (s : bstr) j k : (j <= k)%nat -> count_nl (take j s) <= count_nl (take k s).
Proof.
  intros H. rewrite <- (take_take_le s j k H).
  revert j H. generalize (take k s) as u. clear. intros u j _. revert u.
  induction j as [|j IH]; intros u; cbn [take]; [cbn; lia|].
  destruct u as [|c r]; [cbn; lia|]. cbn [count_nl]. specialize (IH r). lia.
Qed.

Theorem line_at_monotone src p q : p <= q -> line_at src p <= line_at src q.
Proof. intros H. unfold line_at. pose proof (count_nl_take_mono src (N.to_nat p) (N.to_nat q)). lia. Qed.

Theorem line_at_inside src p : 1 <= line_at src p <= lines src.
Proof. unfold line_at, lines. assert (H := count_nl_take_mono src (N.to_nat p) (N.to_nat p + length src)).
  assert (Hall : take (N.to_nat p + length src) src = src).
  { clear. generalize (N.to_nat p) as k. intros k. revert k. induction src as [|c r IH]; intros k.
    - cbn [length]. destruct (k + 0)%nat; reflexivity.
    - replace (k + length (c :: r))%nat with (S (k + length r)) by (cbn; lia). cbn [take]. rewrite IH. reflexivity. }
  rewrite Hall in H. lia.
Qed.

(* the position just after a byte that is not a line feed is on the line of that byte *)
Theorem line_after_byte pre c post :
  c <> 10 ->
  line_at (pre ++ c :: post) (N.of_nat (length pre) + 1) = 1 + count_nl pre /\
  line_at (pre ++ c :: post) (N.of_nat (length pre)) = 1 + count_nl pre.
Proof.
  intros Hc. unfold line_at. split.
  - replace (N.to_nat (N.of_nat (length pre) + 1)) with (length pre + 1)%nat by lia.
    rewrite take_app_more. cbn [take]. rewrite count_nl_app. cbn [count_nl].
    destruct (N.eqb_spec c 10); [contradiction | lia].
  - rewrite Nat2N.id. rewrite take_app_exact. reflexivity.
Qed.

(* ------------------------------------------------------------------ *)
(* Part 2: the token errorf reports at *)

(* errorf's "current token" is token[peekCount-1]; the item next() has just returned is
   token[peekCount].  They coincide unless two items were pushed back (backup2): then errorf
   reports at the item AFTER the one just returned (one item later, in practice the same tag). *)
Lemma err_tok_after_next s : (p_peek s <= 1)%nat -> err_tok (snd (p_next s)) = fst (p_next s).
Proof.
  intros Hp. unfold p_next. destruct (p_peek s) as [|[|k]] eqn:E; try lia.
  - unfold recv. destruct (p_rest s); reflexivity.
  - reflexivity.
Qed.
Lemma err_tok_after_next_backup2 s t1 :
  err_tok (snd (p_next (p_backup2 s t1))) = p_tok0 s /\ fst (p_next (p_backup2 s t1)) = t1.
Proof. split; reflexivity. Qed.

(* tree.next twice, tree.backup once (textOrTag's look-ahead), then errorf: the position comes from
   the SECOND item read, not from the first *)
Lemma err_tok_after_lookahead s :
  p_peek s = 0%nat ->
  let '(t1, s1) := p_next s in
  let '(t2, s2) := p_next s1 in
  err_tok (p_backup s2) = t2.
Proof.
  intros Hp. unfold p_next at 1. rewrite Hp. unfold recv.
  destruct (p_rest s) as [|a r]; cbn; unfold p_next; cbn; unfold recv; cbn; [reflexivity | destruct r; reflexivity].
Qed.

(* ... and once the scanner has closed its channel that second item is the zero item: position 0,
   which lineNumber / columnNumber turn into 1:0 -- ledger P5, the behaviour before bb87cc7 *)
Theorem P5_lookahead_past_the_end e :
  let s := pst_init [e] in
  let '(t1, s1) := p_next s in
  let '(t2, s2) := p_next s1 in
  t1 = e /\ err_tok (p_backup s2) = zero_tok /\ forall src, line_at src (t_pos zero_tok) = 1 /\ col_at src (t_pos zero_tok) = 0.
Proof. cbn. repeat split. Qed.

(* ------------------------------------------------------------------ *)
(* Part 3: the command-level parser model *)
From Soy Require Import Model.RawText Model.ExprParser Model.Parser.

(* tree.unexpected reports at the token it is given (after bb87cc7), never at the current token *)
Theorem unexpected_reports_its_token inlen A token ctx s r :
  @c_unexp inlen A token ctx s = r ->
  (t_pos token <= inlen -> exists cls, r = CErr token cls s) /\
  (inlen < t_pos token -> r = CCrash e_pslice).
Proof.
  intros <-. unfold c_unexp, c_error_at. split; intros H.
  - apply N.leb_le in H. destruct (tis token pit_Error); rewrite H; eexists; reflexivity.
  - apply N.leb_gt in H. destruct (tis token pit_Error); rewrite H; reflexivity.
Qed.

(* the P5 site: itemList hands textOrTag a lexical-error item (a stray closing brace in text, an
   unclosed comment, ... : the scanner's last item).  Whatever the parser state, the error that
   comes back is positioned at THAT item. *)
Theorem text_or_tag_error_item inlen lexq unq pexpr efuel pe w lf e until s :
  t_typ e = pit_Error -> one_of pit_Error until = false ->
  (p_peek (c_p s) <= 2)%nat -> t_pos e <= inlen ->
  exists s', text_or_tag inlen lexq unq pexpr efuel pe w (S lf) e until s = CErr e e_lexical s'.
Proof.
  intros Ht Hu Hp Hpos. unfold text_or_tag.
  assert (Hc : tis e pit_Comment = false) by (unfold tis; rewrite Ht; reflexivity).
  cbn [skip_comments]. rewrite Hc. cbn [cbind].
  rewrite Ht, Hu.
  unfold c_next. destruct (Nat.leb_spec 3 (p_peek (c_p s))) as [H3|H3]; [lia|].
  destruct (p_next (c_p s)) as [t2 p'] eqn:En. cbn [cbind].
  assert (Hld : tis e pit_LeftDelim = false) by (unfold tis; rewrite Ht; reflexivity).
  assert (Htx : tis e pit_Text = false) by (unfold tis; rewrite Ht; reflexivity).
  assert (Hsd : tis e pit_SoyDocStart = false) by (unfold tis; rewrite Ht; reflexivity).
  rewrite Hld, Htx, Hsd. cbn [andb].
  unfold c_unexp. assert (He : tis e pit_Error = true) by (unfold tis; rewrite Ht; reflexivity).
  rewrite He. unfold c_error_at. apply N.leb_le in Hpos. rewrite Hpos. eexists. reflexivity.
Qed.

(* an unknown command {foo $x}: the parser reads `foo` as a print of the global foo; the token that
   follows the expression and is neither `}` nor `|` is the one reported *)
Theorem print_trailing_token_reported inlen pe lf f pos e dirs s tok s1 :
  c_next s = COk tok s1 -> tis tok pit_RightDelim = false -> tis tok pit_Pipe = false -> t_pos tok <= inlen ->
  exists cls, cmd_print_loop inlen pe lf (S f) pos e dirs s = CErr tok cls s1.
Proof.
  intros Hn H1 H2 Hp. cbn [cmd_print_loop]. rewrite Hn. cbn [cbind]. rewrite H1, H2.
  destruct (unexpected_reports_its_token inlen node tok x_print s1 _ eq_refl) as [H _].
  exact (H Hp).
Qed.
