(* C15, scanner half: a {literal}s{/literal} block between two stretches of text. *)
From Soy Require Import Model.Bytes Model.Utf8 Model.Outcome Model.Token Generated.Tables Model.Lexer Spec.Text Spec.TextBody
  Proofs.Utf8Proofs Proofs.LexerPrim Proofs.LexerStates Proofs.LexTokens Proofs.LexBodyText Proofs.LexBodySeg Proofs.LexBodyCmd.
From Coq Require Import ZifyBool ZifyNat ZifyN Lia.
Open Scope Z_scope.

(* strings.Index on the model is the Spec's first_close *)
Lemma index_of_first_close : forall s i, index_of literal_close1 s i = match first_close s with Some k => Some (i + Z.of_nat k) | None => None end.
Proof.
  induction s as [|c r IH]; intros i.
  - reflexivity.
  - cbn [index_of first_close]. change lit_close with literal_close1.
    destruct (is_prefix literal_close1 (c :: r)); [f_equal; lia|]. rewrite IH. destruct (first_close r); [f_equal; lia|reflexivity].
Qed.

Lemma take_whole (x : bstr) : take (length x) x = x.
Proof. induction x as [|a x IH]; cbn; [reflexivity|]. rewrite IH. reflexivity. Qed.

(* the block without blanks *)
Lemma lit_name_sp_nil s : lit_name_sp [] s = lit_name s.
Proof. reflexivity. Qed.
Lemma cmd_ok_lit s : lit_closed s -> cmd_ok (lit_name s, s).
Proof. intros H. right. exists []. split; [constructor|]. split; [reflexivity|exact H]. Qed.

Section Lit.
Variable uni_letter uni_digit : Z -> bool.
Hypothesis letter_ascii : forall c, (c < 128)%N -> uni_letter (Z.of_N c) = ((65 <=? c) && (c <=? 90) || (97 <=? c) && (c <=? 122))%N.
Hypothesis digit_ascii : forall c, (c < 128)%N -> uni_digit (Z.of_N c) = digit_b c.
Hypothesis letter_eof : uni_letter (-1) = false.
Hypothesis digit_eof : uni_digit (-1) = false.
Variable inp : bstr.
Notation steps := (steps uni_letter uni_digit inp 0).
Notation span := (span inp).
Notation ilen := (Z.of_nat (length inp)).

Definition w_literal : bstr := [108; 105; 116; 101; 114; 97; 108]%N.

(* the word "literal" inside the tag: the scanner goes to lexLiteral *)
Lemma lex_word_literal l s : span l [] (w_literal ++ s) -> stops s ->
  exists l', steps 2 LInsideTag l = Ok (LLiteral, l') /\ span l' [] s /\ sent itemLiteral w_literal l l'.
Proof.
  intros Hs Hst. unfold w_literal in *. set (c0 := 108%N) in *. set (cs := [105; 116; 101; 114; 97; 108]%N) in *.
  assert (Hs' : span l [] (c0 :: cs ++ s)) by exact Hs.
  destruct (next_ascii inp l [] c0 (cs ++ s) Hs' ltac:(unfold c0; lia)) as (Hn & Hs1).
  pose proof (span_backup inp l [] c0 (cs ++ s) Hs') as Hsb.
  set (lb := backup (adv l)) in *.
  assert (H1 : step uni_letter uni_digit inp ilen 0 LInsideTag l = Ok (LIdent, lb)).
  { cbn [step]. unfold lex_inside_tag. rewrite Hn. cbn [bind]. unfold c0. eval_tests. reflexivity. }
  destruct (next_ascii inp lb [] c0 (cs ++ s) Hsb ltac:(unfold c0; lia)) as (Hn2 & Hs2).
  destruct (alnum_loop_run uni_letter uni_digit letter_ascii digit_ascii letter_eof digit_eof inp cs (adv lb) ([] ++ [c0]) s
              (loop_fuel ilen (adv lb)) Hs2 eq_refl Hst) as (l3 & Hloop & Hs3 & Ho3 & Hla3 & Hd3).
  { pose proof (span_bounds inp _ _ _ Hs2) as (Hb0 & Hl0). rewrite app_length in Hl0. unfold loop_fuel. lia. }
  cbn [app] in Hs3.
  destruct (emit_span inp 0 itemLiteral (backup l3) (c0 :: cs) s Hs3) as (He & Hs4).
  exists (emitted 0 itemLiteral (backup l3) (c0 :: cs)). split; [|split; [exact Hs4|]].
  - change 2%nat with (1 + 1)%nat. rewrite (steps_app _ _ _ _ 1 1 _ _ _ _ (steps_one _ _ _ _ _ _ _ _ H1)).
    apply steps_one. cbn [step]. unfold lex_ident. rewrite Hn2. cbn [bind]. unfold c0 at 1 2 3 4 5. eval_tests.
    rewrite Hloop. cbn [bind]. rewrite (slice_span inp (backup l3) (c0 :: cs) s Hs3). cbn [bind].
    change (assoc_s (c0 :: cs) builtin_idents) with (Some itemLiteral). cbv iota beta. rewrite He. cbn [bind]. reflexivity.
  - apply sent_emitted; unfold backup, set_pos; cbn [l_out l_last l_dd]; [rewrite Ho3|rewrite Hla3|rewrite Hd3]; reflexivity.
Qed.

Lemma span_tick l w s n : span l w s -> span (tick l n) w s.
Proof. intros H. exact H. Qed.

(* `for isSpace(ch) { ch = l.next() }` over a run of spaces and tabs that ends at "}" *)
Lemma literal_space_run : forall sp w l rest f, Forall lit_blank sp -> span l w (sp ++ [125%N] ++ rest) -> (length sp < f)%nat ->
  exists l1, span l1 (w ++ sp ++ [125%N]) rest /\ l_dd l1 = l_dd l /\ l_out l1 = l_out l /\
    (forall c0 l0, next inp ilen l = Ok (c0, l0) ->
       literal_space_loop inp ilen f c0 l0 = Ok (125, l1)).
Proof.
  induction sp as [|c sp IH]; intros w l rest f Hsp Hs Hf.
  - cbn [app] in Hs. destruct (next_ascii inp l w 125%N rest Hs ltac:(lia)) as (Hn & Hs1).
    exists (adv l). split; [exact Hs1|]. split; [reflexivity|]. split; [reflexivity|]. intros c0 l0 E. rewrite Hn in E. injection E as <- <-.
    destruct f as [|f]; [cbn in Hf; lia|]. cbn [literal_space_loop]. reflexivity.
  - inversion Hsp as [|? ? Hc Hsp']; subst. cbn [app] in Hs.
    assert (Hc128 : (c < 128)%N) by (destruct Hc; subst; lia).
    destruct (next_ascii inp l w c (sp ++ [125%N] ++ rest) Hs Hc128) as (Hn & Hs1).
    destruct f as [|f]; [cbn in Hf; lia|].
    destruct (IH (w ++ [c]) (adv l) rest f Hsp' Hs1 ltac:(cbn in Hf; lia)) as (l1 & Hs2 & Hd2 & Ho2 & Hrun).
    exists l1. split; [rewrite <- app_assoc in Hs2; exact Hs2|]. split; [rewrite Hd2; reflexivity|]. split; [rewrite Ho2; reflexivity|].
    intros c0 l0 E. rewrite Hn in E. injection E as <- <-. cbn [literal_space_loop].
    assert (Hsp1 : gen_isSpace (Z.of_N c) = true) by (destruct Hc; subst; reflexivity). rewrite Hsp1.
    destruct (next inp ilen (adv l)) as [[c1 l1']| | | | |] eqn:En; try (destruct sp; cbn [app] in Hs1;
      [destruct (next_ascii inp (adv l) (w ++ [c]) 125%N rest Hs1 ltac:(lia)) as (Hn' & _)|
       inversion Hsp' as [|? ? Hc' _]; subst; destruct (next_ascii inp (adv l) (w ++ [c]) _ _ Hs1 ltac:(destruct Hc'; subst; lia)) as (Hn' & _)];
      rewrite Hn' in En; discriminate En).
    cbn [bind]. apply Hrun. reflexivity.
Qed.

(* lexLiteral: blanks, "}" s "{/literal}" *)
Lemma lex_literal_run l sp s rest : Forall lit_blank sp -> span l [] (sp ++ [125%N] ++ s ++ literal_close1 ++ rest) -> l_dd l = false -> lit_closed s ->
  exists l' p1 p2 p3 p4 p5, steps 1 LLiteral l = Ok (LText, l') /\ span l' [] rest /\
    l_out l' = {| t_typ := itemRightDelim; t_pos := p5; t_val := [125%N] |} :: {| t_typ := itemLiteralEnd; t_pos := p4; t_val := literal_end_kw |} ::
               {| t_typ := itemLeftDelim; t_pos := p3; t_val := [123%N] |} :: {| t_typ := itemText; t_pos := p2; t_val := s |} ::
               {| t_typ := itemRightDelim; t_pos := p1; t_val := sp ++ [125%N] |} :: l_out l /\
    l_last l' = {| t_typ := itemRightDelim; t_pos := p5; t_val := [125%N] |} /\ l_dd l' = false.
Proof.
  intros Hsp Hs Hdd Hcl.
  assert (Hfuel : forall c0 l0, next inp ilen l = Ok (c0, l0) -> (length sp < S (loop_fuel ilen l0))%nat).
  { intros c0 l0 E. pose proof (span_bounds inp _ _ _ Hs) as (Hb0 & Hl0). rewrite !app_length in Hl0. cbn [length] in Hl0.
    destruct sp as [|c sp']; [cbn [length]; lia|]. inversion Hsp as [|? ? Hc _]; subst. cbn [app] in Hs.
    destruct (next_ascii inp l [] c _ Hs ltac:(destruct Hc; subst; lia)) as (Hn & _). rewrite Hn in E. injection E as _ <-.
    unfold loop_fuel, adv. cbn [l_pos length] in *. lia. }
  assert (Hnx : exists c0 l0, next inp ilen l = Ok (c0, l0)).
  { destruct sp as [|c sp']; cbn [app] in Hs.
    - destruct (next_ascii inp l [] 125%N _ Hs ltac:(lia)) as (Hn & _). eauto.
    - inversion Hsp as [|? ? Hc _]; subst. destruct (next_ascii inp l [] c _ Hs ltac:(destruct Hc; subst; lia)) as (Hn & _). eauto. }
  destruct Hnx as (c0 & l0 & Hn).
  destruct (literal_space_run sp [] l (s ++ literal_close1 ++ rest) (S (loop_fuel ilen l0)) Hsp Hs (Hfuel _ _ Hn)) as (la & Hs1 & Hdda & Hoa & Hloop).
  specialize (Hloop c0 l0 Hn). cbn [app] in Hs1.
  destruct (emit_span inp 0 itemRightDelim la (sp ++ [125%N]) _ Hs1) as (He1 & Hs2). set (l3 := emitted 0 itemRightDelim la (sp ++ [125%N])) in *.
  assert (Hdd3 : l_dd l3 = false) by (unfold l3, emitted; cbn [l_dd]; rewrite Hdda; exact Hdd).
  (* the rest of the input and the index of the closing tag *)
  pose proof (span_cur inp _ _ _ Hs2) as (Hp3 & Hd3). pose proof (span_bounds inp _ _ _ Hs2) as (Hb3 & Hl3).
  assert (Hsl : slice inp ilen (l_pos l3) ilen = Ok (s ++ literal_close1 ++ rest)).
  { unfold slice. destruct ((l_pos l3 <? 0) || (ilen <? l_pos l3) || (ilen <? ilen)) eqn:E; [exfalso; lia|].
    rewrite Hd3. replace (Z.to_nat (ilen - l_pos l3)) with (length (s ++ literal_close1 ++ rest)) by lia. rewrite take_whole. reflexivity. }
  assert (Hidx : index_of literal_close1 (s ++ literal_close1 ++ rest) 0 = Some (Z.of_nat (length s))).
  { rewrite index_of_first_close. change literal_close1 with lit_close. rewrite (Hcl rest). f_equal. }
  (* the four items after the index *)
  pose proof (span_fwd inp l3 [] s (literal_close1 ++ rest) Hs2) as Hs4. cbn [app] in Hs4.
  set (l4 := tick (set_pos l3 (l_pos l3 + Z.of_nat (length s))) (Z.of_nat (length s) + Z.of_nat (length literal_close1))).
  assert (Hs4' : span l4 s (literal_close1 ++ rest)) by exact Hs4.
  destruct (emit_span inp 0 itemText l4 s _ Hs4') as (He5 & Hs5). set (l5 := emitted 0 itemText l4 s) in *.
  assert (Hs5' : span l5 [] ([123%N] ++ literal_end_kw ++ [125%N] ++ rest)) by exact Hs5.
  pose proof (span_fwd inp l5 [] [123%N] _ Hs5') as Hs6. cbn [app length] in Hs6.
  destruct (emit_span inp 0 itemLeftDelim (set_pos l5 (l_pos l5 + 1)) [123%N] _ Hs6) as (He6 & Hs6'). set (l6 := emitted 0 itemLeftDelim (set_pos l5 (l_pos l5 + 1)) [123%N]) in *.
  pose proof (span_fwd inp l6 [] literal_end_kw _ Hs6') as Hs7. cbn [app] in Hs7.
  destruct (emit_span inp 0 itemLiteralEnd (set_pos l6 (l_pos l6 + Z.of_nat (length literal_end_kw))) literal_end_kw _ Hs7) as (He7 & Hs7').
  set (l7 := emitted 0 itemLiteralEnd (set_pos l6 (l_pos l6 + Z.of_nat (length literal_end_kw))) literal_end_kw) in *.
  assert (Hs7'' : span l7 [] ([125%N] ++ rest)) by exact Hs7'.
  pose proof (span_fwd inp l7 [] [125%N] _ Hs7'') as Hs8. cbn [app length] in Hs8.
  destruct (emit_span inp 0 itemRightDelim (set_pos l7 (l_pos l7 + 1)) [125%N] _ Hs8) as (He8 & Hs8').
  eexists _, _, _, _, _, _. split; [|split; [exact Hs8'|]].
  - apply steps_one. cbn [step]. unfold lex_literal. rewrite Hn. cbn [bind]. rewrite Hloop. cbn [bind].
    change (negb (125 =? 125)) with false. cbv iota.
    unfold double_close. rewrite Hdda, Hdd. cbn [bind]. rewrite He1. cbn [bind]. fold l3. rewrite Hdd3, Hsl. cbn [bind].
    rewrite Hidx. fold l4. rewrite He5. cbn [bind]. fold l5. rewrite He6. cbn [bind]. fold l6. rewrite He7. cbn [bind]. fold l7. rewrite He8. reflexivity.
  - unfold emitted, mktok, l7, l6, l5, l4, l3, tick, set_pos. cbn [l_out l_last l_dd emitted mktok]. rewrite Hoa, Hdda. repeat split. exact Hdd.
Qed.

(* the whole block, from lexLeftDelim to the lexText after it *)
Lemma lex_literal_cmd l sp s rest : Forall lit_blank sp -> span l [] ([123%N] ++ lit_name_sp sp s ++ [125%N] ++ rest) -> lit_closed s ->
  exists k l' ld kw rd tx ld2 ke rd2, steps k LLeftDelim l = Ok (LText, l') /\ span l' [] rest /\
    l_out l' = rd2 :: ke :: ld2 :: tx :: rd :: kw :: ld :: l_out l /\
    t_typ ld = itemLeftDelim /\ t_typ kw = itemLiteral /\ t_typ rd = itemRightDelim /\ t_typ tx = itemText /\ t_val tx = s /\
    t_typ ld2 = itemLeftDelim /\ t_typ ke = itemLiteralEnd /\ t_typ rd2 = itemRightDelim /\
    l_last l' = rd2 /\ t_val rd2 = [125%N] /\ l_dd l' = false.
Proof.
  intros Hsp Hs Hcl.
  assert (E : [123%N] ++ lit_name_sp sp s ++ [125%N] ++ rest = 123%N :: 108%N :: [105; 116; 101; 114; 97; 108]%N ++ sp ++ [125%N] ++ s ++ literal_close1 ++ rest).
  { unfold lit_name_sp, lit_word, lit_close_head, literal_close1. cbn [app]. do 8 f_equal. rewrite <- !app_assoc. cbn [app]. rewrite <- !app_assoc. reflexivity. }
  rewrite E in Hs.
  destruct (delim_begin uni_letter uni_digit letter_ascii digit_ascii letter_eof digit_eof inp l 108%N _ Hs ltac:(lia) ltac:(lia) ltac:(lia)) as (l1 & p1 & Hst1 & Hs1 & Ho1 & Hla1 & Hdd1).
  change (108 =? 92)%N with false in Hst1. cbv iota in Hst1.
  assert (Hs1' : span l1 [] (w_literal ++ sp ++ [125%N] ++ s ++ literal_close1 ++ rest)) by exact Hs1.
  assert (Hstop : stops (sp ++ [125%N] ++ s ++ literal_close1 ++ rest)).
  { destruct sp as [|c sp']; [cbn; split; [lia|reflexivity]|]. inversion Hsp as [|? ? Hc _]; subst. destruct Hc; subst; cbn; split; (lia || reflexivity). }
  destruct (lex_word_literal l1 _ Hs1' Hstop) as (l2 & Hst2 & Hs2 & (p2 & Ho2 & Hla2 & Hdd2)).
  destruct (lex_literal_run l2 sp s rest Hsp Hs2 ltac:(congruence) Hcl) as (l3 & q1 & q2 & q3 & q4 & q5 & Hst3 & Hs3 & Ho3 & Hla3 & Hdd3).
  exists (2 + (2 + 1))%nat, l3. do 7 eexists. split.
  { rewrite (steps_app _ _ _ _ 2 _ _ _ _ _ Hst1), (steps_app _ _ _ _ 2 _ _ _ _ _ Hst2). exact Hst3. }
  split; [exact Hs3|]. split; [rewrite Ho3, Ho2, Ho1; reflexivity|]. cbn [t_typ t_val]. repeat split; assumption.
Qed.

End Lit.
