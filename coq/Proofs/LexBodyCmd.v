(* C15, scanner half: a special-character command {sp} {nil} {\n} {\r} {\t} {lb} {rb} between two stretches
   of text: from lexLeftDelim to the lexText that follows the closing brace. *)
From Soy Require Import Model.Bytes Model.Utf8 Model.Outcome Model.Token Generated.Tables Model.Lexer Spec.Text Spec.TextBody
  Proofs.Utf8Proofs Proofs.LexerPrim Proofs.LexerStates Proofs.LexTokens Proofs.LexBodyText Proofs.LexBodySeg.
From Coq Require Import ZifyBool ZifyNat ZifyN Lia.
Open Scope Z_scope.

Lemma special_cmds_table : forall name out, In (name, out) special_cmds ->
  exists t, assoc_s name builtin_idents = Some t /\ assoc t parser_special_chars = Some out /\
            t <> itemLiteral /\ t <> itemCss /\ t <> pit_Text /\ t <> pit_Comment /\ t <> pit_EOF /\
            exists c0 cs, name = c0 :: cs /\ (c0 < 128)%N /\ c0 <> 123%N /\ c0 <> 47%N /\
              forallb (fun c => (c <? 128)%N && alnum_b c) cs = true /\ (letter_b c0 = true \/ c0 = 92%N).
Proof.
  intros name out Hin. unfold special_cmds in Hin.
  repeat (destruct Hin as [E|Hin]; [injection E as <- <-; eexists; split; [vm_compute; reflexivity|]; split; [vm_compute; reflexivity|];
    repeat (split; [discriminate|]); eexists; eexists; split; [reflexivity|]; repeat split; try lia; try discriminate;
    first [left; reflexivity|right; reflexivity]|]).
  contradiction.
Qed.

Section Cmd.
Variable uni_letter uni_digit : Z -> bool.
Hypothesis letter_ascii : forall c, (c < 128)%N -> uni_letter (Z.of_N c) = ((65 <=? c) && (c <=? 90) || (97 <=? c) && (c <=? 122))%N.
Hypothesis digit_ascii : forall c, (c < 128)%N -> uni_digit (Z.of_N c) = digit_b c.
Hypothesis letter_eof : uni_letter (-1) = false.
Hypothesis digit_eof : uni_digit (-1) = false.
Variable inp : bstr.
Notation steps := (steps uni_letter uni_digit inp 0).
Notation span := (span inp).
Notation ilen := (Z.of_nat (length inp)).

(* lexLeftDelim and lexBeginTag on "{" followed by a command name *)
Lemma delim_begin l c s : span l [] (123%N :: c :: s) -> (c < 128)%N -> c <> 123%N -> c <> 47%N ->
  exists l' p, steps 2 LLeftDelim l = Ok ((if (c =? 92)%N then LIdent else LInsideTag), l') /\ span l' [] (c :: s) /\
    l_out l' = {| t_typ := itemLeftDelim; t_pos := p; t_val := [123%N] |} :: l_out l /\
    l_last l' = {| t_typ := itemLeftDelim; t_pos := p; t_val := [123%N] |} /\ l_dd l' = false.
Proof.
  intros Hs Hc H1 H2.
  destruct (next_ascii inp l [] 123%N (c :: s) Hs ltac:(lia)) as (Hn1 & Hs2).
  destruct (next_ascii inp (adv l) ([] ++ [123%N]) c s Hs2 Hc) as (Hn2 & Hs3).
  pose proof (span_backup inp (adv l) ([] ++ [123%N]) c s Hs2) as Hsb2.
  set (l3 := set_dd (backup (adv (adv l))) false).
  assert (Hs3' : span l3 [123%N] (c :: s)).
  { destruct Hsb2 as (A & B & C). unfold l3, LexTokens.span, set_dd. cbn [l_start l_pos]. auto. }
  destruct (emit_span inp 0 itemLeftDelim l3 [123%N] (c :: s) Hs3') as (He & Hs4).
  assert (Hst2 : step uni_letter uni_digit inp ilen 0 LLeftDelim l = Ok (LBeginTag, emitted 0 itemLeftDelim l3 [123%N])).
  { cbn [step]. unfold lex_left_delim. rewrite Hn1. cbn [bind]. rewrite Hn2. cbn [bind].
    assert (E : (Z.of_N c =? 123) = false) by lia. rewrite E. fold l3. rewrite He. reflexivity. }
  set (l4 := emitted 0 itemLeftDelim l3 [123%N]) in *.
  destruct (next_ascii inp l4 [] c s Hs4 Hc) as (Hn4 & Hs5).
  pose proof (span_backup inp l4 [] c s Hs4) as Hsb4.
  assert (Hst3 : step uni_letter uni_digit inp ilen 0 LBeginTag l4 = Ok ((if (c =? 92)%N then LIdent else LInsideTag), backup (adv l4))).
  { cbn [step]. unfold lex_begin_tag, peek. rewrite Hn4. cbn [bind].
    destruct (N.eqb_spec c 92) as [->|Hne]; [reflexivity|].
    assert (E : ((Z.of_N c =? 47) || (Z.of_N c =? 92)) = false) by lia. rewrite E. reflexivity. }
  exists (backup (adv l4)), (Z.to_N (0 + l_pos l3)). split; [|split; [exact Hsb4|]].
  - change 2%nat with (1 + 1)%nat. rewrite (steps_app _ _ _ _ 1 1 _ _ _ _ (steps_one _ _ _ _ _ _ _ _ Hst2)). apply steps_one. exact Hst3.
  - unfold backup, adv, set_pos, l4, emitted, mktok, l3, set_dd. cbn [l_out l_last l_dd]. auto.
Qed.

(* a backslash command name, in state lexIdent *)
Lemma ident_backslash l cs s t : span l [] (92%N :: cs ++ s) -> forallb (fun c => (c <? 128)%N && alnum_b c) cs = true -> stops s ->
  assoc_s (92%N :: cs) builtin_idents = Some t -> t <> itemLiteral -> t <> itemCss ->
  exists l', steps 1 LIdent l = Ok (LInsideTag, l') /\ span l' [] s /\ sent t (92%N :: cs) l l'.
Proof.
  intros Hs Hcs Hst Ht Hnl Hnc.
  destruct (next_ascii inp l [] 92%N (cs ++ s) Hs ltac:(lia)) as (Hn & Hs1).
  destruct (alnum_loop_run uni_letter uni_digit letter_ascii digit_ascii letter_eof digit_eof inp cs (adv l) ([] ++ [92%N]) s
              (loop_fuel ilen (adv l)) Hs1 Hcs Hst) as (l3 & Hloop & Hs3 & Ho3 & Hla3 & Hd3).
  { pose proof (span_bounds inp _ _ _ Hs1) as (Hb0 & Hl0). rewrite app_length in Hl0. unfold loop_fuel. lia. }
  cbn [app] in Hs3.
  destruct (emit_span inp 0 t (backup l3) (92%N :: cs) s Hs3) as (He & Hs4).
  exists (emitted 0 t (backup l3) (92%N :: cs)). split; [|split; [exact Hs4|]].
  - apply steps_one. cbn [step]. unfold lex_ident. rewrite Hn. cbn [bind].
    change (Z.of_N 92 =? 46) with false. change (Z.of_N 92 =? 36) with false. change (Z.of_N 92 =? 47) with false.
    change (Z.of_N 92 =? 92) with true. cbv iota. cbn [bind]. rewrite Hloop. cbn [bind].
    rewrite (slice_span inp (backup l3) (92%N :: cs) s Hs3). cbn [bind]. rewrite Ht, He. cbn [bind].
    destruct (N.eqb_spec t itemLiteral); [congruence|]. destruct (N.eqb_spec t itemCss); [congruence|]. reflexivity.
  - apply sent_emitted; unfold backup, set_pos; cbn [l_out l_last l_dd]; [rewrite Ho3|rewrite Hla3|rewrite Hd3]; reflexivity.
Qed.

(* "}" closes the tag: lexInsideTag, lexRightDelim; the scanner is back in lexText *)
Lemma close_brace l s : span l [] (125%N :: s) -> l_dd l = false ->
  exists l' p, steps 2 LInsideTag l = Ok (LText, l') /\ span l' [] s /\
    l_out l' = {| t_typ := itemRightDelim; t_pos := p; t_val := [125%N] |} :: l_out l /\
    l_last l' = {| t_typ := itemRightDelim; t_pos := p; t_val := [125%N] |} /\ l_dd l' = false.
Proof.
  intros Hs Hdd.
  destruct (next_ascii inp l [] 125%N s Hs ltac:(lia)) as (Hn & Hs1).
  assert (Hst1 : step uni_letter uni_digit inp ilen 0 LInsideTag l = Ok (LRightDelim, adv l)).
  { cbn [step]. unfold lex_inside_tag. rewrite Hn. cbn [bind]. eval_tests. reflexivity. }
  destruct (emit_span inp 0 itemRightDelim (adv l) [125%N] s Hs1) as (He & Hs2).
  assert (Hst2 : step uni_letter uni_digit inp ilen 0 LRightDelim (adv l) = Ok (LText, emitted 0 itemRightDelim (adv l) [125%N])).
  { cbn [step]. unfold lex_right_delim, double_close. cbn [adv l_dd]. rewrite Hdd. cbn [bind]. rewrite He. reflexivity. }
  exists (emitted 0 itemRightDelim (adv l) [125%N]), (Z.to_N (0 + l_pos (adv l))). split; [|split; [exact Hs2|]].
  - change 2%nat with (1 + 1)%nat. rewrite (steps_app _ _ _ _ 1 1 _ _ _ _ (steps_one _ _ _ _ _ _ _ _ Hst1)). apply steps_one. exact Hst2.
  - unfold emitted, mktok, adv. cbn [l_out l_last l_dd]. auto.
Qed.

(* the whole command *)
Lemma lex_special_cmd l name out s : In (name, out) special_cmds -> span l [] ([123%N] ++ name ++ [125%N] ++ s) ->
  exists k l' ld c rd, steps k LLeftDelim l = Ok (LText, l') /\ span l' [] s /\ l_out l' = rd :: c :: ld :: l_out l /\
    t_typ ld = itemLeftDelim /\ t_typ rd = itemRightDelim /\ assoc (t_typ c) parser_special_chars = Some out /\
    l_last l' = rd /\ t_val rd = [125%N] /\ l_dd l' = false.
Proof.
  intros Hin Hs. destruct (special_cmds_table name out Hin) as (t & Hb & Hsp & Hnl & Hnc & _ & _ & _ & c0 & cs & -> & Hc0 & H123 & H47 & Hcs & Hkind).
  assert (Hs' : span l [] (123%N :: c0 :: cs ++ 125%N :: s)) by exact Hs.
  destruct (delim_begin l c0 (cs ++ 125%N :: s) Hs' Hc0 H123 H47) as (l1 & p1 & Hst1 & Hs1 & Ho1 & Hla1 & Hdd1).
  assert (Hstop : stops (125%N :: s)) by (cbn; split; [lia|reflexivity]).
  assert (Hmid : exists k2 l2, steps k2 (if (c0 =? 92)%N then LIdent else LInsideTag) l1 = Ok (LInsideTag, l2) /\
                   span l2 [] (125%N :: s) /\ sent t (c0 :: cs) l1 l2).
  { destruct Hkind as [Hlet| ->].
    - assert (E : (c0 =? 92)%N = false) by (unfold letter_b in Hlet; lia). rewrite E.
      destruct (lex_word uni_letter uni_digit letter_ascii digit_ascii letter_eof digit_eof inp 0 l1 c0 cs (125%N :: s) Hs1 Hc0 Hlet Hcs Hstop)
        as (l2 & A & B & C); [unfold word_type; rewrite Hb; exact Hnl|unfold word_type; rewrite Hb; exact Hnc|].
      unfold word_type in C. rewrite Hb in C. eauto.
    - change (92 =? 92)%N with true. cbv iota.
      destruct (ident_backslash l1 cs (125%N :: s) t Hs1 Hcs Hstop Hb Hnl Hnc) as (l2 & A & B & C). eauto. }
  destruct Hmid as (k2 & l2 & Hst2 & Hs2 & (p2 & Ho2 & Hla2 & Hdd2)).
  destruct (close_brace l2 s Hs2 ltac:(congruence)) as (l3 & p3 & Hst3 & Hs3 & Ho3 & Hla3 & Hdd3).
  exists (2 + (k2 + 2))%nat, l3. eexists; eexists; eexists. split.
  { rewrite (steps_app _ _ _ _ 2 _ _ _ _ _ Hst1), (steps_app _ _ _ _ k2 _ _ _ _ _ Hst2). exact Hst3. }
  split; [exact Hs3|]. split; [rewrite Ho3, Ho2, Ho1; reflexivity|]. cbn [t_typ t_val]. repeat split; try assumption.
Qed.

End Cmd.
