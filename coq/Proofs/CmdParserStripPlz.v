(* The message-body rewriting of Model/Parser.v ([msg_raw_text], [plz], [plz_children]) and the two
   observers [children_of] / [is_plural] respect equality up to positions ([cps_strip]). *)
From Soy Require Import Model.Bytes Model.Num Model.Values Model.Ast Model.Token Model.RawText Model.ExprParser Model.Parser
  Generated.Tables Spec.ExprSyntax Proofs.ExprParserStrip.
From Soy Require Import Proofs.CmdParserStripDefs.
Require Import Lia List PeanoNat.
Import ListNotations.
Open Scope N_scope.

(* ---- 1. raw text split ---- *)
Lemma cps_msg_raw_text_loop f : forall p p' txt,
  map cps_strip (msg_raw_text_loop f p txt) = map cps_strip (msg_raw_text_loop f p' txt).
Proof.
  induction f as [|f IH]; intros p p' txt; [reflexivity|].
  destruct txt as [|b txt]; [reflexivity|].
  cbn [msg_raw_text_loop].
  destruct (find_tag (b :: txt) 0) as [[st en]|]; [|reflexivity].
  cbv zeta. rewrite !map_app. cbn [map cps_strip]. f_equal.
  - destruct (0 <? st)%nat; reflexivity.
  - f_equal. apply IH.
Qed.

Lemma cps_msg_raw_text p p' t : map cps_strip (msg_raw_text p t) = map cps_strip (msg_raw_text p' t).
Proof. unfold msg_raw_text. apply cps_msg_raw_text_loop. Qed.

(* ---- the constructors that matter here ---- *)
Definition cps_shape (n : node) : nat :=
  match n with
  | NRawText _ _ => 1
  | NMsgPlural _ _ _ _ _ => 2
  | NMsgPluralCase _ _ _ => 3
  | NList _ _ => 4
  | _ => 0
  end%nat.

Lemma cps_shape_strip n : cps_shape (cps_strip n) = cps_shape n.
Proof. destruct n; reflexivity. Qed.

Lemma cps_shape_eq n n' : cps_strip n = cps_strip n' -> cps_shape n = cps_shape n'.
Proof. intros H. apply (f_equal cps_shape) in H. rewrite !cps_shape_strip in H. exact H. Qed.

Lemma cps_shape_raw n : cps_shape n = 1%nat -> exists p t, n = NRawText p t.
Proof. destruct n; cbn [cps_shape]; intros H; try discriminate H. eauto. Qed.
Lemma cps_shape_plural n : cps_shape n = 2%nat -> exists p vn v cases dflt, n = NMsgPlural p vn v cases dflt.
Proof. destruct n; cbn [cps_shape]; intros H; try discriminate H. eauto 6. Qed.
Lemma cps_shape_case n : cps_shape n = 3%nat -> exists p v body, n = NMsgPluralCase p v body.
Proof. destruct n; cbn [cps_shape]; intros H; try discriminate H. eauto. Qed.
Lemma cps_shape_list n : cps_shape n = 4%nat -> exists p l, n = NList p l.
Proof. destruct n; cbn [cps_shape]; intros H; try discriminate H. eauto. Qed.

Lemma cps_plz_other n : cps_shape n <> 1%nat -> cps_shape n <> 2%nat -> plz n = [NMsgPlaceholder (pos_of n) [] n].
Proof. destruct n; cbn [cps_shape]; intros H1 H2; try reflexivity; [elim H1 | elim H2]; reflexivity. Qed.

Lemma cps_children_other n : cps_shape n <> 4%nat -> children_of n = [].
Proof. destruct n; cbn [cps_shape]; intros H; try reflexivity. elim H; reflexivity. Qed.

(* ---- [plz] on a plural node, with the local fixes named ---- *)
Definition cps_pcase (c : node) : node :=
  match c with
  | NMsgPluralCase cp cv body => NMsgPluralCase cp cv (plz_children body)
  | other => other
  end.
Fixpoint cps_pcases (l : list node) : list node :=
  match l with [] => [] | c :: r => cps_pcase c :: cps_pcases r end.

Lemma cps_plz_plural p vn v cases dflt :
  plz (NMsgPlural p vn v cases dflt) = [NMsgPlural p [] v (cps_pcases cases) (plz_children dflt)].
Proof. reflexivity. Qed.

Lemma cps_pcase_other c : cps_shape c <> 3%nat -> cps_pcase c = c.
Proof. destruct c; cbn [cps_shape]; intros H; try reflexivity. elim H; reflexivity. Qed.

(* ---- depth through plural nesting ---- *)
Fixpoint cps_pd (n : node) : nat :=
  match n with
  | NMsgPlural _ _ _ cases dflt =>
      S (Nat.max (list_max (map (fun c => match c with
                                          | NMsgPluralCase _ _ body => list_max (map cps_pd body)
                                          | _ => O
                                          end) cases))
                 (list_max (map cps_pd dflt)))
  | _ => O
  end.
Definition cps_cd (c : node) : nat :=
  match c with NMsgPluralCase _ _ body => list_max (map cps_pd body) | _ => O end.

Lemma cps_pd_plural p vn v cases dflt :
  cps_pd (NMsgPlural p vn v cases dflt) = S (Nat.max (list_max (map cps_cd cases)) (list_max (map cps_pd dflt))).
Proof. reflexivity. Qed.

Lemma cps_list_max_cons x l : list_max (x :: l) = Nat.max x (list_max l).
Proof. reflexivity. Qed.

Section Depth.
Variable k : nat.
Hypothesis IH : forall n n', (cps_pd n < k)%nat -> cps_strip n = cps_strip n' ->
  map cps_strip (plz n) = map cps_strip (plz n').

Lemma cps_plz_children_depth : forall l l', (list_max (map cps_pd l) < k)%nat ->
  cps_leq l l' -> cps_leq (plz_children l) (plz_children l').
Proof.
  unfold cps_leq. induction l as [|x r IHr]; intros l' Hd H; destruct l' as [|x' r']; cbn [map] in H; try discriminate H.
  - reflexivity.
  - injection H as Hx Hr. cbn [map] in Hd. rewrite cps_list_max_cons in Hd.
    cbn [plz_children]. rewrite !map_app. f_equal.
    + apply IH; [lia | exact Hx].
    + apply IHr; [lia | exact Hr].
Qed.

Lemma cps_pcases_depth : forall l l', (list_max (map cps_cd l) < k)%nat ->
  cps_leq l l' -> cps_leq (cps_pcases l) (cps_pcases l').
Proof.
  unfold cps_leq. induction l as [|c r IHr]; intros l' Hd H; destruct l' as [|c' r']; cbn [map] in H; try discriminate H.
  - reflexivity.
  - injection H as Hc Hr. cbn [map] in Hd. rewrite cps_list_max_cons in Hd.
    cbn [cps_pcases map]. f_equal; [|apply IHr; [lia | exact Hr]].
    pose proof (cps_shape_eq _ _ Hc) as Hs.
    destruct (Nat.eq_dec (cps_shape c) 3) as [E|E].
    + destruct (cps_shape_case c E) as (cp & cv & body & ->). rewrite E in Hs.
      destruct (cps_shape_case c' (eq_sym Hs)) as (cp' & cv' & body' & ->).
      cbn [cps_strip] in Hc. injection Hc as Hv Hb. subst cv'.
      cbn [cps_pcase cps_strip]. f_equal.
      apply cps_plz_children_depth; [|exact Hb]. cbn [cps_cd] in Hd. lia.
    + rewrite (cps_pcase_other c E), (cps_pcase_other c') by congruence. exact Hc.
Qed.
End Depth.

Lemma cps_plz_depth k : forall n n', (cps_pd n < k)%nat -> cps_strip n = cps_strip n' ->
  map cps_strip (plz n) = map cps_strip (plz n').
Proof.
  induction k as [|k IH]; intros n n' Hd H; [lia|].
  pose proof (cps_shape_eq _ _ H) as Hs.
  destruct (Nat.eq_dec (cps_shape n) 1) as [E1|E1].
  - destruct (cps_shape_raw n E1) as (p & t & ->). rewrite E1 in Hs.
    destruct (cps_shape_raw n' (eq_sym Hs)) as (p' & t' & ->).
    cbn [cps_strip] in H. injection H as <-. cbn [plz]. apply cps_msg_raw_text.
  - destruct (Nat.eq_dec (cps_shape n) 2) as [E2|E2].
    + destruct (cps_shape_plural n E2) as (p & vn & v & cases & dflt & ->). rewrite E2 in Hs.
      destruct (cps_shape_plural n' (eq_sym Hs)) as (p' & vn' & v' & cases' & dflt' & ->).
      cbn [cps_strip] in H. injection H as Hvn Hv Hc Hdf.
      rewrite cps_pd_plural in Hd. rewrite !cps_plz_plural. cbn [map cps_strip]. rewrite Hv.
      rewrite (cps_pcases_depth k IH cases cases') by (try exact Hc; lia).
      rewrite (cps_plz_children_depth k IH dflt dflt') by (try exact Hdf; lia).
      reflexivity.
    + rewrite (cps_plz_other n), (cps_plz_other n') by congruence. cbn [map cps_strip]. rewrite H. reflexivity.
Qed.

(* ---- 2. ---- *)
Lemma cps_plz n n' : cps_strip n = cps_strip n' -> map cps_strip (plz n) = map cps_strip (plz n').
Proof. apply (cps_plz_depth (S (cps_pd n))). lia. Qed.

(* ---- 3. ---- *)
Lemma cps_plz_children l l' : cps_leq l l' -> cps_leq (plz_children l) (plz_children l').
Proof.
  unfold cps_leq. revert l'. induction l as [|x r IHr]; intros l' H; destruct l' as [|x' r']; cbn [map] in H; try discriminate H.
  - reflexivity.
  - injection H as Hx Hr. cbn [plz_children]. rewrite !map_app. f_equal; [apply cps_plz; exact Hx | apply IHr; exact Hr].
Qed.

(* ---- 4. ---- *)
Lemma cps_is_plural_strip n : is_plural n = is_plural (cps_strip n).
Proof. destruct n; reflexivity. Qed.

Lemma cps_exists_plural l l' : cps_leq l l' -> existsb is_plural l = existsb is_plural l'.
Proof.
  unfold cps_leq. revert l'. induction l as [|x r IHr]; intros l' H; destruct l' as [|x' r']; cbn [map] in H; try discriminate H.
  - reflexivity.
  - injection H as Hx Hr. cbn [existsb]. rewrite (IHr r' Hr).
    rewrite (cps_is_plural_strip x), (cps_is_plural_strip x'), Hx. reflexivity.
Qed.

(* ---- 5. ---- *)
Lemma cps_children_of n n' : cps_neq n n' -> cps_leq (children_of n) (children_of n').
Proof.
  unfold cps_neq, cps_leq. intros H. pose proof (cps_shape_eq _ _ H) as Hs.
  destruct (Nat.eq_dec (cps_shape n) 4) as [E|E].
  - destruct (cps_shape_list n E) as (p & l & ->). rewrite E in Hs.
    destruct (cps_shape_list n' (eq_sym Hs)) as (p' & l' & ->).
    cbn [cps_strip] in H. injection H as Hl. exact Hl.
  - rewrite (cps_children_other n E), (cps_children_other n') by congruence. reflexivity.
Qed.
