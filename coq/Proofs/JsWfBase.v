(* C14, token grammar: basic facts about the lexers and the recogniser of
   Spec/JsSyntax.v -- composition over append, the "emits" relation between a
   chunk list and a transition of the recogniser, lexing of names and numbers,
   and bracket balance of every accepted token list. *)
From Soy Require Import Model.Bytes Model.Num Model.Values Model.Outcome Model.Ast Model.JsGen.
From Soy Require Import Spec.JsSyntax Spec.JsShape.
From Soy Require Import Proofs.JsWfSplitBase Proofs.JsWfSplit Proofs.JsWfTail Proofs.JsWfLeaf Proofs.JsWfStr.
Open Scope N_scope.

(* ---- composition ---- *)
Lemma js_run_app md a : forall b m s,
  js_run md (a ++ b) m s =
  match js_run md a m s with
  | Some (m', s', d) => match js_run md b m' s' with Some (m'', s'', d') => Some (m'', s'', d ++ d') | None => None end
  | None => None
  end.
Proof.
  induction a as [|t a IH]; intros b m s; cbn [app js_run].
  - destruct (js_run md b m s) as [[[? ?] ?]|]; reflexivity.
  - destruct (js_step md m s t) as [[[m1 s1] d1]|]; [|reflexivity].
    rewrite IH. destruct (js_run md a m1 s1) as [[[m2 s2] d2]|]; [|reflexivity].
    destruct (js_run md b m2 s2) as [[[m3 s3] d3]|]; [|reflexivity]. rewrite app_assoc. reflexivity.
Qed.

Lemma lex_chunks_from_app a : forall b m,
  lex_chunks_from m (a ++ b) =
  match lex_chunks_from m a with
  | Some (ta, m') => match lex_chunks_from m' b with Some (tb, m'') => Some (ta ++ tb, m'') | None => None end
  | None => None
  end.
Proof.
  induction a as [|c a IH]; intros b m; cbn [app lex_chunks_from].
  - destruct (lex_chunks_from m b) as [[? ?]|]; reflexivity.
  - destruct (lex_chunk m c) as [[t1 m1]|]; [|reflexivity]. rewrite IH.
    destruct (lex_chunks_from m1 a) as [[t2 m2]|]; [|reflexivity]. cbn [option_map].
    destruct (lex_chunks_from m2 b) as [[t3 m3]|]; [|reflexivity]. cbn [option_map]. rewrite app_assoc. reflexivity.
Qed.

(* the bytes of the chunks, followed by anything the grammar accepts next, lex to the same tokens and then go on *)
Definition bytes_ok (md : bool) (cs : list chunk) (ts : list jstoken) (m' : mode) : Prop :=
  forall is_print rest, cont_ok md m' rest ->
    lex_text 0 LNormal (render_chunks is_print cs ++ rest) = option_map (fun '(t0, m0) => (ts ++ t0, m0)) (lex_text 0 LNormal rest).

(* the chunks [cs], lexed from and to the normal mode, take the recogniser from (m, s) to (m', s') and declare d;
   their rendering lexes to the same tokens *)
Definition emits (md : bool) (cs : list chunk) (m : mode) (s : list frame) (m' : mode) (s' : list frame) (d : list jsdecl) : Prop :=
  exists ts, lex_chunks_from LNormal cs = Some (ts, LNormal) /\ js_run md ts m s = Some (m', s', d) /\ bytes_ok md cs ts m'.

Lemma render_chunks_app ip a c : render_chunks ip (a ++ c) = render_chunks ip a ++ render_chunks ip c.
Proof. induction a as [|x a IH]; [reflexivity|]. cbn [app render_chunks]. rewrite IH, app_assoc. reflexivity. Qed.
Lemma prepend_app ta tb (x : option (list jstoken * lexmode)) :
  option_map (fun '(t0, m0) => (ta ++ t0, m0)) (option_map (fun '(t0, m0) => (tb ++ t0, m0)) x)
  = option_map (fun '(t0, m0) => ((ta ++ tb) ++ t0, m0)) x.
Proof. destruct x as [[t0 m0]|]; cbn; [rewrite app_assoc|]; reflexivity. Qed.

Lemma emits_nil md m s : emits md [] m s m s [].
Proof. exists []. split; [reflexivity|]. split; [reflexivity|]. intros ip rest _. cbn [render_chunks app]. rewrite prepend_nil. reflexivity. Qed.

Lemma cont_ok_app md cs tb m1 s1 m2 s2 d ip rest :
  js_run md tb m1 s1 = Some (m2, s2, d) -> bytes_ok md cs tb m2 -> cont_ok md m2 rest -> cont_ok md m1 (render_chunks ip cs ++ rest).
Proof.
  intros R B C. unfold cont_ok. rewrite (B ip rest C). destruct C as (ts_r & m_r & L & A). rewrite L. cbn [option_map].
  exists (tb ++ ts_r), m_r. split; [reflexivity|]. destruct tb as [|t tb'].
  - cbn [js_run] in R. injection R as <- _ _. exact A.
  - cbn [app]. cbn [js_run] in R. destruct (js_step md m1 s1 t) as [r|] eqn:E; [|discriminate R]. exists s1, r. exact E.
Qed.

Lemma emits_app md a b m s m1 s1 d1 m2 s2 d2 :
  emits md a m s m1 s1 d1 -> emits md b m1 s1 m2 s2 d2 -> emits md (a ++ b) m s m2 s2 (d1 ++ d2).
Proof.
  intros (ta & La & Ra & Ba) (tb & Lb & Rb & Bb). exists (ta ++ tb). split; [|split].
  - rewrite lex_chunks_from_app, La, Lb. reflexivity.
  - rewrite js_run_app, Ra, Rb. reflexivity.
  - intros ip rest C. rewrite render_chunks_app, <- app_assoc.
    rewrite (Ba ip _ (cont_ok_app _ _ _ _ _ _ _ _ ip _ Rb Bb C)). rewrite (Bb ip rest C). apply prepend_app.
Qed.

Lemma emits_app0 md a b m s m1 s1 m2 s2 :
  emits md a m s m1 s1 [] -> emits md b m1 s1 m2 s2 [] -> emits md (a ++ b) m s m2 s2 [].
Proof. intros A B. exact (emits_app md a b m s m1 s1 [] m2 s2 [] A B). Qed.

Lemma emits_cons md c b m s m1 s1 d1 m2 s2 d2 :
  emits md [c] m s m1 s1 d1 -> emits md b m1 s1 m2 s2 d2 -> emits md (c :: b) m s m2 s2 (d1 ++ d2).
Proof. intros A B. exact (emits_app md [c] b _ _ _ _ _ _ _ _ A B). Qed.

(* ---- one chunk ---- *)
Definition chunk_tail (c : chunk) (ts : list jstoken) (m' : mode) : Prop :=
  match c with
  | CText t | CNum t => tail_ok t ts m'
  | CName _ => word_free m' = true
  | CStrLit _ _ | CFile _ => True
  end.
Lemma emits_toks1 md c ts m s m' s' d :
  lex_chunk LNormal c = Some (ts, LNormal) -> js_run md ts m s = Some (m', s', d) -> chunk_tail c ts m' -> emits md [c] m s m' s' d.
Proof.
  intros L R T. exists ts. split; [cbn [lex_chunks_from]; rewrite L; cbn; rewrite app_nil_r; reflexivity|]. split; [exact R|].
  intros ip rest C. cbn [render_chunks]. rewrite app_nil_r. destruct c as [t|q s0|x|x|x]; cbn [lex_chunk chunk_tail render_chunk] in *.
  - eapply text_leaf; eassumption.
  - destruct ((q =? 39) || (q =? 34)) eqn:Eq; [|discriminate L]. injection L as <-.
    assert (Hq : q = 39 \/ q = 34) by (apply orb_prop in Eq; destruct Eq as [E|E]; apply N.eqb_eq in E; auto).
    pose proof (strlit_one_token ip q Hq s0 rest) as S1. cbn [render_chunk] in S1. rewrite S1.
    destruct (lex_text 0 LNormal rest) as [[t0 m0]|]; reflexivity.
  - destruct (lex_name x) as [tn|] eqn:En; [|discriminate L]. cbn in L. injection L as <-.
    destruct (name_bytes x tn En) as (Lx & Xn & Xl & Xi). eapply text_leaf; [exact Lx| |exact C].
    unfold tail_ok. destruct x as [|c0 x0]; [exact I|]. apply tail_okb_word; [exact Xl|exact T|]. rewrite Xi. discriminate.
  - destruct (lex_num x) as [tn|] eqn:En; [|discriminate L]. cbn in L. injection L as <-.
    eapply text_leaf; [apply num_bytes; exact En|exact T|exact C].
  - discriminate L.
Qed.

(* several chunks whose rendering is one known text *)
Lemma emits_block md cs T ts m s m' s' d :
  (forall ip, render_chunks ip cs = T) -> lex_chunks_from LNormal cs = Some (ts, LNormal) -> lex_text 0 LNormal T = Some (ts, LNormal) ->
  js_run md ts m s = Some (m', s', d) -> tail_ok T ts m' -> emits md cs m s m' s' d.
Proof.
  intros Hr L LT R Tl. exists ts. split; [exact L|]. split; [exact R|]. intros ip rest C. rewrite Hr. eapply text_leaf; eassumption.
Qed.

(* ---- white space ---- *)
Lemma lex_indent n : lex_text 0 LNormal (indent_text n) = Some ([], LNormal).
Proof. induction n as [|n IH]; [reflexivity|]. cbn [indent_text]. unfold t_ind. cbn [app]. cbn [lex_text is_space N.eqb Pos.eqb orb]. exact IH. Qed.
Lemma lex_indent_app n rest : lex_text 0 LNormal (indent_text n ++ rest) = lex_text 0 LNormal rest.
Proof. induction n as [|n IH]; [reflexivity|]. cbn [indent_text]. unfold t_ind. cbn [app]. cbn [lex_text is_space N.eqb Pos.eqb orb]. exact IH. Qed.

Lemma emits_indent md n m s : emits md [CText (indent_text n)] m s m s [].
Proof.
  exists []. split; [|split; [reflexivity|]].
  - cbn [lex_chunks_from lex_chunk]. rewrite lex_indent. reflexivity.
  - intros ip rest _. cbn [render_chunks render_chunk]. rewrite app_nil_r, lex_indent_app, prepend_nil. reflexivity.
Qed.

(* ---- names ---- *)
(* a chunk CName s that is one identifier token *)
Definition name_ok (s : bstr) : Prop := lex_name s = Some [TId s].
(* an identifier or a reserved word, without dots: one token that may follow '.' or be an object key *)
Definition iname_ok (s : bstr) : Prop := lex_name s = Some [tok_of_ident s].

Lemma bstr_eqb_true x : forall y, bstr_eqb x y = true -> x = y.
Proof.
  induction x as [|a x IH]; destruct y as [|c y]; cbn; intro H; try discriminate; auto.
  apply andb_prop in H. destruct H as [H1 H2]. apply N.eqb_eq in H1. subst. f_equal. auto.
Qed.
Lemma bstr_eqb_refl x : bstr_eqb x x = true.
Proof. induction x as [|a x IH]; cbn; auto. rewrite N.eqb_refl. exact IH. Qed.

Lemma split_dots_nodot s : forall cur, forallb (fun c => negb (c =? 46)) s = true -> split_dots cur s = [rev cur ++ s].
Proof.
  induction s as [|c s IH]; intros cur H; cbn [split_dots].
  - rewrite app_nil_r. reflexivity.
  - cbn [forallb] in H. apply andb_prop in H. destruct H as [H1 H2]. apply negb_true_iff in H1. rewrite H1.
    rewrite IH by exact H2. cbn [rev]. rewrite <- app_assoc. reflexivity.
Qed.

Lemma ident_part_nodot c : is_ident_part c = true -> negb (c =? 46) = true.
Proof.
  intro H. apply negb_true_iff. apply N.eqb_neq. intro E. subst. vm_compute in H. discriminate.
Qed.

Lemma ident_ok_nodot s : ident_ok s = true -> forallb (fun c => negb (c =? 46)) s = true.
Proof.
  destruct s as [|c r]; [discriminate|]. cbn [ident_ok]. intro H. apply andb_prop in H. destruct H as [H1 H2].
  cbn [forallb]. apply andb_true_intro. split.
  - apply ident_part_nodot. unfold is_ident_part. rewrite H1. reflexivity.
  - clear H1. induction r as [|d r IH]; [reflexivity|]. cbn [forallb] in *. apply andb_prop in H2. destruct H2 as [H3 H4].
    apply andb_true_intro. split; [apply ident_part_nodot; exact H3|apply IH; exact H4].
Qed.

Lemma lex_name_ident s : ident_ok s = true -> lex_name s = Some [tok_of_ident s].
Proof.
  intro H. unfold lex_name. rewrite split_dots_nodot by (apply ident_ok_nodot; exact H). cbn [rev app forallb].
  rewrite H. reflexivity.
Qed.

(* keywords contain no underscore, no dollar and no digit *)
Definition kw_free (c : N) : bool := (c =? 95) || (c =? 36) || is_digit c.
Lemma kw_table_plain : forallb (fun e => negb (existsb kw_free (fst e))) kw_table = true.
Proof. vm_compute. reflexivity. Qed.

Lemma assoc_s_key {A} k (l : list (bstr * A)) v : assoc_s k l = Some v -> In (k, v) l.
Proof.
  induction l as [|[k' v'] l IH]; cbn [assoc_s]; intro H; [discriminate|].
  destruct (bstr_eqb k k') eqn:E.
  - apply bstr_eqb_true in E. inversion H; subst. left. reflexivity.
  - right. auto.
Qed.

Lemma not_kw s : existsb kw_free s = true -> tok_of_ident s = TId s.
Proof.
  intro H. unfold tok_of_ident. destruct (assoc_s s kw_table) as [k|] eqn:E; [|reflexivity]. exfalso.
  apply assoc_s_key in E. pose proof kw_table_plain as F. rewrite forallb_forall in F. specialize (F _ E).
  cbn [fst] in F. rewrite H in F. discriminate.
Qed.

Lemma name_ok_intro s : ident_ok s = true -> existsb kw_free s = true -> name_ok s.
Proof. intros H1 H2. unfold name_ok. rewrite lex_name_ident by exact H1. rewrite not_kw by exact H2. reflexivity. Qed.

Lemma ident_ok_app s t : ident_ok s = true -> forallb is_ident_part t = true -> ident_ok (s ++ t) = true.
Proof.
  destruct s as [|c r]; [discriminate|]. cbn [ident_ok app]. intros H Ht. apply andb_prop in H. destruct H as [H1 H2].
  rewrite H1. cbn [andb]. rewrite forallb_app, H2, Ht. reflexivity.
Qed.

Lemma existsb_app_r {A} (p : A -> bool) a c : existsb p c = true -> existsb p (a ++ c) = true.
Proof. intro H. rewrite existsb_app, H. apply orb_true_r. Qed.
