(* What Num.round53 computes, as a statement about integers: the multiple m * 2^sh of the last place kept
   that is nearest to M, ties to the even m -- IEEE 754 roundTiesToEven at 53 bits of precision (the
   exponent range is checked separately by Num.mk_fl).  [fl_add_r], [fl_sub_r], [fl_mul_r] apply it to
   the exact sum / product, [fl_div_r] to a quotient with a sticky bit, [fl_of_int] to the integer. *)
From Soy Require Import Model.Bytes Model.Num.
From Coq Require Import ZifyBool ZifyNat ZifyN Lia.
Open Scope Z_scope.

Lemma rs_pos_case a sh hi lo half :
  0 < half -> 2 ^ sh = 2 * half -> a = hi * 2 ^ sh + lo -> 0 <= lo < 2 ^ sh -> 0 <= hi ->
  let hi' := match Z.compare lo half with Gt => hi + 1 | Lt => hi | Eq => if Z.even hi then hi else hi + 1 end in
  2 * Z.abs (a - hi' * 2 ^ sh) <= 2 ^ sh /\
  (2 * Z.abs (a - hi' * 2 ^ sh) = 2 ^ sh -> Z.even hi' = true) /\
  hi <= hi' <= hi + 1.
Proof.
  intros Hh E2 Ea Hlo Hhi. cbv zeta. set (T := 2 ^ sh) in *.
  destruct (Z.compare_spec lo half) as [C|C|C].
  - destruct (Z.even hi) eqn:Ev.
    + split; [lia|]. split; [intros _; exact Ev|lia].
    + split; [lia|]. split; [|lia]. intros _. rewrite Z.even_add, Ev. reflexivity.
  - split; [lia|]. split; [lia|lia].
  - split; [lia|]. split; [lia|lia].
Qed.

Theorem round53_spec (M E : Z) :
  let '(m, e) := round53 M E in
  exists sh, 0 <= sh /\ e = E + sh /\
    2 * Z.abs (M - m * 2 ^ sh) <= 2 ^ sh /\                          (* within half a unit of the last place *)
    (2 * Z.abs (M - m * 2 ^ sh) = 2 ^ sh -> Z.even m = true) /\      (* a tie goes to the even mantissa *)
    Z.abs m <= 2 ^ 53 /\                                              (* 53 bits (2^53 itself after a carry) *)
    (0 < sh -> 2 ^ 52 <= Z.abs m) /\                                  (* and no precision is given away *)
    (sh = 0 -> m = M).                                                (* nothing is rounded that fits *)
Proof.
  unfold round53. cbv zeta. set (a := Z.abs M). set (n := Z.log2 a + 1).
  destruct (Z.leb_spec n 53) as [Hn|Hn].
  - exists 0. rewrite Z.pow_0_r, Z.mul_1_r, Z.sub_diag. cbn [Z.abs]. repeat split; try lia.
    destruct (Z.eq_dec a 0) as [E0|N0]; [unfold a in *; lia|].
    assert (a < 2 ^ 53) by (apply Z.log2_lt_pow2; [unfold a in *; lia|unfold n in Hn; lia]). unfold a in *. lia.
  - set (sh := n - 53). assert (Hsh : 0 < sh) by (unfold sh; lia).
    assert (Ha : 0 < a). { destruct (Z.eq_dec a 0) as [E0|]; [|unfold a in *; lia]. unfold n in Hn. rewrite E0 in Hn. cbn in Hn. lia. }
    pose proof (Z.log2_spec a Ha) as [L1 L2]. replace (Z.succ (Z.log2 a)) with n in L2 by (unfold n; lia). replace (Z.log2 a) with (n - 1) in L1 by (unfold n; lia).
    assert (PT : 0 < 2 ^ sh) by (apply Z.pow_pos_nonneg; lia).
    assert (E2 : 2 ^ sh = 2 * 2 ^ (sh - 1)) by (replace sh with (1 + (sh - 1)) at 1 by lia; rewrite Z.pow_add_r by lia; reflexivity).
    assert (PH : 0 < 2 ^ (sh - 1)) by (apply Z.pow_pos_nonneg; lia).
    pose proof (Z.div_mod a (2 ^ sh) ltac:(lia)) as Hdm. pose proof (Z.mod_pos_bound a (2 ^ sh) PT) as Hlo.
    set (hi := a / 2 ^ sh) in *. set (lo := a mod 2 ^ sh) in *.
    assert (Hhi : 2 ^ 52 <= hi < 2 ^ 53).
    { assert (En1 : 2 ^ (n - 1) = 2 ^ 52 * 2 ^ sh) by (rewrite <- Z.pow_add_r by lia; f_equal; unfold sh; lia).
      assert (En : 2 ^ n = 2 ^ 53 * 2 ^ sh) by (rewrite <- Z.pow_add_r by lia; f_equal; unfold sh; lia).
      split; [apply Z.div_le_lower_bound; [lia|]|apply Z.div_lt_upper_bound; [lia|]]. all: lia. }
    pose proof (rs_pos_case a sh hi lo (2 ^ (sh - 1)) PH E2 ltac:(lia) Hlo ltac:(lia)) as R. cbv zeta in R.
    set (hi' := match lo ?= 2 ^ (sh - 1) with Gt => hi + 1 | Lt => hi | Eq => if Z.even hi then hi else hi + 1 end) in *.
    destruct R as (R1 & R2 & R3).
    exists sh. split; [lia|]. split; [reflexivity|].
    destruct (Z.ltb_spec M 0) as [Hneg|Hpos].
    + assert (EM : M = - a) by (unfold a; lia).
      replace (M - - hi' * 2 ^ sh) with (- (a - hi' * 2 ^ sh)) by (rewrite EM; ring). rewrite Z.abs_opp.
      split; [exact R1|]. split; [intros T; rewrite Z.even_opp; exact (R2 T)|]. rewrite Z.abs_opp. repeat split; lia.
    + assert (EM : M = a) by (unfold a; lia). rewrite EM.
      split; [exact R1|]. split; [exact R2|]. repeat split; lia.
Qed.

(* nearest: no other multiple of the last place kept is closer *)
Corollary round53_nearest (M E : Z) :
  let '(m, e) := round53 M E in
  exists sh, 0 <= sh /\ e = E + sh /\ forall m', Z.abs (M - m * 2 ^ sh) <= Z.abs (M - m' * 2 ^ sh).
Proof.
  pose proof (round53_spec M E) as H. destruct (round53 M E) as [m e].
  destruct H as (sh & H0 & He & Hn & _). exists sh. split; [exact H0|]. split; [exact He|]. intros m'.
  assert (PT : 0 < 2 ^ sh) by (apply Z.pow_pos_nonneg; lia). set (T := 2 ^ sh) in *.
  destruct (Z.eq_dec m m') as [->|N]; [lia|].
  assert (T <= Z.abs ((m - m') * T)) by (rewrite Z.abs_mul; nia).
  replace (M - m' * T) with ((M - m * T) + (m - m') * T) by ring. lia.
Qed.
