(* The channel protocol of Model/Chan.v: the functional reading used by the parser models is sound
   for EVERY schedule.
     chan_result_of_items      a consumer that returns, under any schedule, returns what [feeds]
                               gives on the list of items the producer sends
     chan_result_deterministic two schedules cannot make the same parse return different results
     chan_scan_done_exits      scan_done = true  -> the scanner goroutine runs to its exit on its own
     chan_not_done_leaks       scan_done = false (consumer returned) -> under no schedule does the
                               scanner goroutine ever exit: it stays parked on a send *)
From Coq Require Import List Arith Bool Lia.
Import ListNotations.
From Soy Require Import Model.Chan.

Section ChanProofs.
Variables A R : Type.
Variable zero : A.
Notation cfg := (cfg A R).
Notation step := (@step A R zero).
Notation run := (@run A R zero).
Notation feeds := (@feeds A R zero).

Lemma feeds_fun c l r1 : feeds c l r1 -> forall r2, feeds c l r2 -> r1 = r2.
Proof.
  induction 1 as [r l|k l r H IH|k a l r H IH|k r H IH|k l r H IH]; intros r2 H2; inversion H2; subst; auto.
Qed.

Definition is_drain (c : cons A R) : bool := match c with CDrain _ => true | _ => false end.

(* [n] = number of items the producer sends in all *)
Record ginv (n : nat) (g : cfg) : Prop := {
  gi_cnt : g_sync g + length (items (g_prod g)) = n;
  gi_closed : g_closed g = true -> g_prod g = PClose;
  gi_recv : g_recv g <= g_sync g \/ g_closed g = true;
  gi_drained : g_drained g = true -> g_closed g = true;
  gi_sync : g_sync g <= g_recv g \/ g_drained g = true \/ is_drain (g_cons g) = true;
}.

Lemma ginv_init p c : ginv (length (items p)) (cfg_init p c).
Proof. constructor; cbn; auto; try discriminate. Qed.

Lemma ginv_step n m g : ginv n g -> ginv n (step m g).
Proof.
  intros Hg. pose proof Hg as [H1 H2 H3 H4 H5]. destruct m; cbn [step Chan.step].
  - destruct (g_prod g) as [a k|k|] eqn:Ep.
    + exact Hg.
    + constructor; cbn [g_prod g_closed g_cons g_sync g_recv g_drained]; auto.
      intros Hc. specialize (H2 Hc). discriminate.
    + constructor; cbn [g_prod g_closed g_cons g_sync g_recv g_drained]; auto.
  - destruct (g_cons g) as [k|k|k|r] eqn:Ec.
    + destruct (g_closed g) eqn:Ecl; [|exact Hg].
      constructor; cbn [g_prod g_closed g_cons g_sync g_recv g_drained]; auto.
      destruct H5 as [H5|[H5|H5]]; [left; lia|auto|discriminate].
    + constructor; cbn [g_prod g_closed g_cons g_sync g_recv g_drained]; auto.
      destruct H5 as [H5|[H5|H5]]; [auto|auto|discriminate].
    + destruct (g_closed g) eqn:Ecl; [|exact Hg].
      constructor; cbn [g_prod g_closed g_cons g_sync g_recv g_drained]; auto.
    + exact Hg.
  - destruct (g_closed g) eqn:Ecl; [exact Hg|].
    destruct (g_prod g) as [a kp|kp|] eqn:Ep; try exact Hg.
    destruct (g_cons g) as [kc|kc|kc|r] eqn:Ec; try exact Hg.
    + try rewrite Ep in H1; try rewrite Ecl in H3; try rewrite Ecl in H4; try rewrite Ec in H5; cbn [items length is_drain] in *.
      constructor; cbn [g_prod g_closed g_cons g_sync g_recv g_drained].
      * lia.
      * discriminate.
      * destruct H3 as [H3|H3]; [left; lia|discriminate].
      * exact H4.
      * destruct H5 as [H5|[H5|H5]]; [left; lia|auto|discriminate].
    + try rewrite Ep in H1; try rewrite Ecl in H3; try rewrite Ecl in H4; cbn [items length is_drain] in *.
      constructor; cbn [g_prod g_closed g_cons g_sync g_recv g_drained is_drain].
      * lia.
      * discriminate.
      * destruct H3 as [H3|H3]; [left; lia|discriminate].
      * exact H4.
      * auto.
Qed.

Lemma ginv_run n sched : forall g, ginv n g -> ginv n (run sched g).
Proof. induction sched as [|m r IH]; intros g H; cbn; [exact H|apply IH, ginv_step, H]. Qed.

(* one move cannot change what the consumer will return *)
Lemma step_feeds_back n m g r : ginv n g ->
  feeds (g_cons (step m g)) (items (g_prod (step m g))) r -> feeds (g_cons g) (items (g_prod g)) r.
Proof.
  intros [H1 H2 H3 H4 H5]. destruct m; cbn [step Chan.step].
  - destruct (g_prod g) as [a k|k|] eqn:Ep; cbn [g_prod g_cons items]; rewrite ?Ep; auto.
  - destruct (g_cons g) as [k|k|k|r0] eqn:Ec; rewrite ?Ec; auto.
    + destruct (g_closed g) eqn:Ecl; [|rewrite Ec; auto].
      cbn [g_prod g_cons]. rewrite (H2 eq_refl). cbn [items]. intros H. apply F_recv_closed. exact H.
    + cbn [g_prod g_cons]. intros H. apply F_tau. exact H.
    + destruct (g_closed g) eqn:Ecl; [|rewrite Ec; auto].
      cbn [g_prod g_cons]. rewrite (H2 eq_refl). cbn [items]. intros H. apply F_drain. exact H.
  - destruct (g_closed g) eqn:Ecl; [auto|].
    destruct (g_prod g) as [a kp|kp|] eqn:Ep; rewrite ?Ep; auto.
    destruct (g_cons g) as [kc|kc|kc|r0] eqn:Ec; rewrite ?Ep, ?Ec; auto; cbn [g_prod g_cons items].
    + intros H. apply F_recv. exact H.
    + intros H. inversion H; subst. apply F_drain. assumption.
Qed.

Lemma run_feeds_back n sched : forall g r, ginv n g ->
  feeds (g_cons (run sched g)) (items (g_prod (run sched g))) r -> feeds (g_cons g) (items (g_prod g)) r.
Proof.
  induction sched as [|m s IH]; intros g r Hi H; cbn in H; [exact H|].
  eapply step_feeds_back; [exact Hi|]. apply IH; [apply ginv_step; exact Hi|exact H].
Qed.

(* Single producer, single consumer: whatever the interleaving, a parse that returns returns the
   result of the functional reading -- the consumer fed with the list of items, then zero items *)
Theorem chan_result_of_items p c sched r :
  g_cons (run sched (cfg_init p c)) = CRet r -> feeds c (items p) r.
Proof.
  intros H. apply (run_feeds_back _ sched (cfg_init p c) r (ginv_init p c)). rewrite H. constructor.
Qed.

Theorem chan_result_deterministic p c sched1 sched2 r1 r2 :
  g_cons (run sched1 (cfg_init p c)) = CRet r1 -> g_cons (run sched2 (cfg_init p c)) = CRet r2 -> r1 = r2.
Proof.
  intros H1 H2. eapply feeds_fun; eapply chan_result_of_items; eassumption.
Qed.

(* ---------- the scanner goroutine exits iff scan_done ---------- *)
Lemma scan_done_no_pending n g : ginv n g -> chan_scan_done n g = true -> items (g_prod g) = [].
Proof.
  intros [H1 H2 H3 H4 H5] H. unfold chan_scan_done in H. apply orb_true_iff in H. destruct H as [H|H].
  - rewrite (H2 (H4 H)). reflexivity.
  - apply Nat.leb_le in H. destruct H3 as [H3|H3].
    + destruct (items (g_prod g)); [reflexivity|cbn [length] in H1; lia].
    + rewrite (H2 H3). reflexivity.
Qed.

Lemma producer_finishes : forall (p : prod A) (g : cfg), g_prod g = p -> items p = [] ->
  exists k, exited (run (repeat MP k) g).
Proof.
  induction p as [a p IH|p IH|]; intros g Hp Hi.
  - discriminate.
  - cbn [items] in Hi.
    destruct (IH (step MP g)) as (k & Hk); [cbn [step Chan.step]; rewrite Hp; reflexivity|exact Hi|].
    exists (S k). exact Hk.
  - exists 1. cbn [repeat run Chan.run step Chan.step]. rewrite Hp. split; reflexivity.
Qed.

(* scan_done: the goroutine needs no partner any more and returns after finitely many steps of its own *)
Theorem chan_scan_done_exits p c sched :
  let g := run sched (cfg_init p c) in
  chan_scan_done (length (items p)) g = true -> exists k, exited (run (repeat MP k) g).
Proof.
  cbv zeta. intros H.
  pose proof (ginv_run _ sched _ (ginv_init p c)) as Hi.
  eapply producer_finishes; [reflexivity|]. eapply scan_done_no_pending; eassumption.
Qed.

Lemma returned_stays r : forall sched (g : cfg), g_cons g = CRet r -> items (g_prod g) <> [] ->
  g_cons (run sched g) = CRet r /\ items (g_prod (run sched g)) <> [].
Proof.
  induction sched as [|m s IH]; intros g Hc Hp; [split; assumption|].
  cbn [run Chan.run]. apply IH.
  - destruct m; cbn [step Chan.step].
    + destruct (g_prod g); assumption.
    + rewrite Hc. assumption.
    + destruct (g_closed g); [assumption|]. destruct (g_prod g); try assumption. rewrite Hc. assumption.
  - destruct m; cbn [step Chan.step].
    + destruct (g_prod g) as [a k|k|] eqn:Ep; cbn [g_prod items] in *; try rewrite Ep; auto.
    + rewrite Hc. assumption.
    + destruct (g_closed g); [assumption|]. destruct (g_prod g) eqn:Ep; try (rewrite Ep; assumption). rewrite Hc. rewrite Ep. assumption.
Qed.

(* not scan_done when the parse has returned: some item was never received and nobody drained; the
   goroutine is left behind under every continuation *)
Theorem chan_not_done_leaks p c sched r :
  let g := run sched (cfg_init p c) in
  g_cons g = CRet r -> chan_scan_done (length (items p)) g = false ->
  forall more, ~ exited (run more g).
Proof.
  cbv zeta. intros Hc H more [He _].
  pose proof (ginv_run _ sched _ (ginv_init p c)) as [H1 H2 H3 H4 H5].
  unfold chan_scan_done in H. apply orb_false_iff in H. destruct H as [Hd Hr]. apply Nat.leb_gt in Hr.
  assert (Hp : items (g_prod (run sched (cfg_init p c))) <> []).
  { rewrite Hc in H5. destruct H5 as [H5|[H5|H5]]; [|congruence|discriminate].
    intros E. rewrite E in H1. cbn [length] in H1. lia. }
  destruct (returned_stays r more _ Hc Hp) as [_ Hn]. rewrite He in Hn. apply Hn. reflexivity.
Qed.

End ChanProofs.
