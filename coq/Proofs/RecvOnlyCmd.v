(* The command-level parser model (Model/Parser.v) touches the item list only through Token.recv (via c_next /
   c_peek and the expression parser): every procedure is locked in the sense of Proofs/RecvOnlyTok.v.
   Main statements: [ro_item_list], and its reading for the entry point [ro_parse_depends_on_received]. *)
From Soy Require Import Model.Bytes Model.Outcome Model.Ast Model.Token Model.RawText Model.ExprParser Model.Parser Generated.Tables
  Proofs.RecvOnlyTok Proofs.RecvOnlyExpr.
From Coq Require Import Lia.
Open Scope N_scope.

(* a call [P (g q)] against [P (g (ro_cext e q))] where g does not touch the items: an instance of the lemma at [g q] *)
Ltac ro_ccall L :=
  match goal with
  | |- ro_lockc ?e _ (?P ?gs) _ => change (ro_lockc e gs (P gs) (P (ro_cext e gs))); apply L
  end.

Ltac ro_cret := solve [apply ro_lockc_eq; [reflexivity|first [exact I|unfold ro_mono, ro_cfin, ro_avail; cbn; lia]]].

(* fields other than the items read the same on both sides *)
Ltac ro_cnorm :=
  match goal with
  | |- context[c_ns (ro_cext ?e ?s)] => change (c_ns (ro_cext e s)) with (c_ns s)
  | |- context[c_al (ro_cext ?e ?s)] => change (c_al (ro_cext e s)) with (c_al s)
  | |- context[c_inmsg (ro_cext ?e ?s)] => change (c_inmsg (ro_cext e s)) with (c_inmsg s)
  end.

Ltac ro_cgo tac :=
  repeat first
    [ solve [tac]
    | apply ro_lockc_bind; [|intros ? ? ?]
    | ro_cnorm
    | match goal with
      | |- ro_lockc _ _ (if ?c then _ else _) (if ?c then _ else _) => destruct c
      | |- ro_lockc _ _ (match ?c with _ => _ end) (match ?c with _ => _ end) => destruct c
      end
    | progress cbv zeta
    | ro_cret ].

(* errorAt's slice panic: an error whose position lies beyond the text becomes a crash *)
Definition ro_clip {A} (inlen : N) (r : cres A) : cres A :=
  match r with
  | CErr t c s => if t_pos t <=? inlen then CErr t c s else CCrash e_pslice
  | _ => r
  end.
Lemma ro_cfin_clip {A} inlen (r : cres A) : ro_cfin (ro_clip inlen r) = ro_cfin r \/ ro_cfin (ro_clip inlen r) = None.
Proof. destruct r as [a q|t c q|m|]; cbn [ro_clip]; auto. destruct (t_pos t <=? inlen); auto. Qed.
Lemma ro_clip_crext {A} inlen e (r : cres A) : ro_clip inlen (ro_crext e r) = ro_crext e (ro_clip inlen r).
Proof. destruct r as [a q|t c q|m|]; cbn [ro_clip ro_crext]; auto. destruct (t_pos t <=? inlen); reflexivity. Qed.
Lemma ro_lockc_clip {A} inlen e s (r r' : cres A) : ro_lockc e s r r' -> ro_lockc e s (ro_clip inlen r) (ro_clip inlen r').
Proof.
  intros (M & M' & W & P). split; [|split; [|split]].
  - destruct (ro_cfin_clip inlen r) as [-> | ->]; [exact M|exact I].
  - destruct (ro_cfin_clip inlen r') as [-> | ->]; [exact M'|exact I].
  - intros Wn. rewrite W; [apply ro_clip_crext|]. destruct Wn as [Wn|Wn]; [left|right].
    + destruct (ro_cfin_clip inlen r) as [E|E]; rewrite E in Wn; [exact Wn|destruct Wn].
    + destruct (ro_cfin_clip inlen r') as [E|E]; rewrite E in Wn; [exact Wn|destruct Wn].
  - intros j Ej Wn. destruct (P j Ej) as (j1 & E1); [|exists j1; rewrite E1; apply ro_clip_crext].
    destruct Wn as [Wn|Wn]; [left|right].
    + destruct (ro_cfin_clip inlen r) as [E|E]; rewrite E in Wn; [exact Wn|destruct Wn].
    + destruct (ro_cfin_clip inlen r') as [E|E]; rewrite E in Wn; [exact Wn|destruct Wn].
Qed.

Section Cmd.
Variable inlen : N.
Variable lexq : bstr -> list tok.
Variable unq : bstr -> option bstr.
Variable pexpr : nat -> N -> pst -> presult node.
Variable efuel : list tok -> nat.
Hypothesis Hpexpr : forall f prec, ro_lockP (pexpr f prec).

(* parseExpr on the command state: the expression parser on the token state *)
Lemma ro_lift_expr f prec : ro_lockC (lift_expr inlen pexpr f prec).
Proof.
  intros s e.
  assert (E : forall s0, lift_expr inlen pexpr f prec s0 = ro_clip inlen (ro_lift s0 (pexpr f prec (c_p s0)))).
  { intros s0. unfold lift_expr. destruct (pexpr f prec (c_p s0)); reflexivity. }
  rewrite !E. apply ro_lockc_clip. apply ro_lockc_lift. apply Hpexpr.
Qed.

(* parseQuotedExpr runs the expression parser on the items of a NEW scanner: the outer items are not touched *)
Lemma ro_parse_quoted_expr str : ro_lockC (parse_quoted_expr inlen lexq pexpr efuel str).
Proof.
  intros s e. unfold parse_quoted_expr.
  change (p_peek (c_p (ro_cext e s))) with (p_peek (c_p s)). change (err_tok (c_p (ro_cext e s))) with (err_tok (c_p s)).
  destruct (3 <=? p_peek (c_p s))%nat; [ro_cret|]. cbv zeta.
  match goal with |- ro_lockc _ _ (match ?x with _ => _ end) _ => destruct x as [n p'|t c p'|m|] end; try ro_cret.
  match goal with |- ro_lockc _ _ (if ?x then _ else _) _ => destruct x end; ro_cret.
Qed.

Ltac prim := first [ apply ro_c_next_lock | apply ro_c_peek_lock | apply ro_c_expect_lock | apply ro_c_unexp_lock
                   | apply ro_c_errorf_lock | apply ro_c_error_at_lock | apply ro_tail1_lock | apply ro_parse_quoted_expr
                   | ro_ccall ro_c_next_lock | ro_ccall ro_c_expect_lock | ro_ccall ro_c_unexp_lock | ro_ccall ro_c_errorf_lock
                   | ro_ccall ro_parse_quoted_expr ].
Ltac loop IH := first [ apply IH | prim ].

(* ---- leaf loops ---- *)
Lemma ro_attrs_loop : forall f allowed acc, ro_lockC (attrs_loop inlen unq f allowed acc).
Proof. induction f as [|f IH]; intros allowed acc s e; [ro_cret|]. cbn [attrs_loop]. ro_cgo ltac:(loop IH). Qed.
Lemma ro_parse_autoescape attrs : ro_lockC (parse_autoescape inlen attrs).
Proof. intros s e. unfold parse_autoescape. ro_cgo prim. Qed.
Lemma ro_bool_attr attrs key dflt : ro_lockC (bool_attr inlen attrs key dflt).
Proof. intros s e. unfold bool_attr. ro_cgo prim. Qed.
Lemma ro_next_non_comment : forall f, ro_lockC (next_non_comment f).
Proof. induction f as [|f IH]; intros s e; [ro_cret|]. cbn [next_non_comment]. ro_cgo ltac:(loop IH). Qed.
Lemma ro_skip_comments : forall f t, ro_lockC (skip_comments f t).
Proof. induction f as [|f IH]; intros t s e; [ro_cret|]. cbn [skip_comments]. ro_cgo ltac:(loop IH). Qed.
Lemma ro_text_run : forall f t, ro_lockC (text_run f t).
Proof. induction f as [|f IH]; intros t s e; [ro_cret|]. cbn [text_run]. ro_cgo ltac:(loop IH). Qed.
Lemma ro_soydoc_loop : forall f pos ps, ro_lockC (soydoc_loop inlen f pos ps).
Proof. induction f as [|f IH]; intros pos ps s e; [ro_cret|]. cbn [soydoc_loop]. ro_cgo ltac:(loop IH). Qed.
Lemma ro_alias_loop : forall f n l, ro_lockC (alias_loop inlen f n l).
Proof. induction f as [|f IH]; intros n l s e; [ro_cret|]. cbn [alias_loop]. ro_cgo ltac:(loop IH). Qed.
Lemma ro_parse_alias f : ro_lockC (parse_alias inlen f).
Proof. intros s e. unfold parse_alias. ro_cgo ltac:(loop ro_alias_loop). Qed.
Lemma ro_dotted_name : forall f n, ro_lockC (dotted_name f n).
Proof. induction f as [|f IH]; intros n s e; [ro_cret|]. cbn [dotted_name]. ro_cgo ltac:(loop IH). Qed.
Lemma ro_parse_namespace f t : ro_lockC (parse_namespace inlen unq f t).
Proof.
  intros s e. unfold parse_namespace.
  ro_cgo ltac:(first [apply ro_dotted_name|apply ro_attrs_loop|apply ro_parse_autoescape|prim]).
Qed.
Lemma ro_call_name_loop : forall f n, ro_lockC (call_name_loop f n).
Proof. induction f as [|f IH]; intros n s e; [ro_cret|]. cbn [call_name_loop]. ro_cgo ltac:(loop IH). Qed.
Lemma ro_call_name f : ro_lockC (call_name f).
Proof. intros s e. unfold call_name. ro_cgo ltac:(loop ro_call_name_loop). Qed.
Lemma ro_plural_cases : forall cs cases dflt, ro_lockC (plural_cases inlen cs cases dflt).
Proof. induction cs as [|c cs IH]; intros cases dflt s e; cbn [plural_cases]; ro_cgo ltac:(loop IH). Qed.
Lemma ro_parse_css t : ro_lockC (parse_css inlen lexq pexpr efuel t).
Proof. intros s e. unfold parse_css. ro_cgo prim. Qed.

(* ---- one level: the procedures over parseExpr [pe] and the itemList one level down [w] ---- *)
Section Level.
Variable pe : N -> cst -> cres node.
Variable w : list N -> cst -> cres node.
Variable lf : nat.
Hypothesis Hpe : forall prec, ro_lockC (pe prec).
Hypothesis Hw : forall u, ro_lockC (w u).

Ltac base := first [ apply Hpe | apply Hw | apply ro_attrs_loop | apply ro_next_non_comment | apply ro_skip_comments
                   | apply ro_text_run | apply ro_soydoc_loop | apply ro_parse_alias | apply ro_parse_namespace
                   | apply ro_call_name | apply ro_parse_autoescape | apply ro_bool_attr | apply ro_plural_cases
                   | apply ro_parse_css | prim
                   | ro_ccall Hpe | ro_ccall Hw | ro_ccall ro_text_run | ro_ccall ro_soydoc_loop ].

Lemma ro_directive_args : forall f args, ro_lockC (directive_args pe f args).
Proof. induction f as [|f IH]; intros args s e; [ro_cret|]. cbn [directive_args]. ro_cgo ltac:(first [apply IH|base]). Qed.
Lemma ro_cmd_print_loop : forall f pos x dirs, ro_lockC (cmd_print_loop inlen pe lf f pos x dirs).
Proof.
  induction f as [|f IH]; intros pos x dirs s e; [ro_cret|]. cbn [cmd_print_loop].
  ro_cgo ltac:(first [apply IH|apply ro_directive_args|base]).
Qed.
Lemma ro_cmd_print t : ro_lockC (cmd_print inlen pe lf t).
Proof. intros s e. unfold cmd_print. ro_cgo ltac:(first [apply ro_cmd_print_loop|base]). Qed.
Lemma ro_parse_let t : ro_lockC (parse_let inlen unq pe w lf t).
Proof. intros s e. unfold parse_let. ro_cgo base. Qed.
Lemma ro_orphan_text : forall f t, ro_lockC (orphan_text inlen lf f t).
Proof. induction f as [|f IH]; intros t s e; [ro_cret|]. cbn [orphan_text]. ro_cgo ltac:(first [apply IH|base]). Qed.
Lemma ro_param_attr_form rec params initial key0 : (forall ps, ro_lockC (rec ps)) ->
  ro_lockC (param_attr_form inlen lexq unq pexpr efuel w lf rec params initial key0).
Proof. intros Hrec s e. unfold param_attr_form. ro_cgo ltac:(first [apply Hrec|base]). Qed.
Lemma ro_call_params_loop : forall f params, ro_lockC (call_params_loop inlen lexq unq pexpr efuel pe w lf f params).
Proof.
  induction f as [|f IH]; intros params s e; [ro_cret|]. cbn [call_params_loop].
  ro_cgo ltac:(first [apply IH|apply ro_orphan_text|ro_ccall (ro_param_attr_form (call_params_loop inlen lexq unq pexpr efuel pe w lf f)); exact IH|base]).
Qed.
Lemma ro_parse_call t : ro_lockC (parse_call inlen lexq unq pexpr efuel pe w lf t).
Proof. intros s e. unfold parse_call. ro_cgo ltac:(first [apply ro_call_params_loop|base]). Qed.
Lemma ro_case_loop : forall f t vs, ro_lockC (case_loop inlen pe w f t vs).
Proof. induction f as [|f IH]; intros t vs s e; [ro_cret|]. cbn [case_loop]. ro_cgo ltac:(first [apply IH|base]). Qed.
Lemma ro_switch_loop : forall f pos endt v cs, ro_lockC (switch_loop inlen pe w lf f pos endt v cs).
Proof.
  induction f as [|f IH]; intros pos endt v cs s e; [ro_cret|]. cbn [switch_loop].
  ro_cgo ltac:(first [apply IH|apply ro_case_loop|base]).
Qed.
Lemma ro_parse_switch t endt : ro_lockC (parse_switch inlen pe w lf t endt).
Proof. intros s e. unfold parse_switch. ro_cgo ltac:(first [apply ro_switch_loop|base]). Qed.
Lemma ro_parse_plural t : ro_lockC (parse_plural inlen pe w lf t).
Proof. intros s e. unfold parse_plural. ro_cgo ltac:(first [apply ro_parse_switch|base]). Qed.
Lemma ro_parse_for t : ro_lockC (parse_for inlen pe w t).
Proof. intros s e. unfold parse_for. ro_cgo base. Qed.
Lemma ro_if_loop : forall f pos conds ie, ro_lockC (if_loop inlen pe w f pos conds ie).
Proof. induction f as [|f IH]; intros pos conds ie s e; [ro_cret|]. cbn [if_loop]. ro_cgo ltac:(first [apply IH|base]). Qed.
Lemma ro_parse_msg t : ro_lockC (parse_msg inlen unq w lf t).
Proof. intros s e. unfold parse_msg. ro_cgo base. Qed.
Lemma ro_parse_template t : ro_lockC (parse_template inlen unq w lf t).
Proof. intros s e. unfold parse_template. ro_cgo base. Qed.
Lemma ro_parse_header_param t : ro_lockC (parse_header_param inlen pe t).
Proof. intros s e. unfold parse_header_param. ro_cgo base. Qed.

Lemma ro_begin_tag : ro_lockC (begin_tag inlen lexq unq pexpr efuel pe w lf).
Proof.
  intros s e. unfold begin_tag, notmsg.
  ro_cgo ltac:(first [apply ro_if_loop|apply ro_parse_msg|apply ro_parse_plural|apply ro_parse_for|apply ro_parse_switch|apply ro_parse_call
                     |apply ro_parse_let|apply ro_cmd_print|apply ro_parse_template|apply ro_parse_header_param|ro_ccall ro_cmd_print|base]).
Qed.
Lemma ro_text_or_tag t u : ro_lockC (text_or_tag inlen lexq unq pexpr efuel pe w lf t u).
Proof. intros s e. unfold text_or_tag. ro_cgo ltac:(first [apply ro_begin_tag|ro_ccall ro_begin_tag|base]). Qed.
Lemma ro_item_list_loop : forall f u pos acc, ro_lockC (item_list_loop inlen lexq unq pexpr efuel pe w lf f u pos acc).
Proof.
  induction f as [|f IH]; intros u pos acc s e; [ro_cret|]. cbn [item_list_loop].
  ro_cgo ltac:(first [apply IH|apply ro_text_or_tag|base]).
Qed.
End Level.

Theorem ro_item_list_gen : forall F u, ro_lockC (item_list inlen lexq unq pexpr efuel F u).
Proof.
  induction F as [|f IH]; intros u s e; [cbn [item_list]; ro_cret|]. cbn [item_list].
  apply ro_item_list_loop; [intros prec; apply ro_lift_expr|exact IH].
Qed.
End Cmd.

(* parse.SoyFile's itemList over the expression parser of Model/ExprParser.v *)
Theorem ro_item_list inlen lexq unq : forall F u, ro_lockC (item_list inlen lexq unq parse_expr expr_fuel F u).
Proof. intros F u. apply ro_item_list_gen. exact ro_parse_expr. Qed.

(* the entry point (budget F explicit): a run that made no more receives than there are items in [ts] is the run on
   every extension [ts ++ e] of the list -- same tree or error, final state with [e] still unreceived -- and conversely
   a run on [ts ++ e] that made at most |ts| receives is the extension of the run on [ts] *)
Theorem ro_parse_depends_on_received inlen lexq unq F ts e :
  (forall r, item_list inlen lexq unq parse_expr expr_fuel F u_eof (cst_init ts) = r ->
     match ro_cfin r with Some q => (p_recv q <= length ts)%nat | None => False end ->
     item_list inlen lexq unq parse_expr expr_fuel F u_eof (cst_init (ts ++ e)) = ro_crext e r) /\
  (forall r', item_list inlen lexq unq parse_expr expr_fuel F u_eof (cst_init (ts ++ e)) = r' ->
     match ro_cfin r' with Some q => (p_recv q <= length ts)%nat | None => False end ->
     r' = ro_crext e (item_list inlen lexq unq parse_expr expr_fuel F u_eof (cst_init ts))).
Proof.
  destruct (ro_item_list inlen lexq unq F u_eof (cst_init ts) e) as (_ & _ & W & _).
  change (ro_cext e (cst_init ts)) with (cst_init (ts ++ e)) in W.
  split.
  - intros r <- H. apply W. left. exact H.
  - intros r' <- H. apply W. right. exact H.
Qed.

(* a receive from the closed channel is a receive of a zero item: a run that made at most |ts| + j receives is, up
   to the zero items left over, the run on [ts] followed by j zero items *)
Theorem ro_parse_zero_padding inlen lexq unq F ts j :
  (forall r, item_list inlen lexq unq parse_expr expr_fuel F u_eof (cst_init ts) = r ->
     match ro_cfin r with Some q => (p_recv q <= length ts + j)%nat | None => False end ->
     exists j', item_list inlen lexq unq parse_expr expr_fuel F u_eof (cst_init (ts ++ ro_zeros j)) = ro_crext (ro_zeros j') r) /\
  (forall r', item_list inlen lexq unq parse_expr expr_fuel F u_eof (cst_init (ts ++ ro_zeros j)) = r' ->
     match ro_cfin r' with Some q => (p_recv q <= length ts + j)%nat | None => False end ->
     exists j', r' = ro_crext (ro_zeros j') (item_list inlen lexq unq parse_expr expr_fuel F u_eof (cst_init ts))).
Proof.
  destruct (ro_item_list inlen lexq unq F u_eof (cst_init ts) (ro_zeros j)) as (_ & _ & _ & P). specialize (P j eq_refl).
  change (ro_cext (ro_zeros j) (cst_init ts)) with (cst_init (ts ++ ro_zeros j)) in P.
  assert (Hw : forall o, match o with Some q => (p_recv q <= length ts + j)%nat | None => False end ->
                         ro_within (ro_pext (ro_zeros j) (c_p (cst_init ts))) o).
  { intros [q|] H; [|exact H]. unfold ro_within, ro_avail, ro_zeros. cbn [cst_init c_p pst_init ro_pext p_recv p_rest].
    rewrite app_length, repeat_length. exact H. }
  split.
  - intros r <- H. apply P. left. apply Hw. exact H.
  - intros r' <- H. apply P. right. apply Hw. exact H.
Qed.

Print Assumptions ro_item_list.
Print Assumptions ro_parse_zero_padding.
Print Assumptions ro_parse_depends_on_received.
