(* [Proofs/InterpSub.v]'s node-indexed walker principle with ONE change: the obligation for [fail e] is
   asked only for the error texts the walker itself raises ([walker_fail_texts], checked by computation at
   every [fail] site of [walk_node]), not for every byte string.  A predicate that depends on WHICH error a
   run ends with -- "never the instrument's marker [e_capped]", "an error text of the fixed list" -- is not
   a [walker_logic_sub] ([ws_fail] quantifies over all texts); it is a [walker_logic_sube].
   The section below is InterpSub's [Section Sub] with [ws_fail] replaced (same proofs; [phi_leaf] discharges
   the membership by [vm_compute]). *)
From Soy Require Import Model.Bytes Model.Num Model.Values Model.Outcome Model.Ast
  Model.Escape Model.Directives Model.Print Generated.Tables Model.Interp Proofs.InterpLogic Proofs.InterpSub.
Require Import Lia List.
Import ListNotations.
Open Scope N_scope.

(* every text passed to [fail] by Model/Interp.v (a superset is harmless) *)
Definition walker_fail_texts : list bstr :=
  [ Interp.e_write; Interp.e_undefined; Interp.e_notnumber; Interp.e_type; Interp.e_notlist; Interp.e_notmap;
    Interp.e_notemplate; Interp.e_noij; Interp.e_nullref; Interp.e_index; Interp.e_key; Interp.e_noncollection;
    Interp.e_unknown; Interp.e_func; Interp.e_arity; Interp.e_impossible; Interp.e_divzero; Interp.e_range;
    Interp.e_plural; Interp.e_placeholder; Print.e_nodirective; Print.e_arity; Print.e_nilapply ].
Definition walker_fail_text (e : bstr) : bool := existsb (bstr_eqb e) walker_fail_texts.

Section SubE.
Variable cf : cfg.
Variable Phi : forall A : Type, M A -> Prop.
Arguments Phi {A} _.
Variable pure_ok : forall A : Type, outcome A -> Prop.
Arguments pure_ok {A} _.

(* [walker_logic] without [wl_set_cur] *)
Record walker_logic_sube : Prop := {
  wse_ext : forall A (m m' : M A), (forall st, m st = m' st) -> Phi m -> Phi m';
  wse_ret : forall A (x : A), Phi (ret x);
  wse_fail : forall A e, walker_fail_text e = true -> Phi (@fail A e);
  wse_lift : forall A (o : outcome A), pure_ok o -> Phi (lift o);
  wse_bind : forall A B (m : M A) (f : A -> M B), Phi m -> (forall x, Phi (f x)) -> Phi (mbind m f);
  wse_template_mode : forall ae, Phi (modify (fun st => set_mode st (template_mode (mode st) ae)));
  wse_write : forall w, Phi (write w);
  wse_set : forall k v, Phi (m_set k v);
  wse_lookup : forall k, Phi (m_lookup k);
  wse_fresh_list : forall l, Phi (fresh_list l);
  wse_fresh_list_or_nil : forall l, Phi (fresh_list_or_nil l);
  wse_fresh_map : forall m, Phi (fresh_map m);
  wse_read_mode : forall B (f : N -> M B), (forall x, Phi (f x)) -> Phi (st <-- get ;;; f (mode st));
  wse_read_ctx : forall B (f : scope -> M B), (forall x, Phi (f x)) -> Phi (st <-- get ;;; f (ctx st));
  wse_scoped : forall (m : M unit), Phi m -> Phi (_ <-- m_push ;;; _ <-- m ;;; _ <-- m_pop ;;; ret VUndef);
  wse_eval : forall (w : node -> M value) e, Phi (w e) -> Phi (eval w e);
  wse_block : forall (w : node -> M value) body, Phi (w body) -> Phi (render_block w body);
}.

(* the pure sites, without the fuel case (which concerns [walk], not [walk_body]) *)
Record pure_sites_sube : Prop := {
  psse_arith : forall op x y, pure_ok (arith op x y);
  psse_compare : forall op x y, pure_ok (compare_op op x y);
  psse_string : forall v, pure_ok (value_string v);
  psse_print : forall m ds s, pure_ok (print_writes m ds s);
  psse_func : forall name ar vs, func_arities name = Some ar -> pure_ok (apply_func name vs);
}.

Hypothesis L : walker_logic_sube.
Hypothesis PS : pure_sites_sube.

Ltac phi_bind := apply (wse_bind L); [ | intro ].
Ltac phi_leaf :=
  first [ apply (wse_ret L) | (apply (wse_fail L); vm_compute; reflexivity) | apply (wse_write L) | apply (wse_set L)
        | apply (wse_lookup L) | apply (wse_fresh_list L) | apply (wse_fresh_list_or_nil L)
        | apply (wse_fresh_map L) | apply (wse_template_mode L) ].

Lemma ephi_write_all ws : Phi (write_all ws).
Proof.
  induction ws as [|x r IH]; cbn [write_all]; [apply (wse_ret L)|].
  phi_bind; [apply (wse_write L) | exact IH].
Qed.

Section Body.
Variable w : node -> M value.

Lemma ephi_eval e : Phi (w e) -> Phi (eval w e).
Proof. apply (wse_eval L). Qed.

Lemma ephi_evaldef e : Phi (w e) -> Phi (evaldef w e).
Proof. intros H. unfold evaldef. phi_bind; [apply ephi_eval; exact H|]. destruct x; phi_leaf. Qed.

Lemma ephi_eval_list es : (forall x, In x es -> Phi (w x)) -> Phi (eval_list w es).
Proof.
  induction es as [|e r IH]; intros H; cbn [eval_list]; [phi_leaf|].
  phi_bind; [apply ephi_eval; apply H; left; reflexivity|].
  phi_bind; [apply IH; intros y Hy; apply H; right; exact Hy|]. phi_leaf.
Qed.

Lemma ephi_walk_list ns : (forall x, In x ns -> Phi (w x)) -> Phi (walk_list w ns).
Proof.
  induction ns as [|x r IH]; intros H; cbn [walk_list]; [phi_leaf|].
  phi_bind; [apply H; left; reflexivity | apply IH; intros y Hy; apply H; right; exact Hy].
Qed.

Lemma ephi_render_block body : Phi (w body) -> Phi (render_block w body).
Proof. apply (wse_block L). Qed.

Lemma ephi_maplit_items l : (forall x, In x (map snd l) -> Phi (w x)) -> Phi (maplit_items w l).
Proof.
  induction l as [|[k e] r IH]; intros H; cbn [maplit_items]; [phi_leaf|].
  phi_bind; [apply ephi_eval; apply H; left; reflexivity|].
  phi_bind; [apply IH; intros y Hy; apply H; right; exact Hy|]. phi_leaf.
Qed.

Lemma ephi_loop_func name args : Phi (loop_func name args).
Proof.
  unfold loop_func. destruct args as [|a r]; [phi_leaf|].
  destruct a; try phi_leaf.
  phi_bind; [phi_leaf|].
  destruct (Interp.fn_is name n_index); [phi_leaf|].
  destruct x; try phi_leaf.
  destruct (Interp.fn_is name n_isFirst); [phi_leaf|].
  phi_bind; [phi_leaf|]. destruct x; phi_leaf.
Qed.

Lemma ephi_call_func name args : (forall x, In x args -> Phi (w x)) -> Phi (call_func w name args).
Proof.
  intros H. unfold call_func. destruct (func_arities name) as [ar|] eqn:Har; [|phi_leaf].
  destruct (negb _); [phi_leaf|].
  phi_bind; [apply ephi_eval_list; exact H|].
  phi_bind; [apply (wse_lift L); eapply (psse_func PS); exact Har|].
  destruct x0; phi_leaf.
Qed.

Lemma ephi_dataref_access acc :
  (forall x, In x (flat_map acc_subs acc) -> Phi (w x)) -> forall ref, Phi (dataref_access w acc ref).
Proof.
  induction acc as [|a rest IH]; intros H ref; cbn [dataref_access]; [phi_leaf|].
  assert (Hrest : forall ref, Phi (dataref_access w rest ref)).
  { apply IH. intros y Hy. apply H. apply in_flat_map_tl. exact Hy. }
  phi_bind.
  - destruct a; try phi_leaf.
    phi_bind; [apply ephi_eval; apply H; apply in_flat_map_hd; left; reflexivity|].
    destruct x; try phi_leaf;
      (phi_bind; [apply (wse_lift L); apply (psse_string PS) | phi_leaf]).
  - destruct x as [oi k].
    destruct ref; try phi_leaf.
    + destruct (is_nullsafe a); phi_leaf.
    + destruct (is_nullsafe a); phi_leaf.
    + destruct oi as [i|]; [apply Hrest | phi_leaf].
    + destruct oi as [i|]; [phi_leaf | apply Hrest].
Qed.

Lemma ephi_print_dirs l : (forall x, In x (flat_map dir_subs l) -> Phi (w x)) -> forall v, Phi (print_dirs cf w l v).
Proof.
  induction l as [|d r IH]; intros H v; cbn [print_dirs]; [phi_leaf|].
  assert (Hr : forall v', Phi (print_dirs cf w r v')).
  { apply IH. intros y Hy. apply H. apply in_flat_map_tl. exact Hy. }
  destruct d; try phi_leaf.
  destruct (lookup_directive name) as [[arglens ?]|]; [|phi_leaf].
  destruct (negb _); [phi_leaf|].
  phi_bind; [apply ephi_eval_list; intros y Hy; apply H; apply in_flat_map_hd; exact Hy|].
  phi_bind; [apply (wse_lift L); apply (psse_string PS)|].
  phi_bind; [apply (wse_lift L); apply (psse_print PS)|].
  phi_bind; [apply Hr|]. phi_leaf.
Qed.

Lemma ephi_if_conds cs : (forall x, In x (flat_map cond_subs cs) -> Phi (w x)) -> Phi (if_conds w cs).
Proof.
  induction cs as [|c0 r IH]; intros H; cbn [if_conds]; [phi_leaf|].
  assert (Hr : Phi (if_conds w r)).
  { apply IH. intros y Hy. apply H. apply in_flat_map_tl. exact Hy. }
  destruct c0; try phi_leaf.
  destruct cond as [c|].
  - phi_bind; [apply ephi_eval; apply H; apply in_flat_map_hd; left; reflexivity|].
    destruct (truthy x); [|exact Hr].
    phi_bind; [apply H; apply in_flat_map_hd; right; left; reflexivity | phi_leaf].
  - phi_bind; [apply H; apply in_flat_map_hd; left; reflexivity | phi_leaf].
Qed.

Lemma ephi_for_items var body items : Phi (w body) -> forall i, Phi (for_items w var body i items).
Proof.
  intros Hb. induction items as [|x r IH]; intros i; cbn [for_items]; [phi_leaf|].
  phi_bind; [phi_leaf|]. phi_bind; [phi_leaf|]. phi_bind; [exact Hb|]. apply IH.
Qed.

Lemma ephi_case_hit sv vs : (forall x, In x vs -> Phi (w x)) -> Phi (case_hit w sv vs).
Proof.
  induction vs as [|x r IH]; intros H; cbn [case_hit]; [phi_leaf|].
  phi_bind; [apply ephi_eval; apply H; left; reflexivity|].
  destruct (equals sv x0); [phi_leaf | apply IH; intros y Hy; apply H; right; exact Hy].
Qed.

Lemma ephi_switch_cases sv cs : (forall x, In x (flat_map case_subs cs) -> Phi (w x)) -> Phi (switch_cases w sv cs).
Proof.
  induction cs as [|c r IH]; intros H; cbn [switch_cases]; [phi_leaf|].
  assert (Hr : Phi (switch_cases w sv r)).
  { apply IH. intros y Hy. apply H. apply in_flat_map_tl. exact Hy. }
  destruct c; try phi_leaf.
  phi_bind.
  - apply ephi_case_hit. intros y Hy. apply H. apply in_flat_map_hd. cbn [case_subs]. apply in_or_app. left. exact Hy.
  - destruct (x || _); [|exact Hr].
    phi_bind; [apply H; apply in_flat_map_hd; cbn [case_subs]; apply in_or_app; right; left; reflexivity | phi_leaf].
Qed.

Lemma ephi_call_params ps : (forall x, In x (flat_map param_subs ps) -> Phi (w x)) -> forall cd, Phi (call_params w ps cd).
Proof.
  induction ps as [|p r IH]; intros H cd; cbn [call_params]; [phi_leaf|].
  assert (Hr : forall cd, Phi (call_params w r cd)).
  { apply IH. intros y Hy. apply H. apply in_flat_map_tl. exact Hy. }
  destruct p; try phi_leaf.
  - phi_bind; [apply ephi_eval; apply H; apply in_flat_map_hd; left; reflexivity | apply Hr].
  - phi_bind; [apply ephi_render_block; apply H; apply in_flat_map_hd; left; reflexivity | apply Hr].
Qed.

Lemma ephi_call_data alldata dat : (forall x, In x (opt_list dat) -> Phi (w x)) -> Phi (call_data w alldata dat).
Proof.
  intros H. unfold call_data.
  apply (wse_read_ctx L _ (fun c =>
    if alldata then match sc_alldata c with Some s => ret (sc_push s) | None => fail e_impossible end
    else match dat with
         | Some e => dv <-- eval w e ;;; match dv with VMap id m => ret (sc_push (new_scope id m)) | _ => fail e_notmap end
         | None => ret [fresh_frame]
         end)).
  intros c. destruct alldata.
  - destruct (sc_alldata c); phi_leaf.
  - destruct dat as [e|]; [|phi_leaf].
    phi_bind; [apply ephi_eval; apply H; left; reflexivity|]. destruct x; phi_leaf.
Qed.

Lemma ephi_plural_pick mp i dflt cs :
  Phi (w (NMsg mp 0 [] [] dflt)) -> (forall x, In x (flat_map (plural_case_subs mp) cs) -> Phi (w x)) ->
  Phi (plural_pick w mp i dflt cs).
Proof.
  intros Hd. induction cs as [|c r IH]; intros H; cbn [plural_pick].
  - phi_bind; [exact Hd | phi_leaf].
  - assert (Hr : Phi (plural_pick w mp i dflt r)).
    { apply IH. intros y Hy. apply H. apply in_flat_map_tl. exact Hy. }
    destruct c; try phi_leaf.
    destruct (i =? v)%Z; [|exact Hr].
    phi_bind; [apply H; apply in_flat_map_hd; left; reflexivity | phi_leaf].
Qed.

Lemma ephi_msg_body mp ns : (forall x, In x (flat_map (msg_subs mp) ns) -> Phi (w x)) -> Phi (msg_body w mp ns).
Proof.
  induction ns as [|x r IH]; intros H; cbn [msg_body]; [phi_leaf|].
  assert (Hr : Phi (msg_body w mp r)).
  { apply IH. intros y Hy. apply H. apply in_flat_map_tl. exact Hy. }
  destruct x; try exact Hr.
  - phi_bind; [apply H; apply in_flat_map_hd; left; reflexivity | exact Hr].
  - phi_bind; [apply H; apply in_flat_map_hd; left; reflexivity | exact Hr].
  - phi_bind; [apply ephi_eval; apply H; apply in_flat_map_hd; left; reflexivity|].
    destruct x0; try phi_leaf.
    phi_bind; [|exact Hr].
    apply ephi_plural_pick.
    + apply H. apply in_flat_map_hd. right. left. reflexivity.
    + intros y Hy. apply H. apply in_flat_map_hd. right. right. exact Hy.
Qed.

Lemma ephi_walk_node n :
  Phi (modify (fun st => set_cur st (pos_of n))) ->
  (forall n', In n' (subnodes n) -> Phi (w n')) ->
  (forall callee cd, callee_of cf n = Some callee -> Phi (call_enter w callee cd)) ->
  Phi (walk_node cf w n).
Proof.
  intros Hcur H Hcall.
  destruct n; cbn [walk_node]; try phi_leaf; cbn [subnodes] in H.
  - (* NFunc *) destruct (_ || _); [apply ephi_loop_func | apply ephi_call_func; exact H].
  - (* NListLit *) phi_bind; [apply ephi_eval_list; exact H | phi_leaf].
  - (* NMapLit *) phi_bind; [apply ephi_maplit_items; exact H | phi_leaf].
  - (* NDataRef *)
    phi_bind; [|apply ephi_dataref_access; exact H].
    destruct (bstr_eqb key s_ij); [|phi_leaf]. destruct (c_ij cf); phi_leaf.
  - (* NNot *) phi_bind; [apply ephi_eval; apply H; left; reflexivity | phi_leaf].
  - (* NNeg *) phi_bind; [apply ephi_evaldef; apply H; left; reflexivity|]. destruct x; phi_leaf.
  - (* NBin *)
    assert (H1 : Phi (w n1)) by (apply H; left; reflexivity).
    assert (H2 : Phi (w n2)) by (apply H; right; left; reflexivity).
    destruct op.
    1-5: (phi_bind; [apply ephi_evaldef; exact H1|]; phi_bind; [apply ephi_evaldef; exact H2|]; apply (wse_lift L); apply (psse_arith PS)).
    1-2: (phi_bind; [apply ephi_eval; exact H1|]; phi_bind; [apply ephi_eval; exact H2|]; phi_leaf).
    1-4: (phi_bind; [apply ephi_evaldef; exact H1|]; phi_bind; [apply ephi_evaldef; exact H2|]; apply (wse_lift L); apply (psse_compare PS)).
    + phi_bind; [apply ephi_eval; exact H1|]. destruct (truthy x); [phi_leaf|].
      phi_bind; [apply ephi_eval; exact H2 | phi_leaf].
    + phi_bind; [apply ephi_eval; exact H1|]. destruct (truthy x); [|phi_leaf].
      phi_bind; [apply ephi_eval; exact H2 | phi_leaf].
    + phi_bind; [apply ephi_eval; exact H1|]. destruct (is_nullish x); [apply ephi_eval; exact H2 | phi_leaf].
  - (* NTern *)
    phi_bind; [apply ephi_eval; apply H; left; reflexivity|].
    destruct (truthy x); apply ephi_eval; apply H; [right; left | right; right; left]; reflexivity.
  - (* NList *) apply (wse_scoped L). apply ephi_walk_list. exact H.
  - (* NRawText *) phi_bind; phi_leaf.
  - (* NPrint *)
    phi_bind; [apply H; left; reflexivity|].
    assert (Hrest : Phi (ds <-- print_dirs cf w dirs x ;;;
                         s <-- lift (value_string x) ;;;
                         st <-- get ;;;
                         ws <-- lift (print_writes (mode st) ds s) ;;;
                         _ <-- write_all ws ;;; ret VUndef)).
    { phi_bind; [apply ephi_print_dirs; intros y Hy; apply H; right; exact Hy|].
      phi_bind; [apply (wse_lift L); apply (psse_string PS)|].
      apply (wse_read_mode L _ (fun md => ws <-- lift (print_writes md x0 x1) ;;; _ <-- write_all ws ;;; ret VUndef)).
      intros md. phi_bind; [apply (wse_lift L); apply (psse_print PS)|].
      phi_bind; [apply ephi_write_all | phi_leaf]. }
    destruct x; try exact Hrest. phi_leaf.
  - (* NCss *)
    phi_bind; [|phi_bind; phi_leaf].
    destruct expr as [e|]; [|phi_leaf].
    phi_bind; [apply ephi_eval; apply H; left; reflexivity|].
    phi_bind; [apply (wse_lift L); apply (psse_string PS) | phi_leaf].
  - (* NLog *) phi_bind; [apply ephi_render_block; apply H; left; reflexivity | phi_leaf].
  - (* NIf *) apply ephi_if_conds. exact H.
  - (* NFor *)
    phi_bind; [apply ephi_eval; apply H; left; reflexivity|].
    assert (Hb : Phi (w n2)) by (apply H; right; left; reflexivity).
    destruct x; try phi_leaf.
    destruct l as [|y l'].
    + destruct ifempty as [ie|]; [|phi_leaf].
      phi_bind; [apply H; right; right; left; reflexivity | phi_leaf].
    + set (l := y :: l').
      apply (wse_ext L _ (_ <-- m_push ;;;
                         _ <-- (_ <-- m_set (var ++ s_lastindex) (VInt (Z.of_nat (length l) - 1)) ;;;
                                for_items w var n2 0%Z l) ;;;
                         _ <-- m_pop ;;; ret VUndef)).
      * intros st. apply mbind_ext. intros [] s. apply mbind_assoc.
      * apply (wse_scoped L). phi_bind; [phi_leaf | apply ephi_for_items; exact Hb].
  - (* NSwitch *)
    phi_bind; [apply ephi_eval; apply H; left; reflexivity|].
    apply ephi_switch_cases. intros y Hy. apply H. right. exact Hy.
  - (* NCall *)
    cbn [callee_of] in Hcall.
    destruct (find_template _ name) as [callee|]; [|phi_leaf].
    phi_bind; [apply ephi_call_data; intros y Hy; apply H; apply in_or_app; left; exact Hy|].
    phi_bind; [apply ephi_call_params; intros y Hy; apply H; apply in_or_app; right; exact Hy|].
    phi_bind; [exact Hcur | apply Hcall; reflexivity].
  - (* NLetValue *) phi_bind; [apply ephi_eval; apply H; left; reflexivity|]. phi_bind; phi_leaf.
  - (* NLetContent *) phi_bind; [apply ephi_render_block; apply H; left; reflexivity|]. phi_bind; phi_leaf.
  - (* NMsg *) phi_bind; [apply ephi_msg_body; exact H | phi_leaf].
  - (* NMsgHtmlTag *) phi_bind; phi_leaf.
  - (* NTemplate *) phi_bind; [phi_leaf|]. phi_bind; [apply H; left; reflexivity | phi_leaf].
Qed.

Theorem phi_walk_body_sube n :
  Phi (modify (fun st => set_cur st (pos_of n))) ->
  (forall n', In n' (subnodes n) -> Phi (w n')) ->
  (forall callee cd, callee_of cf n = Some callee -> Phi (call_enter w callee cd)) ->
  Phi (walk_body cf w n).
Proof.
  intros Hcur H Hcall. unfold walk_body. phi_bind; [exact Hcur | apply ephi_walk_node; assumption].
Qed.
End Body.
End SubE.
