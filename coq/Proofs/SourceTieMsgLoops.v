(* Source tie, family 82-gotrans-soymsg-loops: soymsg/placeholder.go tagName and genBasePlaceholderNameFromHtml,
   soymsg/id.go hash32 (its block loop, the length addition, the falling-through tail switch and both mix blocks)
   as gotrans translates them from today's source, against Model/MsgId.v's tag_name, base_from_html and hash32.

   With hash32_matches_source the parameter `hash32` of the translated fingerprint / calcID (Proofs/SourceTieMsg.v) is
   the translated hash32 itself: fingerprint_matches_source_closed, calc_id_matches_source_closed.

   Proof style: no name and no literal of the source is mentioned.  tagName: cases split on the MODEL's tests.
   hash32: the translated body is a sequence of lets, one per Go assignment; each is pulled through Z.of_N
   (h32pull: uint32 + - << >> ^ | & on Z = the same operation on N) and the resulting N expression must occur, as it
   stands, in the model's computation (h32_step); what is left at the end must be the model's result. *)
From Coq Require Import ZArith NArith Bool Lia ZifyBool ZifyNat ZifyN List.
From Soy Require Import Model.Bytes Model.Outcome Generated.Tables Model.MsgId
  Proofs.SourceTieBase Proofs.SourceTieState Proofs.SourceTieMsg.
Import ListNotations.
Open Scope N_scope.

(* ------------------------------------------------------------------ *)
(* tagName                                                            *)
(* ------------------------------------------------------------------ *)

Lemma stl_take_app (pre l : bstr) : take (length pre) (pre ++ l) = pre.
Proof. induction pre as [|x pre IH]; cbn [length take app]; [destruct l; reflexivity|]. now rewrite IH. Qed.

(* `for i, ch := range text { if !isAlphaNumeric(ch) { return strings.ToLower(string(text[:i])), tagType } }`:
   text = pre ++ l, i = len(pre) *)
Lemma tag_loop_matches (lower : bstr -> bstr) (ty : bstr) (l pre : bstr) :
  src_soymsg_tagName_loop1 l lower (pre ++ l) ty (go_len pre) =
  match alnum_prefix l with
  | Some p => Some (go_ret (lower (pre ++ p), ty))
  | None => Some (go_exit tt)
  end.
Proof.
  revert pre. induction l as [|c r IH]; intro pre; cbn [src_soymsg_tagName_loop1 alnum_prefix]; [reflexivity|].
  cbv zeta. rewrite <- c_alnum_matches_source. destruct (c_alnum c); cbn [negb].
  - replace (pre ++ c :: r) with ((pre ++ [c]) ++ r) by (rewrite <- app_assoc; reflexivity).
    replace (go_len pre + 1)%Z with (go_len (pre ++ [c])) by (rewrite st_go_len_app; reflexivity).
    rewrite IH. destruct (alnum_prefix r) as [p|]; [|reflexivity].
    rewrite <- app_assoc. reflexivity.
  - unfold go_slice. pose proof (st_go_len_nonneg pre) as Hp.
    replace (orb _ _) with false by (rewrite st_go_len_app; pose proof (st_go_len_nonneg (c :: r)); lia).
    cbn [go_bind]. rewrite Z.sub_0_r. change (Z.to_nat 0) with O. cbn [drop].
    unfold go_len. rewrite Nat2Z.id, stl_take_app, app_nil_r. reflexivity.
Qed.

Lemma tag_loop_matches0 (lower : bstr -> bstr) (ty : bstr) (l : bstr) :
  src_soymsg_tagName_loop1 l lower l ty 0%Z =
  match alnum_prefix l with
  | Some p => Some (go_ret (lower p, ty))
  | None => Some (go_exit tt)
  end.
Proof. exact (tag_loop_matches lower ty l []). Qed.

(* placeholder.go tagName, whole: the order of the "</" and "/>" tests with their three tag types, the two TrimPrefix
   calls, the loop, text[:i], and the panic when no byte ends the name.  strings.ToLower is a parameter of the
   translation; it is instantiated with the model's map ascii_lower, which is what strings.ToLower does on the bytes
   that reach it (bytes accepted by isAlphaNumeric are ASCII). *)
Theorem tag_name_matches_source (text : bstr) :
  match src_soymsg_tagName (map ascii_lower) text with
  | Some r => tag_name text = Ok r
  | None => tag_name text = Crash s_no_tag_name
  end.
Proof.
  unfold src_soymsg_tagName, tag_name, has_suffix, go_has_suffix, trim_prefix, go_trim_prefix. cbv zeta.
  destruct (is_prefix [60; 47] text); [|destruct (is_prefix (rev [47; 62]) (rev text))];
    rewrite tag_loop_matches0;
    match goal with |- context [alnum_prefix ?t] => destruct (alnum_prefix t) end; reflexivity.
Qed.

(* placeholder.go genBasePlaceholderNameFromHtml: tagName, the htmlTagNames lookup with its ok, tagType + tag;
   toUpperUnderscore (five regexps) stays the parameter, instantiated with the model's matcher *)
Theorem base_from_html_matches_source (text : bstr) :
  match src_soymsg_genBasePlaceholderNameFromHtml (map ascii_lower) to_upper_underscore text with
  | Some r => base_from_html text = Ok r
  | None => base_from_html text = Crash s_no_tag_name
  end.
Proof.
  unfold src_soymsg_genBasePlaceholderNameFromHtml, base_from_html.
  pose proof (tag_name_matches_source text) as H.
  destruct (src_soymsg_tagName (map ascii_lower) text) as [[tag ty]|]; rewrite H; cbn [go_bind bind]; [|reflexivity].
  unfold go_lookup_s, go_has_s. rewrite html_tag_names_matches_source.
  destruct (assoc_s tag src_soymsg_htmlTagNames); reflexivity.
Qed.

(* ------------------------------------------------------------------ *)
(* hash32                                                             *)
(* ------------------------------------------------------------------ *)

(* uint32 arithmetic of the translation (Z with go_wrap_u 32) = the model's arithmetic on N *)
Lemma p_wrap32 (x : N) : go_wrap_u 32 (Z.of_N x) = Z.of_N (x mod 4294967296).
Proof. unfold go_wrap_u. rewrite Z_of_N_mod by discriminate. reflexivity. Qed.
Lemma p_add (x y : N) : (Z.of_N x + Z.of_N y)%Z = Z.of_N (x + y).
Proof. lia. Qed.
Lemma p_sub32 (x y : N) : go_wrap_u 32 (Z.of_N x - Z.of_N y) = Z.of_N (sub32 x y).
Proof.
  unfold go_wrap_u, sub32. change (2 ^ 32)%Z with 4294967296%Z.
  assert (H : y mod 4294967296 < 4294967296) by (apply N.mod_upper_bound; discriminate).
  rewrite Z_of_N_mod by discriminate. rewrite N2Z.inj_sub by lia. rewrite N2Z.inj_add, Z_of_N_mod by discriminate.
  change (Z.of_N 4294967296) with 4294967296%Z.
  rewrite Zminus_mod_idemp_r.
  replace (Z.of_N x + 4294967296 - Z.of_N y)%Z with (Z.of_N x - Z.of_N y + 1 * 4294967296)%Z by lia.
  now rewrite Z_mod_plus_full.
Qed.
Lemma p_lxor (x y : N) : Z.lxor (Z.of_N x) (Z.of_N y) = Z.of_N (N.lxor x y).
Proof. now rewrite Z_of_N_lxor. Qed.
Lemma p_lor (x y : N) : Z.lor (Z.of_N x) (Z.of_N y) = Z.of_N (N.lor x y).
Proof. now rewrite Z_of_N_lor. Qed.
Lemma p_land (x y : N) : Z.land (Z.of_N x) (Z.of_N y) = Z.of_N (N.land x y).
Proof. now rewrite Z_of_N_land. Qed.
Lemma p_land_c (x : N) (p : positive) : Z.land (Z.of_N x) (Zpos p) = Z.of_N (N.land x (Npos p)).
Proof. now rewrite Z_of_N_land. Qed.
Lemma p_shiftl_c (x : N) (p : positive) : Z.shiftl (Z.of_N x) (Zpos p) = Z.of_N (N.shiftl x (Npos p)).
Proof. now rewrite Z_of_N_shiftl. Qed.
Lemma p_shiftr_c (x : N) (p : positive) : Z.shiftr (Z.of_N x) (Zpos p) = Z.of_N (N.shiftr x (Npos p)).
Proof.
  apply Z.bits_inj'. intros i Hi. rewrite Z.shiftr_spec by exact Hi.
  rewrite <- (Z2N.id i) by exact Hi. rewrite Z.testbit_of_N.
  change (Zpos p) with (Z.of_N (Npos p)). rewrite <- N2Z.inj_add, Z.testbit_of_N. now rewrite N.shiftr_spec'.
Qed.
Lemma p_shiftl_0 (z : Z) : Z.shiftl z 0 = z.
Proof. apply Z.shiftl_0_r. Qed.
#[export] Hint Rewrite p_shiftl_0 p_wrap32 p_add p_sub32 p_lxor p_lor p_land p_land_c p_shiftl_c p_shiftr_c : h32pull.

Lemma n_byte32 (x : N) : (N.land x 255) mod 4294967296 = N.land x 255.
Proof.
  apply N.mod_small. change 255 with (N.ones 8). rewrite N.land_ones.
  assert (x mod 2 ^ 8 < 2 ^ 8) by (apply N.mod_upper_bound; discriminate).
  change (2 ^ 8) with 256 in *. lia.
Qed.

Lemma st_index_b_at (pre l : bstr) (d : Z) (x : N) :
  (0 <= d)%Z -> nth_error l (Z.to_nat d) = Some x -> st_small (go_len (pre ++ l)) ->
  go_index_b (pre ++ l) (go_wrap_s 64 (go_len pre + d)) = Some (Z.of_N x).
Proof.
  intros Hd Hx Hs.
  assert (Hlt : (Z.to_nat d < length l)%nat) by (apply nth_error_Some; congruence).
  unfold st_small in Hs. rewrite st_go_len_app in Hs. unfold go_len in *.
  rewrite st_wrap64 by lia. unfold go_index_b. rewrite go_index_in by (unfold go_len; rewrite app_length; lia).
  replace (Z.to_nat (Z.of_nat (length pre) + d)) with (length pre + Z.to_nat d)%nat by lia.
  rewrite nth_error_app2 by lia.
  replace (length pre + Z.to_nat d - length pre)%nat with (Z.to_nat d) by lia.
  rewrite Hx. reflexivity.
Qed.

(* zeta-reduce the let at the head of the left-hand side *)
Ltac h32_zeta_head :=
  lazymatch goal with
  | |- (let x := ?e in @?B x) = ?R => let t := eval cbv beta in (B e) in change (t = R)
  end.

(* zeta-reduce a let (anywhere) whose bound term is a variable *)
Ltac h32_let_var :=
  match goal with
  | |- context C [let x := ?n in @?B x] =>
      is_var n;
      let t := eval cbv beta in (B n) in
      let g := context C [t] in
      change g
  end.

Ltac h32_step :=
  lazymatch goal with
  | |- (let x := ?e in @?B x) = ?R =>
      lazymatch e with
      | go_wrap_s _ _ => h32_zeta_head
      | _ =>
        let H := fresh "H" in
        eassert (H : e = Z.of_N _) by (autorewrite with h32pull; rewrite ?n_byte32; reflexivity);
        rewrite H;
        lazymatch type of H with
        | _ = Z.of_N ?em => clear H; generalize em; let n := fresh "n" in intro n
        end;
        h32_zeta_head; repeat h32_let_var
      end
  end.

Lemma h32_blocks_step (b0 b1 b2 b3 b4 b5 b6 b7 b8 b9 b10 b11 : N) (r : bstr) (st : N * N * N) :
  h32_blocks (b0 :: b1 :: b2 :: b3 :: b4 :: b5 :: b6 :: b7 :: b8 :: b9 :: b10 :: b11 :: r) st =
  let '(a, b', c) := h32_loads [b0; b1; b2; b3; b4; b5; b6; b7; b8; b9; b10; b11] h32_loop_loads st in
  h32_blocks r (mix a b' c).
Proof. reflexivity. Qed.

Ltac h32_model_loads :=
  match goal with
  | |- context [h32_loads ?blk ?tbl ?st] =>
      let t := eval cbv beta iota zeta delta [h32_loads h32_loop_loads h32_tail_loads fold_left fst snd h32_add h32_word h32_byte
                           map filter N.leb N.compare Pos.compare Pos.compare_cont
                           nth N.to_nat Pos.to_nat Pos.iter_op Nat.add Init.Nat.add N.eqb Pos.eqb] in (h32_loads blk tbl st) in
      change (h32_loads blk tbl st) with t
  end.


Lemma h32_blocks_short (rest : bstr) (st : N * N * N) : (length rest < 12)%nat -> h32_blocks rest st = (rest, st).
Proof.
  intro H.
  destruct rest as [|b0 [|b1 [|b2 [|b3 [|b4 [|b5 [|b6 [|b7 [|b8 [|b9 [|b10 [|b11 r]]]]]]]]]]]]; try reflexivity.
  cbn [length] in H. lia.
Qed.

Lemma st_wrap64_near (x d : Z) : (0 <= x < 4611686018427387904)%Z -> (0 <= d <= 4611686018427387904)%Z -> go_wrap_s 64 (x + d) = (x + d)%Z.
Proof. intros Hx Hd. apply go_wrap_s_id; [lia|]. change (2 ^ (64 - 1))%Z with 9223372036854775808%Z. lia. Qed.

Lemma h32_loop_matches (fuel : nat) : forall (rest pre : bstr) (a b c : N),
  st_small (go_len (pre ++ rest)) -> (length rest < 12 * fuel)%nat ->
  src_soymsg_hash32_loop1 fuel (pre ++ rest) (go_len (pre ++ rest)) (Z.of_N c) (Z.of_N a) (Z.of_N b) (go_len pre) =
  let '(rest', (a', b', c')) := h32_blocks rest (a, b, c) in
  Some (go_exit (Z.of_N c', Z.of_N a', Z.of_N b', (go_len (pre ++ rest) - go_len rest')%Z)).
Proof.
  induction fuel as [|fuel IH]; intros rest pre a b c Hs Hf; [lia|].
  assert (Hp : (0 <= go_len pre)%Z) by apply st_go_len_nonneg.
  assert (Hr : (0 <= go_len rest)%Z) by apply st_go_len_nonneg.
  assert (Hl : go_len (pre ++ rest) = (go_len pre + go_len rest)%Z) by apply st_go_len_app.
  unfold st_small in Hs.
  destruct (Nat.ltb (length rest) 12) eqn:E.
  - apply Nat.ltb_lt in E. rewrite (h32_blocks_short rest) by exact E.
    cbv beta iota delta [src_soymsg_hash32_loop1]. fold src_soymsg_hash32_loop1.
    rewrite (st_wrap64_near (go_len pre) 12) by lia.
    replace (Z.leb _ _) with false by (unfold go_len in *; lia).
    cbv iota. rewrite Hl. replace (go_len pre + go_len rest - go_len rest)%Z with (go_len pre) by lia. reflexivity.
  - apply Nat.ltb_ge in E.
    destruct rest as [|b0 [|b1 [|b2 [|b3 [|b4 [|b5 [|b6 [|b7 [|b8 [|b9 [|b10 [|b11 r]]]]]]]]]]]];
      try (exfalso; cbn [length] in E; lia).
    cbv beta iota delta [src_soymsg_hash32_loop1]. fold src_soymsg_hash32_loop1.
    repeat (erewrite st_index_b_at by first [assumption | lia | reflexivity]).
    rewrite (st_wrap64_near (go_len pre) 12) by lia.
    replace (Z.leb _ _) with true by (rewrite !st_go_len_cons in Hl; pose proof (st_go_len_nonneg r); lia).
    cbv beta iota delta [go_bind].
    rewrite h32_blocks_step.
    (* the model's three word loads, normalised on their own (not inside the big goal) *)
    lazymatch goal with
    | |- context [h32_loads ?blk ?tbl ?st] =>
        let HL := fresh "HL" in
        eassert (HL : h32_loads blk tbl st = _)
          by (h32_model_loads; cbv beta iota delta [w32 shl32]; rewrite ?N.lor_0_l, ?N.shiftl_0_r, ?n_byte32; reflexivity);
        rewrite HL; clear HL
    end.
    cbv beta iota delta [mix w32 shl32].
    set (blk := [b0; b1; b2; b3; b4; b5; b6; b7; b8; b9; b10; b11]).
    replace (pre ++ b0 :: b1 :: b2 :: b3 :: b4 :: b5 :: b6 :: b7 :: b8 :: b9 :: b10 :: b11 :: r) with ((pre ++ blk) ++ r) in *
      by (rewrite <- app_assoc; reflexivity).
    replace (go_len pre + 12)%Z with (go_len (pre ++ blk)) by (rewrite st_go_len_app; reflexivity).
    repeat h32_step.
    rewrite IH by (try assumption; cbn [length] in Hf; lia).
    reflexivity.
Qed.

Lemma h32_blocks_split_n (n : nat) : forall s st, (length s <= n)%nat ->
  exists pre, s = pre ++ fst (h32_blocks s st) /\ (length (fst (h32_blocks s st)) < 12)%nat.
Proof.
  induction n as [|n IH]; intros s st Hn.
  { destruct s; [|cbn [length] in Hn; lia]. exists []. split; [reflexivity|cbn; lia]. }
  destruct (Nat.ltb (length s) 12) eqn:E.
  - apply Nat.ltb_lt in E. rewrite h32_blocks_short by exact E. exists []. split; [reflexivity|exact E].
  - apply Nat.ltb_ge in E.
    destruct s as [|b0 [|b1 [|b2 [|b3 [|b4 [|b5 [|b6 [|b7 [|b8 [|b9 [|b10 [|b11 r]]]]]]]]]]]];
      try (exfalso; cbn [length] in E; lia).
    rewrite h32_blocks_step.
    destruct (h32_loads [b0; b1; b2; b3; b4; b5; b6; b7; b8; b9; b10; b11] h32_loop_loads st) as [[a' b'] c'].
    destruct (IH r (mix a' b' c') ltac:(cbn [length] in Hn; lia)) as (pre & Hpre & Hlen).
    exists ([b0; b1; b2; b3; b4; b5; b6; b7; b8; b9; b10; b11] ++ pre). split; [|exact Hlen].
    rewrite <- app_assoc. cbn [app]. now rewrite <- Hpre.
Qed.

(* the same under the go_bind that feeds the joined (c, a, b) of the tail switch to the final mix *)
Ltac h32_zeta_bind :=
  lazymatch goal with
  | |- go_bind (let x := ?e in @?B x) ?K = ?R => let t := eval cbv beta in (B e) in change (go_bind t K = R)
  end.

Ltac h32_step_bind :=
  lazymatch goal with
  | |- go_bind (let x := ?e in @?B x) ?K = ?R =>
        let H := fresh "H" in
        eassert (H : e = Z.of_N _) by (autorewrite with h32pull; rewrite ?n_byte32; reflexivity);
        rewrite H;
        lazymatch type of H with
        | _ = Z.of_N ?em => clear H; generalize em; let n := fresh "n" in intro n
        end;
        h32_zeta_bind
  end.

Ltac h32_model_tail :=
  lazymatch goal with
  | |- _ = Some (Z.of_N ?m) =>
      let t := eval cbv beta iota zeta delta [h32_loads h32_loop_loads h32_tail_loads fold_left fst snd h32_add h32_word h32_byte
                           map filter N.leb N.compare Pos.compare Pos.compare_cont length N.of_nat Pos.of_succ_nat Pos.succ
                           nth N.to_nat Pos.to_nat Pos.iter_op Nat.add Init.Nat.add N.eqb Pos.eqb w32 shl32] in m in
      change m with t
  end.

(* id.go hash32(str, 0, len(str), seed), whole: initial a and b, the block loop (h32_loop_matches), c += len, the tail
   switch on the number of bytes left with its eleven falling-through cases (one per length of the rest), the final
   mix, return c.  Strings below 2^62 bytes (Go's int arithmetic does not wrap). *)
Theorem hash32_matches_source (s : bstr) (seed : N) :
  st_small (go_len s) -> seed < 4294967296 ->
  src_soymsg_hash32 s 0 (go_len s) (Z.of_N seed) = Some (Z.of_N (hash32 s seed)).
Proof.
  intros Hs Hseed.
  cbv beta iota delta [src_soymsg_hash32]. repeat h32_zeta_head.
  assert (Hs' := Hs). unfold st_small in Hs'.
  rewrite Z.sub_0_r, (st_wrap64 (go_len s)), (st_wrap64 (go_len s + 1)) by lia.
  lazymatch goal with
  | |- context [src_soymsg_hash32_loop1 ?f _ _ _ ?za ?zb _] =>
      assert (HL : src_soymsg_hash32_loop1 f s (go_len s) (Z.of_N seed) za zb 0 =
                   let '(rest', (a', b', c')) := h32_blocks s (h32_init_a, h32_init_b, seed) in
                   Some (go_exit (Z.of_N c', Z.of_N a', Z.of_N b', (go_len s - go_len rest')%Z)))
        by (apply (h32_loop_matches f s [] h32_init_a h32_init_b seed Hs); unfold go_len; lia)
  end.
  rewrite HL. clear HL.
  cbv beta iota delta [hash32]. replace (w32 seed) with seed by (unfold w32; rewrite N.mod_small; lia).
  destruct (h32_blocks_split_n (length s) s (h32_init_a, h32_init_b, seed) (le_n _)) as (pre & Hpre & Hlen).
  destruct (h32_blocks s (h32_init_a, h32_init_b, seed)) as [rest [[a b] c]].
  cbn [fst] in Hpre, Hlen. cbv beta iota.
  lazymatch goal with
  | |- (let x := ?e in go_bind (@?SW x) ?k) = ?R =>
      assert (HK : forall a b c, k (Z.of_N c, Z.of_N a, Z.of_N b) = Some (Z.of_N (let '(_, _, c') := mix a b c in c')))
  end.
  { clear. intros a b c. cbv beta iota. cbv beta iota delta [mix w32 shl32].
    repeat h32_step. reflexivity. }
  lazymatch goal with
  | |- (let x := ?e in go_bind (@?SW x) ?k) = ?R => revert HK; generalize k; intros K HK
  end.
  replace (go_len s - (go_len s - go_len rest))%Z with (go_len rest) by lia.
  replace (go_len s - go_len rest)%Z with (go_len pre) by (rewrite Hpre, st_go_len_app; lia).
  replace (go_len s) with (Z.of_N (N.of_nat (length s))) by (unfold go_len; lia).
  generalize (N.of_nat (length s)) as W. intro W.
  rewrite Hpre in *. clear Hpre s.
  rewrite (st_wrap64 (go_len rest)) by (rewrite st_go_len_app in Hs'; pose proof (st_go_len_nonneg pre); pose proof (st_go_len_nonneg rest); lia).
  destruct rest as [|b0 [|b1 [|b2 [|b3 [|b4 [|b5 [|b6 [|b7 [|b8 [|b9 [|b10 [|b11 r]]]]]]]]]]]];
    try (exfalso; cbn [length] in Hlen; lia).
  all: h32_model_tail; rewrite ?N.lor_0_l, ?N.shiftl_0_r, ?n_byte32; h32_step; h32_zeta_bind;
    match goal with |- context [Z.eqb (go_len ?l) _] => let v := eval cbv in (go_len l) in change (go_len l) with v end;
    st_decide_ifs;
    repeat (erewrite st_index_b_at by first [assumption | lia | reflexivity]);
    cbv beta iota zeta delta [go_bind];
    lazymatch goal with
    | |- ?kk (?e1, ?e2, ?e3) = _ =>
        let H1 := fresh "H" in let H2 := fresh "H" in let H3 := fresh "H" in
        eassert (H1 : e1 = Z.of_N _) by (autorewrite with h32pull; rewrite ?n_byte32; reflexivity);
        eassert (H2 : e2 = Z.of_N _) by (autorewrite with h32pull; rewrite ?n_byte32; reflexivity);
        eassert (H3 : e3 = Z.of_N _) by (autorewrite with h32pull; rewrite ?n_byte32; reflexivity);
        try rewrite H1; try rewrite H2; try rewrite H3
    end;
    rewrite HK; reflexivity.
Qed.

(* ... so the function that Proofs/SourceTieMsg.v puts for the parameter `hash32` of the translated fingerprint and
   calcID is the translated hash32 itself on every call they make (start 0, limit len(str), a uint32 seed) *)
Theorem hash32_z_is_source (s : bstr) (c : Z) :
  st_small (go_len s) -> (0 <= c < 4294967296)%Z ->
  src_soymsg_hash32 s 0 (go_len s) c = Some (hash32_z s 0 (go_len s) c).
Proof.
  intros Hs Hc. unfold hash32_z. rewrite <- (Z2N.id c) at 1 by lia.
  apply hash32_matches_source; [exact Hs|lia].
Qed.

(* ------------------------------------------------------------------ *)
(* toUpperUnderscore: the ORDER of the five regexp replacements and the template each is given, then strings.ToUpper.
   The five ReplaceAllString methods are parameters of the translation; the instances are Model/MsgId.v's matchers
   (st_re: with the template the source passes); gotrans orders these parameters by the position of the variables'
   declarations, not by the order of their use, so swapping two calls changes the body, not the binders.  "${1}_${2}" on the group-less pattern __+ expands to "_"
   (squeeze_us), on the two-group patterns to group 1, '_', group 2 (word_boundary1 / word_boundary2).  The pattern
   texts gotrans reads are those generator 42 compares with what the matchers implement. *)
Definition st_tmpl12 : bstr := [36; 123; 49; 125; 95; 36; 123; 50; 125].   (* ${1}_${2} *)

Theorem to_upper_underscore_matches_source (ident : bstr) :
  to_upper_underscore ident =
  src_soymsg_toUpperUnderscore (map ascii_upper) (st_re trim_us []) (st_re squeeze_us st_tmpl12) (st_re word_boundary1 st_tmpl12)
    (st_re (word_boundary2 c_letter c_digit) st_tmpl12) (st_re (word_boundary2 c_digit c_letter) st_tmpl12) ident.
Proof. reflexivity. Qed.

Lemma msg_patterns_match_source :
  map snd msg_regex_sources =
  [src_soymsg_leadingOrTrailing__pattern; src_soymsg_consecutive__pattern; src_soymsg_wordBoundary1_pattern;
   src_soymsg_wordBoundary2_pattern; src_soymsg_wordBoundary3_pattern].
Proof. reflexivity. Qed.

(* genBasePlaceholderNameFromHtml with toUpperUnderscore no longer abstract *)
Theorem base_from_html_matches_source_closed (text : bstr) :
  match src_soymsg_genBasePlaceholderNameFromHtml (map ascii_lower)
          (src_soymsg_toUpperUnderscore (map ascii_upper) (st_re trim_us []) (st_re squeeze_us st_tmpl12) (st_re word_boundary1 st_tmpl12)
             (st_re (word_boundary2 c_letter c_digit) st_tmpl12) (st_re (word_boundary2 c_digit c_letter) st_tmpl12)) text with
  | Some r => base_from_html text = Ok r
  | None => base_from_html text = Crash s_no_tag_name
  end.
Proof.
  pose proof (base_from_html_matches_source text) as H.
  unfold src_soymsg_genBasePlaceholderNameFromHtml in *.
  destruct (src_soymsg_tagName (map ascii_lower) text) as [[tag ty]|]; cbn [go_bind] in *; [|exact H].
  rewrite <- to_upper_underscore_matches_source. exact H.
Qed.
