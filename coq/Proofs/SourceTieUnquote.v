(* Source tie, family 83-gotrans-quote, parse/quote.go unquoteString: the whole function (length and quote checks,
   the fast path, the decoding loop with \uNNNN and the escape table, the error exits) against Model/Quote.v's
   unquote_string / unquote_loop, with the function as gotrans translates it from today's source.

   What enters as parameters of the translation, and how the model instantiates them:
     utf8.DecodeRuneInString  ->  Model/Utf8.v decode_rune                     ([st_dec])
     strconv.ParseInt(s,16,0) ->  Model/NumLit.v parse_int                     ([st_pint]; only "err != nil" of the error)
     string([]rune)           ->  Model/Quote.v string_of_runes, a negative rune encoded as U+FFFD ([st_string_runes])
   The error result is "err != nil".  The loop's fuel len(s)+1 is shown sufficient: every iteration consumes at least
   one byte, so None of the translation never means "out of fuel" here (for strings below 2^62 bytes). *)
From Coq Require Import ZArith NArith Bool Lia ZifyBool ZifyNat ZifyN List.
From Soy Require Import Model.Bytes Model.Num Model.Utf8 Model.NumLit Generated.Tables Model.Quote
  Proofs.SourceTieBase Proofs.SourceTieState Proofs.SourceTieUtf8 Proofs.SourceTieQuote.
Import ListNotations.
Open Scope N_scope.

Definition st_pint (s : bstr) (base bits : Z) : Z * bool :=
  match parse_int (Z.to_N base) s with Some z => (z, false) | None => (0%Z, true) end.
Definition st_rune (z : Z) : N := match z with Zneg _ => rune_error | _ => Z.to_N z end.
Definition st_string_runes (l : list Z) : bstr := string_of_runes (map st_rune l).

(* ---- facts about the library models ---- *)
Lemma st_digits_bound (s : bstr) : forall acc n, digits_val 16 s acc = Some n -> n < (acc + 1) * 16 ^ N.of_nat (length s).
Proof.
  induction s as [|c r IH]; intros acc n H; cbn [digits_val length] in *.
  - injection H as <-. cbn. lia.
  - destruct (digit_val c) as [d|]; [|discriminate]. destruct (d <? 16) eqn:E; [|discriminate].
    apply IH in H. replace (N.of_nat (S (length r))) with (N.succ (N.of_nat (length r))) by lia.
    rewrite N.pow_succ_r'. nia.
Qed.

Lemma st_parse_int_small (s : bstr) (z : Z) : (length s <= 4)%nat -> parse_int 16 s = Some z -> (-65536 < z < 65536)%Z.
Proof.
  intros Hl H. unfold parse_int in H.
  assert (Hb : forall ds n, (length ds <= 4)%nat -> digits_val 16 ds 0 = Some n -> n < 65536).
  { intros ds n Hd Hv. apply st_digits_bound in Hv.
    assert (16 ^ N.of_nat (length ds) <= 16 ^ 4) by (apply N.pow_le_mono_r; lia).
    change (16 ^ 4) with 65536 in *. lia. }
  destruct s as [|c r]; [discriminate|].
  destruct (c =? 43); [|destruct (c =? 45)].
  - destruct r as [|c1 r1]; [discriminate|]. destruct (digits_val 16 (c1 :: r1) 0) as [n|] eqn:E; [|discriminate].
    apply Hb in E; [|cbn [length] in *; lia]. destruct (in_int64 (Z.of_N n)); [|discriminate]. injection H as <-. lia.
  - destruct r as [|c1 r1]; [discriminate|]. destruct (digits_val 16 (c1 :: r1) 0) as [n|] eqn:E; [|discriminate].
    apply Hb in E; [|cbn [length] in *; lia]. destruct (in_int64 (- Z.of_N n)); [|discriminate]. injection H as <-. lia.
  - destruct (digits_val 16 (c :: r) 0) as [n|] eqn:E; [|discriminate].
    apply Hb in E; [|exact Hl]. destruct (in_int64 (Z.of_N n)); [|discriminate]. injection H as <-. lia.
Qed.

Lemma st_rune_of_N (r : N) : st_rune (Z.of_N r) = r.
Proof. destruct r; reflexivity. Qed.

(* ---- the decoding loop ---- *)
(* [res] is Go's result slice, [acc] the model's accumulator (reversed, negative runes already replaced) *)
Lemma unquote_loop_matches (s : bstr) :
  st_small (go_len s) ->
  forall (m : nat) (i : nat) (esc : bool) (res : list Z) (acc : list N) (fuel mfuel : nat),
    (length s - i <= m)%nat -> (i <= length s)%nat -> map st_rune res = rev acc ->
    (length s - i + 1 <= fuel)%nat -> (length s - i + 1 <= mfuel)%nat ->
    match unquote_loop mfuel (drop i s) esc acc with
    | Some l => exists esc' res' i', src_parse_unquoteString_loop1 fuel st_dec st_pint s esc res (Z.of_nat i) =
                                     Some (go_exit (esc', res', i')) /\ map st_rune res' = l
    | None => src_parse_unquoteString_loop1 fuel st_dec st_pint s esc res (Z.of_nat i) = Some (go_ret ([], true))
    end.
Proof.
  intros Hs m. unfold st_small in Hs. induction m as [|m IH]; intros i esc res acc fuel mfuel Hm Hi Hacc Hf Hmf.
  - (* nothing left *)
    assert (i = length s) as -> by lia.
    destruct fuel as [|fuel]; [lia|]. destruct mfuel as [|mfuel]; [lia|].
    cbn [src_parse_unquoteString_loop1 unquote_loop].
    replace (drop (length s) s) with (@nil N).
    2:{ symmetry. apply length_zero_iff_nil. rewrite st_drop_length. lia. }
    replace (Z.ltb _ _) with false by (unfold go_len; lia).
    exists esc, res, (Z.of_nat (length s)). split; [reflexivity|]. rewrite Hacc. reflexivity.
  - destruct (Nat.eq_dec i (length s)) as [->|Hne].
    { apply (IH (length s) esc res acc fuel mfuel); try lia; assumption. }
    destruct fuel as [|fuel]; [lia|]. destruct mfuel as [|mfuel]; [lia|].
    cbn [src_parse_unquoteString_loop1].
    replace (Z.ltb (Z.of_nat i) (go_len s)) with true by (unfold go_len; lia).
    rewrite st_go_slice_drop by lia. cbn [go_bind].
    remember (drop i s) as rest eqn:Erest.
    assert (Hrl : length rest = (length s - i)%nat) by (subst rest; apply st_drop_length).
    assert (Hrne : rest <> []) by (intros E; rewrite E in Hrl; cbn [length] in Hrl; lia).
    pose proof (st_decode_width rest Hrne) as Hw.
    change (st_dec rest) with (let '(r0, w0) := decode_rune rest in (Z.of_N r0, Z.of_nat w0)).
    destruct (decode_rune rest) as [r w] eqn:Ed. cbn [fst snd] in Hw. cbv beta iota.
    rewrite !(st_wrap64 (Z.of_nat i + Z.of_nat w)) by (unfold go_len in *; lia).
    replace (Z.of_nat i + Z.of_nat w)%Z with (Z.of_nat (i + w)) by lia.
    (* the model's side, one unfolding *)
    assert (Hmodel : unquote_loop (S mfuel) rest esc acc =
      let s1 := drop w rest in
      let step (r : N) (s2 : bstr) : option (list N) :=
        let escaping' := (r =? q_backslash) && negb esc in
        unquote_loop mfuel s2 escaping' (if escaping' then acc else r :: acc) in
      if esc then
        if r =? 117 then
          if (length s1 <? 4)%nat then None
          else match parse_int 16 (take 4 s1) with
               | None => None
               | Some num => step (match num with Zneg _ => rune_error | _ => Z.to_N num end) (drop 4 s1)
               end
        else match unescape_of r with None => None | Some repl => step repl s1 end
      else step r s1).
    { destruct rest as [|c0 rest']; [congruence|]. cbn [unquote_loop]. rewrite Ed. reflexivity. }
    rewrite Hmodel. cbv zeta. clear Hmodel.
    assert (Hs1 : drop w rest = drop (i + w) s) by (subst rest; apply st_drop_drop).
    assert (Hs1l : length (drop w rest) = (length s - (i + w))%nat) by (rewrite Hs1; apply st_drop_length).
    (* what a step does on both sides, for a rune value z that the model sees as st_rune z *)
    (* from here on the cases are split on the MODEL's side; the source's tests (operands in any order) are decided by lia *)
    assert (Hrune : forall z : Z, (st_rune z =? q_backslash) = Z.eqb z 92%Z).
    { intros z. unfold st_rune, q_backslash, rune_error. destruct z; reflexivity. }
    (* a leaf: the new escaping flag is decided on both sides, then the induction hypothesis at the new index *)
    Ltac st_norm_flag :=
      repeat match goal with
             | |- context [src_parse_unquoteString_loop1 _ _ _ _ ?e _ _] =>
                 lazymatch e with true => fail | false => fail | _ => first [replace e with true by lia | replace e with false by lia] end
             | |- context [unquote_loop _ _ ?e _] =>
                 lazymatch e with true => fail | false => fail | _ => first [replace e with true by lia | replace e with false by lia] end
             end.
    destruct esc.
    + (* inside an escape *)
      destruct (N.eqb_spec r 117) as [Eu|Eu].
      * (* \uNNNN *)
        rewrite !(go_wrap_s_id 64 (Z.of_nat (i + w) + 4)) by
          first [lia | change (2 ^ (64 - 1))%Z with 9223372036854775808%Z; unfold go_len in *; lia].
        destruct (Nat.ltb_spec (length (drop w rest)) 4) as [Hshort|Hlong].
        -- unfold go_len in *. st_decide_ifs. reflexivity.
        -- assert (Hlong' : (Z.of_nat (i + w) + 4 <= go_len s)%Z) by (unfold go_len; lia).
           st_decide_ifs.
           replace (Z.of_nat (i + w) + 4)%Z with (Z.of_nat (i + w) + Z.of_nat 4)%Z by lia.
           rewrite st_go_slice_take_drop by lia. cbn [go_bind]. rewrite <- Hs1.
           unfold st_pint. change (Z.to_N 16%Z) with 16.
           destruct (parse_int 16 (take 4 (drop w rest))) as [num|] eqn:Ep; [|reflexivity].
           assert (Hnum : (-65536 < num < 65536)%Z).
           { apply (st_parse_int_small (take 4 (drop w rest))); [|exact Ep].
             clear. generalize (drop w rest). intros l. destruct l as [|a [|b0 [|c [|d l]]]]; cbn [take length]; lia. }
           cbv beta iota.
           rewrite !(go_wrap_s_id 32 num) by (try lia; change (2 ^ (32 - 1))%Z with 2147483648%Z; lia).
           replace (Z.of_nat (i + w) + Z.of_nat 4)%Z with (Z.of_nat (i + w + 4)) by lia.
           rewrite Hs1, st_drop_drop.
           change (match num with Zneg _ => rune_error | _ => Z.to_N num end) with (st_rune num).
           rewrite !Hrune. st_norm_flag. st_decide_ifs. cbv beta iota.
           apply (IH (i + w + 4)%nat false (res ++ [num]) (st_rune num :: acc) fuel mfuel); try lia.
           rewrite map_app, Hacc. reflexivity.
      * (* a one-letter escape *)
        pose proof (unescape_of_matches_source r) as Hu.
        destruct (unescape_of r) as [repl|].
        -- injection Hu as Hu1 Hu2. rewrite <- Hu1, <- Hu2. rewrite Hs1.
           rewrite <- (st_rune_of_N repl), !Hrune, !st_rune_of_N.
           st_norm_flag. st_decide_ifs. cbv beta iota.
           apply (IH (i + w)%nat false (res ++ [Z.of_N repl]) (repl :: acc) fuel mfuel); try lia.
           rewrite map_app, Hacc. cbn [map]. rewrite st_rune_of_N. reflexivity.
        -- injection Hu as Hu1 Hu2. rewrite <- Hu2. st_decide_ifs. cbv beta iota.
           rewrite (st_wrap64 (Z.of_nat (i + w) - 1)) by (unfold go_len in *; lia).
           destruct (go_slice s (Z.of_nat (i + w) - 1) (Z.of_nat (i + w))) eqn:Esl; [reflexivity|].
           exfalso. unfold go_slice in Esl. replace (orb _ _) with false in Esl by (unfold go_len; lia). discriminate.
    + (* plain: a backslash opens an escape, everything else is kept *)
      rewrite Hs1. rewrite <- (st_rune_of_N r), !Hrune, !st_rune_of_N.
      destruct (Z.eqb_spec (Z.of_N r) 92) as [Eb|Eb]; st_norm_flag; st_decide_ifs; cbv beta iota.
      * apply (IH (i + w)%nat true res acc fuel mfuel); try lia; assumption.
      * apply (IH (i + w)%nat false (res ++ [Z.of_N r]) (r :: acc) fuel mfuel); try lia.
        rewrite map_app, Hacc. cbn [map]. rewrite st_rune_of_N. reflexivity.
Qed.

(* ---- the whole function ---- *)
Lemma st_last_byte_index (r : bstr) (c0 : N) :
  go_index_b (c0 :: r) (go_len (c0 :: r) - 1)%Z = match last_byte (c0 :: r) with Some c => Some (Z.of_N c) | None => None end.
Proof.
  unfold go_index_b. rewrite go_index_in by (unfold go_len; cbn [length]; lia).
  replace (Z.to_nat (go_len (c0 :: r) - 1)) with (length r) by (unfold go_len; cbn [length]; lia).
  revert c0. induction r as [|c1 r IH]; intros c0; [reflexivity|].
  cbn [length nth_error]. rewrite IH. reflexivity.
Qed.

Lemma st_removelast_slice (r : bstr) (c0 : N) :
  r <> [] -> go_slice (c0 :: r) 1%Z (go_len (c0 :: r) - 1)%Z = Some (removelast r).
Proof.
  intros Hne. assert (1 <= length r)%nat as Hl1 by (destruct r; [congruence|cbn [length]; lia]).
  unfold go_slice, go_len. cbn [length]. replace (orb _ _) with false by lia. f_equal.
  change (Z.to_nat 1) with 1%nat. cbn [drop].
  replace (Z.to_nat (Z.of_nat (S (length r)) - 1 - 1)) with (length r - 1)%nat by lia.
  clear c0 Hl1. induction r as [|c1 r IH]; [congruence|]. destruct r as [|c2 r]; [reflexivity|].
  change (removelast (c1 :: c2 :: r)) with (c1 :: removelast (c2 :: r)).
  replace (length (c1 :: c2 :: r) - 1)%nat with (S (length (c2 :: r) - 1)) by (cbn [length]; lia).
  cbn [take]. f_equal. apply IH. congruence.
Qed.

Theorem unquote_string_matches_source (s : bstr) :
  st_small (go_len s) ->
  src_parse_unquoteString st_dec st_pint st_string_runes s =
  Some (match unquote_string s with Some r => (r, false) | None => ([], true) end).
Proof.
  intros Hs. unfold src_parse_unquoteString, unquote_string. cbv zeta. unfold st_small in Hs.
  destruct s as [|c0 [|c1 r1]]; [reflexivity|reflexivity|].
  set (r := c1 :: r1) in *. assert (Hr : r <> []) by (unfold r; congruence).
  assert (Hlen2 : (2 <= go_len (c0 :: r))%Z) by (unfold go_len, r; cbn [length]; lia).
  st_decide_ifs.
  unfold go_index_b at 1. rewrite go_index_0. cbn [go_bind].
  rewrite st_wrap64 by lia. rewrite st_last_byte_index.
  replace (negb (Z.eqb 39 (Z.of_N c0))) with (negb (c0 =? q_quote)) by (unfold q_quote; lia).
  destruct (c0 =? q_quote) eqn:E0; cbn [negb andb go_bind].
  2:{ reflexivity. }
  destruct (last_byte (c0 :: r)) as [cl|] eqn:El.
  2:{ exfalso. clear -El. revert c0 El. induction r as [|a r IH]; intros c0 El; [discriminate|]. cbn [last_byte] in El. exact (IH a El). }
  assert (El' : last_byte r = Some cl).
  { unfold r in *. cbn [last_byte] in El. exact El. }
  rewrite El'. cbn [go_bind].
  replace (negb (Z.eqb 39 (Z.of_N cl))) with (negb (cl =? q_quote)) by (unfold q_quote; lia).
  destruct (cl =? q_quote) eqn:E1; cbn [negb go_bind]; [|reflexivity].
  rewrite st_removelast_slice by exact Hr. cbn [go_bind].
  set (body := removelast r).
  change 92%Z with (Z.of_N q_backslash). change 39%Z with (Z.of_N q_quote).
  rewrite <- !quote_contains_matches_source.
  destruct (negb (mem q_backslash body) && negb (mem q_quote body)); [reflexivity|].
  assert (Hbl : (length body <= length r)%nat).
  { unfold body. clear. induction r as [|a [|b0 r] IH]; cbn [removelast length] in *; lia. }
  assert (Hsb : st_small (go_len body)) by (unfold st_small, go_len in *; cbn [length] in Hs; lia).
  rewrite st_wrap64 by (unfold go_len in *; cbn [length] in Hs; lia).
  pose proof (unquote_loop_matches body Hsb (length body) 0%nat false [] [] (Z.to_nat (go_len body + 1)) (S (length body))
                ltac:(lia) ltac:(lia) eq_refl ltac:(unfold go_len; lia) ltac:(lia)) as H.
  cbn [drop] in H. change (Z.of_nat 0) with 0%Z in H.
  destruct (unquote_loop (S (length body)) body false []) as [l|].
  - destruct H as (esc' & res' & i' & H & Hl). rewrite H. unfold st_string_runes. rewrite Hl. reflexivity.
  - rewrite H. reflexivity.
Qed.
