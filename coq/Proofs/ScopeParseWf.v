(* C02, parser shape, part 3: from the parser's shape to [wf_registry], the hypothesis of
   exec_impl_spec.

   [pwf] (ScopeParseShape.v, a theorem about every parse) differs from Spec/Cmd.v's [wf] in
   three ways.  Two of them are a side condition on the source ([no_stray]: file-level tags --
   {namespace}, {template}, a soydoc comment -- and {plural} occur only where the grammar puts
   them; the parser ACCEPTS them elsewhere, see compiled_registry_wf_refuted in Properties/C02.v).
   The third -- a placeholder holding a let, from a {let} written directly inside {msg} -- is
   excluded by the data-reference check (Model/Checker.v, CheckDataRefs): [bad_rejected]
   shows that the checker rejects EVERY template whose view contains a parent with a let as
   its only child (the let can never be used). *)
From Coq Require Import Lia.
From Soy Require Import Model.Bytes Model.Values Model.Outcome Model.Ast Model.Token Generated.Tables Model.RawText
  Model.Parser Model.ExprParser Model.RefView Model.Checker Spec.Cmd Spec.CallNames
  Proofs.ScopeNames Proofs.ScopeExprWf Proofs.ScopeParseShape.
Open Scope N_scope.

(* ------------------------------------------------------------------ *)
(* the checker rejects a let that is the only child of a non-block parent *)

Fixpoint rt_bad (t : rt) : bool :=
  match t with
  | RT k kids =>
      (match k, kids with KOther, [RT (KLet _) _] => true | _, _ => false end) || existsb rt_bad kids
  end.

Lemma rt_ind' (P : rt -> Prop) : (forall k kids, Forall P kids -> P (RT k kids)) -> forall t, P t.
Proof.
  intros H. fix IH 1. intros [k kids]. apply H.
  induction kids as [|c r IHr]; constructor; [apply IH | exact IHr].
Qed.

Section Chk.
Variable templates : list template.
Variable params : list bstr.
Notation chk := (Checker.chk templates params).
Notation chk_body := (Checker.chk_body templates params).

Definition grows (c : cstate -> Checker.cres) : Prop :=
  forall st st', c st = CO st' -> (length (vars st) <= length (vars st'))%nat.
Definition rejects (c : cstate -> Checker.cres) : Prop := forall st, exists r, c st = CR r.

Lemma mark_len key : forall vs vs', mark key vs = Some vs' -> length vs' = length vs.
Proof.
  induction vs as [|v r IH]; intros vs' H; cbn [mark] in H; [discriminate|].
  destruct (bstr_eqb _ _); [injection H as <-; reflexivity|].
  destruct (mark key r) as [r'|] eqn:E; [|discriminate]. injection H as <-. cbn [length]. rewrite (IH r' eq_refl). reflexivity.
Qed.

Lemma run_each_grows cs : Forall grows cs -> grows (run_each cs).
Proof.
  induction 1 as [|c r Hc Hr IH]; intros st st' H; cbn [run_each] in H; [injection H as <-; lia|].
  unfold Checker.cbind in H. destruct (c st) as [st1|] eqn:E; [|discriminate].
  pose proof (Hc _ _ E). pose proof (IH _ _ H). lia.
Qed.
Lemma recurse_len cs st st' : Forall grows cs -> chk_recurse cs st = CO st' -> length (vars st') = length (vars st).
Proof.
  intros Hg H. unfold chk_recurse, Checker.cbind in H. destruct (run_each cs st) as [st1|] eqn:E; [|discriminate].
  pose proof (run_each_grows cs Hg _ _ E) as Hl.
  destruct (existsb _ _); [discriminate|]. injection H as <-. cbn [vars set_vars]. rewrite skipn_length. lia.
Qed.

Lemma visit_key_len key st st' : visit_key params key st = CO st' -> length (vars st') = length (vars st).
Proof.
  unfold visit_key. destruct (bstr_eqb key s_ij); [intros [= <-]; reflexivity|].
  destruct (mark key (vars st)) as [vs|] eqn:E; [intros [= <-]; cbn; apply (mark_len _ _ _ E)|].
  destruct (contains params key); [intros [= <-]; reflexivity | discriminate].
Qed.
Lemma check_call_len name ad hd pk st st' : check_call templates params name ad hd pk st = CO st' -> vars st' = vars st.
Proof.
  unfold check_call. destruct (find_template _ _); [|discriminate]. destruct (all_keys pk); [|discriminate].
  destruct (negb _); [discriminate|]. destruct hd; [intros [= <-]; reflexivity|].
  destruct (negb _); [discriminate | intros [= <-]; reflexivity].
Qed.
Lemma check_loop_func_len name a0 st st' : check_loop_func name a0 st = CO st' -> st' = st.
Proof.
  unfold check_loop_func. destruct (contains _ _); [|intros [= <-]; reflexivity].
  destruct a0; [|intros [= <-]; reflexivity]. destruct (existsb _ _); [intros [= <-]; reflexivity | discriminate].
Qed.

Lemma body_grows k cs : Forall grows cs -> grows (chk_body k cs).
Proof.
  intros Hg st st' H. destruct k; cbn [Checker.chk_body] in H.
  - (* block *) rewrite (recurse_len _ _ _ Hg H). lia.
  - (* let *) destruct (bstr_eqb _ _); [discriminate|]. unfold Checker.cbind in H.
    destruct (chk_recurse cs st) as [st1|] eqn:E; [|discriminate]. injection H as <-.
    cbn [vars push_var set_vars length]. rewrite (recurse_len _ _ _ Hg E). lia.
  - (* call *) unfold Checker.cbind in H. destruct (check_call _ _ _ _ _ _ _) as [st1|] eqn:E; [|discriminate].
    rewrite (recurse_len _ _ _ Hg H), (check_call_len _ _ _ _ _ _ E). lia.
  - (* for *) destruct cs as [|l [|body ie]]; try discriminate. unfold Checker.cbind in H.
    inversion Hg as [|? ? Hl Hg1]; subst. inversion Hg1 as [|? ? Hb Hie]; subst.
    destruct (l st) as [st1|] eqn:E1; [|discriminate].
    destruct (body _) as [st2|] eqn:E2; [|discriminate].
    pose proof (Hl _ _ E1). pose proof (Hb _ _ E2) as H2. cbn [vars push_var set_vars length] in H2.
    pose proof (run_each_grows ie Hie _ _ H) as H3. cbn [vars set_vars] in H3.
    destruct (vars st2); cbn [length tl] in *; lia.
  - (* ref *) unfold Checker.cbind in H. destruct (visit_key _ _ _) as [st1|] eqn:E; [|discriminate].
    rewrite (recurse_len _ _ _ Hg H), (visit_key_len _ _ _ E). lia.
  - (* func *) unfold Checker.cbind in H. destruct (check_loop_func _ _ _) as [st1|] eqn:E; [|discriminate].
    rewrite (recurse_len _ _ _ Hg H), (check_loop_func_len _ _ _ _ E). lia.
  - discriminate.
  - rewrite (recurse_len _ _ _ Hg H). lia.
Qed.

Theorem chk_grows : forall t, grows (chk t).
Proof.
  apply rt_ind'. intros k kids IH. cbn [Checker.chk]. apply body_grows.
  induction IH; constructor; assumption.
Qed.
Lemma chks_grow kids : Forall grows (map chk kids).
Proof. induction kids; constructor; [apply chk_grows | assumption]. Qed.

Lemma run_each_rejects cs : Exists rejects cs -> rejects (run_each cs).
Proof.
  induction 1 as [c r Hc|c r Hr IH]; intros st; cbn [run_each]; unfold Checker.cbind.
  - destruct (Hc st) as [e ->]. exists e. reflexivity.
  - destruct (c st) as [st1|e]; [apply IH | exists e; reflexivity].
Qed.
Lemma recurse_rejects cs : Exists rejects cs -> rejects (chk_recurse cs).
Proof. intros H st. unfold chk_recurse, Checker.cbind. destruct (run_each_rejects cs H st) as [e ->]. exists e. reflexivity. Qed.

Lemma bind_rejects (x : Checker.cres) f : rejects f -> exists r, Checker.cbind x f = CR r.
Proof. intros H. destruct x as [st1|e]; cbn; [apply H | exists e; reflexivity]. Qed.

Lemma body_rejects k cs : Exists rejects cs -> rejects (chk_body k cs).
Proof.
  intros He st. destruct k; cbn [Checker.chk_body].
  - apply recurse_rejects; assumption.
  - destruct (bstr_eqb _ _); [eexists; reflexivity|]. unfold Checker.cbind at 1.
    destruct (recurse_rejects cs He st) as [e ->]. exists e. reflexivity.
  - apply bind_rejects, recurse_rejects, He.
  - destruct cs as [|l [|body ie]]; try (eexists; reflexivity).
    inversion He as [? ? Hl|? ? He1]; subst.
    { unfold Checker.cbind at 1. destruct (Hl st) as [e ->]. exists e. reflexivity. }
    apply bind_rejects. intros st1.
    inversion He1 as [? ? Hb|? ? Hie]; subst.
    { unfold Checker.cbind at 1. destruct (Hb (push_var st1 {| b_name := var; b_let := false; b_used := false |})) as [e ->]. exists e. reflexivity. }
    apply bind_rejects. intros st2. apply run_each_rejects, Hie.
  - apply bind_rejects, recurse_rejects, He.
  - apply bind_rejects, recurse_rejects, He.
  - eexists; reflexivity.
  - apply recurse_rejects; assumption.
Qed.

(* a let that is the only child of a non-block parent is never used: rejected *)
Lemma let_result name kk st :
  (exists r, chk (RT (KLet name) kk) st = CR r) \/
  (exists st1, chk (RT (KLet name) kk) st = CO (push_var st1 {| b_name := name; b_let := true; b_used := false |})
               /\ length (vars st1) = length (vars st)).
Proof.
  cbn [Checker.chk Checker.chk_body]. destruct (bstr_eqb name s_ij); [left; eexists; reflexivity|].
  destruct (chk_recurse (map chk kk) st) as [st1|e] eqn:E; cbn [Checker.cbind]; [|left; exists e; reflexivity].
  right. exists st1. split; [reflexivity|]. exact (recurse_len _ _ _ (chks_grow kk) E).
Qed.
Lemma lone_let_rejected name kk : rejects (chk (RT KOther [RT (KLet name) kk])).
Proof.
  intros st. pose proof (let_result name kk st) as H. remember (RT (KLet name) kk) as inner eqn:Ei. clear Ei.
  cbn [Checker.chk map Checker.chk_body]. unfold chk_recurse. cbn [run_each].
  destruct H as [[e He]|(st1 & He & Hl)]; rewrite He; cbn [Checker.cbind]; [exists e; reflexivity|].
  cbn [vars push_var set_vars length]. rewrite Hl.
  replace (S (length (vars st)) - length (vars st))%nat with 1%nat by lia.
  cbn [firstn existsb b_let b_used andb negb orb]. eexists; reflexivity.
Qed.

Theorem bad_rejected : forall t, rt_bad t = true -> rejects (chk t).
Proof.
  apply (rt_ind' (fun t => rt_bad t = true -> rejects (chk t))). intros k kids IH Hb.
  cbn [rt_bad] in Hb. apply orb_true_iff in Hb as [Hb|Hb].
  - destruct k; try discriminate. destruct kids as [|[kk0 kk] [|? ?]]; try discriminate;
      destruct kk0; try discriminate. apply lone_let_rejected.
  - cbn [Checker.chk]. apply body_rejects.
    induction IH as [|c r Hc Hr IHr]; cbn [existsb map] in *; [discriminate|].
    apply orb_true_iff in Hb as [Hb|Hb]; [left; apply Hc; exact Hb | right; apply IHr; exact Hb].
Qed.

Corollary accepted_not_bad n : check_template_node templates params n = Accept -> rt_bad (view n) = false.
Proof.
  unfold check_template_node. intros H. destruct (rt_bad (view n)) eqn:E; [|reflexivity].
  destruct (bad_rejected _ E {| vars := []; used_keys := [] |}) as [e He]. rewrite He in H. discriminate.
Qed.
End Chk.

(* ------------------------------------------------------------------ *)
(* the side condition on the source *)

Definition stray (n : node) : bool :=
  match n with NNamespace _ _ _ | NTemplate _ _ _ _ _ | NSoyDoc _ _ | NMsgPlural _ _ _ _ _ => true | _ => false end.

(* file-level tags and {plural} occur only where the grammar puts them: not as an item of a
   block (a plural is an item of a msg or of a plural case), not inside a placeholder *)
Fixpoint no_stray (n : node) {struct n} : bool :=
  match n with
  | NList _ l => forallb (fun x => negb (stray x) && no_stray x) l
  | NMsgPlaceholder _ _ x => negb (stray x) && no_stray x
  | NLog _ b => no_stray b
  | NIf _ conds => forallb no_stray conds
  | NIfCond _ _ b => no_stray b
  | NFor _ _ _ b ie => no_stray b && match ie with Some x => no_stray x | None => true end
  | NSwitch _ _ cases => forallb no_stray cases
  | NSwitchCase _ _ b => no_stray b
  | NCall _ _ _ _ ps => forallb no_stray ps
  | NParamContent _ _ c => no_stray c
  | NLetContent _ _ b => no_stray b
  | NMsg _ _ _ _ body => forallb no_stray body
  | NMsgPlural _ _ _ cases dflt => forallb no_stray cases && forallb no_stray dflt
  | NMsgPluralCase _ _ body => forallb no_stray body
  | NTemplate _ _ b _ _ => no_stray b
  | _ => true
  end.

Fixpoint csz (n : node) {struct n} : nat :=
  let ls := fold_right (fun x a => csz x + a)%nat 0%nat in
  S match n with
    | NList _ l => ls l
    | NMsgPlaceholder _ _ x => csz x
    | NLog _ b => csz b
    | NIf _ conds => ls conds
    | NIfCond _ _ b => csz b
    | NFor _ _ _ b ie => csz b + match ie with Some x => csz x | None => 0 end
    | NSwitch _ _ cases => ls cases
    | NSwitchCase _ _ b => csz b
    | NCall _ _ _ _ ps => ls ps
    | NParamContent _ _ c => csz c
    | NLetContent _ _ b => csz b
    | NMsg _ _ _ _ body => ls body
    | NMsgPlural _ _ _ cases dflt => ls cases + ls dflt
    | NMsgPluralCase _ _ body => ls body
    | NTemplate _ _ b _ _ => csz b
    | _ => 0
    end%nat.
Definition lsz (l : list node) : nat := fold_right (fun x a => csz x + a)%nat 0%nat l.
Lemma lsz_in x l : In x l -> (csz x <= lsz l)%nat.
Proof. induction l as [|y r IH]; cbn [In lsz fold_right]; [tauto|]. intros [->|H]; [lia|]. specialize (IH H). unfold lsz in IH. lia. Qed.

Lemma existsb_false_in {A} (f : A -> bool) l x : existsb f l = false -> In x l -> f x = false.
Proof.
  induction l as [|y r IH]; cbn [existsb In]; [tauto|]. intros H [->|Hx]; apply orb_false_iff in H as [H1 H2]; [exact H1 | apply IH; assumption].
Qed.
Lemma bad_kids k kids : rt_bad (RT k kids) = false -> existsb rt_bad kids = false.
Proof. cbn [rt_bad]. intros H. apply orb_false_iff in H as [_ H]. exact H. Qed.
Lemma bad_map l x : existsb rt_bad (map view l) = false -> In x l -> rt_bad (view x) = false.
Proof. intros H Hx. apply (existsb_false_in rt_bad (map view l) (view x) H). apply in_map. exact Hx. Qed.
Lemma fb_lift (P Q : node -> bool) l : (forall x, In x l -> P x = true -> Q x = true) -> forallb P l = true -> forallb Q l = true.
Proof. intros H Hp. apply forallb_forall. intros x Hx. apply H; [exact Hx|]. exact (proj1 (forallb_forall _ _) Hp x Hx). Qed.
Lemma fb_in {A} (P : A -> bool) l x : forallb P l = true -> In x l -> P x = true.
Proof. intros H. exact (proj1 (forallb_forall _ _) H x). Qed.

Definition sp_is_let (n : node) : bool := match n with NLetValue _ _ _ | NLetContent _ _ _ => true | _ => false end.
Lemma item_not_let n : sp_is_let n = false -> wf KItem n = wf KCmd n.
Proof. destruct n; try reflexivity; discriminate. Qed.
Lemma lone_kid_not_let n : rt_bad (RT KOther [view n]) = false -> sp_is_let n = false.
Proof. destruct n; try reflexivity; cbn [view rt_bad]; discriminate. Qed.

(* the bridge: parser shape + side condition + accepted by the checker = Spec/Cmd.v's shape *)
Definition bridged (n : node) : Prop :=
  (pwf PBlock n = true -> wf KCmd n = true) /\
  (pwf PItem n = true -> stray n = false -> wf KItem n = true) /\
  (pwf PIfCond n = true -> wf KIfCond n = true) /\
  (pwf PCase n = true -> wf KCase n = true) /\
  (pwf PParam n = true -> wf KParam n = true) /\
  (pwf PMsgItem n = true -> wf KMsgItem n = true) /\
  (pwf PPluralCase n = true -> wf KPluralCase n = true).

Lemma bridged_block n : bridged n -> pwf PBlock n = true -> wf KCmd n = true. Proof. intros H. apply H. Qed.
Lemma bridged_item n : bridged n -> pwf PItem n = true -> stray n = false -> wf KItem n = true. Proof. intros H. apply H. Qed.
Lemma bridged_ifcond n : bridged n -> pwf PIfCond n = true -> wf KIfCond n = true. Proof. intros H. apply H. Qed.
Lemma bridged_case n : bridged n -> pwf PCase n = true -> wf KCase n = true. Proof. intros H. apply H. Qed.
Lemma bridged_param n : bridged n -> pwf PParam n = true -> wf KParam n = true. Proof. intros H. apply H. Qed.
Lemma bridged_msgitem n : bridged n -> pwf PMsgItem n = true -> wf KMsgItem n = true. Proof. intros H. apply H. Qed.
Lemma bridged_pcase n : bridged n -> pwf PPluralCase n = true -> wf KPluralCase n = true. Proof. intros H. apply H. Qed.

Ltac shapes := unfold bridged; repeat split; intros Hp; cbn [pwf] in Hp; try discriminate.

Theorem bridge h : forall n, (csz n <= h)%nat -> no_stray n = true -> rt_bad (view n) = false -> bridged n.
Proof.
  induction h as [|h IH]; intros n Hh Hs Hb; [destruct n; cbn [csz] in Hh; lia|].
  destruct n; cbn [csz] in Hh; cbn [no_stray] in Hs; cbn [view] in Hb;
    try (shapes; try (intros _); try reflexivity; try exact Hp; fail).
  - (* NList *) shapes. apply bad_kids in Hb. cbn [wf]. revert Hp. apply fb_lift. intros x Hx Hpx.
    pose proof (fb_in _ _ _ Hs Hx) as Hsx. apply andb_true_iff in Hsx as [S1 S2]. apply negb_true_iff in S1.
    apply bridged_item; [|exact Hpx | exact S1].
    apply IH; [pose proof (lsz_in x nodes Hx); unfold lsz in *; lia | exact S2 | exact (bad_map _ _ Hb Hx)].
  - (* NLog *) shapes. intros _. apply bad_kids in Hb. cbn [existsb] in Hb. apply orb_false_iff in Hb as [Hb _].
    change (wf KCmd n = true). apply bridged_block; [|exact Hp]. apply IH; [lia | exact Hs | exact Hb].
  - (* NIf *) shapes. intros _. apply bad_kids in Hb. change (forallb (wf KIfCond) conds = true). revert Hp. apply fb_lift. intros x Hx Hpx.
    apply bridged_ifcond; [|exact Hpx].
    apply IH; [pose proof (lsz_in x conds Hx); unfold lsz in *; lia | exact (fb_in _ _ _ Hs Hx) | exact (bad_map _ _ Hb Hx)].
  - (* NIfCond *) shapes. apply andb_true_iff in Hp as [P1 P2]. apply bad_kids in Hb.
    assert (Hbb : rt_bad (view n) = false).
    { destruct cond; cbn [app existsb] in Hb; repeat (apply orb_false_iff in Hb as [? Hb]); assumption. }
    cbn [wf]. change (oall (wf KExpr) cond && wf KCmd n = true). rewrite P1. cbn [andb].
    apply bridged_block; [|exact P2]. apply IH; [lia | exact Hs | exact Hbb].
  - (* NFor *) shapes. intros _. apply andb_true_iff in Hp as [Hp P3]. apply andb_true_iff in Hp as [P1 P2].
    apply andb_true_iff in Hs as [S1 S2]. apply bad_kids in Hb. cbn [existsb] in Hb.
    apply orb_false_iff in Hb as [_ Hb]. apply orb_false_iff in Hb as [B1 B2].
    change (wf KExpr n1 && wf KCmd n2 && match ifempty with Some ie => wf KCmd ie | None => true end = true).
    rewrite P1. rewrite (bridged_block n2); [|apply IH; [lia | exact S1 | exact B1] | exact P2]. cbn [andb].
    destruct ifempty as [ie|]; [|reflexivity]. cbn [existsb] in B2. apply orb_false_iff in B2 as [B2 _].
    apply bridged_block; [|exact P3]. apply IH; [lia | exact S2 | exact B2].
  - (* NSwitch *) shapes. intros _. apply andb_true_iff in Hp as [P1 P2]. apply bad_kids in Hb. cbn [existsb] in Hb.
    apply orb_false_iff in Hb as [_ Hb].
    change (wf KExpr n && forallb (wf KCase) cases = true). rewrite P1. cbn [andb]. revert P2. apply fb_lift. intros x Hx Hpx.
    apply bridged_case; [|exact Hpx].
    apply IH; [pose proof (lsz_in x cases Hx); unfold lsz in *; lia | exact (fb_in _ _ _ Hs Hx) | exact (bad_map _ _ Hb Hx)].
  - (* NSwitchCase *) shapes. apply andb_true_iff in Hp as [P1 P2]. apply bad_kids in Hb. cbn [existsb] in Hb.
    apply orb_false_iff in Hb as [Hb _].
    change (forallb (wf KExpr) values && wf KCmd n = true). rewrite P1. cbn [andb].
    apply bridged_block; [|exact P2]. apply IH; [lia | exact Hs | exact Hb].
  - (* NCall *) shapes. intros _. apply andb_true_iff in Hp as [P1 P2]. apply bad_kids in Hb.
    assert (Hbb : existsb rt_bad (map view params) = false).
    { rewrite existsb_app in Hb. apply orb_false_iff in Hb as [_ Hb]. exact Hb. }
    change (oall (wf KExpr) data && forallb (wf KParam) params = true). rewrite P1. cbn [andb]. revert P2. apply fb_lift. intros x Hx Hpx.
    apply bridged_param; [|exact Hpx].
    apply IH; [pose proof (lsz_in x params Hx); unfold lsz in *; lia | exact (fb_in _ _ _ Hs Hx) | exact (bad_map _ _ Hbb Hx)].
  - (* NParamContent *) shapes. apply bad_kids in Hb. cbn [existsb] in Hb. apply orb_false_iff in Hb as [Hb _].
    change (wf KCmd n = true). apply bridged_block; [|exact Hp]. apply IH; [lia | exact Hs | exact Hb].
  - (* NLetContent *) shapes. intros _. apply bad_kids in Hb. cbn [existsb] in Hb. apply orb_false_iff in Hb as [Hb _].
    change (wf KCmd n = true). apply bridged_block; [|exact Hp]. apply IH; [lia | exact Hs | exact Hb].
  - (* NMsg *) shapes. intros _. apply bad_kids in Hb. change (forallb (wf KMsgItem) body = true). revert Hp. apply fb_lift. intros x Hx Hpx.
    apply bridged_msgitem; [|exact Hpx].
    apply IH; [pose proof (lsz_in x body Hx); unfold lsz in *; lia | exact (fb_in _ _ _ Hs Hx) | exact (bad_map _ _ Hb Hx)].
  - (* NMsgPlaceholder *) shapes. apply andb_true_iff in Hs as [S1 S2]. apply negb_true_iff in S1.
    pose proof (lone_kid_not_let n Hb) as Hnl. apply bad_kids in Hb. cbn [existsb] in Hb. apply orb_false_iff in Hb as [Hb _].
    change (wf KCmd n = true). rewrite <- (item_not_let n Hnl).
    apply bridged_item; [|exact Hp | exact S1]. apply IH; [lia | exact S2 | exact Hb].
  - (* NMsgPlural *) shapes.
    apply andb_true_iff in Hp as [Hp P3]. apply andb_true_iff in Hp as [P1 P2].
    apply andb_true_iff in Hs as [S1 S2]. apply bad_kids in Hb. cbn [existsb] in Hb.
    apply orb_false_iff in Hb as [_ Hb]. rewrite existsb_app in Hb. apply orb_false_iff in Hb as [B1 B2].
    cbn [existsb] in B2. apply orb_false_iff in B2 as [B2 _]. apply bad_kids in B2.
    change (wf KExpr n && forallb (wf KPluralCase) cases && forallb (wf KMsgItem) default = true). rewrite P1. cbn [andb].
    apply andb_true_iff. split.
    + revert P2. apply fb_lift. intros x Hx Hpx. apply bridged_pcase; [|exact Hpx].
      apply IH; [pose proof (lsz_in x cases Hx); unfold lsz in *; lia | exact (fb_in _ _ _ S1 Hx) | exact (bad_map _ _ B1 Hx)].
    + revert P3. apply fb_lift. intros x Hx Hpx. apply bridged_msgitem; [|exact Hpx].
      apply IH; [pose proof (lsz_in x default Hx); unfold lsz in *; lia | exact (fb_in _ _ _ S2 Hx) | exact (bad_map _ _ B2 Hx)].
  - (* NMsgPluralCase *) shapes. apply bad_kids in Hb. cbn [existsb] in Hb. apply orb_false_iff in Hb as [Hb _]. apply bad_kids in Hb.
    change (forallb (wf KMsgItem) body = true). revert Hp. apply fb_lift. intros x Hx Hpx. apply bridged_msgitem; [|exact Hpx].
    apply IH; [pose proof (lsz_in x body Hx); unfold lsz in *; lia | exact (fb_in _ _ _ Hs Hx) | exact (bad_map _ _ Hb Hx)].
Qed.

(* ------------------------------------------------------------------ *)
(* whole files: parse.SoyFile *)

(* the tree of a file has the parser's shape, and every call in it is resolved against a
   (namespace, aliases) between the empty start state and the final state of the parse *)
Theorem soy_file_shape inlen lexq unq ts n p :
  po_result (soy_file inlen lexq unq ts) = POk n p ->
  pwf PBlock n = true /\ exists hi, Forall (resolved_in ([], []) hi) (calls_of n).
Proof.
  unfold soy_file, parse_file. intros H.
  pose proof (item_list_shape inlen lexq unq parse_expr expr_fuel parse_expr_wf (file_fuel ts) (st (cst_init ts)) u_eof
                (cst_init ts) (nle_refl _)) as P.
  destruct (item_list _ _ _ _ _ _ _ _) as [n0 s| | |]; cbn [po_result] in H; try discriminate.
  injection H as <- _. cbn [stepr post] in P. destruct P as [_ [P1 P2]]. split; [exact P1|].
  exists (st s). apply P2. apply nle_refl.
Qed.

(* once the namespace is set, "between" means: THAT namespace, and aliases between those of the two states *)
Lemma resolved_in_ns lo hi name : fst lo <> [] -> resolved_in lo hi name ->
  exists al written, al_ext (snd lo) al /\ al_ext al (snd hi) /\ written <> [] /\ resolves (fst lo) al written name.
Proof.
  intros Hne (mid & written & [H1 H2] & [_ H3] & Hw & Hr). destruct H1 as [H1|H1]; [contradiction|].
  exists (snd mid), written. destruct lo as [l1 l2], mid as [m1 m2]. cbn [fst snd] in *. subst m1. repeat split; assumption.
Qed.

(* every call below a {template} whose start tag is read under the namespace ns is resolved against ns
   and the aliases in force at the call (those at the start tag, or more) *)
Theorem template_calls_resolved inlen lexq unq fuel token s n s' :
  c_ns s <> [] ->
  parse_template inlen unq (item_list inlen lexq unq parse_expr expr_fuel fuel) fuel token s = COk n s' ->
  Forall (fun name => exists al written, al_ext (c_al s) al /\ al_ext al (c_al s') /\ written <> [] /\
                                         resolves (c_ns s) al written name) (calls_of n).
Proof.
  intros Hne H.
  pose proof (node_template inlen unq (item_list inlen lexq unq parse_expr expr_fuel fuel) fuel
                (fun lo u s0 => item_list_shape inlen lexq unq parse_expr expr_fuel parse_expr_wf fuel lo u s0)
                (st s) token s (nle_refl _)) as P.
  rewrite H in P. cbn [stepr post] in P. destruct P as [_ [_ P]].
  specialize (P (st s') (nle_refl _)). eapply Forall_impl; [|exact P].
  intros name Hn. exact (resolved_in_ns (st s) (st s') name Hne Hn).
Qed.

(* ------------------------------------------------------------------ *)
(* Registry.Add + CheckDataRefs (Model/Checker.v) over parsed files *)

Definition parsed_file (f : soyfile) : Prop :=
  exists inlen lexq unq ts p p', po_result (soy_file inlen lexq unq ts) = POk (NList p (sf_body f)) p'.

(* the side condition, per file: inside the templates, file-level tags and {plural} stand where the grammar puts them *)
Definition file_grammar (f : soyfile) : bool :=
  forallb (fun x => match x with NTemplate _ _ b _ _ => no_stray b | _ => true end) (sf_body f).

Definition tmpl_ok (n : node) : Prop :=
  match n with
  | NTemplate _ _ (NList _ rest) _ _ => pwf PBlock (NList 0 rest) = true /\ no_stray (NList 0 rest) = true
  | _ => False
  end.

Lemma split_header_suffix nodes : exists pre, nodes = pre ++ snd (split_header nodes).
Proof.
  induction nodes as [|x r IH]; [exists []; reflexivity|].
  destruct x; try (exists []; reflexivity). cbn [split_header]. destruct IH as [pre E].
  destruct (split_header r) as [hs rest]. cbn [snd] in *. eexists (_ :: pre). cbn [app]. rewrite <- E. reflexivity.
Qed.

Lemma forallb_suffix {A} (P : A -> bool) pre l : forallb P (pre ++ l) = true -> forallb P l = true.
Proof. rewrite forallb_app. intros H. apply andb_true_iff in H as [_ H]. exact H. Qed.

Lemma add_templates_ok fname ns : forall body prev acc ts,
  forallb (pwf PItem) body = true ->
  forallb (fun x => match x with NTemplate _ _ b _ _ => no_stray b | _ => true end) body = true ->
  Forall (fun t => tmpl_ok (t_node t)) acc ->
  add_templates fname ns prev body acc = AddOk ts -> Forall (fun t => tmpl_ok (t_node t)) ts.
Proof.
  induction body as [|x r IH]; intros prev acc ts Hp Hg Ha H; cbn [add_templates] in H; [injection H as <-; exact Ha|].
  cbn [forallb] in Hp, Hg. apply andb_true_iff in Hp as [Hpx Hpr]. apply andb_true_iff in Hg as [Hgx Hgr].
  destruct x; try (eapply IH; eassumption).
  cbn [pwf] in Hpx. destruct x; try discriminate.
  destruct (match prev with Some (NSoyDoc _ ps) => soydoc_params ps | _ => Some [] end); [|discriminate].
  destruct (split_header_suffix nodes) as [pre E].
  destruct (split_header nodes) as [hs rest] eqn:Es. cbn [snd] in E.
  destruct (_ && _); [discriminate|]. destruct (existsb _ _); [discriminate|].
  eapply IH; [exact Hpr | exact Hgr | | exact H].
  apply Forall_app. split; [exact Ha|]. constructor; [|constructor]. cbn [t_node tmpl_ok].
  cbn [pwf no_stray] in *. rewrite E in Hpx, Hgx. split; eapply forallb_suffix; eassumption.
Qed.

Lemma add_files_ok : forall fs acc ts,
  (forall f, In f fs -> forallb (pwf PItem) (sf_body f) = true) ->
  (forall f, In f fs -> file_grammar f = true) ->
  Forall (fun t => tmpl_ok (t_node t)) acc ->
  add_files acc fs = AddOk ts -> Forall (fun t => tmpl_ok (t_node t)) ts.
Proof.
  induction fs as [|f r IH]; intros acc ts Hp Hg Ha H; cbn [add_files] in H; [injection H as <-; exact Ha|].
  destruct (add_file acc f) as [acc'|] eqn:E; [|discriminate].
  eapply IH; [intros g Hin; apply Hp; right; exact Hin | intros g Hin; apply Hg; right; exact Hin | | exact H].
  unfold add_file in E. destruct (file_namespace _); [|discriminate].
  eapply add_templates_ok; [apply Hp; left; reflexivity | apply (Hg f); left; reflexivity | exact Ha | exact E].
Qed.

Lemma check_templates_all all : forall l, check_templates all l = Accept ->
  forall t, In t l -> check_template_node all (map fst (t_params t)) (t_node t) = Accept.
Proof.
  induction l as [|t0 r IH]; intros H t Ht; [destruct Ht|]. cbn [check_templates] in H.
  destruct (check_template_node all (map fst (t_params t0)) (t_node t0)) eqn:E; [|discriminate].
  destruct Ht as [<-|Ht]; [exact E | apply IH; assumption].
Qed.

(* FULL statement (false of the faithful model, see compiled_registry_wf_refuted in Properties/C02.v):
     parsed files, add_files [] fs = AddOk ts, compile_check fs = Accept -> wf_registry (registry_of ts fs) = true.
   Proved: the same under [file_grammar] -- the one thing the parser does not enforce. *)
Theorem compiled_registry_wf_shape fs ts :
  (forall f, In f fs -> forallb (pwf PItem) (sf_body f) = true) ->
  (forall f, In f fs -> file_grammar f = true) ->
  add_files [] fs = AddOk ts -> compile_check fs = Accept ->
  Cmd.wf_registry (registry_of ts fs) = true.
Proof.
  intros Hp Hg Hadd Hc. unfold compile_check in Hc. rewrite Hadd in Hc. unfold check_registry in Hc. cbn [r_templates registry_of] in Hc.
  pose proof (add_files_ok fs [] ts Hp Hg (Forall_nil _) Hadd) as Hok.
  unfold Cmd.wf_registry. cbn [r_templates registry_of]. apply forallb_forall. intros t Ht.
  pose proof (check_templates_all ts ts Hc t Ht) as Hacc. apply accepted_not_bad in Hacc.
  pose proof (proj1 (Forall_forall _ _) Hok t Ht) as Htk. cbv beta in Htk.
  destruct (t_node t); cbn [tmpl_ok] in Htk; try contradiction.
  destruct n; try contradiction. destruct Htk as [T1 T2].
  cbn [view] in Hacc. apply bad_kids in Hacc. cbn [existsb] in Hacc. apply orb_false_iff in Hacc as [Hacc _].
  change (wf KCmd (NList p0 nodes) = true).
  apply (bridged_block _ (bridge (csz (NList p0 nodes)) (NList p0 nodes) (le_n _) T2 Hacc)). exact T1.
Qed.

Theorem compiled_registry_wf_parsed fs ts :
  (forall f, In f fs -> parsed_file f) ->
  (forall f, In f fs -> file_grammar f = true) ->
  add_files [] fs = AddOk ts -> compile_check fs = Accept ->
  Cmd.wf_registry (registry_of ts fs) = true.
Proof.
  intros Hp. apply compiled_registry_wf_shape. intros f Hf.
  destruct (Hp f Hf) as (inlen & lexq & unq & toks & p & p' & H).
  exact (proj1 (soy_file_shape _ _ _ _ _ _ H)).
Qed.
