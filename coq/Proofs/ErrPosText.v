(* C19: the text of a parse error shows the file, line and column the error value carries
   (Spec/ErrText.v).  [error_format_is]: with today's format literal the spliced format is
   "template <name>:<line>:<col>: <body>".  [error_text_shows_position]: for a file name without a
   '%' the text of the error starts with "template <name>:<line>:<col>: " -- the very numbers of
   File() / Line() / Col() -- whatever the rest of the message is.  A name containing '%' is
   re-interpreted by the second formatting pass (the name is spliced into a FORMAT): outside the
   statement, observed to corrupt the text while File()/Line() stay right. *)
From Soy Require Import Model.Bytes Generated.Tables Spec.ErrText Proofs.ErrPosSites.
From Coq Require Import Lia List.
Import ListNotations.
Open Scope N_scope.

Definition template_lit : bstr := Eval vm_compute in b "template ".
Definition format_lit : bstr := Eval vm_compute in b "template %s:%d:%d: %s".
Lemma format_lit_is : parser_error_prefix_format = format_lit.
Proof. vm_compute. reflexivity. Qed.

Definition prefix_text (name : bstr) (line col : N) : bstr :=
  template_lit ++ name ++ [58] ++ dec_of_N line ++ [58] ++ dec_of_N col ++ [58; 32].

Lemma option_map_some {A B} (f : A -> B) o x : o = Some x -> option_map f o = Some (f x).
Proof. intros ->. reflexivity. Qed.

Lemma sprintf_tail body : sprintf [37; 115] [FStr body] = Some body.
Proof. cbn. rewrite app_nil_r. reflexivity. Qed.

Theorem error_format_is name line col body :
  error_format name line col body = Some (prefix_text name line col ++ body).
Proof.
  unfold error_format. rewrite format_lit_is. unfold prefix_text, format_lit, template_lit.
  cbn [sprintf option_map]. rewrite app_nil_r. f_equal. cbn [app]. f_equal. f_equal. f_equal. f_equal. f_equal. f_equal. f_equal. f_equal. f_equal.
  repeat (rewrite <- app_assoc; cbn [app]). reflexivity.
Qed.

Corollary error_prefix_is name line col : error_prefix name line col = Some (prefix_text name line col).
Proof. unfold error_prefix. rewrite error_format_is. rewrite app_nil_r. reflexivity. Qed.

(* decimal digits are not '%' *)
Lemma dec_digits_digits fuel : forall n acc, Forall (fun c => 48 <= c <= 57) acc -> Forall (fun c => 48 <= c <= 57) (dec_digits fuel n acc).
Proof.
  induction fuel as [|f IH]; intros n acc H; cbn [dec_digits]; [exact H|].
  assert (Hd : Forall (fun c => 48 <= c <= 57) ((48 + n mod 10) :: acc)).
  { constructor; [|exact H]. pose proof (N.mod_upper_bound n 10 ltac:(discriminate)) as Hm. generalize dependent (n mod 10). intros m Hm. lia. }
  destruct (n / 10 =? 0); [exact Hd|apply IH; exact Hd].
Qed.
Lemma dec_of_N_no_percent n : ~ In 37 (dec_of_N n).
Proof.
  unfold dec_of_N. intros H. pose proof (dec_digits_digits (S (N.to_nat (N.log2 n))) n [] (Forall_nil _)) as F.
  rewrite Forall_forall in F. specialize (F _ H). lia.
Qed.

Lemma prefix_text_no_percent name line col : ~ In 37 name -> ~ In 37 (prefix_text name line col).
Proof.
  intros Hn H. unfold prefix_text in H. repeat (apply in_app_or in H; destruct H as [H|H]).
  - unfold template_lit in H. cbn [In] in H. repeat (destruct H as [H|H]; [discriminate H|]). exact H.
  - exact (Hn H).
  - cbn in H. destruct H as [H|[]]. discriminate.
  - exact (dec_of_N_no_percent _ H).
  - cbn in H. destruct H as [H|[]]. discriminate.
  - exact (dec_of_N_no_percent _ H).
  - cbn in H. destruct H as [H|[H|[]]]; discriminate.
Qed.

Section Text.
(* fmt.Errorf(format, args...) for the arguments of the call, as a function of the format: text
   before the first '%' is copied unchanged *)
Variable fmt2 : bstr -> bstr.
Hypothesis fmt2_literal : forall lit rest, ~ In 37 lit -> fmt2 (lit ++ rest) = lit ++ fmt2 rest.

Theorem error_text_shows_position name line col body :
  ~ In 37 name ->
  let e := error_at fmt2 name line col body in
  pe_file e = name /\ pe_line e = line /\ pe_col e = col /\
  pe_text e = Some (prefix_text (pe_file e) (pe_line e) (pe_col e) ++ fmt2 body) /\
  (forall text, pe_text e = Some text -> mentions text (pe_file e) (pe_line e) (pe_col e)).
Proof.
  intros Hn e. unfold e, error_at. cbn [pe_file pe_line pe_col pe_text].
  rewrite error_format_is. cbn [option_map]. rewrite (fmt2_literal _ _ (prefix_text_no_percent name line col Hn)).
  repeat split. intros text E. inversion E; subst; clear E.
  exists template_lit, ([58; 32] ++ fmt2 body). unfold prefix_text, template_lit. cbn [app]. repeat (rewrite <- app_assoc; cbn [app]). reflexivity.
Qed.
End Text.
