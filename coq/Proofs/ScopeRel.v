(* C02, part 1: the simulation relation between one run of the tree walker
   (Model/Interp.v, a state monad over the scope STACK) and the lexical
   semantics (Spec/Cmd.v); its bind rule; the scope-stack abstraction
   [flatten]; and the simulation of every expression clause.  *)
From Soy Require Import Model.Bytes Model.Num Model.Values Model.Outcome Model.Ast
  Model.Escape Model.Directives Model.Print Generated.Tables Model.Interp Spec.Cmd
  Proofs.InterpLogic Proofs.ValueProofs Proofs.ConvertProofs.
Require Import Lia.
Open Scope N_scope.

(* ================================================================== *)
(* the scope stack and its abstraction                                 *)
(* ================================================================== *)

Definition env_eq (a c : env) : Prop := forall k, assoc_s k a = assoc_s k c.

(* deepest frame first *)
Fixpoint flatten (s : scope) : env :=
  match s with [] => [] | f :: r => f_vars f ++ flatten r end.

Lemma assoc_s_app {A} k (a c : list (bstr * A)) :
  assoc_s k (a ++ c) = match assoc_s k a with Some v => Some v | None => assoc_s k c end.
Proof.
  induction a as [|[k' v] a IH]; cbn; [reflexivity|].
  destruct (bstr_eqb k k'); [reflexivity | exact IH].
Qed.

Lemma sc_lookup_flatten s k : sc_lookup s k = assoc_s k (flatten s).
Proof.
  induction s as [|f r IH]; cbn; [reflexivity|].
  rewrite assoc_s_app, IH. reflexivity.
Qed.

Lemma env_eq_refl a : env_eq a a. Proof. intros k; reflexivity. Qed.
Lemma env_eq_app a a' c c' : env_eq a a' -> env_eq c c' -> env_eq (a ++ c) (a' ++ c').
Proof. intros H1 H2 k. rewrite !assoc_s_app, H1, H2. reflexivity. Qed.
Lemma env_eq_cons k v a c : env_eq a c -> env_eq ((k, v) :: a) ((k, v) :: c).
Proof. intros H q. cbn. rewrite H. reflexivity. Qed.

Lemma assoc_s_map_set m k q (v : value) :
  assoc_s q (map_set m k v) = if bstr_eqb q k then Some v else assoc_s q m.
Proof.
  destruct (bstr_eqb q k) eqn:E.
  - destruct (bstr_eqb_spec q k) as [->|]; [apply assoc_s_map_set_same | discriminate].
  - apply assoc_s_map_set_other; exact E.
Qed.

Lemma env_eq_map_set k v a m : env_eq a m -> env_eq ((k, v) :: a) (map_set m k v).
Proof. intros H q. cbn. rewrite assoc_s_map_set, H. reflexivity. Qed.

Definition top_unentered (c : scope) : Prop := exists f r, c = f :: r /\ f_entered f = false.

(* [en] is what the stack shows; [entry] is what data="all" would pass *)
Definition R (c : scope) (en entry : env) : Prop :=
  env_eq en (flatten c) /\ exists s, sc_alldata c = Some s /\ env_eq entry (flatten s).

Lemma R_env c en entry : R c en entry -> env_eq en (flatten c).
Proof. intros [H _]; exact H. Qed.

Lemma R_push c en entry : R c en entry -> R (sc_push c) en entry.
Proof. intros [H1 H2]. split; [exact H1 | exact H2]. Qed.

Lemma top_unentered_push c : top_unentered (sc_push c).
Proof. exists fresh_frame, c. split; reflexivity. Qed.

Lemma sc_set_cons f r k v :
  sc_set (f :: r) k v = {| f_vars := map_set (f_vars f) k v; f_entered := f_entered f; f_origin := f_origin f |} :: r.
Proof. reflexivity. Qed.

Lemma top_unentered_set c k v : top_unentered c -> top_unentered (sc_set c k v).
Proof. intros (f & r & -> & He). rewrite sc_set_cons. eexists _, r. split; [reflexivity | exact He]. Qed.

Lemma tl_sc_set c k v : tl (sc_set c k v) = tl c.
Proof. destruct c; reflexivity. Qed.

(* a binding made on the (unentered) top frame extends the environment and leaves the entry data alone *)
Lemma R_set c en entry k v :
  top_unentered c -> R c en entry -> R (sc_set c k v) ((k, v) :: en) entry.
Proof.
  intros (f & r & -> & He) [H1 (s & Hs & H2)]. rewrite sc_set_cons. split.
  - intros q. cbn [flatten f_vars]. cbn [assoc_s]. rewrite assoc_s_app, assoc_s_map_set.
    destruct (bstr_eqb q k); [reflexivity|]. rewrite H1. cbn [flatten]. apply assoc_s_app.
  - exists s. split; [|exact H2]. cbn in Hs |- *. rewrite He in Hs |- *. exact Hs.
Qed.

(* ================================================================== *)
(* the simulation relation                                             *)
(* ================================================================== *)

(* fault-free writer *)
Definition good (st : mstate) : Prop := calls_left st = None /\ bytes_left st = None.

(* [st'] differs from [st] by the Write calls [ws] (latest first) to the current destination *)
Definition emits (st st' : mstate) (o : bstr) : Prop :=
  exists ws, concat_b (rev ws) = o /\
    match bufs st with
    | [] => out st' = ws ++ out st /\ bufs st' = []
    | buf :: rest => out st' = out st /\ bufs st' = (ws ++ buf) :: rest
    end.
(* after a fault only the top-level output matters *)
Definition fails (st st' : mstate) (o : bstr) : Prop :=
  match bufs st with
  | [] => exists ws, concat_b (rev ws) = o /\ out st' = ws ++ out st
  | _ :: _ => out st' = out st
  end.

Lemma concat_b_app a c : concat_b (a ++ c) = concat_b a ++ concat_b c.
Proof. induction a as [|x a IH]; cbn; [reflexivity|]. rewrite IH, app_assoc. reflexivity. Qed.

Lemma emits_refl st : emits st st [].
Proof. exists []. split; [reflexivity|]. destruct (bufs st); split; reflexivity. Qed.

Lemma emits_trans a c d o1 o2 : emits a c o1 -> emits c d o2 -> emits a d (o1 ++ o2).
Proof.
  intros (w1 & E1 & H1) (w2 & E2 & H2). exists (w2 ++ w1). split.
  - rewrite rev_app_distr, concat_b_app, E1, E2. reflexivity.
  - destruct (bufs a) as [|buf rest].
    + destruct H1 as [Ho Hb]. rewrite Hb in H2. destruct H2 as [Ho2 Hb2].
      split; [rewrite Ho2, Ho, app_assoc; reflexivity | exact Hb2].
    + destruct H1 as [Ho Hb]. rewrite Hb in H2. destruct H2 as [Ho2 Hb2].
      split; [rewrite Ho2; exact Ho | rewrite Hb2, app_assoc; reflexivity].
Qed.

Lemma emits_fails a c d o1 o2 : emits a c o1 -> fails c d o2 -> fails a d (o1 ++ o2).
Proof.
  intros (w1 & E1 & H1) H2. unfold fails in *. destruct (bufs a) as [|buf rest].
  - destruct H1 as [Ho Hb]. rewrite Hb in H2. destruct H2 as (w2 & E2 & Ho2).
    exists (w2 ++ w1). split.
    + rewrite rev_app_distr, concat_b_app, E1, E2. reflexivity.
    + rewrite Ho2, Ho, app_assoc. reflexivity.
  - destruct H1 as [Ho Hb]. rewrite Hb in H2. rewrite H2. exact Ho.
Qed.

Lemma emits_init a a' c o : out a' = out a -> bufs a' = bufs a -> emits a' c o -> emits a c o.
Proof. intros Ho Hb (ws & E & H). exists ws. split; [exact E|]. rewrite Hb, Ho in H. exact H. Qed.
Lemma fails_init a a' c o : out a' = out a -> bufs a' = bufs a -> fails a' c o -> fails a c o.
Proof. unfold fails. intros Ho Hb H. rewrite Hb, Ho in H. exact H. Qed.
Lemma emits_final a c c' o : out c' = out c -> bufs c' = bufs c -> emits a c o -> emits a c' o.
Proof. intros Ho Hb (ws & E & H). exists ws. split; [exact E|]. rewrite Hb, Ho. exact H. Qed.
Lemma fails_final a c c' o : out c' = out c -> fails a c o -> fails a c' o.
Proof. unfold fails. intros Ho H. rewrite Ho. exact H. Qed.
Lemma emits_same st st' : out st' = out st -> bufs st' = bufs st -> emits st st' [].
Proof. intros Ho Hb. apply (emits_final st st st' [] Ho Hb (emits_refl st)). Qed.
Lemma fails_refl st : fails st st [].
Proof. unfold fails. destruct (bufs st); [exists []; split; reflexivity | reflexivity]. Qed.

(* [mr] = what the walker did from [st]; [sr] = what the Spec says.  [Q x y st'] relates the results. *)
Definition rel {A B} (st : mstate) (mr : outcome A * mstate) (sr : bstr * outcome (B * N))
           (Q : A -> B -> mstate -> Prop) : Prop :=
  match classify (snd sr) with
  | inl (y, nid') =>
      exists x, fst mr = Ok x /\ good (snd mr) /\ emits st (snd mr) (fst sr) /\ next_id (snd mr) = nid' /\ Q x y (snd mr)
  | inr e => fst mr = of_fault e /\ fails st (snd mr) (fst sr)
  end.

Lemma rel_ok {A B} st (x : A) st' o (y : B) nid' (Q : A -> B -> mstate -> Prop) :
  good st' -> emits st st' o -> next_id st' = nid' -> Q x y st' ->
  rel st (Ok x, st') (o, Ok (y, nid')) Q.
Proof. intros H1 H2 H3 H4. unfold rel. cbn. exists x. split; [reflexivity|]. split; [exact H1|]. split; [exact H2|]. split; assumption. Qed.

Lemma rel_mono {A B} st mr sr (Q Q' : A -> B -> mstate -> Prop) :
  rel st mr sr Q -> (forall x y s, Q x y s -> Q' x y s) -> rel st mr sr Q'.
Proof.
  unfold rel. destruct (classify (snd sr)) as [[y n]|e]; [|tauto].
  intros (x & H1 & H2 & H3 & H4 & H5) HQ. exists x. split; [exact H1|]. split; [exact H2|]. split; [exact H3|]. split; [exact H4|]. apply HQ, H5.
Qed.

Lemma rel_init {A B} st st0 mr sr (Q : A -> B -> mstate -> Prop) :
  out st0 = out st -> bufs st0 = bufs st -> rel st0 mr sr Q -> rel st mr sr Q.
Proof.
  unfold rel. intros Ho Hb. destruct (classify (snd sr)) as [[y n]|e].
  - intros (x & H1 & H2 & H3 & H4 & H5). exists x. split; [exact H1|]. split; [exact H2|]. split; [eapply emits_init; eauto|]. split; assumption.
  - intros [H1 H2]. split; [exact H1 | eapply fails_init; eauto].
Qed.

(* ---- the Spec monads, equationally ---- *)

Lemma classify_recast {A B} (r : outcome A) e : classify r = inr e -> @recast A B r = of_fault e.
Proof. destruct r; cbn; intros H; inversion H; reflexivity. Qed.

Lemma sbind_ok {A B} (s : Cm A) (g : A -> Cm B) n o1 x n' :
  s n = (o1, Ok (x, n')) -> sbind s g n = (o1 ++ fst (g x n'), snd (g x n')).
Proof. intros H. unfold sbind. rewrite H. destruct (g x n'); reflexivity. Qed.
Lemma sbind_fault {A B} (s : Cm A) (g : A -> Cm B) n o1 r e :
  s n = (o1, r) -> classify r = inr e -> sbind s g n = (o1, of_fault e).
Proof.
  intros H Hc. unfold sbind. rewrite H. destruct r as [[x n']| | | | | ]; cbn in Hc; inversion Hc; reflexivity.
Qed.
Lemma sbind_ret_l {A B} (x : A) (g : A -> Cm B) n : sbind (sret x) g n = g x n.
Proof. unfold sbind, sret. destruct (g x n); reflexivity. Qed.
Lemma sbind_ret_r {A} (s : Cm A) n : sbind s sret n = s n.
Proof.
  unfold sbind, sret. destruct (s n) as [o [[x n']| | | | | ]]; try reflexivity.
  rewrite app_nil_r. reflexivity.
Qed.
Lemma sE_bind {A B} (e : E A) (k : A -> E B) n :
  sE (ebind e k) n = sbind (sE e) (fun x => sE (k x)) n.
Proof.
  unfold sE, ebind, sbind, bind. destruct (e n) as [[x n']| | | | | ]; reflexivity.
Qed.

(* ---- the bind rule ---- *)

Lemma rel_bind {A A' B B'} st (m : M A) (f : A -> M A') (s : Cm B) (g : B -> Cm B')
      (Q1 : A -> B -> mstate -> Prop) (Q2 : A' -> B' -> mstate -> Prop) :
  rel st (m st) (s (next_id st)) Q1 ->
  (forall x y st1, Q1 x y st1 -> good st1 -> rel st1 (f x st1) (g y (next_id st1)) Q2) ->
  rel st (mbind m f st) (sbind s g (next_id st)) Q2.
Proof.
  intros H1 H2. unfold rel in H1.
  destruct (s (next_id st)) as [o1 r1] eqn:Es. cbn [fst snd] in H1.
  destruct (classify r1) as [[y n1]|e] eqn:Ec.
  - apply classify_ok in Ec. subst r1.
    destruct H1 as (x & Hx & Hg & He & Hn & HQ).
    destruct (m st) as [r st1] eqn:Em. cbn [fst snd] in *. subst r.
    rewrite (mbind_ok _ _ _ _ _ Em), (sbind_ok _ _ _ _ _ _ Es).
    specialize (H2 x y st1 HQ Hg). rewrite Hn in H2. unfold rel in H2 |- *. cbn [fst snd].
    destruct (classify (snd (g y n1))) as [[y2 n2]|e2].
    + destruct H2 as (x2 & K1 & K2 & K3 & K4 & K5). exists x2. split; [exact K1|]. split; [exact K2|].
      split; [eapply emits_trans; eauto|]. split; assumption.
    + destruct H2 as [K1 K2]. split; [exact K1 | eapply emits_fails; eauto].
  - destruct H1 as [Hx Hf].
    destruct (m st) as [r st1] eqn:Em. cbn [fst snd] in *. subst r.
    rewrite (mbind_fault _ _ _ _ _ Em), (sbind_fault _ _ _ _ _ _ Es Ec).
    unfold rel. cbn [fst snd]. rewrite classify_of_fault. split; [reflexivity | exact Hf].
Qed.

(* a step of the walker that the Spec does not have *)
Lemma rel_bind_l {A A' B'} st (m : M A) (f : A -> M A') (s : Cm B')
      (Q1 : A -> unit -> mstate -> Prop) (Q2 : A' -> B' -> mstate -> Prop) :
  rel st (m st) (sret tt (next_id st)) Q1 ->
  (forall x st1, Q1 x tt st1 -> good st1 -> rel st1 (f x st1) (s (next_id st1)) Q2) ->
  rel st (mbind m f st) (s (next_id st)) Q2.
Proof.
  intros H1 H2. rewrite <- (sbind_ret_l tt (fun _ => s)).
  eapply rel_bind; [exact H1|]. intros x [] st1 HQ Hg. apply H2; assumption.
Qed.
Lemma rel_bind_r {A A' B} st (m : M A) (f : A -> M A') (s : Cm B)
      (Q1 : A -> B -> mstate -> Prop) (Q2 : A' -> B -> mstate -> Prop) :
  rel st (m st) (s (next_id st)) Q1 ->
  (forall x y st1, Q1 x y st1 -> good st1 -> rel st1 (f x st1) (sret y (next_id st1)) Q2) ->
  rel st (mbind m f st) (s (next_id st)) Q2.
Proof.
  intros H1 H2. rewrite <- (sbind_ret_r s). eapply rel_bind; eassumption.
Qed.
Lemma rel_ebind {A A' B B'} st (m : M A) (f : A -> M A') (e : E B) (k : B -> E B')
      (Q1 : A -> B -> mstate -> Prop) (Q2 : A' -> B' -> mstate -> Prop) :
  rel st (m st) (sE e (next_id st)) Q1 ->
  (forall x y st1, Q1 x y st1 -> good st1 -> rel st1 (f x st1) (sE (k y) (next_id st1)) Q2) ->
  rel st (mbind m f st) (sE (ebind e k) (next_id st)) Q2.
Proof. intros H1 H2. rewrite sE_bind. eapply rel_bind; eassumption. Qed.

(* ---- primitives ---- *)

Lemma rel_ret {A B} st (x : A) (y : B) (Q : A -> B -> mstate -> Prop) :
  good st -> Q x y st -> rel st (ret x st) (sret y (next_id st)) Q.
Proof.
  intros Hg HQ. apply rel_ok; auto. apply emits_refl.
Qed.
Lemma rel_eret {A B} st (x : A) (y : B) (Q : A -> B -> mstate -> Prop) :
  good st -> Q x y st -> rel st (ret x st) (sE (eret y) (next_id st)) Q.
Proof. exact (rel_ret st x y Q). Qed.

Lemma rel_fail {A B} st m (Q : A -> B -> mstate -> Prop) : rel st (@fail A m st) (@sfail B m (next_id st)) Q.
Proof. unfold rel, fail, sfail. cbn. split; [reflexivity | apply fails_refl]. Qed.
Lemma rel_efail {A B} st m (Q : A -> B -> mstate -> Prop) : rel st (@fail A m st) (sE (@efail B m) (next_id st)) Q.
Proof. exact (rel_fail st m Q). Qed.

Lemma rel_lift {A} st (o : outcome A) (Q : A -> A -> mstate -> Prop) :
  good st -> (forall x, o = Ok x -> Q x x st) -> rel st (lift o st) (slift o (next_id st)) Q.
Proof.
  intros Hg HQ. unfold rel, lift, slift, sE, elift, bind. destruct o as [x| | | | | ]; cbn.
  - apply rel_ok; auto. apply emits_refl.
  - split; [reflexivity | apply fails_refl].
  - split; [reflexivity | apply fails_refl].
  - split; [reflexivity | apply fails_refl].
  - split; [reflexivity | apply fails_refl].
  - split; [reflexivity | apply fails_refl].
Qed.
Lemma rel_elift {A} st (o : outcome A) (Q : A -> A -> mstate -> Prop) :
  good st -> (forall x, o = Ok x -> Q x x st) -> rel st (lift o st) (sE (elift o) (next_id st)) Q.
Proof. exact (rel_lift st o Q). Qed.

(* the usual postconditions: scope and autoescape mode are as before *)
Definition Qe {A} (c : scope) (md : N) : A -> A -> mstate -> Prop :=
  fun x y s => x = y /\ ctx s = c /\ mode s = md.
Definition Qc {A B} (c : scope) (md : N) : A -> B -> mstate -> Prop :=
  fun _ _ s => ctx s = c /\ mode s = md.

Lemma good_set_cur st p : good st -> good (set_cur st p). Proof. exact (fun H => H). Qed.
Lemma good_set_ctx st c : good st -> good (set_ctx st c). Proof. exact (fun H => H). Qed.
Lemma good_set_bufs st c : good st -> good (set_bufs st c). Proof. exact (fun H => H). Qed.
Lemma good_set_mode st c : good st -> good (set_mode st c). Proof. exact (fun H => H). Qed.

Lemma rel_write st w c md :
  good st -> ctx st = c -> mode st = md ->
  rel st (write w st) (semit w (next_id st)) (@Qc unit unit c md).
Proof.
  intros [Hg1 Hg2] Hc Hm. unfold semit.
  unfold write. destruct (bufs st) as [|buf rest] eqn:Hb.
  - rewrite Hg1, Hg2. apply rel_ok; [split; reflexivity| |reflexivity|split; assumption].
    exists [w]. split; [cbn; apply app_nil_r|]. rewrite Hb. cbn. rewrite ?Hb. split; reflexivity.
  - apply rel_ok; [split; assumption| |reflexivity|split; assumption].
    exists [w]. split; [cbn; apply app_nil_r|]. rewrite Hb. cbn. rewrite ?Hb. split; reflexivity.
Qed.

Lemma rel_write_all st ws c md :
  good st -> ctx st = c -> mode st = md ->
  rel st (write_all ws st) (semit (concat_b ws) (next_id st)) (@Qc unit unit c md).
Proof.
  revert st. induction ws as [|w ws IH]; intros st Hg Hc Hm.
  - apply rel_ret; [exact Hg | split; assumption].
  - cbn [write_all concat_b].
    assert (E : semit (w ++ concat_b ws) (next_id st) = sbind (semit w) (fun _ => semit (concat_b ws)) (next_id st))
      by reflexivity.
    rewrite E. eapply rel_bind; [apply rel_write; eassumption|].
    intros _ _ st1 [Hc1 Hm1] Hg1. apply IH; assumption.
Qed.

Lemma rel_modify_ghost {A' B'} st (g : mstate -> mstate) (f : unit -> M A') (s : Cm B') (Q2 : A' -> B' -> mstate -> Prop) :
  out (g st) = out st -> bufs (g st) = bufs st -> next_id (g st) = next_id st ->
  rel (g st) (f tt (g st)) (s (next_id (g st))) Q2 ->
  rel st (mbind (modify g) f st) (s (next_id st)) Q2.
Proof.
  intros Ho Hb Hn H. unfold mbind, modify. rewrite <- Hn. eapply rel_init; eassumption.
Qed.

(* m_set on a non-empty stack *)
Lemma rel_m_set st k v c md :
  good st -> ctx st = c -> c <> [] -> mode st = md ->
  rel st (m_set k v st) (sret tt (next_id st)) (@Qc unit unit (sc_set c k v) md).
Proof.
  intros Hg Hc Hne Hm. rewrite m_set_eq. rewrite Hc. destruct c as [|f r]; [congruence|].
  unfold sret.
  destruct (f_origin f); (apply rel_ok; [exact Hg | apply emits_same; reflexivity | reflexivity | split; [reflexivity | exact Hm]]).
Qed.

Lemma rel_m_lookup st k en c md :
  good st -> ctx st = c -> mode st = md -> env_eq en (flatten c) ->
  rel st (m_lookup k st) (sE (eret (env_lookup k en)) (next_id st)) (Qe c md).
Proof.
  intros Hg <- <- He. rewrite m_lookup_eq. unfold env_lookup. rewrite He, <- sc_lookup_flatten.
  destruct (sc_lookup (ctx st) k) as [v|].
  - apply rel_eret; [exact Hg | split; [reflexivity | split; reflexivity]].
  - unfold sE, eret. apply rel_ok; [exact Hg | apply emits_same; reflexivity | reflexivity | split; [reflexivity | split; reflexivity]].
Qed.

Lemma rel_fresh_list st l c md :
  good st -> ctx st = c -> mode st = md ->
  rel st (fresh_list l st) (sE (new_list l) (next_id st)) (Qe c md).
Proof.
  intros Hg Hc Hm. rewrite fresh_list_eq. unfold sE, new_list.
  destruct l; (apply rel_ok; [exact Hg | apply emits_same; reflexivity | reflexivity | split; [reflexivity | split; assumption]]).
Qed.
Lemma rel_fresh_list_or_nil st l c md :
  good st -> ctx st = c -> mode st = md ->
  rel st (fresh_list_or_nil l st) (sE (new_list_or_nil l) (next_id st)) (Qe c md).
Proof.
  intros Hg Hc Hm. rewrite fresh_list_or_nil_eq. unfold sE, new_list_or_nil.
  destruct l; (apply rel_ok; [exact Hg | apply emits_same; reflexivity | reflexivity | split; [reflexivity | split; assumption]]).
Qed.
Lemma rel_fresh_map st m c md :
  good st -> ctx st = c -> mode st = md ->
  rel st (fresh_map m st) (sE (new_map m) (next_id st)) (Qe c md).
Proof.
  intros Hg Hc Hm. rewrite fresh_map_eq. unfold sE, new_map.
  apply rel_ok; [exact Hg | apply emits_same; reflexivity | reflexivity | split; [reflexivity | split; assumption]].
Qed.

#[global] Arguments rel : simpl never.
#[global] Arguments emits : simpl never.
#[global] Arguments fails : simpl never.
#[global] Arguments good : simpl never.
