(* The parser models touch the item list only through [Token.recv]: framework and primitives.

   [ro_pext e p] is the state [p] with [e] appended to the items not yet received.  A procedure [P] is
   "locked" when its runs from [p] and from [ro_pext e p] agree -- same result, final state extended by
   [e] -- as soon as ONE of the two runs made no more receives than [p] had items ([ro_within], measured
   against the short state [p] for both runs).  Together with monotonicity of the receive counter and of
   p_recv + |p_rest| this composes through [pbind]/[cbind] ([ro_lock_bind], [ro_lockc_bind]); the primitives
   of Model/Token.v and of Model/Parser.v satisfy it.  Proofs/RecvOnlyExpr.v and Proofs/RecvOnlyCmd.v walk
   the procedures.

   The relation also carries the zero-padding reading of a receive from the closed channel: when the extension
   consists of zero items ([ro_zeros j]) and one of the two runs made no more receives than |p_rest p| + j, the
   long run is the short run with some zero items left over (a receive on the empty list IS a receive of a zero
   item). *)
From Soy Require Import Model.Bytes Model.Ast Model.Token Model.ExprParser Model.Parser Generated.Tables.
From Coq Require Import Lia.
Open Scope N_scope.

Definition ro_pext (e : list tok) (p : pst) : pst :=
  {| p_rest := p_rest p ++ e; p_tok0 := p_tok0 p; p_tok1 := p_tok1 p; p_peek := p_peek p; p_recv := p_recv p |}.
Definition ro_cext (e : list tok) (s : cst) : cst := set_p s (ro_pext e (c_p s)).

Definition ro_rext {A} (e : list tok) (r : presult A) : presult A :=
  match r with
  | POk a q => POk a (ro_pext e q)
  | PErr t c q => PErr t c (ro_pext e q)
  | PCrash m => PCrash m
  | PFuel => PFuel
  end.
Definition ro_crext {A} (e : list tok) (r : cres A) : cres A :=
  match r with
  | COk a q => COk a (ro_cext e q)
  | CErr t c q => CErr t c (ro_cext e q)
  | CCrash m => CCrash m
  | CFuel => CFuel
  end.

(* the token state a run ends in *)
Definition ro_fin {A} (r : presult A) : option pst :=
  match r with POk _ q => Some q | PErr _ _ q => Some q | _ => None end.
Definition ro_cfin {A} (r : cres A) : option pst :=
  match r with COk _ q => Some (c_p q) | CErr _ _ q => Some (c_p q) | _ => None end.

Definition ro_avail (p : pst) : nat := (p_recv p + length (p_rest p))%nat.
Definition ro_mono (p : pst) (o : option pst) : Prop :=
  match o with Some q => (p_recv p <= p_recv q)%nat /\ (ro_avail p <= ro_avail q)%nat | None => True end.
(* the run made no more receives than [p] had items: every receive was served from [p_rest p] *)
Definition ro_within (p : pst) (o : option pst) : Prop :=
  match o with Some q => (p_recv q <= ro_avail p)%nat | None => False end.

Definition ro_zeros (j : nat) : list tok := repeat zero_tok j.

Definition ro_lock {A} (e : list tok) (p : pst) (r r' : presult A) : Prop :=
  ro_mono p (ro_fin r) /\ ro_mono (ro_pext e p) (ro_fin r') /\
  (ro_within p (ro_fin r) \/ ro_within p (ro_fin r') -> r' = ro_rext e r) /\
  (forall j, e = ro_zeros j -> ro_within (ro_pext e p) (ro_fin r) \/ ro_within (ro_pext e p) (ro_fin r') ->
     exists j', r' = ro_rext (ro_zeros j') r).
Definition ro_lockc {A} (e : list tok) (s : cst) (r r' : cres A) : Prop :=
  ro_mono (c_p s) (ro_cfin r) /\ ro_mono (ro_pext e (c_p s)) (ro_cfin r') /\
  (ro_within (c_p s) (ro_cfin r) \/ ro_within (c_p s) (ro_cfin r') -> r' = ro_crext e r) /\
  (forall j, e = ro_zeros j -> ro_within (ro_pext e (c_p s)) (ro_cfin r) \/ ro_within (ro_pext e (c_p s)) (ro_cfin r') ->
     exists j', r' = ro_crext (ro_zeros j') r).

Definition ro_lockP {A} (P : pst -> presult A) : Prop := forall p e, ro_lock e p (P p) (P (ro_pext e p)).
Definition ro_lockC {A} (P : cst -> cres A) : Prop := forall s e, ro_lockc e s (P s) (P (ro_cext e s)).

Lemma ro_pext_nil p : ro_pext [] p = p.
Proof. destruct p; unfold ro_pext; cbn. rewrite app_nil_r. reflexivity. Qed.
Lemma ro_cext_nil s : ro_cext [] s = s.
Proof. destruct s; unfold ro_cext, set_p; cbn. rewrite ro_pext_nil. reflexivity. Qed.

Lemma ro_avail_pext e p : ro_avail (ro_pext e p) = (ro_avail p + length e)%nat.
Proof. unfold ro_avail, ro_pext; cbn. rewrite app_length. lia. Qed.

Lemma ro_mono_trans p q o : ro_mono p (Some q) -> ro_mono q o -> ro_mono p o.
Proof. destruct o as [qf|]; cbn; [lia|trivial]. Qed.
Lemma ro_within_pre p q o : ro_mono q o -> ro_within p o -> ro_within p (Some q).
Proof. destruct o as [qf|]; cbn; [lia|tauto]. Qed.
Lemma ro_within_post p q o : ro_mono p (Some q) -> ro_within p o -> ro_within q o.
Proof. destruct o as [qf|]; cbn; [lia|tauto]. Qed.
Lemma ro_mono_refl p : ro_mono p (Some p).
Proof. cbn. lia. Qed.

(* ---------- bind ---------- *)
Lemma ro_lock_bind {A B} e p (X X' : presult A) (k k' : A -> pst -> presult B) :
  ro_lock e p X X' -> (forall a q e1, ro_lock e1 q (k a q) (k' a (ro_pext e1 q))) ->
  ro_lock e p (pbind X k) (pbind X' k').
Proof.
  intros (M & M' & W & P) Hk.
  assert (Hmk : forall a q, ro_mono q (ro_fin (k a q))) by (intros a q; apply (Hk a q [])).
  assert (Hmk' : forall a q, ro_mono q (ro_fin (k' a q))).
  { intros a q. pose proof (Hk a q []) as (_ & H & _). rewrite ro_pext_nil in H. exact H. }
  split; [|split; [|split]].
  - destruct X as [a q|t c q|m|]; cbn [pbind]; try exact M. eapply ro_mono_trans; [exact M|apply Hmk].
  - destruct X' as [a q|t c q|m|]; cbn [pbind]; try exact M'. eapply ro_mono_trans; [exact M'|apply Hmk'].
  - intros [Wn|Wn].
    + destruct X as [a q|t c q|m|]; cbn [pbind] in *.
      * assert (Wx : ro_within p (ro_fin (POk a q))) by (eapply ro_within_pre; [apply Hmk|exact Wn]).
        rewrite (W (or_introl Wx)). cbn [ro_rext pbind]. apply (Hk a q e). left.
        eapply ro_within_post; [exact M|exact Wn].
      * rewrite (W (or_introl Wn)). reflexivity.
      * destruct Wn.
      * destruct Wn.
    + destruct X' as [a' q'|t' c' q'|m'|]; cbn [pbind] in *.
      * assert (Wx : ro_within p (ro_fin (POk a' q'))) by (eapply ro_within_pre; [apply Hmk'|exact Wn]).
        pose proof (W (or_intror Wx)) as E. destruct X as [a q|t c q|m|]; cbn [ro_rext] in E; try discriminate E.
        injection E as -> ->. cbn [pbind]. apply (Hk a q e). right.
        eapply ro_within_post; [exact M|exact Wn].
      * pose proof (W (or_intror Wn)) as E. destruct X as [a q|t c q|m|]; cbn [ro_rext] in E; try discriminate E.
        injection E as -> -> ->. reflexivity.
      * destruct Wn.
      * destruct Wn.
  - intros j Ej [Wn|Wn].
    + destruct X as [a q|t c q|m|]; cbn [pbind] in *.
      * assert (Wx : ro_within (ro_pext e p) (ro_fin (POk a q))) by (eapply ro_within_pre; [apply Hmk|exact Wn]).
        destruct (P j Ej (or_introl Wx)) as (j1 & E1). subst X'. cbn [ro_rext pbind ro_fin] in *.
        apply (Hk a q (ro_zeros j1)) with (j := j1); [reflexivity|]. left.
        eapply ro_within_post; [exact M'|exact Wn].
      * destruct (P j Ej (or_introl Wn)) as (j1 & E1). subst X'. exists j1. reflexivity.
      * destruct Wn.
      * destruct Wn.
    + destruct X' as [a' q'|t' c' q'|m'|]; cbn [pbind] in *.
      * assert (Wx : ro_within (ro_pext e p) (ro_fin (POk a' q'))) by (eapply ro_within_pre; [apply Hmk'|exact Wn]).
        destruct (P j Ej (or_intror Wx)) as (j1 & E1). destruct X as [a q|t c q|m|]; cbn [ro_rext] in E1; try discriminate E1.
        injection E1 as -> ->. cbn [pbind ro_fin] in *. apply (Hk a q (ro_zeros j1)) with (j := j1); [reflexivity|]. right.
        eapply ro_within_post; [exact M'|exact Wn].
      * destruct (P j Ej (or_intror Wn)) as (j1 & E1). destruct X as [a q|t c q|m|]; cbn [ro_rext] in E1; try discriminate E1.
        injection E1 as -> -> ->. exists j1. reflexivity.
      * destruct Wn.
      * destruct Wn.
Qed.

Lemma ro_lockc_bind {A B} e s (X X' : cres A) (k k' : A -> cst -> cres B) :
  ro_lockc e s X X' -> (forall a q e1, ro_lockc e1 q (k a q) (k' a (ro_cext e1 q))) ->
  ro_lockc e s (cbind X k) (cbind X' k').
Proof.
  intros (M & M' & W & P) Hk.
  assert (Hmk : forall a q, ro_mono (c_p q) (ro_cfin (k a q))) by (intros a q; apply (Hk a q [])).
  assert (Hmk' : forall a q, ro_mono (c_p q) (ro_cfin (k' a q))).
  { intros a q. pose proof (Hk a q []) as (_ & H & _). rewrite ro_cext_nil, ro_pext_nil in H. exact H. }
  split; [|split; [|split]].
  - destruct X as [a q|t c q|m|]; cbn [cbind]; try exact M. eapply ro_mono_trans; [exact M|apply Hmk].
  - destruct X' as [a q|t c q|m|]; cbn [cbind]; try exact M'. eapply ro_mono_trans; [exact M'|apply Hmk'].
  - intros [Wn|Wn].
    + destruct X as [a q|t c q|m|]; cbn [cbind] in *.
      * assert (Wx : ro_within (c_p s) (ro_cfin (COk a q))) by (eapply ro_within_pre; [apply Hmk|exact Wn]).
        rewrite (W (or_introl Wx)). cbn [ro_crext cbind]. apply (Hk a q e). left.
        eapply ro_within_post; [exact M|exact Wn].
      * rewrite (W (or_introl Wn)). reflexivity.
      * destruct Wn.
      * destruct Wn.
    + destruct X' as [a' q'|t' c' q'|m'|]; cbn [cbind] in *.
      * assert (Wx : ro_within (c_p s) (ro_cfin (COk a' q'))) by (eapply ro_within_pre; [apply Hmk'|exact Wn]).
        pose proof (W (or_intror Wx)) as E. destruct X as [a q|t c q|m|]; cbn [ro_crext] in E; try discriminate E.
        injection E as -> ->. cbn [cbind]. apply (Hk a q e). right.
        eapply ro_within_post; [exact M|exact Wn].
      * pose proof (W (or_intror Wn)) as E. destruct X as [a q|t c q|m|]; cbn [ro_crext] in E; try discriminate E.
        injection E as -> -> ->. reflexivity.
      * destruct Wn.
      * destruct Wn.
  - intros j Ej [Wn|Wn].
    + destruct X as [a q|t c q|m|]; cbn [cbind] in *.
      * assert (Wx : ro_within (ro_pext e (c_p s)) (ro_cfin (COk a q))) by (eapply ro_within_pre; [apply Hmk|exact Wn]).
        destruct (P j Ej (or_introl Wx)) as (j1 & E1). subst X'. cbn [ro_crext cbind ro_cfin] in *.
        apply (Hk a q (ro_zeros j1)) with (j := j1); [reflexivity|]. left.
        eapply ro_within_post; [exact M'|exact Wn].
      * destruct (P j Ej (or_introl Wn)) as (j1 & E1). subst X'. exists j1. reflexivity.
      * destruct Wn.
      * destruct Wn.
    + destruct X' as [a' q'|t' c' q'|m'|]; cbn [cbind] in *.
      * assert (Wx : ro_within (ro_pext e (c_p s)) (ro_cfin (COk a' q'))) by (eapply ro_within_pre; [apply Hmk'|exact Wn]).
        destruct (P j Ej (or_intror Wx)) as (j1 & E1). destruct X as [a q|t c q|m|]; cbn [ro_crext] in E1; try discriminate E1.
        injection E1 as -> ->. cbn [cbind ro_cfin] in *. apply (Hk a q (ro_zeros j1)) with (j := j1); [reflexivity|]. right.
        eapply ro_within_post; [exact M'|exact Wn].
      * destruct (P j Ej (or_intror Wn)) as (j1 & E1). destruct X as [a q|t c q|m|]; cbn [ro_crext] in E1; try discriminate E1.
        injection E1 as -> -> ->. exists j1. reflexivity.
      * destruct Wn.
      * destruct Wn.
Qed.

(* ---------- results that do not receive ---------- *)
Lemma ro_mono_rext {A} e p (r : presult A) : ro_mono p (ro_fin r) -> ro_mono (ro_pext e p) (ro_fin (ro_rext e r)).
Proof.
  destruct r as [a q|t c q|m|]; cbn [ro_rext ro_fin ro_mono]; trivial; rewrite !ro_avail_pext; cbn [ro_pext p_recv]; lia.
Qed.
Lemma ro_mono_crext {A} e p (r : cres A) : ro_mono p (ro_cfin r) -> ro_mono (ro_pext e p) (ro_cfin (ro_crext e r)).
Proof.
  destruct r as [a q|t c q|m|]; cbn [ro_crext ro_cfin ro_mono]; trivial;
    change (c_p (ro_cext e q)) with (ro_pext e (c_p q)); rewrite !ro_avail_pext; cbn [ro_pext p_recv]; lia.
Qed.
Lemma ro_lock_eq {A} e p (r r' : presult A) : r' = ro_rext e r -> ro_mono p (ro_fin r) -> ro_lock e p r r'.
Proof.
  intros -> M. split; [exact M|split; [apply ro_mono_rext; exact M|split; [reflexivity|]]].
  intros j -> _. exists j. reflexivity.
Qed.
Lemma ro_lockc_eq {A} e s (r r' : cres A) : r' = ro_crext e r -> ro_mono (c_p s) (ro_cfin r) -> ro_lockc e s r r'.
Proof.
  intros -> M. split; [exact M|split; [apply ro_mono_crext; exact M|split; [reflexivity|]]].
  intros j -> _. exists j. reflexivity.
Qed.

(* ---------- Model/Token.v ---------- *)
Definition ro_ok {A} (x : A * pst) : presult A := POk (fst x) (snd x).

Ltac ro_pure := solve [apply ro_lock_eq; [reflexivity|unfold ro_mono, ro_fin, ro_ok, ro_avail; cbn; lia]].

(* a receive on the empty list is a receive of a zero item *)
Lemma ro_recv_lock e p : ro_lock e p (ro_ok (recv p)) (ro_ok (recv (ro_pext e p))).
Proof.
  destruct p as [rest t0 t1 pk rc]. unfold recv, ro_pext; cbn [p_rest p_tok0 p_tok1 p_peek p_recv].
  destruct rest as [|t r]; [destruct e as [|t e]|]; try ro_pure.
  unfold ro_lock, ro_mono, ro_within, ro_avail, ro_ok, ro_fin; cbn.
  split; [lia|split; [lia|split]].
  - intros [H|H]; lia.
  - intros j Ej _. destruct j as [|j]; [discriminate Ej|]. cbn in Ej. injection Ej as -> ->.
    exists j. reflexivity.
Qed.
Lemma ro_p_next_lock e p : ro_lock e p (ro_ok (p_next p)) (ro_ok (p_next (ro_pext e p))).
Proof.
  unfold p_next. change (p_peek (ro_pext e p)) with (p_peek p). destruct (p_peek p) as [|k]; [|ro_pure].
  pose proof (ro_lock_bind e p _ _
    (fun t s1 => POk t {| p_rest := p_rest s1; p_tok0 := t; p_tok1 := p_tok1 s1; p_peek := 0; p_recv := p_recv s1 |})
    (fun t s1 => POk t {| p_rest := p_rest s1; p_tok0 := t; p_tok1 := p_tok1 s1; p_peek := 0; p_recv := p_recv s1 |})
    (ro_recv_lock e p)) as H.
  destruct (recv p), (recv (ro_pext e p)). apply H. intros a q e1. ro_pure.
Qed.
Lemma ro_p_peek_tok_lock e p : ro_lock e p (ro_ok (p_peek_tok p)) (ro_ok (p_peek_tok (ro_pext e p))).
Proof.
  unfold p_peek_tok. change (p_peek (ro_pext e p)) with (p_peek p). destruct (p_peek p) as [|k]; [|ro_pure].
  pose proof (ro_lock_bind e p _ _
    (fun t s1 => POk t {| p_rest := p_rest s1; p_tok0 := t; p_tok1 := p_tok1 s1; p_peek := 1; p_recv := p_recv s1 |})
    (fun t s1 => POk t {| p_rest := p_rest s1; p_tok0 := t; p_tok1 := p_tok1 s1; p_peek := 1; p_recv := p_recv s1 |})
    (ro_recv_lock e p)) as H.
  destruct (recv p), (recv (ro_pext e p)). apply H. intros a q e1. ro_pure.
Qed.

(* `let '(t, st1) := p_next st in ...` is a bind on p_next *)
Lemma ro_lock_let_next {B} e p (k k' : tok -> pst -> presult B) :
  (forall a q e1, ro_lock e1 q (k a q) (k' a (ro_pext e1 q))) ->
  ro_lock e p (let '(t, s1) := p_next p in k t s1) (let '(t, s1) := p_next (ro_pext e p) in k' t s1).
Proof.
  intros Hk. pose proof (ro_lock_bind e p _ _ k k' (ro_p_next_lock e p) Hk) as H.
  destruct (p_next p), (p_next (ro_pext e p)). exact H.
Qed.
Lemma ro_lock_let_peek {B} e p (k k' : tok -> pst -> presult B) :
  (forall a q e1, ro_lock e1 q (k a q) (k' a (ro_pext e1 q))) ->
  ro_lock e p (let '(t, s1) := p_peek_tok p in k t s1) (let '(t, s1) := p_peek_tok (ro_pext e p) in k' t s1).
Proof.
  intros Hk. pose proof (ro_lock_bind e p _ _ k k' (ro_p_peek_tok_lock e p) Hk) as H.
  destruct (p_peek_tok p), (p_peek_tok (ro_pext e p)). exact H.
Qed.

(* operations that do not look at the items commute with the extension (by computation) *)
Lemma ro_p_backup_pext e p : p_backup (ro_pext e p) = ro_pext e (p_backup p). Proof. reflexivity. Qed.
Lemma ro_p_backup2_pext e p t : p_backup2 (ro_pext e p) t = ro_pext e (p_backup2 p t). Proof. reflexivity. Qed.
Lemma ro_err_tok_pext e p : err_tok (ro_pext e p) = err_tok p. Proof. reflexivity. Qed.
Lemma ro_tok_at_pext e p i : tok_at (ro_pext e p) i = tok_at p i. Proof. reflexivity. Qed.

(* ---------- Model/Parser.v: the primitives on cst ---------- *)
Lemma ro_c_p_cext e s : c_p (ro_cext e s) = ro_pext e (c_p s). Proof. reflexivity. Qed.
Lemma ro_c_ns_cext e s : c_ns (ro_cext e s) = c_ns s. Proof. reflexivity. Qed.
Lemma ro_c_al_cext e s : c_al (ro_cext e s) = c_al s. Proof. reflexivity. Qed.
Lemma ro_c_inmsg_cext e s : c_inmsg (ro_cext e s) = c_inmsg s. Proof. reflexivity. Qed.
Lemma ro_c_scans_cext e s : c_scans (ro_cext e s) = c_scans s. Proof. reflexivity. Qed.
Lemma ro_set_ns_cext e s ns : set_ns (ro_cext e s) ns = ro_cext e (set_ns s ns). Proof. reflexivity. Qed.
Lemma ro_add_alias_cext e s k v : add_alias (ro_cext e s) k v = ro_cext e (add_alias s k v). Proof. reflexivity. Qed.
Lemma ro_set_inmsg_cext e s x : set_inmsg (ro_cext e s) x = ro_cext e (set_inmsg s x). Proof. reflexivity. Qed.
Lemma ro_add_scan_cext e s r : add_scan (ro_cext e s) r = ro_cext e (add_scan s r). Proof. reflexivity. Qed.
Lemma ro_c_backup_cext e s : c_backup (ro_cext e s) = ro_cext e (c_backup s). Proof. reflexivity. Qed.
Lemma ro_c_backup2_cext e s t : c_backup2 (ro_cext e s) t = ro_cext e (c_backup2 s t). Proof. reflexivity. Qed.
Lemma ro_cst_init_app ts e : cst_init (ts ++ e) = ro_cext e (cst_init ts). Proof. reflexivity. Qed.
Lemma ro_pst_init_app ts e : pst_init (ts ++ e) = ro_pext e (pst_init ts). Proof. reflexivity. Qed.

(* a presult over [c_p s] put back into the command state *)
Definition ro_lift {A} (s : cst) (x : presult A) : cres A :=
  match x with
  | POk a p' => COk a (set_p s p')
  | PErr t c p' => CErr t c (set_p s p')
  | PCrash m => CCrash m
  | PFuel => CFuel
  end.
Lemma ro_lockc_lift {A} e s (x x' : presult A) :
  ro_lock e (c_p s) x x' -> ro_lockc e s (ro_lift s x) (ro_lift (ro_cext e s) x').
Proof.
  intros (M & M' & W & P). split; [|split; [|split]].
  - destruct x; exact M.
  - destruct x'; exact M'.
  - intros Wn. rewrite W; [destruct x; reflexivity|]. destruct Wn as [Wn|Wn]; [left; destruct x|right; destruct x']; exact Wn.
  - intros j Ej Wn. destruct (P j Ej) as (j1 & E1).
    + destruct Wn as [Wn|Wn]; [left; destruct x|right; destruct x']; exact Wn.
    + exists j1. rewrite E1. destruct x; reflexivity.
Qed.

Lemma ro_c_next_lock e s : ro_lockc e s (c_next s) (c_next (ro_cext e s)).
Proof.
  unfold c_next. change (p_peek (c_p (ro_cext e s))) with (p_peek (c_p s)). destruct (3 <=? p_peek (c_p s))%nat.
  - apply ro_lockc_eq; [reflexivity|exact I].
  - pose proof (ro_lockc_lift e s _ _ (ro_p_next_lock e (c_p s))) as H.
    change (c_p (ro_cext e s)) with (ro_pext e (c_p s)).
    destruct (p_next (c_p s)), (p_next (ro_pext e (c_p s))). exact H.
Qed.
Lemma ro_c_peek_lock e s : ro_lockc e s (c_peek s) (c_peek (ro_cext e s)).
Proof.
  unfold c_peek. change (p_peek (c_p (ro_cext e s))) with (p_peek (c_p s)). destruct (3 <=? p_peek (c_p s))%nat.
  - apply ro_lockc_eq; [reflexivity|exact I].
  - pose proof (ro_lockc_lift e s _ _ (ro_p_peek_tok_lock e (c_p s))) as H.
    change (c_p (ro_cext e s)) with (ro_pext e (c_p s)).
    destruct (p_peek_tok (c_p s)), (p_peek_tok (ro_pext e (c_p s))). exact H.
Qed.

Section Prims.
Variable inlen : N.
Lemma ro_c_error_at_lock {A} t c e s : ro_lockc e s (@c_error_at inlen A t c s) (c_error_at inlen t c (ro_cext e s)).
Proof. unfold c_error_at. destruct (t_pos t <=? inlen); (apply ro_lockc_eq; [reflexivity|]); [apply ro_mono_refl|exact I]. Qed.
Lemma ro_c_errorf_lock {A} c e s : ro_lockc e s (@c_errorf inlen A c s) (c_errorf inlen c (ro_cext e s)).
Proof.
  unfold c_errorf. change (p_peek (c_p (ro_cext e s))) with (p_peek (c_p s)).
  change (err_tok (c_p (ro_cext e s))) with (err_tok (c_p s)).
  destruct (3 <=? p_peek (c_p s))%nat; [apply ro_lockc_eq; [reflexivity|exact I]|apply ro_c_error_at_lock].
Qed.
Lemma ro_c_unexp_lock {A} t c e s : ro_lockc e s (@c_unexp inlen A t c s) (c_unexp inlen t c (ro_cext e s)).
Proof. unfold c_unexp. destruct (tis t pit_Error); apply ro_c_error_at_lock. Qed.
Lemma ro_c_expect_lock typ c e s : ro_lockc e s (c_expect inlen typ c s) (c_expect inlen typ c (ro_cext e s)).
Proof.
  unfold c_expect. apply ro_lockc_bind; [apply ro_c_next_lock|]. intros a q e1.
  destruct (tis a typ); [apply ro_lockc_eq; [reflexivity|apply ro_mono_refl]|apply ro_c_unexp_lock].
Qed.
End Prims.
Lemma ro_tail1_lock v e s : ro_lockc e s (tail1 v s) (tail1 v (ro_cext e s)).
Proof. unfold tail1. destruct v; apply ro_lockc_eq; try reflexivity; first [exact I|apply ro_mono_refl]. Qed.

Print Assumptions ro_lock_bind.
Print Assumptions ro_lockc_bind.
Print Assumptions ro_c_expect_lock.
