(* C19, parse half: prefix determinism of the scanner (Proofs/LexPrefix*.v) composed with the
   per-configuration fault theorems (Proofs/ErrPosReach.v).

   v = pre ++ r1 is a file (think: the valid one), f = pre ++ r2 another file with the same first
   |pre| bytes (think: the same file with a fault injected after pre).  If the scan of v reaches a
   configuration after k steps, passing only through configurations whose cursor stays at least
   M = 24 bytes before the end of pre, then the scan of f reaches
   the very same configuration ([valid_scan_transfers]); if what follows the cursor in f is plain
   text and a stray closing brace (white space and an illegal character inside a tag), the items of
   f are the items sent so far followed by the error item just after the offending character,
   whose line is 1 + the line feeds before it.  The invariant start <= pos needed by the
   determinism theorem is discharged with the scanner invariant of Proofs/LexerProofs.v. *)
From Soy Require Import Model.Bytes Model.Utf8 Model.Outcome Model.Token Model.Lexer Generated.Tables Model.Interp Spec.ErrPos
  Proofs.Utf8Proofs Proofs.LexerPrim Proofs.LexerStates Proofs.LexerProofs Proofs.LexTokens Proofs.ErrTokProofs Proofs.LexErrPos
  Proofs.ErrPosReach Proofs.LexPrefix Proofs.LexPrefixStates Proofs.LexPrefixMain Proofs.LexEofPos Proofs.LexFinalPos Proofs.ErrPosFinal.
From Coq Require Import ZifyBool ZifyNat ZifyN Lia List.
Import ListNotations.
Open Scope Z_scope.

Section Compose.
Variable ul ud : Z -> bool.
Hypothesis letter_eof : ul (-1) = false.
Hypothesis digit_eof : ud (-1) = false.

Lemma psteps_steps base inp k : forall st l, psteps ul ud base inp k st l = steps ul ud inp base k st l.
Proof. induction k as [|k IH]; intros st l; cbn [psteps steps]; [reflexivity|]. destruct (step _ _ _ _ _ _ _) as [[st' l']| | | | |]; cbn [bind]; auto. Qed.

(* the scanner invariant along the steps of a scan: start <= pos *)
Lemma steps_inv inp : forall k st l st' l', inv inp 0 st l -> steps ul ud inp 0 k st l = Ok (st', l') -> inv inp 0 st' l'.
Proof.
  induction k as [|k IH]; intros st l st' l' Hi H; cbn [steps] in H; [inversion H; subst; exact Hi|].
  destruct st; try (pose proof (step_ok ul ud letter_eof digit_eof inp 0 ltac:(lia) _ l Hi ltac:(discriminate)) as Hs;
    destruct (step ul ud inp (Z.of_nat (length inp)) 0 _ l) as [[st1 l1]| | | | |]; cbn [bind okp] in *; try discriminate; try contradiction;
    exact (IH _ _ _ _ (proj1 Hs) H)).
  cbn [step bind] in H. exact (IH _ _ _ _ Hi H).
Qed.

Definition before_margin (pre : bstr) (l : lx) : Prop := l_pos l + M <= Z.of_nat (length pre).

(* the scan of the valid file transfers to any file with the same prefix *)
Theorem valid_scan_transfers pre r1 r2 k st l :
  steps ul ud (pre ++ r1) 0 k LText lex_init = Ok (st, l) -> st <> LDone ->
  (forall j stj lj, (j <= k)%nat -> steps ul ud (pre ++ r1) 0 j LText lex_init = Ok (stj, lj) ->
     before_margin pre lj) ->
  steps ul ud (pre ++ r2) 0 k LText lex_init = Ok (st, l).
Proof.
  intros H Hl Hg. rewrite <- psteps_steps. apply (steps_det ul ud pre r1 r2 0 k LText lex_init st l).
  - rewrite psteps_steps. exact H.
  - intros j Hj stj lj Hs. rewrite psteps_steps in Hs. pose proof (Hg j stj lj Hj Hs) as Hb.
    unfold good. split; [exact Hb|]. split.
    + destruct (Nat.eq_dec j k) as [->|Hne].
      * rewrite H in Hs. inversion Hs; subst. exact Hl.
      * exact (steps_live ul ud (pre ++ r1) k LText lex_init st l H Hl j ltac:(lia) stj lj Hs).
    + pose proof (steps_inv (pre ++ r1) j LText lex_init stj lj (init_inv (pre ++ r1) 0 false) Hs) as (Hw & _). unfold wf in Hw. lia.
Qed.

(* ---- the fault-injection statements, from the scan of the VALID file ---- *)
(* a stray closing brace: v = pre ++ r1 any file whose scan reaches the text state at a cursor at least
   M bytes before |pre|; f = pre ++ r2 has, from that cursor on, plain text and then a closing brace *)
Theorem stray_brace_after_valid_prefix pre r1 r2 k l txt rest fuel :
  steps ul ud (pre ++ r1) 0 k LText lex_init = Ok (LText, l) ->
  (forall j stj lj, (j <= k)%nat -> steps ul ud (pre ++ r1) 0 j LText lex_init = Ok (stj, lj) ->
     before_margin pre lj) ->
  drop (Z.to_nat (l_pos l)) (pre ++ r2) = txt ++ 125%N :: rest -> Forall plain txt ->
  let f := pre ++ r2 in
  let e := err_item (l_pos l + Z.of_nat (length txt) + 1) e_close_brace in
  lex_items ul ud (k + S fuel) false f = Ok (rev (l_out l) ++ [e]) /\
  line_at f (t_pos e) = (1 + count_nl (take (Z.to_nat (l_pos l)) f ++ txt))%N.
Proof.
  intros H Hg Hd Hpl f e.
  pose proof (valid_scan_transfers pre r1 r2 k LText l H ltac:(discriminate) Hg) as H2.
  pose proof (steps_inv (pre ++ r1) k LText lex_init LText l (init_inv (pre ++ r1) 0 false) H) as (Hw & _). unfold wf in Hw.
  apply (stray_brace_reached ul ud (pre ++ r2) k l txt rest fuel H2 ltac:(lia) Hd Hpl).
Qed.

Theorem illegal_char_after_valid_prefix pre r1 r2 k l ws c rest fuel :
  steps ul ud (pre ++ r1) 0 k LText lex_init = Ok (LInsideTag, l) ->
  (forall j stj lj, (j <= k)%nat -> steps ul ud (pre ++ r1) 0 j LText lex_init = Ok (stj, lj) ->
     before_margin pre lj) ->
  drop (Z.to_nat (l_pos l)) (pre ++ r2) = ws ++ c :: rest -> Forall space_byte ws -> (c < 128)%N ->
  reaches_default (Z.of_N c) = true -> c <> 10%N ->
  let f := pre ++ r2 in
  let e := err_item (l_pos l + Z.of_nat (length ws) + 1) e_bad_char in
  lex_items ul ud (k + (length ws + S fuel)) false f = Ok (rev (l_out l) ++ [e]) /\
  line_at f (t_pos e) = (1 + count_nl (take (Z.to_nat (l_pos l)) f ++ ws))%N.
Proof.
  intros H Hg Hd Hws Hc Hr Hnl f e.
  pose proof (valid_scan_transfers pre r1 r2 k LInsideTag l H ltac:(discriminate) Hg) as H2.
  pose proof (steps_inv (pre ++ r1) k LText lex_init LInsideTag l (init_inv (pre ++ r1) 0 false) H) as (Hw & _). unfold wf in Hw.
  apply (illegal_char_reached ul ud (pre ++ r2) k l ws c rest fuel H2 ltac:(lia) Hd Hws Hc Hr Hnl).
Qed.

(* ---- per-state look-ahead (Proofs/LexPrefixMain.v: margin, steps_det_m) ----
   every step j -> j+1 of the reference scan ends [margin st_j] bytes before the end of the common prefix, st_j the
   state function that ran: 4 for the tag delimiters and lexBeginTag, 8 for text, the inside of a tag, strings,
   comments, identifiers and numbers, 12 for css and literal blocks, 16 for soydoc, 24 for a header @param *)
Definition within_margins (pre s : bstr) (k : nat) : Prop :=
  forall j stj lj stn ln, (j < k)%nat ->
    steps ul ud s 0 j LText lex_init = Ok (stj, lj) -> steps ul ud s 0 (S j) LText lex_init = Ok (stn, ln) ->
    l_pos ln + margin stj <= Z.of_nat (length pre).

Lemma before_margin_within pre s k :
  (forall j stj lj, (j <= k)%nat -> steps ul ud s 0 j LText lex_init = Ok (stj, lj) -> before_margin pre lj) ->
  within_margins pre s k.
Proof.
  intros Hg j stj lj stn ln Hj Hs Hn. pose proof (Hg (S j) stn ln ltac:(lia) Hn) as Hb. unfold before_margin in Hb.
  pose proof (margin_le_M stj). lia.
Qed.

Theorem valid_scan_transfers_m pre r1 r2 k st l :
  steps ul ud (pre ++ r1) 0 k LText lex_init = Ok (st, l) -> st <> LDone ->
  within_margins pre (pre ++ r1) k ->
  steps ul ud (pre ++ r2) 0 k LText lex_init = Ok (st, l).
Proof.
  intros H Hl Hg. rewrite <- psteps_steps. apply (steps_det_m ul ud pre r1 r2 0 k LText lex_init st l).
  - rewrite psteps_steps. exact H.
  - intros j Hj stj lj Hs. rewrite psteps_steps in Hs. split.
    + destruct (Nat.eq_dec j k) as [->|Hne].
      * rewrite H in Hs. inversion Hs; subst. exact Hl.
      * exact (steps_live ul ud (pre ++ r1) k LText lex_init st l H Hl j ltac:(lia) stj lj Hs).
    + pose proof (steps_inv (pre ++ r1) j LText lex_init stj lj (init_inv (pre ++ r1) 0 false) Hs) as (Hw & _). unfold wf in Hw. lia.
  - intros j Hj stj lj stn ln Hs Hn. rewrite psteps_steps in Hs, Hn. exact (Hg j stj lj stn ln Hj Hs Hn).
Qed.

Theorem stray_brace_after_valid_prefix_m pre r1 r2 k l txt rest fuel :
  steps ul ud (pre ++ r1) 0 k LText lex_init = Ok (LText, l) ->
  within_margins pre (pre ++ r1) k ->
  drop (Z.to_nat (l_pos l)) (pre ++ r2) = txt ++ 125%N :: rest -> Forall plain txt ->
  let f := pre ++ r2 in
  let e := err_item (l_pos l + Z.of_nat (length txt) + 1) e_close_brace in
  lex_items ul ud (k + S fuel) false f = Ok (rev (l_out l) ++ [e]) /\
  line_at f (t_pos e) = (1 + count_nl (take (Z.to_nat (l_pos l)) f ++ txt))%N.
Proof.
  intros H Hg Hd Hpl f e.
  pose proof (valid_scan_transfers_m pre r1 r2 k LText l H ltac:(discriminate) Hg) as H2.
  pose proof (steps_inv (pre ++ r1) k LText lex_init LText l (init_inv (pre ++ r1) 0 false) H) as (Hw & _). unfold wf in Hw.
  apply (stray_brace_reached ul ud (pre ++ r2) k l txt rest fuel H2 ltac:(lia) Hd Hpl).
Qed.

Theorem illegal_char_after_valid_prefix_m pre r1 r2 k l ws c rest fuel :
  steps ul ud (pre ++ r1) 0 k LText lex_init = Ok (LInsideTag, l) ->
  within_margins pre (pre ++ r1) k ->
  drop (Z.to_nat (l_pos l)) (pre ++ r2) = ws ++ c :: rest -> Forall space_byte ws -> (c < 128)%N ->
  reaches_default (Z.of_N c) = true -> c <> 10%N ->
  let f := pre ++ r2 in
  let e := err_item (l_pos l + Z.of_nat (length ws) + 1) e_bad_char in
  lex_items ul ud (k + (length ws + S fuel)) false f = Ok (rev (l_out l) ++ [e]) /\
  line_at f (t_pos e) = (1 + count_nl (take (Z.to_nat (l_pos l)) f ++ ws))%N.
Proof.
  intros H Hg Hd Hws Hc Hr Hnl f e.
  pose proof (valid_scan_transfers_m pre r1 r2 k LInsideTag l H ltac:(discriminate) Hg) as H2.
  pose proof (steps_inv (pre ++ r1) k LText lex_init LInsideTag l (init_inv (pre ++ r1) 0 false) H) as (Hw & _). unfold wf in Hw.
  apply (illegal_char_reached ul ud (pre ++ r2) k l ws c rest fuel H2 ltac:(lia) Hd Hws Hc Hr Hnl).
Qed.

(* ---- the fault classes reported at the end of the input: unterminated soydoc / block comment / string / tag ----
   v = pre ++ r1 a file whose scan reaches, within the margins, some configuration; f = pre ++ r2 a file with the
   same first |pre| bytes whose scan ends in an error item of the end-of-input classes: the scan of f passes through
   that very configuration (the items of the valid prefix are a prefix of the items of f), its last item is that
   error item, it stands at |f|, and its line is the LAST line of f -- not before the line of any position of f,
   in particular of the place where the construct was opened *)
Theorem eof_fault_after_valid_prefix pre r1 r2 k st l fuel ts e :
  steps ul ud (pre ++ r1) 0 k LText lex_init = Ok (st, l) -> st <> LDone ->
  within_margins pre (pre ++ r1) k ->
  let f := pre ++ r2 in
  lex_items ul ud fuel false f = Ok (ts ++ [e]) -> t_typ e = itemError -> eof_class (t_val e) = true ->
  steps ul ud f 0 k LText lex_init = Ok (st, l) /\
  t_pos e = N.of_nat (length f) /\ line_at f (t_pos e) = lines f /\
  (forall opened, (opened <= N.of_nat (length f))%N -> (line_at f opened <= line_at f (t_pos e))%N).
Proof.
  intros H Hl Hg f Hlex Hty Hc.
  split; [exact (valid_scan_transfers_m pre r1 r2 k st l H Hl Hg)|].
  destruct (scanned_item_facts ul ud letter_eof digit_eof fuel f (ts ++ [e]) e Hlex
              ltac:(right; apply in_or_app; right; left; reflexivity)) as (_ & _ & _ & He).
  destruct (He Hty) as (_ & _ & Hend). destruct (Hend Hc) as (Ep & El).
  split; [exact Ep|]. split; [exact El|].
  intros opened Ho. rewrite Ep. exact (proj2 (end_of_input_line f opened Ho)).
Qed.
End Compose.
