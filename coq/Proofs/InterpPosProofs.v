(* The tree walker does not depend on the positions stored in the nodes, up to
   the error-position register: two nodes that are the same code ([pstrip]-equal)
   are related computations.  Same method as Proofs/InterpRelProofs.v, with the
   tree [n] on one side and [pstrip n] on the other. *)
From Soy Require Import Model.Bytes Model.Outcome Model.Num Model.Values Model.Ast Model.Escape
  Model.Directives Model.Print Model.Interp Model.MsgParts Spec.MsgCat Proofs.InterpRelProofs Generated.Tables.
Open Scope N_scope.

(* one side: the node itself ([false]) or the node without positions ([true]) *)
Definition T (s : bool) (n : node) : node := if s then pstrip n else n.
Definition P (s : bool) (p : N) : N := if s then 0 else p.
Definition TO (s : bool) (o : option node) : option node := option_map (T s) o.

Lemma omap_id (o : option node) : option_map (fun n => n) o = o.
Proof. destruct o; reflexivity. Qed.
Lemma mapkv_id (l : list (bstr * node)) : map (fun kv => (fst kv, snd kv)) l = l.
Proof. induction l as [|[k v] r IH]; cbn [map fst snd]; [reflexivity | rewrite IH; reflexivity]. Qed.

Ltac Tctor s := unfold T, P, TO; destruct s; cbn [pstrip option_map];
              rewrite ?map_id, ?omap_id, ?mapkv_id; reflexivity.

Lemma T_NFunc s p name args : T s (NFunc p name args) = NFunc (P s p) name (map (T s) args). Proof. Tctor s. Qed.
Lemma T_NListLit s p items : T s (NListLit p items) = NListLit (P s p) (map (T s) items). Proof. Tctor s. Qed.
Lemma T_NMapLit s p items : T s (NMapLit p items) = NMapLit (P s p) (map (fun kv => (fst kv, T s (snd kv))) items). Proof. Tctor s. Qed.
Lemma T_NDataRef s p key acc : T s (NDataRef p key acc) = NDataRef (P s p) key (map (T s) acc). Proof. Tctor s. Qed.
Lemma T_NAccIndex s p ns i : T s (NAccIndex p ns i) = NAccIndex (P s p) ns i. Proof. Tctor s. Qed.
Lemma T_NAccKey s p ns k : T s (NAccKey p ns k) = NAccKey (P s p) ns k. Proof. Tctor s. Qed.
Lemma T_NAccExpr s p ns a : T s (NAccExpr p ns a) = NAccExpr (P s p) ns (T s a). Proof. Tctor s. Qed.
Lemma T_NNot s p a : T s (NNot p a) = NNot (P s p) (T s a). Proof. Tctor s. Qed.
Lemma T_NNeg s p a : T s (NNeg p a) = NNeg (P s p) (T s a). Proof. Tctor s. Qed.
Lemma T_NBin s op p a1 a2 : T s (NBin op p a1 a2) = NBin op (P s p) (T s a1) (T s a2). Proof. Tctor s. Qed.
Lemma T_NTern s p c x y : T s (NTern p c x y) = NTern (P s p) (T s c) (T s x) (T s y). Proof. Tctor s. Qed.
Lemma T_NList s p nodes : T s (NList p nodes) = NList (P s p) (map (T s) nodes). Proof. Tctor s. Qed.
Lemma T_NRawText s p t : T s (NRawText p t) = NRawText (P s p) t. Proof. Tctor s. Qed.
Lemma T_NPrint s p arg dirs : T s (NPrint p arg dirs) = NPrint (P s p) (T s arg) (map (T s) dirs). Proof. Tctor s. Qed.
Lemma T_NDirective s p name args : T s (NDirective p name args) = NDirective (P s p) name (map (T s) args). Proof. Tctor s. Qed.
Lemma T_NCss s p e suffix : T s (NCss p e suffix) = NCss (P s p) (TO s e) suffix. Proof. Tctor s. Qed.
Lemma T_NLog s p body : T s (NLog p body) = NLog (P s p) (T s body). Proof. Tctor s. Qed.
Lemma T_NIf s p conds : T s (NIf p conds) = NIf (P s p) (map (T s) conds). Proof. Tctor s. Qed.
Lemma T_NIfCond s p cond body : T s (NIfCond p cond body) = NIfCond (P s p) (TO s cond) (T s body). Proof. Tctor s. Qed.
Lemma T_NFor s p var lst body ie : T s (NFor p var lst body ie) = NFor (P s p) var (T s lst) (T s body) (TO s ie). Proof. Tctor s. Qed.
Lemma T_NSwitch s p v cases : T s (NSwitch p v cases) = NSwitch (P s p) (T s v) (map (T s) cases). Proof. Tctor s. Qed.
Lemma T_NSwitchCase s p values body : T s (NSwitchCase p values body) = NSwitchCase (P s p) (map (T s) values) (T s body). Proof. Tctor s. Qed.
Lemma T_NCall s p name ad dat params : T s (NCall p name ad dat params) = NCall (P s p) name ad (TO s dat) (map (T s) params). Proof. Tctor s. Qed.
Lemma T_NParamValue s p k v : T s (NParamValue p k v) = NParamValue (P s p) k (T s v). Proof. Tctor s. Qed.
Lemma T_NParamContent s p k c : T s (NParamContent p k c) = NParamContent (P s p) k (T s c). Proof. Tctor s. Qed.
Lemma T_NLetValue s p name e : T s (NLetValue p name e) = NLetValue (P s p) name (T s e). Proof. Tctor s. Qed.
Lemma T_NLetContent s p name body : T s (NLetContent p name body) = NLetContent (P s p) name (T s body). Proof. Tctor s. Qed.
Lemma T_NMsg s p id mn ds body : T s (NMsg p id mn ds body) = NMsg (P s p) id mn ds (map (T s) body). Proof. Tctor s. Qed.
Lemma T_NMsgPlaceholder s p name body : T s (NMsgPlaceholder p name body) = NMsgPlaceholder (P s p) name (T s body). Proof. Tctor s. Qed.
Lemma T_NMsgHtmlTag s p t : T s (NMsgHtmlTag p t) = NMsgHtmlTag (P s p) t. Proof. Tctor s. Qed.
Lemma T_NMsgPlural s p vn v cases dflt :
  T s (NMsgPlural p vn v cases dflt) = NMsgPlural (P s p) vn (T s v) (map (T s) cases) (map (T s) dflt). Proof. Tctor s. Qed.
Lemma T_NMsgPluralCase s p v body : T s (NMsgPluralCase p v body) = NMsgPluralCase (P s p) v (map (T s) body). Proof. Tctor s. Qed.
Lemma T_NTemplate s p name body ae pv : T s (NTemplate p name body ae pv) = NTemplate (P s p) name (T s body) ae pv. Proof. Tctor s. Qed.

#[global] Hint Rewrite T_NFunc T_NListLit T_NMapLit T_NDataRef T_NAccIndex T_NAccKey T_NAccExpr T_NNot T_NNeg T_NBin T_NTern
  T_NList T_NRawText T_NPrint T_NDirective T_NCss T_NLog T_NIf T_NIfCond T_NFor T_NSwitch T_NSwitchCase T_NCall
  T_NParamValue T_NParamContent T_NLetValue T_NLetContent T_NMsg T_NMsgPlaceholder T_NMsgHtmlTag T_NMsgPlural
  T_NMsgPluralCase T_NTemplate : Tdb.

(* a constructor that the code at hand does not look into: both sides see the same constructor *)
Ltac Tother s1 s2 := destruct s1, s2; cbn [T pstrip].

Section Pos.
Variable cf : cfg.
Variable okm : N -> list node -> Prop.
Hypothesis Hokm0 : forall body, okm 0 body.
Hypothesis Hreg : Forall (fun t => okP okm (t_node t)) (r_templates (c_reg cf)).
Variables s1 s2 : bool.
Variables w1 w2 : node -> M value.
Hypothesis Hsame : forall n, okP okm n -> mrel (w1 n) (w2 n).
Hypothesis Hw : forall n, okP okm n -> mrel (w1 (T s1 n)) (w2 (T s2 n)).

Notation okP := (okP okm).

Ltac mr := repeat first
  [ assumption | apply mrel_ret | apply mrel_fail | apply mrel_lift | apply mrel_write | apply mrel_write_all
  | apply mrel_m_set | apply mrel_m_lookup | apply mrel_m_push | apply mrel_m_pop
  | apply mrel_fresh_list | apply mrel_fresh_list_or_nil | apply mrel_fresh_map | apply mrel_set_cur
  | solve [eauto]
  | (apply mrel_bind; [ | intros ? ])
  | match goal with
    | |- mrel (match ?x with _ => _ end) (match ?x with _ => _ end) => destruct x
    | |- mrel (if ?c then _ else _) (if ?c then _ else _) => destruct c
    end ].

Lemma eval_T e : okP e -> mrel (eval w1 (T s1 e)) (eval w2 (T s2 e)).
Proof.
  intros H. unfold eval. apply mrel_get_bind. intros t1 t2 He.
  apply mrel_bind; [apply Hw, H|]. intros v. mr.
Qed.

Lemma evaldef_T e : okP e -> mrel (evaldef w1 (T s1 e)) (evaldef w2 (T s2 e)).
Proof. intros H. unfold evaldef. pose proof (eval_T e H). mr. Qed.

Lemma eval_list_T es : Forall okP es -> mrel (eval_list w1 (map (T s1) es)) (eval_list w2 (map (T s2) es)).
Proof.
  induction 1 as [|e r He _ IH]; cbn [map eval_list]; [apply mrel_ret|].
  pose proof (eval_T e He). mr.
Qed.

Lemma walk_list_T ns : Forall okP ns -> mrel (walk_list w1 (map (T s1) ns)) (walk_list w2 (map (T s2) ns)).
Proof.
  induction 1 as [|e r He _ IH]; cbn [map walk_list]; [apply mrel_ret|].
  pose proof (Hw e He). mr.
Qed.

Lemma render_block_T body : okP body -> mrel (render_block w1 (T s1 body)) (render_block w2 (T s2 body)).
Proof.
  intros H. unfold render_block.
  apply mrel_bind.
  { apply mrel_modify. intros t1 t2 He. unfold st_equiv in *. decompose [and] He.
    cbn [ctx mode cur tmpl depth_ out bufs calls_left bytes_left next_id unbound shared_writes set_bufs] in *.
    repeat split; auto. }
  intros _. apply mrel_bind; [apply Hw, H|]. intros _.
  apply mrel_get_bind. intros t1 t2 He.
  assert (Forall2 (fun b1 b2 : list bstr => chunks b1 = chunks b2) (bufs t1) (bufs t2)) as Hb by (unfold st_equiv in He; tauto).
  destruct (bufs t1) as [|b1 r1] eqn:E1.
  - inversion Hb. apply mrel_fail.
  - inversion Hb as [|? b2 ? r2 Hc Hr]; subst.
    replace (concat_b (rev b1)) with (concat_b (rev b2)) by (symmetry; exact Hc).
    apply mrel_bind; [|intros _; apply mrel_ret].
    apply mrel_modify. intros u1 u2 Ht. unfold st_equiv in *. decompose [and] Ht.
    cbn [ctx mode cur tmpl depth_ out bufs calls_left bytes_left next_id unbound shared_writes set_bufs] in *.
    repeat split; auto.
Qed.

Lemma maplit_items_T l : Forall (fun kv => okP (snd kv)) l ->
  mrel (maplit_items w1 (map (fun kv => (fst kv, T s1 (snd kv))) l)) (maplit_items w2 (map (fun kv => (fst kv, T s2 (snd kv))) l)).
Proof.
  induction 1 as [|[k e] r He _ IH]; cbn [map maplit_items fst snd]; [apply mrel_ret|].
  cbn [snd] in He. pose proof (eval_T e He). mr.
Qed.

Lemma loop_func_T name args : mrel (loop_func name (map (T s1) args)) (loop_func name (map (T s2) args)).
Proof.
  unfold loop_func. destruct args as [|a r]; cbn [map]; [apply mrel_fail|].
  destruct a; try (Tother s1 s2; apply mrel_fail).
  rewrite !T_NDataRef. mr.
Qed.

Lemma call_func_T name args : Forall okP args -> mrel (call_func w1 name (map (T s1) args)) (call_func w2 name (map (T s2) args)).
Proof. intros H. unfold call_func. rewrite !map_length. pose proof (eval_list_T args H). mr. Qed.

Lemma is_nullsafe_T s a : is_nullsafe (T s a) = is_nullsafe a.
Proof. destruct a, s; reflexivity. Qed.

Lemma dataref_access_T acc : Forall okP acc ->
  forall ref, mrel (dataref_access w1 (map (T s1) acc) ref) (dataref_access w2 (map (T s2) acc) ref).
Proof.
  induction 1 as [|a rest Ha _ IH]; intros ref; cbn [map dataref_access]; [apply mrel_ret|].
  rewrite !is_nullsafe_T.
  apply mrel_bind.
  - destruct a; try (Tother s1 s2; first [apply mrel_ret | apply mrel_fail]).
    rewrite !T_NAccExpr. cbn [InterpRelProofs.okP] in Ha. pose proof (eval_T _ Ha). mr.
  - intros [oi k]. mr.
Qed.

Lemma print_dirs_T l : Forall okP l -> forall v, mrel (print_dirs cf w1 (map (T s1) l) v) (print_dirs cf w2 (map (T s2) l) v).
Proof.
  induction 1 as [|d r Hd _ IH]; intros v; cbn [map print_dirs]; [apply mrel_ret|].
  destruct d; try (Tother s1 s2; apply mrel_fail).
  rewrite !T_NDirective. cbn [InterpRelProofs.okP] in Hd. apply okP_all in Hd. pose proof (eval_list_T _ Hd).
  rewrite !map_length.
  destruct (lookup_directive name) as [[arglens x]|]; [|apply mrel_fail]. mr.
Qed.

Lemma if_conds_T cs : Forall okP cs -> mrel (if_conds w1 (map (T s1) cs)) (if_conds w2 (map (T s2) cs)).
Proof.
  induction 1 as [|c r Hc _ IH]; cbn [map if_conds]; [apply mrel_ret|].
  destruct c; try (Tother s1 s2; apply mrel_fail).
  rewrite !T_NIfCond. cbn [InterpRelProofs.okP] in Hc. destruct Hc as [Hcond Hbody].
  pose proof (Hw _ Hbody). destruct cond as [cnd|]; cbn [TO option_map]; [pose proof (eval_T _ Hcond)|]; mr.
Qed.

Lemma for_items_T var body : okP body ->
  forall items i, mrel (for_items w1 var (T s1 body) i items) (for_items w2 var (T s2 body) i items).
Proof.
  intros Hb. pose proof (Hw _ Hb). induction items as [|x r IH]; intros i; cbn [for_items]; [apply mrel_ret|]. mr.
Qed.

Lemma case_hit_T sv vs : Forall okP vs -> mrel (case_hit w1 sv (map (T s1) vs)) (case_hit w2 sv (map (T s2) vs)).
Proof.
  induction 1 as [|x r Hx _ IH]; cbn [map case_hit]; [apply mrel_ret|]. pose proof (eval_T _ Hx). mr.
Qed.

Lemma map_nil_T {A} s (l : list node) (a c : A) :
  match map (T s) l with [] => a | _ :: _ => c end = match l with [] => a | _ :: _ => c end.
Proof. destruct l; reflexivity. Qed.

Lemma switch_cases_T sv cs : Forall okP cs -> mrel (switch_cases w1 sv (map (T s1) cs)) (switch_cases w2 sv (map (T s2) cs)).
Proof.
  induction 1 as [|c r Hc _ IH]; cbn [map switch_cases]; [apply mrel_ret|].
  destruct c; try (Tother s1 s2; apply mrel_fail).
  rewrite !T_NSwitchCase. cbn [InterpRelProofs.okP] in Hc. destruct Hc as [Hv Hbody]. apply okP_all in Hv.
  pose proof (Hw _ Hbody). pose proof (case_hit_T sv _ Hv). rewrite !map_nil_T. mr.
Qed.

Lemma call_params_T ps : Forall okP ps ->
  forall cd, mrel (call_params w1 (map (T s1) ps) cd) (call_params w2 (map (T s2) ps) cd).
Proof.
  induction 1 as [|p r Hp _ IH]; intros cd; cbn [map call_params]; [apply mrel_ret|].
  destruct p; try (Tother s1 s2; apply mrel_fail); cbn [InterpRelProofs.okP] in Hp.
  - rewrite !T_NParamValue. pose proof (eval_T _ Hp). mr.
  - rewrite !T_NParamContent. pose proof (render_block_T _ Hp). mr.
Qed.

Lemma call_data_T alldata dat :
  match dat with Some x => okP x | None => True end ->
  mrel (call_data w1 alldata (TO s1 dat)) (call_data w2 alldata (TO s2 dat)).
Proof.
  intros Hd. unfold call_data. apply mrel_get_bind. intros t1 t2 He. rewrite (eqv_ctx _ _ He).
  destruct alldata; [mr|]. destruct dat as [x|]; cbn [TO option_map]; [pose proof (eval_T _ Hd)|]; mr.
Qed.

(* the callee comes from the registry: the same node on both sides *)
Lemma call_enter_same callee cd : okP (t_node callee) -> mrel (call_enter w1 callee cd) (call_enter w2 callee cd).
Proof. intros Hc. apply (call_enter_rel okm w1 w2 Hsame callee cd Hc). Qed.

Lemma plural_pick_T mp i dflt cs :
  Forall okP dflt -> Forall okP cs ->
  mrel (plural_pick w1 (P s1 mp) i (map (T s1) dflt) (map (T s1) cs)) (plural_pick w2 (P s2 mp) i (map (T s2) dflt) (map (T s2) cs)).
Proof.
  intros Hd. assert (okP (NMsg mp 0 [] [] dflt)) as Hsyn by (cbn [InterpRelProofs.okP]; split; [apply Hokm0 | apply okP_all, Hd]).
  pose proof (Hw _ Hsyn) as Hd'. rewrite !T_NMsg in Hd'.
  induction 1 as [|c r Hc _ IH]; cbn [map plural_pick]; [mr|].
  destruct c; try (Tother s1 s2; apply mrel_fail).
  rewrite !T_NMsgPluralCase. cbn [InterpRelProofs.okP] in Hc.
  assert (okP (NMsg mp 0 [] [] body)) as Hsyn' by (cbn [InterpRelProofs.okP]; split; [apply Hokm0 | exact Hc]).
  pose proof (Hw _ Hsyn') as Hc'. rewrite !T_NMsg in Hc'. mr.
Qed.

Lemma msg_body_T mp ns : Forall okP ns ->
  mrel (msg_body w1 (P s1 mp) (map (T s1) ns)) (msg_body w2 (P s2 mp) (map (T s2) ns)).
Proof.
  induction 1 as [|n r Hn _ IH]; cbn [map msg_body]; [apply mrel_ret|].
  destruct n; try (Tother s1 s2; exact IH); cbn [InterpRelProofs.okP] in Hn.
  - pose proof (Hw (NRawText p text) I) as Hr. rewrite !T_NRawText in *. mr.
  - rewrite !T_NMsgPlaceholder. pose proof (Hw _ Hn). mr.
  - rewrite !T_NMsgPlural. destruct Hn as [Hv [Hc Hd]]. apply okP_all in Hc. apply okP_all in Hd.
    pose proof (eval_T _ Hv). pose proof (plural_pick_T mp). mr.
Qed.

Lemma mapkv_okP items : fold_right (fun kv a => okP (snd kv) /\ a) True items -> Forall (fun kv : bstr * node => okP (snd kv)) items.
Proof. induction items as [|x r IH]; cbn [fold_right]; [constructor|]. intros [? ?]. constructor; auto. Qed.

Lemma find_template_okP name callee : find_template (r_templates (c_reg cf)) name = Some callee -> okP (t_node callee).
Proof.
  intros E. induction (r_templates (c_reg cf)) as [|t r IH]; cbn [find_template] in E; [discriminate|].
  inversion Hreg; subst. destruct (bstr_eqb (t_name t) name); [injection E as <-; assumption | auto].
Qed.

Lemma walk_node_T n : okP n -> mrel (walk_node cf w1 (T s1 n)) (walk_node cf w2 (T s2 n)).
Proof.
  intros H. destruct n; try (Tother s1 s2; cbn [walk_node]; first [apply mrel_ret | apply mrel_fail]);
    cbn [InterpRelProofs.okP] in H; autorewrite with Tdb; cbn [walk_node].
  - (* NFunc *) apply okP_all in H. pose proof (call_func_T name _ H). pose proof (loop_func_T name args). mr.
  - (* NListLit *) apply okP_all in H. pose proof (eval_list_T _ H). mr.
  - (* NMapLit *) pose proof (maplit_items_T _ (mapkv_okP _ H)). mr.
  - (* NDataRef *) apply okP_all in H. pose proof (dataref_access_T _ H). mr.
  - (* NNot *) pose proof (eval_T _ H). mr.
  - (* NNeg *) pose proof (evaldef_T _ H). mr.
  - (* NBin *) destruct H as [H1 H2]. pose proof (eval_T _ H1). pose proof (eval_T _ H2).
    pose proof (evaldef_T _ H1). pose proof (evaldef_T _ H2). destruct op; mr.
  - (* NTern *) destruct H as [H1 [H2 H3]]. pose proof (eval_T _ H1). pose proof (eval_T _ H2). pose proof (eval_T _ H3). mr.
  - (* NList *) apply okP_all in H. pose proof (walk_list_T _ H). mr.
  - (* NRawText *) mr.
  - (* NPrint *) destruct H as [Ha Hd]. apply okP_all in Hd. pose proof (Hw _ Ha). pose proof (print_dirs_T _ Hd).
    apply mrel_bind; [assumption|]. intros v. destruct v; try apply mrel_fail.
    all: apply mrel_bind; [solve [auto]|]; intros ds; apply mrel_bind; [apply mrel_lift|]; intros str;
      apply mrel_get_bind; intros t1 t2 He; rewrite (eqv_mode _ _ He); mr.
  - (* NCss *) destruct expr as [x|]; cbn [TO option_map]; [pose proof (eval_T _ H)|]; mr.
  - (* NLog *) pose proof (render_block_T _ H). mr.
  - (* NIf *) apply okP_all in H. apply if_conds_T, H.
  - (* NFor *) destruct H as [Hl [Hb Hi]]. pose proof (eval_T _ Hl). pose proof (for_items_T var _ Hb).
    apply mrel_bind; [assumption|]. intros lv. destruct lv; try apply mrel_fail.
    destruct l as [|x l]; [destruct ifempty as [ie|]; cbn [TO option_map]; [pose proof (Hw _ Hi)|]; mr | mr].
  - (* NSwitch *) destruct H as [Hv Hc]. apply okP_all in Hc. pose proof (eval_T _ Hv). pose proof (switch_cases_T). mr.
  - (* NCall *) destruct H as [Hd Hp]. apply okP_all in Hp.
    destruct (find_template (r_templates (c_reg cf)) name) as [callee|] eqn:E; [|apply mrel_fail].
    pose proof (find_template_okP _ _ E) as Hc.
    pose proof (call_data_T alldata data Hd). pose proof (call_params_T _ Hp). pose proof (call_enter_same callee). mr.
  - (* NLetValue *) pose proof (eval_T _ H). mr.
  - (* NLetContent *) pose proof (render_block_T _ H). mr.
  - (* NMsg *) destruct H as [_ Hb]. apply okP_all in Hb. pose proof (msg_body_T p _ Hb). mr.
  - (* NMsgHtmlTag *) mr.
  - (* NTemplate *) pose proof (Hw _ H).
    apply mrel_bind; [|intros _; mr].
    apply mrel_modify. intros t1 t2 He. rewrite (eqv_mode _ _ He). apply eqv_set_mode, He.
Qed.

Theorem walk_body_T n : okP n -> mrel (walk_body cf w1 (T s1 n)) (walk_body cf w2 (T s2 n)).
Proof.
  intros H. unfold walk_body. apply mrel_bind; [apply mrel_set_cur | intros _; apply walk_node_T, H].
Qed.
End Pos.

Section WalkPos.
Variable cf : cfg.
Variable okm : N -> list node -> Prop.
Hypothesis Hokm0 : forall body, okm 0 body.
Hypothesis Hreg : Forall (fun t => okP okm (t_node t)) (r_templates (c_reg cf)).

Lemma walk_refl_g f : forall n, okP okm n -> mrel (walk cf f n) (walk cf f n).
Proof.
  induction f as [|f IH]; intros n Hn; [apply mrel_fuel|].
  cbn [walk]. apply (walk_body_rel cf okm Hokm0 Hreg _ _ IH n Hn).
Qed.

Lemma walk_T f s1 s2 : forall n, okP okm n -> mrel (walk cf f (T s1 n)) (walk cf f (T s2 n)).
Proof.
  induction f as [|f IH]; intros n Hn; [apply mrel_fuel|].
  cbn [walk]. apply (walk_body_T cf okm Hokm0 Hreg s1 s2 _ _ (walk_refl_g f) IH n Hn).
Qed.

(* the walker renders the same code the same way, wherever it stands *)
Theorem walk_pos f b1 b2 :
  okP okm b1 -> okP okm b2 -> pstrip b1 = pstrip b2 -> mrel (walk cf f b1) (walk cf f b2).
Proof.
  intros H1 H2 E.
  eapply mrel_trans; [apply (walk_T f false true b1 H1)|].
  change (T true b1) with (pstrip b1). rewrite E. apply (walk_T f true false b2 H2).
Qed.
End WalkPos.
