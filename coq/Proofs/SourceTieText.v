(* Source tie, family 72-gotrans-rawtext-quote (parse/rawtext.go, parse/quote.go): the
   tight-joiner test of the line-joining rule, and the escape table and the byte search of
   unquoteString, against the same functions as gotrans translates them from today's source. *)
From Coq Require Import ZArith NArith Bool Lia ZifyBool ZifyN List.
From Soy Require Import Model.Bytes Generated.Tables Model.RawText Model.Quote Proofs.SourceTieBase.
Import ListNotations.
Open Scope N_scope.

(* rawtext.go isTightJoiner *)
Lemma is_tight_joiner_matches_source (r : N) : is_tight_joiner r = src_parse_isTightJoiner (Z.of_N r).
Proof. unfold is_tight_joiner, src_parse_isTightJoiner. bool_lia. Qed.

(* rawtext.go uses lexer.go's isSpace / isEndOfLine; Model/RawText.v has its own copies over N *)
Lemma rawtext_is_space_matches_source (r : N) : is_space r = src_parse_isSpace (Z.of_N r).
Proof. unfold is_space, src_parse_isSpace. bool_lia. Qed.

Lemma rawtext_is_eol_matches_source (r : N) : is_eol r = src_parse_isEndOfLine (Z.of_N r).
Proof. unfold is_eol, src_parse_isEndOfLine. bool_lia. Qed.

(* quote.go contains(s, c): Model/Quote.v unquote_string tests [mem c body] *)
Lemma quote_contains_matches_source (s : bstr) (c : N) : mem c s = src_parse_contains s (Z.of_N c).
Proof.
  unfold src_parse_contains, mem. cbv zeta. rewrite find_existsb.
  apply existsb_ext. intros a. lia.
Qed.

(* quote.go unescapes[r] *)
Lemma unescapes_table_matches_source (r : N) :
  option_map Z.of_N (assoc r unescapes_table) = go_assoc_z (Z.of_N r) src_parse_unescapes.
Proof.
  apply (assoc_z_ext Z.of_N Z.eqb); [exact Z_eqb_true|vm_compute; reflexivity|vm_compute; reflexivity].
Qed.

Lemma unescape_of_matches_source (r : N) :
  match unescape_of r with Some x => (Z.of_N x, true) | None => (0%Z, false) end =
  (go_lookup_z (Z.of_N r) src_parse_unescapes 0%Z, go_has_z (Z.of_N r) src_parse_unescapes).
Proof.
  unfold unescape_of, go_lookup_z, go_has_z. rewrite <- unescapes_table_matches_source.
  destruct (assoc r unescapes_table); reflexivity.
Qed.
