(* Source tie, family 72-gotrans-rawtext-quote, the rawtext part (parse/rawtext.go): the
   tight-joiner test and the two space classes of the line-joining rule (Model/RawText.v)
   against the same functions as gotrans translates them from today's source. *)
From Coq Require Import ZArith NArith Bool Lia ZifyBool ZifyN List.
From Soy Require Import Model.Bytes Generated.Tables Model.RawText Proofs.SourceTieBase.
Import ListNotations.
Open Scope N_scope.

(* rawtext.go isTightJoiner *)
Lemma is_tight_joiner_matches_source (r : N) : is_tight_joiner r = src_parse_isTightJoiner (Z.of_N r).
Proof. unfold is_tight_joiner, src_parse_isTightJoiner. bool_lia. Qed.

(* rawtext.go uses lexer.go's isSpace / isEndOfLine; Model/RawText.v has its own copies over N *)
Lemma rawtext_is_space_matches_source (r : N) : is_space r = src_parse_isSpace (Z.of_N r).
Proof. unfold is_space, src_parse_isSpace. bool_lia. Qed.

Lemma rawtext_is_eol_matches_source (r : N) : is_eol r = src_parse_isEndOfLine (Z.of_N r).
Proof. unfold is_eol, src_parse_isEndOfLine. bool_lia. Qed.
