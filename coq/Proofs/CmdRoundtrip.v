(* C17 at command level, part 4: the round trip of template bodies.  By strong induction on
   the size of the tree, for bodies and commands at once: the items of a well-formed body
   (Spec/CmdSyntax.v), followed by "{" and an item that ends the list, are read by itemList
   as that body. *)
From Soy Require Import Model.Bytes Model.Outcome Model.Num Model.Ast Model.Token Model.RawText Model.ExprParser Model.Parser Generated.Tables
  Spec.ExprSyntax Spec.CmdSyntax Proofs.ExprParserRules Proofs.ExprParserProofs Proofs.CmdRoundtripBase Proofs.CmdRoundtripRules
  Proofs.CmdRoundtripPrint Proofs.CmdRoundtripSwitch Proofs.CmdRoundtripCall Proofs.CmdRoundtripMsg Proofs.CmdRoundtripPlural.
From Soy Require Import Model.AstPrint Model.AstPrintCmd.
From Coq Require Import Lia.
Open Scope N_scope.

(* ---- top-level mirrors of the local functions of Spec/CmdSyntax.v ---- *)
Fixpoint if_toks (p : N) (first : bool) (l : list node) : list tok :=
  match l with
  | [] => []
  | NIfCond _ (Some c) x :: r =>
      [T_ldelim; kw (if first then pit_If else pit_Elseif) (if first then p else 0)] ++ tokens_of c ++ [T_rdelim] ++ body_toks x ++ if_toks p false r
  | NIfCond _ None x :: r => [T_ldelim; kw pit_Else 0; T_rdelim] ++ body_toks x ++ if_toks p false r
  | _ :: r => if_toks p false r
  end.
Fixpoint sw_toks (l : list node) : list tok :=
  match l with
  | [] => []
  | NSwitchCase q vals x :: r =>
      (match vals with
       | [] => [T_ldelim; kw pit_Default q; T_rdelim]
       | _ => [T_ldelim; kw pit_Case q] ++ sep_join [T_comma] (map tokens_of vals) ++ [T_rdelim]
       end) ++ body_toks x ++ sw_toks r
  | _ :: r => sw_toks r
  end.
Lemma cmd_toks_switch p v cases :
  cmd_toks (NSwitch p v cases) = [T_ldelim; kw pit_Switch p] ++ tokens_of v ++ [T_rdelim] ++ sw_toks cases ++ close_tag pit_SwitchEnd.
Proof.
  reflexivity.
Qed.

Lemma sw_toks_app a c : sw_toks (a ++ c) = sw_toks a ++ sw_toks c.
Proof.
  induction a as [|x a IH]; [reflexivity|]. destruct x; cbn [app sw_toks]; try exact IH. rewrite IH, <- !app_assoc. reflexivity.
Qed.
Lemma sw_toks_plural dflt : forall cases, forallb is_pcase cases = true ->
  sw_toks (map sw_of_case cases ++ [sw_default dflt]) = pcases_toks blist_toks cases ++ plural_default_head ++ blist_toks dflt.
Proof.
  induction cases as [|c r IH]; intros Hp.
  - cbn [map app sw_toks sw_default body_toks pcases_toks]. rewrite app_nil_r. reflexivity.
  - cbn [forallb] in Hp. apply andb_true_iff in Hp. destruct Hp as [Hc Hr]. destruct c; try discriminate Hc.
    cbn [map app sw_of_case sw_toks body_toks pcases_toks]. fold (pcases_toks blist_toks r). rewrite (IH Hr).
    unfold plural_case_head. cbn [map sep_join]. rewrite <- !app_assoc. reflexivity.
Qed.
Lemma csize_sw_of_case c : csize (sw_of_case c) = csize c.
Proof. destruct c; reflexivity. Qed.

Fixpoint params_toks (l : list node) : list tok :=
  match l with
  | [] => []
  | NParamValue q key v :: r =>
      [tk pit_LeftDelim q [123]; kw pit_Param 0; tk pit_Ident 0 key; T_colon] ++ tokens_of v ++ [T_rdelim_end] ++ params_toks r
  | NParamContent q key x :: r =>
      [tk pit_LeftDelim q [123]; kw pit_Param 0; tk pit_Ident 0 key; T_rdelim] ++ body_toks x ++ close_tag pit_ParamEnd ++ params_toks r
  | _ :: r => params_toks r
  end.
Lemma cmd_toks_call p name alldata data params :
  cmd_toks (NCall p name alldata data params) =
  [T_ldelim; kw pit_Call p] ++ call_name_toks name ++
  (if alldata then attr_toks v_data (dq v_all)
   else match data with Some d => attr_toks v_data (dq (printed d)) | None => [] end) ++
  (match params with
   | [] => [T_rdelim_end]
   | _ => [T_rdelim] ++ params_toks params ++ close_tag pit_CallEnd
   end).
Proof. reflexivity. Qed.

(* ---- small facts about strings ---- *)
Lemma go_quote_plain s : plain s -> go_quote s = Some (dq s).
Proof.
  unfold plain, go_quote, dq. intros H.
  assert (E : opt_all (map quote_byte s) = Some (map (fun c => [c]) s)).
  { induction s as [|c s IH]; [reflexivity|]. cbn [forallb] in H. apply andb_true_iff in H. destruct H as [Hc H].
    cbn [map opt_all]. rewrite (IH H).
    assert (Eq : quote_byte c = Some [c]).
    { unfold plain_b in Hc. unfold quote_byte.
      destruct (N.leb_spec 128 c); [lia|]. destruct (N.eqb_spec c 34); [subst; discriminate Hc|].
      destruct (N.eqb_spec c 92); [subst; discriminate Hc|].
      destruct (N.leb_spec 32 c); [|discriminate Hc]. destruct (N.ltb_spec c 127); [reflexivity|]. cbn in Hc. discriminate Hc. }
    rewrite Eq. reflexivity. }
  rewrite E. f_equal. cbn [app]. f_equal. f_equal. clear. induction s as [|c s IH]; [reflexivity|]. cbn [map concat_b app]. f_equal. exact IH.
Qed.

Lemma strip_sp s : strip_one space_encs (32 :: s) = Some s.
Proof. reflexivity. Qed.
Lemma trim_space_sp s : trim_space (32 :: s) = trim_space s.
Proof. unfold trim_space, trim_left. cbn [length ltrim]. rewrite strip_sp. reflexivity. Qed.

Lemma last_index_none c s : no_byte c s -> last_index_of c s = None.
Proof.
  unfold no_byte. induction s as [|x s IH]; [reflexivity|]. cbn [forallb last_index_of]. intros H.
  apply andb_true_iff in H. destruct H as [Hx H]. rewrite (IH H). apply negb_true_iff in Hx. rewrite Hx. reflexivity.
Qed.
Lemma last_index_app c a b2 : no_byte c b2 -> last_index_of c (a ++ c :: b2) = Some (length a).
Proof.
  intros H. induction a as [|x a IH].
  - cbn [app last_index_of length]. rewrite (last_index_none c b2 H), N.eqb_refl. reflexivity.
  - cbn [app last_index_of length]. rewrite IH. reflexivity.
Qed.
Lemma take_app_len (a b2 : bstr) : take (length a) (a ++ b2) = a.
Proof. induction a as [|x a IH]; [destruct b2; reflexivity|]. cbn [length app take]. f_equal. exact IH. Qed.
Lemma drop_app_len (a b2 : bstr) : drop (length a) (a ++ b2) = b2.
Proof. induction a as [|x a IH]; [reflexivity|]. cbn [length app drop]. exact IH. Qed.

Lemma drop_S_app (a : bstr) c b2 : drop (S (length a)) (a ++ c :: b2) = b2.
Proof. induction a as [|x a IH]; [reflexivity|]. cbn [length app]. exact IH. Qed.

Section WfMirror.
Variable lexq : bstr -> list tok.
Variable nameok : bstr -> Prop.
Notation wf_body := (wf_body lexq nameok).
Notation wf_cmd := (wf_cmd lexq nameok).

Fixpoint wf_conds (m : bool) (p : N) (first : bool) (l : list node) : Prop :=
  match l with
  | [] => first = false
  | NIfCond q (Some c) x :: r => q = p /\ wf_expr c /\ wf_body m x /\ wf_conds m p false r
  | NIfCond q None x :: r => first = false /\ q = p /\ wf_body m x /\ r = []
  | _ :: _ => False
  end.
Fixpoint wf_cases (m : bool) (l : list node) : Prop :=
  match l with
  | [] => True
  | NSwitchCase _ vals x :: r => allP wf_expr vals /\ (vals = [] -> r = []) /\ wf_body m x /\ wf_cases m r
  | _ :: _ => False
  end.
Fixpoint wf_params (m : bool) (l : list node) : Prop :=
  match l with
  | [] => True
  | NParamValue _ _ v :: r => wf_expr v /\ wf_params m r
  | NParamContent _ _ x :: r => wf_body m x /\ wf_params m r
  | _ :: _ => False
  end.
Lemma wf_cmd_call m p name alldata data params : wf_cmd m (NCall p name alldata data params) <->
  call_name_ok name /\ nameok name /\
  match data with
  | Some d => alldata = false /\ quoted_ok lexq d /\ plain (printed d) /\ printed d <> v_all
  | None => True
  end /\ wf_params m params.
Proof.
  cbn [CmdSyntax.wf_cmd]. do 3 (apply and_iff_compat_l). induction params as [|c r IH]; [reflexivity|].
  destruct c; try reflexivity; cbn [wf_params]; rewrite <- IH; reflexivity.
Qed.
Lemma wf_cmd_switch m p v cases : wf_cmd m (NSwitch p v cases) <-> m = false /\ wf_expr v /\ wf_cases m cases.
Proof.
  cbn [CmdSyntax.wf_cmd]. do 2 (apply and_iff_compat_l). induction cases as [|c r IH]; [reflexivity|].
  destruct c; try reflexivity. cbn [wf_cases]. rewrite <- IH. reflexivity.
Qed.

Lemma cmd_toks_if p conds : cmd_toks (NIf p conds) = if_toks p true conds ++ close_tag pit_IfEnd.
Proof.
  cbn [cmd_toks]. f_equal. generalize true. induction conds as [|c r IH]; intros first; [reflexivity|].
  destruct c; try apply IH. destruct cond; cbn [if_toks]; rewrite <- IH; reflexivity.
Qed.
Lemma wf_cmd_if m p conds : wf_cmd m (NIf p conds) <-> m = false /\ wf_conds m p true conds.
Proof.
  cbn [CmdSyntax.wf_cmd]. apply and_iff_compat_l. generalize true. induction conds as [|c r IH]; intros first; [reflexivity|].
  destruct c; try reflexivity. destruct cond; cbn [wf_conds].
  - rewrite <- IH. reflexivity.
  - reflexivity.
Qed.

Lemma wf_conds_cons m p first c0 r : wf_conds m p first (c0 :: r) ->
  exists cd x, c0 = NIfCond p cd x /\ wf_body m x /\
    match cd with Some c => wf_expr c /\ wf_conds m p false r | None => first = false /\ r = [] end.
Proof.
  destruct c0; try contradiction. destruct cond; cbn [wf_conds].
  - intros (-> & H1 & H2 & H3). do 2 eexists. split; [reflexivity|]. auto.
  - intros (H0 & -> & H2 & H3). do 2 eexists. split; [reflexivity|]. auto.
Qed.

End WfMirror.

(* ---- size: [csize] is in Proofs/CmdRoundtripMsg.v ---- *)
Lemma csize_if_cons p c r : csize (NIf p (c :: r)) = S (csize c + list_sum (map csize r)).
Proof. reflexivity. Qed.

(* ---- until lists that no command of a body can be mistaken for ---- *)
Definition start_types : list N := expr_start_types ++ [pit_Debugger; pit_Log; pit_Let; pit_If; pit_For; pit_Switch; pit_Call; pit_Css; pit_Msg; pit_Plural].
Definition good_until (until : list N) : bool :=
  negb (one_of pit_LeftDelim until) && negb (one_of pit_Text until) && forallb (fun ty => negb (one_of ty until)) start_types.

Lemma good_until_ld until : good_until until = true -> one_of pit_LeftDelim until = false.
Proof. unfold good_until. intros H. apply andb_true_iff in H. destruct H as [H _]. apply andb_true_iff in H. destruct H as [H _]. now apply negb_true_iff in H. Qed.
Lemma good_until_text until : good_until until = true -> one_of pit_Text until = false.
Proof. unfold good_until. intros H. apply andb_true_iff in H. destruct H as [H _]. apply andb_true_iff in H. destruct H as [_ H]. now apply negb_true_iff in H. Qed.
Lemma good_until_start until ty : good_until until = true -> In ty start_types -> one_of ty until = false.
Proof.
  unfold good_until. intros H Hin. apply andb_true_iff in H. destruct H as [_ H].
  rewrite forallb_forall in H. specialize (H ty Hin). now apply negb_true_iff in H.
Qed.
Lemma mem_In c l : mem c l = true -> In c l.
Proof. unfold mem. rewrite existsb_exists. intros (x & Hx & E). apply N.eqb_eq in E. now subst. Qed.

Ltac norm_app := repeat (rewrite <- !app_assoc; cbn [app]).

Lemma last_is_default_snoc l q v vs x : last_is_default (l ++ [NSwitchCase q (v :: vs) x]) = false.
Proof. unfold last_is_default. rewrite rev_app_distr. reflexivity. Qed.

Section Main.
Variable ns : bstr.
Variable al : list (bstr * bstr).
Variable inlen : N.
Variable lexq : bstr -> list tok.
Variable unq : bstr -> option bstr.
Variable efuel : list tok -> nat.
(* contracts of the external functions (see Proofs/CmdRoundtripCall.v) *)
Hypothesis efuel_ok : forall ts e rest, Parses 0 ts e rest -> exists p', parse_expr (efuel ts) 0 (pst_init ts) = POk e p'.
(* strconv.Unquote inverts strconv.Quote (fmt's %q), on the strings of the printer model's domain *)
Hypothesis unq_quote : forall s q, go_quote s = Some q -> unq q = Some s.

(* the names that {call} resolves to themselves under the file's namespace and aliases *)
Definition nameok (nm : bstr) : Prop := forall s, c_ns s = ns -> c_al s = al -> resolve_name s nm = nm.

Notation Body := (Body ns al inlen lexq unq efuel).
Notation Loop := (Loop ns al inlen lexq unq efuel).
Notation Tag := (Tag ns al inlen lexq unq efuel).
Notation IfLoop := (IfLoop ns al inlen lexq unq efuel).
Notation IfCont := (IfCont ns al inlen lexq unq efuel).
Notation CaseRun := (CaseRun ns al inlen lexq unq efuel).
Notation SwLoop := (SwLoop ns al inlen lexq unq efuel).
Notation wf_body := (wf_body lexq nameok).
Notation wf_cmd := (wf_cmd lexq nameok).
Notation wf_conds := (wf_conds lexq nameok).
Notation wf_cases := (wf_cases lexq nameok).
Notation wf_params := (wf_params lexq nameok).
Notation ParamsRun := (ParamsRun ns al inlen lexq unq efuel).

(* the statements proved together *)
Definition BodyOK (m : bool) (x : node) : Prop :=
  wf_body m x -> forall until u rest, good_until until = true -> one_of (t_typ u) until = true ->
  Body m until (body_toks x ++ T_ldelim :: u :: rest) x u rest.
Definition CmdOK (m : bool) (c : node) : Prop :=
  wf_cmd m c -> is_rawtext c = false -> forall l2,
  exists k l, cmd_toks c ++ l2 = T_ldelim :: k :: l /\ In (t_typ k) start_types /\ Tag m (k :: l) c l2.

Section Step.
Variable n : nat.
Hypothesis IHB : forall m x, (csize x <= n)%nat -> BodyOK m x.
Hypothesis IHC : forall m c, (csize c <= n)%nat -> CmdOK m c.

(* the list of a body *)
Lemma loop_chain m until u rest : good_until until = true -> one_of (t_typ u) until = true ->
  forall cs acc pos, allP (wf_cmd m) cs -> no_adjacent_text cs -> (forall c, In c cs -> (csize c <= n)%nat) ->
  Loop m until pos acc (concat (map cmd_toks cs) ++ T_ldelim :: u :: rest)
       (NList (match pos with Some p => p | None => first_pos (concat (map cmd_toks cs) ++ [T_ldelim]) end) (acc ++ cs)) u rest.
Proof.
  intros Hg Hu. induction cs as [|c r IH]; intros acc pos Hw Hadj Hsz.
  - cbn [map concat app]. rewrite app_nil_r.
    replace (match pos with Some p => p | None => first_pos [T_ldelim] end) with (pos_or pos T_ldelim) by (destruct pos; reflexivity).
    apply Loop_halt; [reflexivity | apply good_until_ld, Hg | exact Hu].
  - destruct Hw as [Hwc Hw]. destruct Hadj as [Hadj1 Hadj].
    assert (Hszr : forall c', In c' r -> (csize c' <= n)%nat) by (intros c' H'; apply Hsz; now right).
    cbn [map concat]. rewrite <- app_assoc.
    destruct (is_rawtext c) eqn:Ert.
    + destruct c; try discriminate Ert. cbn [cmd_toks app]. destruct Hwc as [Hne Hrun].
      (* the item after the text *)
      assert (Hnx : exists nx l', concat (map cmd_toks r) ++ T_ldelim :: u :: rest = nx :: l' /\ t_typ nx = pit_LeftDelim).
      { destruct r as [|c' r'].
        - cbn [map concat app]. do 2 eexists. split; reflexivity.
        - destruct Hw as [Hwc' _]. cbn [is_rawtext andb] in Hadj1.
          destruct (IHC m c' (Hszr c' (or_introl eq_refl)) Hwc' Hadj1 (concat (map cmd_toks r') ++ T_ldelim :: u :: rest)) as (k' & l' & E' & _).
          cbn [map concat]. rewrite <- app_assoc, E'. do 2 eexists. split; reflexivity. }
      destruct Hnx as (nx & l' & Enx & Hnxt). specialize (IH (acc ++ [NRawText p text]) (Some (pos_or pos (tk pit_Text p text))) Hw Hadj Hszr).
      rewrite Enx in *. rewrite <- app_assoc in IH. cbn [app] in IH.
      replace (match pos with Some p0 => p0 | None => first_pos ((tk pit_Text p text :: nx :: l') ++ [T_ldelim]) end)
        with (pos_or pos (tk pit_Text p text)) by (destruct pos; reflexivity).
      eapply Loop_text with (tv := text); [reflexivity | apply good_until_text, Hg | | | exact Hrun | exact Hne | exact IH].
      * rewrite Hnxt. vm_compute. discriminate.
      * rewrite Hnxt. vm_compute. discriminate.
    + destruct (IHC m c (Hsz c (or_introl eq_refl)) Hwc Ert (concat (map cmd_toks r) ++ T_ldelim :: u :: rest)) as (k & l & E & Hst & HT).
      destruct (IHC m c (Hsz c (or_introl eq_refl)) Hwc Ert []) as (k0 & l0 & E0 & _). rewrite app_nil_r in E0.
      assert (Hfp : forall X, first_pos ((cmd_toks c ++ X) ++ [T_ldelim]) = 0) by (intros; rewrite E0; reflexivity).
      rewrite Hfp. rewrite E. specialize (IH (acc ++ [c]) (Some (pos_or pos T_ldelim)) Hw Hadj Hszr). rewrite <- app_assoc in IH. cbn [app] in IH.
      change (match pos with Some p => p | None => 0 end) with (pos_or pos T_ldelim).
      eapply Loop_tag; [reflexivity | apply good_until_ld, Hg | apply (good_until_start _ _ Hg Hst) | exact HT | exact IH].
Qed.

Lemma body_step m x : (csize x <= S n)%nat -> BodyOK m x.
Proof.
  intros Hsz Hwf until u rest Hg Hu. destruct x; try contradiction. destruct Hwf as (Hp & Hw & Hadj).
  cbn [body_toks]. apply Body_of_Loop.
  assert (Hin : forall c, In c nodes -> (csize c <= n)%nat).
  { intros c Hc. cbn [csize] in Hsz. pose proof (list_sum_In csize c nodes Hc). lia. }
  pose proof (loop_chain m until u rest Hg Hu nodes [] None Hw Hadj Hin) as HL. cbn [app] in HL.
  replace (first_pos (concat (map cmd_toks nodes) ++ [T_ldelim])) with p in HL; [exact HL|].
  rewrite Hp. destruct (concat (map cmd_toks nodes)) eqn:E; [|reflexivity].
  (* an empty item sequence: the list is empty, its position is that of "{" *)
  reflexivity.
Qed.

(* the conditions of an {if} after the first *)
Lemma if_rest p l2 : forall r done, wf_conds false p false r -> (forall c, In c r -> (csize c <= S n)%nat) ->
  exists u l2', if_toks p false r ++ close_tag pit_IfEnd ++ l2 = T_ldelim :: u :: l2' /\ one_of (t_typ u) u_if = true /\
    IfCont p done false u l2' (NIf p (done ++ r)) l2.
Proof.
  induction r as [|c0 r IH]; intros done Hw Hsz.
  - cbn [if_toks app close_tag]. do 2 eexists. split; [reflexivity|]. split; [reflexivity|].
    right. right. split; [reflexivity|]. exists T_rdelim. rewrite app_nil_r. repeat split; reflexivity.
  - destruct (wf_conds_cons _ _ _ _ _ _ _ Hw) as (cd & x & -> & Hwx & Hcd). destruct cd as [c|].
    + destruct Hcd as [Hwc Hwr]. cbn [if_toks app]. do 2 eexists. split; [reflexivity|]. split; [reflexivity|].
      left. split; [reflexivity|].
      assert (Hszr : forall c', In c' r -> (csize c' <= S n)%nat) by (intros c' H'; apply Hsz; now right).
      destruct (IH (done ++ [NIfCond p (Some c) x]) Hwr Hszr) as (u' & l2' & E' & Hu' & HC').
      rewrite <- app_assoc in HC'. cbn [app] in HC'.
      norm_app. rewrite E'.
      eapply IfLoop_cond with (c := c) (rd := T_rdelim); [| reflexivity | | exact HC'].
      * apply parse_show; [exact Hwc | reflexivity].
      * apply IHB; [|exact Hwx | reflexivity | exact Hu'].
        specialize (Hsz _ (or_introl eq_refl)). cbn [csize] in Hsz. lia.
    + destruct Hcd as [_ ->]. cbn [if_toks app]. do 2 eexists. split; [reflexivity|]. split; [reflexivity|].
      right. left. split; [reflexivity|].
      norm_app. cbn [close_tag app].
      eapply IfLoop_else with (rd := T_rdelim) (u := kw pit_IfEnd 0); [reflexivity | |].
      * apply IHB; [|exact Hwx | reflexivity | reflexivity].
        specialize (Hsz _ (or_introl eq_refl)). cbn [csize] in Hsz. lia.
      * right. right. split; [reflexivity|]. exists T_rdelim. repeat split; reflexivity.
Qed.

Lemma ok_print m p arg dirs : CmdOK m (NPrint p arg dirs).
Proof.
  intros Hwf Hrt l2. destruct Hwf as [Hwp Hp]. pose proof Hwp as [Hwa Hwd].
  destruct (show_starts_expression sty_min arg Hwa [0%nat] (sty_min [0%nat])) as (x & lx & Ex & Hx).
  assert (E : exists l, tokens_of_print (NPrint p arg dirs) ++ l2 = x :: l).
  { unfold tokens_of_print. cbn [show_print]. rewrite Ex. cbn [app]. eexists. reflexivity. }
  destruct E as (l & E). exists x, l. cbn [cmd_toks app]. rewrite E. split; [reflexivity|]. split.
  - apply in_or_app. left. apply mem_In, Hx.
  - eapply Tag_print; [exact Hwp | exact Hp | exact E].
Qed.

Lemma ok_log m p x : (csize (NLog p x) <= S n)%nat -> CmdOK m (NLog p x).
Proof.
  intros Hsz Hwf Hrt l2. cbn [cmd_toks app]. do 2 eexists. split; [reflexivity|]. split; [cbn; tauto|].
  norm_app. cbn [close_tag app].
  eapply Tag_log with (u := kw pit_LogEnd 0) (rd2 := T_rdelim); [reflexivity | reflexivity | reflexivity |].
  apply IHB; [cbn [csize] in Hsz; lia | exact Hwf | reflexivity | reflexivity].
Qed.

Lemma ok_debugger m p : CmdOK m (NDebugger p).
Proof.
  intros Hwf Hrt l2. cbn [cmd_toks app]. do 2 eexists. split; [reflexivity|]. split; [cbn; tauto|].
  apply Tag_debugger; reflexivity.
Qed.

Lemma ok_if m p conds : (csize (NIf p conds) <= S n)%nat -> CmdOK m (NIf p conds).
Proof.
  intros Hsz Hwf Hrt l2.
  apply wf_cmd_if in Hwf. destruct Hwf as [-> Hwf]. rewrite cmd_toks_if. destruct conds as [|c0 r]; [discriminate Hwf|].
  destruct (wf_conds_cons _ _ _ _ _ _ _ Hwf) as (cd & body & -> & Hwx & Hcd).
  destruct cd as [c|]; [|destruct Hcd as [Hf _]; discriminate Hf].
  destruct Hcd as [Hwc Hwr]. cbn [if_toks app]. do 2 eexists. split; [reflexivity|]. split; [cbn; tauto|].
  rewrite csize_if_cons in Hsz.
  assert (Hszr : forall c', In c' r -> (csize c' <= S n)%nat).
  { intros c' H'. pose proof (list_sum_In csize c' r H'). lia. }
  destruct (if_rest p l2 r [NIfCond p (Some c) body] Hwr Hszr) as (u' & l2' & E' & Hu' & HC').
  cbn [app] in HC'. norm_app. rewrite E'.
  apply Tag_if; [reflexivity|]. cbn [t_pos kw tk].
  eapply IfLoop_cond with (c := c) (rd := T_rdelim) (conds := []); [| reflexivity | | exact HC'].
  - apply parse_show; [exact Hwc | reflexivity].
  - apply IHB; [|exact Hwx | reflexivity | exact Hu'].
    cbn [csize] in Hsz. lia.
Qed.

Lemma ok_for m p var lst x ie : (csize (NFor p var lst x ie) <= S n)%nat -> CmdOK m (NFor p var lst x ie).
Proof.
  intros Hsz Hwf Hrt l2.
  destruct Hwf as (-> & (Hwl & _) & Hwx & Hwie). cbn [cmd_toks app]. do 2 eexists. split; [reflexivity|]. split; [cbn; tauto|].
  destruct ie as [y|].
  - norm_app. cbn [close_tag app].
    eapply Tag_for with (c := 36) (rd := T_rdelim) (u := kw pit_Ifempty 0);
      [reflexivity | reflexivity | reflexivity | reflexivity | reflexivity | | reflexivity | |].
    + apply parse_show; [exact Hwl | reflexivity].
    + apply IHB; [cbn [csize] in Hsz; lia | exact Hwx | reflexivity | reflexivity].
    + left. split; [reflexivity|]. exists T_rdelim. do 2 eexists. exists (kw pit_ForEnd 0), T_rdelim.
      split; [reflexivity|]. split; [reflexivity|]. split; [|split; reflexivity].
      apply IHB; [cbn [csize] in Hsz; lia | exact Hwie | reflexivity | reflexivity].
  - norm_app. cbn [close_tag app].
    eapply Tag_for with (c := 36) (rd := T_rdelim) (u := kw pit_ForEnd 0);
      [reflexivity | reflexivity | reflexivity | reflexivity | reflexivity | | reflexivity | |].
    + apply parse_show; [exact Hwl | reflexivity].
    + apply IHB; [cbn [csize] in Hsz; lia | exact Hwx | reflexivity | reflexivity].
    + right. split; [vm_compute; discriminate|]. exists T_rdelim. repeat split; reflexivity.
Qed.

Lemma ok_let_value m p name e : CmdOK m (NLetValue p name e).
Proof.
  intros Hwf Hrt l2. cbn [cmd_toks app]. do 2 eexists. split; [reflexivity|]. split; [cbn; tauto|].
  norm_app.
  eapply Tag_let_value with (c := 36) (rde := T_rdelim_end); [reflexivity | reflexivity | reflexivity | reflexivity | reflexivity |].
  apply parse_show; [exact Hwf | reflexivity].
Qed.

Lemma ok_let_content m p name x : (csize (NLetContent p name x) <= S n)%nat -> CmdOK m (NLetContent p name x).
Proof.
  intros Hsz Hwf Hrt l2. cbn [cmd_toks app]. do 2 eexists. split; [reflexivity|]. split; [cbn; tauto|].
  norm_app. cbn [close_tag app].
  eapply Tag_let_content with (c := 36) (u := kw pit_LetEnd 0) (rd2 := T_rdelim); [reflexivity | reflexivity | reflexivity | reflexivity | reflexivity |].
  apply IHB; [cbn [csize] in Hsz; lia | exact Hwf | reflexivity | reflexivity].
Qed.

(* ---- {switch} ---- *)
(* the values of a {case}: e1, e2, ... } body *)
Lemma case_vals m t x u l2 : t_typ t <> pit_Default ->
  Body m u_case (body_toks x ++ T_ldelim :: u :: l2) x u l2 ->
  forall vals done, vals <> [] -> allP wf_expr vals ->
  CaseRun m t done (sep_join [T_comma] (map tokens_of vals) ++ T_rdelim :: body_toks x ++ T_ldelim :: u :: l2)
          (NSwitchCase (t_pos t) (done ++ vals) x) (u :: l2).
Proof.
  intros Ht HB. induction vals as [|v vs IH]; intros done Hne Hw; [contradiction Hne; reflexivity|].
  destruct Hw as [Hwv Hw]. destruct vs as [|v2 vs].
  - cbn [map sep_join]. eapply Case_last with (rd := T_rdelim); [exact Ht | | reflexivity | exact HB].
    apply parse_show; [exact Hwv | reflexivity].
  - change (sep_join [T_comma] (map tokens_of (v :: v2 :: vs))) with (tokens_of v ++ [T_comma] ++ sep_join [T_comma] (map tokens_of (v2 :: vs))).
    norm_app. eapply Case_more with (v := v) (c := T_comma); [exact Ht | | reflexivity |].
    + apply parse_show; [exact Hwv | reflexivity].
    + specialize (IH (done ++ [v]) ltac:(discriminate) Hw). rewrite <- app_assoc in IH. exact IH.
Qed.

Lemma sw_chain m p endt v l2 : (endt = pit_SwitchEnd \/ endt = pit_PluralEnd) ->
  forall cases done, wf_cases m cases -> (forall c, In c cases -> (csize c <= S n)%nat) ->
  (cases <> [] -> last_is_default done = false) ->
  exists u l', sw_toks cases ++ close_tag endt ++ l2 = T_ldelim :: u :: l' /\ one_of (t_typ u) u_case = true /\
    SwLoop m p endt v done (u :: l') (NSwitch p v (done ++ cases)) l2.
Proof.
  intros He. induction cases as [|c r IH]; intros done Hw Hsz Hld.
  - cbn [sw_toks app close_tag]. do 2 eexists. split; [reflexivity|]. split; [destruct He as [-> | ->]; reflexivity|].
    rewrite app_nil_r. apply SwLoop_end; [reflexivity | exact He | reflexivity].
  - destruct c; try (exfalso; exact Hw). destruct Hw as (Hwv & Hlast & Hwx & Hwr). rename c into body.
    assert (Hszx : (csize body <= n)%nat) by (specialize (Hsz _ (or_introl eq_refl)); cbn [csize] in Hsz; lia).
    assert (Hszr : forall c', In c' r -> (csize c' <= S n)%nat) by (intros c' H'; apply Hsz; now right).
    specialize (Hld ltac:(discriminate)).
    destruct values as [|v1 vs].
    + (* {default}: the last case *)
      rewrite (Hlast eq_refl) in *. cbn [sw_toks app]. do 2 eexists. split; [reflexivity|]. split; [reflexivity|].
      destruct (IH (done ++ [NSwitchCase p0 [] body]) I Hszr ltac:(intros H; contradiction H; reflexivity)) as (u' & l'' & E' & Hu' & HL').
      rewrite <- app_assoc in HL'. cbn [app] in HL'.
      norm_app. cbn [sw_toks app] in E'. cbn [app]. rewrite E'.
      eapply SwLoop_case; [right; reflexivity | exact Hld | | exact HL'].
      change p0 with (t_pos (kw pit_Default p0)).
      eapply Case_default; [reflexivity | reflexivity |].
      apply IHB; [exact Hszx | exact Hwx | reflexivity | exact Hu'].
    + cbn [sw_toks]. set (vals := v1 :: vs) in *. cbn [app]. do 2 eexists. split; [reflexivity|]. split; [reflexivity|].
      destruct (IH (done ++ [NSwitchCase p0 vals body]) Hwr Hszr ltac:(intros _; apply last_is_default_snoc)) as (u' & l'' & E' & Hu' & HL').
      rewrite <- app_assoc in HL'. cbn [app] in HL'.
      norm_app. rewrite E'.
      eapply SwLoop_case; [left; reflexivity | exact Hld | | exact HL'].
      change p0 with (t_pos (kw pit_Case p0)).
      apply (case_vals m (kw pit_Case p0) body u' l'' ltac:(vm_compute; discriminate)
               ltac:(apply IHB; [exact Hszx | exact Hwx | reflexivity | exact Hu']) vals [] ltac:(discriminate) Hwv).
Qed.

Lemma ok_switch m p v cases : (csize (NSwitch p v cases) <= S n)%nat -> CmdOK m (NSwitch p v cases).
Proof.
  intros Hsz Hwf Hrt l2. apply wf_cmd_switch in Hwf. destruct Hwf as (-> & Hwv & Hwc).
  rewrite cmd_toks_switch. cbn [app]. do 2 eexists. split; [reflexivity|]. split; [cbn; tauto|].
  assert (Hszr : forall c', In c' cases -> (csize c' <= S n)%nat).
  { intros c' H'. cbn [csize] in Hsz. pose proof (list_sum_In csize c' cases H'). lia. }
  destruct (sw_chain false p pit_SwitchEnd v l2 (or_introl eq_refl) cases [] Hwc Hszr ltac:(reflexivity)) as (u & l' & E & Hu & HL).
  cbn [app] in HL. norm_app. rewrite E.
  eapply Tag_switch with (v := v) (rd := T_rdelim); [reflexivity | | reflexivity |].
  - apply parse_show; [exact Hwv | reflexivity].
  - apply SwLoop_ld; [reflexivity | exact HL].
Qed.

(* ---- {call} ---- *)
Lemma params_chain m l2 : forall params done, wf_params m params -> (forall c, In c params -> (csize c <= S n)%nat) ->
  ParamsRun m done (params_toks params ++ close_tag pit_CallEnd ++ l2) (done ++ params) (close_tag pit_CallEnd ++ l2).
Proof.
  induction params as [|c r IH]; intros done Hw Hsz.
  - cbn [params_toks app close_tag]. rewrite app_nil_r. apply Params_end; [exact efuel_ok | reflexivity | reflexivity].
  - assert (Hszr : forall c', In c' r -> (csize c' <= S n)%nat) by (intros c' H'; apply Hsz; now right).
    destruct c; try (exfalso; exact Hw).
    + destruct Hw as [Hwv Hwr]. cbn [params_toks app]. norm_app.
      specialize (IH (done ++ [NParamValue p key c]) Hwr Hszr). rewrite <- app_assoc in IH. cbn [app] in IH.
      eapply Params_value with (ld := tk pit_LeftDelim p [123]) (key := tk pit_Ident 0 key) (rde := T_rdelim_end);
        [exact efuel_ok | reflexivity | reflexivity | reflexivity | reflexivity | | reflexivity | exact IH].
      apply parse_show; [exact Hwv | reflexivity].
    + destruct Hw as [Hwx Hwr]. cbn [params_toks app]. norm_app. cbn [close_tag app].
      specialize (IH (done ++ [NParamContent p key c]) Hwr Hszr). rewrite <- app_assoc in IH. cbn [app] in IH.
      eapply Params_content with (ld := tk pit_LeftDelim p [123]) (key := tk pit_Ident 0 key) (u := kw pit_ParamEnd 0) (rd2 := T_rdelim);
        [exact efuel_ok | reflexivity | reflexivity | reflexivity | reflexivity | | reflexivity | exact IH].
      apply IHB; [|exact Hwx | reflexivity | reflexivity].
      specialize (Hsz _ (or_introl eq_refl)). cbn [csize] in Hsz. lia.
Qed.

Lemma ok_call m p name alldata data params : (csize (NCall p name alldata data params) <= S n)%nat -> CmdOK m (NCall p name alldata data params).
Proof.
  intros Hsz Hwf Hrt l2. apply wf_cmd_call in Hwf. destruct Hwf as (Hnm & Hres & Hdata & Hwp).
  destruct Hnm as (first & r1 & segs & Hsp & Hf).
  assert (En : name = first ++ r1 ++ List.concat segs).
  { pose proof (split_dots_concat name []) as Hc. rewrite Hsp in Hc. cbn [List.concat app] in Hc. symmetry. exact Hc. }
  rewrite cmd_toks_call. cbn [app]. do 2 eexists. split; [reflexivity|]. split; [cbn; tauto|].
  assert (Hall : unq (dq v_all) = Some v_all) by (apply unq_quote, go_quote_plain; vm_compute; reflexivity).
  assert (Hcd : call_data lexq unq
                  (if alldata then attr_toks v_data (dq v_all) else match data with Some d => attr_toks v_data (dq (printed d)) | None => [] end)
                  alldata (if alldata then None else data) /\ (if alldata then None else data) = data).
  { destruct alldata.
    - split; [apply cd_all, Hall|]. destruct data as [d|]; [destruct Hdata as [E _]; discriminate E|reflexivity].
    - split; [|reflexivity]. destruct data as [d|]; [|apply cd_none].
      destruct Hdata as (_ & (Hwd & sd & t & Hpr & Hlex & Hcl) & Hpl & Hne).
      apply cd_expr with (rest := [t]); [apply unq_quote, go_quote_plain, Hpl | exact Hne |].
      unfold printed. rewrite Hpr, Hlex. apply parse_show; [exact Hwd | exact Hcl]. }
  destruct Hcd as [Hcd Ed]. rewrite Ed in Hcd. clear Ed.
  unfold call_name_toks. rewrite <- app_assoc. subst name.
  destruct params as [|c r].
  - norm_app. apply Tag_call_self; [exact efuel_ok | reflexivity | exact Hf | exact Hsp | exact Hcd | reflexivity | reflexivity | exact Hres].
  - set (params := c :: r) in *. change (match params with [] => [T_rdelim_end] | _ :: _ => [T_rdelim] ++ params_toks params ++ close_tag pit_CallEnd end)
      with ([T_rdelim] ++ params_toks params ++ close_tag pit_CallEnd). norm_app.
    assert (Hszp : forall c', In c' params -> (csize c' <= S n)%nat).
    { intros c' H'. cbn [csize] in Hsz. pose proof (list_sum_In csize c' params H'). lia. }
    pose proof (params_chain m l2 params [] Hwp Hszp) as HPR. cbn [app] in HPR.
    eapply Tag_call_params with (ld := T_ldelim) (ce := kw pit_CallEnd 0) (rd := T_rdelim);
      [exact efuel_ok | reflexivity | exact Hf | exact Hsp | exact Hcd | reflexivity | reflexivity | exact Hres | exact HPR | reflexivity | reflexivity | reflexivity].
Qed.

(* ---- {msg} ---- *)
Lemma ok_msg m p id meaning desc children : (csize (NMsg p id meaning desc children) <= S n)%nat -> CmdOK m (NMsg p id meaning desc children).
Proof.
  intros Hsz Hwf Hrt l2. destruct (proj1 (wf_cmd_msg lexq nameok _ _ _ _ _ _) Hwf) as (Em & Eid & Hqm & Hqd & Hwc & Honly). subst m id. clear Hwf.
  rewrite cmd_toks_msg. cbn [app]. do 2 eexists. split; [reflexivity|]. split; [cbn; tauto|].
  destruct (unplz_all lexq nameok _ children [] (le_n _) Hwc) as (Etoks0 & Eplz & (Hw1 & Hw2) & Hsz0). cbv iota in Hsz0. cbn [app] in Eplz.
  set (ns0 := unplz [] children) in *.
  set (contents := NList (first_pos (List.concat (map cmd_toks ns0))) ns0).
  assert (Hwb : wf_body true contents) by (split; [reflexivity|]; split; assumption).
  assert (Etoks : msg_toks [] children = body_toks contents) by (symmetry; exact Etoks0).
  change ns0 with (children_of contents) in Eplz.
  assert (Hcs : (csize contents <= n)%nat).
  { cbn [csize] in Hsz |- *. unfold contents. cbn [csize]. unfold lsize in Hsz0. lia. }
  assert (Hat : msg_attrs unq ((match meaning with [] => [] | _ :: _ => attr_toks v_meaning (quoted_attr meaning) end) ++ attr_toks v_desc (quoted_attr desc))
                          meaning desc).
  { unfold quoted_attr. destruct (go_quote desc) as [qd|] eqn:Ed; [|contradiction Hqd; reflexivity].
    destruct meaning as [|c0 mn]; [apply ma_desc, unq_quote, Ed|].
    destruct (go_quote (c0 :: mn)) as [qm|] eqn:Em; [|contradiction Hqm; reflexivity].
    apply ma_both; apply unq_quote; assumption. }
  rewrite Etoks. rewrite <- Eplz at 1. norm_app. rewrite (app_assoc _ (attr_toks v_desc (quoted_attr desc))).
  cbn [close_tag app].
  eapply Tag_msg with (u := kw pit_MsgEnd 0) (rd := T_rdelim) (rd2 := T_rdelim);
    [reflexivity | exact Hat | reflexivity | | reflexivity | rewrite Eplz].
  - apply IHB; [exact Hcs | exact Hwb | reflexivity | reflexivity].
  - destruct (existsb is_plural children) eqn:Epl; [|reflexivity]. rewrite (Honly eq_refl). reflexivity.
Qed.

(* ---- {plural} as a command of a body inside a {msg} ---- *)
Lemma wf_pcases_plural : forall cases, wf_pcases (fun l => allP (wf_cmd true) l /\ no_adjacent_text l) cases ->
  forallb is_pcase cases = true /\ forall dflt, allP (wf_cmd true) dflt /\ no_adjacent_text dflt ->
  wf_cases true (map sw_of_case cases ++ [sw_default dflt]).
Proof.
  induction cases as [|c r IH]; intros Hw.
  - split; [reflexivity|]. intros dflt [Hd1 Hd2]. cbn [map app sw_default wf_cases allP]. repeat split; assumption.
  - destruct c; try (exfalso; exact Hw). destruct Hw as (Hv0 & Hv1 & [Hb1 Hb2] & Hr). destruct (IH Hr) as [Hp Hc].
    split; [exact Hp|]. intros dflt Hd. cbn [map app sw_of_case wf_cases allP wf_expr]. repeat split; try assumption; try discriminate.
    apply Hc, Hd.
Qed.

Lemma ok_plural m p nm v cases dflt : (csize (NMsgPlural p nm v cases dflt) <= S n)%nat -> CmdOK m (NMsgPlural p nm v cases dflt).
Proof.
  intros Hsz Hwf Hrt l2. destruct (proj1 (wf_cmd_plural lexq nameok _ _ _ _ _ _) Hwf) as (-> & -> & Hwv & Hwcs & Hwd). clear Hwf.
  destruct (wf_pcases_plural cases Hwcs) as [Hpc Hwsw]. specialize (Hwsw dflt Hwd).
  set (swcs := map sw_of_case cases ++ [sw_default dflt]) in *.
  assert (Hszsw : forall c, In c swcs -> (csize c <= S n)%nat).
  { intros c Hc. cbn [csize] in Hsz. apply in_app_or in Hc. destruct Hc as [Hc|[<-|[]]].
    - apply in_map_iff in Hc. destruct Hc as (c0 & <- & Hc0). rewrite csize_sw_of_case.
      pose proof (list_sum_In csize c0 cases Hc0). lia.
    - cbn [sw_default csize]. lia. }
  destruct (sw_chain true p pit_PluralEnd v l2 (or_intror eq_refl) swcs [] Hwsw Hszsw ltac:(reflexivity)) as (u & l' & E & Hu & HL).
  cbn [app] in HL. unfold swcs in E. rewrite (sw_toks_plural dflt cases Hpc) in E.
  exists (kw pit_Plural p), (tokens_of v ++ T_rdelim :: T_ldelim :: u :: l'). split; [|split; [cbn; tauto|]].
  - rewrite cmd_toks_plural. unfold plural_toks. rewrite <- E. rewrite <- !app_assoc. reflexivity.
  - change p with (t_pos (kw pit_Plural p)) at 2.
    eapply Tag_plural with (rd := T_rdelim) (cs := swcs); [reflexivity | | reflexivity | | ].
    + apply parse_show; [exact Hwv | reflexivity].
    + apply SwLoop_ld; [reflexivity | exact HL].
    + intros s. apply (plural_cases_ok inlen dflt cases [] s Hpc).
Qed.

(* ---- {css} ---- *)
Lemma ok_css m p e suffix : CmdOK m (NCss p e suffix).
Proof.
  intros Hwf Hrt l2. destruct Hwf as (Hno & Htrim & He). cbn [cmd_toks app]. do 2 eexists. split; [reflexivity|]. split; [cbn; tauto|].
  destruct e as [x|].
  - destruct He as ((Hwx & sx & t & Hpr & Hlex & Hcl) & Htx). unfold css_text, printed in *. rewrite Hpr in *.
    pose proof (Tag_css_expr ns al inlen lexq unq efuel efuel_ok m (kw pit_Css p) (tk pit_Text 0 (sx ++ [44; 32] ++ suffix)) T_rdelim l2
                  (length sx) x [t] eq_refl eq_refl eq_refl eq_refl) as HT.
    cbn [t_val tk] in HT. cbn [app] in HT.
    rewrite (last_index_app 44 sx (32 :: suffix)) in HT by (unfold no_byte in *; cbn [forallb]; rewrite Hno; reflexivity).
    specialize (HT eq_refl). change (sx ++ 44 :: 32 :: suffix) with (sx ++ [44] ++ 32 :: suffix) in HT.
    rewrite take_app_len in HT. rewrite Htx in HT. rewrite Hlex in HT.
    specialize (HT (parse_show sty_min [] x t [] Hwx Hcl)).
    change (sx ++ [44] ++ 32 :: suffix) with (sx ++ 44 :: 32 :: suffix) in HT. rewrite drop_S_app in HT.
    rewrite trim_space_sp, Htrim in HT. exact HT.
  - unfold css_text.
    pose proof (Tag_css_plain ns al inlen lexq unq efuel m (kw pit_Css p) (tk pit_Text 0 suffix) T_rdelim l2 eq_refl eq_refl eq_refl
                  (last_index_none 44 suffix Hno)) as HT.
    cbn [t_val tk] in HT. rewrite Htrim in HT. exact HT.
Qed.

Lemma cmd_step m c : (csize c <= S n)%nat -> CmdOK m c.
Proof.
  intros Hsz. destruct c; try (intros Hwf; contradiction Hwf).
  - intros _ Hrt. discriminate Hrt.
  - apply ok_print.
  - apply ok_css.
  - apply ok_log, Hsz.
  - apply ok_debugger.
  - apply ok_if, Hsz.
  - apply ok_for, Hsz.
  - apply ok_switch, Hsz.
  - apply ok_call, Hsz.
  - apply ok_let_value.
  - apply ok_let_content, Hsz.
  - apply ok_msg, Hsz.
  - apply ok_plural, Hsz.
Qed.
End Step.

Theorem body_cmd_ok : forall n, (forall m x, (csize x <= n)%nat -> BodyOK m x) /\ (forall m c, (csize c <= n)%nat -> CmdOK m c).
Proof.
  induction n as [|n [IHB IHC]].
  - split; intros m x Hx; destruct x; cbn [csize] in Hx; lia.
  - split; intros m x; [apply body_step | apply cmd_step]; assumption.
Qed.

(* C17 extended to template bodies: the items of a well-formed body, followed by "{" and an
   item u that ends the list, are read as that body; the parser has then consumed "{" and u *)
Theorem parse_body_roundtrip m x until u rest :
  wf_body m x -> good_until until = true -> one_of (t_typ u) until = true ->
  Body m until (body_toks x ++ T_ldelim :: u :: rest) x u rest.
Proof. intros. apply (proj1 (body_cmd_ok (csize x)) m x (le_n _)); assumption. Qed.
End Main.
