(* C17 at command level, part 4: the round trip of template bodies.  By strong induction on
   the size of the tree, for bodies and commands at once: the items of a well-formed body
   (Spec/CmdSyntax.v), followed by "{" and an item that ends the list, are read by itemList
   as that body. *)
From Soy Require Import Model.Bytes Model.Outcome Model.Ast Model.Token Model.RawText Model.ExprParser Model.Parser Generated.Tables
  Spec.ExprSyntax Spec.CmdSyntax Proofs.ExprParserRules Proofs.ExprParserProofs Proofs.CmdRoundtripBase Proofs.CmdRoundtripRules
  Proofs.CmdRoundtripPrint.
From Coq Require Import Lia.
Open Scope N_scope.

(* ---- top-level mirrors of the local functions of Spec/CmdSyntax.v ---- *)
Fixpoint if_toks (p : N) (first : bool) (l : list node) : list tok :=
  match l with
  | [] => []
  | NIfCond _ (Some c) x :: r =>
      [T_ldelim; kw (if first then pit_If else pit_Elseif) (if first then p else 0)] ++ tokens_of c ++ [T_rdelim] ++ body_toks x ++ if_toks p false r
  | NIfCond _ None x :: r => [T_ldelim; kw pit_Else 0; T_rdelim] ++ body_toks x ++ if_toks p false r
  | _ :: r => if_toks p false r
  end.
Fixpoint wf_conds (p : N) (first : bool) (l : list node) : Prop :=
  match l with
  | [] => first = false
  | NIfCond q (Some c) x :: r => q = p /\ wf_expr c /\ wf_body x /\ wf_conds p false r
  | NIfCond q None x :: r => first = false /\ q = p /\ wf_body x /\ r = []
  | _ :: _ => False
  end.

Lemma cmd_toks_if p conds : cmd_toks (NIf p conds) = if_toks p true conds ++ close_tag pit_IfEnd.
Proof.
  cbn [cmd_toks]. f_equal. generalize true. induction conds as [|c r IH]; intros first; [reflexivity|].
  destruct c; try apply IH. destruct cond; cbn [if_toks]; rewrite <- IH; reflexivity.
Qed.
Lemma wf_cmd_if p conds : wf_cmd (NIf p conds) <-> wf_conds p true conds.
Proof.
  cbn [wf_cmd]. generalize true. induction conds as [|c r IH]; intros first; [reflexivity|].
  destruct c; try reflexivity. destruct cond; cbn [wf_conds].
  - rewrite <- IH. reflexivity.
  - reflexivity.
Qed.

Lemma wf_conds_cons p first c0 r : wf_conds p first (c0 :: r) ->
  exists cd x, c0 = NIfCond p cd x /\ wf_body x /\
    match cd with Some c => wf_expr c /\ wf_conds p false r | None => first = false /\ r = [] end.
Proof.
  destruct c0; try contradiction. destruct cond; cbn [wf_conds].
  - intros (-> & H1 & H2 & H3). do 2 eexists. split; [reflexivity|]. auto.
  - intros (H0 & -> & H2 & H3). do 2 eexists. split; [reflexivity|]. auto.
Qed.

(* ---- size ---- *)
Fixpoint csize (n : node) : nat :=
  match n with
  | NList _ ns => S (list_sum (map csize ns))
  | NLog _ x => S (csize x)
  | NLetContent _ _ x => S (csize x)
  | NIf _ conds => S (list_sum (map csize conds))
  | NIfCond _ _ x => S (csize x)
  | NFor _ _ _ x ie => S (csize x + match ie with Some y => csize y | None => 0 end)
  | _ => 1%nat
  end.

Lemma csize_if_cons p c r : csize (NIf p (c :: r)) = S (csize c + list_sum (map csize r)).
Proof. reflexivity. Qed.

(* ---- until lists that no command of a body can be mistaken for ---- *)
Definition start_types : list N := expr_start_types ++ [pit_Debugger; pit_Log; pit_Let; pit_If; pit_For].
Definition good_until (until : list N) : bool :=
  negb (one_of pit_LeftDelim until) && negb (one_of pit_Text until) && forallb (fun ty => negb (one_of ty until)) start_types.

Lemma good_until_ld until : good_until until = true -> one_of pit_LeftDelim until = false.
Proof. unfold good_until. intros H. apply andb_true_iff in H. destruct H as [H _]. apply andb_true_iff in H. destruct H as [H _]. now apply negb_true_iff in H. Qed.
Lemma good_until_text until : good_until until = true -> one_of pit_Text until = false.
Proof. unfold good_until. intros H. apply andb_true_iff in H. destruct H as [H _]. apply andb_true_iff in H. destruct H as [_ H]. now apply negb_true_iff in H. Qed.
Lemma good_until_start until ty : good_until until = true -> In ty start_types -> one_of ty until = false.
Proof.
  unfold good_until. intros H Hin. apply andb_true_iff in H. destruct H as [_ H].
  rewrite forallb_forall in H. specialize (H ty Hin). now apply negb_true_iff in H.
Qed.
Lemma mem_In c l : mem c l = true -> In c l.
Proof. unfold mem. rewrite existsb_exists. intros (x & Hx & E). apply N.eqb_eq in E. now subst. Qed.

Ltac norm_app := repeat (rewrite <- !app_assoc; cbn [app]).

Section Main.
Variable inlen : N.
Variable lexq : bstr -> list tok.
Variable unq : bstr -> option bstr.
Variable efuel : list tok -> nat.

Notation Body := (Body inlen lexq unq efuel).
Notation Loop := (Loop inlen lexq unq efuel).
Notation Tag := (Tag inlen lexq unq efuel).
Notation IfLoop := (IfLoop inlen lexq unq efuel).
Notation IfCont := (IfCont inlen lexq unq efuel).

(* the statements proved together *)
Definition BodyOK (x : node) : Prop :=
  wf_body x -> forall until u rest, good_until until = true -> one_of (t_typ u) until = true ->
  Body until (body_toks x ++ T_ldelim :: u :: rest) x u rest.
Definition CmdOK (c : node) : Prop :=
  wf_cmd c -> is_rawtext c = false -> forall l2,
  exists k l, cmd_toks c ++ l2 = T_ldelim :: k :: l /\ In (t_typ k) start_types /\ Tag (k :: l) c l2.

Section Step.
Variable n : nat.
Hypothesis IHB : forall x, (csize x <= n)%nat -> BodyOK x.
Hypothesis IHC : forall c, (csize c <= n)%nat -> CmdOK c.

(* the list of a body *)
Lemma loop_chain until u rest : good_until until = true -> one_of (t_typ u) until = true ->
  forall ns acc pos, allP wf_cmd ns -> no_adjacent_text ns -> (forall c, In c ns -> (csize c <= n)%nat) ->
  Loop until pos acc (concat (map cmd_toks ns) ++ T_ldelim :: u :: rest)
       (NList (match pos with Some p => p | None => first_pos (concat (map cmd_toks ns) ++ [T_ldelim]) end) (acc ++ ns)) u rest.
Proof.
  intros Hg Hu. induction ns as [|c r IH]; intros acc pos Hw Hadj Hsz.
  - cbn [map concat app]. rewrite app_nil_r.
    replace (match pos with Some p => p | None => first_pos [T_ldelim] end) with (pos_or pos T_ldelim) by (destruct pos; reflexivity).
    apply Loop_halt; [reflexivity | apply good_until_ld, Hg | exact Hu].
  - destruct Hw as [Hwc Hw]. destruct Hadj as [Hadj1 Hadj].
    assert (Hszr : forall c', In c' r -> (csize c' <= n)%nat) by (intros c' H'; apply Hsz; now right).
    (* what follows c starts with "{" *)
    assert (Hnext : forall l2', exists k' l', concat (map cmd_toks r) ++ T_ldelim :: l2' = T_ldelim :: k' :: l' \/ True).
    { intros. exists T_ldelim, []. now right. }
    clear Hnext.
    cbn [map concat]. rewrite <- app_assoc.
    destruct (is_rawtext c) eqn:Ert.
    + destruct c; try discriminate Ert. cbn [cmd_toks app]. destruct Hwc as [Hne Hrun].
      (* the item after the text *)
      assert (Hnx : exists nx l', concat (map cmd_toks r) ++ T_ldelim :: u :: rest = nx :: l' /\ t_typ nx = pit_LeftDelim).
      { destruct r as [|c' r'].
        - cbn [map concat app]. do 2 eexists. split; reflexivity.
        - destruct Hw as [Hwc' _]. cbn [is_rawtext andb] in Hadj1.
          destruct (IHC c' (Hszr c' (or_introl eq_refl)) Hwc' Hadj1 (concat (map cmd_toks r') ++ T_ldelim :: u :: rest)) as (k' & l' & E' & _).
          cbn [map concat]. rewrite <- app_assoc, E'. do 2 eexists. split; reflexivity. }
      destruct Hnx as (nx & l' & Enx & Hnxt). specialize (IH (acc ++ [NRawText p text]) (Some (pos_or pos (tk pit_Text p text))) Hw Hadj Hszr).
      rewrite Enx in *. rewrite <- app_assoc in IH. cbn [app] in IH.
      replace (match pos with Some p0 => p0 | None => first_pos ((tk pit_Text p text :: nx :: l') ++ [T_ldelim]) end)
        with (pos_or pos (tk pit_Text p text)) by (destruct pos; reflexivity).
      eapply Loop_text with (tv := text); [reflexivity | apply good_until_text, Hg | | | exact Hrun | exact Hne | exact IH].
      * rewrite Hnxt. vm_compute. discriminate.
      * rewrite Hnxt. vm_compute. discriminate.
    + destruct (IHC c (Hsz c (or_introl eq_refl)) Hwc Ert (concat (map cmd_toks r) ++ T_ldelim :: u :: rest)) as (k & l & E & Hst & HT).
      destruct (IHC c (Hsz c (or_introl eq_refl)) Hwc Ert []) as (k0 & l0 & E0 & _). rewrite app_nil_r in E0.
      assert (Hfp : forall X, first_pos ((cmd_toks c ++ X) ++ [T_ldelim]) = 0) by (intros; rewrite E0; reflexivity).
      rewrite Hfp. rewrite E. specialize (IH (acc ++ [c]) (Some (pos_or pos T_ldelim)) Hw Hadj Hszr). rewrite <- app_assoc in IH. cbn [app] in IH.
      change (match pos with Some p => p | None => 0 end) with (pos_or pos T_ldelim).
      eapply Loop_tag; [reflexivity | apply good_until_ld, Hg | apply (good_until_start _ _ Hg Hst) | exact HT | exact IH].
Qed.

Lemma body_step x : (csize x <= S n)%nat -> BodyOK x.
Proof.
  intros Hsz Hwf until u rest Hg Hu. destruct x; try contradiction. destruct Hwf as (Hp & Hw & Hadj).
  cbn [body_toks]. apply Body_of_Loop.
  assert (Hin : forall c, In c nodes -> (csize c <= n)%nat).
  { intros c Hc. cbn [csize] in Hsz. pose proof (list_sum_In csize c nodes Hc). lia. }
  pose proof (loop_chain until u rest Hg Hu nodes [] None Hw Hadj Hin) as HL. cbn [app] in HL.
  replace (first_pos (concat (map cmd_toks nodes) ++ [T_ldelim])) with p in HL; [exact HL|].
  rewrite Hp. destruct (concat (map cmd_toks nodes)) eqn:E; [|reflexivity].
  (* an empty item sequence: the list is empty, its position is that of "{" *)
  reflexivity.
Qed.

(* the conditions of an {if} after the first *)
Lemma if_rest p l2 : forall r done, wf_conds p false r -> (forall c, In c r -> (csize c <= S n)%nat) ->
  exists u l2', if_toks p false r ++ close_tag pit_IfEnd ++ l2 = T_ldelim :: u :: l2' /\ one_of (t_typ u) u_if = true /\
    IfCont p done false u l2' (NIf p (done ++ r)) l2.
Proof.
  induction r as [|c0 r IH]; intros done Hw Hsz.
  - cbn [if_toks app close_tag]. do 2 eexists. split; [reflexivity|]. split; [reflexivity|].
    right. right. split; [reflexivity|]. exists T_rdelim. rewrite app_nil_r. repeat split; reflexivity.
  - destruct (wf_conds_cons _ _ _ _ Hw) as (cd & x & -> & Hwx & Hcd). destruct cd as [c|].
    + destruct Hcd as [Hwc Hwr]. cbn [if_toks app]. do 2 eexists. split; [reflexivity|]. split; [reflexivity|].
      left. split; [reflexivity|].
      assert (Hszr : forall c', In c' r -> (csize c' <= S n)%nat) by (intros c' H'; apply Hsz; now right).
      destruct (IH (done ++ [NIfCond p (Some c) x]) Hwr Hszr) as (u' & l2' & E' & Hu' & HC').
      rewrite <- app_assoc in HC'. cbn [app] in HC'.
      norm_app. rewrite E'.
      eapply IfLoop_cond with (c := c) (rd := T_rdelim); [| reflexivity | | exact HC'].
      * apply parse_show; [exact Hwc | reflexivity].
      * apply IHB; [|exact Hwx | reflexivity | exact Hu'].
        specialize (Hsz _ (or_introl eq_refl)). cbn [csize] in Hsz. lia.
    + destruct Hcd as [_ ->]. cbn [if_toks app]. do 2 eexists. split; [reflexivity|]. split; [reflexivity|].
      right. left. split; [reflexivity|].
      norm_app. cbn [close_tag app].
      eapply IfLoop_else with (rd := T_rdelim) (u := kw pit_IfEnd 0); [reflexivity | |].
      * apply IHB; [|exact Hwx | reflexivity | reflexivity].
        specialize (Hsz _ (or_introl eq_refl)). cbn [csize] in Hsz. lia.
      * right. right. split; [reflexivity|]. exists T_rdelim. repeat split; reflexivity.
Qed.

Lemma ok_print p arg dirs : CmdOK (NPrint p arg dirs).
Proof.
  intros Hwf Hrt l2. destruct Hwf as [Hwp Hp]. pose proof Hwp as [Hwa Hwd].
  destruct (show_starts_expression sty_min arg Hwa [0%nat] (sty_min [0%nat])) as (x & lx & Ex & Hx).
  assert (E : exists l, tokens_of_print (NPrint p arg dirs) ++ l2 = x :: l).
  { unfold tokens_of_print. cbn [show_print]. rewrite Ex. cbn [app]. eexists. reflexivity. }
  destruct E as (l & E). exists x, l. cbn [cmd_toks app]. rewrite E. split; [reflexivity|]. split.
  - apply in_or_app. left. apply mem_In, Hx.
  - eapply Tag_print; [exact Hwp | exact Hp | exact E].
Qed.

Lemma ok_log p x : (csize (NLog p x) <= S n)%nat -> CmdOK (NLog p x).
Proof.
  intros Hsz Hwf Hrt l2. cbn [cmd_toks app]. do 2 eexists. split; [reflexivity|]. split; [cbn; tauto|].
  norm_app. cbn [close_tag app].
  eapply Tag_log with (u := kw pit_LogEnd 0) (rd2 := T_rdelim); [reflexivity | reflexivity | reflexivity |].
  apply IHB; [cbn [csize] in Hsz; lia | exact Hwf | reflexivity | reflexivity].
Qed.

Lemma ok_debugger p : CmdOK (NDebugger p).
Proof.
  intros Hwf Hrt l2. cbn [cmd_toks app]. do 2 eexists. split; [reflexivity|]. split; [cbn; tauto|].
  apply Tag_debugger; reflexivity.
Qed.

Lemma ok_if p conds : (csize (NIf p conds) <= S n)%nat -> CmdOK (NIf p conds).
Proof.
  intros Hsz Hwf Hrt l2.
  apply wf_cmd_if in Hwf. rewrite cmd_toks_if. destruct conds as [|c0 r]; [discriminate Hwf|].
  destruct (wf_conds_cons _ _ _ _ Hwf) as (cd & body & -> & Hwx & Hcd).
  destruct cd as [c|]; [|destruct Hcd as [Hf _]; discriminate Hf].
  destruct Hcd as [Hwc Hwr]. cbn [if_toks app]. do 2 eexists. split; [reflexivity|]. split; [cbn; tauto|].
  rewrite csize_if_cons in Hsz.
  assert (Hszr : forall c', In c' r -> (csize c' <= S n)%nat).
  { intros c' H'. pose proof (list_sum_In csize c' r H'). lia. }
  destruct (if_rest p l2 r [NIfCond p (Some c) body] Hwr Hszr) as (u' & l2' & E' & Hu' & HC').
  cbn [app] in HC'. norm_app. rewrite E'.
  apply Tag_if; [reflexivity|]. cbn [t_pos kw tk].
  eapply IfLoop_cond with (c := c) (rd := T_rdelim) (conds := []); [| reflexivity | | exact HC'].
  - apply parse_show; [exact Hwc | reflexivity].
  - apply IHB; [|exact Hwx | reflexivity | exact Hu'].
    cbn [csize] in Hsz. lia.
Qed.

Lemma ok_for p var lst x ie : (csize (NFor p var lst x ie) <= S n)%nat -> CmdOK (NFor p var lst x ie).
Proof.
  intros Hsz Hwf Hrt l2.
  destruct Hwf as (Hwl & Hwx & Hwie). cbn [cmd_toks app]. do 2 eexists. split; [reflexivity|]. split; [cbn; tauto|].
  destruct ie as [y|].
  - norm_app. cbn [close_tag app].
    eapply Tag_for with (c := 36) (rd := T_rdelim) (u := kw pit_Ifempty 0);
      [reflexivity | reflexivity | reflexivity | reflexivity | reflexivity | | reflexivity | |].
    + apply parse_show; [exact Hwl | reflexivity].
    + apply IHB; [cbn [csize] in Hsz; lia | exact Hwx | reflexivity | reflexivity].
    + left. split; [reflexivity|]. exists T_rdelim. do 2 eexists. exists (kw pit_ForEnd 0), T_rdelim.
      split; [reflexivity|]. split; [reflexivity|]. split; [|split; reflexivity].
      apply IHB; [cbn [csize] in Hsz; lia | exact Hwie | reflexivity | reflexivity].
  - norm_app. cbn [close_tag app].
    eapply Tag_for with (c := 36) (rd := T_rdelim) (u := kw pit_ForEnd 0);
      [reflexivity | reflexivity | reflexivity | reflexivity | reflexivity | | reflexivity | |].
    + apply parse_show; [exact Hwl | reflexivity].
    + apply IHB; [cbn [csize] in Hsz; lia | exact Hwx | reflexivity | reflexivity].
    + right. split; [vm_compute; discriminate|]. exists T_rdelim. repeat split; reflexivity.
Qed.

Lemma ok_let_value p name e : CmdOK (NLetValue p name e).
Proof.
  intros Hwf Hrt l2. cbn [cmd_toks app]. do 2 eexists. split; [reflexivity|]. split; [cbn; tauto|].
  norm_app.
  eapply Tag_let_value with (c := 36) (rde := T_rdelim_end); [reflexivity | reflexivity | reflexivity | reflexivity | reflexivity |].
  apply parse_show; [exact Hwf | reflexivity].
Qed.

Lemma ok_let_content p name x : (csize (NLetContent p name x) <= S n)%nat -> CmdOK (NLetContent p name x).
Proof.
  intros Hsz Hwf Hrt l2. cbn [cmd_toks app]. do 2 eexists. split; [reflexivity|]. split; [cbn; tauto|].
  norm_app. cbn [close_tag app].
  eapply Tag_let_content with (c := 36) (u := kw pit_LetEnd 0) (rd2 := T_rdelim); [reflexivity | reflexivity | reflexivity | reflexivity | reflexivity |].
  apply IHB; [cbn [csize] in Hsz; lia | exact Hwf | reflexivity | reflexivity].
Qed.

Lemma cmd_step c : (csize c <= S n)%nat -> CmdOK c.
Proof.
  intros Hsz. destruct c; try (intros Hwf; contradiction Hwf).
  - intros _ Hrt. discriminate Hrt.
  - apply ok_print.
  - apply ok_log, Hsz.
  - apply ok_debugger.
  - apply ok_if, Hsz.
  - apply ok_for, Hsz.
  - apply ok_let_value.
  - apply ok_let_content, Hsz.
Qed.
End Step.

Theorem body_cmd_ok : forall n, (forall x, (csize x <= n)%nat -> BodyOK x) /\ (forall c, (csize c <= n)%nat -> CmdOK c).
Proof.
  induction n as [|n [IHB IHC]].
  - split; intros x Hx; destruct x; cbn [csize] in Hx; lia.
  - split; [apply body_step | apply cmd_step]; assumption.
Qed.

(* C17 extended to template bodies: the items of a well-formed body, followed by "{" and an
   item u that ends the list, are read as that body; the parser has then consumed "{" and u *)
Theorem parse_body_roundtrip x until u rest :
  wf_body x -> good_until until = true -> one_of (t_typ u) until = true ->
  Body until (body_toks x ++ T_ldelim :: u :: rest) x u rest.
Proof. intros. apply (proj1 (body_cmd_ok (csize x)) x (le_n _)); assumption. Qed.
End Main.
