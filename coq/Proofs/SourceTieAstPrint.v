(* Source tie, family 78-gotrans-astprint (ast/node.go): the String methods that gotrans can
   translate today -- the leaf nodes -- and the precedence table and constants, against the
   printer models Model/AstPrint.v (print_node) and Model/AstPrintCmd.v (print_tree).
   The String methods that need a translator feature gotrans does not have yet are listed
   with that feature in notes/astprint-gotrans.md; they are tied by the byte-for-byte
   correspondence of the C17 harness only. *)
From Coq Require Import ZArith NArith Bool Lia ZifyBool ZifyN List.
From Soy Require Import Model.Bytes Model.Num Model.Values Model.Ast Generated.Tables Model.AstPrint Model.AstPrintCmd Proofs.SourceTieBase.
Import ListNotations.
Open Scope N_scope.

(* ---- expression leaves (print_node) ---- *)
Lemma print_null_matches_source p : print_node (NNull p) = Some src_ast_NullNode_String.
Proof. reflexivity. Qed.

Lemma print_bool_matches_source p x : print_node (NBool p x) = Some (src_ast_BoolNode_String x).
Proof. destruct x; reflexivity. Qed.

Lemma print_int_matches_source p z : print_node (NInt p z) = Some (src_ast_IntNode_String z).
Proof. reflexivity. Qed.

Lemma print_string_matches_source p q v : print_node (NString p q v) = Some (src_ast_StringNode_String q).
Proof. reflexivity. Qed.

Lemma print_global_matches_source p name v : print_node (NGlobal p name v) = Some (src_ast_GlobalNode_String name).
Proof. reflexivity. Qed.

Lemma print_acc_index_matches_source p ns i : print_node (NAccIndex p ns i) = Some (src_ast_DataRefIndexNode_String ns i).
Proof. destruct ns; reflexivity. Qed.

Lemma print_acc_key_matches_source p ns k : print_node (NAccKey p ns k) = Some (src_ast_DataRefKeyNode_String ns k).
Proof. destruct ns; reflexivity. Qed.

(* ---- the precedence table and constants ---- *)
Lemma ast_binary_prec_matches_source (name : bstr) :
  Z.of_N (match assoc_s name ast_binary_prec with Some q => q | None => 0 end) = src_ast_BinaryOpNode_precedence name.
Proof.
  unfold src_ast_BinaryOpNode_precedence, go_lookup_s.
  assert (H : option_map Z.of_N (assoc_s name ast_binary_prec) = assoc_s name src_ast_binaryPrecedence).
  { apply (assoc_s_ext Z.of_N Z.eqb); [exact Z_eqb_true|]. vm_compute. reflexivity. }
  rewrite <- H. destruct (assoc_s name ast_binary_prec); reflexivity.
Qed.

Lemma binop_level_matches_source op : Z.of_N (binop_level op) = src_ast_BinaryOpNode_precedence (binop_name op).
Proof. unfold binop_level. apply ast_binary_prec_matches_source. Qed.

Lemma ast_prec_consts_match_source :
  Z.of_N ast_prec_ternary = src_ast_precTernary /\ Z.of_N ast_prec_unary = src_ast_precUnary /\
  Z.of_N ast_prec_primary = src_ast_precPrimary.
Proof. vm_compute. repeat split; reflexivity. Qed.

(* ---- command and file level leaves (print_tree) ---- *)
Lemma print_rawtext_matches_source p t : print_tree (NRawText p t) = Some (src_ast_RawTextNode_String t).
Proof. reflexivity. Qed.

Lemma print_namespace_matches_source p name ae : print_tree (NNamespace p name ae) = Some (src_ast_NamespaceNode_String name).
Proof. unfold src_ast_NamespaceNode_String. cbn [print_tree]. now rewrite app_assoc. Qed.

Lemma print_soydoc_param_matches_source p name o : print_tree (NSoyDocParam p name o) = Some (src_ast_SoyDocParamNode_String name o).
Proof. unfold src_ast_SoyDocParamNode_String. destruct o; cbn [print_tree]; cbv zeta; now rewrite !app_assoc. Qed.

Lemma print_literal_matches_source p body : print_tree (NLiteral p body) = Some (src_ast_LiteralNode_String body).
Proof. unfold src_ast_LiteralNode_String. cbn [print_tree]. now rewrite app_assoc. Qed.

Lemma print_debugger_matches_source p : print_tree (NDebugger p) = Some src_ast_DebuggerNode_String.
Proof. reflexivity. Qed.

Lemma print_ident_matches_source p i : print_tree (NIdent p i) = Some (src_ast_IdentNode_String i).
Proof. reflexivity. Qed.

Lemma print_msg_html_tag_matches_source p t : print_tree (NMsgHtmlTag p t) = Some (src_ast_MsgHtmlTagNode_String t).
Proof. reflexivity. Qed.

(* HeaderParamNode's type part: TypeNode.String is the identity on Expr (the model holds Expr itself) *)
Lemma type_node_matches_source typ : src_ast_TypeNode_String typ = typ.
Proof. reflexivity. Qed.

(* an expression leaf prints the same through print_tree *)
Lemma print_tree_expr_leaf p :
  print_tree (NNull p) = print_node (NNull p) /\ (forall x, print_tree (NBool p x) = print_node (NBool p x)) /\
  (forall z, print_tree (NInt p z) = print_node (NInt p z)).
Proof. repeat split. Qed.
