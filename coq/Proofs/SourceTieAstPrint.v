(* Source tie, family 78-gotrans-astprint (ast/node.go): the String methods that gotrans can
   translate today -- the leaf nodes -- and the precedence table and constants, against the
   printer models Model/AstPrint.v (print_node) and Model/AstPrintCmd.v (print_tree).
   The String methods that need a translator feature gotrans does not have yet are listed
   with that feature in notes/astprint-gotrans.md; they are tied by the byte-for-byte
   correspondence of the C17 harness only. *)
From Coq Require Import ZArith NArith Bool Lia ZifyBool ZifyN List.
From Soy Require Import Model.Bytes Model.Num Model.Values Model.Ast Generated.Tables Model.AstPrint Model.AstPrintCmd Proofs.SourceTieBase.
Import ListNotations.
Open Scope N_scope.

(* ---- expression leaves (print_node) ---- *)
Lemma print_null_matches_source p : print_node (NNull p) = Some src_ast_NullNode_String.
Proof. reflexivity. Qed.

Lemma print_bool_matches_source p x : print_node (NBool p x) = Some (src_ast_BoolNode_String x).
Proof. destruct x; reflexivity. Qed.

Lemma print_int_matches_source p z : print_node (NInt p z) = Some (src_ast_IntNode_String z).
Proof. reflexivity. Qed.

Lemma print_string_matches_source p q v : print_node (NString p q v) = Some (src_ast_StringNode_String q).
Proof. reflexivity. Qed.

Lemma print_global_matches_source p name v : print_node (NGlobal p name v) = Some (src_ast_GlobalNode_String name).
Proof. reflexivity. Qed.

Lemma print_acc_index_matches_source p ns i : print_node (NAccIndex p ns i) = Some (src_ast_DataRefIndexNode_String ns i).
Proof. destruct ns; reflexivity. Qed.

Lemma print_acc_key_matches_source p ns k : print_node (NAccKey p ns k) = Some (src_ast_DataRefKeyNode_String ns k).
Proof. destruct ns; reflexivity. Qed.

(* ---- the precedence table and constants ---- *)
Lemma ast_binary_prec_matches_source (name : bstr) :
  Z.of_N (match assoc_s name ast_binary_prec with Some q => q | None => 0 end) = src_ast_BinaryOpNode_precedence name.
Proof.
  unfold src_ast_BinaryOpNode_precedence, go_lookup_s.
  assert (H : option_map Z.of_N (assoc_s name ast_binary_prec) = assoc_s name src_ast_binaryPrecedence).
  { apply (assoc_s_ext Z.of_N Z.eqb); [exact Z_eqb_true|]. vm_compute. reflexivity. }
  rewrite <- H. destruct (assoc_s name ast_binary_prec); reflexivity.
Qed.

Lemma binop_level_matches_source op : Z.of_N (binop_level op) = src_ast_BinaryOpNode_precedence (binop_name op).
Proof. unfold binop_level. apply ast_binary_prec_matches_source. Qed.

Lemma ast_prec_consts_match_source :
  Z.of_N ast_prec_ternary = src_ast_precTernary /\ Z.of_N ast_prec_unary = src_ast_precUnary /\
  Z.of_N ast_prec_primary = src_ast_precPrimary.
Proof. vm_compute. repeat split; reflexivity. Qed.

(* ---- command and file level leaves (print_tree) ---- *)
Lemma print_rawtext_matches_source p t : print_tree (NRawText p t) = Some (src_ast_RawTextNode_String t).
Proof. reflexivity. Qed.

Lemma print_namespace_matches_source p name ae : print_tree (NNamespace p name ae) = Some (src_ast_NamespaceNode_String name).
Proof. unfold src_ast_NamespaceNode_String. cbn [print_tree]. now rewrite app_assoc. Qed.

Lemma print_soydoc_param_matches_source p name o : print_tree (NSoyDocParam p name o) = Some (src_ast_SoyDocParamNode_String name o).
Proof. unfold src_ast_SoyDocParamNode_String. destruct o; cbn [print_tree]; cbv zeta; now rewrite !app_assoc. Qed.

Lemma print_literal_matches_source p body : print_tree (NLiteral p body) = Some (src_ast_LiteralNode_String body).
Proof. unfold src_ast_LiteralNode_String. cbn [print_tree]. now rewrite app_assoc. Qed.

Lemma print_debugger_matches_source p : print_tree (NDebugger p) = Some src_ast_DebuggerNode_String.
Proof. reflexivity. Qed.

Lemma print_ident_matches_source p i : print_tree (NIdent p i) = Some (src_ast_IdentNode_String i).
Proof. reflexivity. Qed.

Lemma print_msg_html_tag_matches_source p t : print_tree (NMsgHtmlTag p t) = Some (src_ast_MsgHtmlTagNode_String t).
Proof. reflexivity. Qed.

(* HeaderParamNode's type part: TypeNode.String is the identity on Expr (the model holds Expr itself) *)
Lemma type_node_matches_source typ : src_ast_TypeNode_String typ = typ.
Proof. reflexivity. Qed.

(* an expression leaf prints the same through print_tree *)
Lemma print_tree_expr_leaf p :
  print_tree (NNull p) = print_node (NNull p) /\ (forall x, print_tree (NBool p x) = print_node (NBool p x)) /\
  (forall z, print_tree (NInt p z) = print_node (NInt p z)).
Proof. repeat split. Qed.

(* ---- nodes with a child held in a field of interface type (ast.Node / ast.ParentNode) ----
   The child enters the translation as two parameters: "the field is nil" and the value of its String() (gotrans:
   n.F.String() is None = Go's panic when the field is nil).  The models hold the child itself, an optional child where
   Go tests the field against nil; the lemmas say: if the child prints as s, the node prints as the translated method
   says for (not nil, s), and a missing optional child is the nil field (whatever is put for its String()). *)
Lemma print_acc_expr_matches_source p ns e s :
  print_node e = Some s -> print_node (NAccExpr p ns e) = src_ast_DataRefExprNode_String false s ns.
Proof.
  intros H. cbn [print_node]. rewrite H. cbn [obind]. unfold src_ast_DataRefExprNode_String. cbv zeta. cbn [go_bind].
  destruct ns; cbn [app]; now rewrite <- ?app_assoc.
Qed.

Lemma print_log_matches_source p body s :
  print_tree body = Some s -> print_tree (NLog p body) = src_ast_LogNode_String false s.
Proof.
  intros H. cbn [print_tree]. rewrite H. cbn [obind]. unfold src_ast_LogNode_String. cbn [go_bind].
  now rewrite <- ?app_assoc.
Qed.

Lemma print_msg_placeholder_matches_source p name body s :
  print_tree body = Some s -> print_tree (NMsgPlaceholder p name body) = src_ast_MsgPlaceholderNode_String false s.
Proof. intros H. cbn [print_tree]. rewrite H. reflexivity. Qed.

(* Body is a ParentNode (a ListNode): its String() is the concatenation of the children's *)
Lemma print_msg_plural_case_matches_source p v body s :
  omap concat_b (opt_all (map print_tree body)) = Some s ->
  print_tree (NMsgPluralCase p v body) = src_ast_MsgPluralCaseNode_String false s v.
Proof.
  intros H. cbn [print_tree]. cbv zeta. rewrite H. cbn [obind]. unfold src_ast_MsgPluralCaseNode_String. cbn [go_bind].
  now rewrite <- ?app_assoc.
Qed.

Lemma print_css_matches_source p e suffix :
  match e with
  | None => forall junk, print_tree (NCss p None suffix) = src_ast_CssNode_String true junk suffix
  | Some x => forall s, print_tree x = Some s -> print_tree (NCss p (Some x) suffix) = src_ast_CssNode_String false s suffix
  end.
Proof.
  destruct e as [x|].
  - intros s H. cbn [print_tree]. rewrite H. cbn [obind]. unfold src_ast_CssNode_String. cbv zeta. cbn [negb go_bind].
    now rewrite <- ?app_assoc.
  - intros junk. cbn [print_tree]. unfold src_ast_CssNode_String. cbv zeta. cbn [negb go_bind]. now rewrite <- ?app_assoc.
Qed.

Lemma print_if_cond_matches_source p cond body sb :
  print_tree body = Some sb ->
  match cond with
  | None => forall junk, print_tree (NIfCond p None body) = src_ast_IfCondNode_String true junk false sb
  | Some c => forall sc, print_tree c = Some sc -> print_tree (NIfCond p (Some c) body) = src_ast_IfCondNode_String false sc false sb
  end.
Proof.
  intros Hb. destruct cond as [c|].
  - intros sc Hc. cbn [print_tree]. rewrite Hc, Hb. cbn [omap obind]. unfold src_ast_IfCondNode_String. cbv zeta. cbn [negb go_bind].
    reflexivity.
  - intros junk. cbn [print_tree]. rewrite Hb. cbn [obind]. unfold src_ast_IfCondNode_String. cbv zeta. cbn [negb go_bind]. reflexivity.
Qed.

Lemma print_for_matches_source p var lst body ifempty sl sb :
  print_tree lst = Some sl -> print_tree body = Some sb ->
  match ifempty with
  | None => forall junk, print_tree (NFor p var lst body None) = src_ast_ForNode_String false sl false sb true junk var
  | Some ie => forall se, print_tree ie = Some se ->
               print_tree (NFor p var lst body (Some ie)) = src_ast_ForNode_String false sl false sb false se var
  end.
Proof.
  intros Hl Hb. destruct ifempty as [ie|].
  - intros se He. cbn [print_tree]. rewrite Hl, Hb, He. cbn [omap obind]. unfold src_ast_ForNode_String. cbv zeta. cbn [negb go_bind].
    f_equal. unfold c_for, c_in, c_ifempty, c_for_end. cbn [app]. rewrite <- ?app_assoc. cbn [app]. reflexivity.
  - intros junk. cbn [print_tree]. rewrite Hl, Hb. cbn [obind]. unfold src_ast_ForNode_String. cbv zeta. cbn [negb go_bind].
    f_equal. unfold c_for, c_in, c_for_end. cbn [app]. rewrite <- ?app_assoc. cbn [app]. reflexivity.
Qed.
