(* Source tie, family 78-gotrans-astprint (ast/node.go): the String methods that gotrans can
   translate today -- the leaf nodes -- and the precedence table and constants, against the
   printer models Model/AstPrint.v (print_node) and Model/AstPrintCmd.v (print_tree).
   The String methods that need a translator feature gotrans does not have yet are listed
   with that feature in notes/astprint-gotrans.md; they are tied by the byte-for-byte
   correspondence of the C17 harness only. *)
From Coq Require Import ZArith NArith Bool Lia ZifyBool ZifyN List.
From Soy Require Import Model.Bytes Model.Num Model.Values Model.Ast Generated.Tables Model.AstPrint Model.AstPrintCmd Proofs.SourceTieBase.
Import ListNotations.
Open Scope N_scope.

(* ---- expression leaves (print_node) ---- *)
Lemma print_null_matches_source p : print_node (NNull p) = Some src_ast_NullNode_String.
Proof. reflexivity. Qed.

Lemma print_bool_matches_source p x : print_node (NBool p x) = Some (src_ast_BoolNode_String x).
Proof. destruct x; reflexivity. Qed.

Lemma print_int_matches_source p z : print_node (NInt p z) = Some (src_ast_IntNode_String z).
Proof. reflexivity. Qed.

Lemma print_string_matches_source p q v : print_node (NString p q v) = Some (src_ast_StringNode_String q).
Proof. reflexivity. Qed.

Lemma print_global_matches_source p name v : print_node (NGlobal p name v) = Some (src_ast_GlobalNode_String name).
Proof. reflexivity. Qed.

Lemma print_acc_index_matches_source p ns i : print_node (NAccIndex p ns i) = Some (src_ast_DataRefIndexNode_String ns i).
Proof. destruct ns; reflexivity. Qed.

Lemma print_acc_key_matches_source p ns k : print_node (NAccKey p ns k) = Some (src_ast_DataRefKeyNode_String ns k).
Proof. destruct ns; reflexivity. Qed.

(* ---- the precedence table and constants ---- *)
Lemma ast_binary_prec_matches_source (name : bstr) :
  Z.of_N (match assoc_s name ast_binary_prec with Some q => q | None => 0 end) = src_ast_BinaryOpNode_precedence name.
Proof.
  unfold src_ast_BinaryOpNode_precedence, go_lookup_s.
  assert (H : option_map Z.of_N (assoc_s name ast_binary_prec) = assoc_s name src_ast_binaryPrecedence).
  { apply (assoc_s_ext Z.of_N Z.eqb); [exact Z_eqb_true|]. vm_compute. reflexivity. }
  rewrite <- H. destruct (assoc_s name ast_binary_prec); reflexivity.
Qed.

Lemma binop_level_matches_source op : Z.of_N (binop_level op) = src_ast_BinaryOpNode_precedence (binop_name op).
Proof. unfold binop_level. apply ast_binary_prec_matches_source. Qed.

Lemma ast_prec_consts_match_source :
  Z.of_N ast_prec_ternary = src_ast_precTernary /\ Z.of_N ast_prec_unary = src_ast_precUnary /\
  Z.of_N ast_prec_primary = src_ast_precPrimary.
Proof. vm_compute. repeat split; reflexivity. Qed.

(* ---- command and file level leaves (print_tree) ---- *)
Lemma print_rawtext_matches_source p t : print_tree (NRawText p t) = Some (src_ast_RawTextNode_String t).
Proof. reflexivity. Qed.

Lemma print_namespace_matches_source p name ae : print_tree (NNamespace p name ae) = Some (src_ast_NamespaceNode_String name).
Proof. unfold src_ast_NamespaceNode_String. cbn [print_tree]. now rewrite app_assoc. Qed.

Lemma print_soydoc_param_matches_source p name o : print_tree (NSoyDocParam p name o) = Some (src_ast_SoyDocParamNode_String name o).
Proof. unfold src_ast_SoyDocParamNode_String. destruct o; cbn [print_tree]; cbv zeta; now rewrite !app_assoc. Qed.

Lemma print_literal_matches_source p body : print_tree (NLiteral p body) = Some (src_ast_LiteralNode_String body).
Proof. unfold src_ast_LiteralNode_String. cbn [print_tree]. now rewrite app_assoc. Qed.

Lemma print_debugger_matches_source p : print_tree (NDebugger p) = Some src_ast_DebuggerNode_String.
Proof. reflexivity. Qed.

Lemma print_ident_matches_source p i : print_tree (NIdent p i) = Some (src_ast_IdentNode_String i).
Proof. reflexivity. Qed.

Lemma print_msg_html_tag_matches_source p t : print_tree (NMsgHtmlTag p t) = Some (src_ast_MsgHtmlTagNode_String t).
Proof. reflexivity. Qed.

(* HeaderParamNode's type part: TypeNode.String is the identity on Expr (the model holds Expr itself) *)
Lemma type_node_matches_source typ : src_ast_TypeNode_String typ = typ.
Proof. reflexivity. Qed.

(* an expression leaf prints the same through print_tree *)
Lemma print_tree_expr_leaf p :
  print_tree (NNull p) = print_node (NNull p) /\ (forall x, print_tree (NBool p x) = print_node (NBool p x)) /\
  (forall z, print_tree (NInt p z) = print_node (NInt p z)).
Proof. repeat split. Qed.

(* ---- nodes with a child held in a field of interface type (ast.Node / ast.ParentNode) ----
   The child enters the translation as two parameters: "the field is nil" and the value of its String() (gotrans:
   n.F.String() is None = Go's panic when the field is nil).  The models hold the child itself, an optional child where
   Go tests the field against nil; the lemmas say: if the child prints as s, the node prints as the translated method
   says for (not nil, s), and a missing optional child is the nil field (whatever is put for its String()). *)
Lemma print_acc_expr_matches_source p ns e s :
  print_node e = Some s -> print_node (NAccExpr p ns e) = src_ast_DataRefExprNode_String false s ns.
Proof.
  intros H. cbn [print_node]. rewrite H. cbn [obind]. unfold src_ast_DataRefExprNode_String. cbv zeta. cbn [go_bind].
  destruct ns; cbn [app]; now rewrite <- ?app_assoc.
Qed.

Lemma print_log_matches_source p body s :
  print_tree body = Some s -> print_tree (NLog p body) = src_ast_LogNode_String false s.
Proof.
  intros H. cbn [print_tree]. rewrite H. cbn [obind]. unfold src_ast_LogNode_String. cbn [go_bind].
  now rewrite <- ?app_assoc.
Qed.

Lemma print_msg_placeholder_matches_source p name body s :
  print_tree body = Some s -> print_tree (NMsgPlaceholder p name body) = src_ast_MsgPlaceholderNode_String false s.
Proof. intros H. cbn [print_tree]. rewrite H. reflexivity. Qed.

(* Body is a ParentNode (a ListNode): its String() is the concatenation of the children's *)
Lemma print_msg_plural_case_matches_source p v body s :
  omap concat_b (opt_all (map print_tree body)) = Some s ->
  print_tree (NMsgPluralCase p v body) = src_ast_MsgPluralCaseNode_String false s v.
Proof.
  intros H. cbn [print_tree]. cbv zeta. rewrite H. cbn [obind]. unfold src_ast_MsgPluralCaseNode_String. cbn [go_bind].
  now rewrite <- ?app_assoc.
Qed.

Lemma print_css_matches_source p e suffix :
  match e with
  | None => forall junk, print_tree (NCss p None suffix) = src_ast_CssNode_String true junk suffix
  | Some x => forall s, print_tree x = Some s -> print_tree (NCss p (Some x) suffix) = src_ast_CssNode_String false s suffix
  end.
Proof.
  destruct e as [x|].
  - intros s H. cbn [print_tree]. rewrite H. cbn [obind]. unfold src_ast_CssNode_String. cbv zeta. cbn [negb go_bind].
    now rewrite <- ?app_assoc.
  - intros junk. cbn [print_tree]. unfold src_ast_CssNode_String. cbv zeta. cbn [negb go_bind]. now rewrite <- ?app_assoc.
Qed.

Lemma print_if_cond_matches_source p cond body sb :
  print_tree body = Some sb ->
  match cond with
  | None => forall junk, print_tree (NIfCond p None body) = src_ast_IfCondNode_String true junk false sb
  | Some c => forall sc, print_tree c = Some sc -> print_tree (NIfCond p (Some c) body) = src_ast_IfCondNode_String false sc false sb
  end.
Proof.
  intros Hb. destruct cond as [c|].
  - intros sc Hc. cbn [print_tree]. rewrite Hc, Hb. cbn [omap obind]. unfold src_ast_IfCondNode_String. cbv zeta. cbn [negb go_bind].
    reflexivity.
  - intros junk. cbn [print_tree]. rewrite Hb. cbn [obind]. unfold src_ast_IfCondNode_String. cbv zeta. cbn [negb go_bind]. reflexivity.
Qed.

Lemma print_for_matches_source p var lst body ifempty sl sb :
  print_tree lst = Some sl -> print_tree body = Some sb ->
  match ifempty with
  | None => forall junk, print_tree (NFor p var lst body None) = src_ast_ForNode_String false sl false sb true junk var
  | Some ie => forall se, print_tree ie = Some se ->
               print_tree (NFor p var lst body (Some ie)) = src_ast_ForNode_String false sl false sb false se var
  end.
Proof.
  intros Hl Hb. destruct ifempty as [ie|].
  - intros se He. cbn [print_tree]. rewrite Hl, Hb, He. cbn [omap obind]. unfold src_ast_ForNode_String. cbv zeta. cbn [negb go_bind].
    f_equal. unfold c_for, c_in, c_ifempty, c_for_end. cbn [app]. rewrite <- ?app_assoc. cbn [app]. reflexivity.
  - intros junk. cbn [print_tree]. rewrite Hl, Hb. cbn [obind]. unfold src_ast_ForNode_String. cbv zeta. cbn [negb go_bind].
    f_equal. unfold c_for, c_in, c_for_end. cbn [app]. rewrite <- ?app_assoc. cbn [app]. reflexivity.
Qed.

(* ---- fmt.Sprintf with a constant format (%s of a string or of a child's String(), %q = strconv.Quote) ----
   %s of a nil child prints fmt's "%!s(<nil>)" and does not panic; the models have no nil child here, the lemmas are
   about the non-nil case.  strconv.Quote is a parameter; its instance is Model/AstPrintCmd.v's go_quote (a hand model of
   library code, None outside its domain) wherever that answers. *)
Lemma print_let_value_matches_source p name e s :
  print_tree e = Some s -> print_tree (NLetValue p name e) = Some (src_ast_LetValueNode_String false s name).
Proof. intros H. cbn [print_tree]. rewrite H. reflexivity. Qed.

Lemma print_let_content_matches_source p name body s :
  print_tree body = Some s -> print_tree (NLetContent p name body) = Some (src_ast_LetContentNode_String false s name).
Proof. intros H. cbn [print_tree]. rewrite H. reflexivity. Qed.

Lemma print_param_value_matches_source p key v s :
  print_tree v = Some s -> print_tree (NParamValue p key v) = src_ast_CallParamValueNode_String false s key.
Proof. intros H. cbn [print_tree]. rewrite H. reflexivity. Qed.

Lemma print_param_content_matches_source p key c s :
  print_tree c = Some s -> print_tree (NParamContent p key c) = src_ast_CallParamContentNode_String false s key.
Proof. intros H. cbn [print_tree]. rewrite H. reflexivity. Qed.

Definition st_quote (x : bstr) : bstr := match go_quote x with Some q => q | None => [] end.

Lemma print_msg_matches_source p id meaning desc body qd s :
  (meaning = [] \/ exists qm, go_quote meaning = Some qm) -> go_quote desc = Some qd ->
  omap concat_b (opt_all (map print_tree body)) = Some s ->
  print_tree (NMsg p id meaning desc body) = src_ast_MsgNode_String st_quote false s meaning desc.
Proof.
  intros Hm Hd Hb. cbn [print_tree]. cbv zeta. rewrite Hd, Hb. unfold src_ast_MsgNode_String, st_quote. rewrite Hd. cbv zeta.
  destruct Hm as [->|[qm Hq]].
  - reflexivity.
  - rewrite Hq. destruct meaning as [|m0 mr]; [reflexivity|]. cbn [omap obind bstr_eqb negb go_bind]. reflexivity.
Qed.

(* ---- nodes whose children sit in a slice of nodes that String() ranges over ----
   The slice enters the translation as the list of what each element's String() returns (None: a nil element, Go's
   panic).  The lemmas put the model's own prints of the children there: the translated method and the model agree on
   every list of children, including on None (a child outside the printing domain / a nil element). *)
Lemma st_join_cons (sep x : bstr) (r : list bstr) : join sep (x :: r) = x ++ concat_b (map (fun y => sep ++ y) r).
Proof.
  revert x. induction r as [|y r IH]; intro x; [cbn [join map concat_b]; now rewrite app_nil_r|].
  change (join sep (x :: y :: r)) with (x ++ sep ++ join sep (y :: r)).
  rewrite (IH y). cbn [map concat_b]. now rewrite <- app_assoc.
Qed.

(* for i, x := range xs { if i > 0 { expr += sep }; expr += x.String() } *)
(* the cases (first element or not) are split on the index itself; the source's test, whatever its spelling, is decided by lia *)
Ltac st_join_loop IH :=
  intros [|[x|] l] acc i Hi; cbn -[Z.gtb Z.ltb Z.geb Z.leb Z.eqb];
  [ destruct (Z.gtb i 0); cbn [map concat_b join]; now rewrite app_nil_r
  | rewrite IH by lia; destruct (opt_all l) as [l'|];
    destruct (Z_lt_dec 0 i); st_decide_ifs; cbv beta iota zeta; rewrite ?IH by lia; try reflexivity;
    rewrite ?st_join_cons; cbn [map concat_b]; rewrite <- ?app_assoc; reflexivity
  | reflexivity ].

Lemma func_loop_matches : forall (l : list (option bstr)) (acc : bstr) (i : Z), (0 <= i)%Z ->
  src_ast_FunctionNode_String_loop1 l acc i =
  match opt_all l with
  | Some l' => Some (go_exit (acc ++ (if Z.gtb i 0 then concat_b (map (fun y => s_comma ++ y) l') else join s_comma l')))
  | None => None
  end.
Proof. fix IH 1. st_join_loop IH. Qed.

Lemma print_func_matches_source p name args :
  print_node (NFunc p name args) = src_ast_FunctionNode_String (map print_node args) name.
Proof.
  cbn [print_node]. unfold src_ast_FunctionNode_String. cbv zeta. rewrite func_loop_matches by lia.
  destruct (opt_all (map print_node args)); cbn [obind Z.gtb Z.compare]; [|reflexivity]. now rewrite <- !app_assoc.
Qed.

Lemma listlit_loop_matches : forall (l : list (option bstr)) (acc : bstr) (i : Z), (0 <= i)%Z ->
  src_ast_ListLiteralNode_String_loop1 l acc i =
  match opt_all l with
  | Some l' => Some (go_exit (acc ++ (if Z.gtb i 0 then concat_b (map (fun y => s_comma_space ++ y) l') else join s_comma_space l')))
  | None => None
  end.
Proof. fix IH 1. st_join_loop IH. Qed.

Lemma print_listlit_matches_source p items :
  print_node (NListLit p items) = src_ast_ListLiteralNode_String (map print_node items).
Proof.
  cbn [print_node]. unfold src_ast_ListLiteralNode_String. cbv zeta. rewrite listlit_loop_matches by lia.
  destruct (opt_all (map print_node items)); cbn [obind Z.gtb Z.compare]; [|reflexivity]. now rewrite <- !app_assoc.
Qed.

Lemma switch_case_loop_matches : forall (l : list (option bstr)) (acc : bstr) (i : Z), (0 <= i)%Z ->
  src_ast_SwitchCaseNode_String_loop1 l acc i =
  match opt_all l with
  | Some l' => Some (go_exit (acc ++ (if Z.gtb i 0 then concat_b (map (fun y => s_comma ++ y) l') else join s_comma l')))
  | None => None
  end.
Proof. fix IH 1. st_join_loop IH. Qed.

Lemma print_switch_case_matches_source p values body sb :
  print_tree body = Some sb ->
  print_tree (NSwitchCase p values body) = src_ast_SwitchCaseNode_String (map print_tree values) false sb.
Proof.
  intros Hb. cbn [print_tree]. unfold src_ast_SwitchCaseNode_String. cbv zeta. rewrite switch_case_loop_matches by lia.
  destruct (opt_all (map print_tree values)); cbn [obind Z.gtb Z.compare go_bind]; [|reflexivity].
  rewrite Hb. cbn [obind]. now rewrite <- !app_assoc.
Qed.

(* for _, x := range xs { expr += x.String() } *)
Ltac st_concat_loop IH :=
  intros [|[x|] l] acc; cbn;
  [ now rewrite app_nil_r
  | rewrite IH; destruct (opt_all l) as [l'|]; [|reflexivity]; cbn [concat_b]; rewrite <- ?app_assoc; reflexivity
  | reflexivity ].

Lemma dataref_loop_matches : forall (l : list (option bstr)) (acc : bstr),
  src_ast_DataRefNode_String_loop1 l acc =
  match opt_all l with Some l' => Some (go_exit (acc ++ concat_b l')) | None => None end.
Proof. fix IH 1. st_concat_loop IH. Qed.

Lemma print_dataref_matches_source p key access :
  print_node (NDataRef p key access) = src_ast_DataRefNode_String (map print_node access) key.
Proof.
  cbn [print_node]. unfold src_ast_DataRefNode_String. cbv zeta. rewrite dataref_loop_matches.
  destruct (opt_all (map print_node access)); cbn [obind]; [|reflexivity]. now rewrite <- !app_assoc.
Qed.

Lemma print_loop_matches : forall (l : list (option bstr)) (acc : bstr),
  src_ast_PrintNode_String_loop1 l acc =
  match opt_all l with Some l' => Some (go_exit (acc ++ concat_b l')) | None => None end.
Proof. fix IH 1. st_concat_loop IH. Qed.

Lemma print_print_matches_source p arg dirs s :
  print_node arg = Some s ->
  print_node (NPrint p arg dirs) = src_ast_PrintNode_String false s (map print_node dirs).
Proof.
  intros H. cbn [print_node]. rewrite H. cbn [obind]. unfold src_ast_PrintNode_String. cbn [go_bind]. cbv zeta.
  rewrite print_loop_matches.
  destruct (opt_all (map print_node dirs)); cbn [obind]; [|reflexivity]. now rewrite <- !app_assoc.
Qed.

Lemma switch_loop_matches : forall (l : list (option bstr)) (acc : bstr),
  src_ast_SwitchNode_String_loop1 l acc =
  match opt_all l with Some l' => Some (go_exit (acc ++ concat_b l')) | None => None end.
Proof. fix IH 1. st_concat_loop IH. Qed.

Lemma print_switch_matches_source p v cases sv :
  print_tree v = Some sv ->
  print_tree (NSwitch p v cases) = src_ast_SwitchNode_String false sv (map print_tree cases).
Proof.
  intros H. cbn [print_tree]. cbv zeta. rewrite H. cbn [obind]. unfold src_ast_SwitchNode_String. cbn [go_bind]. cbv zeta.
  rewrite switch_loop_matches.
  destruct (opt_all (map print_tree cases)); cbn [obind omap]; [|reflexivity]. now rewrite <- !app_assoc.
Qed.

Lemma msg_plural_loop_matches : forall (l : list (option bstr)) (acc : bstr),
  src_ast_MsgPluralNode_String_loop1 l acc =
  match opt_all l with Some l' => Some (go_exit (acc ++ concat_b l')) | None => None end.
Proof. fix IH 1. st_concat_loop IH. Qed.

(* Default is a ParentNode (a ListNode): its String() is the concatenation of its children's *)
Lemma print_msg_plural_matches_source p name v cases dflt sv sd :
  print_tree v = Some sv -> omap concat_b (opt_all (map print_tree dflt)) = Some sd ->
  print_tree (NMsgPlural p name v cases dflt) = src_ast_MsgPluralNode_String false sv (map print_tree cases) false sd.
Proof.
  intros H Hd. cbn [print_tree]. cbv zeta. rewrite H, Hd. cbn [obind]. unfold src_ast_MsgPluralNode_String. cbn [go_bind]. cbv zeta.
  rewrite msg_plural_loop_matches.
  destruct (opt_all (map print_tree cases)); cbn [obind omap go_bind]; [|reflexivity]. now rewrite <- !app_assoc.
Qed.

Lemma soydoc_loop_matches : forall (l : list (option bstr)) (acc : bstr),
  src_ast_SoyDocNode_String_loop1 l acc =
  match opt_all l with Some l' => Some (go_exit (acc ++ concat_b (map (fun s => c_soydoc_line ++ s) l'))) | None => None end.
Proof.
  fix IH 1. intros [|[x|] l] acc; cbn;
  [ now rewrite app_nil_r
  | rewrite IH; destruct (opt_all l) as [l'|]; [|reflexivity]; cbn [map concat_b]; rewrite <- ?app_assoc; reflexivity
  | reflexivity ].
Qed.

Lemma print_soydoc_matches_source p params :
  print_tree (NSoyDoc p params) = src_ast_SoyDocNode_String (map print_tree params).
Proof.
  cbn [print_tree]. unfold src_ast_SoyDocNode_String. destruct params as [|x r]; [reflexivity|].
  replace (Z.eqb (go_len (map print_tree (x :: r))) 0) with false by (unfold go_len; cbn [map length]; lia).
  cbv zeta. rewrite soydoc_loop_matches.
  destruct (opt_all (map print_tree (x :: r))); cbn [obind]; [|reflexivity]. now rewrite <- !app_assoc.
Qed.

(* first := true; for _, x := range xs { if !first { expr += "," }; expr += x.String(); first = false } *)
Lemma directive_loop_matches : forall (l : list (option bstr)) (acc : bstr) (first : bool),
  src_ast_PrintDirectiveNode_String_loop1 l acc first =
  match opt_all l with
  | Some l' => Some (go_exit (acc ++ (if first then join s_comma l' else concat_b (map (fun y => s_comma ++ y) l')),
                              match l' with [] => first | _ => false end))
  | None => None
  end.
Proof.
  fix IH 1. intros [|[x|] l] acc first; cbn;
  [ destruct first; cbn [map concat_b join]; now rewrite app_nil_r
  | rewrite IH; destruct (opt_all l) as [l'|]; [|reflexivity];
    destruct first; cbn [negb]; rewrite ?st_join_cons; cbn [map concat_b]; rewrite <- ?app_assoc; destruct l'; reflexivity
  | reflexivity ].
Qed.

Lemma print_directive_matches_source p name args :
  print_node (NDirective p name args) = src_ast_PrintDirectiveNode_String (map print_node args) name.
Proof.
  cbn [print_node]. unfold src_ast_PrintDirectiveNode_String. destruct args as [|x r]; [reflexivity|].
  replace (Z.eqb (go_len (map print_node (x :: r))) 0) with false by (unfold go_len; cbn [map length]; lia).
  cbv zeta. rewrite directive_loop_matches.
  destruct (opt_all (map print_node (x :: r))); cbn [obind]; [|reflexivity]. now rewrite <- !app_assoc.
Qed.

Lemma call_loop_matches : forall (l : list (option bstr)) (acc : bstr),
  src_ast_CallNode_String_loop1 l acc =
  match opt_all l with Some l' => Some (go_exit (acc ++ concat_b l')) | None => None end.
Proof. fix IH 1. st_concat_loop IH. Qed.

(* CallNode: `n.Params == nil` decides between {call .../} and {call ...}...{/call}; the model holds a list and takes the
   empty list for the nil slice (what the parser builds for a call without parameters: tied by the correspondence) *)
Lemma print_call_matches_source p name alldata data params :
  let nil_params := match params with [] => true | _ => false end in
  match data with
  | None => forall junk, print_tree (NCall p name alldata None params) =
                         src_ast_CallNode_String true junk nil_params (map print_tree params) name alldata
  | Some d => forall sd, print_tree d = Some sd ->
                         print_tree (NCall p name alldata (Some d) params) =
                         src_ast_CallNode_String false sd nil_params (map print_tree params) name alldata
  end.
Proof.
  intro nil_params. destruct data as [d|].
  - intros sd Hd. cbn [print_tree]. cbv zeta. rewrite Hd. unfold src_ast_CallNode_String. cbv zeta. cbn [negb omap].
    destruct alldata; cbn [go_bind obind]; destruct params as [|x r]; subst nil_params; cbv iota;
      rewrite ?call_loop_matches; try destruct (opt_all (map print_tree (x :: r))); cbn [obind omap]; try reflexivity;
      f_equal; rewrite <- ?app_assoc; reflexivity.
  - intros junk. cbn [print_tree]. cbv zeta. unfold src_ast_CallNode_String. cbv zeta. cbn [negb].
    destruct alldata; cbn [go_bind obind]; destruct params as [|x r]; subst nil_params; cbv iota;
      rewrite ?call_loop_matches; try destruct (opt_all (map print_tree (x :: r))); cbn [obind omap]; try reflexivity;
      f_equal; rewrite <- ?app_assoc; reflexivity.
Qed.
