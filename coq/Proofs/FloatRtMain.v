(* Float round trip, part 4: Num.fl_to_string (strconv 'g' -1) read by NumLit.parse_float_round
   (strconv.ParseFloat on the scanner's float syntax) is the float that was printed -- for every finite
   float of the model in normal form (odd mantissa below 2^53, exponent inside Num.mk_fl's window, or a
   signed zero).  No hypothesis on the number of digits or the size of the exponent is left. *)
From Soy Require Import Model.Bytes Model.Num Model.Utf8 Model.NumLit Proofs.NumLitProofs Proofs.MsgIdProofs
  Proofs.FloatRtRound Proofs.FloatRtDigits Proofs.FloatRtText Proofs.FloatRtTotal.
From Coq Require Import ZifyBool ZifyNat ZifyN Lia.
Open Scope Z_scope.

Lemma rt_strip2_odd q e : podd q -> strip2 q e = (q, e).
Proof. destruct q; cbn [strip2 podd]; [reflexivity|contradiction|reflexivity]. Qed.

Lemma rt_dec_of_Z_pos c : 0 < c ->
  rt_digs (dec_of_Z c) /\ dec_of_Z c <> [] /\ Z.of_N (dec_val (dec_of_Z c) 0) = c.
Proof.
  intros Hc. assert (E : dec_of_Z c = dec_of_N (Z.to_N c)) by (destruct c; [lia|reflexivity|lia]).
  rewrite E. split; [apply dec_of_N_digits|]. split; [apply dec_of_N_nonempty|]. rewrite rt_dec_val_dec. lia.
Qed.

Theorem rt_fin_roundtrip (q : positive) (e : Z) (neg : bool) s :
  podd q -> fl_to_string (FFin (if neg then Zneg q else Zpos q) e) = Some s ->
  parse_float_round s = FRVal (FFin (if neg then Zneg q else Zpos q) e) /\
  (((mem 46 s || mem 101 s)%bool = true /\ rt_shape s) \/
   ((mem 46 s || mem 101 s)%bool = false /\
    parse_float_round (s ++ [46; 48]%N) = FRVal (FFin (if neg then Zneg q else Zpos q) e) /\ rt_shape (s ++ [46; 48]%N))).
Proof.
  intros Hodd Hs. unfold fl_to_string in Hs.
  assert (Ea : Z.abs (if neg then Zneg q else Zpos q) = Zpos q) by (destruct neg; reflexivity).
  assert (Es : ((if neg then Zneg q else Zpos q) <? 0) = neg) by (destruct neg; reflexivity).
  rewrite Ea, Es, (rt_strip2_odd q e Hodd) in Hs.
  destruct ((Zpos q <? two53) && (-1000 <? e) && (e <? 900))%bool eqn:W; [|discriminate].
  destruct (shortest_decimal (Zpos q) e) as [[ds dp]|] eqn:SD; [|discriminate]. injection Hs as <-.
  destruct (rt_shortest_decimal_sound q e ds dp Hodd ltac:(lia) ltac:(lia) SD) as (c & p & Hc & -> & -> & Hp & Hr).
  destruct (rt_dec_of_Z_pos c Hc) as (D1 & D2 & D3).
  exact (rt_fmt_g_parse neg c p _ (dec_of_Z c) Hc Hp (Hr neg) D1 D2 D3).
Qed.

Theorem fl_to_string_parse (x : fl) (s : bstr) :
  fl_finite_norm x -> fl_to_string x = Some s ->
  parse_float_round s = FRVal x /\
  (((mem 46 s || mem 101 s)%bool = true /\ rt_shape s) \/
   ((mem 46 s || mem 101 s)%bool = false /\ parse_float_round (s ++ [46; 48]%N) = FRVal x /\ rt_shape (s ++ [46; 48]%N))).
Proof.
  destruct x as [| |n|m e]; cbn [fl_finite_norm]; try contradiction.
  - intros _ Hs.
    assert (H48 : rt_digs [48%N]) by (constructor; [unfold is_digit_byte; lia|constructor]).
    destruct n; cbn in Hs; injection Hs as <-; (split; [reflexivity|]); right; (split; [reflexivity|]); (split; [reflexivity|]).
    + exists true, [48%N], [48%N], false, false, []. split; [reflexivity|]. split; [exact H48|]. split; [discriminate|]. split; [exact H48|].
      split; [constructor|]. split; [exact Logic.I|]. left. discriminate.
    + exists false, [48%N], [48%N], false, false, []. split; [reflexivity|]. split; [exact H48|]. split; [discriminate|]. split; [exact H48|].
      split; [constructor|]. split; [exact Logic.I|]. left. discriminate.
  - intros Hm Hs. destruct m as [|q|q]; [discriminate| |].
    + apply (rt_fin_roundtrip q e false s); [destruct q; try discriminate; exact Logic.I|exact Hs].
    + apply (rt_fin_roundtrip q e true s); [destruct q; try discriminate; exact Logic.I|exact Hs].
Qed.

(* the statement of the task: printing then parsing is the identity *)
Corollary fl_to_string_roundtrip (x : fl) (s : bstr) :
  fl_finite_norm x -> fl_to_string x = Some s -> parse_float_round s = FRVal x.
Proof. intros Hn Hs. exact (proj1 (fl_to_string_parse x s Hn Hs)). Qed.

(* every float an operation of the model returns is in normal form *)
Lemma rt_mk_fl_norm m e x : mk_fl m e = Some x -> fl_finite_norm x.
Proof.
  unfold mk_fl. destruct m as [|q|q].
  - intros H. injection H as <-. exact Logic.I.
  - destruct (strip2_spec q e) as (q' & t & E & Hq & _). rewrite E.
    destruct ((Zpos q' <? two53) && (-1000 <? e + Z.of_nat t) && (e + Z.of_nat t <? 900))%bool; [|discriminate].
    intros H. injection H as <-. cbn. destruct q'; try contradiction; reflexivity.
  - destruct (strip2_spec q e) as (q' & t & E & Hq & _). rewrite E.
    destruct ((Zpos q' <? two53) && (-1000 <? e + Z.of_nat t) && (e + Z.of_nat t <? 900))%bool; [|discriminate].
    intros H. injection H as <-. cbn. destruct q'; try contradiction; reflexivity.
Qed.

(* ---- fl_to_string answers on every float of the model ---- *)
(* the floats of the model: a signed zero, or an odd mantissa below 2^53 with an exponent of mk_fl's window *)
Definition fl_in_window (x : fl) : Prop :=
  match x with
  | FZero _ => True
  | FFin m e => Z.odd m = true /\ Z.abs m < two53 /\ -1000 < e < 900
  | _ => False
  end.

Lemma rt_window_norm x : fl_in_window x -> fl_finite_norm x.
Proof. destruct x; cbn; tauto. Qed.

Theorem fl_to_string_total (x : fl) : fl_in_window x -> exists s, fl_to_string x = Some s.
Proof.
  destruct x as [| |n|m e]; cbn [fl_in_window]; try contradiction.
  - intros _. destruct n; eexists; reflexivity.
  - intros (Hodd & Hm & He).
    assert (Hq : exists q, Z.abs m = Zpos q /\ podd q).
    { destruct m as [|q|q]; [discriminate| |]; exists q; (split; [reflexivity|]); destruct q; try discriminate; exact Logic.I. }
    destruct Hq as (q & Ea & Hq). unfold fl_to_string. rewrite Ea, (rt_strip2_odd q e Hq).
    replace ((Zpos q <? two53) && (-1000 <? e) && (e <? 900))%bool with true by lia.
    pose proof (rt_shortest_decimal_total q e Hq ltac:(lia) He) as T.
    destruct (shortest_decimal (Zpos q) e) as [[ds dp]|]; [|congruence]. eexists. reflexivity.
Qed.

(* and only on those (among the finite floats in normal form) *)
Lemma fl_to_string_window (x : fl) s : fl_finite_norm x -> fl_to_string x = Some s -> fl_in_window x.
Proof.
  destruct x as [| |n|m e]; cbn [fl_finite_norm fl_in_window]; try contradiction; [trivial|].
  intros Hodd Hs.
  assert (Hq : exists q, Z.abs m = Zpos q /\ podd q).
  { destruct m as [|q|q]; [discriminate| |]; exists q; (split; [reflexivity|]); destruct q; try discriminate; exact Logic.I. }
  destruct Hq as (q & Ea & Hq). unfold fl_to_string in Hs. rewrite Ea, (rt_strip2_odd q e Hq) in Hs.
  destruct ((Zpos q <? two53) && (-1000 <? e) && (e <? 900))%bool eqn:W; [|discriminate]. lia.
Qed.

Lemma rt_mk_fl_window m e x : mk_fl m e = Some x -> fl_in_window x.
Proof.
  unfold mk_fl. destruct m as [|q|q].
  - intros H. injection H as <-. exact Logic.I.
  - destruct (strip2_spec q e) as (q' & t & E & Hq & _). rewrite E.
    destruct ((Zpos q' <? two53) && (-1000 <? e + Z.of_nat t) && (e + Z.of_nat t <? 900))%bool eqn:W; [|discriminate].
    intros H. injection H as <-. cbn. split; [destruct q'; try contradiction; reflexivity|lia].
  - destruct (strip2_spec q e) as (q' & t & E & Hq & _). rewrite E.
    destruct ((Zpos q' <? two53) && (-1000 <? e + Z.of_nat t) && (e + Z.of_nat t <? 900))%bool eqn:W; [|discriminate].
    intros H. injection H as <-. cbn. split; [destruct q'; try contradiction; reflexivity|lia].
Qed.
