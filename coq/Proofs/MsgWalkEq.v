(* C11 x C04: the walker with a message bundle (Model/MsgParts.v walk_b) IS the walker of Model/Interp.v on
   code without {msg} and without {call} -- the SAME result and the SAME state, not equality up to the cuts
   of the Write calls -- for every fuel, every state, every bundle and every plural selector.  This is what
   lets C04's statement simulation (stated for [walk] and an exact relation on states) speak about the
   placeholders of a translated message, which soyhtml renders through [walk_b].

   Proof: [walk_body] is parametric in its recursive call (Proofs/InterpRel.v) for the relation "equal
   on every state"; the premise about the templates of the registry (needed for {call}) is discharged by
   running the parametricity lemma in a configuration whose registry has no templates, which is the same
   walker on call-free code (walk_body_noreg). *)
From Coq Require Import List Lia Bool.
From Soy Require Import Model.Bytes Model.Num Model.Values Model.Outcome Model.Ast
  Model.Escape Model.Directives Model.Print Generated.Tables Model.Interp Model.MsgParts
  Proofs.InterpLogic Proofs.InterpGuard Proofs.InterpRel Proofs.InterpExtProofs.
Import ListNotations.
Open Scope N_scope.

(* no {call}; no {msg} other than the walker's own synthetic message node for the body of a plural case *)
Definition msgfree_g (n : node) : bool :=
  match n with
  | NCall _ _ _ _ _ => false
  | NMsg _ id m d _ => (id =? 0) && match m, d with [], [] => true | _, _ => false end
  | _ => true
  end.
Definition msgfree (n : node) : bool := deep msgfree_g n.

Lemma same_logic_g g : walker_logic_r g (@same) (@same value) (fun _ _ => True).
Proof.
  constructor; intros; try apply same_refl.
  - intros st. rewrite <- H, <- H0. apply H1.
  - apply same_bind; assumption.
  - intros st. apply (H (mode st) st).
  - intros st. apply (H (ctx st) st).
  - apply same_bind; [apply same_refl|]. intros _.
    apply same_bind; [assumption|]. intros _. apply same_refl.
  - intros st. rewrite !eval_eq, (H st). reflexivity.
  - intros st. rewrite !render_block_eq, (H (buf_pushed st)). reflexivity.
  - intros st. rewrite !call_enter_eq. cbn zeta. rewrite (H (entered st callee cd)). reflexivity.
Qed.

Section WalkEq.
Variable cf : cfg.

(* the same configuration with no template in the registry *)
Definition noreg : cfg :=
  {| c_reg := {| r_templates := []; r_sources := r_sources (c_reg cf); r_files := r_files (c_reg cf) |};
     c_ij := c_ij cf; c_oblig := c_oblig cf; c_msgs := c_msgs cf |}.

Lemma print_dirs_noreg w l : print_dirs noreg w l = print_dirs cf w l.
Proof. reflexivity. Qed.

Lemma walk_body_noreg w n : msgfree_g n = true -> walk_body noreg w n = walk_body cf w n.
Proof.
  intro Hg. unfold walk_body. f_equal.
  destruct n; try reflexivity; try discriminate.
Qed.

Lemma deep_g n : msgfree n = true -> msgfree_g n = true.
Proof. unfold msgfree. destruct n; cbn [deep]; intro H; apply andb_true_iff in H; apply H. Qed.

(* [walk_body] on message-free, call-free code depends on the recursive call only through its runs on such code *)
Lemma walk_body_same_msgfree (w1 w2 : node -> M value) :
  (forall n, msgfree n = true -> same (w1 n) (w2 n)) ->
  forall n, msgfree n = true -> same (walk_body cf w1 n) (walk_body cf w2 n).
Proof.
  intros Hw n Hn st.
  rewrite <- !(walk_body_noreg _ n (deep_g n Hn)).
  apply (rphi_walk_body noreg msgfree_g (@same) (@same value) (fun _ _ => True)
           (same_logic_g msgfree_g) same_pure_sites (fun _ _ => eq_refl) w1 w2).
  - exact Hw.
  - intros callee Hin. destruct Hin.
  - exact Hn.
Qed.

Variable plural_index : Z -> nat.
Variable bd : bundle.

Lemma walk_body_b_msgfree w n : msgfree_g n = true -> forall st, walk_body_b cf plural_index bd w n st = walk_body cf w n st.
Proof.
  intros Hg st. destruct n; try reflexivity.
  cbn [msgfree_g] in Hg. apply andb_true_iff in Hg. destruct Hg as [Hid _]. apply N.eqb_eq in Hid. subst.
  reflexivity.
Qed.

(* THE LEMMA: on message-free, call-free code the walker with a bundle is the walker *)
Theorem walk_b_is_walk : forall fuel n, msgfree n = true ->
  forall st, walk_b cf plural_index bd fuel n st = walk cf fuel n st.
Proof.
  induction fuel as [|f IH]; intros n Hn st; [reflexivity|].
  cbn [walk_b walk]. rewrite walk_body_b_msgfree by (apply deep_g; exact Hn).
  apply (walk_body_same_msgfree (walk_b cf plural_index bd f) (walk cf f)); [|exact Hn].
  intros n' Hn' st'. apply IH. exact Hn'.
Qed.

End WalkEq.
