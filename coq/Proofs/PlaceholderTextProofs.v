(* C17, last sentence: "the message extractor identifies placeholders by this text".

   Model/MsgId.v names the placeholders of a message from pairs (base name, String() text),
   the text being opaque there.  Here the text is the printed print command: two placeholders
   of one message get the same name only if their print commands are the same up to
   positions, and print commands that are the same up to positions print the same text.

   The step from the printed TEXT to the printed ITEMS is the scanner's, which is not modelled
   in this file: it enters as the Section hypothesis [lex_print] ("the scanner reads the text
   printed for a well-formed print command as the items tokens_of_print gives, up to
   positions"), which the C17 harness checks on every run (token correspondence). *)
From Soy Require Import Model.Bytes Model.Num Model.Outcome Model.Values Model.Ast Model.Token Model.ExprParser Model.AstPrint Model.MsgId
  Generated.Tables Spec.ExprSyntax Proofs.ExprParserRules Proofs.ExprParserProofs Proofs.MsgIdProofs.
Require Import Lia ZifyBool ZifyNat ZifyN.
Open Scope N_scope.

(* ---- the printers do not look at positions ---- *)
Lemma level_of_strip e : level_of (strip_pos e) = level_of e.
Proof. destruct e; reflexivity. Qed.

Fixpoint fsize (e : node) : nat :=
  match e with
  | NFunc _ _ args => S (list_sum (map fsize args))
  | NListLit _ items => S (list_sum (map fsize items))
  | NMapLit _ items => S (list_sum (map (fun kv => fsize (snd kv)) items))
  | NDataRef _ _ acc => S (list_sum (map fsize acc))
  | NAccExpr _ _ a => S (fsize a)
  | NNot _ a | NNeg _ a => S (fsize a)
  | NBin _ _ a c => S (fsize a + fsize c)
  | NTern _ c x y => S (fsize c + fsize x + fsize y)
  | NPrint _ a dirs => S (fsize a + list_sum (map fsize dirs))
  | NDirective _ _ args => S (list_sum (map fsize args))
  | _ => 1%nat
  end.

Lemma fsize_induction (P : node -> Prop) :
  (forall e, (forall c, (fsize c < fsize e)%nat -> P c) -> P e) -> forall e, P e.
Proof.
  intros H e. assert (G : forall n c, (fsize c < n)%nat -> P c).
  { induction n as [|n IH]; intros c Hc; [lia|]. apply H. intros d Hd. apply IH. lia. }
  apply (G (S (fsize e))). lia.
Qed.

Lemma opt_all_map_ext (f g : node -> option bstr) l :
  (forall x, In x l -> f x = g x) -> opt_all (map f l) = opt_all (map g l).
Proof. intros H. f_equal. apply map_ext_in, H. Qed.

Lemma print_node_strip : forall e, print_node (strip_pos e) = print_node e.
Proof.
  induction e as [e IH] using fsize_induction.
  destruct e; try reflexivity; cbn [strip_pos print_node].
  - (* function *) rewrite map_map. erewrite opt_all_map_ext; [reflexivity|]. intros c Hin.
    apply IH. cbn [fsize]. pose proof (list_sum_In fsize c args Hin). lia.
  - (* list *) rewrite map_map. erewrite opt_all_map_ext; [reflexivity|]. intros c Hin.
    apply IH. cbn [fsize]. pose proof (list_sum_In fsize c items Hin). lia.
  - (* map *) destruct items as [|kv items]; [reflexivity|].
    change ((fst kv, strip_pos (snd kv)) :: map (fun kv0 => (fst kv0, strip_pos (snd kv0))) items)
      with (map (fun kv0 => (fst kv0, strip_pos (snd kv0))) (kv :: items)).
    remember (kv :: items) as its eqn:Eits. rewrite map_map. cbn [fst snd].
    assert (Hm : map (fun x => (fst x, print_node (strip_pos (snd x)))) its = map (fun x => (fst x, print_node (snd x))) its).
    { apply map_ext_in. intros x Hin. f_equal. apply IH. cbn [fsize].
      pose proof (list_sum_In (fun kv => fsize (snd kv)) x _ Hin). lia. }
    rewrite Hm. subst its. reflexivity.
  - (* data reference *) rewrite map_map. erewrite opt_all_map_ext; [reflexivity|]. intros c Hin.
    apply IH. cbn [fsize]. pose proof (list_sum_In fsize c access Hin). lia.
  - (* [e] *) rewrite IH by (cbn [fsize]; lia). reflexivity.
  - (* not *) rewrite IH, level_of_strip by (cbn [fsize]; lia). reflexivity.
  - (* negate *) rewrite IH, level_of_strip by (cbn [fsize]; lia). reflexivity.
  - (* binary *) rewrite !IH, !level_of_strip by (cbn [fsize]; lia). reflexivity.
  - (* ternary *) rewrite !IH, !level_of_strip by (cbn [fsize]; lia). reflexivity.
  - (* print *) rewrite IH by (cbn [fsize]; lia). rewrite map_map. erewrite opt_all_map_ext; [reflexivity|]. intros c Hin.
    apply IH. cbn [fsize]. pose proof (list_sum_In fsize c dirs Hin). lia.
  - (* directive *) destruct args as [|a args]; [reflexivity|]. cbn [map].
    rewrite IH by (cbn [fsize]; pose proof (list_sum_In fsize a (a :: args) (or_introl eq_refl)); lia).
    rewrite map_map. do 3 f_equal. apply map_ext_in. intros c Hin.
    apply IH. cbn [fsize]. pose proof (list_sum_In fsize c (a :: args) (or_intror Hin)). lia.
Qed.

Lemma show_directive_strip sty path d :
  show_directive sty path (strip_pos d) = map strip_tok (show_directive sty path d).
Proof.
  destruct d; try reflexivity. cbn [strip_pos show_directive map]. do 2 f_equal.
  rewrite concat_map, mapi_from_map, map_mapi_from. f_equal.
  apply mapi_from_ext_in. intros i c _. cbn [map]. f_equal; [destruct (Nat.eqb i 0); reflexivity|].
  rewrite map_parens, show_strip. reflexivity.
Qed.

Lemma show_print_strip sty path n :
  show_print sty path (strip_pos n) = map strip_tok (show_print sty path n).
Proof.
  destruct n; try reflexivity. cbn [strip_pos show_print]. rewrite !map_app, map_parens, show_strip. f_equal.
  cbn [map]. f_equal. rewrite concat_map, mapi_from_map, map_mapi_from. f_equal.
  apply mapi_from_ext_in. intros i d _. apply show_directive_strip.
Qed.

Lemma wf_print_strip n : wf_print n -> wf_print (strip_pos n).
Proof.
  destruct n; cbn [wf_print]; try contradiction. intros [Ha Hd]. cbn [strip_pos wf_print]. split; [apply wf_strip, Ha|].
  eapply allP_map_in; [|exact Hd]. intros d _ Hw. destruct d; cbn [wf_directive] in *; try contradiction.
  cbn [strip_pos wf_directive]. eapply allP_map_in; [|exact Hw]. intros c _ Hc. apply wf_strip, Hc.
Qed.

(* print commands that print the same items (up to positions) are the same (up to positions) *)
Theorem print_command_injective n1 n2 :
  wf_print n1 -> wf_print n2 ->
  map strip_tok (tokens_of_print n1) = map strip_tok (tokens_of_print n2) -> strip_pos n1 = strip_pos n2.
Proof.
  intros H1 H2 E. apply wf_print_strip in H1, H2. unfold tokens_of_print in E. rewrite <- !show_print_strip in E.
  destruct n1; cbn [strip_pos wf_print] in H1; try contradiction.
  destruct n2; cbn [strip_pos wf_print] in H2; try contradiction.
  cbn [strip_pos] in *.
  destruct (parse_print_roundtrip_cmd 0 _ _ [] H1) as (s1 & f1 & _ & F1).
  destruct (parse_print_roundtrip_cmd 0 _ _ [] H2) as (s2 & f2 & _ & F2).
  specialize (F1 (max f1 f2) ltac:(lia)). specialize (F2 (max f1 f2) ltac:(lia)).
  unfold tokens_of_print in F1, F2. rewrite E in F1. rewrite F1 in F2. inversion F2. reflexivity.
Qed.

(* ================= placeholders ================= *)
Section Placeholders.
(* the scanner, abstractly: the text printed for a well-formed print command is read as the
   items the Spec gives for it, up to positions (checked by the harness on every run) *)
Variable lex : bstr -> list tok.
Hypothesis lex_print : forall n s, wf_print n -> print_node n = Some s ->
  map strip_tok (lex s) = map strip_tok (tokens_of_print n).

(* two print commands print the same text only if they are the same print command ... *)
Theorem same_text_same_command n1 n2 s :
  wf_print n1 -> wf_print n2 -> print_node n1 = Some s -> print_node n2 = Some s -> strip_pos n1 = strip_pos n2.
Proof.
  intros H1 H2 P1 P2. apply print_command_injective; auto.
  rewrite <- (lex_print n1 s H1 P1), <- (lex_print n2 s H2 P2). reflexivity.
Qed.

(* ... and the same print command (up to positions) prints the same text *)
Theorem same_command_same_text n1 n2 : strip_pos n1 = strip_pos n2 -> print_node n1 = print_node n2.
Proof. intros E. rewrite <- (print_node_strip n1), <- (print_node_strip n2), E. reflexivity. Qed.

(* the message extractor (Model/MsgId.v: setPlaceholderNames) over these texts *)
Variables (order : list bstr -> list bstr) (body : list mpart) (es : list (bstr * bstr)) (nm : namemap).
Hypothesis Hp : is_perm order.
Hypothesis Hes : msg_entries body = Ok es.
Hypothesis Hnm : msg_names order body = Ok nm.

(* two placeholders of the message that get the same name are the same print command *)
Theorem same_name_same_command b1 b2 n1 n2 s1 s2 :
  wf_print n1 -> wf_print n2 -> print_node n1 = Some s1 -> print_node n2 = Some s2 ->
  In (b1, s1) es -> In (b2, s2) es ->
  name_of nm b1 s1 = name_of nm b2 s2 -> b1 = b2 /\ strip_pos n1 = strip_pos n2.
Proof.
  intros W1 W2 P1 P2 I1 I2 E.
  pose proof (names_distinct order body es nm Hp Hes Hnm b1 s1 b2 s2 I1 I2 E) as Heq.
  injection Heq as -> ->. split; [reflexivity|]. eapply same_text_same_command; eauto.
Qed.

(* and the same print command under the same base name gets the same name *)
Theorem same_command_same_name b n1 n2 s1 s2 :
  print_node n1 = Some s1 -> print_node n2 = Some s2 -> strip_pos n1 = strip_pos n2 ->
  name_of nm b s1 = name_of nm b s2.
Proof.
  intros P1 P2 E. pose proof (same_command_same_text n1 n2 E) as Ht. rewrite P1, P2 in Ht. injection Ht as ->. reflexivity.
Qed.
End Placeholders.
