(* C02 composed with C01, part 1: two Spec results AGREE (cagree) when the first did not
   run out of fuel and the second did not leave the modelled domain and then
   they have the same bytes and the same outcome class; if the levels below
   cagree, every command clause of Spec/Cmd.v agrees. *)
From Soy Require Import Model.Bytes Model.Num Model.Values Model.Outcome Model.Ast
  Model.Escape Model.Directives Model.Print Generated.Tables Model.Interp Spec.Cmd Spec.CmdIndep
  Proofs.InterpLogic Proofs.ScopeRel.
Open Scope N_scope.

Definition same_class {A} (a c : outcome A) : Prop :=
  match a, c with
  | Ok x, Ok y => x = y
  | Err _, Err _ => True
  | Crash m, Crash m' => m = m'
  | Diverge, Diverge => True
  | OutOfModel, OutOfModel => True
  | _, _ => False
  end.

(* [a]: the fuelled Spec of Spec/Cmd.v; [c]: the composed one *)
Definition cagree {A} (a c : bstr * outcome (A * N)) : Prop :=
  snd a = OutOfFuel \/ snd c = OutOfModel \/ (fst a = fst c /\ same_class (snd a) (snd c)).

Lemma cagree_refl {A} (a : bstr * outcome (A * N)) : cagree a a.
Proof.
  destruct a as [o [x| | | | | ]]; unfold cagree; cbn; auto; right; right; split; reflexivity.
Qed.

Lemma cagree_bind {A B} (s1 s2 : Cm A) (k1 k2 : A -> Cm B) n :
  cagree (s1 n) (s2 n) -> (forall x n', cagree (k1 x n') (k2 x n')) ->
  cagree (sbind s1 k1 n) (sbind s2 k2 n).
Proof.
  unfold cagree, sbind. intros H K.
  destruct (s1 n) as [o1 r1], (s2 n) as [o2 r2]. cbn [fst snd] in H.
  destruct H as [H | [H | [Ho Hc]]].
  - subst r1. left. reflexivity.
  - subst r2. right. left. reflexivity.
  - subst o2. destruct r1 as [[x1 n1]| | | | | ], r2 as [[x2 n2]| | | | | ]; cbn in Hc; try contradiction.
    + inversion Hc; subst. specialize (K x2 n2).
      destruct (k1 x2 n2) as [p1 q1], (k2 x2 n2) as [p2 q2]. cbn [fst snd] in *.
      destruct K as [K | [K | [Kp Kc]]]; [left; exact K | right; left; exact K |].
      right. right. split; [rewrite Kp; reflexivity | exact Kc].
    + right. right. split; [reflexivity | exact I].
    + right. right. split; [reflexivity | exact Hc].
    + right. right. split; [reflexivity | exact I].
    + right. left. reflexivity.
Qed.

Lemma cagree_ebind {A B} (e1 e2 : E A) (k1 k2 : A -> E B) n :
  cagree (sE e1 n) (sE e2 n) -> (forall x n', cagree (sE (k1 x) n') (sE (k2 x) n')) ->
  cagree (sE (ebind e1 k1) n) (sE (ebind e2 k2) n).
Proof. intros H K. rewrite !sE_bind. apply cagree_bind; assumption. Qed.

Lemma cagree_capture (s1 s2 : Cm unit) n : cagree (s1 n) (s2 n) -> cagree (capture s1 n) (capture s2 n).
Proof.
  unfold cagree, capture. intros H.
  destruct (s1 n) as [o1 r1], (s2 n) as [o2 r2]. cbn [fst snd] in H.
  destruct H as [H | [H | [Ho Hc]]].
  - subst r1. left. reflexivity.
  - subst r2. right. left. reflexivity.
  - subst o2. destruct r1 as [[x1 n1]| | | | | ], r2 as [[x2 n2]| | | | | ]; cbn in Hc; try contradiction; cbn.
    + inversion Hc; subst. right. right. split; reflexivity.
    + right. right. split; [reflexivity | exact I].
    + right. right. split; [reflexivity | exact Hc].
    + right. right. split; [reflexivity | exact I].
    + right. left. reflexivity.
Qed.

Definition lv_agree (l1 l2 : level) : Prop :=
  (forall en e n, cagree (sE (l_eval l1 en e) n) (sE (l_eval l2 en e) n)) /\
  (forall entry en md c n, cagree (l_exec l1 entry en md c n) (l_exec l2 entry en md c n)) /\
  (forall entry en md c n, cagree (l_let l1 entry en md c n) (l_let l2 entry en md c n)).

Section Body.
Variable cf : cfg.
Variables l1 l2 : level.
Hypothesis HL : lv_agree l1 l2.

Let Hev : forall en e n, cagree (sE (ev l1 en e) n) (sE (ev l2 en e) n) := proj1 HL.
Let Hex : forall entry md en c n, cagree (ex l1 entry md en c n) (ex l2 entry md en c n) :=
  fun entry md en c n => proj1 (proj2 HL) entry en md c n.

Ltac ab := apply cagree_bind; [ | intros ? ? ].
Ltac aeb := apply cagree_ebind; [ | intros ? ? ].
Ltac rf := apply cagree_refl.

Lemma evdef_agree en e n : cagree (sE (evdef l1 en e) n) (sE (evdef l2 en e) n).
Proof. unfold evdef. aeb; [apply Hev | rf]. Qed.

Lemma ev_list_agree en es : forall n, cagree (sE (ev_list l1 en es) n) (sE (ev_list l2 en es) n).
Proof.
  induction es as [|e es IH]; intros n; cbn [ev_list]; [rf|].
  aeb; [apply Hev|]. aeb; [apply IH | rf].
Qed.

Lemma dirs_agree en ds : forall v n, cagree (sE (dirs_spec cf l1 en ds v) n) (sE (dirs_spec cf l2 en ds v) n).
Proof.
  induction ds as [|d ds IH]; intros v n; cbn [dirs_spec]; [rf|].
  destruct d; try rf. destruct (lookup_directive name) as [[al rest]|]; [|rf].
  destruct (negb (check_num_args al (length args))); [rf|].
  aeb; [apply ev_list_agree|]. aeb; [rf|]. aeb; [rf|]. aeb; [apply IH | rf].
Qed.

Lemma case_hit_agree en sv vs : forall n, cagree (sE (case_hit_spec l1 en sv vs) n) (sE (case_hit_spec l2 en sv vs) n).
Proof.
  induction vs as [|v vs IH]; intros n; cbn [case_hit_spec]; [rf|].
  aeb; [apply Hev|]. destruct (equals sv x); [rf | apply IH].
Qed.

Section Cmd.
Variable entry : env.
Variable md : N.

Lemma block_agree cs : forall en n, cagree (block l1 entry md en cs n) (block l2 entry md en cs n).
Proof.
  induction cs as [|c cs IH]; intros en n; [rf|].
  destruct c; cbn [block]; try (ab; [apply Hex | apply IH]).
  - ab; [apply (proj2 (proj2 HL)) | apply IH].
  - ab; [apply (proj2 (proj2 HL)) | apply IH].
Qed.

Lemma if_agree en cs : forall n, cagree (if_spec l1 entry md en cs n) (if_spec l2 entry md en cs n).
Proof.
  induction cs as [|c cs IH]; intros n; cbn [if_spec]; [rf|].
  destruct c; try rf. destruct cond as [cnd|]; [|apply Hex].
  ab; [apply Hev|]. destruct (truthy x); [apply Hex | apply IH].
Qed.

Lemma for_agree en var body last items : forall i n,
  cagree (for_spec l1 entry md en var body last i items n) (for_spec l2 entry md en var body last i items n).
Proof.
  induction items as [|x r IH]; intros i n; cbn [for_spec]; [rf|].
  ab; [apply Hex | apply IH].
Qed.

Lemma switch_agree en sv cs : forall n, cagree (switch_spec l1 entry md en sv cs n) (switch_spec l2 entry md en sv cs n).
Proof.
  induction cs as [|c cs IH]; intros n; cbn [switch_spec]; [rf|].
  destruct c; try rf. ab; [apply case_hit_agree|].
  destruct (x || match values with [] => true | _ :: _ => false end); [apply Hex | apply IH].
Qed.

Lemma params_agree en ps : forall acc n, cagree (params_spec l1 entry md en ps acc n) (params_spec l2 entry md en ps acc n).
Proof.
  induction ps as [|p ps IH]; intros acc n; cbn [params_spec]; [rf|].
  destruct p; try rf.
  - ab; [apply Hev | apply IH].
  - ab; [apply cagree_capture, Hex | apply IH].
Qed.

Lemma base_agree en alldata dat n : cagree (base_spec l1 entry en alldata dat n) (base_spec l2 entry en alldata dat n).
Proof.
  unfold base_spec. destruct alldata; [rf|]. destruct dat as [e|]; [|rf].
  ab; [apply Hev|]. destruct x; rf.
Qed.

Lemma plural_agree en mp i dflt cs : forall n,
  cagree (plural_spec l1 entry md en mp i dflt cs n) (plural_spec l2 entry md en mp i dflt cs n).
Proof.
  induction cs as [|c cs IH]; intros n; cbn [plural_spec]; [apply Hex|].
  destruct c; try rf. destruct (i =? v)%Z; [apply Hex | apply IH].
Qed.

Lemma msg_agree en mp ns : forall n, cagree (msg_spec l1 entry md en mp ns n) (msg_spec l2 entry md en mp ns n).
Proof.
  induction ns as [|c ns IH]; intros n; cbn [msg_spec]; [rf|].
  destruct c; try apply IH.
  - ab; [apply Hex | apply IH].
  - ab; [apply Hex | apply IH].
  - ab; [apply Hev|]. destruct x; try rf. ab; [apply plural_agree | apply IH].
Qed.

Lemma exec_body_agree en c n : cagree (exec_body cf l1 entry md en c n) (exec_body cf l2 entry md en c n).
Proof.
  destruct c; cbn [exec_body]; try rf.
  - apply block_agree.
  - (* NPrint *) ab; [apply Hev|]. destruct x; try rf; (ab; [apply dirs_agree | rf]).
  - (* NCss *) ab; [|rf]. destruct expr as [e|]; [|rf]. ab; [apply Hev | rf].
  - (* NLog *) ab; [apply cagree_capture, Hex | rf].
  - apply if_agree.
  - (* NFor *) ab; [apply Hev|]. destruct x; try rf. destruct l as [|x0 r0].
    + destruct ifempty; [apply Hex | rf].
    + apply for_agree.
  - (* NSwitch *) ab; [apply Hev | apply switch_agree].
  - (* NCall *) destruct (find_template (r_templates (c_reg cf)) name) as [callee|]; [|rf].
    ab; [apply base_agree|]. ab; [apply params_agree|]. apply (proj1 (proj2 HL)).
  - apply msg_agree.
  - (* NTemplate *) apply (proj1 (proj2 HL)).
Qed.

Lemma let_body_agree en c n : cagree (let_body l1 entry md en c n) (let_body l2 entry md en c n).
Proof.
  destruct c; cbn [let_body]; try rf.
  - apply Hev.
  - ab; [apply cagree_capture, Hex | rf].
Qed.
End Cmd.
End Body.

(* the one-pass construction of Spec/CmdIndep.v, unfolded *)
Lemma both_levels_fst cf f : fst (both_levels cf f) = spec_level cf f.
Proof. induction f as [|f IH]; [reflexivity|]. cbn [both_levels fst spec_level]. rewrite IH. reflexivity. Qed.
Lemma indep_level_0 cf : indep_level cf 0 = indep0 cf.
Proof. reflexivity. Qed.
Lemma indep_level_S cf f : indep_level cf (S f) = indep_next cf (spec_level cf f) (indep_level cf f).
Proof. unfold indep_level. cbn [both_levels snd]. rewrite both_levels_fst. reflexivity. Qed.
