(* Bytes <-> lines of a PO file, and the whole entry the extractor writes (Model/PoEntry.v):
   - scan_lines inverts join_lines on newline-free lines up to the carriage return bufio.ScanLines
     drops (scan_lines_join_lines), and every line Message.WriteTo writes for the quoted fields is
     such a line (fields_lines_ok);
   - the entry xgettext-soy writes for ANY description (newlines, carriage returns, anything), id and
     plural variable is read back by Parse's message literal with the references "id=<id>" (and
     "var=<name>") and the quoted fields as written (extract_entry_roundtrip), through the BYTES of
     the file; pomsg.newBundle's loop over the references finds that id and that variable
     (extract_entry_id_var);
   - before repair a5cfda0 (the description written as one value) a two-line description loses the
     reference (pinned_entry_loses_id). *)
From Coq Require Import Lia ZifyN ZifyNat ZifyBool List Bool.
From Soy Require Import Model.Bytes Model.Outcome Model.Utf8 Model.PoFile Model.PoEntry Proofs.Utf8Proofs Proofs.PoFileProofs.
Import ListNotations.
Open Scope N_scope.

Definition nl_free (l : bstr) : Prop := Forall (fun c => c <> 10) l.

(* ------------------------------------------------------------------ *)
(* bytes <-> lines                                                     *)
(* ------------------------------------------------------------------ *)

Lemma scan_lines_line : forall l cur rest, nl_free l ->
  scan_lines cur (l ++ 10 :: rest) = drop_cr (cur ++ l) :: scan_lines [] rest.
Proof.
  induction l as [|c l IH]; intros cur rest H.
  - cbn [app scan_lines]. rewrite app_nil_r. reflexivity.
  - inversion H as [|? ? Hc Hl]; subst. cbn [app scan_lines].
    replace (c =? 10) with false by lia. rewrite IH by exact Hl. rewrite <- app_assoc. reflexivity.
Qed.

(* a file written line by line, followed by anything *)
Theorem scan_lines_join_app : forall ls rest, Forall nl_free ls ->
  scan_lines [] (join_lines ls ++ rest) = map drop_cr ls ++ scan_lines [] rest.
Proof.
  induction ls as [|l ls IH]; intros rest H; [reflexivity|].
  inversion H as [|? ? Hl Hls]; subst. unfold join_lines in *. cbn [flat_map map app].
  rewrite <- !app_assoc. cbn [app]. rewrite scan_lines_line by exact Hl. cbn [app]. rewrite IH by exact Hls. reflexivity.
Qed.

Lemma scan_lines_nil : scan_lines [] [] = [].
Proof. reflexivity. Qed.

Theorem scan_lines_join_cr : forall ls, Forall nl_free ls -> scan_lines [] (join_lines ls) = map drop_cr ls.
Proof.
  intros ls H. pose proof (scan_lines_join_app ls [] H) as E. rewrite !app_nil_r in E. exact E.
Qed.

(* the lines of a file come back as written when none has a newline inside or a carriage return at its end *)
Theorem scan_lines_join_lines : forall ls, Forall (fun l => nl_free l /\ drop_cr l = l) ls ->
  scan_lines [] (join_lines ls) = ls.
Proof.
  intros ls H. rewrite scan_lines_join_cr.
  - induction H as [|l ls [_ Hl] _ IH]; [reflexivity|]. cbn [map]. rewrite Hl, IH. reflexivity.
  - eapply Forall_impl; [|exact H]. intros l [Hl _]. exact Hl.
Qed.

Lemma drop_cr_last m c : c <> 13 -> drop_cr (m ++ [c]) = m ++ [c].
Proof.
  intro H. unfold drop_cr. rewrite rev_app_distr. cbn [rev app].
  destruct c as [|p]; [reflexivity|]. do 4 (destruct p as [p|p|]; try reflexivity). congruence.
Qed.

Lemma drop_cr_cr m : drop_cr (m ++ [13]) = m.
Proof. unfold drop_cr. rewrite rev_app_distr. cbn [rev app]. apply rev_involutive. Qed.

Lemma drop_cr_nil : drop_cr [] = [].
Proof. reflexivity. Qed.

(* a non-empty prefix stays: only the last byte of the line can go *)
Lemma drop_cr_prefix P c l : drop_cr ((P ++ [c]) ++ l) = (P ++ [c]) ++ drop_cr l \/ (l = [] /\ c = 13).
Proof.
  destruct l as [|x l] using rev_ind.
  - destruct (N.eq_dec c 13) as [->|Hc]; [right; auto|left]. change (drop_cr []) with (@nil N). rewrite !app_nil_r. apply drop_cr_last. exact Hc.
  - left. clear IHl. destruct (N.eq_dec x 13) as [->|Hx].
    + rewrite app_assoc. rewrite !drop_cr_cr. reflexivity.
    + rewrite app_assoc. rewrite !drop_cr_last by exact Hx. rewrite app_assoc. reflexivity.
Qed.

(* ------------------------------------------------------------------ *)
(* the lines of the quoted fields                                      *)
(* ------------------------------------------------------------------ *)

Section Po.
Variable is_print : N -> bool.

Definition line_ok (l : bstr) : Prop := nl_free l /\ drop_cr l = l.

Lemma Forall_app_2 {A} (P : A -> Prop) l1 l2 : Forall P l1 -> Forall P l2 -> Forall P (l1 ++ l2).
Proof. intros H1 H2. apply Forall_app. split; assumption. Qed.
Lemma nl_free_app a c : nl_free a -> nl_free c -> nl_free (a ++ c).
Proof. apply Forall_app_2. Qed.

Lemma hexdig_nl n : hexdig n <> 10.
Proof. unfold hexdig. destruct (n <? 10); lia. Qed.

Lemma encode_rune_nl r : r <> 10 -> nl_free (encode_rune r).
Proof.
  intro H. unfold encode_rune, nl_free.
  destruct (r <? 128); [repeat constructor; exact H|].
  destruct (r <? 2048); [repeat constructor; lia|].
  destruct (in_range 55296 57343 r || (1114111 <? r)); [repeat constructor; lia|].
  destruct (r <? 65536); repeat constructor; lia.
Qed.

Lemma esc_rune_nl r : nl_free (esc_rune is_print r).
Proof.
  unfold esc_rune, nl_free.
  destruct ((r =? 34) || (r =? 92)) eqn:E1; [repeat constructor; lia|].
  destruct (printable is_print r) eqn:Ep.
  { apply encode_rune_nl. unfold printable in Ep. destruct (r <? 128) eqn:E; [lia|lia]. }
  pose proof (hexdig_nl) as Hh.
  repeat match goal with |- context [if ?c then _ else _] => destruct c end;
    unfold hex8, hex4, hex2; cbn [app]; repeat constructor; try lia; apply Hh.
Qed.

Lemma quote_go_nl : forall f s, nl_free (quote_go is_print f s).
Proof.
  induction f as [|f IH]; intro s; cbn [quote_go]; [constructor|].
  destruct s as [|c s']; [constructor|].
  destruct (if c <? 128 then (c, 1%nat) else decode_rune (c :: s')) as [r w].
  destruct (Nat.eqb w 1 && (r =? rune_error)).
  - unfold hex2. repeat (apply Forall_cons; [first [lia|apply hexdig_nl]|]). apply IH.
  - apply nl_free_app; [apply esc_rune_nl|apply IH].
Qed.

Lemma go_quote_ok v : line_ok (po_go_quote is_print v).
Proof.
  unfold po_go_quote, quote_body. split.
  - constructor; [lia|]. apply nl_free_app; [apply quote_go_nl|repeat constructor; lia].
  - change (34 :: quote_go is_print (length v) v ++ [34]) with ((34 :: quote_go is_print (length v) v) ++ [34]).
    apply drop_cr_last. lia.
Qed.

Lemma prefix_quote_ok P v : nl_free P -> line_ok (P ++ po_go_quote is_print v).
Proof.
  intros HP. destruct (go_quote_ok v) as [H1 _]. split; [apply nl_free_app; assumption|].
  unfold po_go_quote. change (34 :: quote_body is_print v ++ [34]) with ((34 :: quote_body is_print v) ++ [34]).
  rewrite app_assoc. apply drop_cr_last. lia.
Qed.

Lemma po_quo_ok P v : nl_free P -> Forall line_ok (po_quo is_print P v).
Proof.
  intro HP. unfold po_quo. destruct (negb (contains v 10)).
  - constructor; [apply prefix_quote_ok; exact HP|constructor].
  - constructor.
    + split; [apply nl_free_app; [exact HP|repeat constructor; lia]|].
      change [34; 34] with ([34] ++ [34]). rewrite app_assoc. apply drop_cr_last. lia.
    + apply Forall_forall. intros l Hl. apply in_map_iff in Hl. destruct Hl as (x & <- & _). apply go_quote_ok.
Qed.

Lemma po_opt_ok P v : nl_free P -> Forall line_ok (po_opt is_print P v).
Proof. intro HP. unfold po_opt. destruct v; [constructor|apply po_quo_ok; exact HP]. Qed.

Lemma dec_digits_range fuel : forall n acc, Forall (fun c => 48 <= c <= 57) acc -> Forall (fun c => 48 <= c <= 57) (dec_digits fuel n acc).
Proof.
  induction fuel as [|f IH]; intros n acc H; cbn [dec_digits]; [exact H|].
  assert (H' : Forall (fun c => 48 <= c <= 57) ((48 + n mod 10) :: acc)).
  { constructor; [|exact H]. pose proof (N.mod_upper_bound n 10 ltac:(lia)). lia. }
  destruct (n / 10 =? 0); [exact H'|apply IH; exact H'].
Qed.
Lemma dec_of_N_range n : Forall (fun c => 48 <= c <= 57) (dec_of_N n).
Proof. apply dec_digits_range. constructor. Qed.
Lemma dec_of_N_last n : exists m c, dec_of_N n = m ++ [c] /\ 48 <= c <= 57.
Proof.
  pose proof (dec_of_N_range n) as H.
  assert (Hne : dec_of_N n <> []).
  { unfold dec_of_N. cbn [dec_digits]. destruct (n / 10 =? 0); [discriminate|].
    generalize (N.to_nat (N.log2 n)) (n / 10). intros f k.
    assert (G : forall f k acc, acc <> [] -> dec_digits f k acc <> []).
    { clear. induction f as [|f IH]; intros k acc Ha; cbn [dec_digits]; [exact Ha|].
      destruct (k / 10 =? 0); [discriminate|apply IH; discriminate]. }
    apply G. discriminate. }
  destruct (exists_last Hne) as (m & c & E). exists m, c. split; [exact E|].
  rewrite E in H. apply Forall_app in H. destruct H as [_ H]. inversion H; assumption.
Qed.

Lemma nl_free_weaken (P : N -> Prop) l : (forall c, P c -> c <> 10) -> Forall P l -> nl_free l.
Proof. intros HP H. eapply Forall_impl; [|exact H]. exact HP. Qed.

Lemma msgstr_n_nl i : nl_free (msgstr_n i).
Proof.
  unfold msgstr_n. apply nl_free_app; [repeat constructor; lia|]. apply nl_free_app; [|repeat constructor; lia].
  eapply nl_free_weaken; [|apply dec_of_N_range]. cbn beta. intros; lia.
Qed.

Lemma po_plural_from_ok : forall vals i, Forall line_ok (po_plural_from is_print i vals).
Proof.
  induction vals as [|v vals IH]; intro i; cbn [po_plural_from]; [constructor|].
  apply Forall_app_2; [apply po_quo_ok; apply msgstr_n_nl|apply IH].
Qed.

(* every line Message.WriteTo writes for the quoted fields: no newline inside, no carriage return at the end *)
Theorem fields_lines_ok (m : po_fields) : Forall line_ok (po_write_fields is_print m).
Proof.
  unfold po_write_fields.
  assert (Hc : forall s, nl_free (b s) -> True) by auto.
  repeat apply Forall_app_2.
  - apply po_opt_ok. repeat constructor; lia.
  - apply po_quo_ok. repeat constructor; lia.
  - apply po_opt_ok. repeat constructor; lia.
  - destruct (pf_id_plural m).
    + unfold po_msgstr. destruct (pf_str m); apply po_quo_ok; repeat constructor; lia.
    + unfold po_plural. destruct (pf_str m); [apply po_quo_ok; apply msgstr_n_nl|apply po_plural_from_ok].
Qed.

Lemma map_drop_cr_ok ls : Forall line_ok ls -> map drop_cr ls = ls.
Proof. intro H. induction H as [|l ls [_ Hl] _ IH]; [reflexivity|]. cbn [map]. rewrite Hl, IH. reflexivity. Qed.

(* the bytes of the quoted fields of a message, read as lines, are the lines written *)
Theorem fields_bytes_lines (m : po_fields) :
  scan_lines [] (join_lines (po_write_fields is_print m)) = po_write_fields is_print m.
Proof. apply scan_lines_join_lines. apply fields_lines_ok. Qed.

(* ------------------------------------------------------------------ *)
(* white space                                                         *)
(* ------------------------------------------------------------------ *)

Definition no_space (w : bstr) : Prop := Forall (fun c => is_space c = false) w.

Lemma trim_space_sp d : trim_space (32 :: d) = trim_space d.
Proof. reflexivity. Qed.

Lemma trim_space_word c m c' m' : c :: m = m' ++ [c'] -> is_space c = false -> is_space c' = false ->
  trim_space (c :: m) = c :: m.
Proof.
  intros E Hc Hc'. unfold trim_space. cbn [trim_left]. rewrite Hc. rewrite E. rewrite rev_app_distr. cbn [rev app trim_left].
  rewrite Hc'. cbn [rev]. rewrite rev_involutive. reflexivity.
Qed.

Lemma fields_go_word : forall w cur rest, no_space w -> pe_fields_go cur (w ++ rest) = pe_fields_go (cur ++ w) rest.
Proof.
  induction w as [|c w IH]; intros cur rest H; [rewrite app_nil_r; reflexivity|].
  inversion H as [|? ? Hc Hw]; subst. cbn [app pe_fields_go]. rewrite Hc. rewrite IH by exact Hw.
  rewrite <- app_assoc. reflexivity.
Qed.

Lemma fields_one w : w <> [] -> no_space w -> pe_fields w = [w].
Proof.
  intros Hne H. unfold pe_fields. pose proof (fields_go_word w [] [] H) as E. rewrite app_nil_r in E. rewrite E.
  cbn [app pe_fields_go]. destruct w; [congruence|reflexivity].
Qed.

Lemma fields_two w1 w2 : w1 <> [] -> w2 <> [] -> no_space w1 -> no_space w2 -> pe_fields (w1 ++ 32 :: w2) = [w1; w2].
Proof.
  intros H1 H2 N1 N2. unfold pe_fields. rewrite fields_go_word by exact N1. cbn [app pe_fields_go].
  change (is_space 32) with true. cbv iota. destruct w1 as [|c w1]; [congruence|].
  fold (pe_fields w2). rewrite fields_one by assumption. reflexivity.
Qed.

Lemma digits_no_space l : Forall (fun c => 48 <= c <= 57) l -> no_space l.
Proof.
  intro H. eapply Forall_impl; [|exact H]. cbn beta. intros c Hc. unfold is_space, in_range. lia.
Qed.

(* ------------------------------------------------------------------ *)
(* the reference of the extractor                                      *)
(* ------------------------------------------------------------------ *)

Definition var_ok (pv : option bstr) : Prop :=
  match pv with Some v => v <> [] /\ no_space v /\ nl_free v | None => True end.

Definition refs_of (id : N) (pv : option bstr) : list bstr :=
  (pe_id_eq ++ dec_of_N id) :: match pv with Some v => [pe_var_eq ++ v] | None => [] end.

Lemma id_word id : pe_id_eq ++ dec_of_N id <> [] /\ no_space (pe_id_eq ++ dec_of_N id).
Proof.
  split; [discriminate|]. apply Forall_app_2; [repeat constructor|]. apply digits_no_space, dec_of_N_range.
Qed.

Lemma reference_fields id pv : var_ok pv -> pe_fields (trim_space (32 :: pe_reference id pv)) = refs_of id pv.
Proof.
  intro Hv. rewrite trim_space_sp. unfold pe_reference, refs_of.
  destruct (id_word id) as [Hne Hns]. destruct pv as [v|].
  - destruct Hv as (Hvne & Hvs & _).
    destruct (exists_last Hvne) as (vm & vc & Ev).
    assert (Hvc : is_space vc = false).
    { rewrite Ev in Hvs. apply Forall_app in Hvs. destruct Hvs as [_ Hl]. inversion Hl; assumption. }
    assert (Et : trim_space (pe_id_eq ++ dec_of_N id ++ pe_sp_var_eq ++ v) = pe_id_eq ++ dec_of_N id ++ pe_sp_var_eq ++ v).
    { change (pe_id_eq ++ dec_of_N id ++ pe_sp_var_eq ++ v) with (105 :: (100 :: 61 :: dec_of_N id ++ pe_sp_var_eq ++ v)).
      eapply trim_space_word with (c' := vc) (m' := 105 :: 100 :: 61 :: dec_of_N id ++ pe_sp_var_eq ++ vm); [|reflexivity|exact Hvc].
      rewrite Ev. cbn [app]. rewrite <- !app_assoc. reflexivity. }
    rewrite Et. rewrite app_assoc. change (pe_sp_var_eq ++ v) with (32 :: (pe_var_eq ++ v)).
    apply fields_two; [exact Hne|discriminate|exact Hns|].
    apply Forall_app_2; [repeat constructor|exact Hvs].
  - rewrite app_nil_r. destruct (dec_of_N_last id) as (dm & dc & Ed & Hdc).
    assert (Et : trim_space (pe_id_eq ++ dec_of_N id) = pe_id_eq ++ dec_of_N id).
    { change (pe_id_eq ++ dec_of_N id) with (105 :: (100 :: 61 :: dec_of_N id)).
      eapply trim_space_word with (c' := dc) (m' := 105 :: 100 :: 61 :: dm); [rewrite Ed; reflexivity|reflexivity|].
      unfold is_space, in_range. lia. }
    rewrite Et. apply fields_one; assumption.
Qed.

Lemma reference_line_ok id pv : var_ok pv -> line_ok (pe_w_reference ++ pe_reference id pv).
Proof.
  intro Hv. unfold pe_reference.
  assert (Hd : nl_free (dec_of_N id)) by (eapply nl_free_weaken; [|apply dec_of_N_range]; cbn beta; intros; lia).
  destruct pv as [v|].
  - destruct Hv as (Hvne & Hvs & Hvn). split.
    + repeat apply nl_free_app; try exact Hd; try exact Hvn; repeat constructor; lia.
    + destruct (exists_last Hvne) as (vm & vc & Ev).
      assert (Hvc : is_space vc = false).
      { rewrite Ev in Hvs. apply Forall_app in Hvs. destruct Hvs as [_ Hl]. inversion Hl; assumption. }
      rewrite Ev. rewrite !app_assoc. apply drop_cr_last. intros ->. discriminate.
  - rewrite app_nil_r. split.
    + repeat apply nl_free_app; try exact Hd; repeat constructor; lia.
    + destruct (dec_of_N_last id) as (dm & dc & Ed & Hdc). rewrite Ed, !app_assoc. apply drop_cr_last. lia.
Qed.

(* what pomsg.newBundle takes from these references: that id (its decimal text) and that variable *)
Theorem refs_id_var id pv : pe_refs_id_var (refs_of id pv) None None = (Some (dec_of_N id), pv).
Proof. unfold refs_of. destruct pv as [v|]; reflexivity. Qed.

(* ------------------------------------------------------------------ *)
(* reading the comment lines of the extractor's entry                   *)
(* ------------------------------------------------------------------ *)

Definition not_extracted (rest : list bstr) : Prop :=
  match rest with l :: _ => is_prefix pe_r_extracted l = false | [] => False end.

Lemma r_mul_extracted : forall dl acc rest e fuel, not_extracted rest -> (length dl < fuel)%nat ->
  pe_r_mul fuel pe_r_extracted acc (scan_of (map (fun d => pe_w_extracted ++ d) dl ++ rest) e)
  = Ok (acc ++ map trim_space dl, scan_of rest e).
Proof.
  induction dl as [|d dl IH]; intros acc rest e fuel Hr Hf; (destruct fuel as [|fuel]; [cbn in Hf; lia|]).
  - cbn [map app pe_r_mul]. destruct rest as [|l rest]; [contradiction|]. unfold not_extracted in Hr.
    unfold sc_prefix. cbn [scan_of hd sc_cur]. rewrite Hr, app_nil_r. reflexivity.
  - cbn [map app pe_r_mul]. unfold sc_prefix at 1. cbn [scan_of hd sc_cur].
    change (is_prefix pe_r_extracted (pe_w_extracted ++ d)) with true. cbv iota.
    rewrite sc_scan_of.
    assert (Hne : map (fun d0 => pe_w_extracted ++ d0) dl ++ rest <> []).
    { destruct rest; [contradiction|]. destruct dl; discriminate. }
    destruct (map (fun d0 => pe_w_extracted ++ d0) dl ++ rest) as [|x xs] eqn:E; [congruence|]. rewrite <- E.
    rewrite IH by (auto; cbn in Hf; lia).
    unfold sc_txt. cbn [scan_of hd sc_cur]. change (drop (length pe_r_extracted) (pe_w_extracted ++ d)) with (32 :: d).
    rewrite trim_space_sp, <- app_assoc. reflexivity.
Qed.

Notation po_write_fields := (po_write_fields is_print).

(* the first line of the quoted fields carries a keyword, not a comment *)
Lemma fields_first (m : po_fields) : exists x more,
  po_write_fields m = (109 :: x) :: more.
Proof.
  unfold PoFile.po_write_fields, po_opt. destruct (pf_ctxt m).
  - destruct (po_quo_first is_print p_msgid (pf_id m)) as (x & more & E). cbn [app]. rewrite E. unfold p_msgid. cbn [app]. eexists; eexists; reflexivity.
  - destruct (po_quo_first is_print p_msgctxt (n :: b)) as (x & more & E). rewrite E. unfold p_msgctxt. cbn [app]. eexists; eexists; reflexivity.
Qed.

(* Parse's message literal on the lines of the extractor's entry (any description lines) *)
Theorem read_entry_lines (dl : list bstr) (id : N) (pv : option bstr) (f : po_fields) (tail : list bstr) (e : bool) :
  dl <> [] -> var_ok pv -> fields_bytes f -> blank_next tail ->
  pe_read_message
    (scan_of (map (fun d => pe_w_extracted ++ d) dl ++ (pe_w_reference ++ pe_reference id pv) :: po_write_fields f ++ tail) e)
  = Ok ({| pm_comment := {| pc_translator := []; pc_extracted := map trim_space dl; pc_refs := refs_of id pv; pc_flags := [];
                            pc_prev_ctxt := []; pc_prev_id := []; pc_prev_id_plural := [] |};
           pm_fields := {| pf_ctxt := pf_ctxt f; pf_id := pf_id f; pf_id_plural := pf_id_plural f; pf_str := norm_str f |} |},
        scan_of tail e).
Proof.
  intros Hdl Hv Hf Ht. unfold pe_read_message.
  set (L := map (fun d => pe_w_extracted ++ d) dl ++ (pe_w_reference ++ pe_reference id pv) :: po_write_fields f ++ tail).
  set (fuel := S (S (length (sc_rest (scan_of L e))))).
  (* "# " *)
  assert (E1 : pe_r_mul fuel pe_r_translator [] (scan_of L e) = Ok ([], scan_of L e)).
  { subst fuel. cbn [pe_r_mul]. subst L. destruct dl as [|d dl]; [congruence|]. reflexivity. }
  rewrite E1. cbn [bind].
  (* "#." *)
  assert (E2 : pe_r_mul fuel pe_r_extracted [] (scan_of L e)
               = Ok (map trim_space dl, scan_of ((pe_w_reference ++ pe_reference id pv) :: po_write_fields f ++ tail) e)).
  { subst L. rewrite r_mul_extracted; [reflexivity|reflexivity|].
    subst fuel. cbn [scan_of sc_rest]. destruct dl as [|d dl]; [congruence|]. cbn [map app tl length]. rewrite app_length, map_length. lia. }
  rewrite E2. cbn [bind].
  (* "#:" *)
  destruct (fields_first f) as (x & more & Ef).
  unfold pe_r_spc at 1. unfold sc_prefix at 1. cbn [scan_of hd sc_cur].
  change (is_prefix pe_r_reference (pe_w_reference ++ pe_reference id pv)) with true. cbv iota.
  unfold sc_txt. cbn [scan_of hd sc_cur]. change (drop (length pe_r_reference) (pe_w_reference ++ pe_reference id pv)) with (32 :: pe_reference id pv).
  rewrite reference_fields by exact Hv.
  rewrite sc_scan_of. cbn [snd].
  (* "#," and the three "#|" *)
  assert (Hnp : forall P, (exists P', P = 35 :: P') -> sc_prefix P (scan_of (po_write_fields f ++ tail) e) = false).
  { intros P (P' & ->). rewrite Ef. reflexivity. }
  unfold pe_r_spc, pe_r_one.
  rewrite (Hnp pe_r_flag) by (eexists; reflexivity).
  rewrite (Hnp pe_r_prev_ctxt) by (eexists; reflexivity).
  rewrite (Hnp pe_r_prev_id) by (eexists; reflexivity).
  rewrite (Hnp pe_r_prev_id_plural) by (eexists; reflexivity).
  (* the quoted fields *)
  rewrite po_fields_roundtrip by assumption. reflexivity.
Qed.

(* ------------------------------------------------------------------ *)
(* the same through the bytes of the file                              *)
(* ------------------------------------------------------------------ *)

Lemma split_nl_free : forall s cur, nl_free cur -> Forall nl_free (pe_split_nl cur s).
Proof.
  induction s as [|c s IH]; intros cur H; cbn [pe_split_nl]; [repeat constructor; exact H|].
  destruct (c =? 10) eqn:E.
  - constructor; [exact H|]. apply IH. constructor.
  - apply IH. apply nl_free_app; [exact H|]. repeat constructor. lia.
Qed.

Lemma split_nl_nonempty s cur : pe_split_nl cur s <> [].
Proof. revert cur; induction s as [|c s IH]; intro cur; cbn [pe_split_nl]; [discriminate|]. destruct (c =? 10); [discriminate|apply IH]. Qed.

Lemma drop_cr_extracted d : drop_cr (pe_w_extracted ++ d) = pe_w_extracted ++ drop_cr d.
Proof.
  change pe_w_extracted with ([35; 46] ++ [32]).
  destruct (drop_cr_prefix [35; 46] 32 d) as [E|[_ E]]; [exact E|discriminate].
Qed.

Lemma nl_free_drop_cr l : nl_free l -> nl_free (drop_cr l).
Proof.
  intro H. unfold drop_cr. destruct (rev l) as [|c r] eqn:E; [exact H|].
  destruct (N.eq_dec c 13) as [->|Hc].
  - assert (El : l = rev r ++ [13]) by (rewrite <- (rev_involutive l), E; reflexivity).
    rewrite El in H. apply Forall_app in H. destruct H as [H _]. exact H.
  - destruct c as [|p]; [exact H|]. do 4 (destruct p as [p|p|]; try exact H). congruence.
Qed.

(* the lines, as the reader gets them, of the bytes of one entry followed by an empty line and anything *)
Lemma entry_bytes_lines (dl : list bstr) id pv f rest : Forall nl_free dl -> var_ok pv ->
  scan_lines [] (join_lines (pe_write_message is_print {| pm_comment := pe_comment_of dl (pe_reference id pv); pm_fields := f |}) ++ 10 :: rest)
  = map (fun d => pe_w_extracted ++ d) (map drop_cr dl) ++ (pe_w_reference ++ pe_reference id pv) :: po_write_fields f ++ [] :: scan_lines [] rest.
Proof.
  intros Hdl Hv. unfold pe_write_message, pe_write_comment, pe_comment_of. cbn [pm_comment pm_fields pc_translator pc_extracted pc_refs pc_flags pc_prev_ctxt pc_prev_id pc_prev_id_plural].
  cbn [pe_w_mul map pe_w_spc pe_w_one pe_join_sp app]. rewrite <- app_assoc.
  set (W := pe_w_mul pe_w_extracted dl ++ [pe_w_reference ++ pe_reference id pv] ++ po_write_fields f).
  change (10 :: rest) with (([] ++ [10]) ++ rest).
  assert (Ej : forall r, join_lines W ++ ([] ++ [10]) ++ r = join_lines (W ++ [[]]) ++ r).
  { intro r. unfold join_lines. rewrite flat_map_app. cbn [flat_map]. rewrite app_nil_r. cbn [app]. rewrite <- app_assoc. reflexivity. }
  rewrite Ej. rewrite scan_lines_join_app.
  - subst W. rewrite !map_app. cbn [map].
    destruct (reference_line_ok id pv Hv) as [_ Er]. rewrite Er.
    assert (Efl : map drop_cr (po_write_fields f) = po_write_fields f) by (apply map_drop_cr_ok, fields_lines_ok).
    unfold bstr in *. rewrite Efl. unfold pe_w_mul. rewrite !map_map. rewrite drop_cr_nil.
    rewrite <- !app_assoc. cbn [app]. f_equal. apply map_ext. intro d. apply drop_cr_extracted.
  - subst W. apply Forall_app_2; [apply Forall_app_2|repeat constructor].
    + unfold pe_w_mul. apply Forall_forall. intros l Hl. apply in_map_iff in Hl. destruct Hl as (d & <- & Hd).
      apply nl_free_app; [repeat constructor; lia|]. rewrite Forall_forall in Hdl. apply Hdl. exact Hd.
    + cbn [app]. constructor; [apply reference_line_ok; exact Hv|].
      eapply Forall_impl; [|apply fields_lines_ok]. intros l [Hl _]. exact Hl.
Qed.

(* THE ENTRY OF THE EXTRACTOR, for every description: written by Message.WriteTo + the empty line of
   File.WriteTo, read as bytes by bufio.ScanLines and Parse's message literal: the references are
   "id=<id>" and, for a plural, "var=<name>"; msgctxt, msgid, msgid_plural, msgstr as written; the
   scanner stands on the empty line after the entry and has flagged no error. *)
Theorem extract_entry_roundtrip (desc : bstr) (id : N) (pv : option bstr) (f : po_fields) (rest : bstr) (e : bool) :
  var_ok pv -> fields_bytes f ->
  pe_read_message
    (scan_of (scan_lines [] (join_lines (pe_write_message is_print (pe_extract_entry desc id pv f)) ++ 10 :: rest)) e)
  = Ok ({| pm_comment := {| pc_translator := []; pc_extracted := map (fun d => trim_space (drop_cr d)) (pe_split_nl [] desc);
                            pc_refs := refs_of id pv; pc_flags := [];
                            pc_prev_ctxt := []; pc_prev_id := []; pc_prev_id_plural := [] |};
           pm_fields := {| pf_ctxt := pf_ctxt f; pf_id := pf_id f; pf_id_plural := pf_id_plural f; pf_str := norm_str f |} |},
        scan_of ([] :: scan_lines [] rest) e).
Proof.
  intros Hv Hf. unfold pe_extract_entry.
  rewrite entry_bytes_lines; [|apply split_nl_free; constructor|exact Hv].
  rewrite read_entry_lines; [rewrite map_map; reflexivity| |exact Hv|exact Hf|reflexivity].
  pose proof (split_nl_nonempty desc []) as H. destruct (pe_split_nl [] desc); [congruence|discriminate].
Qed.

(* ------------------------------------------------------------------ *)
(* the whole file: File.WriteTo, then the loop of po.Parse               *)
(* ------------------------------------------------------------------ *)

(* what the extractor knows of a message: description, id, plural variable, quoted fields *)
Definition xentry : Type := (bstr * N * option bstr * po_fields)%type.
Definition xentry_ok (t : xentry) : Prop := let '(_, _, pv, f) := t in var_ok pv /\ fields_bytes f.
Definition xentry_msg (t : xentry) : pe_message := let '(desc, id, pv, f) := t in pe_extract_entry desc id pv f.
(* ... and what Parse makes of its entry *)
Definition xentry_read (t : xentry) : pe_message :=
  let '(desc, id, pv, f) := t in
  {| pm_comment := {| pc_translator := []; pc_extracted := map (fun d => trim_space (drop_cr d)) (pe_split_nl [] desc);
                      pc_refs := refs_of id pv; pc_flags := [];
                      pc_prev_ctxt := []; pc_prev_id := []; pc_prev_id_plural := [] |};
     pm_fields := {| pf_ctxt := pf_ctxt f; pf_id := pf_id f; pf_id_plural := pf_id_plural f; pf_str := norm_str f |} |}.
Definition xentry_lines (t : xentry) : list bstr :=
  let '(desc, id, pv, f) := t in
  map (fun d => pe_w_extracted ++ d) (map drop_cr (pe_split_nl [] desc)) ++ (pe_w_reference ++ pe_reference id pv) :: po_write_fields f.

Lemma join_lines_app a c : join_lines (a ++ c) = join_lines a ++ join_lines c.
Proof. unfold join_lines. apply flat_map_app. Qed.

Lemma file_lines : forall es, Forall xentry_ok es ->
  scan_lines [] (pe_write_file is_print (map xentry_msg es)) = flat_map (fun t => xentry_lines t ++ [[]]) es.
Proof.
  induction es as [|t es IH]; intro H; [reflexivity|]. destruct t as [[[desc id] pv] f].
  inversion H as [|? ? Hok Hes]; subst. unfold xentry_ok in Hok. destruct Hok as [Hv Hf]. unfold pe_write_file in *. cbn [map flat_map xentry_msg].
  rewrite <- app_assoc, join_lines_app. change (join_lines ([[]] ++ ?x)) with (10 :: join_lines x).
  unfold pe_extract_entry. rewrite entry_bytes_lines; [|apply split_nl_free; constructor|exact Hv].
  rewrite IH by exact Hes. cbn [xentry_lines]. rewrite <- !app_assoc. reflexivity.
Qed.

Lemma trim_left_tail_len (x : bstr) : (2 <= length (trim_left (x ++ [46%N; 35%N])))%nat.
Proof.
  induction x as [|c x IH]; [vm_compute; lia|]. cbn [app trim_left]. destruct (is_space c); [exact IH|].
  cbn [length]. rewrite app_length. cbn. lia.
Qed.

Lemma extracted_line_counts d : Nat.ltb 1 (length (trim_space (pe_w_extracted ++ d))) = true.
Proof.
  apply Nat.ltb_lt. unfold trim_space. rewrite rev_length.
  change (trim_left (pe_w_extracted ++ d)) with (35 :: 46 :: 32 :: d).
  replace (rev (35 :: 46 :: 32 :: d)) with ((rev d ++ [32]) ++ [46; 35]) by (cbn [rev]; rewrite <- !app_assoc; reflexivity).
  pose proof (trim_left_tail_len (rev d ++ [32])). lia.
Qed.

Lemma xentry_lines_first t : exists d more, xentry_lines t = (pe_w_extracted ++ d) :: more.
Proof.
  destruct t as [[[desc id] pv] f]. cbn [xentry_lines]. pose proof (split_nl_nonempty desc []) as H.
  destruct (pe_split_nl [] desc) as [|d ds]; [congruence|]. cbn [map app]. eauto.
Qed.

(* one turn of the loop of Parse on an entry of the extractor *)
Lemma parse_turn t R c fuel : xentry_ok t ->
  '(more, s1) <- pe_nextmsg (S fuel) {| sc_cur := c; sc_rest := xentry_lines t ++ [] :: R; sc_err := false |} ;;
  (if negb more then Ok (None, s1) else '(m, s2) <- pe_read_message s1 ;; Ok (Some m, s2))
  = Ok (Some (xentry_read t), {| sc_cur := []; sc_rest := R; sc_err := false |}).
Proof.
  intro Hok. destruct (xentry_lines_first t) as (d & more & El).
  cbn [pe_nextmsg sc_err]. unfold sc_scan. cbn [sc_rest]. rewrite El. cbn [app sc_cur sc_err].
  rewrite extracted_line_counts. cbn [negb bind].
  change {| sc_cur := pe_w_extracted ++ d; sc_rest := more ++ [] :: R; sc_err := false |}
    with (scan_of (((pe_w_extracted ++ d) :: more) ++ [] :: R) false).
  rewrite <- El. destruct t as [[[desc id] pv] f]. destruct Hok as [Hv Hf]. cbn [xentry_lines].
  rewrite <- app_assoc. cbn [app].
  rewrite read_entry_lines; [cbn [bind xentry_read]; rewrite map_map; reflexivity| |exact Hv|exact Hf|reflexivity].
  pose proof (split_nl_nonempty desc []) as H. destruct (pe_split_nl [] desc); [congruence|discriminate].
Qed.

Lemma parse_loop_entries : forall es acc c fuel, Forall xentry_ok es -> (length es < fuel)%nat ->
  pe_parse_loop fuel acc {| sc_cur := c; sc_rest := flat_map (fun t => xentry_lines t ++ [[]]) es; sc_err := false |}
  = Ok (acc ++ map xentry_read es, {| sc_cur := []; sc_rest := []; sc_err := false |}).
Proof.
  induction es as [|t es IH]; intros acc c fuel H Hf; (destruct fuel as [|fuel]; [cbn in Hf; lia|]).
  - cbn [flat_map pe_parse_loop sc_rest length pe_nextmsg sc_err]. unfold sc_scan. cbn [sc_rest sc_err negb bind]. rewrite app_nil_r. reflexivity.
  - inversion H as [|? ? Ht Hes]; subst. cbn [flat_map pe_parse_loop sc_rest].
    rewrite <- app_assoc. cbn [app].
    pose proof (parse_turn t (flat_map (fun t0 => xentry_lines t0 ++ [[]]) es) c
                  (S (length (xentry_lines t ++ [] :: flat_map (fun t0 => xentry_lines t0 ++ [[]]) es))) Ht) as Hturn.
    destruct (pe_nextmsg _ _) as [[more s1]| | | | | ]; cbn [bind] in Hturn |- *; try discriminate.
    destruct more; cbn [negb] in Hturn |- *; [|discriminate].
    destruct (pe_read_message s1) as [[m s2]| | | | | ]; cbn [bind] in Hturn |- *; try discriminate.
    inversion Hturn; subst. rewrite IH; [|exact Hes|cbn in Hf; lia].
    cbn [map]. rewrite <- app_assoc. reflexivity.
Qed.

(* THE FILE xgettext-soy writes for any list of messages (any descriptions), read by po.Parse: every entry
   comes back, in order, with its references and quoted fields; no error *)
Theorem parse_extracted_file (es : list xentry) : Forall xentry_ok es ->
  pe_parse (pe_write_file is_print (map xentry_msg es)) = Ok (map xentry_read es).
Proof.
  intro H. unfold pe_parse. rewrite file_lines by exact H.
  rewrite parse_loop_entries; [reflexivity|exact H|].
  clear H. induction es as [|t es IH]; [cbn; lia|]. cbn [flat_map length]. rewrite !app_length.
  destruct (xentry_lines_first t) as (d & more & El). rewrite El. cbn [length] in *. lia.
Qed.

End Po.

(* ------------------------------------------------------------------ *)
(* before the repair                                                   *)
(* ------------------------------------------------------------------ *)

Definition ex_fields : po_fields :=
  {| pf_ctxt := []; pf_id := b "Hello {NAME}"; pf_id_plural := []; pf_str := [] |}.
Definition ex_desc : bstr := b "first line" ++ [10] ++ b "second line".

(* the description written as ONE "#. " value: its second line lands inside the entry, and the message
   Parse reads has no reference at all -- pomsg.newBundle: "no id found in message" *)
Theorem pinned_entry_loses_id :
  exists m s, pe_read_message
      (scan_of (scan_lines [] (join_lines (pe_write_message (fun _ => true) (pe_extract_entry_pinned ex_desc 42 None ex_fields)) ++ [10])) false)
    = Ok (m, s) /\ pc_refs (pm_comment m) = [] /\ pf_id (pm_fields m) = [].
Proof. eexists; eexists. vm_compute. repeat split. Qed.

(* the same entry after the repair, by the theorem's own instance *)
Example repaired_entry_keeps_id :
  exists m s, pe_read_message
      (scan_of (scan_lines [] (join_lines (pe_write_message (fun _ => true) (pe_extract_entry ex_desc 42 None ex_fields)) ++ [10])) false)
    = Ok (m, s) /\ pc_refs (pm_comment m) = [b "id=42"] /\ pf_id (pm_fields m) = b "Hello {NAME}"
       /\ pc_extracted (pm_comment m) = [b "first line"; b "second line"].
Proof. eexists; eexists. vm_compute. repeat split. Qed.
